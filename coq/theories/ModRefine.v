(* C14 - the Mechanism evaluator of the module mini-language refines the Spec evaluator:
   for every program, every fuel, the printed lines, the loader calls and the outcome are the same.
   (ModLang.run_task drives the event machine of Modules.v - registry, imported flag, frames, active-module
   register, three-way registry hit; ModLang.srun_task is the Spec - loaded / loading modules by path, failed
   imports leave nothing, globals are lexical.)

   The proof is a fuel-indexed simulation with the abstraction relation `Rel`: a path is Loaded / Loading in the Spec
   iff the registry maps it to an object that is imported / whose body is on the frame stack; its globals are the
   object's attributes (values translated by `tv`); a path unknown to the Spec is unregistered or the leftover of a
   failed import.  Code variant: hit_checks_loading = builtins_guarded = true (the code since 367eb72). *)
From Coq Require Import List String NArith Bool Arith Lia Sorted.
From YV Require Import Show Wire Modules ModuleSpec ModLang ModulesProofs.
Import ListNotations.
Open Scope list_scope.

Section Refine.
  Variable prog : program.
  Variable cm : list (list (list string)).
  Variable B C : list name.          (* names of init_built_in_globals; classes core.yl defines in main *)
  Variable fm : nat.
  Hypothesis core_in_builtins : forall c, In c C -> In c B.     (* main_only = [] *)

  Notation ld := (prog_loader prog).
  Notation cp := (prog_compiler prog cm).
  Notation stepP := (step nat (list top) ld cp B fm true true true).
  Notation InvP := (Inv B).

  Definition pth (st : state) (id : nat) : path := m_path (getmod st id).

  (* translation of values: a module object is known to the Spec by its path *)
  Definition tv (st : state) (v : value) : svalue :=
    match v with
    | VNil => SNil
    | VNum n => SNum n
    | VStr s => SStr s
    | VMod id => SMod (pth st id)
    | VFn m k => SFn (pth st m) k
    | VBuiltin b => SBuiltin b
    end.

  (* a value stored in the attributes of module object `owner`: module values are finished modules, function
     values were defined by the owner itself *)
  Definition vok (st : state) (owner : nat) (v : value) : Prop :=
    match v with
    | VMod id => settled st (pth st id) id
    | VFn m _ => m = owner
    | _ => True
    end.

  Definition aeq (st : state) (id : nat) (g : list (name * svalue)) : Prop :=
    (forall x, alookup g x = option_map (tv st) (alookup (attrs_of st id) x))
    /\ (forall x v, alookup (attrs_of st id) x = Some v -> vok st id v).

  Definition live (st : state) (id : nat) : Prop :=
    m_imported (getmod st id) = true \/ is_loading st id = true.

  Record Rel (st : state) (ss : sstate) : Prop := mkRel {
    r_loads : s_loads ss = loads st;
    r_some : forall p sm, alookup (s_mods ss) p = Some sm ->
             exists id, alookup (reg st) p = Some id
                        /\ m_imported (getmod st id) = (match s_status sm with Loaded => true | Loading => false end)
                        /\ (s_status sm = Loading -> is_loading st id = true)
                        /\ aeq st id (s_globals sm);
    r_none : forall p, alookup (s_mods ss) p = None ->
             alookup (reg st) p = None
             \/ exists id, alookup (reg st) p = Some id /\ m_imported (getmod st id) = false /\ is_loading st id = false
  }.

  (* every frame runs code of a module that is registered under its path and loaded or loading *)
  Definition FL (st : state) : Prop :=
    forall f, In f (frames st) -> alookup (reg st) (pth st (f_mod f)) = Some (f_mod f) /\ live st (f_mod f).

  Record ext (st st' : state) : Prop := mkExt {
    e_len : List.length (heap st) <= List.length (heap st');
    e_path : forall id, id < List.length (heap st) -> pth st' id = pth st id;
    e_settled : forall p id, settled st p id -> settled st' p id
  }.

  Definition vlocal (st : state) (v : value) : Prop :=
    match v with VMod id => settled st (pth st id) id | VFn _ _ => False | _ => True end.

  Definition envrel (st : state) (env : lenv) (senv : senv) : Prop :=
    Forall2 (Forall2 (fun a b => fst a = fst b /\ snd b = tv st (snd a) /\ vlocal st (snd a))) env senv.

  Definition excrel (st : state) (e : exc) (se : sexc) : Prop :=
    match e, se with
    | XErr er, SXErr er' => e_kind er = e_kind er' /\ first_line (e_msgs er) = first_line (e_msgs er')
    | XVal v, SXVal sv => sv = tv st v /\ (forall id, v <> VMod id) /\ (forall m k, v <> VFn m k)
    | _, _ => False
    end.

  (* ---- ext ---- *)
  Lemma ext_refl st : ext st st.
  Proof. constructor; auto. Qed.

  Lemma ext_trans a b c : ext a b -> ext b c -> ext a c.
  Proof.
    intros [l1 p1 s1] [l2 p2 s2]. constructor; [lia| |auto].
    intros id Hid. rewrite p2 by lia. apply p1; auto.
  Qed.

  Lemma settled_lt st p id : InvP st -> settled st p id -> id < List.length (heap st) /\ pth st id = p.
  Proof. intros I [Hr _]. apply (i_reg1 _ _ I _ _ Hr). Qed.

  Lemma tv_ext st st' v : ext st st' -> (forall id, v = VMod id -> id < List.length (heap st)) ->
    (forall m k, v = VFn m k -> m < List.length (heap st)) -> tv st' v = tv st v.
  Proof.
    intros E H1 H2. destruct v; simpl; auto.
    - rewrite (e_path _ _ E) by (apply (H1 id); auto). reflexivity.
    - rewrite (e_path _ _ E) by (apply (H2 m f); auto). reflexivity.
  Qed.

  Lemma vlocal_ext st st' v : InvP st -> ext st st' -> vlocal st v -> vlocal st' v /\ tv st' v = tv st v.
  Proof.
    intros I E H. destruct v; simpl in *; auto; try tauto.
    destruct (settled_lt st _ _ I H) as [Hlt _].
    rewrite (e_path _ _ E) by exact Hlt. split; auto. apply (e_settled _ _ E); auto.
  Qed.

  Lemma envrel_ext st st' env senv : InvP st -> ext st st' -> envrel st env senv -> envrel st' env senv.
  Proof.
    intros I E H. unfold envrel in *.
    induction H as [|sc ssc env senv Hsc _ IH]; constructor; auto.
    induction Hsc as [|a b sc ssc (H1 & H2 & H3) _ IH2]; constructor; auto.
    destruct (vlocal_ext st st' (snd a) I E H3) as [H4 H5]. rewrite H5. auto.
  Qed.

  Lemma lookup_local_rel st env senv nm :
    envrel st env senv ->
    match lookup_local env nm, slookup_local senv nm with
    | Some v, Some sv => sv = tv st v /\ vlocal st v
    | None, None => True
    | _, _ => False
    end.
  Proof.
    intros H. induction H as [|sc ssc env senv Hsc _ IH]; simpl; auto.
    assert (Hs : match alookup sc nm, alookup ssc nm with
                 | Some v, Some sv => sv = tv st v /\ vlocal st v
                 | None, None => True
                 | _, _ => False end).
    { induction Hsc as [|[k v] [k' sv] sc ssc (H1 & H2 & H3) _ IH2]; simpl in *; auto.
      subst k'. destruct (String.eqb k nm); auto. }
    destruct (alookup sc nm), (alookup ssc nm); auto; tauto.
  Qed.

  (* ---- small facts ---- *)
  Lemma with_ms_id x : with_ms x (ms x) = x.
  Proof. destruct x; reflexivity. Qed.

  Lemma live_not_leftover st id : live st id -> m_imported (getmod st id) = false -> is_loading st id = false -> False.
  Proof. intros [H|H] H1 H2; congruence. Qed.

  Lemma active_frame st : InvP st -> dead st = None -> exists f r, frames st = f :: r /\ active st = f_mod f.
  Proof.
    intros I Hd. pose proof (i_fr_ne _ _ I) as Hne. pose proof (i_act _ _ I Hd) as Ha.
    destruct (frames st) as [|f r] eqn:Ef; [congruence|]. exists f, r. split; auto.
    rewrite Ha. unfold top_mod. rewrite Ef. reflexivity.
  Qed.

  (* the Spec knows the module of the running code, as the object `active` *)
  Lemma sglobals_entry ss p sm : alookup (s_mods ss) p = Some sm -> sglobals ss p = s_globals sm.
  Proof. intros H. unfold sglobals. rewrite H. reflexivity. Qed.

  (* two registered objects of different paths are different objects *)
  Lemma reg_inj st p q i j : InvP st -> alookup (reg st) p = Some i -> alookup (reg st) q = Some j -> p <> q -> i <> j.
  Proof.
    intros I Hp Hq Hne ->. destruct (i_reg1 _ _ I _ _ Hp) as [_ H1]. destruct (i_reg1 _ _ I _ _ Hq) as [_ H2]. congruence.
  Qed.

  (* ---- updating one attribute of a module both sides know ---- *)
  Lemma pth_upd st i f id : pth (upd_attrs st i f) id = pth st id.
  Proof. apply getmod_upd_attrs_path. Qed.

  Lemma settled_upd st i f p id : settled (upd_attrs st i f) p id <-> settled st p id.
  Proof. unfold settled. rewrite getmod_upd_attrs_imported. simpl. tauto. Qed.

  Lemma tv_upd st i f v : tv (upd_attrs st i f) v = tv st v.
  Proof. destruct v; simpl; rewrite ?pth_upd; reflexivity. Qed.

  Lemma vok_upd st i f o v : vok (upd_attrs st i f) o v <-> vok st o v.
  Proof. destruct v; simpl; try tauto. rewrite pth_upd. apply settled_upd. Qed.

  Lemma ext_upd st i f : ext st (upd_attrs st i f).
  Proof.
    constructor.
    - simpl. rewrite upd_nth_length. lia.
    - intros. apply pth_upd.
    - intros p id H. apply settled_upd; auto.
  Qed.

  Lemma rel_upd st ss p id sm x v :
    InvP st -> Rel st ss -> alookup (reg st) p = Some id -> alookup (s_mods ss) p = Some sm -> vok st id v ->
    Rel (upd_attrs st id (fun a => ainsert a x v)) (set_sglobal ss p x (tv st v)).
  Proof.
    intros I R Hr Hs Hv. set (st' := upd_attrs st id (fun a => ainsert a x v)).
    destruct (i_reg1 _ _ I _ _ Hr) as [Hlt Hp].
    assert (Hil : forall j, is_loading st' j = is_loading st j) by reflexivity.
    unfold set_sglobal. rewrite Hs.
    constructor.
    - simpl. apply (r_loads _ _ R).
    - intros q sm' Hq. simpl in Hq. destruct (String.eqb p q) eqn:E.
      + apply String.eqb_eq in E; subst q. rewrite alookup_ainsert_same in Hq. inversion Hq; subst sm'. simpl.
        destruct (r_some _ _ R _ _ Hs) as (id' & H1 & H2 & H3 & [H4 H5]).
        rewrite Hr in H1. inversion H1; subst id'.
        exists id. split; [exact Hr|]. split; [unfold st'; rewrite getmod_upd_attrs_imported; exact H2|].
        split; [exact H3|]. split.
        * intros y. unfold st'. rewrite attrs_upd_attrs_same by exact Hlt.
          destruct (String.eqb x y) eqn:Exy.
          -- apply String.eqb_eq in Exy; subst y. rewrite !alookup_ainsert_same. simpl. now rewrite tv_upd.
          -- assert (x <> y) by (intros ->; rewrite String.eqb_refl in Exy; discriminate).
             rewrite !alookup_ainsert_other by auto. rewrite H4.
             destruct (alookup (attrs_of st id) y); simpl; auto. now rewrite tv_upd.
        * intros y w. unfold st'. rewrite attrs_upd_attrs_same by exact Hlt. intros Hy. apply vok_upd.
          destruct (String.eqb x y) eqn:Exy.
          -- apply String.eqb_eq in Exy; subst y. rewrite alookup_ainsert_same in Hy. inversion Hy; subst; auto.
          -- assert (x <> y) by (intros ->; rewrite String.eqb_refl in Exy; discriminate).
             rewrite alookup_ainsert_other in Hy by auto. eapply H5; eauto.
      + assert (Hne : p <> q) by (intros ->; rewrite String.eqb_refl in E; discriminate).
        rewrite alookup_ainsert_other in Hq by auto.
        destruct (r_some _ _ R _ _ Hq) as (id' & H1 & H2 & H3 & [H4 H5]).
        assert (Hid : id' <> id) by (apply (reg_inj st q p); auto).
        exists id'. split; [exact H1|]. split; [unfold st'; rewrite getmod_upd_attrs_imported; exact H2|].
        split; [exact H3|]. split.
        * intros y. unfold st'. rewrite attrs_upd_attrs_other by exact Hid. rewrite H4.
          destruct (alookup (attrs_of st id') y); simpl; auto. now rewrite tv_upd.
        * intros y w. unfold st'. rewrite attrs_upd_attrs_other by exact Hid. intros Hy. apply vok_upd. eapply H5; eauto.
    - intros q Hq. simpl in Hq. destruct (String.eqb p q) eqn:E.
      + apply String.eqb_eq in E; subst q. rewrite alookup_ainsert_same in Hq. discriminate.
      + assert (Hne : p <> q) by (intros ->; rewrite String.eqb_refl in E; discriminate).
        rewrite alookup_ainsert_other in Hq by auto.
        destruct (r_none _ _ R _ Hq) as [H|(id' & H1 & H2 & H3)]; [left; exact H|right].
        exists id'. split; [exact H1|]. split; [unfold st'; rewrite getmod_upd_attrs_imported; exact H2|exact H3].
  Qed.

  Lemma fl_upd st i f : FL st -> FL (upd_attrs st i f).
  Proof.
    intros H g Hg. destruct (H g Hg) as [H1 [H2|H2]]. rewrite pth_upd. split; [exact H1|].
    - left. rewrite getmod_upd_attrs_imported. exact H2.
    - rewrite pth_upd. split; [exact H1|]. right. exact H2.
  Qed.

  (* ---- states that differ only in frames / logs ---- *)
  Lemma pth_same st st' id : heap st' = heap st -> pth st' id = pth st id.
  Proof. intros H. unfold pth, getmod. now rewrite H. Qed.

  Lemma settled_same st st' p id : heap st' = heap st -> reg st' = reg st -> settled st' p id <-> settled st p id.
  Proof. intros H1 H2. unfold settled, getmod. rewrite H1, H2. tauto. Qed.

  Lemma tv_same st st' v : heap st' = heap st -> tv st' v = tv st v.
  Proof. intros H. destruct v; simpl; rewrite ?(pth_same st st') by exact H; reflexivity. Qed.

  Lemma vok_same st st' o v : heap st' = heap st -> reg st' = reg st -> vok st' o v <-> vok st o v.
  Proof.
    intros H1 H2. destruct v; simpl; try tauto. rewrite (pth_same st st') by exact H1. apply settled_same; auto.
  Qed.

  Lemma aeq_same st st' id g : heap st' = heap st -> reg st' = reg st -> aeq st id g -> aeq st' id g.
  Proof.
    intros H1 H2 [A1 A2]. unfold aeq, attrs_of, getmod in *. rewrite H1. split.
    - intros x. rewrite A1. destruct (alookup _ x); simpl; auto. now rewrite (tv_same st st').
    - intros x v Hx. apply (vok_same st st'); auto. eapply A2; eauto.
  Qed.

  Lemma rel_same st st' ss :
    heap st' = heap st -> reg st' = reg st -> loads st' = loads st ->
    (forall j, is_loading st' j = is_loading st j) -> Rel st ss -> Rel st' ss.
  Proof.
    intros H1 H2 H3 H4 R. constructor.
    - rewrite H3. apply (r_loads _ _ R).
    - intros p sm Hp. destruct (r_some _ _ R _ _ Hp) as (id & A & Bq & Cq & D).
      exists id. rewrite H2. unfold getmod. rewrite H1. split; auto. split; auto. split; [rewrite H4; auto|].
      apply (aeq_same st st'); auto.
    - intros p Hp. rewrite H2. destruct (r_none _ _ R _ Hp) as [H|(id & A & Bq & Cq)]; [left; auto|right].
      exists id. unfold getmod. rewrite H1, H4. auto.
  Qed.

  Lemma ext_same st st' : heap st' = heap st -> reg st' = reg st -> ext st st'.
  Proof.
    intros H1 H2. constructor.
    - rewrite H1. lia.
    - intros. apply pth_same; auto.
    - intros p id H. apply (settled_same st st'); auto.
  Qed.

  Lemma live_same st st' id :
    heap st' = heap st -> is_loading st' id = is_loading st id -> live st' id <-> live st id.
  Proof. intros H1 H2. unfold live, getmod. rewrite H1, H2. tauto. Qed.

  (* pushing the frame of a called function *)
  Definition pushed (st : state) (m : nat) : state := load_frame (set_frames st (mkframe m false false :: frames st)).

  Lemma is_loading_pushed st m j : is_loading (pushed st m) j = is_loading st j.
  Proof. reflexivity. Qed.

  Lemma fl_pushed st m : FL st -> alookup (reg st) (pth st m) = Some m -> live st m -> FL (pushed st m).
  Proof.
    intros H Hr Hl g [<-|Hg]; simpl.
    - split; [exact Hr|exact Hl].
    - destruct (H g Hg) as [H1 H2]. split; [exact H1|exact H2].
  Qed.

  (* popping it *)
  Definition popped (st : state) (fs : list frame) : state := load_frame (set_frames st fs).

  Lemma is_loading_popped st f0 fs j : frames st = f0 :: fs -> f_body f0 = false -> is_loading (popped st fs) j = is_loading st j.
  Proof. intros Ef Hb. unfold is_loading. simpl. rewrite Ef. simpl. rewrite Hb. reflexivity. Qed.

  Lemma fl_popped st f0 fs : frames st = f0 :: fs -> f_body f0 = false -> FL st -> FL (popped st fs).
  Proof.
    intros Ef Hb H g Hg. destruct (H g) as [H1 H2]; [rewrite Ef; right; exact Hg|].
    split; [exact H1|]. apply (live_same st (popped st fs)); auto. apply (is_loading_popped st f0); auto.
  Qed.

  (* ---- the start-up names of a fresh module ---- *)
  Definition ins_builtins (a : list (name * value)) : list (name * value) :=
    fold_left (fun acc b => ainsert acc b (VBuiltin b)) B a.

  Lemma alookup_fold_other (names : list name) (a : list (name * value)) c :
    ~ In c names -> alookup (fold_left (fun acc b => ainsert acc b (VBuiltin b)) names a) c = alookup a c.
  Proof.
    revert a; induction names as [|n names IH]; simpl; intros a H; auto.
    rewrite IH by tauto. apply alookup_ainsert_other. intros ->; tauto.
  Qed.

  Lemma alookup_fold_in (names : list name) (a : list (name * value)) x :
    In x names -> alookup (fold_left (fun acc b => ainsert acc b (VBuiltin b)) names a) x = Some (VBuiltin x).
  Proof.
    revert a. induction names as [|n r IH]; simpl; intros a H; [tauto|].
    destruct (in_dec string_dec x r) as [Hr|Hr]; [apply IH; auto|].
    destruct H as [->|H]; [|tauto].
    rewrite (alookup_fold_other r _ x Hr). apply alookup_ainsert_same.
  Qed.

  Lemma alookup_builtin_map (l : list name) x :
    alookup (map (fun b => (b, SBuiltin b)) l) x = if in_dec string_dec x l then Some (SBuiltin x) else None.
  Proof.
    induction l as [|b l IH]; simpl; auto.
    destruct (String.eqb b x) eqn:E.
    - apply String.eqb_eq in E; subst b. destruct (string_dec x x); [reflexivity|congruence].
    - assert (b <> x) by (intros ->; rewrite String.eqb_refl in E; discriminate).
      rewrite IH. destruct (string_dec b x); [congruence|]. destruct (in_dec string_dec x l); reflexivity.
  Qed.

  Lemma startup_lookup st x :
    alookup (startup_globals (B ++ C)) x = option_map (tv st) (alookup (ins_builtins []) x).
  Proof.
    unfold startup_globals, ins_builtins. rewrite alookup_builtin_map.
    destruct (in_dec string_dec x (B ++ C)) as [H|H].
    - assert (Hb : In x B) by (apply in_app_or in H; destruct H; auto).
      rewrite (alookup_fold_in B [] x Hb). reflexivity.
    - assert (Hb : ~ In x B) by (intros Hb; apply H; apply in_or_app; auto).
      rewrite (alookup_fold_other B [] x Hb). reflexivity.
  Qed.

  Lemma ins_builtins_values x v : alookup (ins_builtins []) x = Some v -> v = VBuiltin x.
  Proof.
    unfold ins_builtins. intros H. destruct (in_dec string_dec x B) as [Hb|Hb].
    - rewrite (alookup_fold_in B [] x Hb) in H. congruence.
    - rewrite (alookup_fold_other B [] x Hb) in H. discriminate.
  Qed.

  (* ---- entering the body of a freshly loaded module ---- *)
  Definition entered (st0 : state) (p : path) : state :=
    let id := List.length (heap st0) in
    init_builtins B id (log_ran id (load_frame (set_frames (created (log_load p st0) p) (mkframe id true false :: frames st0)))).

  Lemma load_and_run_enter st0 p s b :
    alookup (reg st0) p = None -> ld p = LoadOk s -> cp p s = CompOk b -> fiber_depth (frames st0) <> fm ->
    load_and_run nat (list top) ld cp B fm true st0 p = (entered st0 p, OEntered (List.length (heap st0)) b).
  Proof.
    intros Hr Hl Hc Hne. unfold load_and_run. rewrite Hl, Hc.
    rewrite get_or_create_none by (simpl; exact Hr).
    unfold call_closure. apply Nat.eqb_neq in Hne.
    change (fiber_depth (frames (created (log_load p st0) p))) with (fiber_depth (frames st0)). rewrite Hne.
    cbn [fst snd negb orb]. unfold entered. simpl.
    rewrite Nat.eqb_refl. reflexivity.
  Qed.

  Lemma getmod_entered_old st0 p j : j < List.length (heap st0) -> getmod (entered st0 p) j = getmod st0 j.
  Proof.
    intros Hj. unfold entered, init_builtins, upd_attrs, getmod. simpl.
    rewrite nth_upd_nth_neq by lia. now rewrite app_nth1.
  Qed.

  Lemma getmod_entered_new st0 p :
    getmod (entered st0 p) (List.length (heap st0)) = mkmod p false (ins_builtins []).
  Proof.
    unfold entered, init_builtins, upd_attrs, getmod. simpl.
    rewrite nth_upd_nth_eq by (rewrite app_length; simpl; lia).
    rewrite app_nth2 by lia. rewrite Nat.sub_diag. reflexivity.
  Qed.

  Lemma is_loading_entered st0 p j :
    is_loading (entered st0 p) j = Nat.eqb (List.length (heap st0)) j || is_loading st0 j.
  Proof. reflexivity. Qed.

  Lemma reg_entered st0 p : reg (entered st0 p) = reg st0 ++ [(p, List.length (heap st0))].
  Proof. reflexivity. Qed.

  (* st0: the state the loader is reached in: st itself, or st with the leftover entry of p removed *)
  Record prep (st st0 : state) (p : path) : Prop := mkPrep {
    p_heap : heap st0 = heap st;
    p_frames : frames st0 = frames st;
    p_loads : loads st0 = loads st;
    p_hand : handlers st0 = handlers st;
    p_deadst : dead st0 = dead st;
    p_none : alookup (reg st0) p = None;
    p_other : forall q, q <> p -> alookup (reg st0) q = alookup (reg st) q;
    p_dead : forall id, alookup (reg st) p = Some id -> m_imported (getmod st id) = false /\ is_loading st id = false
  }.

  Lemma prep_absent st p : alookup (reg st) p = None -> prep st st p.
  Proof. intros H. constructor; auto. intros id Hid. congruence. Qed.

  Lemma prep_leftover st p old :
    alookup (reg st) p = Some old -> m_imported (getmod st old) = false -> is_loading st old = false ->
    prep st (set_reg st (aremove (reg st) p)) p.
  Proof.
    intros H1 H2 H3. constructor; auto; simpl.
    - rewrite alookup_aremove, String.eqb_refl. reflexivity.
    - intros q Hq. rewrite alookup_aremove. destruct (String.eqb p q) eqn:E; auto.
      apply String.eqb_eq in E. congruence.
    - intros id Hid. rewrite H1 in Hid. inversion Hid; subst. auto.
  Qed.

  Lemma rel_enter st st0 ss p :
    InvP st -> Rel st ss -> FL st -> prep st st0 p -> alookup (s_mods ss) p = None ->
    let st1 := entered st0 p in
    Rel st1 (spec_begin (B ++ C) (mksstate (s_mods ss) (p :: s_loads ss) (s_ran ss) (s_old ss)) p)
    /\ FL st1 /\ ext st st1.
  Proof.
    intros I R F P Hs st1. destruct P as [Ph Pf Pl Phd Pds Pn Po Pd].
    set (id := List.length (heap st0)).
    assert (Hid : id = List.length (heap st)) by (unfold id; rewrite Ph; reflexivity).
    assert (Hold : forall j, j < List.length (heap st) -> getmod st1 j = getmod st j).
    { intros j Hj. unfold st1. rewrite getmod_entered_old by (rewrite Ph; exact Hj). unfold getmod. now rewrite Ph. }
    assert (Hpold : forall j, j < List.length (heap st) -> pth st1 j = pth st j).
    { intros j Hj. unfold pth. now rewrite Hold. }
    assert (Hreg_other : forall q i, q <> p -> alookup (reg st) q = Some i -> alookup (reg st1) q = Some i).
    { intros q i Hq Hi. unfold st1. rewrite reg_entered. apply alookup_app_some. rewrite Po; auto. }
    assert (Hreg_none : forall q, q <> p -> alookup (reg st) q = None -> alookup (reg st1) q = None).
    { intros q Hq Hn. unfold st1. rewrite reg_entered. rewrite alookup_app_none by (rewrite Po; auto).
      destruct (String.eqb p q) eqn:E; auto. apply String.eqb_eq in E. congruence. }
    assert (Hset : forall q i, settled st q i -> settled st1 q i).
    { intros q i [H1 H2]. destruct (i_reg1 _ _ I _ _ H1) as [Hlt _].
      assert (q <> p) by (intros ->; destruct (Pd _ H1); congruence).
      split; [apply Hreg_other; auto|]. rewrite Hold; auto. }
    assert (Htv : forall o v, o < List.length (heap st) -> vok st o v -> tv st1 v = tv st v /\ vok st1 o v).
    { intros o v Ho Hv. destruct v; simpl in *; auto.
      - destruct (i_reg1 _ _ I _ _ (proj1 Hv)) as [Hlt _]. rewrite Hpold by exact Hlt. split; auto.
      - subst m. rewrite Hpold by exact Ho. auto. }
    assert (Haeq : forall j g, j < List.length (heap st) -> aeq st j g -> aeq st1 j g).
    { intros j g Hj [A1 A2]. unfold aeq, attrs_of. rewrite Hold by exact Hj. split.
      - intros x. rewrite A1. unfold attrs_of. destruct (alookup (m_attrs (getmod st j)) x) eqn:E; simpl; auto.
        f_equal. symmetry. apply (Htv j); auto. eapply A2; eauto.
      - intros x v Hx. apply (Htv j); auto. eapply A2; eauto. }
    assert (Hload : forall j, is_loading st1 j = Nat.eqb id j || is_loading st j).
    { intros j. unfold st1. rewrite is_loading_entered. unfold is_loading. rewrite Pf. reflexivity. }
    split; [|split].
    - constructor.
      + simpl. rewrite Pl. f_equal. apply (r_loads _ _ R).
      + intros q sm Hq. simpl in Hq. destruct (String.eqb p q) eqn:E.
        * apply String.eqb_eq in E; subst q. rewrite alookup_ainsert_same in Hq. inversion Hq; subst sm. simpl.
          exists id. split; [rewrite (alookup_app_none _ _ _ _ _ Pn), String.eqb_refl; reflexivity|].
          replace (getmod st1 id) with (mkmod p false (ins_builtins [])) by (symmetry; apply getmod_entered_new). simpl. split; auto.
          split; [intros _; rewrite Hload, Nat.eqb_refl; reflexivity|].
          unfold aeq, attrs_of. replace (getmod st1 id) with (mkmod p false (ins_builtins [])) by (symmetry; apply getmod_entered_new). simpl. split.
          -- intros x. apply startup_lookup.
          -- intros x v Hx. rewrite (ins_builtins_values _ _ Hx). exact Logic.I.
        * assert (Hne : p <> q) by (intros ->; rewrite String.eqb_refl in E; discriminate).
          rewrite alookup_ainsert_other in Hq by auto.
          destruct (r_some _ _ R _ _ Hq) as (i & H1 & H2 & H3 & H4).
          destruct (i_reg1 _ _ I _ _ H1) as [Hlt _].
          exists i. split; [apply Hreg_other; auto|]. rewrite Hold by exact Hlt. split; auto.
          split; [intros Hl; rewrite Hload, (H3 Hl); apply orb_true_r|]. apply Haeq; auto.
      + intros q Hq. simpl in Hq. destruct (String.eqb p q) eqn:E.
        * apply String.eqb_eq in E; subst q. rewrite alookup_ainsert_same in Hq. discriminate.
        * assert (Hne : p <> q) by (intros ->; rewrite String.eqb_refl in E; discriminate).
          rewrite alookup_ainsert_other in Hq by auto.
          destruct (r_none _ _ R _ Hq) as [H|(i & H1 & H2 & H3)]; [left; apply Hreg_none; auto|right].
          destruct (i_reg1 _ _ I _ _ H1) as [Hlt _].
          exists i. split; [apply Hreg_other; auto|]. rewrite Hold by exact Hlt. split; auto.
          rewrite Hload, H3. assert (id <> i) by lia. apply Nat.eqb_neq in H. rewrite H. reflexivity.
    - intros g [<-|Hg].
      + simpl. fold id. unfold pth. unfold st1, id. rewrite getmod_entered_new. simpl.
        split; [rewrite (alookup_app_none _ _ _ _ _ Pn), String.eqb_refl; reflexivity|].
        right. rewrite is_loading_entered, Nat.eqb_refl. reflexivity.
      + rewrite Pf in Hg. destruct (F g Hg) as [H1 H2].
        pose proof (i_fr_ok _ _ I g Hg) as Hlt.
        rewrite Hpold by exact Hlt.
        assert (Hne : pth st (f_mod g) <> p).
        { intros E. rewrite E in H1. destruct (Pd _ H1). eapply live_not_leftover; eauto. }
        split; [apply Hreg_other; auto|].
        unfold live. rewrite Hold by exact Hlt. rewrite Hload. destruct H2 as [H2|H2]; [left; auto|right].
        rewrite H2. apply orb_true_r.
    - constructor.
      + unfold st1, entered. simpl. rewrite upd_nth_length, app_length, Ph. simpl. lia.
      + exact Hpold.
      + exact Hset.
  Qed.

  (* ---- a module body returns: FinishImport ---- *)
  Definition finished (st : state) (fs : list frame) (id : nat) : state :=
    log_yield (pth st id) id (set_imported (load_frame (set_frames st fs)) id).

  Lemma getmod_finished_other st fs id j : j <> id -> getmod (finished st fs id) j = getmod st j.
  Proof. intros H. unfold finished, set_imported, getmod. simpl. now rewrite nth_upd_nth_neq. Qed.

  Lemma pth_finished st fs id j : pth (finished st fs id) j = pth st j.
  Proof. unfold pth, finished, set_imported, getmod. simpl. apply (nth_upd_nth_proj _ _ m_path); auto. Qed.

  Lemma attrs_finished st fs id j : attrs_of (finished st fs id) j = attrs_of st j.
  Proof. unfold attrs_of, finished, set_imported, getmod. simpl. apply (nth_upd_nth_proj _ _ m_attrs); auto. Qed.

  Lemma imported_finished_self st fs id : id < List.length (heap st) -> m_imported (getmod (finished st fs id) id) = true.
  Proof. intros H. unfold finished, set_imported, getmod. simpl. now rewrite nth_upd_nth_eq. Qed.

  Lemma imported_finished_mono st fs id j :
    m_imported (getmod st j) = true -> m_imported (getmod (finished st fs id) j) = true.
  Proof. intros H. apply (set_imported_mono (load_frame (set_frames st fs))). exact H. Qed.

  Lemma settled_finished st fs id q i : settled st q i -> settled (finished st fs id) q i.
  Proof. intros [H1 H2]. split; [exact H1|apply imported_finished_mono; exact H2]. Qed.

  Lemma tv_finished st fs id v : tv (finished st fs id) v = tv st v.
  Proof. destruct v; simpl; rewrite ?pth_finished; reflexivity. Qed.

  Lemma vok_finished st fs id o v : vok st o v -> vok (finished st fs id) o v.
  Proof. destruct v; simpl; auto. rewrite pth_finished. apply settled_finished. Qed.

  Lemma aeq_finished st fs id j g : aeq st j g -> aeq (finished st fs id) j g.
  Proof.
    intros [A1 A2]. unfold aeq. rewrite attrs_finished. split.
    - intros x. rewrite A1. destruct (alookup (attrs_of st j) x); simpl; auto. now rewrite tv_finished.
    - intros x v Hx. apply vok_finished. eapply A2; eauto.
  Qed.

  Lemma is_loading_tail st f0 fs j :
    frames st = f0 :: fs -> is_loading st j = (f_body f0 && Nat.eqb (f_mod f0) j) || existsb (fun f => f_body f && Nat.eqb (f_mod f) j) fs.
  Proof. intros E. unfold is_loading. rewrite E. reflexivity. Qed.

  Lemma rel_finish st ss f0 fs p sm :
    InvP st -> Rel st ss -> FL st -> frames st = f0 :: fs -> f_body f0 = true -> pth st (f_mod f0) = p ->
    alookup (s_mods ss) p = Some sm ->
    let st3 := finished st fs (f_mod f0) in
    Rel st3 (spec_finish ss p true) /\ FL st3 /\ ext st st3 /\ settled st3 p (f_mod f0).
  Proof.
    intros I R F Ef Hb Hp Hs st3. set (id := f_mod f0) in *.
    assert (Hf0 : In f0 (frames st)) by (rewrite Ef; left; auto).
    destruct (i_loading _ _ I f0 Hf0 Hb) as [Hreg Himp]. fold id in Hreg, Himp.
    unfold registered in Hreg. change (m_path (getmod st id)) with (pth st id) in Hreg. rewrite Hp in Hreg.
    pose proof (i_fr_ok _ _ I f0 Hf0) as Hlt. fold id in Hlt.
    assert (Hnl : existsb (fun f => f_body f && Nat.eqb (f_mod f) id) fs = false).
    { pose proof (i_body_nd _ _ I) as Hnd. rewrite Ef in Hnd. unfold body_mods in Hnd.
      change (filter f_body (f0 :: fs)) with (if f_body f0 then f0 :: filter f_body fs else filter f_body fs) in Hnd.
      rewrite Hb in Hnd. change (NoDup (id :: map f_mod (filter f_body fs))) in Hnd.
      inversion Hnd as [|? ? Hnin _].
      destruct (existsb (fun f => f_body f && Nat.eqb (f_mod f) id) fs) eqn:E; auto.
      exfalso. apply Hnin. apply existsb_exists in E. destruct E as (g & Hg & Hg2).
      apply andb_true_iff in Hg2. destruct Hg2 as [Hg2 Hg3]. apply Nat.eqb_eq in Hg3. rewrite <- Hg3.
      apply (in_map f_mod (filter f_body fs) g). apply (proj2 (filter_In f_body g fs)). auto. }
    assert (Hload3 : forall j, is_loading st3 j = existsb (fun f => f_body f && Nat.eqb (f_mod f) j) fs) by reflexivity.
    assert (Hload_sub : forall j, j <> id -> is_loading st3 j = is_loading st j).
    { intros j Hj. rewrite Hload3, (is_loading_tail st f0 fs j Ef). fold id.
      assert (Nat.eqb id j = false) by (apply Nat.eqb_neq; auto). rewrite H, andb_false_r. reflexivity. }
    unfold spec_finish. rewrite Hs.
    split; [|split; [|split]].
    - constructor.
      + simpl. apply (r_loads _ _ R).
      + intros q sm' Hq. simpl in Hq. destruct (String.eqb p q) eqn:E.
        * apply String.eqb_eq in E; subst q. rewrite alookup_ainsert_same in Hq. inversion Hq; subst sm'. simpl.
          destruct (r_some _ _ R _ _ Hs) as (i & H1 & _ & _ & H4). rewrite Hreg in H1. inversion H1; subst i.
          exists id. split; [exact Hreg|]. split; [apply imported_finished_self; exact Hlt|].
          split; [discriminate|]. apply aeq_finished; exact H4.
        * assert (Hne : p <> q) by (intros ->; rewrite String.eqb_refl in E; discriminate).
          rewrite alookup_ainsert_other in Hq by auto.
          destruct (r_some _ _ R _ _ Hq) as (i & H1 & H2 & H3 & H4).
          assert (Hi : i <> id) by (apply (reg_inj st q p); auto).
          exists i. split; [exact H1|]. unfold st3. rewrite getmod_finished_other by exact Hi. split; [exact H2|].
          split; [intros Hl; fold st3; rewrite Hload_sub by exact Hi; auto|]. apply aeq_finished; exact H4.
      + intros q Hq. simpl in Hq. destruct (String.eqb p q) eqn:E.
        * apply String.eqb_eq in E; subst q. rewrite alookup_ainsert_same in Hq. discriminate.
        * assert (Hne : p <> q) by (intros ->; rewrite String.eqb_refl in E; discriminate).
          rewrite alookup_ainsert_other in Hq by auto.
          destruct (r_none _ _ R _ Hq) as [H|(i & H1 & H2 & H3)]; [left; exact H|right].
          assert (Hi : i <> id) by (apply (reg_inj st q p); auto).
          exists i. split; [exact H1|]. unfold st3. rewrite getmod_finished_other by exact Hi. split; [exact H2|].
          fold st3. rewrite Hload_sub by exact Hi. exact H3.
    - intros g Hg. simpl in Hg. destruct (F g) as [H1 H2]; [rewrite Ef; right; exact Hg|].
      unfold st3. rewrite pth_finished. split; [exact H1|].
      destruct H2 as [H2|H2]; [left; apply imported_finished_mono; exact H2|].
      destruct (Nat.eq_dec (f_mod g) id) as [E|E].
      + left. rewrite E. apply imported_finished_self; exact Hlt.
      + right. fold st3. rewrite Hload_sub by exact E. exact H2.
    - constructor.
      + unfold st3, finished. simpl. rewrite upd_nth_length. lia.
      + intros j _. apply pth_finished.
      + intros q i H. apply settled_finished; exact H.
    - split; [exact Hreg|apply imported_finished_self; exact Hlt].
  Qed.

  (* ============================================================================================ *)
  (* the simulation *)
  Notation RT := (run_task prog cm B fm true true true true).
  Notation ST := (srun_task prog (B ++ C) fm).
  Notation GG := (get_global prog cm B fm true true true).
  Notation DS := (do_step prog cm B fm true true true).

  Definition curp (x : xst) : path := pth (ms x) (active (ms x)).

  Lemma display_tv st v : display_s (tv st v) = display_m st v.
  Proof. destruct v; reflexivity. Qed.

  Lemma raise_dead st ex : handlers st = [] -> raise (list top) st ex = (fst (raise (list top) st ex), ODead ex).
  Proof. intros H. unfold raise. rewrite H. reflexivity. Qed.

  Definition modok (st : state) (v : value) : Prop := forall id, v = VMod id -> settled st (pth st id) id.

  Lemma vok_modok st o v : vok st o v -> modok st v.
  Proof. intros H id ->. exact H. Qed.

  Lemma vlocal_modok st v : vlocal st v -> modok st v.
  Proof. intros H id ->. exact H. Qed.

  Lemma mod_entry st ss p id :
    Rel st ss -> settled st p id -> exists sm, alookup (s_mods ss) p = Some sm /\ aeq st id (s_globals sm).
  Proof.
    intros R [H1 H2]. destruct (alookup (s_mods ss) p) as [sm|] eqn:E.
    - exists sm. split; auto. destruct (r_some _ _ R _ _ E) as (i & A & _ & _ & D). rewrite H1 in A. inversion A; subst; auto.
    - exfalso. destruct (r_none _ _ R _ E) as [H|(i & A & Bq & _)]; [congruence|].
      rewrite H1 in A. inversion A; subst. congruence.
  Qed.

  (* ---- try-free programs ---- *)
  Fixpoint tf_stmt (s : stmt) : bool :=
    let fix tf_list (l : list stmt) : bool := match l with [] => true | a :: r => tf_stmt a && tf_list r end in
    match s with
    | STry _ => false
    | SBlock b => tf_list b
    | _ => true
    end.

  Lemma tf_block b : tf_stmt (SBlock b) = forallb tf_stmt b.
  Proof. simpl. induction b as [|a b IH]; simpl; auto; try (rewrite IH; reflexivity). Qed.

  Definition tf_top (t : top) : bool :=
    match t with TStmt s => tf_stmt s | TDef _ _ => true | TFn _ b => forallb tf_stmt b end.
  Definition tf_mod (m : modsrc) : bool := match m with MOk ts => forallb tf_top ts | _ => true end.
  Definition tf_prog : bool := forallb tf_mod prog.

  Definition tf_task (tk : task) : bool :=
    match tk with
    | TkExec l _ => forallb tf_stmt l
    | TkExec1 s _ => tf_stmt s
    | TkCall _ _ => true
    | TkFiber _ _ _ => true
    | TkTops ts _ => forallb tf_top ts
    | TkGen _ _ _ _ _ => true
    end.

  Lemma find_fn_in_tf ts i key body : forallb tf_top ts = true -> find_fn_in ts i key = Some body -> forallb tf_stmt body = true.
  Proof.
    induction ts as [|t ts IH]; simpl; [discriminate|]. intros H. apply andb_true_iff in H. destruct H as [H1 H2].
    destruct t; auto. destruct (String.eqb (fn_key i f) key); auto. intros E; inversion E; subst; auto.
  Qed.

  Lemma find_fn_from_tf l i key body :
    forallb tf_mod l = true -> find_fn_from l i key = Some body -> forallb tf_stmt body = true.
  Proof.
    revert i. induction l as [|m l IH]; simpl; intros i; [discriminate|]. intros H. apply andb_true_iff in H. destruct H as [H1 H2].
    destruct m; try (apply IH; exact H2).
    destruct (find_fn_in ts i key) eqn:E; [|apply IH; exact H2]. intros E2; inversion E2; subst.
    eapply find_fn_in_tf; eauto.
  Qed.

  Lemma find_fn_tf key body : tf_prog = true -> find_fn prog key = Some body -> forallb tf_stmt body = true.
  Proof. apply find_fn_from_tf. Qed.

  Lemma compiled_tf P i ts : tf_prog = true -> cp P i = CompOk ts -> forallb tf_top ts = true.
  Proof.
    unfold tf_prog, prog_compiler. intros H. destruct (nth_error prog i) as [[ts'| |k]|] eqn:E; try discriminate.
    intros E2; inversion E2; subst. apply nth_error_In in E.
    rewrite forallb_forall in H. apply (H _ E).
  Qed.

  (* ---- escape-free programs: no function value is stored in another module (SSetAttrFn) ---- *)
  Fixpoint ef_stmt (s : stmt) : bool :=
    let fix ef_list (l : list stmt) : bool := match l with [] => true | a :: r => ef_stmt a && ef_list r end in
    match s with
    | SSetAttrFn _ _ _ => false
    | SYield | SGen _ _ _ => false      (* generator fibers (round 7): compared by evaluation, not in the proved fragment *)
    | STry b | SBlock b | SLamCall b => ef_list b
    | _ => true
    end.

  Lemma ef_try b : ef_stmt (STry b) = forallb ef_stmt b.
  Proof. simpl. induction b as [|a b IH]; simpl; auto; try (rewrite IH; reflexivity). Qed.
  Lemma ef_block b : ef_stmt (SBlock b) = forallb ef_stmt b.
  Proof. simpl. induction b as [|a b IH]; simpl; auto; try (rewrite IH; reflexivity). Qed.
  Lemma ef_lam b : ef_stmt (SLamCall b) = forallb ef_stmt b.
  Proof. simpl. induction b as [|a b IH]; simpl; auto; try (rewrite IH; reflexivity). Qed.

  Definition ef_top (t : top) : bool :=
    match t with TStmt s => ef_stmt s | TDef _ _ => true | TFn _ b => forallb ef_stmt b end.
  Definition ef_mod (m : modsrc) : bool := match m with MOk ts => forallb ef_top ts | _ => true end.
  Definition ef_prog : bool := forallb ef_mod prog.

  Definition ef_task (tk : task) : bool :=
    match tk with
    | TkExec l _ => forallb ef_stmt l
    | TkExec1 s _ => ef_stmt s
    | TkCall _ _ => true
    | TkFiber _ _ _ => true
    | TkTops ts _ => forallb ef_top ts
    | TkGen _ _ _ _ _ => false
    end.

  Lemma find_fn_in_ef ts i key body : forallb ef_top ts = true -> find_fn_in ts i key = Some body -> forallb ef_stmt body = true.
  Proof.
    induction ts as [|t ts IH]; simpl; [discriminate|]. intros H. apply andb_true_iff in H. destruct H as [H1 H2].
    destruct t; auto. destruct (String.eqb (fn_key i f) key); auto. intros E; inversion E; subst; auto.
  Qed.

  Lemma find_fn_from_ef l i key body :
    forallb ef_mod l = true -> find_fn_from l i key = Some body -> forallb ef_stmt body = true.
  Proof.
    revert i. induction l as [|m l IH]; simpl; intros i; [discriminate|]. intros H. apply andb_true_iff in H. destruct H as [H1 H2].
    destruct m; try (apply IH; exact H2).
    destruct (find_fn_in ts i key) eqn:E; [|apply IH; exact H2]. intros E2; inversion E2; subst.
    eapply find_fn_in_ef; eauto.
  Qed.

  Lemma find_fn_ef key body : ef_prog = true -> find_fn prog key = Some body -> forallb ef_stmt body = true.
  Proof. apply find_fn_from_ef. Qed.

  Lemma compiled_ef P i ts : ef_prog = true -> cp P i = CompOk ts -> forallb ef_top ts = true.
  Proof.
    unfold ef_prog, prog_compiler. intros H. destruct (nth_error prog i) as [[ts'| |k]|] eqn:E; try discriminate.
    intros E2; inversion E2; subst. apply nth_error_In in E.
    rewrite forallb_forall in H. apply (H _ E).
  Qed.

  Hypothesis Hef : ef_prog = true.

  (* the two compiler oracles (with and without the messages) agree on success *)
  Lemma comp_rel P i :
    match cp P i, prog_compiler prog [] P i with
    | CompOk b, CompOk b' => b = b'
    | CompErr _, CompErr _ => True
    | _, _ => False
    end.
  Proof. unfold prog_compiler. destruct (nth_error prog i) as [[ts| |k]|]; auto. Qed.

  Lemma path_index_mod_path n k : path_index (mod_path n) = Some k -> k = n.
  Proof.
    do 5 (destruct n as [|n]; [vm_compute; intros E; inversion E; reflexivity|]).
    vm_compute. discriminate.
  Qed.

  Lemma loader_index P s : ld P = LoadOk s -> path_index P = Some s.
  Proof.
    unfold prog_loader. destruct (path_index P) as [[|i]|]; try discriminate.
    destruct (nth_error prog (S i)) as [[ts| |k]|]; try discriminate; intros E; inversion E; reflexivity.
  Qed.

  Definition task_rel (st : state) (tk : task) (stk : stask) : Prop :=
    match tk, stk with
    | TkExec l env, SkExec l' senv => l = l' /\ envrel st env senv
    | TkExec1 s env, SkExec1 s' senv => s = s' /\ envrel st env senv
    | TkCall env w, SkCall senv sw =>
      envrel st env senv /\ sw = tv st w
      /\ (forall m key, w = VFn m key -> alookup (reg st) (pth st m) = Some m /\ live st m)
    | TkFiber k f env, SkFiber k' f' senv => k = k' /\ f = f' /\ envrel st env senv
    | TkTops ts src, SkTops ts' src' => ts = ts' /\ src = src'
    | _, _ => False
    end.

  Lemma sx_eta (q : sx) : mksx (ss q) (sout q) (sfl q) = q.
  Proof. destruct q; reflexivity. Qed.

  Lemma spec_finish_loads st p b : s_loads (spec_finish st p b) = s_loads st.
  Proof. unfold spec_finish. destruct (alookup (s_mods st) p); auto. destruct b; reflexivity. Qed.

  Lemma ms_note x nm : ms (note_main_only x nm) = ms x.
  Proof. unfold note_main_only. destruct (Nat.eqb _ _); auto. destruct (alookup _ _); auto. Qed.

  Definition ils (ss : sstate) (p : path) : bool :=
    match alookup (s_mods ss) p with
    | Some sm => match s_status sm with Loading => true | Loaded => false end
    | None => false
    end.

  Definition SB (sx0 : sx) (q : sresult) : Prop :=
    match q with
    | QNormal _ sx' | QRaised _ sx' => forall p, ils (ss sx') p = ils (ss sx0) p
    | _ => True            (* a fatal exception: the run is over, nothing is claimed *)
    end.

  Lemma ils_set ss q x v p : ils (set_sglobal ss q x v) p = ils ss p.
  Proof.
    unfold set_sglobal. destruct (alookup (s_mods ss) q) as [sm|] eqn:E; [|destruct (alookup (s_old ss) q); reflexivity].
    unfold ils, set_mod. simpl. destruct (String.eqb q p) eqn:Eq.
    - apply String.eqb_eq in Eq; subst p. rewrite alookup_ainsert_same, E. reflexivity.
    - rewrite alookup_ainsert_other; auto. intros ->. rewrite String.eqb_refl in Eq. discriminate.
  Qed.

  Lemma alookup_rename_all p q l r : alookup (rename_all p q l) r = option_map (rename_mod p q) (alookup l r).
  Proof.
    unfold rename_all. induction l as [|[k m] l IH]; simpl; auto. destruct (String.eqb k r); simpl; auto.
  Qed.

  Lemma ils_retire ss p m r : ils (retire ss p m) r = if String.eqb p r then false else ils ss r.
  Proof.
    unfold ils, retire. simpl. rewrite alookup_rename_all, alookup_aremove.
    destruct (String.eqb p r); simpl; auto. destruct (alookup (s_mods ss) r); reflexivity.
  Qed.

  Lemma SB_sget sx0 cur sx nm k : (forall p, ils (ss sx) p = ils (ss sx0) p) -> (forall v, SB sx0 (k v)) -> SB sx0 (sget cur sx nm k).
  Proof. intros H Hk. unfold sget. destruct (alookup _ nm); [apply Hk|exact H]. Qed.

  Lemma SB_sresolve sx0 cur env sx nm k :
    (forall p, ils (ss sx) p = ils (ss sx0) p) -> (forall v, SB sx0 (k v)) -> SB sx0 (sresolve cur env sx nm k).
  Proof. intros H Hk. unfold sresolve. destruct (slookup_local env nm); auto. apply SB_sget; auto. Qed.

  Lemma SB_sbind sx0 cur env sx nm v : (forall p, ils (ss sx) p = ils (ss sx0) p) -> SB sx0 (sbind cur env sx nm v).
  Proof. intros H. unfold sbind. destruct env; simpl; auto. intros p. rewrite ils_set. apply H. Qed.

  Lemma SB_trans sx0 sx1 q : (forall p, ils (ss sx1) p = ils (ss sx0) p) -> SB sx1 q -> SB sx0 q.
  Proof. intros H Hq. destruct q; simpl in *; auto; intros p; rewrite Hq; apply H. Qed.

  Lemma sbal : forall fuel cur depth tk sx0, SB sx0 (ST fuel cur depth tk sx0).
  Proof.
    induction fuel as [|fuel IH]; intros cur depth tk sx0; [exact Logic.I|].
    assert (R0 : forall p, ils (ss sx0) p = ils (ss sx0) p) by reflexivity.
    destruct tk as [l env|s env|env w|k f env|ts src|gp segs fenv between env]; cbn [srun_task].
    - destruct l as [|s rest]; [simpl; auto|].
      pose proof (IH cur depth (SkExec1 s env) sx0) as H1.
      destruct (ST fuel cur depth (SkExec1 s env) sx0) as [e1 sx1| | | |]; auto.
      apply (SB_trans sx0 sx1); auto.
    - destruct s.
      + apply SB_sget; [exact R0|]. intros _. simpl; intros; reflexivity.
      + apply SB_sget; [exact R0|]. intros _. apply SB_sget; [exact R0|]. intros w. simpl; intros; reflexivity.
      + apply SB_sget; [exact R0|]. intros _. simpl. intros p. apply ils_set.
      + (* import *)
        set (P := mod_path (N.to_nat p)).
        unfold s_import, spec_import.
        destruct (alookup (s_mods (ss sx0)) P) as [sm|] eqn:Es.
        * destruct (s_status sm); [simpl; auto|]. apply SB_sbind. simpl. auto.
        * destruct (ld P) as [sr|e]; [|simpl; auto].
          destruct (prog_compiler prog [] P sr) as [body|msgs]; [|simpl; auto].
          destruct (Nat.eqb depth fm); [simpl; auto|].
          cbn [ss sout sfl].
          set (sx1 := mksx (s_begin (B ++ C) (mksstate (s_mods (ss sx0)) (P :: s_loads (ss sx0)) (s_ran (ss sx0)) (s_old (ss sx0))) P) (sout sx0) (sfl sx0)).
          assert (H1 : forall q, ils (ss sx1) q = if String.eqb P q then true else ils (ss sx0) q).
          { intros q. unfold sx1, s_begin, spec_begin, ils. simpl. destruct (String.eqb P q) eqn:E.
            - apply String.eqb_eq in E; subst q. rewrite alookup_ainsert_same. reflexivity.
            - rewrite alookup_ainsert_other; auto. intros ->. rewrite String.eqb_refl in E. discriminate. }
          pose proof (IH P (S depth) (SkTops body (N.to_nat p)) sx1) as H2.
          assert (Hfin : forall sx2 b, (forall q, ils (ss sx2) q = ils (ss sx1) q) ->
                         forall q, ils (spec_finish (ss sx2) P b) q = ils (ss sx0) q).
          { intros sx2 b H q. unfold spec_finish.
            assert (HP : ils (ss sx2) P = true) by (rewrite H, H1, String.eqb_refl; reflexivity).
            unfold ils in HP. destruct (alookup (s_mods (ss sx2)) P) as [sm2|] eqn:E2; [|discriminate].
            destruct (String.eqb P q) eqn:E.
            - apply String.eqb_eq in E; subst q.
              assert (H0 : ils (ss sx0) P = false) by (unfold ils; rewrite Es; reflexivity). rewrite H0.
              destruct b; [unfold ils, set_mod; simpl|].
              + rewrite alookup_ainsert_same. reflexivity.
              + rewrite ils_retire, String.eqb_refl. reflexivity.
            - assert (Hne : P <> q) by (intros ->; rewrite String.eqb_refl in E; discriminate).
              specialize (H q). rewrite H1, E in H. rewrite <- H.
              destruct b; [unfold ils, set_mod; simpl|].
              + rewrite alookup_ainsert_other; auto.
              + rewrite ils_retire, E. reflexivity. }
          destruct (ST fuel P (S depth) (SkTops body (N.to_nat p)) sx1) as [e2 sx2|se2 sx2| | |]; auto.
          -- apply SB_sbind. simpl. apply Hfin. exact H2.
          -- simpl. apply Hfin. exact H2.
      + apply SB_sget; [exact R0|]. intros _. apply SB_sresolve; [exact R0|]. intros w. destruct w; simpl; auto.
        destruct (alookup _ (var_name x)); simpl; auto.
      + apply SB_sresolve; [exact R0|]. intros w. destruct w; simpl; auto. intros q. apply ils_set.
      + apply SB_sget; [exact R0|]. intros w. apply IH.
      + apply SB_sresolve; [exact R0|]. intros w. destruct w; simpl; auto.
        destruct (alookup _ (fn_name f)); [apply IH|simpl; auto].
      + simpl. auto.
      + apply SB_sget; [exact R0|]. intros _. destruct k as [|[q|[q|q|]|]];
          repeat (first [apply SB_sget; [exact R0|]; intros | (simpl; intros; reflexivity)]).
      + apply IH.
      + pose proof (IH cur depth (SkExec body ([] :: env)) sx0) as H1.
        destruct (ST fuel cur depth (SkExec body ([] :: env)) sx0) as [e1 sx1|se1 sx1| | |]; auto.
        simpl in H1. apply SB_sget; [exact H1|]. intros _. apply SB_sget; [exact H1|]. intros _.
        apply SB_sget; [exact H1|]. intros _. apply SB_sget; [exact H1|]. intros _. apply SB_sget; [exact H1|].
        intros _. simpl. exact H1.
      + pose proof (IH cur depth (SkExec body ([] :: env)) sx0) as H1.
        destruct (ST fuel cur depth (SkExec body ([] :: env)) sx0) as [e1 sx1|se1 sx1| | |]; auto.
      + apply SB_sresolve; [exact R0|]. intros w. destruct w; simpl; auto.
        apply SB_sget; [exact R0|]. intros u. simpl. intros q. apply ils_set.
      + destruct (Nat.eqb depth fm); [simpl; auto|].
        pose proof (IH cur (S depth) (SkExec body ([] :: env)) sx0) as H1.
        destruct (ST fuel cur (S depth) (SkExec body ([] :: env)) sx0) as [e1 sx1|se1 sx1| | |]; auto.
      + simpl. auto.
      + apply SB_sget; [exact R0|]. intros _.
        assert (Hk : forall u, SB sx0 (match u with
                                       | SFn p key =>
                                         match find_fn prog key with
                                         | Some body => ST fuel cur depth (SkGen p (split_yield body) [[]] between env) sx0
                                         | None => QIll "no such function"
                                         end
                                       | _ => QIll "not a function"
                                       end)).
        { intros u. destruct u; simpl; auto. destruct (find_fn prog f0); [apply IH|simpl; auto]. }
        destruct (N.eqb a 0).
        * apply SB_sget; [exact R0|]. exact Hk.
        * apply SB_sresolve; [exact R0|]. intros w. destruct w; simpl; auto.
          destruct (alookup _ (fn_name f)); [apply Hk|simpl; auto].
    - destruct w; simpl; auto. destruct (find_fn prog f); simpl; auto.
      destruct (Nat.eqb depth fm); [simpl; auto|].
      pose proof (IH p (S depth) (SkExec l [[]]) sx0) as H1.
      destruct (ST fuel p (S depth) (SkExec l [[]]) sx0); auto.
    - destruct k as [|k'].
      + apply SB_sget; [exact R0|]. intros w. apply IH.
      + apply SB_sget; [exact R0|]. intros _.
        pose proof (IH cur 1 (SkFiber k' f env) sx0) as H1.
        destruct (ST fuel cur 1 (SkFiber k' f env) sx0); simpl in *; auto.
    - destruct ts as [|t rest]; [simpl; auto|].
      destruct t.
      + pose proof (IH cur depth (SkExec1 s []) sx0) as H1.
        destruct (ST fuel cur depth (SkExec1 s []) sx0) as [e1 sx1| | | |]; auto.
        apply (SB_trans sx0 sx1); auto.
      + apply (SB_trans sx0 (sset cur sx0 (var_name x) (SNum n))); [intros p; apply ils_set|apply IH].
      + apply (SB_trans sx0 (sset cur sx0 (fn_name f) (SFn cur (fn_key src f)))); [intros p; apply ils_set|apply IH].
    - destruct segs as [|seg rest]; [simpl; auto|].
      pose proof (IH gp 1 (SkExec seg fenv) sx0) as H1.
      destruct (ST fuel gp 1 (SkExec seg fenv) sx0) as [e1 sx1|se1 sx1| | |]; try (simpl; exact Logic.I).
      simpl in H1.
      pose proof (IH cur depth (SkExec between ([] :: env)) sx1) as H2.
      destruct (ST fuel cur depth (SkExec between ([] :: env)) sx1) as [e2 sx2|se2 sx2| | |]; auto.
      + simpl in H2. apply (SB_trans sx0 sx2); [intros q; rewrite H2; apply H1|apply IH].
      + simpl in *. intros q. rewrite H2. apply H1.
  Qed.

  (* ---- the main simulation, try-free programs ---- *)
  Lemma alookup_builtin_attrs (l : list name) st x :
    alookup (map (fun b => (b, SBuiltin b)) l) x = option_map (tv st) (alookup (builtin_attrs l) x).
  Proof.
    unfold builtin_attrs. induction l as [|b l IH]; simpl; auto.
    destruct (String.eqb b x); simpl; auto.
  Qed.

  Lemma builtin_attrs_values (l : list name) x v : alookup (builtin_attrs l) x = Some v -> exists b, v = VBuiltin b.
  Proof.
    unfold builtin_attrs. induction l as [|b l IH]; simpl; [discriminate|].
    destruct (String.eqb b x); [intros E; inversion E; eauto|auto].
  Qed.

  Lemma display_closed st st' v : (forall id, v <> VMod id) -> display_m st v = display_m st' v.
  Proof. intros H. destruct v; simpl; auto. exfalso. apply (H id); reflexivity. Qed.

  (* Stage A: programs without try/catch (all import graphs - chains, DAGs, diamonds, self-imports and longer
     cycles, missing and uncompilable modules; functions exported across modules; the frame limit).  An error is
     then always fatal; printed lines, loader calls and the outcome agree for every fuel. *)
  Definition loading_in (fs : list frame) (id : nat) : bool :=
    existsb (fun f => f_body f && Nat.eqb (f_mod f) id) fs.

  (* frame liveness in suffix form: the module of a frame is imported, or its body is at or below that frame *)
  Fixpoint FLS_list (st : state) (fs : list frame) : Prop :=
    match fs with
    | [] => True
    | f :: r =>
      (alookup (reg st) (pth st (f_mod f)) = Some (f_mod f)
       /\ (m_imported (getmod st (f_mod f)) = true \/ loading_in (f :: r) (f_mod f) = true))
      /\ FLS_list st r
    end.
  Definition FLS (st : state) : Prop := FLS_list st (frames st).

  Lemma loading_in_suffix pre fs id : loading_in fs id = true -> loading_in (pre ++ fs) id = true.
  Proof. unfold loading_in. rewrite existsb_app. intros ->. apply orb_true_r. Qed.

  Lemma FLS_list_FL st pre fs :
    FLS_list st fs -> forall f, In f fs ->
    alookup (reg st) (pth st (f_mod f)) = Some (f_mod f)
    /\ (m_imported (getmod st (f_mod f)) = true \/ loading_in (pre ++ fs) (f_mod f) = true).
  Proof.
    revert pre. induction fs as [|g r IH]; simpl; intros pre H f Hf; [tauto|].
    destruct H as [[H1 H2] H3]. destruct Hf as [<-|Hf].
    - split; auto. destruct H2 as [H2|H2]; [left; auto|right]. apply loading_in_suffix. exact H2.
    - replace (pre ++ g :: r) with ((pre ++ [g]) ++ r) by (rewrite <- app_assoc; reflexivity). apply IH; auto.
  Qed.

  Lemma FLS_FL st : FLS st -> FL st.
  Proof. intros H f Hf. destruct (FLS_list_FL st [] (frames st) H f Hf) as [H1 H2]. split; auto. Qed.

  Lemma FLS_list_suffix st pre fs : FLS_list st (pre ++ fs) -> FLS_list st fs.
  Proof. induction pre as [|a pre IH]; simpl; auto. intros [_ H]; auto. Qed.

  (* FLS only looks at the registry, the paths and the imported flags *)
  Lemma FLS_list_mono st st' fs :
    (forall id, In id (map f_mod fs) -> pth st' id = pth st id) ->
    (forall p id, alookup (reg st) p = Some id -> In id (map f_mod fs) -> alookup (reg st') p = Some id) ->
    (forall id, m_imported (getmod st id) = true -> m_imported (getmod st' id) = true) ->
    FLS_list st fs -> FLS_list st' fs.
  Proof.
    intros Hp Hr Hi. induction fs as [|f r IH]; simpl; auto. intros [[H1 H2] H3].
    split.
    - rewrite Hp by (left; reflexivity). split; [apply Hr; auto; left; reflexivity|].
      destruct H2 as [H2|H2]; [left; apply Hi; auto|right; exact H2].
    - apply IH; auto.
      + intros id Hid. apply Hp. right; exact Hid.
      + intros p id H Hid. apply Hr; auto. right; exact Hid.
  Qed.

  (* the handler stack: one identity per handler; frame counts decrease downwards and do not exceed the stack *)
  Definition HW (x : xst) : Prop :=
    List.length (hids x) = List.length (handlers (ms x))
    /\ StronglySorted ge (List.length (frames (ms x)) :: handlers (ms x)).

  (* the relation while an exception climbs: the Spec may still list, as Loading, modules whose bodies the
     Mechanism has already unwound ("zombies"); it will drop them one import statement at a time *)
  Record RelZ (st : state) (ss : sstate) : Prop := mkRelZ {
    rz_loads : s_loads ss = loads st;
    rz_some : forall p sm, alookup (s_mods ss) p = Some sm ->
              (exists id, alookup (reg st) p = Some id
                          /\ m_imported (getmod st id) = (match s_status sm with Loaded => true | Loading => false end)
                          /\ (s_status sm = Loading -> is_loading st id = true)
                          /\ aeq st id (s_globals sm))
              \/ (s_status sm = Loading
                  /\ (alookup (reg st) p = None
                      \/ exists id, alookup (reg st) p = Some id /\ m_imported (getmod st id) = false /\ is_loading st id = false));
    rz_none : forall p, alookup (s_mods ss) p = None ->
              alookup (reg st) p = None
              \/ exists id, alookup (reg st) p = Some id /\ m_imported (getmod st id) = false /\ is_loading st id = false
  }.

  (* retiring a failed instance renames the function values of its path: no module the Mechanism still knows holds one *)
  Lemma aeq_rename st id g r p q :
    InvP st -> alookup (reg st) r = Some id -> r <> p -> aeq st id g ->
    aeq st id (map (fun kv => (fst kv, rename_val p q (snd kv))) g).
  Proof.
    intros I Hr Hne [H1 H2]. split; [|exact H2]. intros x.
    assert (Hm : alookup (map (fun kv : name * svalue => (fst kv, rename_val p q (snd kv))) g) x
                 = option_map (rename_val p q) (alookup g x)).
    { clear. induction g as [|[k v] g IH]; simpl; auto. destruct (String.eqb k x); simpl; auto. }
    rewrite Hm, H1. destruct (alookup (attrs_of st id) x) as [v|] eqn:E; simpl; auto. f_equal.
    specialize (H2 x v E). destruct v; simpl in *; auto. subst m.
    destruct (i_reg1 _ _ I _ _ Hr) as [_ Hp]. unfold pth. rewrite Hp.
    destruct (String.eqb r p) eqn:Eq; auto. apply String.eqb_eq in Eq. contradiction.
  Qed.

  Lemma relz_rename st mods lds rn old old' P q :
    InvP st -> RelZ st (mksstate mods lds rn old) -> alookup mods P = None ->
    RelZ st (mksstate (rename_all P q mods) lds rn old').
  Proof.
    intros I [a b c] HP. simpl in *. constructor; simpl.
    - exact a.
    - intros r sm Hr. rewrite alookup_rename_all in Hr. destruct (alookup mods r) as [sm0|] eqn:E; simpl in Hr; [|discriminate].
      inversion Hr; subst sm. assert (Hne : r <> P) by (intros ->; congruence).
      destruct (b r sm0 E) as [(id & A1 & A2 & A3 & A4)|Z]; [left|right; exact Z].
      exists id. simpl. split; auto. split; auto. split; auto. apply (aeq_rename st id _ r); auto.
    - intros r Hr. rewrite alookup_rename_all in Hr. apply c. destruct (alookup mods r); [discriminate|reflexivity].
  Qed.

  Lemma Rel_RelZ st ss : Rel st ss -> RelZ st ss.
  Proof. intros [a b c]. constructor; auto. Qed.

  (* no zombies left: every module the Spec calls Loading has its body on the frame stack *)
  Lemma RelZ_Rel st ss :
    RelZ st ss ->
    (forall p, ils ss p = true -> exists id, alookup (reg st) p = Some id /\ is_loading st id = true) ->
    Rel st ss.
  Proof.
    intros [a b c] H. constructor; auto.
    intros p sm Hp. destruct (b p sm Hp) as [Hok|[Hl Hz]]; auto. exfalso.
    assert (Hi : ils ss p = true) by (unfold ils; rewrite Hp, Hl; reflexivity).
    destruct (H p Hi) as (id & H1 & H2). destruct Hz as [Hz|(i & Z1 & _ & Z3)]; [congruence|].
    rewrite H1 in Z1. inversion Z1; subst. congruence.
  Qed.

  (* truncating the frame stack *)
  Lemma relz_truncate st st' ss :
    RelZ st ss -> heap st' = heap st -> reg st' = reg st -> loads st' = loads st ->
    (forall j, is_loading st' j = true -> is_loading st j = true) ->
    (forall p id, alookup (reg st) p = Some id -> m_imported (getmod st id) = true \/ True) ->
    RelZ st' ss.
  Proof.
    intros [a b c] H1 H2 H3 H4 _. constructor.
    - rewrite H3. exact a.
    - intros p sm Hp. destruct (b p sm Hp) as [(id & A1 & A2 & A3 & A4)|[Hl Hz]].
      + destruct (s_status sm) eqn:Es.
        * destruct (is_loading st' id) eqn:El.
          -- left. exists id. rewrite H2. unfold getmod. rewrite H1. split; auto. split; auto. split; auto.
             apply (aeq_same st st'); auto.
          -- right. split; auto. right. exists id. rewrite H2. unfold getmod. rewrite H1. auto.
        * left. exists id. rewrite H2. unfold getmod. rewrite H1. split; auto. split; auto. split; [discriminate|].
          apply (aeq_same st st'); auto.
      + right. split; auto. rewrite H2. destruct Hz as [Hz|(i & Z1 & Z2 & Z3)]; [left; auto|right].
        exists i. unfold getmod. rewrite H1. split; auto. split; auto.
        destruct (is_loading st' i) eqn:E; auto. rewrite (H4 _ E) in Z3. discriminate.
    - intros p Hp. rewrite H2. destruct (c p Hp) as [Hz|(i & Z1 & Z2 & Z3)]; [left; auto|right].
      exists i. unfold getmod. rewrite H1. split; auto. split; auto.
      destruct (is_loading st' i) eqn:E; auto. rewrite (H4 _ E) in Z3. discriminate.
  Qed.

  Lemma is_loading_suffix st st' pre :
    frames st = pre ++ frames st' -> forall j, is_loading st' j = true -> is_loading st j = true.
  Proof. intros E j H. unfold is_loading. rewrite E. apply loading_in_suffix. exact H. Qed.

  Record GoodG (x : xst) (sx : sx) : Prop := mkGoodG {
    gg_inv : InvP (ms x);
    gg_rel : Rel (ms x) (ss sx);
    gg_fls : FLS (ms x);
    gg_out : xout x = sout sx;
    gg_dead : dead (ms x) = None;
    gg_hw : HW x
  }.

  Record GoodZ (x : xst) (sx : sx) : Prop := mkGoodZ {
    gz_inv : InvP (ms x);
    gz_rel : RelZ (ms x) (ss sx);
    gz_fls : FLS (ms x);
    gz_out : xout x = sout sx;
    gz_dead : dead (ms x) = None;
    gz_hw : HW x
  }.

  (* has the running fiber a handler of its own?  (the handlers of waiting fibers do not count) *)
  Definition usable (st : state) : bool :=
    match handlers st with h :: _ => Nat.ltb (base_len st) h | [] => false end.

  Definition SimG (x0 : xst) (r : res) (q : sresult) : Prop :=
    match r, q with
    | RNormal env' x', QNormal senv' sx' =>
      GoodG x' sx' /\ frames (ms x') = frames (ms x0) /\ handlers (ms x') = handlers (ms x0) /\ hids x' = hids x0
      /\ ext (ms x0) (ms x') /\ envrel (ms x') env' senv'
    | RUnwound h e x', QRaised se sx' =>
      exists fc hs his, handlers (ms x0) = fc :: hs /\ base_len (ms x0) < fc /\ hids x0 = h :: his
                        /\ handlers (ms x') = hs /\ hids x' = his
                        /\ frames (ms x') = keep_bottom fc (frames (ms x0)) /\ GoodZ x' sx' /\ ext (ms x0) (ms x')
                        /\ excrel (ms x') e se
    | RDead e x', QRaised se sx' =>
      (* no handler in the running fiber: the Mechanism is dead at once, the Spec's exception is still climbing
         towards the fiber boundary (or the script's end) *)
      usable (ms x0) = false /\ xout x' = sout sx' /\ s_loads (ss sx') = loads (ms x') /\ excrel (ms x') e se
    | RDead e x', QFatal se sx' =>
      xout x' = sout sx' /\ s_loads (ss sx') = loads (ms x') /\ excrel (ms x') e se
    | RFuel, QFuel => True
    | RIll w, QIll w' => w = w'
    | _, _ => False
    end.

  Lemma usable_same st st' : frames st' = frames st -> handlers st' = handlers st -> usable st' = usable st.
  Proof. intros H1 H2. unfold usable, base_len. now rewrite H1, H2. Qed.

  Lemma SimG_trans x0 x1 r q :
    frames (ms x1) = frames (ms x0) -> handlers (ms x1) = handlers (ms x0) -> hids x1 = hids x0 ->
    ext (ms x0) (ms x1) -> SimG x1 r q -> SimG x0 r q.
  Proof.
    intros Hf Hh Hi He H. destruct r, q; simpl in *; auto.
    - destruct H as (G & F & Hd & Hs & E & V). split; auto. split; [congruence|]. split; [congruence|]. split; [congruence|].
      split; auto. eapply ext_trans; eauto.
    - destruct H as (fc & hs & his & A1 & A0 & A2 & A3 & A4 & A5 & A6 & A7 & A8).
      exists fc, hs, his. split; [congruence|]. split; [unfold base_len in *; rewrite <- Hf; exact A0|]. split; [congruence|].
      split; [exact A3|]. split; [exact A4|].
      split; [rewrite <- Hf; exact A5|]. split; [exact A6|]. split; [eapply ext_trans; eauto|exact A8].
    - destruct H as (A0 & A1). split; [rewrite <- (usable_same (ms x0) (ms x1)); auto|exact A1].
  Qed.

  Lemma GoodG_Good_parts x sx : GoodG x sx -> FL (ms x).
  Proof. intros G. apply FLS_FL. apply (gg_fls _ _ G). Qed.

  Lemma cur_entryG x sx :
    GoodG x sx ->
    let a := active (ms x) in
    alookup (reg (ms x)) (pth (ms x) a) = Some a /\ live (ms x) a
    /\ exists sm, alookup (s_mods (ss sx)) (pth (ms x) a) = Some sm /\ aeq (ms x) a (s_globals sm).
  Proof.
    intros G a. destruct (active_frame _ (gg_inv _ _ G) (gg_dead _ _ G)) as (f & r & Ef & Ha).
    destruct (GoodG_Good_parts _ _ G f) as [Hr Hl]; [rewrite Ef; left; auto|].
    unfold a. rewrite Ha. split; auto. split; auto.
    destruct (alookup (s_mods (ss sx)) (pth (ms x) (f_mod f))) as [sm|] eqn:Es.
    - exists sm. split; auto. destruct (r_some _ _ (gg_rel _ _ G) _ _ Es) as (id & H1 & _ & _ & H4).
      rewrite Hr in H1. inversion H1; subst. exact H4.
    - exfalso. destruct (r_none _ _ (gg_rel _ _ G) _ Es) as [H|(id & H1 & H2 & H3)]; [congruence|].
      rewrite Hr in H1. inversion H1; subst. eapply live_not_leftover; eauto.
  Qed.

  (* the result of a step, as do_step packs it *)
  Definition dsr (x : xst) (r : state * outcome (list top)) : sres :=
    let '(s', o) := r in
    match o with
    | OCaught ex =>
      match hids x with
      | h :: hs => SUnw h ex (mkx s' (xout x) hs (nexth x) (xflags x))
      | [] => SDead ex (with_ms x s')
      end
    | ODead ex => SDead ex (with_ms x s')
    | _ => SOk (with_ms x s') o
    end.

  Lemma do_step_dsr x e : DS x e = dsr x (stepP (ms x) e).
  Proof. reflexivity. Qed.

  Lemma ss_ge_head l l' H : l' >= l -> StronglySorted ge (l :: H) -> StronglySorted ge (l' :: H).
  Proof.
    intros Hl Hs. inversion Hs as [|? ? Hs' Hf]; subst. constructor; auto.
    eapply Forall_impl; [|exact Hf]. intros a Ha. unfold ge in *. lia.
  Qed.

  Lemma keep_bottom_length A k (l : list A) : k <= List.length l -> List.length (keep_bottom k l) = k.
  Proof. intros H. unfold keep_bottom. rewrite skipn_length. lia. Qed.

  Lemma FLS_list_same st st' fs : heap st' = heap st -> reg st' = reg st -> FLS_list st fs -> FLS_list st' fs.
  Proof.
    intros H1 H2. apply FLS_list_mono.
    - intros id _. apply pth_same; auto.
    - intros p id H _. rewrite H2. exact H.
    - intros id H. unfold getmod. rewrite H1. exact H.
  Qed.

  Lemma excrel_same st st' e se : heap st' = heap st -> excrel st e se -> excrel st' e se.
  Proof.
    intros H. destruct e, se; simpl; auto. intros (A & Bq & Cq). split; auto. rewrite (tv_same st st'); auto.
  Qed.

  (* an exception raised in a state st' that shares frames and handlers with the task's start *)
  Lemma sim_raiseG x0 x sx' st' ex se (k : xst -> outcome (list top) -> res) :
    InvP (fst (raise (list top) st' ex)) -> Rel st' (ss sx') -> FLS st' -> dead st' = None ->
    frames st' = frames (ms x0) -> handlers st' = handlers (ms x0) -> hids x = hids x0 -> HW x0 ->
    xout x = sout sx' -> ext (ms x0) st' -> excrel st' ex se ->
    SimG x0 (bind_s (dsr x (raise (list top) st' ex)) k) (QRaised se sx').
  Proof.
    intros I R F Hd Hf Hh Hi [Hl Hs] Ho He Hx.
    assert (Hdead : usable (ms x0) = false -> snd (raise (list top) st' ex) = ODead ex ->
                    SimG x0 (bind_s (dsr x (killed st' ex, ODead ex)) k) (QRaised se sx')).
    { intros Hu _. simpl. split; [exact Hu|]. split; auto. split; [apply (r_loads _ _ R)|exact Hx]. }
    assert (Hus : usable (ms x0) = usable st') by (symmetry; apply usable_same; auto).
    unfold raise in *. unfold usable in Hus at 2.
    destruct (handlers st') as [|fc hs] eqn:Eh.
    - apply Hdead; auto.
    - destruct (Nat.ltb (base_len st') fc) eqn:Elt; [|apply Hdead; auto].
      simpl in I. rewrite <- Hh in Hl, Hs. rewrite <- Hi in Hl. rewrite <- Hf in Hs.
      destruct (hids x) as [|h his] eqn:Ehi; [simpl in Hl; discriminate|].
      cbn [dsr bind_s].
      set (s' := load_frame (set_handlers (set_frames st' (keep_bottom fc (frames st'))) hs)) in *.
      destruct (keep_bottom_suffix _ fc (frames st')) as [pre Epre].
      assert (Hfc : fc <= List.length (frames st')).
      { inversion Hs as [|? ? _ Hfa]; subst. inversion Hfa; subst. unfold ge in *. lia. }
      rewrite Ehi. cbn [bind_s]. simpl.
      exists fc, hs, his. split; [symmetry; exact Hh|].
      split; [apply Nat.ltb_lt in Elt; unfold base_len in *; rewrite <- Hf; exact Elt|].
      split; [symmetry; exact Hi|]. split; [reflexivity|]. split; [reflexivity|].
      split; [rewrite <- Hf; reflexivity|]. split; [|split].
      + constructor; simpl; auto.
        * apply (relz_truncate st'); auto. apply Rel_RelZ; auto.
          intros j. apply (is_loading_suffix st' s' pre). exact Epre.
        * unfold FLS. change (frames s') with (keep_bottom fc (frames st')).
          apply (FLS_list_same st' s'); auto. apply (FLS_list_suffix st' pre). rewrite <- Epre. exact F.
        * split; [simpl in Hl; simpl; lia|].
          cbn [ms]. change (frames s') with (keep_bottom fc (frames st')). change (handlers s') with hs.
          rewrite keep_bottom_length by exact Hfc. inversion Hs; subst; auto.
      + eapply ext_trans; [exact He|apply ext_same; reflexivity].
      + apply (excrel_same st'); auto.
  Qed.

  Record Same (x0 x : xst) : Prop := mkSame {
    sm_frames : frames (ms x) = frames (ms x0);
    sm_hand : handlers (ms x) = handlers (ms x0);
    sm_hids : hids x = hids x0;
    sm_ext : ext (ms x0) (ms x)
  }.

  Lemma Same_refl x : Same x x.
  Proof. constructor; auto. apply ext_refl. Qed.

  Lemma hw_same x x' :
    hids x' = hids x -> handlers (ms x') = handlers (ms x) -> List.length (frames (ms x')) = List.length (frames (ms x)) ->
    HW x -> HW x'.
  Proof. intros H1 H2 H3 [A1 A2]. split; rewrite ?H1, ?H2, ?H3; auto. Qed.

  Lemma sim_raise_here x0 x sx e ex se k :
    GoodG x sx -> Same x0 x -> stepP (ms x) e = raise (list top) (ms x) ex -> excrel (ms x) ex se ->
    SimG x0 (bind_s (DS x e) k) (QRaised se sx).
  Proof.
    intros G [S1 S2 S3 S4] Hst Hx. rewrite do_step_dsr, Hst.
    apply sim_raiseG; auto.
    - replace (fst (raise (list top) (ms x) ex)) with (fst (stepP (ms x) e)) by (rewrite Hst; reflexivity).
      apply step_inv. apply (gg_inv _ _ G).
    - apply (gg_rel _ _ G).
    - apply (gg_fls _ _ G).
    - apply (gg_dead _ _ G).
    - apply (hw_same x x0); auto; [congruence|apply (gg_hw _ _ G)].
    - apply (gg_out _ _ G).
  Qed.

  Lemma fls_upd st i f : FLS st -> FLS (upd_attrs st i f).
  Proof.
    apply FLS_list_mono.
    - intros id _. apply pth_upd.
    - intros p id H _. exact H.
    - intros id H. rewrite getmod_upd_attrs_imported. exact H.
  Qed.

  Lemma goodG_emit x sx l : GoodG x sx -> GoodG (emit x l) (semit sx l).
  Proof. intros [a b c d e f]. constructor; simpl; auto. now rewrite d. Qed.

  Lemma goodG_ms x x' sx : ms x' = ms x -> xout x' = xout x -> hids x' = hids x -> GoodG x sx -> GoodG x' sx.
  Proof.
    intros H1 H2 H3 [a b c d e f]. constructor; rewrite ?H1, ?H2; auto.
    apply (hw_same x); auto; rewrite H1; reflexivity.
  Qed.

  Lemma goodG_upd x sx p id sm nm v :
    GoodG x sx -> alookup (reg (ms x)) p = Some id -> alookup (s_mods (ss sx)) p = Some sm -> vok (ms x) id v ->
    GoodG (with_ms x (upd_attrs (ms x) id (fun a => ainsert a nm v))) (sset p sx nm (tv (ms x) v)).
  Proof.
    intros G Hr Hs Hv. destruct G as [a b c d e f]. constructor; simpl; auto.
    - apply (upd_attrs_inv nat (list top) ld cp); auto. intros l k. apply akeys_ainsert_mono.
    - eapply rel_upd; eauto.
    - apply fls_upd; auto.
  Qed.

  Lemma simG_normal_upd x0 x sx env senv p id sm nm v :
    GoodG x sx -> envrel (ms x) env senv ->
    alookup (reg (ms x)) p = Some id -> alookup (s_mods (ss sx)) p = Some sm -> vok (ms x) id v -> Same x0 x ->
    SimG x0 (RNormal env (with_ms x (upd_attrs (ms x) id (fun a => ainsert a nm v))))
            (QNormal senv (sset p sx nm (tv (ms x) v))).
  Proof.
    intros G He Hr Hs Hv [S1 S2 S3 S4]. simpl. split; [eapply goodG_upd; eauto|]. split; [exact S1|]. split; [exact S2|].
    split; [exact S3|]. split; [eapply ext_trans; [exact S4|apply ext_upd]|].
    apply (envrel_ext (ms x)); [apply (gg_inv _ _ G)|apply ext_upd|exact He].
  Qed.

  Lemma simG_emit x0 x sx env senv l :
    GoodG x sx -> envrel (ms x) env senv -> Same x0 x ->
    SimG x0 (RNormal env (emit x l)) (QNormal senv (semit sx l)).
  Proof. intros G He [S1 S2 S3 S4]. simpl. split; [apply goodG_emit; exact G|]. auto. Qed.

  Lemma simG_get x0 x sx nm k sk :
    GoodG x sx -> Same x0 x ->
    (forall v, alookup (attrs_of (ms x) (active (ms x))) nm = Some v -> vok (ms x) (active (ms x)) v ->
               SimG x0 (k x v) (sk (tv (ms x) v))) ->
    SimG x0 (GG x nm k) (sget (curp x) sx nm sk).
  Proof.
    intros G Sx Hk. destruct (cur_entryG x sx G) as (Hr & Hl & sm & Hs & [A1 A2]).
    unfold sget, curp. rewrite (sglobals_entry _ _ _ Hs), A1. unfold get_global.
    destruct (alookup (attrs_of (ms x) (active (ms x))) nm) as [v|] eqn:E; simpl.
    - unfold do_step, mstep. unfold step. rewrite (gg_dead _ _ G), E. cbn [bind_s fst snd].
      rewrite with_ms_id. apply Hk; auto. eapply A2; eauto.
    - apply (sim_raise_here x0 x sx (EGetGlobal nm) (XErr (mkerr KName [undefined_variable nm]))); auto.
      + unfold step. rewrite (gg_dead _ _ G), E. reflexivity.
      + simpl; auto.
  Qed.

  Lemma simG_resolve x0 x sx env senv nm k sk :
    GoodG x sx -> Same x0 x -> envrel (ms x) env senv ->
    (forall v, modok (ms x) v -> (forall m key, v = VFn m key -> m = active (ms x)) -> SimG x0 (k x v) (sk (tv (ms x) v))) ->
    SimG x0 (resolve prog cm B fm true true true env x nm k) (sresolve (curp x) senv sx nm sk).
  Proof.
    intros G Sx He Hk. unfold resolve, sresolve.
    pose proof (lookup_local_rel (ms x) env senv nm He) as H.
    destruct (lookup_local env nm) as [v|], (slookup_local senv nm) as [sv|]; try tauto.
    - destruct H as [-> Hv]. apply Hk; [apply vlocal_modok; auto|]. intros m key ->. simpl in Hv. tauto.
    - apply simG_get; auto. intros v Hv Hok. apply Hk; [eapply vok_modok; eauto|]. intros m key ->. exact Hok.
  Qed.

  Lemma simG_define x0 x sx nm v :
    GoodG x sx -> Same x0 x -> vok (ms x) (active (ms x)) v ->
    SimG x0 (bind_s (DS x (EDefineGlobal nm v)) (fun x1 _ => RNormal [] x1)) (QNormal [] (sset (curp x) sx nm (tv (ms x) v))).
  Proof.
    intros G Sx Hv. destruct (cur_entryG x sx G) as (Hr & _ & sm & Hsm & _).
    unfold do_step, mstep. unfold step. rewrite (gg_dead _ _ G). cbn [bind_s fst snd].
    exact (simG_normal_upd x0 x sx [] [] (curp x) (active (ms x)) sm nm v G (Forall2_nil _) Hr Hsm Hv Sx).
  Qed.

  Lemma simG_set x0 x sx env senv nm n :
    GoodG x sx -> Same x0 x -> envrel (ms x) env senv ->
    SimG x0 (bind_s (DS x (ESetGlobal nm (VNum n))) (fun x1 _ => RNormal env x1))
            (sget (curp x) sx nm (fun _ => QNormal senv (sset (curp x) sx nm (SNum n)))).
  Proof.
    intros G Sx He. destruct (cur_entryG x sx G) as (Hr & _ & sm & Hsm & [A1 A2]).
    unfold sget, curp. rewrite (sglobals_entry _ _ _ Hsm), A1.
    destruct (alookup (attrs_of (ms x) (active (ms x))) nm) as [v|] eqn:E; cbn [option_map].
    - unfold do_step, mstep. unfold step. rewrite (gg_dead _ _ G), E. cbn [bind_s fst snd].
      exact (simG_normal_upd x0 x sx env senv (curp x) (active (ms x)) sm nm (VNum n) G He Hr Hsm Logic.I Sx).
    - apply (sim_raise_here x0 x sx (ESetGlobal nm (VNum n)) (XErr (mkerr KName [undefined_variable nm]))); auto.
      + unfold step. rewrite (gg_dead _ _ G), E. reflexivity.
      + simpl; auto.
  Qed.

  Lemma simG_getattr x0 x sx id nm ill (K : xst -> value -> res) (SK : svalue -> sresult) :
    GoodG x sx -> Same x0 x -> settled (ms x) (pth (ms x) id) id ->
    (forall u, alookup (attrs_of (ms x) id) nm = Some u -> vok (ms x) id u -> SimG x0 (K x u) (SK (tv (ms x) u))) ->
    SimG x0 (bind_s (DS x (EGetAttr id nm)) (fun x3 o => match o with OValue u => K x3 u | _ => RIll ill end))
            (match alookup (sglobals (ss sx) (pth (ms x) id)) nm with
             | Some u => SK u
             | None => raise_s sx KAttribute (undefined_property nm)
             end).
  Proof.
    intros G Sx Hs HK. destruct (mod_entry _ _ _ _ (gg_rel _ _ G) Hs) as (sm & Hsm & [A1 A2]).
    rewrite (sglobals_entry _ _ _ Hsm), A1.
    destruct (alookup (attrs_of (ms x) id) nm) as [u|] eqn:E; cbn [option_map].
    - unfold do_step, mstep. unfold step. rewrite (gg_dead _ _ G), E. cbn [bind_s fst snd].
      rewrite with_ms_id. apply HK; auto. eapply A2; eauto.
    - apply (sim_raise_here x0 x sx (EGetAttr id nm) (XErr (mkerr KAttribute [undefined_property nm]))); auto.
      + unfold step. rewrite (gg_dead _ _ G), E. reflexivity.
      + simpl; auto.
  Qed.

  Lemma simG_setattr x0 x sx env senv id nm n :
    GoodG x sx -> Same x0 x -> envrel (ms x) env senv -> settled (ms x) (pth (ms x) id) id ->
    SimG x0 (bind_s (DS x (ESetAttr id nm (VNum n))) (fun x2 _ => RNormal env x2))
            (QNormal senv (sset (pth (ms x) id) sx nm (SNum n))).
  Proof.
    intros G Sx He Hs. destruct (mod_entry _ _ _ _ (gg_rel _ _ G) Hs) as (sm & Hsm & _).
    unfold do_step, mstep. unfold step. rewrite (gg_dead _ _ G). cbn [bind_s fst snd].
    exact (simG_normal_upd x0 x sx env senv (pth (ms x) id) id sm nm (VNum n) G He (proj1 Hs) Hsm Logic.I Sx).
  Qed.

  Lemma goodG_note x sx nm : GoodG x sx -> GoodG (note_main_only x nm) sx.
  Proof.
    intros G. unfold note_main_only. destruct (Nat.eqb _ _); auto. destruct (alookup _ _); auto.
    apply (goodG_ms x); auto.
  Qed.

  Lemma hids_note x nm : hids (note_main_only x nm) = hids x.
  Proof. unfold note_main_only. destruct (Nat.eqb _ _); auto. destruct (alookup _ _); auto. Qed.

  Lemma simG_builtin3 x sx env senv nm :
    GoodG x sx -> envrel (ms x) env senv ->
    SimG x (GG (note_main_only x nm) nm (fun x2 w => RNormal env (emit x2 (display_m (ms x2) w))))
           (sget (curp x) sx nm (fun w => QNormal senv (semit sx (display_s w)))).
  Proof.
    intros G He.
    replace (curp x) with (curp (note_main_only x nm)) by (unfold curp; rewrite ms_note; reflexivity).
    assert (Sx : Same x (note_main_only x nm)).
    { constructor; rewrite ?ms_note, ?hids_note; auto. apply ext_refl. }
    apply (simG_get x (note_main_only x nm)); [apply goodG_note; auto|exact Sx|].
    intros w _ _. rewrite display_tv. apply simG_emit; [apply goodG_note; auto|rewrite ms_note; auto|exact Sx].
  Qed.

  Lemma simG_bind_alias x0 x sx env senv nm id :
    GoodG x sx -> Same x0 x -> envrel (ms x) env senv -> settled (ms x) (pth (ms x) id) id ->
    SimG x0 (bind_alias prog cm B fm true true true env x nm (VMod id)) (sbind (curp x) senv sx nm (SMod (pth (ms x) id))).
  Proof.
    intros G Sx He Hs. unfold bind_alias, sbind.
    destruct He as [|sc ssc env senv Hsc He].
    - destruct (cur_entryG x sx G) as (Hr & Hl & sm & Hsm & _).
      unfold do_step, mstep. unfold step. rewrite (gg_dead _ _ G). cbn [bind_s fst snd].
      exact (simG_normal_upd x0 x sx [] [] (curp x) (active (ms x)) sm nm (VMod id) G (Forall2_nil _) Hr Hsm Hs Sx).
    - destruct Sx as [S1 S2 S3 S4]. simpl. split; [exact G|]. split; [exact S1|]. split; [exact S2|]. split; [exact S3|].
      split; [exact S4|]. constructor; [constructor; [simpl; auto|exact Hsc]|exact He].
  Qed.

  (* ---- frames: FLS ---- *)
  Lemma fls_pushed st m :
    FLS st -> alookup (reg st) (pth st m) = Some m -> live st m -> FLS (pushed st m).
  Proof.
    intros F Hr Hl. unfold FLS. change (frames (pushed st m)) with (mkframe m false false :: frames st). simpl. split.
    - split; [exact Hr|]. destruct Hl as [Hl|Hl]; [left; exact Hl|right; exact Hl].
    - apply (FLS_list_same st); auto.
  Qed.

  Lemma fls_popped st f0 fs : frames st = f0 :: fs -> FLS st -> FLS (popped st fs).
  Proof.
    intros Ef F. unfold FLS in *. rewrite Ef in F. change (frames (popped st fs)) with fs.
    apply (FLS_list_same st); auto. destruct F as [_ F]. exact F.
  Qed.

  Lemma fls_entered st st0 P :
    InvP st -> FLS st -> prep st st0 P -> FLS (entered st0 P).
  Proof.
    intros I F [Ph Pf Pl Phd Pds Pn Po Pd]. unfold FLS.
    change (frames (entered st0 P)) with (mkframe (List.length (heap st0)) true false :: frames st0). simpl. split.
    - unfold pth. rewrite getmod_entered_new. simpl. split.
      + rewrite (alookup_app_none _ _ _ _ _ Pn), String.eqb_refl. reflexivity.
      + right. rewrite Nat.eqb_refl. reflexivity.
    - rewrite Pf. pose proof (FLS_FL st F) as FLst.
      apply (FLS_list_mono st); auto.
      + intros id Hid. apply in_map_iff in Hid. destruct Hid as (g & <- & Hg).
        unfold pth. rewrite getmod_entered_old by (rewrite Ph; apply (i_fr_ok _ _ I g Hg)). unfold getmod. now rewrite Ph.
      + intros p id Hp Hid. apply in_map_iff in Hid. destruct Hid as (g & <- & Hg).
        rewrite reg_entered. apply alookup_app_some. rewrite Po; auto.
        intros ->. destruct (Pd _ Hp) as [D1 D2]. destruct (FLst g Hg) as [_ Hl]. eapply live_not_leftover; eauto.
      + intros id Hi. destruct (Nat.lt_ge_cases id (List.length (heap st))) as [Hlt|Hge].
        * rewrite getmod_entered_old by (rewrite Ph; exact Hlt). unfold getmod in *. now rewrite Ph.
        * unfold getmod in Hi. rewrite nth_overflow in Hi by lia. discriminate.
  Qed.

  Lemma fls_finished st f0 fs : frames st = f0 :: fs -> FLS st -> FLS (finished st fs (f_mod f0)).
  Proof.
    intros Ef F. unfold FLS in *. rewrite Ef in F. change (frames (finished st fs (f_mod f0))) with fs.
    destruct F as [_ F]. revert F. apply FLS_list_mono.
    - intros id _. apply pth_finished.
    - intros p id H _. exact H.
    - intros id H. apply imported_finished_mono. exact H.
  Qed.

  Lemma goodG_with x sx s' :
    GoodG x sx -> InvP s' -> Rel s' (ss sx) -> FLS s' -> dead s' = None ->
    handlers s' = handlers (ms x) -> List.length (frames s') >= List.length (frames (ms x)) ->
    GoodG (with_ms x s') sx.
  Proof.
    intros G a b c e Hh Hl. constructor; simpl; auto. apply (gg_out _ _ G).
    destruct (gg_hw _ _ G) as [H1 H2]. split; simpl; rewrite Hh; auto. eapply ss_ge_head; eauto.
  Qed.

  (* continuing after a normally finished sub-task; an exception passes through *)
  Lemma simG_seq x r q (kr : lenv -> xst -> res) (kq : senv -> sx -> sresult) :
    SimG x r q ->
    (forall env' x' senv' sx', GoodG x' sx' -> Same x x' -> envrel (ms x') env' senv' -> SimG x (kr env' x') (kq senv' sx')) ->
    SimG x (match r with
            | RNormal e' x' => kr e' x'
            | RUnwound h e x' => RUnwound h e x'
            | RDead e x' => RDead e x'
            | RFuel => RFuel
            | RIll w => RIll w
            end)
           (match q with
            | QNormal e' x' => kq e' x'
            | QRaised e x' => QRaised e x'
            | QFatal e x' => QFatal e x'
            | QFuel => QFuel
            | QIll w => QIll w
            end).
  Proof.
    intros H Hk. destruct r, q; simpl in H; try contradiction; auto.
    destruct H as (G & F & Hh & Hi & E & V). apply Hk; auto. constructor; auto.
  Qed.

  Lemma simG_seq_var x r q (kr : lenv -> xst -> res) (kq : senv -> sx -> sresult) :
    SimG x r q ->
    (forall env' x' senv' sx', GoodG x' sx' -> Same x x' -> envrel (ms x') env' senv' -> SimG x (kr env' x') (kq senv' sx')) ->
    SimG x (match r with RNormal e' x' => kr e' x' | _ => r end)
           (match q with QNormal e' x' => kq e' x' | _ => q end).
  Proof.
    intros H Hk. destruct r, q; simpl in H; try contradiction; auto.
    destruct H as (G & F & Hh & Hi & E & V). apply Hk; auto. constructor; auto.
  Qed.

  Lemma curp_sameG x sx x' sx' : GoodG x sx -> GoodG x' sx' -> Same x x' -> curp x' = curp x.
  Proof.
    intros G G' [Hf _ _ He]. unfold curp.
    destruct (active_frame _ (gg_inv _ _ G) (gg_dead _ _ G)) as (f & r & Ef & Ha).
    destruct (active_frame _ (gg_inv _ _ G') (gg_dead _ _ G')) as (f' & r' & Ef' & Ha').
    rewrite Hf, Ef in Ef'. inversion Ef'; subst f' r'. rewrite Ha', Ha.
    apply (e_path _ _ He). apply (i_fr_ok _ _ (gg_inv _ _ G)). rewrite Ef. left; auto.
  Qed.

  Definition IHsimG (fuel : nat) : Prop :=
    forall tk stk x sx, GoodG x sx -> ef_task tk = true -> task_rel (ms x) tk stk ->
                        SimG x (RT fuel tk x) (ST fuel (curp x) (fiber_depth (frames (ms x))) stk sx).

  Lemma keep_bottom_cons A k (a : A) l : k <= List.length l -> keep_bottom k (a :: l) = keep_bottom k l.
  Proof.
    intros H. unfold keep_bottom. simpl List.length.
    replace (S (List.length l) - k) with (S (List.length l - k)) by lia. reflexivity.
  Qed.

  Lemma hw_top_le x fc hs : HW x -> handlers (ms x) = fc :: hs -> fc <= List.length (frames (ms x)).
  Proof. intros [_ H] E. rewrite E in H. inversion H as [|? ? _ Hf]; subst. inversion Hf; subst. unfold ge in *. lia. Qed.

  (* a call: a frame of module object m runs `body` (with the locals e1) and returns *)
  Lemma simG_frame fuel x sx env senv m body e1 se1 :
    IHsimG fuel -> GoodG x sx -> envrel (ms x) env senv -> envrel (ms x) e1 se1 -> forallb ef_stmt body = true ->
    alookup (reg (ms x)) (pth (ms x) m) = Some m -> live (ms x) m ->
    SimG x (bind_s (DS x (ECall m)) (fun x1 _ =>
              match RT fuel (TkExec body e1) x1 with
              | RNormal _ x2 => bind_s (DS x2 EReturn) (fun x3 _ => RNormal env x3)
              | r => r
              end))
           (if Nat.eqb (fiber_depth (frames (ms x))) fm then raise_s sx KIndex stack_overflow_msg
            else match ST fuel (pth (ms x) m) (S (fiber_depth (frames (ms x)))) (SkExec body se1) sx with
                 | QNormal _ x1 => QNormal senv x1
                 | r => r
                 end).
  Proof.
    intros IH G He He1 Hefb Hr Hl. pose proof (gg_inv _ _ G) as I. pose proof (gg_rel _ _ G) as R.
    destruct (i_reg1 _ _ I _ _ Hr) as [Hlt _]. apply Nat.ltb_lt in Hlt.
    destruct (Nat.eqb (fiber_depth (frames (ms x))) fm) eqn:Efm.
    - apply (sim_raise_here x x sx (ECall m) (XErr (mkerr KIndex [stack_overflow_msg]))); auto.
      + apply Same_refl.
      + unfold step. rewrite (gg_dead _ _ G), Hlt. unfold call_closure. rewrite Efm. reflexivity.
      + simpl; auto.
    - unfold do_step at 1. unfold mstep at 1. unfold step at 1. rewrite (gg_dead _ _ G), Hlt. unfold call_closure. rewrite Efm.
      cbn [bind_s fst snd].
      change (load_frame (set_frames (ms x) (mkframe m false false :: frames (ms x)))) with (pushed (ms x) m).
      set (x1 := with_ms x (pushed (ms x) m)).
      assert (Hst1 : pushed (ms x) m = fst (stepP (ms x) (ECall m))).
      { unfold step. rewrite (gg_dead _ _ G), Hlt. unfold call_closure. rewrite Efm. reflexivity. }
      assert (G1 : GoodG x1 sx).
      { apply goodG_with; auto.
        - rewrite Hst1. apply step_inv; exact I.
        - apply (rel_same (ms x)); auto.
        - apply fls_pushed; auto. apply (gg_fls _ _ G).
        - apply (gg_dead _ _ G).
        - simpl. lia. }
      assert (Hcur1 : curp x1 = pth (ms x) m) by reflexivity.
      pose proof (IH (TkExec body e1) (SkExec body se1) x1 sx G1 Hefb) as Hb.
      rewrite Hcur1 in Hb. change (frames (ms x1)) with (mkframe m false false :: frames (ms x)) in Hb.
      cbn [fiber_depth f_base] in Hb.
      specialize (Hb (conj eq_refl (envrel_ext _ _ _ _ I (ext_same (ms x) (pushed (ms x) m) eq_refl eq_refl) He1))).
      destruct (RT fuel (TkExec body e1) x1) as [env2 x2|h2 e2 x2|e2 x2| |w2];
        destruct (ST fuel (pth (ms x) m) (S (fiber_depth (frames (ms x)))) (SkExec body se1) sx) as [senv2 sx2|se2 sx2|sf2 sxf2| |w2'];
        simpl in Hb; try contradiction; auto.
      + (* the body returned *)
        destruct Hb as (G2 & F2 & Hh2 & Hi2 & E2 & _).
        destruct (active_frame _ I (gg_dead _ _ G)) as (f0 & r & Ef & Ha).
        assert (Hfr2 : frames (ms x2) = mkframe m false false :: f0 :: r) by (rewrite F2, Ef; reflexivity).
        unfold do_step, mstep. unfold step. rewrite (gg_dead _ _ G2), Hfr2. cbn [f_body fst snd bind_s].
        change (load_frame (set_frames (ms x2) (f0 :: r))) with (popped (ms x2) (f0 :: r)).
        set (x3 := with_ms x2 (popped (ms x2) (f0 :: r))).
        assert (Hst3 : popped (ms x2) (f0 :: r) = fst (stepP (ms x2) EReturn)).
        { unfold step. rewrite (gg_dead _ _ G2), Hfr2. reflexivity. }
        assert (G3 : GoodG x3 sx2).
        { constructor; simpl.
          - rewrite Hst3. apply step_inv. apply (gg_inv _ _ G2).
          - apply (rel_same (ms x2)); auto; [intros j; apply (is_loading_popped (ms x2) (mkframe m false false) (f0 :: r) j Hfr2 eq_refl)|apply (gg_rel _ _ G2)].
          - apply (fls_popped (ms x2) (mkframe m false false)); auto. apply (gg_fls _ _ G2).
          - apply (gg_out _ _ G2).
          - apply (gg_dead _ _ G2).
          - apply (hw_same x); simpl; auto; [rewrite Ef; reflexivity|apply (gg_hw _ _ G)]. }
        assert (E03 : ext (ms x) (ms x3)).
        { eapply ext_trans; [apply (ext_same (ms x) (pushed (ms x) m)); reflexivity|].
          eapply ext_trans; [exact E2|apply ext_same; reflexivity]. }
        simpl. split; [exact G3|]. split; [simpl; rewrite Ef; reflexivity|]. split; [exact Hh2|]. split; [exact Hi2|].
        split; [exact E03|]. apply (envrel_ext (ms x)); auto.
      + (* an exception left the body: the frame of the call is gone with the others *)
        destruct Hb as (fc & hs & his & A1 & A0 & A2 & A3 & A4 & A5 & A6 & A7 & A8).
        exists fc, hs, his. split; [exact A1|]. split; [exact A0|]. split; [exact A2|]. split; [exact A3|]. split; [exact A4|].
        split.
        * rewrite A5. apply keep_bottom_cons. apply (hw_top_le x fc hs (gg_hw _ _ G)). exact A1.
        * split; [exact A6|]. split; [|exact A8].
          eapply ext_trans; [apply (ext_same (ms x) (pushed (ms x) m)); reflexivity|exact A7].
  Qed.

  Lemma simG_call fuel x sx env senv w sw :
    IHsimG fuel -> GoodG x sx -> envrel (ms x) env senv -> sw = tv (ms x) w ->
    (forall m key, w = VFn m key -> alookup (reg (ms x)) (pth (ms x) m) = Some m /\ live (ms x) m) ->
    SimG x (RT (S fuel) (TkCall env w) x) (ST (S fuel) (curp x) (fiber_depth (frames (ms x))) (SkCall senv sw) sx).
  Proof.
    intros IH G He -> Hw.
    destruct w; simpl; try reflexivity.
    destruct (find_fn prog f) as [body|] eqn:Eb; [|reflexivity].
    destruct (Hw m f eq_refl) as [Hr Hl].
    apply (simG_frame fuel x sx env senv m body [[]] [[]]); auto.
    - constructor; constructor.
    - apply (find_fn_ef f); auto.
  Qed.

  Lemma simG_lamcall fuel x sx env senv body :
    IHsimG fuel -> GoodG x sx -> envrel (ms x) env senv -> forallb ef_stmt body = true ->
    SimG x (RT (S fuel) (TkExec1 (SLamCall body) env) x)
           (ST (S fuel) (curp x) (fiber_depth (frames (ms x))) (SkExec1 (SLamCall body) senv) sx).
  Proof.
    intros IH G He Hb. cbn [run_task srun_task]. change (closure_mod true x) with (active (ms x)).
    destruct (cur_entryG x sx G) as (Hr & Hl & _).
    apply (simG_frame fuel x sx env senv (active (ms x)) body ([] :: env) ([] :: senv)); auto.
    constructor; [constructor|exact He].
  Qed.

  Lemma keep_bottom_all A (l : list A) : keep_bottom (List.length l) l = l.
  Proof. unfold keep_bottom. rewrite Nat.sub_diag. reflexivity. Qed.

  Lemma excrel_class st e se :
    excrel st e se ->
    (match e with XErr er => kind_class (e_kind er) | XVal _ => "String"%string end)
    = (match se with SXErr er => kind_class (e_kind er) | SXVal _ => "String"%string end).
  Proof. destruct e, se; simpl; try tauto. intros [-> _]. reflexivity. Qed.

  Lemma excrel_msg st e se :
    excrel st e se ->
    (match e with XErr er => first_line (e_msgs er) | XVal v => display_m st v end)
    = (match se with SXErr er => first_line (e_msgs er) | SXVal v => display_s v end).
  Proof.
    destruct e, se; simpl; try tauto.
    intros (H & _). rewrite H. symmetry. apply display_tv.
  Qed.

  Lemma simG_try fuel x sx env senv body :
    IHsimG fuel -> GoodG x sx -> envrel (ms x) env senv -> forallb ef_stmt body = true ->
    SimG x (RT (S fuel) (TkExec1 (STry body) env) x)
           (ST (S fuel) (curp x) (fiber_depth (frames (ms x))) (SkExec1 (STry body) senv) sx).
  Proof.
    intros IH G He Hefb. pose proof (gg_inv _ _ G) as I. pose proof (gg_rel _ _ G) as R.
    cbn [run_task srun_task].
    unfold do_step at 1. unfold mstep at 1. unfold step at 1. rewrite (gg_dead _ _ G). cbn [bind_s fst snd].
    set (L := List.length (frames (ms x))).
    set (st1 := set_handlers (ms x) (L :: handlers (ms x))).
    set (x1 := mkx st1 (xout x) (nexth x :: hids x) (S (nexth x)) (xflags x)).
    change (mkx (ms (with_ms x st1)) (xout (with_ms x st1)) (nexth x :: hids (with_ms x st1)) (S (nexth (with_ms x st1))) (xflags (with_ms x st1))) with x1.
    assert (Hst1 : st1 = fst (stepP (ms x) EPushHandler)).
    { unfold step. rewrite (gg_dead _ _ G). reflexivity. }
    assert (G1 : GoodG x1 sx).
    { constructor; simpl.
      - rewrite Hst1. apply step_inv; exact I.
      - apply (rel_same (ms x)); auto.
      - apply (FLS_list_same (ms x)); auto. apply (gg_fls _ _ G).
      - apply (gg_out _ _ G).
      - apply (gg_dead _ _ G).
      - destruct (gg_hw _ _ G) as [H1 H2]. split; [simpl; rewrite H1; reflexivity|].
        fold L in H2 |- *. constructor; auto. inversion H2; subst. constructor; auto. }
    pose proof (IH (TkExec body ([] :: env)) (SkExec body ([] :: senv)) x1 sx G1 Hefb) as Hb.
    change (curp x1) with (curp x) in Hb. change (frames (ms x1)) with (frames (ms x)) in Hb.
    specialize (Hb (conj eq_refl (Forall2_cons _ _ (Forall2_nil _) He))).
    pose proof (sbal fuel (curp x) (fiber_depth (frames (ms x))) (SkExec body ([] :: senv)) sx) as Hsb.
    destruct (RT fuel (TkExec body ([] :: env)) x1) as [env2 x2|h2 e2 x2|e2 x2| |w2];
      destruct (ST fuel (curp x) (fiber_depth (frames (ms x))) (SkExec body ([] :: senv)) sx) as [senv2 sx2|se2 sx2|sf2 sxf2| |w2'];
      simpl in Hb; try contradiction; auto.
    - (* the body finished: PopExcHandler *)
      destruct Hb as (G2 & F2 & Hh2 & Hi2 & E2 & _).
      unfold do_step, mstep. unfold step. rewrite (gg_dead _ _ G2). cbn [bind_s fst snd].
      change (handlers (ms x1)) with (L :: handlers (ms x)) in Hh2. change (hids x1) with (nexth x :: hids x) in Hi2.
      rewrite Hh2. cbn [tl]. cbn [hids with_ms]. rewrite Hi2. cbn [tl].
      set (st3 := set_handlers (ms x2) (handlers (ms x))).
      assert (Hst3 : st3 = fst (stepP (ms x2) EPopHandler)).
      { unfold step. rewrite (gg_dead _ _ G2), Hh2. reflexivity. }
      simpl. split; [|split; [exact F2|split; [reflexivity|split; [reflexivity|split]]]].
      + constructor; simpl.
        * rewrite Hst3. apply step_inv. apply (gg_inv _ _ G2).
        * apply (rel_same (ms x2)); auto. apply (gg_rel _ _ G2).
        * apply (FLS_list_same (ms x2)); auto. apply (gg_fls _ _ G2).
        * apply (gg_out _ _ G2).
        * apply (gg_dead _ _ G2).
        * destruct (gg_hw _ _ G) as [H1 H2]. split; [exact H1|]. cbn [ms]. change (frames st3) with (frames (ms x2)).
          change (handlers st3) with (handlers (ms x)). rewrite F2. exact H2.
      + eapply ext_trans; [apply (ext_same (ms x) st1); reflexivity|]. eapply ext_trans; [exact E2|apply ext_same; reflexivity].
      + apply (envrel_ext (ms x)); auto.
        eapply ext_trans; [apply (ext_same (ms x) st1); reflexivity|]. eapply ext_trans; [exact E2|apply ext_same; reflexivity].
    - (* an exception reached this handler: the catch clause *)
      destruct Hb as (fc & hs & his & A1 & A0 & A2 & A3 & A4 & A5 & A6 & A7 & A8).
      change (handlers (ms x1)) with (L :: handlers (ms x)) in A1. change (hids x1) with (nexth x :: hids x) in A2.
      inversion A1; subst fc hs. inversion A2; subst h2 his.
      rewrite Nat.eqb_refl.
      change (frames (ms x1)) with (frames (ms x)) in A5. unfold L in A5. rewrite keep_bottom_all in A5.
      simpl in Hsb.
      assert (G2 : GoodG x2 sx2).
      { destruct A6 as [a b c d e f]. constructor; auto.
        apply RelZ_Rel; auto. intros p Hp. rewrite Hsb in Hp. unfold ils in Hp.
        destruct (alookup (s_mods (ss sx)) p) as [sm|] eqn:Es; [|discriminate].
        destruct (s_status sm) eqn:Est; [|discriminate].
        destruct (r_some _ _ R _ _ Es) as (id & B1 & _ & B3 & _). specialize (B3 Est).
        destruct (i_reg1 _ _ I _ _ B1) as [Hlt Hpid].
        exists id. assert (Hl2 : is_loading (ms x2) id = true) by (unfold is_loading; rewrite A5; exact B3).
        split; auto. apply is_loading_true in Hl2. destruct Hl2 as (g & Hg & Hgb & Hgm).
        destruct (i_loading _ _ a g Hg Hgb) as [Hreg _]. unfold registered in Hreg. rewrite Hgm in Hreg.
        change (m_path (getmod (ms x2) id)) with (pth (ms x2) id) in Hreg.
        rewrite (e_path _ _ A7) in Hreg by exact Hlt. change (pth st1 id) with (m_path (getmod (ms x) id)) in Hreg.
        rewrite Hpid in Hreg. exact Hreg. }
      assert (S2 : Same x x2).
      { constructor; auto. eapply ext_trans; [apply (ext_same (ms x) st1); reflexivity|exact A7]. }
      assert (Hcur2 : curp x2 = curp x) by (apply (curp_sameG x sx x2 sx2); auto).
      rewrite <- Hcur2.
      apply simG_get; auto. intros v1 _ _. apply simG_get; auto. intros v2 _ _.
      rewrite (excrel_class _ _ _ A8).
      set (cls := match se2 with SXErr er => kind_class (e_kind er) | SXVal _ => "String"%string end).
      assert (Ge : GoodG (emit x2 ("<class " ++ cls ++ ">")) (semit sx2 ("<class " ++ cls ++ ">"))) by (apply goodG_emit; exact G2).
      assert (Se : Same x (emit x2 ("<class " ++ cls ++ ">"))) by (destruct S2; constructor; auto).
      change (curp x2) with (curp (emit x2 ("<class " ++ cls ++ ">"))).
      apply simG_get; auto. intros v3 _ _. apply simG_get; auto. intros v4 _ _. apply simG_get; auto. intros v5 _ _.
      change (ms (emit x2 ("<class " ++ cls ++ ">"))) with (ms x2).
      rewrite (excrel_msg _ _ _ A8).
      apply simG_emit; auto. apply (envrel_ext (ms x)); auto. apply (sm_ext _ _ S2).
    - (* dead inside a try block: impossible, a handler is installed *)
      destruct Hb as (A0 & _). exfalso. unfold usable in A0. change (handlers (ms x1)) with (L :: handlers (ms x)) in A0.
      change (base_len (ms x1)) with (base_len (ms x)) in A0. apply Nat.ltb_ge in A0. unfold base_len in A0. fold L in A0.
      destruct (active_frame _ I (gg_dead _ _ G)) as (f0 & r0 & Ef0 & _).
      assert (Hd1 : 1 <= fiber_depth (frames (ms x))) by (rewrite Ef0; simpl; destruct (f_base f0); lia).
      assert (HL1 : 1 <= L) by (unfold L; rewrite Ef0; simpl; lia).
      change (frames st1) with (frames (ms x)) in A0. fold L in A0. lia.
  Qed.

  (* ---- the states in which a failing import raises ---- *)
  Lemma rel_prep st st0 ss P :
    Rel st ss -> prep st st0 P -> alookup (s_mods ss) P = None ->
    Rel (log_load P st0) (mksstate (s_mods ss) (P :: s_loads ss) (s_ran ss) (s_old ss)).
  Proof.
    intros R [Ph Pf Pl Phd Pds Pn Po Pd] Hs.
    assert (Hg : forall j, getmod (log_load P st0) j = getmod st j) by (intros j; unfold getmod; simpl; now rewrite Ph).
    assert (Hil : forall j, is_loading (log_load P st0) j = is_loading st j) by (intros j; unfold is_loading; simpl; now rewrite Pf).
    assert (Hne : forall q sm, alookup (s_mods ss) q = Some sm -> q <> P) by (intros q sm H ->; congruence).
    constructor.
    - simpl. rewrite Pl. f_equal. apply (r_loads _ _ R).
    - intros q sm Hq. simpl in Hq. destruct (r_some _ _ R _ _ Hq) as (id & A1 & A2 & A3 & A4).
      exists id. simpl. rewrite Po by (eapply Hne; eauto). rewrite Hg, Hil. split; auto. split; auto. split; auto.
      destruct A4 as [B1 B2]. unfold aeq, attrs_of. rewrite Hg. split.
      + intros y. rewrite B1. unfold attrs_of. destruct (alookup (m_attrs (getmod st id)) y) eqn:E; simpl; auto.
        f_equal. destruct v; simpl; auto; unfold pth; rewrite Hg; reflexivity.
      + intros y v Hy. specialize (B2 y v Hy). destruct v; simpl in *; auto.
        unfold pth in *. rewrite Hg. destruct B2 as [C1 C2]. split; [|rewrite Hg; exact C2].
        simpl. rewrite Po; auto. intros E. rewrite E in C1. destruct (Pd _ C1). congruence.
    - intros q Hq. simpl in Hq. simpl. destruct (String.eqb q P) eqn:E.
      + apply String.eqb_eq in E; subst q. left. exact Pn.
      + assert (q <> P) by (intros ->; rewrite String.eqb_refl in E; discriminate).
        rewrite Po by auto. destruct (r_none _ _ R _ Hq) as [H0|(i & Z1 & Z2 & Z3)]; [left; auto|right].
        exists i. rewrite Hg, Hil. auto.
  Qed.

  Lemma ext_prep st st0 P : prep st st0 P -> InvP st -> ext st (log_load P st0).
  Proof.
    intros [Ph Pf Pl Phd Pds Pn Po Pd] I. constructor.
    - simpl. rewrite Ph. lia.
    - intros id _. unfold pth, getmod. simpl. now rewrite Ph.
    - intros q i [H1 H2]. split; [|unfold getmod; simpl; rewrite Ph; exact H2].
      simpl. rewrite Po; auto. intros ->. destruct (Pd _ H1). congruence.
  Qed.

  Lemma fls_prep st st0 P : InvP st -> FLS st -> prep st st0 P -> FLS (log_load P st0).
  Proof.
    intros I F [Ph Pf Pl Phd Pds Pn Po Pd]. unfold FLS. simpl. rewrite Pf. pose proof (FLS_FL st F) as FLst.
    revert F. unfold FLS. apply FLS_list_mono.
    - intros id _. unfold pth, getmod. simpl. now rewrite Ph.
    - intros p id Hp Hid. apply in_map_iff in Hid. destruct Hid as (g & <- & Hg). simpl. rewrite Po; auto.
      intros ->. destruct (Pd _ Hp). destruct (FLst g Hg) as [_ Hl]. eapply live_not_leftover; eauto.
    - intros id H. unfold getmod in *. simpl. now rewrite Ph.
  Qed.

  (* the frame limit: the module object was created and registered, its body never started *)
  Lemma rel_created st ss P :
    InvP st -> Rel st ss -> alookup (reg st) P = None -> alookup (s_mods ss) P = None ->
    Rel (created st P) ss /\ ext st (created st P).
  Proof.
    intros I R Hn Hs.
    assert (Hold : forall j, j < List.length (heap st) -> getmod (created st P) j = getmod st j) by (intros; apply getmod_created_old; auto).
    assert (Hil : forall j, is_loading (created st P) j = is_loading st j) by reflexivity.
    assert (Hset : forall q i, settled st q i -> settled (created st P) q i).
    { intros q i [H1 H2]. destruct (i_reg1 _ _ I _ _ H1) as [Hlt _]. split; [apply alookup_app_some; exact H1|].
      rewrite Hold; auto. }
    split.
    - constructor.
      + apply (r_loads _ _ R).
      + intros q sm Hq. destruct (r_some _ _ R _ _ Hq) as (id & A1 & A2 & A3 & [B1 B2]).
        destruct (i_reg1 _ _ I _ _ A1) as [Hlt _].
        exists id. split; [apply alookup_app_some; exact A1|]. rewrite Hold by exact Hlt. split; auto. split; auto.
        unfold aeq, attrs_of. rewrite Hold by exact Hlt. split.
        * intros y. rewrite B1. unfold attrs_of. destruct (alookup (m_attrs (getmod st id)) y) eqn:E; simpl; auto.
          f_equal. specialize (B2 y v E). destruct v; simpl in *; auto; unfold pth.
          -- destruct (i_reg1 _ _ I _ _ (proj1 B2)) as [Hl2 _]. rewrite Hold; auto.
          -- subst m. rewrite Hold; auto.
        * intros y v Hy. specialize (B2 y v Hy). destruct v; simpl in *; auto.
          destruct (i_reg1 _ _ I _ _ (proj1 B2)) as [Hl2 _]. unfold pth. rewrite Hold by exact Hl2. apply Hset. exact B2.
      + intros q Hq. destruct (String.eqb P q) eqn:E.
        * apply String.eqb_eq in E; subst q. right. exists (List.length (heap st)).
          split; [simpl; rewrite (alookup_app_none _ _ _ _ _ Hn), String.eqb_refl; reflexivity|].
          rewrite getmod_created_new. split; [reflexivity|].
          apply is_loading_false. intros g Hg _ Heq. pose proof (i_fr_ok _ _ I g Hg). lia.
        * assert (P <> q) by (intros ->; rewrite String.eqb_refl in E; discriminate).
          destruct (r_none _ _ R _ Hq) as [H0|(i & Z1 & Z2 & Z3)].
          -- left. simpl. rewrite (alookup_app_none _ _ _ _ _ H0), E. reflexivity.
          -- right. destruct (i_reg1 _ _ I _ _ Z1) as [Hlt _]. exists i. split; [apply alookup_app_some; exact Z1|].
             rewrite Hold by exact Hlt. auto.
    - constructor.
      + simpl. rewrite app_length. simpl. lia.
      + intros id Hid. unfold pth. now rewrite Hold.
      + exact Hset.
  Qed.

  Lemma fls_created st P : InvP st -> FLS st -> FLS (created st P).
  Proof.
    intros I. unfold FLS. change (frames (created st P)) with (frames st). apply FLS_list_mono.
    - intros id Hid. apply in_map_iff in Hid. destruct Hid as (g & <- & Hg). unfold pth.
      rewrite getmod_created_old; auto. apply (i_fr_ok _ _ I g Hg).
    - intros p id Hp _. apply alookup_app_some. exact Hp.
    - intros id H. destruct (Nat.lt_ge_cases id (List.length (heap st))) as [Hlt|Hge].
      + rewrite getmod_created_old; auto.
      + unfold getmod in H. rewrite nth_overflow in H by lia. discriminate.
  Qed.

  Lemma load_and_run_limit st0 P s b :
    alookup (reg st0) P = None -> ld P = LoadOk s -> cp P s = CompOk b -> fiber_depth (frames st0) = fm ->
    frames st0 <> [] -> (forall f, In f (frames st0) -> f_mod f < List.length (heap st0)) ->
    (forall h, In h (handlers st0) -> 1 <= h) ->
    load_and_run nat (list top) ld cp B fm true st0 P
    = raise (list top) (created (log_load P st0) P) (XErr (mkerr KIndex [stack_overflow_msg])).
  Proof.
    intros Hr Hl Hc Hfm Hne Hfr Hh. unfold load_and_run. rewrite Hl, Hc.
    rewrite get_or_create_none by (simpl; exact Hr).
    unfold call_closure.
    change (fiber_depth (frames (created (log_load P st0) P))) with (fiber_depth (frames st0)).
    rewrite Hfm, Nat.eqb_refl.
    unfold raise. change (handlers (created (log_load P st0) P)) with (handlers st0).
    destruct (handlers st0) as [|h hs] eqn:Eh; [reflexivity|].
    destruct (Nat.ltb (base_len (created (log_load P st0) P)) h); [|reflexivity].
    cbn [negb orb].
    set (s' := load_frame (set_handlers (set_frames (created (log_load P st0) P) (keep_bottom h (frames (created (log_load P st0) P)))) hs)).
    assert (Ha : Nat.eqb (active s') (List.length (heap (log_load P st0))) = false).
    { apply Nat.eqb_neq. unfold s', load_frame, top_mod. simpl.
      assert (Hk : 1 <= h) by (apply Hh; left; auto).
      pose proof (keep_bottom_nonempty _ _ _ Hk Hne) as Hk'.
      destruct (keep_bottom h (frames st0)) as [|f r] eqn:Ek; [congruence|].
      assert (In f (frames st0)) by (apply (keep_bottom_incl _ h); rewrite Ek; left; auto).
      specialize (Hfr f H). lia. }
    rewrite Ha. reflexivity.
  Qed.

  Lemma simG_import fuel x sx env senv p a :
    IHsimG fuel -> GoodG x sx -> envrel (ms x) env senv ->
    SimG x (RT (S fuel) (TkExec1 (SImport p a) env) x)
           (ST (S fuel) (curp x) (fiber_depth (frames (ms x))) (SkExec1 (SImport p a) senv) sx).
  Proof.
    intros IH G He. cbn [run_task srun_task].
    set (P := mod_path (N.to_nat p)). set (nm := import_alias p a).
    pose proof (gg_inv _ _ G) as I. pose proof (gg_rel _ _ G) as R.
    assert (Hload : forall st0, prep (ms x) st0 P -> InvP st0 -> alookup (s_mods (ss sx)) P = None ->
              stepP (ms x) (EStartImport P) = load_and_run nat (list top) ld cp B fm true st0 P ->
              SimG x
                (bind_s (DS x (EStartImport P))
                   (fun x1 o => match o with
                      | OModule id => bind_alias prog cm B fm true true true env x1 nm (VMod id)
                      | OEntered id body =>
                        match RT fuel (TkTops body (src_of_mod x1 id)) x1 with
                        | RNormal _ x2 => bind_s (DS x2 EReturn) (fun x3 _ => bind_alias prog cm B fm true true true env x3 nm (VMod id))
                        | r => r
                        end
                      | _ => RIll "import"
                      end))
                (let '(st1, d) := s_import prog (ss sx) P in
                 let x1 := mksx st1 (sout sx) (sfl sx) in
                 match d with
                 | DSame => sbind (curp x) senv x1 nm (SMod P)
                 | DRaise e => QRaised (SXErr e) x1
                 | DRun body =>
                   if Nat.eqb (fiber_depth (frames (ms x))) fm then QRaised (SXErr (mkerr KIndex [stack_overflow_msg])) x1
                   else
                     let x1' := mksx (s_begin (B ++ C) (ss x1) P) (sout x1) (sfl x1) in
                     match ST fuel P (S (fiber_depth (frames (ms x)))) (SkTops body (N.to_nat p)) x1' with
                     | QNormal _ x2 => sbind (curp x) senv (mksx (spec_finish (ss x2) P true) (sout x2) (sfl x2)) nm (SMod P)
                     | QRaised e x2 => QRaised e (mksx (spec_finish (ss x2) P false) (sout x2) (sfl x2))
                     | r => r
                     end
                 end)).
    { intros st0 Pp I0 Hsn Hstep. pose proof Pp as Pp'. destruct Pp' as [Ph Pf Pl Phd Pds Pn Po Pd].
      unfold s_import, spec_import. rewrite Hsn.
      set (sxl := mksx (mksstate (s_mods (ss sx)) (P :: s_loads (ss sx)) (s_ran (ss sx)) (s_old (ss sx))) (sout sx) (sfl sx)).
      pose proof (rel_prep _ _ _ _ R Pp Hsn) as Rl.
      pose proof (fls_prep _ _ _ I (gg_fls _ _ G) Pp) as Fl.
      pose proof (ext_prep _ _ _ Pp I) as El0.
      assert (Hraise_l : forall ex se, stepP (ms x) (EStartImport P) = raise (list top) (log_load P st0) ex ->
                 excrel (log_load P st0) ex se ->
                 forall k, SimG x (bind_s (dsr x (raise (list top) (log_load P st0) ex)) k) (QRaised se sxl)).
      { intros ex se Hs Hx k. apply sim_raiseG; auto.
        - replace (fst (raise (list top) (log_load P st0) ex)) with (fst (stepP (ms x) (EStartImport P))) by (rewrite Hs; reflexivity).
          apply step_inv; exact I.
        - simpl. rewrite Pds. apply (gg_dead _ _ G).
        - apply (gg_hw _ _ G).
        - apply (gg_out _ _ G). }
      rewrite do_step_dsr, Hstep. unfold load_and_run.
      destruct (ld P) as [s|e] eqn:El.
      2:{ apply (Hraise_l (XErr e) (SXErr e)); [|simpl; auto]. rewrite Hstep. unfold load_and_run. rewrite El. reflexivity. }
      pose proof (comp_rel P s) as Hcr.
      destruct (cp P s) as [b|msgs] eqn:Ec; destruct (prog_compiler prog [] P s) as [b'|msgs'] eqn:Ec'; try contradiction.
      2:{ apply (Hraise_l (XErr (mkerr KImport (comp_head :: map (append comp_indent) msgs))) (SXErr (mkerr KImport [comp_head]))); [|simpl; auto].
          rewrite Hstep. unfold load_and_run. rewrite El, Ec. reflexivity. }
      subst b'.
      destruct (Nat.eqb (fiber_depth (frames (ms x))) fm) eqn:Efm.
      { (* frame limit *)
        assert (Hlim : load_and_run nat (list top) ld cp B fm true st0 P
                       = raise (list top) (created (log_load P st0) P) (XErr (mkerr KIndex [stack_overflow_msg]))).
        { apply (load_and_run_limit st0 P s b); auto.
          - rewrite Pf. apply Nat.eqb_eq; exact Efm.
          - rewrite Pf. apply (i_fr_ne _ _ I).
          - intros f Hf. rewrite Pf in Hf. rewrite Ph. apply (i_fr_ok _ _ I f Hf).
          - intros h Hh. rewrite Phd in Hh. apply (i_hand _ _ I h Hh). }
        unfold load_and_run in Hlim. rewrite El, Ec in Hlim. rewrite Hlim.
        assert (Il : InvP (log_load P st0)) by (apply log_load_inv; exact I0).
        destruct (rel_created (log_load P st0) (ss sxl) P Il Rl Pn Hsn) as [Rc Ec2].
        apply sim_raiseG; auto.
        - replace (fst (raise (list top) (created (log_load P st0) P) (XErr (mkerr KIndex [stack_overflow_msg]))))
            with (fst (stepP (ms x) (EStartImport P))); [apply step_inv; exact I|].
          rewrite Hstep. unfold load_and_run. rewrite El, Ec. rewrite Hlim. reflexivity.
        - apply fls_created; auto.
        - simpl. rewrite Pds. apply (gg_dead _ _ G).
        - apply (gg_hw _ _ G).
        - apply (gg_out _ _ G).
        - eapply ext_trans; [exact El0|exact Ec2].
        - simpl; auto. }
      (* the body is entered *)
      rewrite get_or_create_none by (simpl; exact Pn).
      unfold call_closure.
      change (fiber_depth (frames (created (log_load P st0) P))) with (fiber_depth (frames st0)). rewrite Pf, Efm.
      set (id := List.length (heap (log_load P st0))).
      cbn [fst snd negb orb].
      change (active (log_ran id (load_frame (set_frames (created (log_load P st0) P) (mkframe id true false :: frames (created (log_load P st0) P)))))) with id.
      rewrite Nat.eqb_refl.
      change (init_builtins B id (log_ran id (load_frame (set_frames (created (log_load P st0) P) (mkframe id true false :: frames (created (log_load P st0) P))))))
        with (entered st0 P).
      cbn [dsr bind_s]. cbn [ss sout sfl].
      set (x1 := with_ms x (entered st0 P)).
      set (sx1 := mksx (s_begin (B ++ C) (mksstate (s_mods (ss sx)) (P :: s_loads (ss sx)) (s_ran (ss sx)) (s_old (ss sx))) P) (sout sx) (sfl sx)).
      destruct (rel_enter (ms x) st0 (ss sx) P I R (FLS_FL _ (gg_fls _ _ G)) Pp Hsn) as (R1 & _ & E1).
      assert (Hent : stepP (ms x) (EStartImport P) = (entered st0 P, OEntered (List.length (heap st0)) b)).
      { rewrite Hstep. apply (load_and_run_enter st0 P s b); auto. rewrite Pf. apply Nat.eqb_neq; exact Efm. }
      assert (G1 : GoodG x1 sx1).
      { constructor.
        - change (InvP (entered st0 P)).
          replace (entered st0 P) with (fst (stepP (ms x) (EStartImport P))) by (rewrite Hent; reflexivity). apply step_inv; exact I.
        - exact R1.
        - apply (fls_entered (ms x)); auto. apply (gg_fls _ _ G).
        - exact (gg_out _ _ G).
        - change (dead st0 = None). rewrite Pds. apply (gg_dead _ _ G).
        - destruct (gg_hw _ _ G) as [H1 H2]. split.
          + change (List.length (hids x) = List.length (handlers st0)). rewrite Phd. exact H1.
          + change (StronglySorted ge (S (List.length (frames st0)) :: handlers st0)). rewrite Pf, Phd.
            eapply ss_ge_head; [|exact H2]. lia. }
      assert (Hcur1 : curp x1 = P).
      { unfold curp, x1. simpl. unfold pth. change id with (List.length (heap st0)). rewrite getmod_entered_new. reflexivity. }
      assert (Hsrc : src_of_mod x1 (List.length (heap st0)) = N.to_nat p).
      { unfold src_of_mod, x1. simpl. rewrite getmod_entered_new. simpl.
        pose proof (loader_index P s El) as Hpi. rewrite Hpi. apply (path_index_mod_path (N.to_nat p) s). exact Hpi. }
      change id with (List.length (heap st0)). rewrite Hsrc.
      pose proof (IH (TkTops b (N.to_nat p)) (SkTops b (N.to_nat p)) x1 sx1 G1 (compiled_ef P s b Hef Ec) (conj eq_refl eq_refl)) as Hb.
      rewrite Hcur1 in Hb.
      assert (Hfr1 : frames (ms x1) = mkframe (List.length (heap st0)) true false :: frames (ms x)) by (simpl; rewrite Pf; reflexivity).
      rewrite Hfr1 in Hb. cbn [fiber_depth f_base] in Hb.
      pose proof (sbal fuel P (S (fiber_depth (frames (ms x)))) (SkTops b (N.to_nat p)) sx1) as Hsb.
      destruct (RT fuel (TkTops b (N.to_nat p)) x1) as [env2 x2|h2 e2 x2|e2 x2| |w2];
        destruct (ST fuel P (S (fiber_depth (frames (ms x)))) (SkTops b (N.to_nat p)) sx1) as [senv2 sx2|se2 sx2|sf2 sxf2| |w2']; simpl in Hb; try contradiction; auto.
      - (* the body returned: FinishImport *)
        destruct Hb as (G2 & F2 & Hh2 & Hi2 & E2 & _).
        destruct (active_frame _ I (gg_dead _ _ G)) as (f & r & Ef & Ha).
        assert (Hfr2 : frames (ms x2) = mkframe (List.length (heap st0)) true false :: f :: r) by (rewrite F2, Pf, Ef; reflexivity).
        unfold do_step, mstep. unfold step. rewrite (gg_dead _ _ G2), Hfr2. cbn [f_body f_mod fst snd bind_s].
        change (log_yield (m_path (getmod (ms x2) (List.length (heap st0)))) (List.length (heap st0))
                  (set_imported (load_frame (set_frames (ms x2) (f :: r))) (List.length (heap st0))))
          with (finished (ms x2) (f :: r) (List.length (heap st0))).
        set (idn := List.length (heap st0)) in *.
        assert (Hp2 : pth (ms x2) idn = P).
        { rewrite (e_path _ _ E2). - unfold x1. simpl. unfold pth. unfold idn. rewrite getmod_entered_new. reflexivity.
          - unfold x1, entered. simpl. rewrite upd_nth_length, app_length. simpl. unfold idn. lia. }
        destruct (cur_entryG x2 sx2 G2) as (_ & _ & sm2 & Hsm2 & _).
        assert (Hact2 : active (ms x2) = idn).
        { destruct (active_frame _ (gg_inv _ _ G2) (gg_dead _ _ G2)) as (f2 & r2 & Ef2 & Ha2).
          rewrite Hfr2 in Ef2. inversion Ef2; subst. exact Ha2. }
        rewrite Hact2, Hp2 in Hsm2.
        destruct (rel_finish (ms x2) (ss sx2) (mkframe idn true false) (f :: r) P sm2 (gg_inv _ _ G2) (gg_rel _ _ G2)
                             (FLS_FL _ (gg_fls _ _ G2)) Hfr2 eq_refl Hp2 Hsm2) as (R3 & _ & E3 & S3).
        cbn [f_mod] in R3, E3, S3.
        set (x3 := with_ms x2 (finished (ms x2) (f :: r) idn)).
        set (sx3 := mksx (spec_finish (ss sx2) P true) (sout sx2) (sfl sx2)).
        assert (Hst3 : finished (ms x2) (f :: r) idn = fst (stepP (ms x2) EReturn)).
        { unfold step. rewrite (gg_dead _ _ G2), Hfr2. reflexivity. }
        change (handlers (ms x1)) with (handlers st0) in Hh2. rewrite Phd in Hh2.
        change (hids x1) with (hids x) in Hi2.
        assert (G3 : GoodG x3 sx3).
        { constructor; simpl; auto.
          - rewrite Hst3. apply step_inv. apply (gg_inv _ _ G2).
          - apply (fls_finished (ms x2) (mkframe idn true false) (f :: r) Hfr2 (gg_fls _ _ G2)).
          - apply (gg_out _ _ G2).
          - apply (gg_dead _ _ G2).
          - apply (hw_same x); simpl; auto; [rewrite Ef; reflexivity|apply (gg_hw _ _ G)]. }
        assert (E03 : ext (ms x) (ms x3)).
        { eapply ext_trans; [exact E1|]. eapply ext_trans; [exact E2|exact E3]. }
        assert (S03 : Same x x3) by (constructor; simpl; auto; rewrite Ef; reflexivity).
        assert (Hp3 : pth (ms x3) idn = P) by (simpl; rewrite pth_finished; exact Hp2).
        pose proof (simG_bind_alias x x3 sx3 env senv nm idn G3 S03 (envrel_ext _ _ _ _ I E03 He)) as Hba.
        rewrite Hp3 in Hba. rewrite (curp_sameG x sx x3 sx3 G G3 S03) in Hba.
        apply Hba. exact S3.
      - (* an exception left the body: the Spec forgets the module, the Mechanism already has *)
        destruct Hb as (fc & hs & his & A1 & A0 & A2 & A3 & A4 & A5 & A6 & A7 & A8).
        change (handlers (ms x1)) with (handlers st0) in A1. rewrite Phd in A1. change (hids x1) with (hids x) in A2.
        pose proof (hw_top_le x fc hs (gg_hw _ _ G) A1) as Hfc.
        assert (A0' : base_len (ms x) < fc).
        { unfold base_len in *. change (frames (entered st0 P)) with (mkframe (List.length (heap st0)) true false :: frames st0) in A0.
          rewrite Pf in A0. simpl in A0. exact A0. }
        change (frames (ms x1)) with (mkframe (List.length (heap st0)) true false :: frames st0) in A5. rewrite Pf in A5.
        rewrite keep_bottom_cons in A5 by exact Hfc.
        exists fc, hs, his. split; [exact A1|]. split; [exact A0'|]. split; [exact A2|]. split; [exact A3|]. split; [exact A4|]. split; [exact A5|].
        split; [|split; [eapply ext_trans; [exact E1|exact A7]|exact A8]].
        destruct A6 as [a0 b0 c0 d0 e0 f0]. constructor; auto. cbn [ss].
        simpl in Hsb.
        assert (HP2 : ils (ss sx2) P = true).
        { rewrite Hsb. unfold sx1, s_begin, spec_begin, ils. simpl. rewrite alookup_ainsert_same. reflexivity. }
        unfold ils in HP2. destruct (alookup (s_mods (ss sx2)) P) as [sm2|] eqn:Es2; [|discriminate].
        destruct (s_status sm2) eqn:Est2; [|discriminate].
        unfold spec_finish. rewrite Es2. unfold retire.
        apply relz_rename with (old := s_old (ss sx2)); [exact a0| |rewrite alookup_aremove, String.eqb_refl; reflexivity].
        constructor.
        + simpl. apply (rz_loads _ _ b0).
        + intros q sm Hq. simpl in Hq. rewrite alookup_aremove in Hq. destruct (String.eqb P q); [discriminate|].
          apply (rz_some _ _ b0 _ _ Hq).
        + intros q Hq. simpl in Hq. rewrite alookup_aremove in Hq. destruct (String.eqb P q) eqn:Eq.
          * apply String.eqb_eq in Eq; subst q.
            destruct (rz_some _ _ b0 _ _ Es2) as [(i & B1 & B2 & B3 & _)|[_ Hz]]; [|exact Hz].
            exfalso. specialize (B3 Est2).
            assert (Hl0 : is_loading (ms x) i = true).
            { apply is_loading_true in B3. destruct B3 as (g & Hg & Hgb & Hgm). rewrite A5 in Hg.
              apply is_loading_true. exists g. split; [eapply keep_bottom_incl; eauto|auto]. }
            apply is_loading_true in Hl0. destruct Hl0 as (g & Hg & Hgb & Hgm).
            destruct (i_loading _ _ I g Hg Hgb) as [Hreg _]. unfold registered in Hreg. rewrite Hgm in Hreg.
            pose proof (i_fr_ok _ _ I g Hg) as Hlt. rewrite Hgm in Hlt.
            destruct (i_reg1 _ _ a0 _ _ B1) as [_ Hp2].
            assert (Hpx : m_path (getmod (ms x) i) = P).
            { rewrite <- Hp2. symmetry. apply (e_path _ _ (ext_trans _ _ _ E1 A7)). exact Hlt. }
            rewrite Hpx in Hreg. destruct (Pd _ Hreg) as [_ D2].
            assert (is_loading (ms x) i = true) by (apply is_loading_true; exists g; auto). congruence.
          * apply (rz_none _ _ b0 _ Hq).
      - (* dead inside the body *)
        destruct Hb as (A0 & Ho & Hl & Hx).
        assert (A0' : usable (ms x) = false).
        { unfold usable, base_len in *. change (handlers (entered st0 P)) with (handlers st0) in A0.
          change (frames (entered st0 P)) with (mkframe (List.length (heap st0)) true false :: frames st0) in A0.
          rewrite Phd, Pf in A0. simpl in A0. exact A0. }
        simpl. split; [exact A0'|]. split; [exact Ho|]. split; [rewrite spec_finish_loads; exact Hl|exact Hx]. }
    (* the registry hit *)
    unfold do_step at 1. unfold mstep at 1. unfold step at 1. fold (DS x (EStartImport P)) in Hload.
    destruct (alookup (reg (ms x)) P) as [id|] eqn:Er.
    - destruct (m_imported (getmod (ms x) id)) eqn:Ei.
      + (* a finished module *)
        destruct (mod_entry _ _ P id R (conj Er Ei)) as (sm & Hsm & _).
        destruct (r_some _ _ R _ _ Hsm) as (i & A1 & A2 & _). rewrite Er in A1. inversion A1; subst i.
        rewrite Ei in A2. unfold s_import, spec_import. rewrite Hsm.
        destruct (s_status sm); [discriminate|].
        rewrite (gg_dead _ _ G). unfold start_import. rewrite Er, Ei. cbn [bind_s fst snd]. rewrite sx_eta.
        set (x1 := with_ms x (log_yield P id (ms x))).
        assert (G1 : GoodG x1 sx).
        { apply goodG_with; auto.
          - replace (log_yield P id (ms x)) with (fst (stepP (ms x) (EStartImport P))); [apply step_inv; exact I|].
            unfold step. rewrite (gg_dead _ _ G). unfold start_import. rewrite Er, Ei. reflexivity.
          - apply (rel_same (ms x)); auto.
          - apply (FLS_list_same (ms x)); auto. apply (gg_fls _ _ G).
          - apply (gg_dead _ _ G). }
        destruct (i_reg1 _ _ I _ _ Er) as [Hlt Hpid].
        assert (S1 : Same x x1) by (constructor; auto; apply ext_same; reflexivity).
        pose proof (simG_bind_alias x x1 sx env senv nm id G1 S1 He) as Hba.
        change (pth (ms x1) id) with (pth (ms x) id) in Hba. unfold pth in Hba. rewrite Hpid in Hba.
        apply Hba. split; auto.
      + destruct (is_loading (ms x) id) eqn:El.
        * (* still loading: a cycle *)
          assert (Hsm : exists sm, alookup (s_mods (ss sx)) P = Some sm /\ s_status sm = Loading).
          { destruct (alookup (s_mods (ss sx)) P) as [sm|] eqn:E.
            - exists sm. split; auto. destruct (r_some _ _ R _ _ E) as (i & A1 & A2 & _). rewrite Er in A1. inversion A1; subst i.
              rewrite Ei in A2. destruct (s_status sm); [reflexivity|discriminate].
            - exfalso. destruct (r_none _ _ R _ E) as [H|(i & A1 & _ & A3)]; [congruence|].
              rewrite Er in A1. inversion A1; subst i. congruence. }
          destruct Hsm as (sm & Hsm & Hst). unfold s_import, spec_import. rewrite Hsm, Hst. rewrite sx_eta.
          fold (stepP (ms x) (EStartImport P)). fold (mstep prog cm B fm true true true (ms x) (EStartImport P)).
          fold (DS x (EStartImport P)).
          apply (sim_raise_here x x sx (EStartImport P) (XErr (mkerr KImport [cyc_msg P]))); auto.
          -- apply Same_refl.
          -- unfold step. rewrite (gg_dead _ _ G). unfold start_import; cbv beta iota delta [is_loading_seen]. rewrite Er, Ei, El. reflexivity.
          -- simpl; auto.
        * (* the leftover of a failed import *)
          assert (Hsn : alookup (s_mods (ss sx)) P = None).
          { destruct (alookup (s_mods (ss sx)) P) as [sm|] eqn:E; auto. exfalso.
            destruct (r_some _ _ R _ _ E) as (i & A1 & A2 & A3 & _). rewrite Er in A1. inversion A1; subst i.
            destruct (s_status sm); [rewrite A3 in El; [discriminate|reflexivity]|congruence]. }
          fold (stepP (ms x) (EStartImport P)). fold (mstep prog cm B fm true true true (ms x) (EStartImport P)).
          fold (DS x (EStartImport P)).
          apply (Hload (set_reg (ms x) (aremove (reg (ms x)) P))); auto.
          -- apply (prep_leftover _ _ id); auto.
          -- apply (unregister_inv B (ms x) P id); auto.
          -- unfold step. rewrite (gg_dead _ _ G). unfold start_import; cbv beta iota delta [is_loading_seen]. rewrite Er, Ei, El. reflexivity.
    - assert (Hsn : alookup (s_mods (ss sx)) P = None).
      { destruct (alookup (s_mods (ss sx)) P) as [sm|] eqn:E; auto. exfalso.
        destruct (r_some _ _ R _ _ E) as (i & A1 & _). congruence. }
      fold (stepP (ms x) (EStartImport P)). fold (mstep prog cm B fm true true true (ms x) (EStartImport P)).
      fold (DS x (EStartImport P)).
      apply (Hload (ms x)); auto.
      + apply prep_absent; auto.
      + unfold step. rewrite (gg_dead _ _ G). unfold start_import. rewrite Er. reflexivity.
  Qed.

  Lemma simG_refl_normal x sx env senv : GoodG x sx -> envrel (ms x) env senv -> SimG x (RNormal env x) (QNormal senv sx).
  Proof. intros G E. simpl. split; auto. split; auto. split; auto. split; auto. split; [apply ext_refl|exact E]. Qed.

  (* ---- fibers ---- *)
  Definition pushedf (st : state) (m : nat) : state := load_frame (set_frames st (mkframe m false true :: frames st)).

  Lemma fls_pushedf st m :
    FLS st -> alookup (reg st) (pth st m) = Some m -> live st m -> FLS (pushedf st m).
  Proof.
    intros F Hr Hl. unfold FLS. change (frames (pushedf st m)) with (mkframe m false true :: frames st). simpl. split.
    - split; [exact Hr|]. destruct Hl as [Hl|Hl]; [left; exact Hl|right; exact Hl].
    - apply (FLS_list_same st); auto.
  Qed.

  Lemma filter_le_all (l : list nat) n : Forall (fun h => n >= h) l -> filter (fun h => Nat.leb h n) l = l.
  Proof.
    induction 1 as [|h l Hh _ IH]; simpl; auto.
    assert (E : Nat.leb h n = true) by (apply Nat.leb_le; unfold ge in Hh; lia). rewrite E, IH. reflexivity.
  Qed.

  Lemma simG_fiber fuel x sx env senv k f :
    IHsimG fuel -> GoodG x sx -> envrel (ms x) env senv ->
    SimG x (RT (S fuel) (TkFiber k f env) x) (ST (S fuel) (curp x) (fiber_depth (frames (ms x))) (SkFiber k f senv) sx).
  Proof.
    intros IH G He. pose proof (gg_inv _ _ G) as I. pose proof (Same_refl x) as Sx.
    destruct k as [|k']; cbn [run_task srun_task].
    - apply simG_get; auto. intros w _ Hok.
      destruct (cur_entryG x sx G) as (Hr & Hl & _).
      apply (IH (TkCall env w) (SkCall senv (tv (ms x) w)) x sx G eq_refl).
      split; [exact He|]. split; [reflexivity|]. intros m key ->. simpl in Hok. subst m. auto.
    - apply simG_get; auto. intros v _ _.
      destruct (cur_entryG x sx G) as (Hr & Hl & _).
      change (closure_mod true x) with (active (ms x)).
      set (a := active (ms x)) in *.
      assert (Hlt : Nat.ltb a (List.length (heap (ms x))) = true) by (apply Nat.ltb_lt; apply (i_act_lt _ _ I)).
      unfold do_step at 1. unfold mstep at 1. unfold step at 1. rewrite (gg_dead _ _ G). fold a. rewrite Hlt.
      cbn [bind_s fst snd].
      change (load_frame (set_frames (ms x) (mkframe a false true :: frames (ms x)))) with (pushedf (ms x) a).
      set (x2 := with_ms x (pushedf (ms x) a)).
      assert (Hst2 : pushedf (ms x) a = fst (stepP (ms x) (EFiberCall a))).
      { unfold step. rewrite (gg_dead _ _ G), Hlt. reflexivity. }
      assert (G2 : GoodG x2 sx).
      { apply goodG_with; auto.
        - rewrite Hst2. apply step_inv; exact I.
        - apply (rel_same (ms x)); auto. apply (gg_rel _ _ G).
        - apply fls_pushedf; auto. apply (gg_fls _ _ G).
        - apply (gg_dead _ _ G).
        - simpl. lia. }
      pose proof (IH (TkFiber k' f env) (SkFiber k' f senv) x2 sx G2 eq_refl) as Hb.
      change (curp x2) with (curp x) in Hb. change (fiber_depth (frames (ms x2))) with 1 in Hb.
      specialize (Hb (conj eq_refl (conj eq_refl (envrel_ext _ _ _ _ I (ext_same (ms x) (pushedf (ms x) a) eq_refl eq_refl) He)))).
      destruct (RT fuel (TkFiber k' f env) x2) as [env3 x3|h3 e3 x3|e3 x3| |w3];
        destruct (ST fuel (curp x) 1 (SkFiber k' f senv) sx) as [senv3 sx3|se3 sx3|sf3 sxf3| |w3'];
        simpl in Hb; try contradiction; auto.
      + (* the fiber finished *)
        destruct Hb as (G3 & F3 & Hh3 & Hi3 & E3 & _).
        change (frames (ms x2)) with (mkframe a false true :: frames (ms x)) in F3.
        change (handlers (ms x2)) with (handlers (ms x)) in Hh3. change (hids x2) with (hids x) in Hi3.
        destruct (active_frame _ I (gg_dead _ _ G)) as (f0 & r & Ef & Ha).
        assert (Hfr3 : frames (ms x3) = mkframe a false true :: f0 :: r) by (rewrite F3, Ef; reflexivity).
        unfold do_step, mstep. unfold step. rewrite (gg_dead _ _ G3), Hfr3. cbn [f_body f_base fst snd bind_s].
        assert (Hfil : filter (fun h => Nat.leb h (List.length (f0 :: r))) (handlers (ms x3)) = handlers (ms x)).
        { rewrite Hh3. apply filter_le_all. destruct (gg_hw _ _ G) as [_ Hs]. rewrite Ef in Hs.
          inversion Hs; subst; auto. }
        rewrite Hfil.
        set (st4 := set_handlers (load_frame (set_frames (ms x3) (f0 :: r))) (handlers (ms x))).
        set (x4 := with_ms x3 st4).
        assert (Hst4 : st4 = fst (stepP (ms x3) EReturn)).
        { unfold step. rewrite (gg_dead _ _ G3), Hfr3. cbn [f_body f_base fst]. rewrite Hfil. reflexivity. }
        assert (G4 : GoodG x4 sx3).
        { constructor; simpl.
          - rewrite Hst4. apply step_inv. apply (gg_inv _ _ G3).
          - apply (rel_same (ms x3)); auto; [intros j; apply (is_loading_popped (ms x3) (mkframe a false true) (f0 :: r) j Hfr3 eq_refl)|apply (gg_rel _ _ G3)].
          - apply (FLS_list_same (popped (ms x3) (f0 :: r))); auto.
            apply (fls_popped (ms x3) (mkframe a false true)); auto. apply (gg_fls _ _ G3).
          - apply (gg_out _ _ G3).
          - apply (gg_dead _ _ G3).
          - apply (hw_same x); simpl; auto; [rewrite Ef; reflexivity|apply (gg_hw _ _ G)]. }
        assert (E04 : ext (ms x) (ms x4)).
        { eapply ext_trans; [apply (ext_same (ms x) (pushedf (ms x) a)); reflexivity|].
          eapply ext_trans; [exact E3|apply ext_same; reflexivity]. }
        simpl. split; [exact G4|]. split; [simpl; rewrite Ef; reflexivity|]. split; [reflexivity|]. split; [exact Hi3|].
        split; [exact E04|]. apply (envrel_ext (ms x)); auto.
      + (* an exception cannot leave a fiber through a handler of the waiting fiber *)
        destruct Hb as (fc & hs & his & A1 & A0 & _). exfalso.
        change (handlers (ms x2)) with (handlers (ms x)) in A1.
        pose proof (hw_top_le x fc hs (gg_hw _ _ G) A1) as Hfc.
        unfold base_len in A0. change (frames (ms x2)) with (mkframe a false true :: frames (ms x)) in A0.
        simpl in A0. lia.
      + (* it ends the run *)
        destruct Hb as (_ & A1). exact A1.
  Qed.

  (* ---- the main simulation, all programs ---- *)
  Lemma simG_task : forall fuel, IHsimG fuel.
  Proof.
    induction fuel as [|fuel IH]; intros tk stk x sx G Hf Ht.
    { simpl. exact Logic.I. }
    pose proof (gg_inv _ _ G) as I. pose proof (Same_refl x) as Sx.
    destruct tk as [l env|s env|env w|k f env|ts src|gm gsegs gfenv gbetween genv];
      destruct stk as [l' senv|s' senv|senv sw|k1 f1 senv|ts' src'|gp' gsegs' gfenv' gbetween' genv']; simpl in Ht; try contradiction;
      cbn [ef_task] in Hf.
    - (* a statement list *)
      destruct Ht as [<- He]. destruct l as [|s rest]; [apply simG_refl_normal; auto|].
      cbn [forallb] in Hf. apply andb_true_iff in Hf. destruct Hf as [Hf1 Hf2].
      refine (simG_seq x (RT fuel (TkExec1 s env) x) (ST fuel (curp x) (fiber_depth (frames (ms x))) (SkExec1 s senv) sx)
                       (fun env' x' => RT fuel (TkExec rest env') x')
                       (fun senv' sx' => ST fuel (curp x) (fiber_depth (frames (ms x))) (SkExec rest senv') sx') _ _).
      + apply IH; auto. simpl; auto.
      + intros env' x' senv' sx' G' S' V'.
        pose proof (IH (TkExec rest env') (SkExec rest senv') x' sx' G' Hf2 (conj eq_refl V')) as H.
        rewrite (curp_sameG x sx x' sx' G G' S'), (sm_frames _ _ S') in H.
        destruct S'. eapply SimG_trans; eauto.
    - (* one statement *)
      destruct Ht as [<- He]. destruct s; try (cbn [run_task srun_task]).
      + apply simG_get; auto. intros v _ _. apply simG_emit; auto.
      + apply simG_get; auto. intros v _ _. apply simG_get; auto. intros w _ _.
        rewrite display_tv. apply simG_emit; auto.
      + apply simG_set; auto.
      + apply (simG_import fuel x sx env senv p a IH G He).
      + apply simG_get; auto. intros v _ _. apply simG_resolve; auto. intros w Hm _.
        destruct w; try reflexivity.
        apply (simG_getattr x x sx id (var_name x0) "getattr"
                 (fun x3 u => RNormal env (emit x3 (display_m (ms x3) u))) (fun u => QNormal senv (semit sx (display_s u)))); auto.
        intros u _ _. rewrite display_tv. apply simG_emit; auto.
      + apply simG_resolve; auto. intros w Hm _. destruct w; try reflexivity.
        apply simG_setattr; auto.
      + apply simG_get; auto. intros w _ Hok.
        destruct (cur_entryG x sx G) as (Hr & Hl & _).
        apply (IH (TkCall env w) (SkCall senv (tv (ms x) w)) x sx G eq_refl).
        split; [exact He|]. split; [reflexivity|]. intros m key ->. simpl in Hok. subst m. auto.
      + apply simG_resolve; auto. intros w Hm _. destruct w; try reflexivity.
        apply (simG_getattr x x sx id (fn_name f) "invoke"
                 (fun x2 u => RT fuel (TkCall env u) x2)
                 (fun u => ST fuel (curp x) (fiber_depth (frames (ms x))) (SkCall senv u) sx)); auto.
        intros u _ Hok.
        apply (IH (TkCall env u) (SkCall senv (tv (ms x) u)) x sx G eq_refl).
        split; [exact He|]. split; [reflexivity|]. intros m key ->. simpl in Hok. subst m.
        destruct (Hm id eq_refl) as [H1 H2]. split; [exact H1|left; exact H2].
      + apply (sim_raise_here x x sx (EThrow (VStr thrown_text)) (XVal (VStr thrown_text)) (SXVal (SStr thrown_text))); auto.
        * unfold step. rewrite (gg_dead _ _ G). reflexivity.
        * simpl. split; [reflexivity|]. split; intros; discriminate.
      + apply simG_get; auto. intros v _ _.
        destruct k as [|[q|[q|q|]|]].
        * apply simG_get; auto. intros w _ _. apply simG_emit; auto.
        * apply simG_builtin3; auto.
        * apply simG_builtin3; auto.
        * apply simG_builtin3; auto.
        * apply simG_get; auto. intros w _ _. apply simG_get; auto. intros w2 _ _. apply simG_emit; auto.
        * apply simG_get; auto. intros w _ _. rewrite display_tv. apply simG_emit; auto.
      + apply (IH (TkFiber (N.to_nat d) f env) (SkFiber (N.to_nat d) f senv) x sx G eq_refl). split; [reflexivity|]. split; [reflexivity|exact He].
      + rewrite ef_try in Hf. apply (simG_try fuel x sx env senv body IH G He Hf).
      + rewrite ef_block in Hf.
        refine (simG_seq x (RT fuel (TkExec body ([] :: env)) x) (ST fuel (curp x) (fiber_depth (frames (ms x))) (SkExec body ([] :: senv)) sx)
                         (fun _ x1 => RNormal env x1) (fun _ sx1 => QNormal senv sx1) _ _).
        * apply IH; auto. simpl. split; [reflexivity|]. constructor; [constructor|exact He].
        * intros env' x' senv' sx' G' [S1 S2 S3 S4] _. simpl. split; [exact G'|]. split; [exact S1|]. split; [exact S2|].
          split; [exact S3|]. split; [exact S4|]. apply (envrel_ext (ms x)); auto.
      + (* a function value leaves its module: not in the escape-free fragment *)
        simpl in Hf. discriminate.
      + rewrite ef_lam in Hf. apply (simG_lamcall fuel x sx env senv body IH G He Hf).
      + (* Fiber.yield / a generator fiber: not in the proved fragment *)
        simpl in Hf. discriminate.
      + simpl in Hf. discriminate.
    - destruct Ht as (He & -> & Hw). apply simG_call; auto.
    - destruct Ht as (<- & <- & He). apply simG_fiber; auto.
    - destruct Ht as [<- <-]. destruct ts as [|t rest]; [apply simG_refl_normal; auto; constructor|].
      cbn [forallb] in Hf. apply andb_true_iff in Hf. destruct Hf as [Hf1 Hf2].
      cbn [run_task srun_task].
      assert (Hk : forall env' x' senv' sx', GoodG x' sx' -> Same x x' -> envrel (ms x') env' senv' ->
                   SimG x (RT fuel (TkTops rest src) x') (ST fuel (curp x) (fiber_depth (frames (ms x))) (SkTops rest src) sx')).
      { intros env' x' senv' sx' G' S' _.
        pose proof (IH (TkTops rest src) (SkTops rest src) x' sx' G' Hf2 (conj eq_refl eq_refl)) as H.
        rewrite (curp_sameG x sx x' sx' G G' S'), (sm_frames _ _ S') in H.
        destruct S'. eapply SimG_trans; eauto. }
      destruct t.
      + refine (simG_seq_var x (RT fuel (TkExec1 s []) x) (ST fuel (curp x) (fiber_depth (frames (ms x))) (SkExec1 s []) sx)
                             (fun _ x' => RT fuel (TkTops rest src) x')
                             (fun _ sx' => ST fuel (curp x) (fiber_depth (frames (ms x))) (SkTops rest src) sx') _ Hk).
        apply IH; auto. simpl. split; [reflexivity|constructor].
      + refine (simG_seq_var x (bind_s (DS x (EDefineGlobal (var_name x0) (VNum n))) (fun x1 _ => RNormal [] x1))
                             (QNormal [] (sset (curp x) sx (var_name x0) (SNum n)))
                             (fun _ x' => RT fuel (TkTops rest src) x')
                             (fun _ sx' => ST fuel (curp x) (fiber_depth (frames (ms x))) (SkTops rest src) sx') _ Hk).
        apply (simG_define x x sx (var_name x0) (VNum n)); auto. exact Logic.I.
      + change (closure_mod true x) with (active (ms x)).
        refine (simG_seq_var x (bind_s (DS x (EDefineGlobal (fn_name f) (VFn (active (ms x)) (fn_key src f)))) (fun x1 _ => RNormal [] x1))
                             (QNormal [] (sset (curp x) sx (fn_name f) (SFn (curp x) (fn_key src f))))
                             (fun _ x' => RT fuel (TkTops rest src) x')
                             (fun _ sx' => ST fuel (curp x) (fiber_depth (frames (ms x))) (SkTops rest src) sx') _ Hk).
        apply (simG_define x x sx (fn_name f) (VFn (active (ms x)) (fn_key src f))); auto. reflexivity.
  Qed.

  Lemma goodG_init : GoodG (mech_init B C) (mksx (spec_init (B ++ C)) [] "").
  Proof.
    assert (Hg : forall id, getmod (ms (mech_init B C)) id = nth id [mkmod main_path false (main_attrs B C)] (empty_mod "")) by reflexivity.
    constructor.
    - apply init_inv. intros b Hb. apply main_attrs_have_builtins; auto.
    - constructor.
      + reflexivity.
      + intros p sm Hp.
        change (alookup [(main_path, mksmod Loading (startup_globals (B ++ C)))] p = Some sm) in Hp. cbn [alookup] in Hp.
        destruct (String.eqb main_path p) eqn:E; [|discriminate].
        inversion Hp; subst sm. apply String.eqb_eq in E; subst p.
        exists 0. split; [reflexivity|]. split; [reflexivity|]. split; [reflexivity|].
        split.
        * intros x. unfold attrs_of. rewrite Hg. cbn [nth m_attrs s_globals]. apply alookup_builtin_attrs.
        * intros x v Hx. unfold attrs_of in Hx. rewrite Hg in Hx. cbn [nth m_attrs] in Hx.
          destruct (builtin_attrs_values _ _ _ Hx) as (b & ->). exact Logic.I.
      + intros p Hp.
        change (alookup [(main_path, mksmod Loading (startup_globals (B ++ C)))] p = None) in Hp. cbn [alookup] in Hp.
        left. change (alookup [(main_path, 0)] p = None). cbn [alookup].
        destruct (String.eqb main_path p); [discriminate|reflexivity].
    - unfold FLS. simpl. split; [|exact Logic.I]. split; [reflexivity|right; reflexivity].
    - reflexivity.
    - reflexivity.
    - split; [reflexivity|]. simpl. constructor; constructor.
  Qed.

  (* THE REFINEMENT.  Full statement, for every program of the mini-language and every fuel:
         mech_obs prog cm B fm true true true true fuel C = spec_obs prog (B ++ C) fm fuel
     - the Mechanism's run shows exactly what the Spec's run shows: the printed lines, the loader calls, the outcome.

     Proved (`_partial`) for the ESCAPE-FREE programs (`ef_prog`: no statement `<alias>.f<g> = f<f>;` that stores a
     function value in another module): any module map (modules present, missing, uncompilable), any import graph,
     imports at top level / in functions / in try blocks / in fibers, closures created and called at run time
     (SLamCall), caught and uncaught failures, re-imports after failed loads, the frame limit.
     What is missing for the full statement: the relation `Rel` knows a module object by its path and relies on `vok`
     (a function stored in an object's attributes was defined by that object); with escaped functions it has to
     relate the Spec's retired instances "#n" with the Mechanism's unregistered objects.  For programs WITH escaping
     functions M = S is checked by evaluation: the examples `ex_escape_*` below and every generated program of the
     correspondence run (tools/props/C14.py compares the implementation with both). *)
  Theorem mech_refines_spec_partial fuel : mech_obs prog cm B fm true true true true fuel C = spec_obs prog (B ++ C) fm fuel.
  Proof.
    unfold mech_obs, spec_obs. destruct prog as [|[ts| |k] rest] eqn:Ep; auto.
    rewrite <- Ep.
    assert (Hts : forallb ef_top ts = true).
    { pose proof Hef as H0. unfold ef_prog in H0. rewrite Ep in H0. simpl in H0. apply andb_true_iff in H0. apply H0. }
    pose proof (simG_task fuel (TkTops ts 0) (SkTops ts 0) _ _ goodG_init Hts (conj eq_refl eq_refl)) as H.
    unfold exec_tops, sexec_tops.
    change (curp (mech_init B C)) with main_path in H.
    change (fiber_depth (frames (ms (mech_init B C)))) with 1 in H.
    destruct (RT fuel (TkTops ts 0) (mech_init B C)) as [env' x'|h e x'|e x'| |w];
      destruct (ST fuel main_path 1 (SkTops ts 0) (mksx (spec_init (B ++ C)) [] "")) as [senv' sx'|se sx'|sf sxf| |w']; simpl in H; try contradiction; auto.
    - destruct H as (G & _). rewrite (gg_out _ _ G), (r_loads _ _ (gg_rel _ _ G)). reflexivity.
    - (* unwound past the script: impossible, no handler at the start *)
      destruct H as (fc & hs & his & A1 & _). discriminate.
    - destruct H as (_ & Ho & Hl & Hx). rewrite Ho, Hl. destruct e as [er|v], se as [er'|sv]; simpl in Hx; try contradiction.
      + destruct Hx as [Hk Hm]. unfold dead_kind, dead_messages. simpl. rewrite Hk, Hm. reflexivity.
      + destruct Hx as (-> & Hn1 & Hn2). unfold dead_kind, dead_messages. simpl. rewrite display_tv.
        rewrite (display_closed (init_state []) (ms x') v Hn1). reflexivity.
    - destruct H as (Ho & Hl & Hx). rewrite Ho, Hl. destruct e as [er|v], sf as [er'|sv]; simpl in Hx; try contradiction.
      + destruct Hx as [Hk Hm]. unfold dead_kind, dead_messages. simpl. rewrite Hk, Hm. reflexivity.
      + destruct Hx as (-> & Hn1 & Hn2). unfold dead_kind, dead_messages. simpl. rewrite display_tv.
        rewrite (display_closed (init_state []) (ms x') v Hn1). reflexivity.
    - subst. reflexivity.
  Qed.

  (* Stage A (proved first, now a special case): programs without try/catch *)
  Corollary mech_refines_spec_tryfree fuel :
    tf_prog = true -> mech_obs prog cm B fm true true true true fuel C = spec_obs prog (B ++ C) fm fuel.
  Proof. intros _. apply mech_refines_spec_partial. Qed.
End Refine.

Print Assumptions mech_refines_spec_tryfree.
Print Assumptions mech_refines_spec_partial.

(* ---------------------------------------------------------------------------------------------- *)
(* what the try-free class contains (programs in the wire format of ModLang.parse_prog; B = print/type/Vec) *)
Open Scope string_scope.
Definition ex_B : list name := ["print"; "type"; "Vec"; "String"; "Fiber"].
Definition ex_obs (w : string) : obs := mech_obs (parse_prog w) [] ex_B 64 true true true true 200 [].
(* the variant of closure_impl that takes the module REGISTERED under the function's path *)
Definition ex_obs_reg (w : string) : obs := mech_obs (parse_prog w) [] ex_B 64 true true true false 200 [].
Definition ex_spec (w : string) : obs := spec_obs (parse_prog w) (ex_B ++ []) 64 200.

(* one module: globals, a function, a call *)
Definition ex_single : string := "0 20 0 1 21 0 3 0 0 10 0 4 0 5 10 0".
(* a diamond: main -> m1, m2; m1 -> m3; m2 -> m3; x0 defined everywhere with different values; m3's f0 reads m3's x0 *)
Definition ex_diamond : string :=
  "0 20 0 1 5 1 0 5 2 0 5 3 0 11 103 0 3 0;0 20 0 11 1 10 5 3 0 7 103 0;0 20 0 21 1 20 5 3 0 8 103 0 77;0 20 0 31 21 0 3 0 0 1 30".
(* a 3-cycle main -> m1 -> m2 -> m3 -> m1: fatal ImportError *)
Definition ex_cycle : string := "0 1 0 5 1 0 1 9;0 1 10 5 2 0;0 1 20 5 3 0;0 1 30 5 1 0".
(* a missing and an uncompilable member *)
Definition ex_missing : string := "0 1 0 5 1 0 5 3 0;0 1 10;1;1".
Definition ex_bad : string := "0 1 0 5 2 0;1;3".

(* m1's body (still loading) calls f0 through TWO nested fibers; f0 imports m1 again inside a try: a cycle *)
Definition ex_fiber_cycle : string := "0 5 1 0;0 20 0 11 21 0 13 5 1 2 7 2 0 0 1 5 0 1 10 16 2 0 1 11".
(* the same without the try inside the fiber: fatal, although the fiber call sits in a try of the waiting fiber *)
Definition ex_fiber_fatal : string := "0 13 5 1 0 0 1 1;0 21 0 5 1 2 0 1 10 13 16 2 0 0 1 11".

Example ex_fiber_cycle_obs :
  ex_obs ex_fiber_cycle = mkobs ["t10"; "<class ImportError>"; cyc_msg "m1"; "t5"; "t11"] ["m1"] ObOk
  /\ ex_obs ex_fiber_fatal = mkobs ["t10"] ["m1"] (ObDead "ImportError" ("Unhandled ImportError: " ++ cyc_msg "m1"))
  /\ ex_obs ex_fiber_cycle = ex_spec ex_fiber_cycle /\ ex_obs ex_fiber_fatal = ex_spec ex_fiber_fatal.
Proof. vm_compute. repeat split; reflexivity. Qed.

Example tf_examples :
  tf_prog (parse_prog ex_single) = true /\ tf_prog (parse_prog ex_diamond) = true /\ tf_prog (parse_prog ex_cycle) = true
  /\ tf_prog (parse_prog ex_missing) = true /\ tf_prog (parse_prog ex_bad) = true.
Proof. vm_compute. repeat split; reflexivity. Qed.

Example ex_diamond_obs :
  ex_obs ex_diamond = mkobs ["t10"; "t30"; "31"; "t20"; "77"; "1"] ["m1"; "m3"; "lib/m2"] ObOk.
Proof. vm_compute. reflexivity. Qed.

Example ex_cycle_obs :
  ex_obs ex_cycle = mkobs ["t0"; "t10"; "t20"; "t30"] ["m1"; "lib/m2"; "m3"]
                          (ObDead "ImportError" ("Unhandled ImportError: " ++ cyc_msg "m1")).
Proof. vm_compute. reflexivity. Qed.

Example ex_agree :
  ex_obs ex_single = ex_spec ex_single /\ ex_obs ex_diamond = ex_spec ex_diamond /\ ex_obs ex_cycle = ex_spec ex_cycle
  /\ ex_obs ex_missing = ex_spec ex_missing /\ ex_obs ex_bad = ex_spec ex_bad.
Proof. vm_compute. repeat split; reflexivity. Qed.

(* ---- a function that outlives the failed load that defined it ----
   m1's first load stores its function f1 in m3 (`a1.f9 = f1`) and then fails (m3.x5 is not defined yet).  main defines
   m3.x5 and calls the OLD f1 through m3.f9: f1 imports m1 again (a fresh module object with its own x0 = 100), then
   creates a closure that sets x0 = 7 and prints it, prints x0 itself and prints the new module's x0.
   Spec and code: the closure belongs to the old instance - 7, 7, and the new module still has 100 (also seen from main).
   The variant (closure bound to the module registered under the path): the closure writes the NEW module's x0 - 7, 100, 7, 7. *)
Definition ex_escape_reload_inside : string :=
  "0 5 3 0 13 5 1 0 0 8 103 5 1 11 103 9 5 1 0 7 101 0;0 5 3 1 20 0 100 21 1 5 1 2 18 4 0 7 3 0 0 3 0 7 2 0 0 17 1 9 1 7 1 5;1;0 21 9 0".
(* the same with the reload done by main: m3.f8 first copies the old function to lib/m2 (`a2.f7 = f9`), because the
   second load of m1 overwrites m3.f9 with the new f1 *)
Definition ex_escape_reload_outside : string :=
  "0 5 3 0 13 5 1 0 0 8 103 5 1 11 103 8 5 1 0 5 2 0 11 102 7 7 101 0;0 5 3 1 20 0 100 21 1 18 4 0 7 3 0 0 3 0 0 17 1 9 1 7 1 5;0;0 21 9 0 21 8 5 2 2 17 2 7 9 0".

Example ex_escape_obs :
  ex_obs ex_escape_reload_inside
  = mkobs ["<class AttributeError>"; undefined_property "x5"; "1"; "7"; "7"; "100"; "100"] ["m3"; "m1"; "m1"] ObOk
  /\ ex_obs ex_escape_reload_outside
  = mkobs ["<class AttributeError>"; undefined_property "x5"; "1"; "7"; "7"; "100"] ["m3"; "m1"; "lib/m2"; "m1"] ObOk
  /\ ex_obs ex_escape_reload_inside = ex_spec ex_escape_reload_inside
  /\ ex_obs ex_escape_reload_outside = ex_spec ex_escape_reload_outside.
Proof. vm_compute. repeat split; reflexivity. Qed.

(* the variant does not refine the Spec *)
Example ex_escape_refuted_registered :
  ex_obs_reg ex_escape_reload_inside
  = mkobs ["<class AttributeError>"; undefined_property "x5"; "1"; "7"; "100"; "7"; "7"] ["m3"; "m1"; "m1"] ObOk
  /\ ex_obs_reg ex_escape_reload_inside <> ex_spec ex_escape_reload_inside
  /\ ex_obs_reg ex_escape_reload_outside <> ex_spec ex_escape_reload_outside.
Proof. vm_compute. repeat split; try reflexivity; intros H; discriminate. Qed.

(* ---- a fiber whose FIRST frame is a function of another module (round 7) ----
   main (x0 = 1) drives a generator function of m1 (x0 = 11): m1.f0 prints ITS x0, yields, sets its x0 = 77, prints it and
   finishes; after every hand-back (the yield and the end) main prints its own x0, sets it to 5, prints it.  Neither side
   ever sees the other's x0: 11 | 1 5 | 77 | 5 5 | and m1.x0 = 77 at the end. *)
Definition ex_gen_cross : string :=
  "0 20 0 1 5 1 0 22 101 0 3 0 4 0 5 3 0 0 7 101 0;0 20 0 11 21 0 3 0 19 4 0 77 3 0 0".
(* the same generator driven by the BODY of m3 while m3 is still loading; resumed, it imports m3 inside a try: a cycle
   reported inside the fiber (m3's body is in the caller chain of the resumed fiber), then it goes on in m1's globals *)
Definition ex_gen_cycle : string :=
  "0 20 0 1 5 1 0 5 3 0 7 101 0 3 0;0 20 0 11 21 0 3 0 19 13 5 3 2 7 2 0 0 4 0 12 3 0 0;1;0 20 0 31 5 1 0 22 101 0 3 0 0 1 32".

Example ex_gen_obs :
  ex_obs ex_gen_cross = mkobs ["11"; "1"; "5"; "77"; "5"; "5"; "77"] ["m1"] ObOk
  /\ ex_obs ex_gen_cycle = mkobs ["11"; "31"; "<class ImportError>"; cyc_msg "m3"; "12"; "31"; "t32"; "12"; "1"] ["m1"; "m3"] ObOk
  /\ ex_obs ex_gen_cross = ex_spec ex_gen_cross /\ ex_obs ex_gen_cycle = ex_spec ex_gen_cycle
  /\ wf_prog (parse_prog ex_gen_cross) = true /\ wf_prog (parse_prog ex_gen_cycle) = true.
Proof. vm_compute. repeat split; reflexivity. Qed.
