(* C14 - Spec S of the module system: what the property text demands, with no registers, frames or flags.
   A module is known by its path; it is Loading while its top-level code runs, Loaded afterwards; an import
   whose top-level code ended with an exception leaves NOTHING behind (the path is unknown again).
     - a module's top-level code runs at most once per successful load, and never while the module is
       Loaded or Loading: it runs only when the path is unknown;
     - every import of a Loaded module yields the module of that path (identity = path);
     - importing a Loading module is an ImportError (cycle), a missing module the loader's error,
       an uncompilable one an ImportError; nothing is recorded for the latter two;
     - every module starts with all start-up names (the built-ins);
     - calls and module bodies nest at most FRAMES_MAX deep: one more is an IndexError "Stack overflow."
       (for an import: after the source was loaded and compiled; like every failed import it leaves nothing);
     - globals belong to the module whose source text contains the access (lexical), see ModLang.eval_spec;
     - a function can outlive the load that defined it (it was stored in another module before that load failed).
       It keeps belonging to the module instance of the failed load: when a load fails the instance is RETIRED -
       it is filed under a fresh name "#<n>" (no import can reach it), every function value that referred to it
       refers to "#<n>" from then on, and the path is unknown again.  A later load of the path is a different
       module with its own globals; what the retired instance's functions read, write or define is the retired
       instance's.
   Definitions only. *)
From Coq Require Import List String NArith Bool Arith.
From YV Require Import Show Modules.
Import ListNotations.
Open Scope string_scope.

Inductive svalue :=
| SNil
| SNum (n : N)
| SStr (s : string)
| SMod (p : path)
| SFn (p : path) (f : name)      (* a function DEFINED in module p *)
| SBuiltin (b : name).

Inductive sexc := SXErr (e : error) | SXVal (v : svalue).

Inductive mstatus := Loading | Loaded.
Record smod := mksmod { s_status : mstatus; s_globals : list (name * svalue) }.
Record sstate := mksstate {
  s_mods : list (path * smod);
  s_loads : list path;      (* newest first *)
  s_ran : list path;        (* newest first *)
  s_old : list (path * smod)   (* retired instances (failed loads), keyed "#<n>", newest first *)
}.

(* the name of the n-th retired instance: not a module path ('#' first; `is_retired_name`) *)
Definition retired_name (n : nat) : path := "#" ++ show_nat n.

(* function values of module p now belong to q *)
Definition rename_val (p q : path) (v : svalue) : svalue :=
  match v with
  | SFn p' f => if String.eqb p' p then SFn q f else v
  | _ => v
  end.
Definition rename_mod (p q : path) (m : smod) : smod :=
  mksmod (s_status m) (map (fun kv => (fst kv, rename_val p q (snd kv))) (s_globals m)).
Definition rename_all (p q : path) (l : list (path * smod)) : list (path * smod) :=
  map (fun km => (fst km, rename_mod p q (snd km))) l.

Definition any_msg : string := "?".   (* wildcard in expected lines: the text does not fix this message *)

Section Spec.
  Variables SrcId Body : Type.
  Variable loader : path -> load_result SrcId.
  Variable compiler : path -> SrcId -> comp_result Body.
  Variable startup_names : list name.

  Inductive decision :=
  | DSame                 (* the module of this path, already loaded *)
  | DRaise (e : error)
  | DRun (b : Body).      (* first import: `spec_begin`, run the body, then `spec_finish` *)

  Definition startup_globals : list (name * svalue) := map (fun b => (b, SBuiltin b)) startup_names.

  Definition set_mod (st : sstate) (p : path) (m : smod) : sstate :=
    mksstate (ainsert (s_mods st) p m) (s_loads st) (s_ran st) (s_old st).

  Definition spec_import (st : sstate) (p : path) : sstate * decision :=
    match alookup (s_mods st) p with
    | Some m =>
      match s_status m with
      | Loaded => (st, DSame)
      | Loading => (st, DRaise (mkerr KImport [cyc_msg p]))
      end
    | None =>
      let st1 := mksstate (s_mods st) (p :: s_loads st) (s_ran st) (s_old st) in
      match loader p with
      | LoadErr e => (st1, DRaise e)
      | LoadOk src =>
        match compiler p src with
        | CompErr _ => (st1, DRaise (mkerr KImport [comp_head]))
        | CompOk b => (st1, DRun b)
        end
      end
    end.

  (* the module's top-level code starts: the module is Loading, with the start-up names *)
  Definition spec_begin (st : sstate) (p : path) : sstate :=
    mksstate (ainsert (s_mods st) p (mksmod Loading startup_globals)) (s_loads st) (p :: s_ran st) (s_old st).

  (* the load of p failed: its instance m leaves the modules and is filed under a fresh retired name; every
     function value of p, wherever it is stored, is from now on a function of the retired instance *)
  Definition retire (st : sstate) (p : path) (m : smod) : sstate :=
    let q := retired_name (List.length (s_old st)) in
    mksstate (rename_all p q (aremove (s_mods st) p)) (s_loads st) (s_ran st)
             ((q, rename_mod p q m) :: rename_all p q (s_old st)).

  Definition spec_finish (st : sstate) (p : path) (ok : bool) : sstate :=
    match alookup (s_mods st) p with
    | Some m =>
      if ok then set_mod st p (mksmod Loaded (s_globals m))
      else retire st p m
    | None => st
    end.

  (* a module or a retired instance, by name *)
  Definition sglobals (st : sstate) (p : path) : list (name * svalue) :=
    match alookup (s_mods st) p with
    | Some m => s_globals m
    | None => match alookup (s_old st) p with Some m => s_globals m | None => [] end
    end.

  Definition set_sglobal (st : sstate) (p : path) (x : name) (v : svalue) : sstate :=
    match alookup (s_mods st) p with
    | Some m => set_mod st p (mksmod (s_status m) (ainsert (s_globals m) x v))
    | None =>
      match alookup (s_old st) p with
      | Some m => mksstate (s_mods st) (s_loads st) (s_ran st)
                           (ainsert (s_old st) p (mksmod (s_status m) (ainsert (s_globals m) x v)))
      | None => st
      end
    end.

  Definition spec_init : sstate :=
    mksstate [(main_path, mksmod Loading startup_globals)] [] [] [].
End Spec.

Arguments DSame {Body}. Arguments DRaise {Body}. Arguments DRun {Body}.
