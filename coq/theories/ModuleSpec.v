(* C14 - Spec S of the module system: what the property text demands, with no registers, frames or flags.
   A module is known by its path; it is Loading while its top-level code runs, Loaded afterwards; an import
   whose top-level code ended with an exception leaves NOTHING behind (the path is unknown again).
     - a module's top-level code runs at most once per successful load, and never while the module is
       Loaded or Loading: it runs only when the path is unknown;
     - every import of a Loaded module yields the module of that path (identity = path);
     - importing a Loading module is an ImportError (cycle), a missing module the loader's error,
       an uncompilable one an ImportError; nothing is recorded for the latter two;
     - every module starts with all start-up names (the built-ins);
     - calls and module bodies nest at most FRAMES_MAX deep: one more is an IndexError "Stack overflow."
       (for an import: after the source was loaded and compiled; like every failed import it leaves nothing);
     - globals belong to the module whose source text contains the access (lexical), see ModLang.eval_spec.
   Definitions only. *)
From Coq Require Import List String NArith Bool Arith.
From YV Require Import Modules.
Import ListNotations.
Open Scope string_scope.

Inductive svalue :=
| SNil
| SNum (n : N)
| SStr (s : string)
| SMod (p : path)
| SFn (p : path) (f : name)      (* a function DEFINED in module p *)
| SBuiltin (b : name).

Inductive sexc := SXErr (e : error) | SXVal (v : svalue).

Inductive mstatus := Loading | Loaded.
Record smod := mksmod { s_status : mstatus; s_globals : list (name * svalue) }.
Record sstate := mksstate {
  s_mods : list (path * smod);
  s_loads : list path;      (* newest first *)
  s_ran : list path         (* newest first *)
}.

Definition any_msg : string := "?".   (* wildcard in expected lines: the text does not fix this message *)

Section Spec.
  Variables SrcId Body : Type.
  Variable loader : path -> load_result SrcId.
  Variable compiler : path -> SrcId -> comp_result Body.
  Variable startup_names : list name.

  Inductive decision :=
  | DSame                 (* the module of this path, already loaded *)
  | DRaise (e : error)
  | DRun (b : Body).      (* first import: `spec_begin`, run the body, then `spec_finish` *)

  Definition startup_globals : list (name * svalue) := map (fun b => (b, SBuiltin b)) startup_names.

  Definition set_mod (st : sstate) (p : path) (m : smod) : sstate :=
    mksstate (ainsert (s_mods st) p m) (s_loads st) (s_ran st).

  Definition spec_import (st : sstate) (p : path) : sstate * decision :=
    match alookup (s_mods st) p with
    | Some m =>
      match s_status m with
      | Loaded => (st, DSame)
      | Loading => (st, DRaise (mkerr KImport [cyc_msg p]))
      end
    | None =>
      let st1 := mksstate (s_mods st) (p :: s_loads st) (s_ran st) in
      match loader p with
      | LoadErr e => (st1, DRaise e)
      | LoadOk src =>
        match compiler p src with
        | CompErr _ => (st1, DRaise (mkerr KImport [comp_head]))
        | CompOk b => (st1, DRun b)
        end
      end
    end.

  (* the module's top-level code starts: the module is Loading, with the start-up names *)
  Definition spec_begin (st : sstate) (p : path) : sstate :=
    mksstate (ainsert (s_mods st) p (mksmod Loading startup_globals)) (s_loads st) (p :: s_ran st).

  Definition spec_finish (st : sstate) (p : path) (ok : bool) : sstate :=
    match alookup (s_mods st) p with
    | Some m =>
      if ok then set_mod st p (mksmod Loaded (s_globals m))
      else mksstate (aremove (s_mods st) p) (s_loads st) (s_ran st)
    | None => st
    end.

  Definition sglobals (st : sstate) (p : path) : list (name * svalue) :=
    match alookup (s_mods st) p with Some m => s_globals m | None => [] end.

  Definition set_sglobal (st : sstate) (p : path) (x : name) (v : svalue) : sstate :=
    match alookup (s_mods st) p with
    | Some m => set_mod st p (mksmod (s_status m) (ainsert (s_globals m) x v))
    | None => st
    end.

  Definition spec_init : sstate :=
    mksstate [(main_path, mksmod Loading startup_globals)] [] [].
End Spec.

Arguments DSame {Body}. Arguments DRaise {Body}. Arguments DRun {Body}.
