(* C14 - Mechanism M of the module system (vm.rs: start_import_impl, finish_import_impl, module(),
   init_built_in_globals, load_frame, call_closure, return_impl, unwind_stack, get/set/define_global_impl,
   get/set_property_impl on modules).  Executable definitions only; proofs are in ModulesProofs.v.

   Event-level machine.  The state keeps exactly what these functions read and write:
     reg      Vm.modules            : path -> module object (object = index into `heap`)
     heap     the ObjModule objects : path, imported flag, attributes
     frames   fiber.frames          : for every call frame the module of its closure (closure.module),
                                      whether it is a module body, and the import temporaries it holds
                                      on the value stack (the module pushed by StartImport until
                                      FinishImport has run)
     handlers fiber.exc_handlers    : frame_count and (the relevant part of) init_stack_size
     active   Vm.active_module      : the register used by global get/set/define; `load_frame` re-derives
                                      it from the top frame on every call / return / unwind
   plus three logs used only to state theorems (loader calls, started module bodies, module objects
   handed to import statements).  The host loader and the compiler are oracles (Section variables). *)
From Coq Require Import List String Ascii NArith Bool Arith.
Import ListNotations.
Open Scope string_scope.

Definition path := string.
Definition name := string.

Inductive errkind :=
  KAttribute | KCompile | KImport | KIndex | KName | KRuntime | KType | KValue.

Definition errkind_eqb (a b : errkind) : bool :=
  match a, b with
  | KAttribute, KAttribute | KCompile, KCompile | KImport, KImport | KIndex, KIndex
  | KName, KName | KRuntime, KRuntime | KType, KType | KValue, KValue => true
  | _, _ => false
  end.

Record error := mkerr { e_kind : errkind; e_msgs : list string }.

Inductive value :=
| VNil
| VNum (n : N)
| VStr (s : string)
| VMod (id : nat)                (* a module object *)
| VFn (m : nat) (f : name)       (* a closure created while module object m was active: closure.module = m *)
| VBuiltin (b : name).           (* a native / core class installed by init_built_in_globals *)

(* what travels up the stack on unwinding: an error raised by the VM, or a thrown value *)
Inductive exc := XErr (e : error) | XVal (v : value).

Record modrec := mkmod { m_path : path; m_imported : bool; m_attrs : list (name * value) }.
Record frame := mkframe { f_mod : nat; f_body : bool; f_pend : list nat }.
Record handler := mkhandler { h_frames : nat; h_pend : nat }.

Record state := mkstate {
  reg : list (path * nat);
  heap : list modrec;
  frames : list frame;            (* top first; never empty *)
  handlers : list handler;        (* top first *)
  active : nat;
  loads : list path;              (* log, newest first: calls of the host loader *)
  ran : list nat;                 (* log, newest first: module bodies started *)
  yielded : list (path * nat);    (* log, newest first: module object pushed by StartImport p *)
  dead : option exc               (* Some: the run ended with this uncaught exception *)
}.

(* ---- literals of vm.rs / compiler.rs (re-read by translator/translate_c14.py -> YVGen.ImportArms) ---- *)
Definition main_path : path := "main".
Definition cyc_msg (p : path) : string :=
  "Circular dependency encountered when importing module '" ++ p ++ "'.".
Definition comp_head : string := "Error compiling module:".
Definition comp_indent : string := "    ".
Definition cyc_fmt : string := "Circular dependency encountered when importing module '{}'.".
Definition comp_line_fmt : string := "    {}".
Definition stack_overflow_msg : string := "Stack overflow.".
Definition undefined_variable (x : name) : string := "Undefined variable '" ++ x ++ "'.".
Definition undefined_property (x : name) : string := "Undefined property '" ++ x ++ "'.".
(* host loader of the harness and of tests/test.rs; vm.rs's default loader has the same shape *)
Definition not_found_msg (p : path) : string := "Unable to read file '" ++ p ++ ".yl' (file not found).".

(* format strings: the first "{}" is the hole *)
Fixpoint fill (fmt p : string) : string :=
  match fmt with
  | EmptyString => EmptyString
  | String c r =>
    match r with
    | String d r' => if (Ascii.eqb c "{"%char && Ascii.eqb d "}"%char)%bool then (match r' with EmptyString => p | _ => p ++ r' end) else String c (fill r p)
    | EmptyString => String c EmptyString
    end
  end.

(* the order of the stages of start_import_impl, as hard-wired in `start_import` below *)
Inductive stage := StRegistry | StLoader | StCompile | StRegister | StCall | StBuiltins.
Definition import_order : list stage := [StRegistry; StLoader; StCompile; StRegister; StCall; StBuiltins].
Definition stage_name (s : stage) : string :=
  match s with
  | StRegistry => "registry" | StLoader => "loader" | StCompile => "compile"
  | StRegister => "register" | StCall => "call" | StBuiltins => "builtins"
  end.
(* which module's built-ins start_import_impl (re-)initialises: the ACTIVE one, after call_value *)
Definition builtins_target : string := "active_module".

(* ---- association lists (the attribute HashMap) ---- *)
Fixpoint alookup {A} (l : list (string * A)) (x : string) : option A :=
  match l with
  | [] => None
  | (k, v) :: r => if String.eqb k x then Some v else alookup r x
  end.

Fixpoint ainsert {A} (l : list (string * A)) (x : string) (v : A) : list (string * A) :=
  match l with
  | [] => [(x, v)]
  | (k, w) :: r => if String.eqb k x then (k, v) :: r else (k, w) :: ainsert r x v
  end.

Definition akeys {A} (l : list (string * A)) : list string := map fst l.

Fixpoint upd_nth {A} (l : list A) (i : nat) (f : A -> A) : list A :=
  match l, i with
  | [], _ => []
  | a :: r, O => f a :: r
  | a :: r, S j => a :: upd_nth r j f
  end.

(* the bottom k elements of a top-first list: Vec::truncate(k) *)
Definition keep_bottom {A} (k : nat) (l : list A) : list A := skipn (List.length l - k) l.

Definition empty_mod (p : path) : modrec := mkmod p false [].
Definition getmod (st : state) (id : nat) : modrec := nth id (heap st) (empty_mod "").
Definition attrs_of (st : state) (id : nat) : list (name * value) := m_attrs (getmod st id).
Definition top_mod (st : state) : nat :=
  match frames st with f :: _ => f_mod f | [] => active st end.

Inductive load_result (SrcId : Type) := LoadOk (s : SrcId) | LoadErr (e : error).
Inductive comp_result (Body : Type) := CompOk (b : Body) | CompErr (msgs : list string).
Arguments LoadOk {SrcId}. Arguments LoadErr {SrcId}.
Arguments CompOk {Body}. Arguments CompErr {Body}.

Inductive event :=
| EStartImport (p : path)
| EFinishImport
| ECall (m : nat)                 (* call of a closure whose `module` field is m *)
| EReturn
| EThrow (v : value)              (* the `throw` statement *)
| EPushHandler
| EPopHandler
| EGetGlobal (x : name)
| ESetGlobal (x : name) (v : value)
| EDefineGlobal (x : name) (v : value)
| EGetAttr (m : nat) (x : name)
| ESetAttr (m : nat) (x : name) (v : value).

Section Machine.
  Variables SrcId Body : Type.
  Variable loader : path -> load_result SrcId.               (* Vm.module_loader *)
  Variable compiler : path -> SrcId -> comp_result Body.     (* compiler::compile(vm, source, Some(path)) *)
  Variable builtin_names : list name.                        (* what init_built_in_globals defines *)
  Variable frames_max : nat.                                 (* common::FRAMES_MAX *)

  Inductive outcome :=
  | ONone
  | OValue (v : value)
  | OModule (id : nat)                 (* StartImport: cached module pushed, no frame *)
  | OEntered (id : nat) (b : Body)     (* StartImport: module registered, its body's frame pushed *)
  | OCaught (x : exc)                  (* an exception was raised and a handler took it *)
  | ODead (x : exc).                   (* raised with no handler: the run ends *)

  Definition set_heap (st : state) (h : list modrec) : state :=
    mkstate (reg st) h (frames st) (handlers st) (active st) (loads st) (ran st) (yielded st) (dead st).
  Definition set_frames (st : state) (fs : list frame) : state :=
    mkstate (reg st) (heap st) fs (handlers st) (active st) (loads st) (ran st) (yielded st) (dead st).
  Definition set_handlers (st : state) (hs : list handler) : state :=
    mkstate (reg st) (heap st) (frames st) hs (active st) (loads st) (ran st) (yielded st) (dead st).
  Definition set_active (st : state) (a : nat) : state :=
    mkstate (reg st) (heap st) (frames st) (handlers st) a (loads st) (ran st) (yielded st) (dead st).

  (* load_frame: active_module := closure.module of the current frame *)
  Definition load_frame (st : state) : state := set_active st (top_mod st).

  Definition upd_attrs (st : state) (id : nat) (f : list (name * value) -> list (name * value)) : state :=
    set_heap st (upd_nth (heap st) id (fun m => mkmod (m_path m) (m_imported m) (f (m_attrs m)))).
  Definition set_imported (st : state) (id : nat) : state :=
    set_heap st (upd_nth (heap st) id (fun m => mkmod (m_path m) true (m_attrs m))).

  (* init_built_in_globals(path of module id): define_native / set_global = HashMap::insert *)
  Definition init_builtins (id : nat) (st : state) : state :=
    upd_attrs st id (fun a => fold_left (fun acc b => ainsert acc b (VBuiltin b)) builtin_names a).

  Definition push_pend (id : nat) (st : state) : state :=
    match frames st with
    | f :: r => set_frames st (mkframe (f_mod f) (f_body f) (id :: f_pend f) :: r)
    | [] => st
    end.

  (* unwind_stack: pop a handler or end the run; truncate value stack and frames; load_frame *)
  Definition raise (st : state) (x : exc) : state * outcome :=
    match handlers st with
    | [] => (mkstate (reg st) (heap st) (frames st) [] (active st) (loads st) (ran st) (yielded st) (Some x),
             ODead x)
    | h :: hs =>
      let fs := keep_bottom (h_frames h) (frames st) in
      let fs' := match fs with
                 | f :: r => mkframe (f_mod f) (f_body f) (keep_bottom (h_pend h) (f_pend f)) :: r
                 | [] => []
                 end in
      (load_frame (set_handlers (set_frames st fs') hs), OCaught x)
    end.

  (* Vm::module(path): get or create *)
  Definition get_or_create (st : state) (p : path) : state * nat :=
    match alookup (reg st) p with
    | Some id => (st, id)
    | None =>
      let id := List.length (heap st) in
      (mkstate (reg st ++ [(p, id)]) (heap st ++ [empty_mod p]) (frames st) (handlers st) (active st)
               (loads st) (ran st) (yielded st) (dead st), id)
    end.

  Definition log_load (p : path) (st : state) : state :=
    mkstate (reg st) (heap st) (frames st) (handlers st) (active st) (p :: loads st) (ran st) (yielded st) (dead st).
  Definition log_ran (id : nat) (st : state) : state :=
    mkstate (reg st) (heap st) (frames st) (handlers st) (active st) (loads st) (id :: ran st) (yielded st) (dead st).
  Definition log_yield (p : path) (id : nat) (st : state) : state :=
    mkstate (reg st) (heap st) (frames st) (handlers st) (active st) (loads st) (ran st) ((p, id) :: yielded st) (dead st).

  (* call_closure: frame limit, push_call_frame, load_frame *)
  Definition call_closure (st : state) (m : nat) (body : bool) : state * outcome :=
    if Nat.eqb (List.length (frames st)) frames_max
    then raise st (XErr (mkerr KIndex [stack_overflow_msg]))
    else (load_frame (set_frames st (mkframe m body [] :: frames st)), ONone).

  Definition start_import (st : state) (p : path) : state * outcome :=
    match alookup (reg st) p with
    | Some id =>
      if m_imported (getmod st id)
      then (push_pend id (log_yield p id st), OModule id)
      else raise st (XErr (mkerr KImport [cyc_msg p]))
    | None =>
      let st1 := log_load p st in
      match loader p with
      | LoadErr e => raise st1 (XErr e)
      | LoadOk src =>
        match compiler p src with
        | CompErr msgs => raise st1 (XErr (mkerr KImport (comp_head :: map (append comp_indent) msgs)))
        | CompOk body =>
          let '(st2, id) := get_or_create st1 p in
          let st3 := push_pend id (log_yield p id st2) in
          match call_closure st3 id true with
          | (st4, ONone) =>
            (* the frame of the body is pushed; active_module is already the new module *)
            let st5 := log_ran id st4 in
            (init_builtins (active st5) st5, OEntered id body)
          | (st4, OCaught x) =>
            (* frame limit hit, error handled: call_value returned Ok, the built-ins of whatever
               module is active after the unwinding are re-initialised *)
            (init_builtins (active st4) st4, OCaught x)
          | r => r
          end
        end
      end
    end.

  Definition finish_import (st : state) : state :=
    match frames st with
    | f :: r =>
      match f_pend f with
      | id :: pend => set_imported (set_frames st (mkframe (f_mod f) (f_body f) pend :: r)) id
      | [] => st
      end
    | [] => st
    end.

  Definition step (st : state) (e : event) : state * outcome :=
    match dead st with
    | Some _ => (st, ONone)
    | None =>
      match e with
      | EStartImport p => start_import st p
      | EFinishImport => (finish_import st, ONone)
      | ECall m =>
        (* a closure's `module` is an existing module object; an ill-formed event is ignored *)
        if Nat.ltb m (List.length (heap st)) then call_closure st m false else (st, ONone)
      | EReturn =>
        match frames st with
        | _ :: (f :: r) => (load_frame (set_frames st (f :: r)), ONone)
        | _ => (st, ONone)          (* the outermost frame returns: the run is over *)
        end
      | EThrow v => raise st (XVal v)
      | EPushHandler =>
        let pl := match frames st with f :: _ => List.length (f_pend f) | [] => 0 end in
        (set_handlers st (mkhandler (List.length (frames st)) pl :: handlers st), ONone)
      | EPopHandler => (set_handlers st (tl (handlers st)), ONone)
      | EGetGlobal x =>
        match alookup (attrs_of st (active st)) x with
        | Some v => (st, OValue v)
        | None => raise st (XErr (mkerr KName [undefined_variable x]))
        end
      | ESetGlobal x v =>
        match alookup (attrs_of st (active st)) x with
        | Some _ => (upd_attrs st (active st) (fun a => ainsert a x v), OValue v)
        | None => raise st (XErr (mkerr KName [undefined_variable x]))
        end
      | EDefineGlobal x v => (upd_attrs st (active st) (fun a => ainsert a x v), ONone)
      | EGetAttr m x =>
        match alookup (attrs_of st m) x with
        | Some v => (st, OValue v)
        | None => raise st (XErr (mkerr KAttribute [undefined_property x]))
        end
      | ESetAttr m x v => (upd_attrs st m (fun a => ainsert a x v), OValue v)
      end
    end.

  Fixpoint run_events (st : state) (evs : list event) : state :=
    match evs with
    | [] => st
    | e :: r => run_events (fst (step st e)) r
    end.

  (* Vm::with_built_ins + execute: module "main" (object 0) holds `main_attrs`
     (init_built_in_globals("main") plus the classes core.yl defined there); its script frame is pushed *)
  Definition init_state (main_attrs : list (name * value)) : state :=
    mkstate [(main_path, 0)] [mkmod main_path false main_attrs] [mkframe 0 true []] [] 0 [] [] [] None.

  Definition builtin_attrs (names : list name) : list (name * value) :=
    map (fun b => (b, VBuiltin b)) names.
End Machine.

Arguments ONone {Body}. Arguments OValue {Body}. Arguments OModule {Body}. Arguments OEntered {Body}.
Arguments OCaught {Body}. Arguments ODead {Body}.
