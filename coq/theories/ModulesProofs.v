(* C14 - proofs about the module machine of Modules.v, over EVERY event sequence and for EVERY loader and
   compiler (Section variables).  Headline theorems (restated in props/C14.v):
     body_runs_at_most_once (per module object; a started body whose object is no longer the registered one
     is a FAILED import), body_starts_only_if_absent_or_failed, loaded_module_is_settled (a finished module is
     never loaded or run again), same_module_object, cycle_is_import_error, loading_module_is_cycle_error,
     failed_load_is_import_error, failed_compile_is_import_error, failed_import_is_retried,
     globals_isolated (+ call_enters_defining_module, global_write_is_local, attrs_frame),
     builtins_in_every_module, and the `_refuted_old` witnesses on the model variant before 367eb72. *)
From Coq Require Import List String NArith Bool Arith Lia.
From YV Require Import Modules ModuleSpec ModLang.
Import ListNotations.
Open Scope list_scope.

(* ---------------------------------------------------------------------------------------------- *)
(* lists *)

Lemma upd_nth_length A (l : list A) i f : List.length (upd_nth l i f) = List.length l.
Proof. revert i; induction l as [|a l IH]; intros [|i]; simpl; auto. Qed.

Lemma nth_upd_nth_neq A (l : list A) i j f d : j <> i -> nth j (upd_nth l i f) d = nth j l d.
Proof.
  revert i j; induction l as [|a l IH]; intros [|i] [|j] Hne; simpl; auto; try congruence.
Qed.

Lemma nth_upd_nth_eq A (l : list A) i f d : i < List.length l -> nth i (upd_nth l i f) d = f (nth i l d).
Proof.
  revert i; induction l as [|a l IH]; intros [|i] Hlt; simpl in *; try lia; auto. apply IH; lia.
Qed.

Lemma nth_upd_nth_proj A X (g : A -> X) (l : list A) i f d :
  (forall a, g (f a) = g a) -> forall j, g (nth j (upd_nth l i f) d) = g (nth j l d).
Proof.
  intros Hg. revert i; induction l as [|a l IH]; intros [|i] [|j]; simpl; auto.
Qed.

Lemma alookup_app_some A (l : list (string * A)) k w x v :
  alookup l x = Some v -> alookup (l ++ [(k, w)]) x = Some v.
Proof.
  induction l as [|[k' v'] l IH]; simpl; intros H; [discriminate|].
  destruct (String.eqb k' x); auto.
Qed.

Lemma alookup_app_none A (l : list (string * A)) k w x :
  alookup l x = None -> alookup (l ++ [(k, w)]) x = if String.eqb k x then Some w else None.
Proof.
  induction l as [|[k' v'] l IH]; simpl; intros H; auto.
  destruct (String.eqb k' x); [discriminate|auto].
Qed.

Lemma akeys_ainsert_mono A (l : list (string * A)) x v k : In k (akeys l) -> In k (akeys (ainsert l x v)).
Proof.
  unfold akeys. induction l as [|[k' v'] l IH]; simpl; intros H; [tauto|].
  destruct (String.eqb k' x); simpl in *; tauto.
Qed.

Lemma akeys_ainsert_in A (l : list (string * A)) x v : In x (akeys (ainsert l x v)).
Proof.
  unfold akeys. induction l as [|[k' v'] l IH]; simpl; auto.
  destruct (String.eqb k' x) eqn:E; simpl; auto. apply String.eqb_eq in E; auto.
Qed.

Lemma alookup_ainsert_same A (l : list (string * A)) x v : alookup (ainsert l x v) x = Some v.
Proof.
  induction l as [|[k' v'] l IH]; simpl.
  - now rewrite String.eqb_refl.
  - destruct (String.eqb k' x) eqn:E; simpl; rewrite E; auto.
Qed.

Lemma alookup_ainsert_other A (l : list (string * A)) x y v : x <> y -> alookup (ainsert l x v) y = alookup l y.
Proof.
  intros Hne. induction l as [|[k' v'] l IH]; simpl.
  - destruct (String.eqb x y) eqn:E; auto. apply String.eqb_eq in E; congruence.
  - destruct (String.eqb k' x) eqn:E; simpl.
    + apply String.eqb_eq in E; subst k'. destruct (String.eqb x y) eqn:E2; auto.
      apply String.eqb_eq in E2; congruence.
    + destruct (String.eqb k' y); auto.
Qed.

Lemma alookup_in_keys A (l : list (string * A)) x v : alookup l x = Some v -> In x (akeys l).
Proof.
  unfold akeys. induction l as [|[k' v'] l IH]; simpl; intros H; [discriminate|].
  destruct (String.eqb k' x) eqn:E; auto. apply String.eqb_eq in E; auto.
Qed.

Lemma in_keys_alookup A (l : list (string * A)) x : In x (akeys l) -> exists v, alookup l x = Some v.
Proof.
  unfold akeys. induction l as [|[k' v'] l IH]; simpl; intros H; [tauto|].
  destruct (String.eqb k' x) eqn:E; eauto. destruct H as [H|H]; auto.
  subst. rewrite String.eqb_refl in E; discriminate.
Qed.

Lemma keep_bottom_suffix A k (l : list A) : exists pre, l = pre ++ keep_bottom k l.
Proof. exists (firstn (List.length l - k) l). unfold keep_bottom. now rewrite firstn_skipn. Qed.

Lemma keep_bottom_nonempty A k (l : list A) : 1 <= k -> l <> [] -> keep_bottom k l <> [].
Proof.
  intros Hk Hl. unfold keep_bottom. intros H.
  assert (Hlen : List.length (skipn (List.length l - k) l) = 0) by now rewrite H.
  rewrite skipn_length in Hlen.
  assert (Hl0 : List.length l <> 0) by (destruct l; [congruence|simpl; lia]). lia.
Qed.

Lemma in_suffix A (pre l : list A) x : In x l -> In x (pre ++ l).
Proof. intros; apply in_or_app; auto. Qed.


Lemma alookup_aremove A (l : list (string * A)) x y :
  alookup (aremove l x) y = if String.eqb x y then None else alookup l y.
Proof.
  induction l as [|[k v] l IH]; simpl.
  - destruct (String.eqb x y); reflexivity.
  - destruct (String.eqb k x) eqn:E.
    + apply String.eqb_eq in E; subst k. rewrite IH. destruct (String.eqb x y); reflexivity.
    + simpl. rewrite IH. destruct (String.eqb k y) eqn:E2; auto.
      destruct (String.eqb x y) eqn:E3; auto.
      apply String.eqb_eq in E2. apply String.eqb_eq in E3. subst. rewrite String.eqb_refl in E. discriminate.
Qed.

Lemma existsb_suffix A (f : A -> bool) (pre l : list A) : existsb f (pre ++ l) = false -> existsb f l = false.
Proof. rewrite existsb_app. intros H. apply orb_false_iff in H. tauto. Qed.

Lemma NoDup_suffix A (pre l : list A) : NoDup (pre ++ l) -> NoDup l.
Proof. induction pre as [|a pre IH]; simpl; auto. intros H. inversion H; auto. Qed.

(* ---------------------------------------------------------------------------------------------- *)

Section Proofs.
  Variables SrcId Body : Type.
  Variable loader : path -> load_result SrcId.
  Variable compiler : path -> SrcId -> comp_result Body.
  Variable builtin_names : list name.
  Variable frames_max : nat.
  Variables chk grd : bool.      (* hit_checks_loading, builtins_guarded: everything up to `Inv` holds for both variants;
                                    loading_walks_chain is fixed to true: the variant `false` breaks the invariant, see the
                                    witness cycle_through_two_fibers_refuted_shallow *)

  Notation stepM := (step SrcId Body loader compiler builtin_names frames_max chk grd true).
  Notation runM := (run_events SrcId Body loader compiler builtin_names frames_max chk grd true).
  Notation raiseM := (raise Body).
  Notation callM := (call_closure Body frames_max).
  Notation loadrunM := (load_and_run SrcId Body loader compiler builtin_names frames_max grd).
  Notation startM := (start_import SrcId Body loader compiler builtin_names frames_max chk grd true).
  Notation initB := (init_builtins builtin_names).

  Definition body_mods (fs : list frame) : list nat := map f_mod (filter f_body fs).
  Definition registered (st : state) (id : nat) : Prop := alookup (reg st) (m_path (getmod st id)) = Some id.

  Record Inv (st : state) : Prop := mkInv {
    i_reg1 : forall p id, alookup (reg st) p = Some id -> id < List.length (heap st) /\ m_path (getmod st id) = p;
    i_fr_ne : frames st <> [];
    i_fr_ok : forall f, In f (frames st) -> f_mod f < List.length (heap st);
    i_act_lt : active st < List.length (heap st);
    i_act : dead st = None -> active st = top_mod st;
    i_hand : forall h, In h (handlers st) -> 1 <= h;
    i_ran_nd : NoDup (ran st);
    i_ran_lt : forall id, In id (ran st) -> id < List.length (heap st);
    i_yield : forall p id, In (p, id) (yielded st) -> alookup (reg st) p = Some id /\ m_imported (getmod st id) = true;
    i_built : forall id, id = 0 \/ In id (ran st) -> forall b, In b builtin_names -> In b (akeys (attrs_of st id));
    (* a module whose body is on the frame stack is the registered object of its path and not yet imported *)
    i_loading : forall f, In f (frames st) -> f_body f = true ->
                registered st (f_mod f) /\ m_imported (getmod st (f_mod f)) = false;
    i_body_nd : NoDup (body_mods (frames st));
    (* a started body whose object is not (any more) the registered object of its path is a failed import *)
    i_ran_ok : forall id, In id (ran st) ->
               registered st id \/ (m_imported (getmod st id) = false /\ is_loading st id = false)
  }.

  (* ---- is_loading ---- *)
  Lemma is_loading_true st id : is_loading st id = true <-> exists f, In f (frames st) /\ f_body f = true /\ f_mod f = id.
  Proof.
    unfold is_loading. rewrite existsb_exists. split.
    - intros (f & Hf & H). apply andb_true_iff in H. destruct H as [H1 H2]. apply Nat.eqb_eq in H2. eauto.
    - intros (f & Hf & H1 & H2). exists f. split; auto. rewrite H1, H2, Nat.eqb_refl. reflexivity.
  Qed.

  Lemma is_loading_false st id :
    is_loading st id = false <-> forall f, In f (frames st) -> f_body f = true -> f_mod f <> id.
  Proof.
    split.
    - intros H f Hf Hb Heq. assert (is_loading st id = true) by (apply is_loading_true; eauto). congruence.
    - intros H. destruct (is_loading st id) eqn:E; auto. apply is_loading_true in E.
      destruct E as (f & Hf & Hb & Heq). exfalso. apply (H f); auto.
  Qed.

  Lemma keep_bottom_incl A k (l : list A) x : In x (keep_bottom k l) -> In x l.
  Proof. destruct (keep_bottom_suffix A k l) as [pre E]. intros H. rewrite E. apply in_suffix; auto. Qed.

  Lemma body_mods_suffix pre fs : body_mods (pre ++ fs) = body_mods pre ++ body_mods fs.
  Proof. unfold body_mods. now rewrite filter_app, map_app. Qed.

  (* ---- getmod under heap updates ---- *)
  Lemma getmod_upd_attrs_path st i f id : m_path (getmod (upd_attrs st i f) id) = m_path (getmod st id).
  Proof. unfold upd_attrs, getmod; simpl. apply (nth_upd_nth_proj _ _ m_path); auto. Qed.

  Lemma getmod_upd_attrs_imported st i f id : m_imported (getmod (upd_attrs st i f) id) = m_imported (getmod st id).
  Proof. unfold upd_attrs, getmod; simpl. apply (nth_upd_nth_proj _ _ m_imported); auto. Qed.

  Lemma attrs_upd_attrs_other st i f id : id <> i -> attrs_of (upd_attrs st i f) id = attrs_of st id.
  Proof. intros H. unfold attrs_of, upd_attrs, getmod; simpl. now rewrite nth_upd_nth_neq. Qed.

  Lemma attrs_upd_attrs_same st i f : i < List.length (heap st) -> attrs_of (upd_attrs st i f) i = f (attrs_of st i).
  Proof. intros H. unfold attrs_of, upd_attrs, getmod; simpl. now rewrite nth_upd_nth_eq. Qed.

  Lemma keys_upd_attrs_mono st i f id k :
    (forall a k, In k (akeys a) -> In k (akeys (f a))) ->
    In k (akeys (attrs_of st id)) -> In k (akeys (attrs_of (upd_attrs st i f) id)).
  Proof.
    intros Hf Hk. destruct (Nat.eq_dec id i) as [->|Hne].
    - destruct (Nat.lt_ge_cases i (List.length (heap st))) as [Hlt|Hge].
      + rewrite attrs_upd_attrs_same; auto.
      + unfold attrs_of, upd_attrs, getmod in *; simpl.
        rewrite nth_overflow in Hk by lia. simpl in Hk. tauto.
    - rewrite attrs_upd_attrs_other; auto.
  Qed.

  Lemma upd_attrs_inv st i f :
    (forall a k, In k (akeys a) -> In k (akeys (f a))) -> Inv st -> Inv (upd_attrs st i f).
  Proof.
    intros Hf I. destruct I.
    assert (Hreg : forall j, registered st j -> registered (upd_attrs st i f) j).
    { intros j Hj. unfold registered in *. rewrite getmod_upd_attrs_path. exact Hj. }
    constructor; simpl; try rewrite upd_nth_length; auto.
    - intros p id H. rewrite getmod_upd_attrs_path. auto.
    - intros p id H. rewrite getmod_upd_attrs_imported. auto.
    - intros id Hid b Hb. apply keys_upd_attrs_mono; auto.
    - intros g Hg Hb. rewrite getmod_upd_attrs_imported. destruct (i_loading0 g Hg Hb). split; auto.
    - intros id Hid. rewrite getmod_upd_attrs_imported. destruct (i_ran_ok0 id Hid) as [H|H]; auto.
  Qed.

  Lemma fold_ainsert_keys_mono (names : list name) (a : list (name * value)) k :
    In k (akeys a) -> In k (akeys (fold_left (fun acc b => ainsert acc b (VBuiltin b)) names a)).
  Proof.
    revert a; induction names as [|n names IH]; simpl; intros a H; auto.
    apply IH. apply akeys_ainsert_mono; auto.
  Qed.

  Lemma fold_ainsert_keys_in (names : list name) (a : list (name * value)) b :
    In b names -> In b (akeys (fold_left (fun acc b => ainsert acc b (VBuiltin b)) names a)).
  Proof.
    revert a; induction names as [|n names IH]; simpl; intros a H; [tauto|].
    destruct H as [->|H]; auto. apply fold_ainsert_keys_mono. apply akeys_ainsert_in.
  Qed.

  Lemma init_builtins_inv st id : Inv st -> Inv (initB id st).
  Proof. intros I. apply upd_attrs_inv; auto. intros a k. apply fold_ainsert_keys_mono. Qed.

  Lemma init_builtins_has st id b :
    id < List.length (heap st) -> In b builtin_names -> In b (akeys (attrs_of (initB id st) id)).
  Proof.
    intros Hlt Hb. unfold init_builtins. rewrite attrs_upd_attrs_same; auto.
    apply fold_ainsert_keys_in; auto.
  Qed.

  (* ---- set_imported (finish_import_impl) ---- *)
  Lemma set_imported_inv st id :
    Inv st -> registered st id -> is_loading st id = false -> Inv (set_imported st id).
  Proof.
    intros I Hr Hnl. destruct I.
    assert (Hpath : forall j, m_path (getmod (set_imported st id) j) = m_path (getmod st j)).
    { intros j. unfold set_imported, getmod; simpl. apply (nth_upd_nth_proj _ _ m_path); auto. }
    assert (Hattr : forall j, attrs_of (set_imported st id) j = attrs_of st j).
    { intros j. unfold attrs_of, set_imported, getmod; simpl. apply (nth_upd_nth_proj _ _ m_attrs); auto. }
    assert (Himp : forall j, j <> id -> m_imported (getmod (set_imported st id) j) = m_imported (getmod st j)).
    { intros j Hj. unfold set_imported, getmod; simpl. now rewrite nth_upd_nth_neq. }
    assert (Himp' : forall j, m_imported (getmod st j) = true -> m_imported (getmod (set_imported st id) j) = true).
    { intros j Hj. destruct (Nat.eq_dec j id) as [->|Hne]; [|rewrite Himp; auto].
      unfold set_imported, getmod; simpl.
      destruct (Nat.lt_ge_cases id (List.length (heap st))) as [Hlt|Hge].
      - now rewrite nth_upd_nth_eq.
      - unfold getmod in Hj. rewrite nth_overflow in Hj by lia. discriminate. }
    assert (Hreg : forall j, registered st j -> registered (set_imported st id) j).
    { intros j Hj. unfold registered in *. rewrite Hpath. exact Hj. }
    pose proof (proj1 (is_loading_false st id) Hnl) as Hnb.
    constructor; simpl; try rewrite upd_nth_length; auto.
    - intros p j H. rewrite Hpath. auto.
    - intros p j H. destruct (i_yield0 p j H). split; auto.
    - intros j Hj b Hb. rewrite Hattr. auto.
    - intros g Hg Hb. destruct (i_loading0 g Hg Hb) as [H1 H2]. split; auto.
      rewrite Himp; auto.
    - intros j Hj. destruct (Nat.eq_dec j id) as [->|Hne]; [left; apply Hreg; auto|].
      destruct (i_ran_ok0 j Hj) as [H|[H1 H2]]; [left; apply Hreg; auto|].
      right. split; [rewrite Himp; auto|exact H2].
  Qed.

  (* ---- replacing the frames by a suffix (return, unwind) ---- *)
  Lemma load_frame_sub_inv st pre fs :
    Inv st -> frames st = pre ++ fs -> fs <> [] -> Inv (load_frame (set_frames st fs)).
  Proof.
    intros I Ef Hne. destruct I.
    assert (Hin : forall g, In g fs -> In g (frames st)) by (intros g Hg; rewrite Ef; apply in_suffix; auto).
    constructor; simpl; auto.
    - unfold top_mod; simpl. destruct fs as [|f r]; [congruence|]. apply i_fr_ok0, Hin. left; auto.
    - intros _. unfold load_frame, top_mod; simpl. destruct fs; reflexivity.
    - intros g Hg Hb. apply i_loading0; auto.
    - rewrite Ef, body_mods_suffix in i_body_nd0. apply NoDup_suffix in i_body_nd0. exact i_body_nd0.
    - intros id Hid. destruct (i_ran_ok0 id Hid) as [H|[H1 H2]]; [left; exact H|right].
      split; auto. unfold is_loading in *. simpl. rewrite Ef in H2. apply existsb_suffix in H2. exact H2.
  Qed.

  (* ---- raise ---- *)
  Lemma raise_fields st x :
    reg (fst (raiseM st x)) = reg st /\ heap (fst (raiseM st x)) = heap st /\ loads (fst (raiseM st x)) = loads st
    /\ ran (fst (raiseM st x)) = ran st /\ yielded (fst (raiseM st x)) = yielded st.
  Proof. unfold raise. destruct (handlers st); simpl; auto. destruct (Nat.ltb _ _); simpl; auto. Qed.

  Lemma killed_inv st x : Inv st -> Inv (killed st x).
  Proof. intros I. destruct I. constructor; simpl; auto; try discriminate. Qed.

  Lemma set_handlers_inv st hs : Inv st -> (forall h, In h hs -> 1 <= h) -> Inv (set_handlers st hs).
  Proof. intros I H. destruct I. constructor; simpl; auto. Qed.

  Lemma raise_inv st x : Inv st -> Inv (fst (raiseM st x)).
  Proof.
    intros I. unfold raise. destruct (handlers st) as [|h hs] eqn:Eh; simpl.
    - apply killed_inv; auto.
    - destruct (Nat.ltb (base_len st) h); simpl; [|apply killed_inv; auto].
      assert (Hk : 1 <= h) by (apply (i_hand _ I); rewrite Eh; left; auto).
      destruct (keep_bottom_suffix _ h (frames st)) as [pre Epre].
      pose proof (keep_bottom_nonempty _ _ _ Hk (i_fr_ne _ I)) as Hne.
      assert (I' : Inv (set_handlers st hs)).
      { apply set_handlers_inv; auto. intros h' Hh'. apply (i_hand _ I). rewrite Eh; right; auto. }
      exact (load_frame_sub_inv (set_handlers st hs) pre (keep_bottom h (frames st)) I' Epre Hne).
  Qed.

  Lemma raise_outcome st x : snd (raiseM st x) = OCaught x \/ snd (raiseM st x) = ODead x.
  Proof. unfold raise. destruct (handlers st); simpl; auto. destruct (Nat.ltb _ _); simpl; auto. Qed.

  (* ---- logs ---- *)
  Lemma log_yield_inv st p id :
    Inv st -> alookup (reg st) p = Some id -> m_imported (getmod st id) = true -> Inv (log_yield p id st).
  Proof.
    intros I H Hi. destruct I. constructor; simpl; auto.
    intros q j [E|Hq]; [inversion E; subst; auto|apply i_yield0; auto].
  Qed.

  Lemma log_load_inv st p : Inv st -> Inv (log_load p st).
  Proof. intros I. destruct I. constructor; simpl; auto. Qed.

  (* ---- calls ---- *)
  Lemma push_frame_inv st m b bs :
    Inv st -> m < List.length (heap st) ->
    (b = true -> registered st m /\ m_imported (getmod st m) = false /\ is_loading st m = false) ->
    Inv (load_frame (set_frames st (mkframe m b bs :: frames st))).
  Proof.
    intros I Hlt Hb. destruct I. constructor; simpl; auto; try discriminate.
    - intros g [<-|Hg]; auto.
    - intros g [<-|Hg] Hg'; simpl in *; [destruct (Hb Hg') as (H1 & H2 & _); split; auto|apply i_loading0; auto].
    - unfold body_mods. simpl. destruct b; simpl; auto. constructor; auto.
      destruct (Hb eq_refl) as (_ & _ & H3). intros Hin.
      apply in_map_iff in Hin. destruct Hin as (g & Hg1 & Hg2). apply filter_In in Hg2. destruct Hg2 as [Hg2 Hg3].
      apply (proj1 (is_loading_false st m) H3 g); auto.
    - intros id Hid. destruct (i_ran_ok0 id Hid) as [H|[H1 H2]]; [left; exact H|].
      destruct (Nat.eq_dec id m) as [->|Hne].
      + destruct b.
        * left. apply Hb; auto.
        * right. split; [exact H1|]. unfold is_loading in *. simpl. exact H2.
      + right. split; [exact H1|]. unfold is_loading in *. simpl. rewrite H2.
        destruct b; simpl; auto. apply Nat.eqb_neq in Hne. rewrite Nat.eqb_sym, Hne. reflexivity.
  Qed.

  Lemma call_closure_inv st m b :
    Inv st -> m < List.length (heap st) ->
    (b = true -> registered st m /\ m_imported (getmod st m) = false /\ is_loading st m = false) ->
    Inv (fst (callM st m b)).
  Proof.
    intros I Hlt Hb. unfold call_closure. destruct (Nat.eqb _ _).
    - apply raise_inv; auto.
    - simpl. apply push_frame_inv; auto.
  Qed.

  Lemma call_closure_fields st m b :
    reg (fst (callM st m b)) = reg st /\ heap (fst (callM st m b)) = heap st /\ loads (fst (callM st m b)) = loads st
    /\ ran (fst (callM st m b)) = ran st /\ yielded (fst (callM st m b)) = yielded st.
  Proof. unfold call_closure. destruct (Nat.eqb _ _); [apply raise_fields|simpl; auto]. Qed.

  Lemma call_closure_none st m b st' :
    callM st m b = (st', ONone) ->
    st' = load_frame (set_frames st (mkframe m b false :: frames st)) /\ fiber_depth (frames st) <> frames_max.
  Proof.
    unfold call_closure. destruct (Nat.eqb _ _) eqn:E.
    - intros H. destruct (raise_outcome st (XErr (mkerr KIndex [stack_overflow_msg]))) as [H'|H'];
        rewrite H in H'; simpl in H'; discriminate.
    - intros H. inversion H. apply Nat.eqb_neq in E. auto.
  Qed.

  (* ---- the registry: removal of a failed leftover, creation of a module object ---- *)
  Lemma unregister_inv st p id0 :
    Inv st -> alookup (reg st) p = Some id0 -> m_imported (getmod st id0) = false -> is_loading st id0 = false ->
    Inv (set_reg st (aremove (reg st) p)).
  Proof.
    intros I Hr Hi Hl. destruct I.
    pose proof (proj1 (is_loading_false st id0) Hl) as Hnb.
    assert (Hkeep : forall q j, alookup (reg st) q = Some j -> j <> id0 -> alookup (aremove (reg st) p) q = Some j).
    { intros q j Hq Hne. rewrite alookup_aremove. destruct (String.eqb p q) eqn:E; auto.
      apply String.eqb_eq in E; subst q. congruence. }
    constructor; simpl; auto.
    - intros q j H. rewrite alookup_aremove in H. destruct (String.eqb p q); [discriminate|apply i_reg2; auto].
    - intros q j H. destruct (i_yield0 q j H) as [H1 H2]. split; auto.
      apply Hkeep; auto. intros ->. change (m_imported (getmod st id0) = true) in H2. congruence.
    - intros f Hf Hb. destruct (i_loading0 f Hf Hb) as [H1 H2]. split; auto.
      unfold registered in *. simpl. apply Hkeep; auto.
    - intros id Hid. destruct (i_ran_ok0 id Hid) as [H|H]; [|right; exact H].
      destruct (Nat.eq_dec id id0) as [->|Hne]; [right; split; auto|].
      left. unfold registered in *. simpl. apply Hkeep; auto.
  Qed.

  Definition created (st : state) (p : path) : state :=
    mkstate (reg st ++ [(p, List.length (heap st))]) (heap st ++ [empty_mod p]) (frames st) (handlers st)
            (active st) (loads st) (ran st) (yielded st) (dead st).

  Lemma get_or_create_none st p :
    alookup (reg st) p = None -> get_or_create st p = (created st p, List.length (heap st)).
  Proof. intros H. unfold get_or_create. rewrite H. reflexivity. Qed.

  Lemma getmod_created_old st p id : id < List.length (heap st) -> getmod (created st p) id = getmod st id.
  Proof. intros H. unfold getmod, created; simpl. now rewrite app_nth1. Qed.

  Lemma getmod_created_new st p : getmod (created st p) (List.length (heap st)) = empty_mod p.
  Proof. unfold getmod, created; simpl. rewrite app_nth2 by lia. now rewrite Nat.sub_diag. Qed.

  Lemma created_inv st p : Inv st -> alookup (reg st) p = None -> Inv (created st p).
  Proof.
    intros I Hn. destruct I.
    assert (Hlen : List.length (heap st ++ [empty_mod p]) = S (List.length (heap st))) by (rewrite app_length; simpl; lia).
    assert (H0 : 0 < List.length (heap st)).
    { destruct (frames st) as [|f r] eqn:Ef; [congruence|]. pose proof (i_fr_ok0 f (or_introl eq_refl)). lia. }
    assert (Hreg : forall j, j < List.length (heap st) -> registered st j -> registered (created st p) j).
    { intros j Hj Hr. unfold registered in *. rewrite getmod_created_old; auto. simpl. apply alookup_app_some; auto. }
    constructor; simpl; try rewrite Hlen; auto.
    - intros q id H.
      destruct (alookup (reg st) q) as [j|] eqn:Eq.
      + rewrite (alookup_app_some _ _ _ _ _ _ Eq) in H. inversion H; subst j.
        destruct (i_reg2 _ _ Eq) as [H1 H2]. split; [lia|]. rewrite getmod_created_old; auto.
      + rewrite (alookup_app_none _ _ _ _ _ Eq) in H. destruct (String.eqb p q) eqn:E; [|discriminate].
        inversion H; subst id. apply String.eqb_eq in E; subst q. split; [lia|].
        rewrite getmod_created_new. reflexivity.
    - intros g Hg. specialize (i_fr_ok0 g Hg). lia.
    - intros id Hid. specialize (i_ran_lt0 id Hid). lia.
    - intros q id Hq. destruct (i_yield0 q id Hq) as [H1 H2]. split; [apply alookup_app_some; auto|].
      rewrite getmod_created_old; auto. apply (i_reg2 _ _ H1).
    - intros id Hid b Hb. unfold attrs_of. rewrite getmod_created_old; [apply i_built0; auto|].
      destruct Hid as [->|Hid]; auto.
    - intros g Hg Hb. destruct (i_loading0 g Hg Hb) as [H1 H2]. split.
      + apply Hreg; auto.
      + rewrite getmod_created_old; auto.
    - intros id Hid. pose proof (i_ran_lt0 id Hid) as Hlt.
      destruct (i_ran_ok0 id Hid) as [H|[H1 H2]]; [left; apply Hreg; auto|right].
      split; [rewrite getmod_created_old; auto|exact H2].
  Qed.

  Lemma log_ran_inv st id :
    Inv st -> id < List.length (heap st) -> ~ In id (ran st) -> registered st id ->
    (forall b, In b builtin_names -> In b (akeys (attrs_of st id))) -> Inv (log_ran id st).
  Proof.
    intros I Hlt Hnin Hr Hb. destruct I. constructor; simpl; auto.
    - constructor; auto.
    - intros j [<-|Hj]; auto.
    - intros j [->|[<-|Hj]] b Hbn.
      + apply (i_built0 0); auto.
      + apply Hb; auto.
      + apply (i_built0 j); auto.
    - intros j [<-|Hj]; [left; exact Hr|apply i_ran_ok0; auto].
  Qed.

  (* ---- the import statement ---- *)
  Lemma load_and_run_inv st p : Inv st -> alookup (reg st) p = None -> Inv (fst (loadrunM st p)).
  Proof.
    intros I Er. unfold load_and_run.
    destruct (loader p) as [src|e]; [|apply raise_inv, log_load_inv; auto].
    destruct (compiler p src) as [body|msgs]; [|apply raise_inv, log_load_inv; auto].
    rewrite get_or_create_none by (simpl; exact Er).
    set (st1 := log_load p st). set (id := List.length (heap st1)).
    set (st2 := created st1 p).
    assert (I1 : Inv st1) by (apply log_load_inv; auto).
    assert (I2 : Inv st2) by (apply created_inv; auto).
    assert (Hlt : id < List.length (heap st2)).
    { unfold st2, created; simpl. rewrite app_length; simpl. unfold id; simpl. lia. }
    assert (Hnew : getmod st2 id = empty_mod p) by apply getmod_created_new.
    assert (Hreg : registered st2 id).
    { unfold registered. rewrite Hnew. simpl. rewrite (alookup_app_none _ _ _ _ _ Er). now rewrite String.eqb_refl. }
    assert (Hnl : is_loading st2 id = false).
    { apply is_loading_false. simpl. intros g Hg _ Heq. pose proof (i_fr_ok _ I g Hg) as H. unfold id in Heq; simpl in Heq. lia. }
    assert (Himp : m_imported (getmod st2 id) = false) by (rewrite Hnew; reflexivity).
    pose proof (call_closure_inv st2 id true I2 Hlt (fun _ => conj Hreg (conj Himp Hnl))) as I4.
    pose proof (call_closure_fields st2 id true) as (Hr4 & Hh4 & _ & Hran4 & _).
    destruct (callM st2 id true) as [st4 o] eqn:Ec. simpl in I4, Hr4, Hh4, Hran4.
    destruct o; simpl; auto.
    - (* the body's frame is pushed *)
      destruct (call_closure_none _ _ _ _ Ec) as [E4 _].
      assert (Hact : active st4 = id) by (rewrite E4; reflexivity).
      rewrite Hact, Nat.eqb_refl, orb_true_r.
      change (Inv (log_ran id (initB id st4))).
      assert (Hlt4 : id < List.length (heap st4)) by (rewrite Hh4; exact Hlt).
      apply log_ran_inv.
      + apply init_builtins_inv; auto.
      + simpl. rewrite upd_nth_length. exact Hlt4.
      + simpl. rewrite Hran4. simpl. intros Hin. pose proof (i_ran_lt _ I _ Hin) as H. unfold id in H; simpl in H. lia.
      + unfold registered, init_builtins. rewrite getmod_upd_attrs_path. simpl.
        unfold registered in Hreg. unfold getmod in *. rewrite Hh4, Hr4. exact Hreg.
      + intros b Hb. apply init_builtins_has; auto.
    - destruct (negb grd || Nat.eqb (active st4) id); [apply init_builtins_inv; auto|exact I4].
  Qed.

  Lemma start_import_inv st p : Inv st -> Inv (fst (startM st p)).
  Proof.
    intros I. unfold start_import; cbv beta iota delta [is_loading_seen].
    destruct (alookup (reg st) p) as [id|] eqn:Er; [|apply load_and_run_inv; auto].
    destruct (m_imported (getmod st id)) eqn:Ei.
    - simpl. apply log_yield_inv; auto.
    - destruct (negb chk || is_loading st id) eqn:El; [apply raise_inv; auto|].
      apply orb_false_iff in El. destruct El as [_ El].
      apply load_and_run_inv.
      + apply (unregister_inv st p id); auto.
      + simpl. rewrite alookup_aremove, String.eqb_refl. reflexivity.
  Qed.

  Lemma return_inv st : Inv st -> dead st = None -> Inv (fst (stepM st EReturn)).
  Proof.
    intros I Hd. unfold step. rewrite Hd.
    destruct (frames st) as [|f0 [|f r]] eqn:Ef; auto.
    assert (I1 : Inv (load_frame (set_frames st (f :: r)))).
    { apply (load_frame_sub_inv st [f0]); auto. discriminate. }
    destruct (f_body f0) eqn:Eb; simpl.
    2:{ destruct (f_base f0); simpl; auto. apply set_handlers_inv; auto.
        intros h Hh. apply filter_In in Hh. destruct Hh as [Hh _]. apply (i_hand _ I). exact Hh. }
    assert (Hf0 : In f0 (frames st)) by (rewrite Ef; left; auto).
    destruct (i_loading _ I f0 Hf0 Eb) as [Hreg Himp].
    pose proof (i_fr_ok _ I f0 Hf0) as Hlt.
    set (st1 := load_frame (set_frames st (f :: r))) in *.
    assert (Hnl : is_loading st1 (f_mod f0) = false).
    { apply is_loading_false. simpl. intros g Hg Hb Heq.
      pose proof (i_body_nd _ I) as Hnd. rewrite Ef in Hnd. unfold body_mods in Hnd.
      change (filter f_body (f0 :: f :: r)) with (if f_body f0 then f0 :: filter f_body (f :: r) else filter f_body (f :: r)) in Hnd.
      rewrite Eb in Hnd. change (NoDup (f_mod f0 :: map f_mod (filter f_body (f :: r)))) in Hnd.
      inversion Hnd as [|? ? Hnin _]. apply Hnin.
      rewrite <- Heq. apply (in_map f_mod (filter f_body (f :: r)) g).
      apply (proj2 (filter_In f_body g (f :: r))). split; auto. }
    assert (I2 : Inv (set_imported st1 (f_mod f0))) by (apply set_imported_inv; auto).
    apply log_yield_inv;
      [exact I2|simpl; exact Hreg|unfold set_imported, getmod; simpl; rewrite nth_upd_nth_eq by exact Hlt; reflexivity].
  Qed.

  Lemma step_inv st e : Inv st -> Inv (fst (stepM st e)).
  Proof.
    intros I. destruct (dead st) eqn:Ed; [unfold step; rewrite Ed; exact I|].
    destruct e; try (apply return_inv; auto); unfold step; rewrite Ed; simpl.
    - apply start_import_inv; auto.
    - destruct (Nat.ltb m (List.length (heap st))) eqn:E; [|exact I].
      apply call_closure_inv; auto. apply Nat.ltb_lt; auto. discriminate.
    - destruct (Nat.ltb m (List.length (heap st))) eqn:E; [|exact I].
      simpl. apply push_frame_inv; auto. apply Nat.ltb_lt; auto. discriminate.
    - apply raise_inv; auto.
    - apply set_handlers_inv; auto. intros h [<-|Hh]; [|apply (i_hand _ I); auto].
      pose proof (i_fr_ne _ I). destruct (frames st); [congruence|simpl; lia].
    - apply set_handlers_inv; auto. intros h Hh. apply (i_hand _ I). destruct (handlers st); simpl in *; auto.
    - destruct (alookup _ x); [exact I|apply raise_inv; auto].
    - destruct (alookup _ x); [|apply raise_inv; auto]. simpl.
      apply upd_attrs_inv; auto. intros a k. apply akeys_ainsert_mono.
    - apply upd_attrs_inv; auto. intros a k. apply akeys_ainsert_mono.
    - destruct (alookup _ x); [exact I|apply raise_inv; auto].
    - apply upd_attrs_inv; auto. intros a k. apply akeys_ainsert_mono.
  Qed.

  Lemma run_inv evs : forall st, Inv st -> Inv (runM st evs).
  Proof. induction evs as [|e evs IH]; simpl; intros st I; auto. apply IH, step_inv; auto. Qed.

  (* the initial state: module main (object 0) with its start-up attributes, its script frame *)
  Lemma init_inv main_attrs :
    (forall b, In b builtin_names -> In b (akeys main_attrs)) -> Inv (init_state main_attrs).
  Proof.
    intros Hb.
    assert (Hg : forall id, getmod (init_state main_attrs) id = nth id [mkmod main_path false main_attrs] (empty_mod ""))
      by reflexivity.
    assert (Hr0 : registered (init_state main_attrs) 0).
    { unfold registered. rewrite Hg. cbn [nth m_path init_state reg alookup]. now rewrite String.eqb_refl. }
    constructor; unfold init_state; cbn [reg heap frames handlers active loads ran yielded dead List.length];
      auto; try discriminate.
    - intros p id H. cbn [alookup] in H. destruct (String.eqb main_path p) eqn:E; [|discriminate].
      inversion H; subst. apply String.eqb_eq in E. split; auto.
    - intros f [<-|[]]. cbn [f_mod]. lia.
    - intros h [].
    - constructor.
    - intros id [].
    - intros p id [].
    - intros id [->|[]] b Hbn. unfold attrs_of. rewrite Hg. cbn [nth m_attrs]. apply Hb; auto.
    - intros f [<-|[]] _. cbn [f_mod]. split; [exact Hr0|]. rewrite Hg. reflexivity.
    - unfold body_mods. simpl. constructor; [intros []|constructor].
    - intros id [].
  Qed.

  (* ============================================================================================ *)
  (* field lemmas *)
  Lemma raise_reg st x : reg (fst (raiseM st x)) = reg st. Proof. apply raise_fields. Qed.
  Lemma raise_heap st x : heap (fst (raiseM st x)) = heap st. Proof. apply raise_fields. Qed.
  Lemma raise_loads st x : loads (fst (raiseM st x)) = loads st. Proof. apply raise_fields. Qed.
  Lemma raise_ran st x : ran (fst (raiseM st x)) = ran st. Proof. apply raise_fields. Qed.
  Lemma call_reg st m b : reg (fst (callM st m b)) = reg st. Proof. apply call_closure_fields. Qed.
  Lemma call_heap st m b : heap (fst (callM st m b)) = heap st. Proof. apply call_closure_fields. Qed.
  Lemma call_loads st m b : loads (fst (callM st m b)) = loads st. Proof. apply call_closure_fields. Qed.
  Lemma call_ran st m b : ran (fst (callM st m b)) = ran st. Proof. apply call_closure_fields. Qed.

  Lemma attrs_raise st x q : attrs_of (fst (raiseM st x)) q = attrs_of st q.
  Proof. unfold attrs_of, getmod. now rewrite raise_heap. Qed.

  Lemma raise_active st x h hs :
    handlers st = h :: hs -> 1 <= h -> frames st <> [] -> snd (raiseM st x) = OCaught x ->
    exists f, In f (frames st) /\ active (fst (raiseM st x)) = f_mod f.
  Proof.
    intros Eh Hk Hne. unfold raise. rewrite Eh. destruct (Nat.ltb (base_len st) h); [|simpl; discriminate].
    intros _. simpl. unfold top_mod. simpl.
    pose proof (keep_bottom_nonempty _ _ _ Hk Hne) as Hk'.
    destruct (keep_bottom h (frames st)) as [|f r] eqn:Ek; [congruence|].
    exists f. split; auto. apply (keep_bottom_incl _ h). rewrite Ek. left; auto.
  Qed.

  (* what load_and_run does to the fields, for an unregistered path *)
  Lemma load_and_run_spec st p :
    alookup (reg st) p = None ->
    let r := loadrunM st p in
    loads (fst r) = p :: loads st
    /\ ((reg (fst r) = reg st /\ heap (fst r) = heap st /\ ran (fst r) = ran st
         /\ (exists x, snd r = OCaught x \/ snd r = ODead x)
         /\ ((exists e, loader p = LoadErr e) \/ exists s msgs, loader p = LoadOk s /\ compiler p s = CompErr msgs))
        \/ (exists s b, loader p = LoadOk s /\ compiler p s = CompOk b
            /\ reg (fst r) = reg st ++ [(p, List.length (heap st))]
            /\ List.length (heap (fst r)) = S (List.length (heap st))
            /\ (forall j, j < List.length (heap st) ->
                  m_path (getmod (fst r) j) = m_path (getmod st j) /\ m_imported (getmod (fst r) j) = m_imported (getmod st j))
            /\ ((snd r = OEntered (List.length (heap st)) b /\ ran (fst r) = List.length (heap st) :: ran st
                 /\ active (fst r) = List.length (heap st))
                \/ (ran (fst r) = ran st /\ exists x, snd r = OCaught x \/ snd r = ODead x)))).
  Proof.
    intros Er r. unfold r, load_and_run.
    destruct (loader p) as [src|e] eqn:El.
    2:{ split; [rewrite raise_loads; reflexivity|left]. rewrite raise_reg, raise_heap, raise_ran. simpl.
        repeat split; auto. eexists; apply raise_outcome. left; eauto. }
    destruct (compiler p src) as [body|msgs] eqn:Ec.
    2:{ split; [rewrite raise_loads; reflexivity|left]. rewrite raise_reg, raise_heap, raise_ran. simpl.
        repeat split; auto. eexists; apply raise_outcome. right; eauto. }
    rewrite get_or_create_none by (simpl; exact Er).
    set (st2 := created (log_load p st) p). set (id := List.length (heap (log_load p st))).
    pose proof (call_closure_fields st2 id true) as (Hr4 & Hh4 & Hl4 & Hran4 & _).
    assert (HoldP : forall (st' : state) j, heap st' = heap st2 -> j < List.length (heap st) ->
                    m_path (getmod st' j) = m_path (getmod st j)).
    { intros st' j Hh Hj. unfold getmod. rewrite Hh. unfold st2, created; simpl. rewrite app_nth1 by exact Hj. auto. }
    assert (HoldI : forall (st' : state) j, heap st' = heap st2 -> j < List.length (heap st) ->
                    m_imported (getmod st' j) = m_imported (getmod st j)).
    { intros st' j Hh Hj. unfold getmod. rewrite Hh. unfold st2, created; simpl. rewrite app_nth1 by exact Hj. auto. }
    destruct (callM st2 id true) as [st4 o] eqn:Ecall. simpl in Hr4, Hh4, Hl4, Hran4.
    assert (Hlen2 : List.length (heap st2) = S (List.length (heap st))).
    { unfold st2, created; simpl. rewrite app_length; simpl. lia. }
    assert (Hh42 : heap st4 = heap st2) by exact Hh4.
    assert (Hnot : forall x, (o = OCaught x \/ o = ODead x \/ o = ONone) \/ True) by (intros; right; exact I).
    destruct o.
    - (* ONone *)
      destruct (call_closure_none _ _ _ _ Ecall) as [E4 _].
      assert (Hact : active st4 = id) by (rewrite E4; reflexivity).
      simpl. rewrite Hact, Nat.eqb_refl, orb_true_r. simpl. rewrite upd_nth_length.
      split; [rewrite Hl4; reflexivity|right]. exists src, body. rewrite Hr4, Hh4, Hran4.
      split; [auto|]. split; [auto|]. split; [auto|]. split; [rewrite app_length; simpl; lia|].
      split.
      + intros j Hj. unfold init_builtins. rewrite getmod_upd_attrs_path, getmod_upd_attrs_imported.
        split; [apply HoldP|apply HoldI]; auto.
      + left. split; [reflexivity|]. split; [reflexivity|exact Hact].
    - exfalso. pose proof (raise_outcome st2 (XErr (mkerr KIndex [stack_overflow_msg]))) as Hro.
      unfold call_closure in Ecall. destruct (Nat.eqb _ _); [|inversion Ecall].
      rewrite Ecall in Hro. simpl in Hro. destruct Hro; discriminate.
    - exfalso. pose proof (raise_outcome st2 (XErr (mkerr KIndex [stack_overflow_msg]))) as Hro.
      unfold call_closure in Ecall. destruct (Nat.eqb _ _); [|inversion Ecall].
      rewrite Ecall in Hro. simpl in Hro. destruct Hro; discriminate.
    - exfalso. pose proof (raise_outcome st2 (XErr (mkerr KIndex [stack_overflow_msg]))) as Hro.
      unfold call_closure in Ecall. destruct (Nat.eqb _ _); [|inversion Ecall].
      rewrite Ecall in Hro. simpl in Hro. destruct Hro; discriminate.
    - (* OCaught *)
      simpl. split.
      + destruct (negb grd || Nat.eqb (active st4) id); simpl; rewrite Hl4; reflexivity.
      + right. exists src, body. split; [auto|]. split; [auto|].
        destruct (negb grd || Nat.eqb (active st4) id); simpl; rewrite ?upd_nth_length, Hr4, Hh4, Hran4.
        * split; [auto|]. split; [rewrite app_length; simpl; lia|]. split.
          -- intros j Hj. unfold init_builtins. rewrite getmod_upd_attrs_path, getmod_upd_attrs_imported.
             split; [apply HoldP|apply HoldI]; auto.
          -- right. split; auto. eexists; left; reflexivity.
        * split; [auto|]. split; [rewrite app_length; simpl; lia|]. split.
          -- intros j Hj. split; [apply HoldP|apply HoldI]; auto.
          -- right. split; auto. eexists; left; reflexivity.
    - (* ODead *)
      simpl. split; [rewrite Hl4; reflexivity|right]. exists src, body. rewrite Hr4, Hh4, Hran4.
      split; [auto|]. split; [auto|]. split; [auto|]. split; [rewrite app_length; simpl; lia|]. split.
      + intros j Hj. split; [apply HoldP|apply HoldI]; auto.
      + right. split; auto. eexists; right; reflexivity.
  Qed.

  Lemma NoDup_map_in A B (f : A -> B) (l : list A) :
    (forall x y, In x l -> In y l -> f x = f y -> x = y) -> NoDup l -> NoDup (map f l).
  Proof.
    intros Hinj Hnd. induction Hnd as [|a l Hnin Hnd IH]; simpl; constructor.
    - intros Hin. apply in_map_iff in Hin. destruct Hin as (y & Hy & Hin).
      assert (y = a) by (apply Hinj; simpl; auto). subst. auto.
    - apply IH. intros x y Hx Hy. apply Hinj; simpl; auto.
  Qed.

  (* ============================================================================================ *)
  (* one-step theorems *)

  (* a body is started (and the loader asked) only for a path that is unregistered, or whose registered object
     is the leftover of a failed import: not imported and its body not on the frame stack *)
  Definition absent_or_failed (st : state) (p : path) : Prop :=
    alookup (reg st) p = None
    \/ exists old, alookup (reg st) p = Some old /\ m_imported (getmod st old) = false /\ is_loading st old = false
                   /\ chk = true.

  Theorem body_starts_only_if_absent_or_failed st p st' id b :
    dead st = None -> stepM st (EStartImport p) = (st', OEntered id b) ->
    absent_or_failed st p /\ id = List.length (heap st) /\ ran st' = id :: ran st /\ loads st' = p :: loads st
    /\ alookup (reg st') p = Some id /\ active st' = id.
  Proof.
    intros Hd. unfold step. rewrite Hd. unfold start_import; cbv beta iota delta [is_loading_seen].
    assert (Hlr : forall st0, alookup (reg st0) p = None -> heap st0 = heap st -> ran st0 = ran st -> loads st0 = loads st ->
                  loadrunM st0 p = (st', OEntered id b) ->
                  id = List.length (heap st) /\ ran st' = id :: ran st /\ loads st' = p :: loads st
                  /\ alookup (reg st') p = Some id /\ active st' = id).
    { intros st0 Hn Hh Hr Hl E. pose proof (load_and_run_spec st0 p Hn) as H. simpl in H. rewrite E in H. simpl in H.
      destruct H as [Hld [(_ & _ & _ & (x & Hx) & _)|(s & b' & _ & _ & Hreg & _ & _ & [(Ho & Hran & Hact)|(_ & x & Hx)])]].
      - destruct Hx; discriminate.
      - inversion Ho; subst. rewrite Hh, Hr in *. rewrite Hl in Hld. repeat split; auto.
        rewrite Hreg. rewrite (alookup_app_none _ _ _ _ _ Hn). now rewrite String.eqb_refl.
      - destruct Hx; discriminate. }
    destruct (alookup (reg st) p) as [old|] eqn:Er.
    - destruct (m_imported (getmod st old)) eqn:Ei; [intros E; inversion E|].
      destruct (negb chk || is_loading st old) eqn:El.
      + intros E. destruct (raise_outcome st (XErr (mkerr KImport [cyc_msg p]))) as [H|H]; rewrite E in H; discriminate.
      + apply orb_false_iff in El. destruct El as [Hc El]. apply negb_false_iff in Hc.
        intros E. split; [right; exists old; auto|].
        apply (Hlr (set_reg st (aremove (reg st) p))); auto.
        simpl. rewrite alookup_aremove, String.eqb_refl. reflexivity.
    - intros E. split; [left; auto|]. apply (Hlr st); auto.
  Qed.

  Theorem loader_called_only_if_absent_or_failed st e :
    loads (fst (stepM st e)) = loads st
    \/ exists p, e = EStartImport p /\ loads (fst (stepM st e)) = p :: loads st /\ absent_or_failed st p.
  Proof.
    unfold step. destruct (dead st); [left; auto|].
    destruct e; simpl; try (left; reflexivity).
    - unfold start_import; cbv beta iota delta [is_loading_seen]. destruct (alookup (reg st) p) as [old|] eqn:Er.
      + destruct (m_imported (getmod st old)) eqn:Ei; [left; reflexivity|].
        destruct (negb chk || is_loading st old) eqn:El; [left; apply raise_loads|].
        apply orb_false_iff in El. destruct El as [Hc El]. apply negb_false_iff in Hc.
        right. exists p. split; auto. split; [|right; exists old; auto].
        assert (Hn : alookup (reg (set_reg st (aremove (reg st) p))) p = None)
          by (simpl; rewrite alookup_aremove, String.eqb_refl; reflexivity).
        apply (load_and_run_spec _ p Hn).
      + right. exists p. split; auto. split; [|left; auto]. apply (load_and_run_spec st p Er).
    - destruct (Nat.ltb _ _); [left; apply call_loads|left; auto].
    - destruct (Nat.ltb _ _); left; reflexivity.
    - left. destruct (frames st) as [|f0 [|f r]]; auto. destruct (f_body f0); [reflexivity|destruct (f_base f0); reflexivity].
    - left. apply raise_loads.
    - left. destruct (alookup _ x); [auto|apply raise_loads].
    - left. destruct (alookup _ x); [auto|apply raise_loads].
    - left. destruct (alookup _ x); [auto|apply raise_loads].
  Qed.

  (* a module that finished loading: registered and imported *)
  Definition settled (st : state) (p : path) (id : nat) : Prop :=
    alookup (reg st) p = Some id /\ m_imported (getmod st id) = true.

  Theorem settled_import_is_cached st p id :
    dead st = None -> settled st p id -> stepM st (EStartImport p) = (log_yield p id st, OModule id).
  Proof. intros Hd [Hr Hi]. unfold step, start_import; cbv beta iota delta [is_loading_seen]. rewrite Hd, Hr, Hi. reflexivity. Qed.

  Lemma set_imported_mono st id j :
    m_imported (getmod st j) = true -> m_imported (getmod (set_imported st id) j) = true.
  Proof.
    intros Hj. unfold set_imported, getmod; simpl. destruct (Nat.eq_dec j id) as [->|Hne].
    - destruct (Nat.lt_ge_cases id (List.length (heap st))) as [Hlt|Hge].
      + now rewrite nth_upd_nth_eq.
      + unfold getmod in Hj. rewrite nth_overflow in Hj by lia. discriminate.
    - now rewrite nth_upd_nth_neq.
  Qed.

  (* once settled, settled for ever: by the two theorems above it is never loaded or run again *)
  Theorem settled_step st e p id : Inv st -> settled st p id -> settled (fst (stepM st e)) p id.
  Proof.
    intros I [Hr Hi]. pose proof (i_reg1 _ I _ _ Hr) as [Hlt _].
    assert (Hraise : forall st0 x, settled st0 p id -> settled (fst (raiseM st0 x)) p id).
    { intros st0 x [H1 H2]. unfold settled, getmod. rewrite raise_reg, raise_heap. auto. }
    assert (Hupd : forall i f, settled (upd_attrs st i f) p id).
    { intros i f. split; [exact Hr|]. rewrite getmod_upd_attrs_imported. exact Hi. }
    unfold step. destruct (dead st); [split; auto|].
    destruct e; simpl; auto.
    - unfold start_import; cbv beta iota delta [is_loading_seen]. destruct (alookup (reg st) p0) as [old|] eqn:Er.
      + destruct (m_imported (getmod st old)) eqn:Ei; [split; auto|].
        destruct (negb chk || is_loading st old); [apply Hraise; split; auto|].
        assert (Hne : p0 <> p) by (intros ->; rewrite Hr in Er; inversion Er; subst; congruence).
        assert (Hn : alookup (reg (set_reg st (aremove (reg st) p0))) p0 = None)
          by (simpl; rewrite alookup_aremove, String.eqb_refl; reflexivity).
        pose proof (load_and_run_spec _ p0 Hn) as [_ H]. simpl in H.
        assert (Hr0 : alookup (aremove (reg st) p0) p = Some id).
        { rewrite alookup_aremove. destruct (String.eqb p0 p) eqn:E; auto. apply String.eqb_eq in E. congruence. }
        destruct H as [(H1 & H2 & _)|(s & b & _ & _ & H1 & _ & H3 & _)].
        * unfold settled, getmod. rewrite H1, H2. simpl. auto.
        * split; [rewrite H1; simpl; apply alookup_app_some; auto|].
          destruct (H3 id Hlt) as [_ H4]. rewrite H4. exact Hi.
      + assert (Hne : p0 <> p) by (intros ->; congruence).
        pose proof (load_and_run_spec st p0 Er) as [_ H]. simpl in H.
        destruct H as [(H1 & H2 & _)|(s & b & _ & _ & H1 & _ & H3 & _)].
        * unfold settled, getmod. rewrite H1, H2. auto.
        * split; [rewrite H1; apply alookup_app_some; auto|].
          destruct (H3 id Hlt) as [_ H4]. rewrite H4. exact Hi.
    - destruct (Nat.ltb _ _); [|split; auto]. unfold settled, getmod. rewrite call_reg, call_heap. auto.
    - destruct (Nat.ltb _ _); split; auto.
    - destruct (frames st) as [|f0 [|f r]]; try (split; auto; fail).
      destruct (f_body f0); simpl; [|destruct (f_base f0); split; auto].
      split; [exact Hr|]. apply (set_imported_mono (load_frame (set_frames st (f :: r)))). exact Hi.
    - apply Hraise; split; auto.
    - split; auto.
    - split; auto.
    - destruct (alookup _ x); [split; auto|apply Hraise; split; auto].
    - destruct (alookup _ x); [apply Hupd|apply Hraise; split; auto].
    - destruct (alookup _ x); [split; auto|apply Hraise; split; auto].
  Qed.

  Theorem settled_forever evs : forall st p id, Inv st -> settled st p id -> settled (runM st evs) p id.
  Proof.
    induction evs as [|e evs IH]; simpl; intros st p id I H; auto.
    apply IH; [apply step_inv; auto|apply settled_step; auto].
  Qed.

  (* T3: importing a registered, not imported module whose body is on the frame stack is a cycle ImportError *)
  Theorem cycle_is_import_error st p id :
    dead st = None -> alookup (reg st) p = Some id -> m_imported (getmod st id) = false -> is_loading st id = true ->
    stepM st (EStartImport p) = raiseM st (XErr (mkerr KImport [cyc_msg p])).
  Proof. intros Hd Hr Hi Hl. unfold step, start_import; cbv beta iota delta [is_loading_seen]. rewrite Hd, Hr, Hi, Hl, orb_true_r. reflexivity. Qed.

  (* ... a leftover of a failed import is removed and the module loaded afresh (the code since 367eb72) *)
  Theorem failed_import_is_retried st p old :
    chk = true -> dead st = None -> alookup (reg st) p = Some old -> m_imported (getmod st old) = false ->
    is_loading st old = false ->
    stepM st (EStartImport p) = loadrunM (set_reg st (aremove (reg st) p)) p.
  Proof. intros Hc Hd Hr Hi Hl. unfold step, start_import; cbv beta iota delta [is_loading_seen]. rewrite Hd, Hr, Hi, Hl, Hc. reflexivity. Qed.

  (* an exception is delivered to the innermost handler OF THE RUNNING FIBER (catchable), or ends the run with that
     error (no handler, or only handlers of waiting fibers): never stuck *)
  Theorem raise_delivers st x :
    (exists h hs, handlers st = h :: hs /\ base_len st < h /\ snd (raiseM st x) = OCaught x /\ dead (fst (raiseM st x)) = dead st
                  /\ handlers (fst (raiseM st x)) = hs
                  /\ List.length (frames (fst (raiseM st x))) <= h)
    \/ ((handlers st = [] \/ exists h hs, handlers st = h :: hs /\ h <= base_len st)
        /\ snd (raiseM st x) = ODead x /\ dead (fst (raiseM st x)) = Some x).
  Proof.
    unfold raise. destruct (handlers st) as [|h hs] eqn:Eh; [right; simpl; auto|].
    destruct (Nat.ltb (base_len st) h) eqn:E.
    - left. exists h, hs. simpl. apply Nat.ltb_lt in E. repeat split; auto.
      unfold keep_bottom. rewrite skipn_length. lia.
    - right. apply Nat.ltb_ge in E. simpl. split; auto. right. exists h, hs. auto.
  Qed.

  (* T4: a module that cannot be found / does not compile *)
  Theorem failed_load_is_import_error st p e :
    dead st = None -> alookup (reg st) p = None -> loader p = LoadErr e ->
    stepM st (EStartImport p) = raiseM (log_load p st) (XErr e).
  Proof. intros Hd Hr Hl. unfold step, start_import, load_and_run; cbv beta iota delta [is_loading_seen]. rewrite Hd, Hr, Hl. reflexivity. Qed.

  Theorem failed_compile_is_import_error st p s msgs :
    dead st = None -> alookup (reg st) p = None -> loader p = LoadOk s -> compiler p s = CompErr msgs ->
    stepM st (EStartImport p)
    = raiseM (log_load p st) (XErr (mkerr KImport (comp_head :: map (append comp_indent) msgs))).
  Proof. intros Hd Hr Hl Hc. unfold step, start_import, load_and_run; cbv beta iota delta [is_loading_seen]. rewrite Hd, Hr, Hl, Hc. reflexivity. Qed.

  Theorem failed_import_registers_nothing st p :
    dead st = None ->
    (exists id, alookup (reg st) p = Some id /\ m_imported (getmod st id) = false /\ is_loading st id = true)
    \/ (alookup (reg st) p = None /\ ((exists e, loader p = LoadErr e) \/ exists s msgs, loader p = LoadOk s /\ compiler p s = CompErr msgs)) ->
    let st' := fst (stepM st (EStartImport p)) in
    reg st' = reg st /\ heap st' = heap st /\ ran st' = ran st /\ yielded st' = yielded st
    /\ exists x, snd (stepM st (EStartImport p)) = OCaught x \/ snd (stepM st (EStartImport p)) = ODead x.
  Proof.
    intros Hd [(id & Hr & Hi & Hl)|[Hr [(e & Hl)|(s & msgs & Hl & Hc)]]] st'; unfold st'.
    - rewrite (cycle_is_import_error st p id Hd Hr Hi Hl).
      destruct (raise_fields st (XErr (mkerr KImport [cyc_msg p]))) as (H1 & H2 & _ & H3 & H4).
      repeat split; auto. eexists. apply raise_outcome.
    - rewrite (failed_load_is_import_error st p e Hd Hr Hl).
      destruct (raise_fields (log_load p st) (XErr e)) as (H1 & H2 & _ & H3 & H4).
      repeat split; auto. eexists. apply raise_outcome.
    - rewrite (failed_compile_is_import_error st p s msgs Hd Hr Hl Hc).
      destruct (raise_fields (log_load p st) (XErr (mkerr KImport (comp_head :: map (append comp_indent) msgs)))) as (H1 & H2 & _ & H3 & H4).
      repeat split; auto. eexists. apply raise_outcome.
  Qed.

  (* T5 (one step) *)
  Theorem call_enters_defining_module st m :
    dead st = None -> m < List.length (heap st) -> fiber_depth (frames st) <> frames_max ->
    let st' := fst (stepM st (ECall m)) in
    frames st' = mkframe m false false :: frames st /\ active st' = m /\ top_mod st' = m.
  Proof.
    intros Hd Hlt Hne st'. unfold st', step. rewrite Hd.
    apply Nat.ltb_lt in Hlt. rewrite Hlt. unfold call_closure.
    apply Nat.eqb_neq in Hne. rewrite Hne. simpl. auto.
  Qed.

  (* a function of ANY existing module object m - in particular of an object that is no longer registered, because
     its load failed and its path was loaded again as object id - runs in m: a global assignment inside it changes
     m's attributes and leaves every other object (the new module of that path included) as it was.  (The same holds
     for the closures the function creates: closure_impl gives them Vm.active_module = m, see ModLang.closure_mod.) *)
  Theorem function_of_old_object_uses_its_own_globals st m id x v w :
    dead st = None -> m < List.length (heap st) -> id < List.length (heap st) -> id <> m ->
    fiber_depth (frames st) <> frames_max -> alookup (attrs_of st m) x = Some w ->
    let st1 := fst (stepM st (ECall m)) in
    let st2 := fst (stepM st1 (ESetGlobal x v)) in
    active st1 = m /\ attrs_of st2 id = attrs_of st id /\ alookup (attrs_of st2 m) x = Some v.
  Proof.
    intros Hd Hm Hid Hne Hfm Hx st1 st2.
    destruct (call_enters_defining_module st m Hd Hm Hfm) as (_ & Ha & _). fold st1 in Ha.
    assert (E1 : st1 = load_frame (set_frames st (mkframe m false false :: frames st))).
    { unfold st1, step. rewrite Hd. apply Nat.ltb_lt in Hm. rewrite Hm. unfold call_closure.
      apply Nat.eqb_neq in Hfm. rewrite Hfm. reflexivity. }
    assert (Hh : heap st1 = heap st) by (rewrite E1; reflexivity).
    assert (Hd1 : dead st1 = None) by (rewrite E1; exact Hd).
    assert (Hat : forall j, attrs_of st1 j = attrs_of st j) by (intros j; unfold attrs_of, getmod; rewrite Hh; reflexivity).
    assert (E2 : st2 = upd_attrs st1 m (fun a => ainsert a x v)).
    { unfold st2, step. rewrite Hd1, Ha, Hat, Hx. reflexivity. }
    split; [exact Ha|]. rewrite E2. split.
    - rewrite attrs_upd_attrs_other; auto.
    - rewrite attrs_upd_attrs_same by (rewrite Hh; exact Hm). apply alookup_ainsert_same.
  Qed.

  Theorem return_restores_caller_module st f0 f r :
    dead st = None -> frames st = f0 :: f :: r ->
    let st' := fst (stepM st EReturn) in frames st' = f :: r /\ active st' = f_mod f.
  Proof. intros Hd Hf st'. unfold st', step. rewrite Hd, Hf. destruct (f_body f0); simpl; auto. destruct (f_base f0); simpl; auto. Qed.

  (* a new fiber starts in the module of its closure; the chain below is untouched *)
  Theorem fiber_call_enters_module st m :
    dead st = None -> m < List.length (heap st) ->
    let st' := fst (stepM st (EFiberCall m)) in
    frames st' = mkframe m false true :: frames st /\ active st' = m /\ fiber_depth (frames st') = 1
    /\ forall id, is_loading st' id = is_loading st id.
  Proof.
    intros Hd Hlt st'. unfold st', step. rewrite Hd. apply Nat.ltb_lt in Hlt. rewrite Hlt. simpl. auto.
  Qed.

  Theorem global_read_is_local st x :
    dead st = None -> active st = top_mod st ->
    stepM st (EGetGlobal x) =
    match alookup (attrs_of st (top_mod st)) x with
    | Some v => (st, OValue v)
    | None => raiseM st (XErr (mkerr KName [undefined_variable x]))
    end.
  Proof. intros Hd Ha. unfold step. rewrite Hd, Ha. reflexivity. Qed.

  Theorem global_write_is_local st x v q :
    active st = top_mod st -> q <> top_mod st ->
    attrs_of (fst (stepM st (ESetGlobal x v))) q = attrs_of st q
    /\ attrs_of (fst (stepM st (EDefineGlobal x v))) q = attrs_of st q.
  Proof.
    intros Ha Hq. unfold step. destruct (dead st); [auto|]. rewrite Ha. split.
    - destruct (alookup _ x); [|apply attrs_raise]. simpl. apply attrs_upd_attrs_other; auto.
    - simpl. apply attrs_upd_attrs_other; auto.
  Qed.

  Lemma attrs_set_imported st id q : attrs_of (set_imported st id) q = attrs_of st q.
  Proof. unfold attrs_of, set_imported, getmod; simpl. apply (nth_upd_nth_proj _ _ m_attrs); auto. Qed.

  (* the attributes of an existing module change only through its own globals or an attribute write naming it;
     an import touches only the module object it creates (with the guarded built-ins initialisation) *)
  Theorem attrs_frame st e q :
    Inv st -> q < List.length (heap st) ->
    match e with
    | ESetGlobal _ _ | EDefineGlobal _ _ => active st <> q
    | ESetAttr m _ _ => m <> q
    | EStartImport _ => grd = true \/ fiber_depth (frames st) <> frames_max
    | _ => True
    end ->
    attrs_of (fst (stepM st e)) q = attrs_of st q.
  Proof.
    intros I Hq He. unfold step. destruct (dead st); [auto|].
    destruct e; simpl.
    - assert (Hlr : forall st0, Inv st0 -> alookup (reg st0) p = None -> heap st0 = heap st -> frames st0 = frames st ->
                    handlers st0 = handlers st ->
                    attrs_of (fst (loadrunM st0 p)) q = attrs_of st q).
      { intros st0 I0 Hn Hh Hf Hhd. unfold load_and_run.
        destruct (loader p) as [s|e]; [|rewrite attrs_raise; unfold attrs_of, getmod; simpl; rewrite Hh; reflexivity].
        destruct (compiler p s) as [b|msgs]; [|rewrite attrs_raise; unfold attrs_of, getmod; simpl; rewrite Hh; reflexivity].
        rewrite get_or_create_none by (simpl; exact Hn).
        set (st2 := created (log_load p st0) p). set (id := List.length (heap (log_load p st0))).
        assert (Hid : id = List.length (heap st)) by (unfold id; simpl; rewrite Hh; reflexivity).
        assert (Hq2 : attrs_of st2 q = attrs_of st q).
        { unfold attrs_of, getmod, st2, created; simpl. rewrite Hh. now rewrite app_nth1. }
        pose proof (call_heap st2 id true) as Hh4.
        destruct (callM st2 id true) as [st4 o] eqn:Ec. simpl in Hh4.
        assert (H4 : attrs_of st4 q = attrs_of st q) by (unfold attrs_of, getmod in *; rewrite Hh4; exact Hq2).
        destruct o; simpl; auto.
        - destruct (call_closure_none _ _ _ _ Ec) as [E4 _].
          assert (Hact : active st4 = id) by (rewrite E4; reflexivity).
          rewrite Hact, Nat.eqb_refl, orb_true_r. unfold init_builtins.
          rewrite attrs_upd_attrs_other by lia. exact H4.
        - (* frame limit, handled *)
          unfold call_closure in Ec. destruct (Nat.eqb (fiber_depth (frames st2)) frames_max) eqn:El; [|inversion Ec].
          destruct He as [Hg|Hne].
          + rewrite Hg. simpl.
            assert (Hact : active st4 <> id).
            { destruct (handlers st2) as [|h hs] eqn:Eh.
              - unfold raise in Ec. rewrite Eh in Ec. inversion Ec.
              - assert (Hk : 1 <= h).
                { apply (i_hand _ I0). unfold st2 in Eh; simpl in Eh. rewrite Eh. left; auto. }
                assert (Hoc : snd (raiseM st2 (XErr (mkerr KIndex [stack_overflow_msg]))) = OCaught x) by (rewrite Ec; reflexivity).
                assert (Hoc' : snd (raiseM st2 (XErr (mkerr KIndex [stack_overflow_msg]))) = OCaught (XErr (mkerr KIndex [stack_overflow_msg]))).
                { destruct (raise_outcome st2 (XErr (mkerr KIndex [stack_overflow_msg]))) as [H|H]; [exact H|rewrite H in Hoc; discriminate]. }
                destruct (raise_active st2 (XErr (mkerr KIndex [stack_overflow_msg])) h hs Eh Hk (i_fr_ne _ I0) Hoc') as (f & Hf1 & Hf2).
                rewrite Ec in Hf2. simpl in Hf2. rewrite Hf2.
                pose proof (i_fr_ok _ I0 f Hf1) as Hlt. rewrite Hh in Hlt. lia. }
            apply Nat.eqb_neq in Hact. rewrite Hact. exact H4.
          + exfalso. apply Hne. apply Nat.eqb_eq in El. unfold st2 in El; simpl in El. rewrite Hf in El. exact El. }
      unfold start_import; cbv beta iota delta [is_loading_seen]. destruct (alookup (reg st) p) as [old|] eqn:Er; [|apply Hlr; auto].
      destruct (m_imported (getmod st old)) eqn:Ei; [reflexivity|].
      destruct (negb chk || is_loading st old) eqn:El; [apply attrs_raise|].
      apply orb_false_iff in El. destruct El as [_ El].
      apply Hlr; auto.
      + apply (unregister_inv st p old); auto.
      + simpl. rewrite alookup_aremove, String.eqb_refl. reflexivity.
    - destruct (Nat.ltb _ _); auto. unfold attrs_of, getmod. now rewrite call_heap.
    - destruct (Nat.ltb _ _); auto.
    - destruct (frames st) as [|f0 [|f r]]; auto. destruct (f_body f0); simpl; [|destruct (f_base f0); auto].
      change (attrs_of (set_imported (load_frame (set_frames st (f :: r))) (f_mod f0)) q = attrs_of st q).
      rewrite attrs_set_imported. reflexivity.
    - apply attrs_raise.
    - reflexivity.
    - reflexivity.
    - destruct (alookup _ x); [auto|apply attrs_raise].
    - destruct (alookup _ x); [|apply attrs_raise]. simpl. apply attrs_upd_attrs_other; auto.
    - apply attrs_upd_attrs_other; auto.
    - destruct (alookup _ x); [auto|apply attrs_raise].
    - apply attrs_upd_attrs_other; auto.
  Qed.

  Lemma alookup_fold_ainsert_other (names : list name) (a : list (name * value)) c :
    ~ In c names -> alookup (fold_left (fun acc b => ainsert acc b (VBuiltin b)) names a) c = alookup a c.
  Proof.
    revert a; induction names as [|n names IH]; simpl; intros a H; auto.
    rewrite IH by tauto. apply alookup_ainsert_other. intros ->; tauto.
  Qed.

  (* a fresh module starts with exactly the names init_built_in_globals defines *)
  Theorem fresh_module_has_only_builtins st p s b :
    dead st = None -> alookup (reg st) p = None -> loader p = LoadOk s -> compiler p s = CompOk b ->
    fiber_depth (frames st) <> frames_max ->
    let st' := fst (stepM st (EStartImport p)) in
    snd (stepM st (EStartImport p)) = OEntered (List.length (heap st)) b
    /\ active st' = List.length (heap st)
    /\ forall c, ~ In c builtin_names -> alookup (attrs_of st' (List.length (heap st))) c = None.
  Proof.
    intros Hd Hr Hl Hc Hne st'. unfold st', step, start_import, load_and_run. rewrite Hd, Hr, Hl, Hc.
    rewrite get_or_create_none by (simpl; exact Hr).
    set (id := List.length (heap (log_load p st))).
    set (st2 := created (log_load p st) p).
    unfold call_closure. apply Nat.eqb_neq in Hne.
    change (fiber_depth (frames st2)) with (fiber_depth (frames st)). rewrite Hne.
    cbn [fst snd]. change (active (log_ran id (load_frame (set_frames st2 (mkframe id true false :: frames st2))))) with id.
    rewrite Nat.eqb_refl, orb_true_r.
    split; [reflexivity|]. split; [reflexivity|].
    intros c Hc'. unfold init_builtins.
    assert (Hlt : id < List.length (heap st2)) by (unfold st2, created; simpl; rewrite app_length; unfold id; simpl; lia).
    rewrite attrs_upd_attrs_same by exact Hlt.
    rewrite alookup_fold_ainsert_other by exact Hc'.
    unfold attrs_of, getmod; simpl. rewrite app_nth2 by (unfold id; simpl; lia).
    unfold id; simpl. rewrite Nat.sub_diag. reflexivity.
  Qed.

  (* ============================================================================================ *)
  (* headline theorems: every event sequence from the initial state *)

  Variable main_attrs : list (name * value).
  Hypothesis main_has_builtins : forall b, In b builtin_names -> In b (akeys main_attrs).
  Notation init := (init_state main_attrs).

  Lemma run_init_inv evs : Inv (runM init evs).
  Proof. apply run_inv, init_inv; auto. Qed.

  (* T1: per module object a body is started at most once; a started body whose object is not the registered
     object of its path belongs to a FAILED import (never imported, not running); so among the bodies that
     are running or finished no path occurs twice *)
  Theorem body_runs_at_most_once evs :
    let st := runM init evs in
    NoDup (ran st)
    /\ (forall id, In id (ran st) -> registered st id \/ (m_imported (getmod st id) = false /\ is_loading st id = false))
    /\ (forall i j, In i (ran st) -> In j (ran st) -> registered st i -> registered st j ->
                    m_path (getmod st i) = m_path (getmod st j) -> i = j).
  Proof.
    intros st. pose proof (run_init_inv evs) as I. fold st in I.
    split; [apply (i_ran_nd _ I)|]. split; [apply (i_ran_ok _ I)|].
    intros i j _ _ Hi Hj E. unfold registered in *. rewrite E in Hi. congruence.
  Qed.

  (* a module that finished loading is never loaded or run again: it stays settled, and in a settled state
     the import is the cached arm (settled_import_is_cached) *)
  Theorem loaded_module_is_settled evs1 evs2 p id :
    settled (runM init evs1) p id -> settled (runM (runM init evs1) evs2) p id.
  Proof. intros H. apply settled_forever; auto. apply run_init_inv. Qed.

  (* every completed import statement was given the registered, imported object of its path *)
  Theorem yielded_is_settled evs p id :
    let st := runM init evs in In (p, id) (yielded st) -> settled st p id.
  Proof. intros st H. apply (i_yield _ (run_init_inv evs)); auto. Qed.

  (* T2: every (completed) import of a path yields the same module object, and objects of different paths differ *)
  Theorem same_module_object evs p i j :
    let st := runM init evs in In (p, i) (yielded st) -> In (p, j) (yielded st) -> i = j.
  Proof.
    intros st Hi Hj. pose proof (run_init_inv evs) as I. fold st in I.
    destruct (i_yield _ I _ _ Hi). destruct (i_yield _ I _ _ Hj). congruence.
  Qed.

  Theorem module_object_determines_path evs p q i :
    let st := runM init evs in In (p, i) (yielded st) -> In (q, i) (yielded st) -> p = q.
  Proof.
    intros st Hi Hj. pose proof (run_init_inv evs) as I. fold st in I.
    destruct (i_yield _ I _ _ Hi) as [H1 _]. destruct (i_yield _ I _ _ Hj) as [H2 _].
    destruct (i_reg1 _ I _ _ H1) as [_ E1]. destruct (i_reg1 _ I _ _ H2) as [_ E2]. congruence.
  Qed.

  (* T3: a module whose body is on the frame stack (self import, 2-, 3-, n-cycles) *)
  Theorem loading_module_is_cycle_error evs f :
    let st := runM init evs in
    dead st = None -> In f (frames st) -> f_body f = true ->
    let p := m_path (getmod st (f_mod f)) in
    stepM st (EStartImport p) = raiseM st (XErr (mkerr KImport [cyc_msg p])).
  Proof.
    intros st Hd Hf Hb p. pose proof (run_init_inv evs) as I. fold st in I.
    destruct (i_loading _ I f Hf Hb) as [Hr Hi].
    apply (cycle_is_import_error st p (f_mod f)); auto.
    apply is_loading_true. exists f. auto.
  Qed.

  (* T5: the active-module register is the module of the running closure, after every event sequence *)
  Theorem globals_isolated evs :
    let st := runM init evs in dead st = None -> active st = top_mod st.
  Proof. intros st. apply (i_act _ (run_init_inv evs)). Qed.

  (* T6: module main and every module whose body was started have all the built-ins *)
  Theorem builtins_in_every_module evs id b :
    let st := runM init evs in
    id = 0 \/ In id (ran st) -> In b builtin_names -> exists v, alookup (attrs_of st id) b = Some v.
  Proof. intros st Hid Hb. apply in_keys_alookup. apply (i_built _ (run_init_inv evs)); auto. Qed.
End Proofs.

(* ---------------------------------------------------------------------------------------------- *)
Print Assumptions body_runs_at_most_once.
Print Assumptions body_starts_only_if_absent_or_failed.
Print Assumptions loader_called_only_if_absent_or_failed.
Print Assumptions loaded_module_is_settled.
Print Assumptions same_module_object.
Print Assumptions cycle_is_import_error.
Print Assumptions loading_module_is_cycle_error.
Print Assumptions failed_import_is_retried.
Print Assumptions failed_load_is_import_error.
Print Assumptions failed_compile_is_import_error.
Print Assumptions failed_import_registers_nothing.
Print Assumptions globals_isolated.
Print Assumptions attrs_frame.
Print Assumptions builtins_in_every_module.
Print Assumptions fresh_module_has_only_builtins.

(* ---------------------------------------------------------------------------------------------- *)
(* concrete instance: hypotheses are satisfiable; behaviour of the current code (flags true/true) and
   witnesses of the two repaired defects on the model variant before 367eb72 (flags false/false) *)
Open Scope string_scope.

Definition w_loader (p : path) : load_result unit :=
  if String.eqb p "missing" then LoadErr (mkerr KImport [not_found_msg p]) else LoadOk tt.
Definition w_compiler (p : path) (_ : unit) : comp_result unit :=
  if String.eqb p "bad" then CompErr ["oops"] else CompOk tt.
Definition w_builtins : list name := ["print"; "Vec"].
Definition w_step := step unit unit w_loader w_compiler w_builtins 3 true true true.
Definition w_run := run_events unit unit w_loader w_compiler w_builtins 3 true true true.
Definition w_step_old := step unit unit w_loader w_compiler w_builtins 3 false false true.
Definition w_step_shallow := step unit unit w_loader w_compiler w_builtins 3 true true false.
Definition w_run_shallow := run_events unit unit w_loader w_compiler w_builtins 3 true true false.
Definition w_run_old := run_events unit unit w_loader w_compiler w_builtins 3 false false true.
Definition w_init := init_state (builtin_attrs ["print"; "Vec"; "RuntimeError"]).

Lemma builtin_attrs_keys l : akeys (builtin_attrs l) = l.
Proof. unfold akeys, builtin_attrs. rewrite map_map. simpl. apply map_id. Qed.

Lemma main_attrs_have_builtins B C b : In b B -> In b (akeys (builtin_attrs (B ++ C))).
Proof. intros H. rewrite builtin_attrs_keys. apply in_or_app; auto. Qed.

Lemma main_only_empty_incl (B C : list name) :
  filter (fun c => negb (existsb (String.eqb c) B)) C = [] -> forall b, In b (B ++ C) -> In b B.
Proof.
  intros H b Hin. apply in_app_or in Hin. destruct Hin as [Hb|Hc]; auto.
  destruct (existsb (String.eqb b) B) eqn:E.
  - apply existsb_exists in E. destruct E as (x & Hx & Heq). apply String.eqb_eq in Heq. subst; auto.
  - exfalso. assert (Hf : In b (filter (fun c => negb (existsb (String.eqb c) B)) C)).
    { apply filter_In. split; auto. rewrite E. reflexivity. }
    rewrite H in Hf. inversion Hf.
Qed.

(* when init_built_in_globals defines every name module main has at start-up (main_only = []), every
   started module sees all of them *)
Theorem startup_names_in_every_module SrcId Body loader compiler (B C : list name) fm chk grd evs id b :
  filter (fun c => negb (existsb (String.eqb c) B)) C = [] ->
  let st := run_events SrcId Body loader compiler B fm chk grd true (init_state (builtin_attrs (B ++ C))) evs in
  id = 0 \/ In id (ran st) -> In b (B ++ C) -> exists v, alookup (attrs_of st id) b = Some v.
Proof.
  intros H st Hid Hb.
  apply (builtins_in_every_module SrcId Body loader compiler B fm chk grd (builtin_attrs (B ++ C))); auto.
  - apply main_attrs_have_builtins.
  - apply (main_only_empty_incl B C); auto.
Qed.
Print Assumptions startup_names_in_every_module.

(* cycle_is_import_error: a self import (the body of "m" imports "m") and a 2-cycle *)
Example cycle_hypotheses_satisfiable :
  let st := w_run w_init [EStartImport "m"] in
  dead st = None /\ alookup (reg st) "m" = Some 1 /\ m_imported (getmod st 1) = false /\ is_loading st 1 = true
  /\ snd (w_step st (EStartImport "m")) = ODead (XErr (mkerr KImport [cyc_msg "m"])).
Proof. vm_compute. repeat split; reflexivity. Qed.

Example two_cycle_caught :
  let st := w_run w_init [EStartImport "a"; EStartImport "b"; EPushHandler] in
  snd (w_step st (EStartImport "a")) = OCaught (XErr (mkerr KImport [cyc_msg "a"]))
  /\ ran (fst (w_step st (EStartImport "a"))) = [2; 1] /\ loads (fst (w_step st (EStartImport "a"))) = ["b"; "a"].
Proof. vm_compute. repeat split; reflexivity. Qed.

Example failed_load_hypotheses_satisfiable :
  let st := w_run w_init [EPushHandler] in
  snd (w_step st (EStartImport "missing")) = OCaught (XErr (mkerr KImport [not_found_msg "missing"]))
  /\ snd (w_step st (EStartImport "bad")) = OCaught (XErr (mkerr KImport [comp_head; "    oops"]))
  /\ reg (fst (w_step st (EStartImport "bad"))) = reg st.
Proof. vm_compute. repeat split; reflexivity. Qed.

(* a completed import: the module is settled, a second import is the cached arm *)
Example settled_hypotheses_satisfiable :
  let st := w_run w_init [EStartImport "m"; EReturn] in
  settled st "m" 1 /\ yielded st = [("m", 1)] /\ snd (w_step st (EStartImport "m")) = OModule 1
  /\ loads (fst (w_step st (EStartImport "m"))) = ["m"] /\ ran (fst (w_step st (EStartImport "m"))) = [1].
Proof. vm_compute. repeat split; reflexivity. Qed.

(* globals: a function of module "m" called from main reads and writes m's x, not main's *)
Example globals_isolated_example :
  let st := w_run w_init [EDefineGlobal "x" (VNum 1); EStartImport "m"; EDefineGlobal "x" (VNum 2); EReturn;
                          ECall 1; ESetGlobal "x" (VNum 3)] in
  snd (w_step st (EGetGlobal "x")) = OValue (VNum 3)
  /\ snd (w_step (fst (w_step st EReturn)) (EGetGlobal "x")) = OValue (VNum 1).
Proof. vm_compute. repeat split; reflexivity. Qed.

(* the current code: a module whose body threw is loaded again from the start, as a NEW module object;
   the failed object is no longer registered *)
Theorem reimport_after_failed_body_reloads :
  exists evs, let st := w_run w_init evs in
    frames st = [mkframe 0 true true] /\ ran st = [1] /\ alookup (reg st) "m" = Some 1 /\ is_loading st 1 = false
    /\ snd (w_step st (EStartImport "m")) = OEntered 2 tt
    /\ ran (fst (w_step st (EStartImport "m"))) = [2; 1] /\ loads (fst (w_step st (EStartImport "m"))) = ["m"; "m"]
    /\ alookup (reg (fst (w_step st (EStartImport "m")))) "m" = Some 2.
Proof.
  exists [EPushHandler; EStartImport "m"; EThrow (VStr "boom"); EPushHandler].
  vm_compute. repeat split; reflexivity.
Qed.

(* the current code at the frame limit: the failed import leaves the handler's module alone; the later import
   loads and runs the module *)
Theorem import_at_frame_limit_is_clean :
  exists evs, let st0 := w_run w_init evs in let st := fst (w_step st0 (EStartImport "q")) in
    alookup (attrs_of st0 0) "print" = Some (VNum 7) /\ List.length (frames st0) = 3
    /\ snd (w_step st0 (EStartImport "q")) = OCaught (XErr (mkerr KIndex [stack_overflow_msg]))
    /\ alookup (attrs_of st 0) "print" = Some (VNum 7) /\ ran st = []
    /\ snd (w_step (fst (w_step st EPushHandler)) (EStartImport "q")) = OEntered 2 tt.
Proof.
  exists [EDefineGlobal "print" (VNum 7); EPushHandler; ECall 0; ECall 0].
  vm_compute. repeat split; reflexivity.
Qed.

(* REPAIRED defect failed_import_poisons_module, on the model of the code before 367eb72: the module whose body
   threw is not being loaded any more, yet every later import reports a cycle *)
Theorem reimport_after_failed_body_reports_cycle_refuted_old :
  exists evs, let st := w_run_old w_init evs in
    frames st = [mkframe 0 true true] /\ ran st = [1] /\ is_loading st 1 = false
    /\ snd (w_step_old st (EStartImport "m")) = OCaught (XErr (mkerr KImport [cyc_msg "m"])).
Proof.
  exists [EPushHandler; EStartImport "m"; EThrow (VStr "boom"); EPushHandler].
  vm_compute. repeat split; reflexivity.
Qed.

(* REPAIRED defect import_at_frame_limit, on the model of the code before 367eb72 *)
Theorem import_at_frame_limit_refuted_old :
  exists evs, let st0 := w_run_old w_init evs in let st := fst (w_step_old st0 (EStartImport "q")) in
    alookup (attrs_of st0 0) "print" = Some (VNum 7)
    /\ List.length (frames st0) = 3
    /\ alookup (attrs_of st 0) "print" = Some (VBuiltin "print")
    /\ alookup (reg st) "q" = Some 1 /\ ran st = [] /\ m_imported (getmod st 1) = false
    /\ snd (w_step_old (fst (w_step_old st EPushHandler)) (EStartImport "q")) = OCaught (XErr (mkerr KImport [cyc_msg "q"])).
Proof.
  exists [EDefineGlobal "print" (VNum 7); EPushHandler; ECall 0; ECall 0].
  vm_compute. repeat split; reflexivity.
Qed.

(* a cycle that closes through nested fibers: the body of "m" (still loading) runs a fiber that runs a fiber that
   imports "m" again.  The whole caller chain is examined: a cycle ImportError, delivered to a handler inside the
   innermost fiber; nothing is loaded or run *)
Theorem cycle_through_fibers_is_import_error :
  let st := w_run w_init [EStartImport "m"; EFiberCall 1; EFiberCall 1; EPushHandler] in
  fiber_depth (frames st) = 1 /\ List.length (frames st) = 4 /\ is_loading st 1 = true
  /\ snd (w_step st (EStartImport "m")) = OCaught (XErr (mkerr KImport [cyc_msg "m"]))
  /\ ran (fst (w_step st (EStartImport "m"))) = [1] /\ loads (fst (w_step st (EStartImport "m"))) = ["m"].
Proof. vm_compute. repeat split; reflexivity. Qed.

(* an exception never crosses a fiber boundary: with a handler only in the WAITING fiber the run ends *)
Theorem exception_does_not_cross_fibers :
  let st := w_run w_init [EStartImport "m"; EPushHandler; EFiberCall 1] in
  snd (w_step st (EStartImport "m")) = ODead (XErr (mkerr KImport [cyc_msg "m"])).
Proof. vm_compute. reflexivity. Qed.

(* the variant of is_loading_module that looks at the running fiber and its direct caller only
   (loading_walks_chain = false): through ONE fiber the cycle is still found, through TWO it is taken for the leftover
   of a failed import - the module is unregistered and its body started again while the first run is still on the
   frame stack (two module objects for one path) *)
Theorem cycle_through_two_fibers_refuted_shallow :
  (let st := w_run_shallow w_init [EStartImport "m"; EFiberCall 1; EPushHandler] in
   snd (w_step_shallow st (EStartImport "m")) = OCaught (XErr (mkerr KImport [cyc_msg "m"])))
  /\ (let st := w_run_shallow w_init [EStartImport "m"; EFiberCall 1; EFiberCall 1; EPushHandler] in
      is_loading st 1 = true
      /\ snd (w_step_shallow st (EStartImport "m")) = OEntered 2 tt
      /\ ran (fst (w_step_shallow st (EStartImport "m"))) = [2; 1]
      /\ loads (fst (w_step_shallow st (EStartImport "m"))) = ["m"; "m"]
      /\ alookup (reg (fst (w_step_shallow st (EStartImport "m")))) "m" = Some 2
      /\ is_loading (fst (w_step_shallow st (EStartImport "m"))) 1 = true).
Proof. vm_compute. repeat split; reflexivity. Qed.

Print Assumptions reimport_after_failed_body_reloads.
Print Assumptions import_at_frame_limit_is_clean.
Print Assumptions cycle_through_fibers_is_import_error.
Print Assumptions cycle_through_two_fibers_refuted_shallow.
Print Assumptions import_at_frame_limit_refuted_old.
Print Assumptions reimport_after_failed_body_reports_cycle_refuted_old.

(* ---------------------------------------------------------------------------------------------- *)
(* Every run of the mini-language's Mechanism evaluator is a run of the event machine: whatever state
   ModLang.eval_mech is in, some event sequence from the initial state leads there.  Hence every theorem
   above ("over every event sequence") holds for every program of the mini-language, any fuel. *)
Open Scope list_scope.

Lemma run_events_app SrcId Body ld cp B fm chk grd chain st a b :
  run_events SrcId Body ld cp B fm chk grd chain st (a ++ b)
  = run_events SrcId Body ld cp B fm chk grd chain (run_events SrcId Body ld cp B fm chk grd chain st a) b.
Proof. revert st; induction a as [|e a IH]; simpl; intros st; auto. Qed.

Section MechReach.
  Variable prog : program.
  Variable cm : list (list (list string)).
  Variable B : list name.
  Variable fm : nat.
  Variables chk grd cta : bool.
  Variable core : list name.

  Definition reach (st : state) : Prop :=
    exists evs, st = run_events nat (list top) (prog_loader prog) (prog_compiler prog cm) B fm chk grd true
                                (init_state (main_attrs B core)) evs.
  Definition RX (x : xst) : Prop := reach (ms x).

  Definition res_ok (r : res) : Prop :=
    match r with
    | RNormal _ x | RUnwound _ _ x | RDead _ x => RX x
    | _ => True
    end.
  Definition sres_ok (r : sres) : Prop :=
    match r with SOk x _ | SUnw _ _ x | SDead _ x => RX x end.

  Lemma reach_step st e : reach st -> reach (fst (mstep prog cm B fm chk grd true st e)).
  Proof.
    intros [evs ->]. exists (evs ++ [e]). rewrite run_events_app. reflexivity.
  Qed.

  Lemma do_step_ok x e : RX x -> sres_ok (do_step prog cm B fm chk grd true x e).
  Proof.
    intros H. unfold do_step. pose proof (reach_step (ms x) e H) as H'.
    destruct (mstep prog cm B fm chk grd true (ms x) e) as [s' o]. simpl in H'.
    destruct o; simpl; auto. destruct (hids x); simpl; auto.
  Qed.

  Lemma bind_s_ok r k : sres_ok r -> (forall x o, RX x -> res_ok (k x o)) -> res_ok (bind_s r k).
  Proof. intros Hr Hk. destruct r; simpl in *; auto. Qed.

  Lemma get_global_ok x nm k :
    RX x -> (forall x' v, RX x' -> res_ok (k x' v)) -> res_ok (get_global prog cm B fm chk grd true x nm k).
  Proof.
    intros Hx Hk. unfold get_global. apply bind_s_ok; [apply do_step_ok; auto|].
    intros x' o Hx'. destruct o; simpl; auto.
  Qed.

  Lemma resolve_ok env x nm k :
    RX x -> (forall x' v, RX x' -> res_ok (k x' v)) -> res_ok (resolve prog cm B fm chk grd true env x nm k).
  Proof. intros Hx Hk. unfold resolve. destruct (lookup_local env nm); auto. apply get_global_ok; auto. Qed.

  Lemma bind_alias_ok env x nm v : RX x -> res_ok (bind_alias prog cm B fm chk grd true env x nm v).
  Proof.
    intros Hx. unfold bind_alias. destruct env; simpl; auto.
    apply bind_s_ok; [apply do_step_ok; auto|]. intros x' _ Hx'. exact Hx'.
  Qed.

  Lemma note_ok x nm : RX x -> RX (note_main_only x nm).
  Proof.
    intros H. unfold note_main_only. destruct (Nat.eqb _ _); auto. destruct (alookup _ _); auto.
  Qed.

  Arguments get_global : simpl never.
  Arguments resolve : simpl never.
  Arguments bind_s : simpl never.
  Arguments do_step : simpl never.
  Arguments bind_alias : simpl never.
  Arguments note_main_only : simpl never.

  Lemma run_task_ok : forall fuel tk x, RX x -> res_ok (run_task prog cm B fm chk grd true cta fuel tk x).
  Proof.
    induction fuel as [|fuel IH]; intros tk x Hx; simpl; [exact I|].
    destruct tk as [l env|s env|env w|k f env|ts src|m segs fenv between env].
    - destruct l as [|s rest]; [exact Hx|].
      pose proof (IH (TkExec1 s env) x Hx) as H.
      destruct (run_task prog cm B fm chk grd true cta fuel (TkExec1 s env) x); simpl in *; auto.
    - destruct s.
      + apply get_global_ok; [assumption|]. intros x1 _ H1. exact H1.
      + apply get_global_ok; [assumption|]. intros x1 _ H1. apply get_global_ok; [assumption|]. intros x2 w H2. exact H2.
      + apply bind_s_ok; [apply do_step_ok; auto|]. intros x1 _ H1. exact H1.
      + apply bind_s_ok; [apply do_step_ok; auto|]. intros x1 o H1. destruct o; simpl; auto.
        * apply bind_alias_ok; auto.
        * pose proof (IH (TkTops b (src_of_mod x1 id)) x1 H1) as Ht.
          destruct (run_task prog cm B fm chk grd true cta fuel (TkTops b (src_of_mod x1 id)) x1); simpl in *; auto.
          apply bind_s_ok; [apply do_step_ok; auto|]. intros x3 _ H3. apply bind_alias_ok; auto.
      + apply get_global_ok; [assumption|]. intros x1 _ H1. apply resolve_ok; [assumption|]. intros x2 w H2.
        destruct w; simpl; auto. apply bind_s_ok; [apply do_step_ok; auto|]. intros x3 o H3.
        destruct o; simpl; auto.
      + apply resolve_ok; [assumption|]. intros x1 w H1. destruct w; simpl; auto.
        apply bind_s_ok; [apply do_step_ok; auto|]. intros x2 _ H2. exact H2.
      + apply get_global_ok; [assumption|]. intros x1 w H1. apply IH; auto.
      + apply resolve_ok; [assumption|]. intros x1 w H1. destruct w; simpl; auto.
        apply bind_s_ok; [apply do_step_ok; auto|]. intros x2 o H2. destruct o; simpl; auto; apply IH; auto.
      + apply bind_s_ok; [apply do_step_ok; auto|]. intros; simpl; exact I.
      + apply get_global_ok; [assumption|]. intros x1 _ H1.
        destruct k as [|[q|[q|q|]|]];
          repeat (first [apply get_global_ok; [auto using note_ok|]; intros | exact I | assumption | apply note_ok; assumption]).
      + apply IH; auto.
      + apply bind_s_ok; [apply do_step_ok; auto|]. intros x1 _ H1.
        match goal with |- res_ok (match run_task _ _ _ _ _ _ _ _ _ ?tk ?xx with _ => _ end) =>
          assert (Hb : res_ok (run_task prog cm B fm chk grd true cta fuel tk xx)) by (apply IH; exact H1);
          destruct (run_task prog cm B fm chk grd true cta fuel tk xx) as [env' x2|h e x2|e x2| |why]; simpl in *; auto
        end.
        * apply bind_s_ok; [apply do_step_ok; auto|]. intros x3 _ H3. exact H3.
        * destruct (Nat.eqb h (nexth x)); simpl; auto.
          apply get_global_ok; [assumption|]. intros x3 _ H3. apply get_global_ok; [assumption|]. intros x4 _ H4.
          apply get_global_ok; [exact H4|]. intros x6 _ H6. apply get_global_ok; [assumption|]. intros x7 _ H7.
          apply get_global_ok; [assumption|]. intros x8 _ H8. exact H8.
      + pose proof (IH (TkExec body ([] :: env)) x Hx) as Hb.
        destruct (run_task prog cm B fm chk grd true cta fuel (TkExec body ([] :: env)) x); simpl in *; auto.
      + apply resolve_ok; [assumption|]. intros x1 w H1. destruct w; simpl; auto.
        apply get_global_ok; [assumption|]. intros x2 u H2.
        apply bind_s_ok; [apply do_step_ok; auto|]. intros x3 _ H3. exact H3.
      + apply bind_s_ok; [apply do_step_ok; auto|]. intros x1 _ H1.
        pose proof (IH (TkExec body ([] :: env)) x1 H1) as Hb.
        destruct (run_task prog cm B fm chk grd true cta fuel (TkExec body ([] :: env)) x1); simpl in *; auto.
        apply bind_s_ok; [apply do_step_ok; auto|]. intros x3 _ H3. exact H3.
      + exact I.
      + apply get_global_ok; [assumption|]. intros x1 _ H1.
        assert (Hk : forall x2 u, RX x2 ->
                  res_ok (match u with
                          | VFn m key =>
                            match find_fn prog key with
                            | Some body => run_task prog cm B fm chk grd true cta fuel (TkGen m (split_yield body) [[]] between env) x2
                            | None => RIll "no such function"
                            end
                          | _ => RIll "not a function"
                          end)).
        { intros x2 u H2. destruct u; simpl; auto. destruct (find_fn prog f0); simpl; auto. }
        destruct (N.eqb a 0).
        * apply get_global_ok; [assumption|]. intros x2 u H2. apply Hk; auto.
        * apply resolve_ok; [assumption|]. intros x2 w H2. destruct w; simpl; auto.
          apply bind_s_ok; [apply do_step_ok; auto|]. intros x3 o H3. destruct o; simpl; auto.
    - destruct w; simpl; auto.
      destruct (find_fn prog f) as [body|]; simpl; auto.
      apply bind_s_ok; [apply do_step_ok; auto|]. intros x1 _ H1.
      pose proof (IH (TkExec body [[]]) x1 H1) as Hb.
      destruct (run_task prog cm B fm chk grd true cta fuel (TkExec body [[]]) x1); simpl in *; auto.
      apply bind_s_ok; [apply do_step_ok; auto|]. intros x3 _ H3. exact H3.
    - destruct k as [|k'].
      + apply get_global_ok; [assumption|]. intros x1 w H1. apply IH; auto.
      + apply get_global_ok; [assumption|]. intros x1 _ H1.
        apply bind_s_ok; [apply do_step_ok; auto|]. intros x2 _ H2.
        pose proof (IH (TkFiber k' f env) x2 H2) as Hb.
        destruct (run_task prog cm B fm chk grd true cta fuel (TkFiber k' f env) x2); simpl in *; auto.
        apply bind_s_ok; [apply do_step_ok; auto|]. intros x4 _ H4. exact H4.
    - destruct ts as [|t rest]; [exact Hx|].
      assert (Hr : res_ok (match t with
                           | TStmt s => run_task prog cm B fm chk grd true cta fuel (TkExec1 s []) x
                           | TDef v n => bind_s (do_step prog cm B fm chk grd true x (EDefineGlobal (var_name v) (VNum n))) (fun x1 _ => RNormal [] x1)
                           | TFn f _ => bind_s (do_step prog cm B fm chk grd true x (EDefineGlobal (fn_name f) (VFn (closure_mod cta x) (fn_key src f)))) (fun x1 _ => RNormal [] x1)
                           end)).
      { destruct t.
        - apply IH; auto.
        - apply bind_s_ok; [apply do_step_ok; auto|]. intros x1 _ H1. exact H1.
        - apply bind_s_ok; [apply do_step_ok; auto|]. intros x1 _ H1. exact H1. }
      destruct (match t with TStmt s => _ | TDef v n => _ | TFn f _ => _ end); simpl in *; auto.
    - destruct segs as [|seg rest]; [exact Hx|].
      apply bind_s_ok; [apply do_step_ok; auto|]. intros x1 _ H1.
      pose proof (IH (TkExec seg fenv) x1 H1) as Hb.
      destruct (run_task prog cm B fm chk grd true cta fuel (TkExec seg fenv) x1) as [fenv' x2|h e x2|e x2| |why]; simpl in *; auto.
      apply bind_s_ok; [apply do_step_ok; auto|]. intros x3 _ H3.
      pose proof (IH (TkExec between ([] :: env)) x3 H3) as Hc.
      destruct (run_task prog cm B fm chk grd true cta fuel (TkExec between ([] :: env)) x3) as [env' x4|h e x4|e x4| |why]; simpl in *; auto.
  Qed.

  Theorem mech_final_state_reachable fuel st :
    final_state prog cm B fm chk grd true cta fuel core = Some st -> reach st.
  Proof.
    unfold final_state. intros E.
    assert (Hts : forall ts, res_ok (exec_tops prog cm B fm chk grd true cta fuel ts 0 (mech_init B core))).
    { intros ts. apply run_task_ok. exists []; reflexivity. }
    destruct prog as [|[ts| |k] rest] eqn:Ep; try discriminate.
    specialize (Hts ts).
    destruct (exec_tops (MOk ts :: rest) cm B fm chk grd true cta fuel ts 0 (mech_init B core)); simpl in *; inversion E; subst; auto.
  Qed.

  (* e.g.: whatever program runs, whatever the fuel, no module object's body is started twice, and the active
     module is the module of the running closure *)
  Corollary program_body_runs_at_most_once fuel st :
    final_state prog cm B fm chk grd true cta fuel core = Some st -> NoDup (ran st).
  Proof.
    intros H. destruct (mech_final_state_reachable fuel st H) as [evs ->].
    apply body_runs_at_most_once. intros b Hb. unfold main_attrs.
    apply main_attrs_have_builtins; auto.
  Qed.

  Corollary program_globals_isolated fuel st :
    final_state prog cm B fm chk grd true cta fuel core = Some st -> dead st = None -> active st = top_mod st.
  Proof.
    intros H. destruct (mech_final_state_reachable fuel st H) as [evs ->].
    apply globals_isolated. intros b Hb. unfold main_attrs. apply main_attrs_have_builtins; auto.
  Qed.
End MechReach.

Print Assumptions mech_final_state_reachable.
Print Assumptions program_body_runs_at_most_once.
