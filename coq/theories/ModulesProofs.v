(* C14 - proofs about the module machine of Modules.v, over EVERY event sequence and for EVERY loader and
   compiler (Section variables).  Headline theorems (restated in props/C14.v):
     body_runs_at_most_once, loaded_at_most_once, same_module_object, cycle_is_import_error,
     loading_module_is_cycle_error, failed_load_is_import_error, failed_compile_is_import_error,
     globals_isolated (+ call_enters_defining_module, global_write_is_local, attrs_frame),
     builtins_in_every_module, and the refutations at the frame limit / for main-only names. *)
From Coq Require Import List String NArith Bool Arith Lia.
From YV Require Import Modules ModuleSpec ModLang.
Import ListNotations.
Open Scope list_scope.

(* ---------------------------------------------------------------------------------------------- *)
(* lists *)

Lemma upd_nth_length A (l : list A) i f : List.length (upd_nth l i f) = List.length l.
Proof. revert i; induction l as [|a l IH]; intros [|i]; simpl; auto. Qed.

Lemma nth_upd_nth_neq A (l : list A) i j f d : j <> i -> nth j (upd_nth l i f) d = nth j l d.
Proof.
  revert i j; induction l as [|a l IH]; intros [|i] [|j] Hne; simpl; auto; try congruence.
Qed.

Lemma nth_upd_nth_eq A (l : list A) i f d : i < List.length l -> nth i (upd_nth l i f) d = f (nth i l d).
Proof.
  revert i; induction l as [|a l IH]; intros [|i] Hlt; simpl in *; try lia; auto. apply IH; lia.
Qed.

Lemma nth_upd_nth_proj A X (g : A -> X) (l : list A) i f d :
  (forall a, g (f a) = g a) -> forall j, g (nth j (upd_nth l i f) d) = g (nth j l d).
Proof.
  intros Hg. revert i; induction l as [|a l IH]; intros [|i] [|j]; simpl; auto.
Qed.

Lemma alookup_app_some A (l : list (string * A)) k w x v :
  alookup l x = Some v -> alookup (l ++ [(k, w)]) x = Some v.
Proof.
  induction l as [|[k' v'] l IH]; simpl; intros H; [discriminate|].
  destruct (String.eqb k' x); auto.
Qed.

Lemma alookup_app_none A (l : list (string * A)) k w x :
  alookup l x = None -> alookup (l ++ [(k, w)]) x = if String.eqb k x then Some w else None.
Proof.
  induction l as [|[k' v'] l IH]; simpl; intros H; auto.
  destruct (String.eqb k' x); [discriminate|auto].
Qed.

Lemma akeys_ainsert_mono A (l : list (string * A)) x v k : In k (akeys l) -> In k (akeys (ainsert l x v)).
Proof.
  unfold akeys. induction l as [|[k' v'] l IH]; simpl; intros H; [tauto|].
  destruct (String.eqb k' x); simpl in *; tauto.
Qed.

Lemma akeys_ainsert_in A (l : list (string * A)) x v : In x (akeys (ainsert l x v)).
Proof.
  unfold akeys. induction l as [|[k' v'] l IH]; simpl; auto.
  destruct (String.eqb k' x) eqn:E; simpl; auto. apply String.eqb_eq in E; auto.
Qed.

Lemma alookup_ainsert_same A (l : list (string * A)) x v : alookup (ainsert l x v) x = Some v.
Proof.
  induction l as [|[k' v'] l IH]; simpl.
  - now rewrite String.eqb_refl.
  - destruct (String.eqb k' x) eqn:E; simpl; rewrite E; auto.
Qed.

Lemma alookup_ainsert_other A (l : list (string * A)) x y v : x <> y -> alookup (ainsert l x v) y = alookup l y.
Proof.
  intros Hne. induction l as [|[k' v'] l IH]; simpl.
  - destruct (String.eqb x y) eqn:E; auto. apply String.eqb_eq in E; congruence.
  - destruct (String.eqb k' x) eqn:E; simpl.
    + apply String.eqb_eq in E; subst k'. destruct (String.eqb x y) eqn:E2; auto.
      apply String.eqb_eq in E2; congruence.
    + destruct (String.eqb k' y); auto.
Qed.

Lemma alookup_in_keys A (l : list (string * A)) x v : alookup l x = Some v -> In x (akeys l).
Proof.
  unfold akeys. induction l as [|[k' v'] l IH]; simpl; intros H; [discriminate|].
  destruct (String.eqb k' x) eqn:E; auto. apply String.eqb_eq in E; auto.
Qed.

Lemma in_keys_alookup A (l : list (string * A)) x : In x (akeys l) -> exists v, alookup l x = Some v.
Proof.
  unfold akeys. induction l as [|[k' v'] l IH]; simpl; intros H; [tauto|].
  destruct (String.eqb k' x) eqn:E; eauto. destruct H as [H|H]; auto.
  subst. rewrite String.eqb_refl in E; discriminate.
Qed.

Lemma keep_bottom_suffix A k (l : list A) : exists pre, l = pre ++ keep_bottom k l.
Proof. exists (firstn (List.length l - k) l). unfold keep_bottom. now rewrite firstn_skipn. Qed.

Lemma keep_bottom_nonempty A k (l : list A) : 1 <= k -> l <> [] -> keep_bottom k l <> [].
Proof.
  intros Hk Hl. unfold keep_bottom. intros H.
  assert (Hlen : List.length (skipn (List.length l - k) l) = 0) by now rewrite H.
  rewrite skipn_length in Hlen.
  assert (Hl0 : List.length l <> 0) by (destruct l; [congruence|simpl; lia]). lia.
Qed.

Lemma in_suffix A (pre l : list A) x : In x l -> In x (pre ++ l).
Proof. intros; apply in_or_app; auto. Qed.

(* ---------------------------------------------------------------------------------------------- *)

Section Proofs.
  Variables SrcId Body : Type.
  Variable loader : path -> load_result SrcId.
  Variable compiler : path -> SrcId -> comp_result Body.
  Variable builtin_names : list name.
  Variable frames_max : nat.

  Notation stepM := (step SrcId Body loader compiler builtin_names frames_max).
  Notation runM := (run_events SrcId Body loader compiler builtin_names frames_max).
  Notation raiseM := (raise Body).
  Notation callM := (call_closure Body frames_max).
  Notation startM := (start_import SrcId Body loader compiler builtin_names frames_max).
  Notation initB := (init_builtins builtin_names).

  (* body frames of module object id *)
  Definition no_body_frame (fs : list frame) (id : nat) : Prop :=
    forall g, In g fs -> f_body g = true -> f_mod g <> id.

  (* a module held as an import temporary by a frame has no body frame at or below that frame *)
  Fixpoint pend_ok (fs : list frame) : Prop :=
    match fs with
    | [] => True
    | f :: below => (forall id, In id (f_pend f) -> no_body_frame (f :: below) id) /\ pend_ok below
    end.

  Definition frame_ok (n : nat) (f : frame) : Prop := f_mod f < n /\ (forall id, In id (f_pend f) -> id < n).

  Record Inv (st : state) : Prop := mkInv {
    i_reg1 : forall p id, alookup (reg st) p = Some id -> id < List.length (heap st) /\ m_path (getmod st id) = p;
    i_reg2 : forall id, id < List.length (heap st) -> alookup (reg st) (m_path (getmod st id)) = Some id;
    i_fr_ne : frames st <> [];
    i_fr_ok : forall f, In f (frames st) -> frame_ok (List.length (heap st)) f;
    i_act_lt : active st < List.length (heap st);
    i_act : dead st = None -> active st = top_mod st;
    i_hand : forall h, In h (handlers st) -> 1 <= h_frames h;
    i_ran_nd : NoDup (ran st);
    i_ran_lt : forall id, In id (ran st) -> id < List.length (heap st);
    i_yield : forall p id, In (p, id) (yielded st) -> alookup (reg st) p = Some id;
    i_built : forall id, id = 0 \/ In id (ran st) -> forall b, In b builtin_names -> In b (akeys (attrs_of st id));
    i_loading : forall f, In f (frames st) -> f_body f = true -> m_imported (getmod st (f_mod f)) = false;
    i_pend : pend_ok (frames st)
  }.

  (* ---- pend_ok ---- *)
  Lemma pend_ok_suffix pre fs : pend_ok (pre ++ fs) -> pend_ok fs.
  Proof. induction pre as [|a pre IH]; simpl; auto. intros [_ H]; auto. Qed.

  Lemma no_body_frame_suffix pre fs id : no_body_frame (pre ++ fs) id -> no_body_frame fs id.
  Proof. intros H g Hg. apply H. apply in_suffix; auto. Qed.

  Lemma pend_ok_top_shrink f below pend' :
    (forall id, In id pend' -> In id (f_pend f)) ->
    pend_ok (f :: below) -> pend_ok (mkframe (f_mod f) (f_body f) pend' :: below).
  Proof.
    intros Hsub [Hf Hb]. split; auto. intros id Hid g Hg Hbody.
    simpl in Hid. destruct Hg as [Hg|Hg].
    - subst g. simpl in *. apply (Hf id (Hsub id Hid) f); [left; auto|exact Hbody].
    - apply (Hf id (Hsub id Hid) g); [right; auto|auto].
  Qed.

  Lemma pend_ok_top_shrink' f below pend' :
    (forall id, In id pend' -> In id (f_pend f)) ->
    pend_ok (f :: below) -> forall id, In id pend' -> no_body_frame (f :: below) id.
  Proof. intros Hsub [Hf _] id Hid. apply Hf; auto. Qed.

  Lemma keep_bottom_incl A k (l : list A) x : In x (keep_bottom k l) -> In x l.
  Proof. destruct (keep_bottom_suffix A k l) as [pre E]. intros H. rewrite E. apply in_suffix; auto. Qed.

  (* ---- getmod under heap updates ---- *)
  Lemma getmod_set_heap st h id : getmod (set_heap st h) id = nth id h (empty_mod "").
  Proof. reflexivity. Qed.

  Lemma getmod_upd_attrs_path st i f id : m_path (getmod (upd_attrs st i f) id) = m_path (getmod st id).
  Proof. unfold upd_attrs, getmod; simpl. apply (nth_upd_nth_proj _ _ m_path); auto. Qed.

  Lemma getmod_upd_attrs_imported st i f id : m_imported (getmod (upd_attrs st i f) id) = m_imported (getmod st id).
  Proof. unfold upd_attrs, getmod; simpl. apply (nth_upd_nth_proj _ _ m_imported); auto. Qed.

  Lemma attrs_upd_attrs_other st i f id : id <> i -> attrs_of (upd_attrs st i f) id = attrs_of st id.
  Proof. intros H. unfold attrs_of, upd_attrs, getmod; simpl. now rewrite nth_upd_nth_neq. Qed.

  Lemma attrs_upd_attrs_same st i f : i < List.length (heap st) -> attrs_of (upd_attrs st i f) i = f (attrs_of st i).
  Proof. intros H. unfold attrs_of, upd_attrs, getmod; simpl. now rewrite nth_upd_nth_eq. Qed.

  Lemma keys_upd_attrs_mono st i f id k :
    (forall a k, In k (akeys a) -> In k (akeys (f a))) ->
    In k (akeys (attrs_of st id)) -> In k (akeys (attrs_of (upd_attrs st i f) id)).
  Proof.
    intros Hf Hk. destruct (Nat.eq_dec id i) as [->|Hne].
    - destruct (Nat.lt_ge_cases i (List.length (heap st))) as [Hlt|Hge].
      + rewrite attrs_upd_attrs_same; auto.
      + unfold attrs_of, upd_attrs, getmod in *; simpl.
        rewrite nth_overflow in Hk by lia. simpl in Hk. tauto.
    - rewrite attrs_upd_attrs_other; auto.
  Qed.

  Lemma upd_attrs_inv st i f :
    (forall a k, In k (akeys a) -> In k (akeys (f a))) -> Inv st -> Inv (upd_attrs st i f).
  Proof.
    intros Hf I. destruct I.
    constructor; simpl; try rewrite upd_nth_length; auto.
    - intros p id H. rewrite getmod_upd_attrs_path. auto.
    - intros id H. rewrite getmod_upd_attrs_path. auto.
    - intros id Hid b Hb. apply keys_upd_attrs_mono; auto.
    - intros g Hg Hb. rewrite getmod_upd_attrs_imported. auto.
  Qed.

  Lemma fold_ainsert_keys_mono (names : list name) (a : list (name * value)) k :
    In k (akeys a) -> In k (akeys (fold_left (fun acc b => ainsert acc b (VBuiltin b)) names a)).
  Proof.
    revert a; induction names as [|n names IH]; simpl; intros a H; auto.
    apply IH. apply akeys_ainsert_mono; auto.
  Qed.

  Lemma fold_ainsert_keys_in (names : list name) (a : list (name * value)) b :
    In b names -> In b (akeys (fold_left (fun acc b => ainsert acc b (VBuiltin b)) names a)).
  Proof.
    revert a; induction names as [|n names IH]; simpl; intros a H; [tauto|].
    destruct H as [->|H]; auto. apply fold_ainsert_keys_mono. apply akeys_ainsert_in.
  Qed.

  Lemma init_builtins_inv st id : Inv st -> Inv (initB id st).
  Proof. intros I. apply upd_attrs_inv; auto. intros a k. apply fold_ainsert_keys_mono. Qed.

  Lemma init_builtins_has st id b :
    id < List.length (heap st) -> In b builtin_names -> In b (akeys (attrs_of (initB id st) id)).
  Proof.
    intros Hlt Hb. unfold init_builtins. rewrite attrs_upd_attrs_same; auto.
    apply fold_ainsert_keys_in; auto.
  Qed.

  (* ---- set_imported ---- *)
  Lemma set_imported_inv st id : Inv st -> no_body_frame (frames st) id -> Inv (set_imported st id).
  Proof.
    intros I Hnb. destruct I.
    assert (Hpath : forall j, m_path (getmod (set_imported st id) j) = m_path (getmod st j)).
    { intros j. unfold set_imported, getmod; simpl. apply (nth_upd_nth_proj _ _ m_path); auto. }
    assert (Hattr : forall j, attrs_of (set_imported st id) j = attrs_of st j).
    { intros j. unfold attrs_of, set_imported, getmod; simpl. apply (nth_upd_nth_proj _ _ m_attrs); auto. }
    constructor; simpl; try rewrite upd_nth_length; auto.
    - intros p j H. rewrite Hpath. auto.
    - intros j H. rewrite Hpath. auto.
    - intros j Hj b Hb. rewrite Hattr. auto.
    - intros g Hg Hb. unfold set_imported, getmod; simpl.
      rewrite nth_upd_nth_neq; [apply i_loading0; auto|]. apply Hnb; auto.
  Qed.

  (* ---- raise ---- *)
  Lemma raise_fields st x :
    reg (fst (raiseM st x)) = reg st /\ heap (fst (raiseM st x)) = heap st /\ loads (fst (raiseM st x)) = loads st
    /\ ran (fst (raiseM st x)) = ran st /\ yielded (fst (raiseM st x)) = yielded st.
  Proof. unfold raise. destruct (handlers st); simpl; auto. Qed.

  Lemma raise_inv st x : Inv st -> Inv (fst (raiseM st x)).
  Proof.
    intros I. unfold raise. destruct (handlers st) as [|h hs] eqn:Eh; simpl.
    - destruct I. constructor; simpl; auto; try discriminate. intros h Hh; tauto.
    - destruct I.
      assert (Hk : 1 <= h_frames h) by (apply i_hand0; rewrite Eh; left; auto).
      destruct (keep_bottom_suffix _ (h_frames h) (frames st)) as [pre Epre].
      pose proof (keep_bottom_nonempty _ _ _ Hk i_fr_ne0) as Hne.
      destruct (keep_bottom (h_frames h) (frames st)) as [|f r] eqn:Ek; [congruence|].
      set (f' := mkframe (f_mod f) (f_body f) (keep_bottom (h_pend h) (f_pend f))).
      assert (Hin : forall g, In g (f :: r) -> In g (frames st)).
      { intros g Hg. rewrite Epre. apply in_suffix; auto. }
      assert (Hfok : frame_ok (List.length (heap st)) f) by (apply i_fr_ok0, Hin; left; auto).
      assert (Hpk : pend_ok (f :: r)) by (apply (pend_ok_suffix pre); rewrite <- Epre; auto).
      constructor; simpl; auto; try discriminate.
      + intros g [<-|Hg].
        * destruct Hfok as [H1 H2]. split; simpl; auto. intros id Hid. apply H2.
          apply (keep_bottom_incl _ (h_pend h)). exact Hid.
        * apply i_fr_ok0, Hin; right; auto.
      + unfold top_mod; simpl. destruct Hfok as [H1 _]; exact H1.
      + intros h' Hh'. apply i_hand0. rewrite Eh; right; auto.
      + intros g [<-|Hg] Hb; simpl in *.
        * apply (i_loading0 f); auto; apply Hin; left; auto.
        * apply i_loading0; auto; apply Hin; right; auto.
      + apply (pend_ok_top_shrink f r); auto. intros id Hid. apply (keep_bottom_incl _ (h_pend h)). exact Hid.
  Qed.

  (* ---- frames ---- *)
  Lemma set_frames_top_inv st f r pend' :
    frames st = f :: r -> Inv st ->
    (forall id, In id pend' -> id < List.length (heap st)) ->
    (forall id, In id pend' -> no_body_frame (f :: r) id) ->
    Inv (set_frames st (mkframe (f_mod f) (f_body f) pend' :: r)).
  Proof.
    intros Ef I Hlt Hnb. destruct I. rewrite Ef in *.
    constructor; simpl; auto; try discriminate.
    - intros g [<-|Hg]; [|apply i_fr_ok0; right; auto].
      destruct (i_fr_ok0 f (or_introl eq_refl)) as [H1 _]. split; auto.
    - intros Hd. rewrite (i_act0 Hd). unfold top_mod. rewrite Ef. reflexivity.
    - intros g [<-|Hg] Hb; simpl in *; [apply (i_loading0 f); auto; left; auto|apply i_loading0; auto; right; auto].
    - destruct i_pend0 as [Hf Hb]. split; auto.
      intros id Hid g Hg Hbody. simpl in Hid.
      destruct Hg as [Hg|Hg].
      + subst g. simpl in *. apply (Hnb id Hid f); [left; auto|auto].
      + apply (Hnb id Hid g); [right; auto|auto].
  Qed.

  Lemma push_pend_inv st id :
    Inv st -> id < List.length (heap st) -> no_body_frame (frames st) id -> Inv (push_pend id st).
  Proof.
    intros I Hlt Hnb. unfold push_pend. destruct (frames st) as [|f r] eqn:Ef; auto.
    apply set_frames_top_inv; auto.
    - intros j [<-|Hj]; auto. destruct I. rewrite Ef in *. apply (i_fr_ok0 f (or_introl eq_refl)); auto.
    - intros j [<-|Hj]; auto. destruct I. rewrite Ef in *. destruct i_pend0 as [Hf _]. apply Hf; auto.
  Qed.

  Lemma log_yield_inv st p id : Inv st -> alookup (reg st) p = Some id -> Inv (log_yield p id st).
  Proof.
    intros I H. destruct I. constructor; simpl; auto.
    intros q j [E|Hq]; auto. inversion E; subst; auto.
  Qed.

  Lemma log_load_inv st p : Inv st -> Inv (log_load p st).
  Proof. intros I. destruct I. constructor; simpl; auto. Qed.

  Lemma load_frame_inv st : Inv st -> Inv (load_frame st).
  Proof.
    intros I. destruct I. constructor; simpl; auto.
    - unfold top_mod. destruct (frames st) as [|f r] eqn:Ef; [congruence|].
      destruct (i_fr_ok0 f (or_introl eq_refl)) as [H1 _]; exact H1.
    - intros _. unfold load_frame, top_mod; simpl. destruct (frames st); reflexivity.
  Qed.

  Lemma push_frame_inv st m b :
    Inv st -> m < List.length (heap st) -> (b = true -> m_imported (getmod st m) = false) ->
    Inv (load_frame (set_frames st (mkframe m b [] :: frames st))).
  Proof.
    intros I Hlt Hb. destruct I. constructor; simpl; auto; try discriminate.
    - intros g [<-|Hg]; auto. split; simpl; auto. intros id [].
    - intros g [<-|Hg] Hg'; simpl in *; [apply Hb; auto|apply i_loading0; auto].
    - split; auto. intros id [].
  Qed.

  Lemma call_closure_inv st m b :
    Inv st -> m < List.length (heap st) -> (b = true -> m_imported (getmod st m) = false) ->
    Inv (fst (callM st m b)).
  Proof.
    intros I Hlt Hb. unfold call_closure. destruct (Nat.eqb _ _).
    - apply raise_inv; auto.
    - simpl. apply push_frame_inv; auto.
  Qed.

  (* ---- get_or_create (registry miss) ---- *)
  Lemma getmod_app_old st p id x :
    id < List.length (heap st) -> nth id (heap st ++ [x]) (empty_mod p) = nth id (heap st) (empty_mod p).
  Proof. intros H. now rewrite app_nth1. Qed.

  Definition created (st : state) (p : path) : state :=
    mkstate (reg st ++ [(p, List.length (heap st))]) (heap st ++ [empty_mod p]) (frames st) (handlers st)
            (active st) (loads st) (ran st) (yielded st) (dead st).

  Lemma get_or_create_none st p :
    alookup (reg st) p = None -> get_or_create st p = (created st p, List.length (heap st)).
  Proof. intros H. unfold get_or_create. rewrite H. reflexivity. Qed.

  Lemma getmod_created_old st p id : id < List.length (heap st) -> getmod (created st p) id = getmod st id.
  Proof. intros H. unfold getmod, created; simpl. now rewrite app_nth1. Qed.

  Lemma getmod_created_new st p : getmod (created st p) (List.length (heap st)) = empty_mod p.
  Proof. unfold getmod, created; simpl. rewrite app_nth2 by lia. now rewrite Nat.sub_diag. Qed.

  Lemma created_inv st p : Inv st -> alookup (reg st) p = None -> Inv (created st p).
  Proof.
    intros I Hn. destruct I.
    assert (Hlen : List.length (heap st ++ [empty_mod p]) = S (List.length (heap st))) by (rewrite app_length; simpl; lia).
    constructor; simpl; try rewrite Hlen; auto.
    - intros q id H.
      destruct (alookup (reg st) q) as [j|] eqn:Eq.
      + rewrite (alookup_app_some _ _ _ _ _ _ Eq) in H. inversion H; subst j.
        destruct (i_reg3 _ _ Eq) as [H1 H2]. split; [lia|]. rewrite getmod_created_old; auto.
      + rewrite (alookup_app_none _ _ _ _ _ Eq) in H. destruct (String.eqb p q) eqn:E; [|discriminate].
        inversion H; subst id. apply String.eqb_eq in E; subst q. split; [lia|].
        rewrite getmod_created_new. reflexivity.
    - intros id Hid. destruct (Nat.eq_dec id (List.length (heap st))) as [->|Hne].
      + rewrite getmod_created_new; simpl. rewrite (alookup_app_none _ _ _ _ _ Hn). now rewrite String.eqb_refl.
      + assert (Hlt : id < List.length (heap st)) by lia.
        rewrite getmod_created_old; auto. apply alookup_app_some. auto.
    - intros g Hg. destruct (i_fr_ok0 g Hg) as [H1 H2]. split; [lia|]. intros id Hid. specialize (H2 id Hid). lia.
    - intros id Hid. specialize (i_ran_lt0 id Hid). lia.
    - intros q id Hq. apply alookup_app_some. auto.
    - intros id Hid b Hb. unfold attrs_of. rewrite getmod_created_old; [apply i_built0; auto|].
      destruct Hid as [->|Hid]; [|apply i_ran_lt0; auto].
      destruct (frames st) as [|f r] eqn:Ef; [congruence|].
      destruct (i_fr_ok0 f (or_introl eq_refl)); lia.
    - intros g Hg Hb. rewrite getmod_created_old; auto. apply i_fr_ok0; auto.
  Qed.

  Lemma log_ran_inv st id :
    Inv st -> id < List.length (heap st) -> ~ In id (ran st) ->
    (forall b, In b builtin_names -> In b (akeys (attrs_of st id))) -> Inv (log_ran id st).
  Proof.
    intros I Hlt Hnin Hb. destruct I. constructor; simpl; auto.
    - constructor; auto.
    - intros j [<-|Hj]; auto.
    - intros j [->|[<-|Hj]] b Hbn.
      + apply (i_built0 0); auto.
      + apply Hb; auto.
      + apply (i_built0 j); auto.
  Qed.

  (* ---- finish_import ---- *)
  Lemma finish_import_inv st : Inv st -> Inv (finish_import st).
  Proof.
    intros I. unfold finish_import. destruct (frames st) as [|f r] eqn:Ef; auto.
    destruct (f_pend f) as [|id pend] eqn:Ep; auto.
    assert (Hnb : no_body_frame (f :: r) id).
    { destruct I. rewrite Ef in *. destruct i_pend0 as [Hf _]. apply Hf. rewrite Ep; left; auto. }
    apply set_imported_inv.
    - apply set_frames_top_inv; auto.
      + intros j Hj. destruct I. rewrite Ef in *. apply (i_fr_ok0 f (or_introl eq_refl)). rewrite Ep; right; auto.
      + intros j Hj. destruct I. rewrite Ef in *. destruct i_pend0 as [Hf _]. apply Hf. rewrite Ep; right; auto.
    - simpl. intros g Hg Hb. destruct Hg as [<-|Hg]; simpl in *.
      + apply (Hnb f); auto. left; auto.
      + apply (Hnb g); auto. right; auto.
  Qed.

  (* ---- outcomes of raise / call_closure ---- *)
  Lemma raise_outcome st x : snd (raiseM st x) = OCaught x \/ snd (raiseM st x) = ODead x.
  Proof. unfold raise. destruct (handlers st); simpl; auto. Qed.

  Lemma raise_caught st x h hs : handlers st = h :: hs -> snd (raiseM st x) = OCaught x.
  Proof. intros H. unfold raise. rewrite H. reflexivity. Qed.

  Lemma raise_dead st x : handlers st = [] -> snd (raiseM st x) = ODead x /\ dead (fst (raiseM st x)) = Some x.
  Proof. intros H. unfold raise. rewrite H. simpl. auto. Qed.

  Lemma call_closure_fields st m b :
    reg (fst (callM st m b)) = reg st /\ heap (fst (callM st m b)) = heap st /\ loads (fst (callM st m b)) = loads st
    /\ ran (fst (callM st m b)) = ran st /\ yielded (fst (callM st m b)) = yielded st.
  Proof. unfold call_closure. destruct (Nat.eqb _ _); [apply raise_fields|simpl; auto]. Qed.

  Lemma call_closure_none st m b st' :
    callM st m b = (st', ONone) ->
    st' = load_frame (set_frames st (mkframe m b [] :: frames st)) /\ List.length (frames st) <> frames_max.
  Proof.
    unfold call_closure. destruct (Nat.eqb _ _) eqn:E.
    - intros H. destruct (raise_outcome st (XErr (mkerr KIndex [stack_overflow_msg]))) as [H'|H'];
        rewrite H in H'; simpl in H'; discriminate.
    - intros H. inversion H. apply Nat.eqb_neq in E. auto.
  Qed.

  Lemma load_frame_sub_inv st fs :
    Inv st -> fs <> [] -> (forall g, In g fs -> In g (frames st)) -> pend_ok fs ->
    Inv (load_frame (set_frames st fs)).
  Proof.
    intros I Hne Hin Hp. destruct I. constructor; simpl; auto.
    - unfold top_mod; simpl. destruct fs as [|f r]; [congruence|].
      destruct (i_fr_ok0 f (Hin f (or_introl eq_refl))) as [H1 _]; exact H1.
    - intros _. unfold load_frame, top_mod; simpl. destruct fs; reflexivity.
    - intros g Hg Hb. apply i_loading0; auto.
  Qed.

  (* ---- the import statement ---- *)
  Lemma start_import_inv st p : Inv st -> Inv (fst (startM st p)).
  Proof.
    intros I. unfold start_import.
    destruct (alookup (reg st) p) as [id|] eqn:Er.
    - destruct (m_imported (getmod st id)) eqn:Ei.
      + simpl. apply push_pend_inv.
        * apply log_yield_inv; auto.
        * simpl. apply (i_reg1 _ I _ _ Er).
        * simpl. intros g Hg Hb Heq. pose proof (i_loading _ I g Hg Hb) as H. rewrite Heq, Ei in H. discriminate.
      + apply raise_inv; auto.
    - destruct (loader p) as [src|e]; [|apply raise_inv, log_load_inv; auto].
      destruct (compiler p src) as [body|msgs]; [|apply raise_inv, log_load_inv; auto].
      rewrite get_or_create_none by (simpl; exact Er).
      set (st1 := log_load p st). set (id := List.length (heap st1)).
      set (st2 := created st1 p).
      assert (I1 : Inv st1) by (apply log_load_inv; auto).
      assert (I2 : Inv st2) by (apply created_inv; auto).
      assert (Hreg : alookup (reg st2) p = Some id).
      { unfold st2, created; simpl. rewrite (alookup_app_none _ _ _ _ _ Er). now rewrite String.eqb_refl. }
      assert (Hlt : id < List.length (heap st2)).
      { unfold st2, created; simpl. rewrite app_length; simpl. unfold id; simpl. lia. }
      set (st3 := push_pend id (log_yield p id st2)).
      assert (I3 : Inv st3).
      { apply push_pend_inv; [apply log_yield_inv; auto|exact Hlt|].
        simpl. intros g Hg _ Heq. destruct (i_fr_ok _ I g Hg) as [H1 _]. unfold id in Heq; simpl in Heq. lia. }
      assert (Hheap3 : heap st3 = heap st2).
      { unfold st3, push_pend. simpl. destruct (frames st); reflexivity. }
      assert (Hran3 : ran st3 = ran st).
      { unfold st3, push_pend. simpl. destruct (frames st); reflexivity. }
      assert (Himp : m_imported (getmod st3 id) = false).
      { unfold getmod. rewrite Hheap3. change (m_imported (getmod (created st1 p) (List.length (heap st1))) = false).
        rewrite getmod_created_new. reflexivity. }
      assert (Hlt3 : id < List.length (heap st3)) by (rewrite Hheap3; exact Hlt).
      pose proof (call_closure_inv st3 id true I3 Hlt3 (fun _ => Himp)) as I4.
      pose proof (call_closure_fields st3 id true) as (_ & Hh4 & _ & Hr4 & _).
      destruct (callM st3 id true) as [st4 o] eqn:Ec. simpl in I4, Hh4, Hr4.
      destruct o; simpl; auto.
      + (* the body's frame is pushed *)
        destruct (call_closure_none _ _ _ _ Ec) as [E4 _].
        assert (Hact : active st4 = id).
        { rewrite E4. unfold load_frame, top_mod; simpl. reflexivity. }
        change (Inv (log_ran id (initB (active st4) st4))).
        apply log_ran_inv.
        * apply init_builtins_inv; auto.
        * simpl. rewrite upd_nth_length, Hh4. exact Hlt3.
        * simpl. rewrite Hr4, Hran3. intros Hin. pose proof (i_ran_lt _ I _ Hin) as H. unfold id in H; simpl in H. lia.
        * intros b Hb. rewrite Hact. apply init_builtins_has; auto. rewrite Hh4; exact Hlt3.
      + apply init_builtins_inv; auto.
  Qed.

  Lemma step_inv st e : Inv st -> Inv (fst (stepM st e)).
  Proof.
    intros I. unfold step. destruct (dead st) eqn:Ed; [exact I|].
    destruct e; simpl.
    - apply start_import_inv; auto.
    - apply finish_import_inv; auto.
    - destruct (Nat.ltb m (List.length (heap st))) eqn:E; [|exact I].
      apply call_closure_inv; auto. apply Nat.ltb_lt; auto. discriminate.
    - destruct (frames st) as [|f0 [|f r]] eqn:Ef; auto. simpl.
      apply load_frame_sub_inv; auto; try discriminate.
      + intros g Hg. rewrite Ef. right; auto.
      + pose proof (i_pend _ I) as H. rewrite Ef in H. destruct H as [_ H]; exact H.
    - apply raise_inv; auto.
    - destruct I. constructor; simpl; auto.
      intros h [<-|Hh]; auto. simpl. destruct (frames st); [congruence|simpl; lia].
    - destruct I. constructor; simpl; auto.
      intros h Hh. apply i_hand0. destruct (handlers st); simpl in *; auto.
    - destruct (alookup _ x); [exact I|apply raise_inv; auto].
    - destruct (alookup _ x); [|apply raise_inv; auto]. simpl.
      apply upd_attrs_inv; auto. intros a k. apply akeys_ainsert_mono.
    - apply upd_attrs_inv; auto. intros a k. apply akeys_ainsert_mono.
    - destruct (alookup _ x); [exact I|apply raise_inv; auto].
    - apply upd_attrs_inv; auto. intros a k. apply akeys_ainsert_mono.
  Qed.

  Lemma run_inv evs : forall st, Inv st -> Inv (runM st evs).
  Proof. induction evs as [|e evs IH]; simpl; intros st I; auto. apply IH, step_inv; auto. Qed.

  (* the initial state: module main (object 0) with its start-up attributes, its script frame *)
  Lemma init_inv main_attrs :
    (forall b, In b builtin_names -> In b (akeys main_attrs)) -> Inv (init_state main_attrs).
  Proof.
    intros Hb.
    assert (Hg : forall id, getmod (init_state main_attrs) id = nth id [mkmod main_path false main_attrs] (empty_mod ""))
      by reflexivity.
    constructor; unfold init_state; cbn [reg heap frames handlers active loads ran yielded dead List.length];
      auto; try discriminate.
    - intros p id H. cbn [alookup] in H. destruct (String.eqb main_path p) eqn:E; [|discriminate].
      inversion H; subst. apply String.eqb_eq in E. split; auto.
    - intros id Hid. assert (id = 0) by lia. subst. cbn [alookup]. rewrite Hg. cbn [nth m_path].
      now rewrite String.eqb_refl.
    - intros f [<-|[]]. split; cbn [f_mod f_pend]; auto. intros id [].
    - intros h [].
    - constructor.
    - intros id [].
    - intros p id [].
    - intros id [->|[]] b Hbn. unfold attrs_of. rewrite Hg. cbn [nth m_attrs]. apply Hb; auto.
    - intros f [<-|[]] _. cbn [f_mod]. rewrite Hg. reflexivity.
    - split; [intros id []|exact I].
  Qed.

  Definition reachable (main_attrs : list (name * value)) (st : state) : Prop :=
    exists evs, st = runM (init_state main_attrs) evs.

  Lemma reachable_inv main_attrs st :
    (forall b, In b builtin_names -> In b (akeys main_attrs)) -> reachable main_attrs st -> Inv st.
  Proof. intros Hb [evs ->]. apply run_inv, init_inv; auto. Qed.

  (* ============================================================================================ *)
  (* which fields an event touches *)

  Lemma push_pend_fields id st :
    reg (push_pend id st) = reg st /\ heap (push_pend id st) = heap st /\ loads (push_pend id st) = loads st
    /\ ran (push_pend id st) = ran st /\ yielded (push_pend id st) = yielded st
    /\ List.length (frames (push_pend id st)) = List.length (frames st) /\ active (push_pend id st) = active st
    /\ handlers (push_pend id st) = handlers st /\ dead (push_pend id st) = dead st.
  Proof. unfold push_pend. destruct (frames st) eqn:E; simpl; rewrite ?E; repeat split; auto. Qed.

  Lemma finish_import_fields st :
    reg (finish_import st) = reg st /\ loads (finish_import st) = loads st /\ ran (finish_import st) = ran st
    /\ yielded (finish_import st) = yielded st /\ List.length (heap (finish_import st)) = List.length (heap st)
    /\ forall q, attrs_of (finish_import st) q = attrs_of st q.
  Proof.
    unfold finish_import. destruct (frames st) as [|f r]; [repeat split; auto|].
    destruct (f_pend f) as [|id pend]; [repeat split; auto|].
    simpl. rewrite upd_nth_length. repeat split; auto.
    intros q. unfold attrs_of, getmod; simpl. apply (nth_upd_nth_proj _ _ m_attrs); auto.
  Qed.

  Lemma raise_reg st x : reg (fst (raiseM st x)) = reg st. Proof. apply raise_fields. Qed.
  Lemma raise_heap st x : heap (fst (raiseM st x)) = heap st. Proof. apply raise_fields. Qed.
  Lemma raise_loads st x : loads (fst (raiseM st x)) = loads st. Proof. apply raise_fields. Qed.
  Lemma call_reg st m b : reg (fst (callM st m b)) = reg st. Proof. apply call_closure_fields. Qed.
  Lemma call_heap st m b : heap (fst (callM st m b)) = heap st. Proof. apply call_closure_fields. Qed.
  Lemma call_loads st m b : loads (fst (callM st m b)) = loads st. Proof. apply call_closure_fields. Qed.
  Lemma push_pend_reg id st : reg (push_pend id st) = reg st. Proof. apply push_pend_fields. Qed.
  Lemma push_pend_heap id st : heap (push_pend id st) = heap st. Proof. apply push_pend_fields. Qed.
  Lemma push_pend_loads id st : loads (push_pend id st) = loads st. Proof. apply push_pend_fields. Qed.
  Lemma push_pend_nframes id st : List.length (frames (push_pend id st)) = List.length (frames st).
  Proof. apply push_pend_fields. Qed.
  Lemma finish_reg st : reg (finish_import st) = reg st. Proof. apply finish_import_fields. Qed.
  Lemma finish_loads st : loads (finish_import st) = loads st. Proof. apply finish_import_fields. Qed.
  Lemma finish_attrs st q : attrs_of (finish_import st) q = attrs_of st q. Proof. apply finish_import_fields. Qed.

  Ltac fld := simpl; rewrite ?raise_reg, ?raise_heap, ?raise_loads, ?call_reg, ?call_heap, ?call_loads,
              ?push_pend_reg, ?push_pend_heap, ?push_pend_loads, ?finish_reg, ?finish_loads; simpl; try reflexivity.

  (* the registry only grows, and only by the import of an unregistered, loadable, compilable path *)
  Lemma step_reg st e :
    reg (fst (stepM st e)) = reg st \/
    exists p s b, e = EStartImport p /\ alookup (reg st) p = None /\ loader p = LoadOk s /\ compiler p s = CompOk b
                  /\ reg (fst (stepM st e)) = reg st ++ [(p, List.length (heap st))].
  Proof.
    unfold step. destruct (dead st); [left; auto|].
    destruct e; simpl; try (left; reflexivity).
    - unfold start_import. destruct (alookup (reg st) p) as [id|] eqn:Er.
      + left. destruct (m_imported _); [fld|fld].
      + destruct (loader p) as [s|e] eqn:El; [|left; fld].
        destruct (compiler p s) as [b|msgs] eqn:Ec; [|left; fld].
        right. exists p, s, b. repeat split; auto.
        rewrite get_or_create_none by (simpl; exact Er).
        set (st3 := push_pend _ _).
        assert (H3 : reg st3 = reg st ++ [(p, List.length (heap st))]).
        { unfold st3. destruct (push_pend_fields (List.length (heap (log_load p st))) (log_yield p (List.length (heap (log_load p st))) (created (log_load p st) p))) as [H _].
          rewrite H. reflexivity. }
        pose proof (call_closure_fields st3 (List.length (heap (log_load p st))) true) as [H4 _].
        destruct (callM st3 _ true) as [st4 o]. simpl in H4. destruct o; simpl; rewrite ?H4; auto.
    - left. fld.
    - destruct (Nat.ltb _ _); [left; fld|left; auto].
    - left. destruct (frames st) as [|f0 [|f r]]; auto.
    - left. fld.
    - left. destruct (alookup _ x); [auto|fld].
    - left. destruct (alookup _ x); [auto|fld].
    - left. destruct (alookup _ x); [auto|fld].
  Qed.

  Lemma step_reg_mono st e p id :
    alookup (reg st) p = Some id -> alookup (reg (fst (stepM st e))) p = Some id.
  Proof.
    intros H. destruct (step_reg st e) as [E|(q & s & b & _ & _ & _ & _ & E)]; rewrite E; auto.
    apply alookup_app_some; auto.
  Qed.

  (* the loader is called only by the import of an unregistered path *)
  Lemma step_loads st e :
    loads (fst (stepM st e)) = loads st \/
    exists p, e = EStartImport p /\ alookup (reg st) p = None /\ loads (fst (stepM st e)) = p :: loads st.
  Proof.
    unfold step. destruct (dead st); [left; auto|].
    destruct e; simpl; try (left; reflexivity).
    - unfold start_import. destruct (alookup (reg st) p) as [id|] eqn:Er.
      + left. destruct (m_imported _); [fld|fld].
      + right. exists p. repeat split; auto.
        destruct (loader p) as [s|e] eqn:El; [|fld].
        destruct (compiler p s) as [b|msgs] eqn:Ec; [|fld].
        rewrite get_or_create_none by (simpl; exact Er).
        set (st3 := push_pend _ _).
        assert (H3 : loads st3 = p :: loads st).
        { unfold st3. destruct (push_pend_fields (List.length (heap (log_load p st))) (log_yield p (List.length (heap (log_load p st))) (created (log_load p st) p))) as (_ & _ & H & _).
          rewrite H. reflexivity. }
        pose proof (call_closure_fields st3 (List.length (heap (log_load p st))) true) as (_ & _ & H4 & _).
        destruct (callM st3 _ true) as [st4 o]. simpl in H4. destruct o; simpl; rewrite ?H4; auto.
    - left. fld.
    - destruct (Nat.ltb _ _); [left; fld|left; auto].
    - left. destruct (frames st) as [|f0 [|f r]]; auto.
    - left. fld.
    - left. destruct (alookup _ x); [auto|fld].
    - left. destruct (alookup _ x); [auto|fld].
    - left. destruct (alookup _ x); [auto|fld].
  Qed.

  Definition compilable (p : path) : Prop := exists s b, loader p = LoadOk s /\ compiler p s = CompOk b.

  Definition loads_ok (st : state) : Prop :=
    forall p, compilable p ->
      count_occ string_dec (loads st) p <= 1 /\ (In p (loads st) -> alookup (reg st) p <> None).

  Lemma step_loads_ok st e : loads_ok st -> loads_ok (fst (stepM st e)).
  Proof.
    intros L p Hc. destruct (L p Hc) as [L1 L2].
    destruct (step_loads st e) as [E|(q & -> & Hq & E)]; rewrite E.
    - split; auto. intros Hin Hn. apply (L2 Hin).
      destruct (alookup (reg st) p) eqn:Ep; auto.
      rewrite (step_reg_mono _ _ _ _ Ep) in Hn. discriminate.
    - destruct (string_dec q p) as [->|Hne].
      + assert (Hnin : ~ In p (loads st)) by (intros Hin; apply (L2 Hin); auto).
        split.
        * simpl. destruct (string_dec p p); [|congruence].
          apply (count_occ_not_In string_dec) in Hnin. lia.
        * intros _. destruct Hc as (s & b & Hl & Hcm).
          destruct (step_reg st (EStartImport p)) as [Er|(q & s' & b' & Eq & _ & _ & _ & Er)].
          -- exfalso.
             assert (Hd : dead st = None).
             { destruct (dead st) eqn:Ed; auto. exfalso. unfold step in E. rewrite Ed in E. simpl in E.
               assert (Hlen : List.length (loads st) = List.length (p :: loads st)) by (rewrite <- E; reflexivity).
               simpl in Hlen. lia. }
             revert Er. unfold step. rewrite Hd.
             simpl. unfold start_import. rewrite Hq, Hl, Hcm.
             rewrite get_or_create_none by (simpl; exact Hq).
             set (st3 := push_pend _ _).
             assert (H3 : reg st3 = reg st ++ [(p, List.length (heap st))]).
             { unfold st3. destruct (push_pend_fields (List.length (heap (log_load p st))) (log_yield p (List.length (heap (log_load p st))) (created (log_load p st) p))) as [H _].
               rewrite H. reflexivity. }
             pose proof (call_closure_fields st3 (List.length (heap (log_load p st))) true) as [H4 _].
             destruct (callM st3 _ true) as [st4 o]. simpl in H4.
             intros Er.
             assert (Hlen : List.length (reg st ++ [(p, List.length (heap st))]) = List.length (reg st)).
             { rewrite <- H3, <- H4. destruct o; simpl in Er; rewrite Er; reflexivity. }
             rewrite app_length in Hlen. simpl in Hlen. lia.
          -- inversion Eq; subst q. rewrite Er. rewrite (alookup_app_none _ _ _ _ _ Hq).
             rewrite String.eqb_refl. discriminate.
      + split.
        * simpl. destruct (string_dec q p); [congruence|auto].
        * intros [Hin|Hin]; [congruence|]. intros Hn. apply (L2 Hin).
          destruct (alookup (reg st) p) eqn:Ep; auto.
          rewrite (step_reg_mono _ _ _ _ Ep) in Hn. discriminate.
  Qed.

  Lemma run_loads_ok evs : forall st, loads_ok st -> loads_ok (runM st evs).
  Proof. induction evs as [|e evs IH]; simpl; intros st L; auto. apply IH, step_loads_ok; auto. Qed.

  Lemma NoDup_map_in A B (f : A -> B) (l : list A) :
    (forall x y, In x l -> In y l -> f x = f y -> x = y) -> NoDup l -> NoDup (map f l).
  Proof.
    intros Hinj Hnd. induction Hnd as [|a l Hnin Hnd IH]; simpl; constructor.
    - intros Hin. apply in_map_iff in Hin. destruct Hin as (y & Hy & Hin).
      assert (y = a) by (apply Hinj; simpl; auto). subst. auto.
    - apply IH. intros x y Hx Hy. apply Hinj; simpl; auto.
  Qed.

  (* ============================================================================================ *)
  (* headline theorems: every event sequence from the initial state *)

  Variable main_attrs : list (name * value).
  Hypothesis main_has_builtins : forall b, In b builtin_names -> In b (akeys main_attrs).
  Notation init := (init_state main_attrs).

  Lemma run_init_inv evs : Inv (runM init evs).
  Proof. apply run_inv, init_inv; auto. Qed.

  (* T1: a module's top-level code is started at most once: per module object and per path *)
  Theorem body_runs_at_most_once evs :
    let st := runM init evs in
    NoDup (ran st) /\ NoDup (map (fun id => m_path (getmod st id)) (ran st)).
  Proof.
    intros st. pose proof (run_init_inv evs) as I. fold st in I. split; [apply (i_ran_nd _ I)|].
    apply NoDup_map_in; [|apply (i_ran_nd _ I)].
    intros x y Hx Hy E.
    pose proof (i_reg2 _ I x (i_ran_lt _ I x Hx)) as H1.
    pose proof (i_reg2 _ I y (i_ran_lt _ I y Hy)) as H2.
    rewrite E in H1. rewrite H1 in H2. congruence.
  Qed.

  (* the host loader is asked at most once for a module that loads and compiles *)
  Theorem loaded_at_most_once evs p :
    compilable p -> count_occ string_dec (loads (runM init evs)) p <= 1.
  Proof.
    intros Hc. apply (run_loads_ok evs init); auto.
    intros q _. simpl. split; [lia|tauto].
  Qed.

  (* T2: every import of a path yields the same module object, and objects of different paths differ *)
  Theorem same_module_object evs p i j :
    let st := runM init evs in In (p, i) (yielded st) -> In (p, j) (yielded st) -> i = j.
  Proof.
    intros st Hi Hj. pose proof (run_init_inv evs) as I. fold st in I.
    pose proof (i_yield _ I _ _ Hi). pose proof (i_yield _ I _ _ Hj). congruence.
  Qed.

  Theorem module_object_determines_path evs p q i :
    let st := runM init evs in In (p, i) (yielded st) -> In (q, i) (yielded st) -> p = q.
  Proof.
    intros st Hi Hj. pose proof (run_init_inv evs) as I. fold st in I.
    destruct (i_reg1 _ I _ _ (i_yield _ I _ _ Hi)) as [_ H1].
    destruct (i_reg1 _ I _ _ (i_yield _ I _ _ Hj)) as [_ H2]. congruence.
  Qed.

  (* T3: importing a registered module whose `imported` flag is still false is a cycle ImportError;
     nothing is loaded, run, registered or yielded *)
  Theorem cycle_is_import_error st p id :
    dead st = None -> alookup (reg st) p = Some id -> m_imported (getmod st id) = false ->
    stepM st (EStartImport p) = raiseM st (XErr (mkerr KImport [cyc_msg p])).
  Proof. intros Hd Hr Hi. unfold step, start_import. rewrite Hd, Hr, Hi. reflexivity. Qed.

  (* ... and a module whose body is on the frame stack (still being loaded) is in that situation *)
  Theorem loading_module_is_cycle_error evs f :
    let st := runM init evs in
    dead st = None -> In f (frames st) -> f_body f = true ->
    let p := m_path (getmod st (f_mod f)) in
    stepM st (EStartImport p) = raiseM st (XErr (mkerr KImport [cyc_msg p])).
  Proof.
    intros st Hd Hf Hb p. pose proof (run_init_inv evs) as I. fold st in I.
    destruct (i_fr_ok _ I f Hf) as [Hlt _].
    apply (cycle_is_import_error st p (f_mod f)); auto.
    - apply (i_reg2 _ I); auto.
    - apply (i_loading _ I); auto.
  Qed.

  (* an exception is delivered to the innermost handler (catchable) or ends the run with that error:
     the machine never hangs or gets stuck on it *)
  Theorem raise_delivers st x :
    (exists h hs, handlers st = h :: hs /\ snd (raiseM st x) = OCaught x /\ dead (fst (raiseM st x)) = dead st
                  /\ handlers (fst (raiseM st x)) = hs
                  /\ List.length (frames (fst (raiseM st x))) <= h_frames h)
    \/ (handlers st = [] /\ snd (raiseM st x) = ODead x /\ dead (fst (raiseM st x)) = Some x).
  Proof.
    unfold raise. destruct (handlers st) as [|h hs] eqn:Eh; [right; simpl; auto|].
    left. exists h, hs. simpl. repeat split; auto.
    unfold keep_bottom. destruct (skipn _ (frames st)) as [|f r] eqn:Es; simpl; [lia|].
    assert (Hl : List.length (skipn (List.length (frames st) - h_frames h) (frames st)) = S (List.length r)) by now rewrite Es.
    rewrite skipn_length in Hl. lia.
  Qed.

  (* T4: a module that cannot be found / does not compile: the loader's error as is, resp. an ImportError
     "Error compiling module:" + indented messages; nothing is registered, run or yielded *)
  Theorem failed_load_is_import_error st p e :
    dead st = None -> alookup (reg st) p = None -> loader p = LoadErr e ->
    stepM st (EStartImport p) = raiseM (log_load p st) (XErr e).
  Proof. intros Hd Hr Hl. unfold step, start_import. rewrite Hd, Hr, Hl. reflexivity. Qed.

  Theorem failed_compile_is_import_error st p s msgs :
    dead st = None -> alookup (reg st) p = None -> loader p = LoadOk s -> compiler p s = CompErr msgs ->
    stepM st (EStartImport p)
    = raiseM (log_load p st) (XErr (mkerr KImport (comp_head :: map (append comp_indent) msgs))).
  Proof. intros Hd Hr Hl Hc. unfold step, start_import. rewrite Hd, Hr, Hl, Hc. reflexivity. Qed.

  Theorem failed_import_registers_nothing st p :
    dead st = None ->
    (exists id, alookup (reg st) p = Some id /\ m_imported (getmod st id) = false)
    \/ (alookup (reg st) p = None /\ ((exists e, loader p = LoadErr e) \/ exists s msgs, loader p = LoadOk s /\ compiler p s = CompErr msgs)) ->
    let st' := fst (stepM st (EStartImport p)) in
    reg st' = reg st /\ heap st' = heap st /\ ran st' = ran st /\ yielded st' = yielded st
    /\ exists x, snd (stepM st (EStartImport p)) = OCaught x \/ snd (stepM st (EStartImport p)) = ODead x.
  Proof.
    intros Hd [(id & Hr & Hi)|[Hr [(e & Hl)|(s & msgs & Hl & Hc)]]] st'; unfold st'.
    - rewrite (cycle_is_import_error st p id Hd Hr Hi).
      destruct (raise_fields st (XErr (mkerr KImport [cyc_msg p]))) as (H1 & H2 & _ & H3 & H4).
      repeat split; auto. eexists. apply raise_outcome.
    - rewrite (failed_load_is_import_error st p e Hd Hr Hl).
      destruct (raise_fields (log_load p st) (XErr e)) as (H1 & H2 & _ & H3 & H4).
      repeat split; auto. eexists. apply raise_outcome.
    - rewrite (failed_compile_is_import_error st p s msgs Hd Hr Hl Hc).
      destruct (raise_fields (log_load p st) (XErr (mkerr KImport (comp_head :: map (append comp_indent) msgs)))) as (H1 & H2 & _ & H3 & H4).
      repeat split; auto. eexists. apply raise_outcome.
  Qed.

  (* T5: the active-module register is the module of the running closure, after every event sequence *)
  Theorem globals_isolated evs :
    let st := runM init evs in dead st = None -> active st = top_mod st.
  Proof. intros st. apply (i_act _ (run_init_inv evs)). Qed.

  Theorem call_enters_defining_module st m :
    dead st = None -> m < List.length (heap st) -> List.length (frames st) <> frames_max ->
    let st' := fst (stepM st (ECall m)) in
    frames st' = mkframe m false [] :: frames st /\ active st' = m /\ top_mod st' = m.
  Proof.
    intros Hd Hlt Hne st'. unfold st', step. rewrite Hd.
    apply Nat.ltb_lt in Hlt. rewrite Hlt. unfold call_closure.
    apply Nat.eqb_neq in Hne. rewrite Hne. simpl. auto.
  Qed.

  Theorem return_restores_caller_module st f0 f r :
    dead st = None -> frames st = f0 :: f :: r ->
    let st' := fst (stepM st EReturn) in frames st' = f :: r /\ active st' = f_mod f.
  Proof. intros Hd Hf st'. unfold st', step. rewrite Hd, Hf. simpl. auto. Qed.

  Theorem global_read_is_local st x :
    dead st = None -> active st = top_mod st ->
    stepM st (EGetGlobal x) =
    match alookup (attrs_of st (top_mod st)) x with
    | Some v => (st, OValue v)
    | None => raiseM st (XErr (mkerr KName [undefined_variable x]))
    end.
  Proof. intros Hd Ha. unfold step. rewrite Hd, Ha. reflexivity. Qed.

  Lemma attrs_raise st x q : attrs_of (fst (raiseM st x)) q = attrs_of st q.
  Proof. unfold attrs_of, getmod. destruct (raise_fields st x) as (_ & H & _). now rewrite H. Qed.

  Theorem global_write_is_local st x v q :
    active st = top_mod st -> q <> top_mod st ->
    attrs_of (fst (stepM st (ESetGlobal x v))) q = attrs_of st q
    /\ attrs_of (fst (stepM st (EDefineGlobal x v))) q = attrs_of st q.
  Proof.
    intros Ha Hq. unfold step. destruct (dead st); [auto|]. rewrite Ha. split.
    - destruct (alookup _ x); [|rewrite attrs_raise; reflexivity]. simpl. apply attrs_upd_attrs_other; auto.
    - simpl. apply attrs_upd_attrs_other; auto.
  Qed.

  (* the attributes of an existing module change only through its own globals, an attribute write naming
     it, or - at the frame limit only - the built-ins re-initialisation of an import *)
  Theorem attrs_frame st e q :
    q < List.length (heap st) ->
    match e with
    | ESetGlobal _ _ | EDefineGlobal _ _ => active st <> q
    | ESetAttr m _ _ => m <> q
    | EStartImport _ => List.length (frames st) <> frames_max
    | _ => True
    end ->
    attrs_of (fst (stepM st e)) q = attrs_of st q.
  Proof.
    intros Hq He. unfold step. destruct (dead st); [auto|].
    destruct e; simpl.
    - unfold start_import. destruct (alookup (reg st) p) as [id|] eqn:Er.
      + destruct (m_imported _); [|rewrite attrs_raise; reflexivity]. simpl.
        unfold attrs_of, getmod. destruct (push_pend_fields id (log_yield p id st)) as (_ & H & _). now rewrite H.
      + destruct (loader p) as [s|e]; [|rewrite attrs_raise; reflexivity].
        destruct (compiler p s) as [b|msgs]; [|rewrite attrs_raise; reflexivity].
        rewrite get_or_create_none by (simpl; exact Er).
        set (id := List.length (heap (log_load p st))).
        set (st3 := push_pend id _).
        destruct (push_pend_fields id (log_yield p id (created (log_load p st) p))) as (_ & Hh3 & _ & _ & _ & Hl3 & _).
        fold st3 in Hh3, Hl3. simpl in Hh3, Hl3.
        unfold call_closure. rewrite Hl3. apply Nat.eqb_neq in He. rewrite He. simpl.
        unfold init_builtins, top_mod; simpl. rewrite attrs_upd_attrs_other by (unfold id; simpl; lia).
        unfold attrs_of, getmod; simpl. rewrite Hh3. now rewrite app_nth1.
    - apply finish_import_fields.
    - destruct (Nat.ltb _ _); auto. unfold attrs_of, getmod.
      destruct (call_closure_fields st m false) as (_ & H & _). now rewrite H.
    - destruct (frames st) as [|f0 [|f r]]; auto.
    - rewrite attrs_raise; reflexivity.
    - reflexivity.
    - reflexivity.
    - destruct (alookup _ x); [auto|rewrite attrs_raise; reflexivity].
    - destruct (alookup _ x); [|rewrite attrs_raise; reflexivity]. simpl. apply attrs_upd_attrs_other; auto.
    - apply attrs_upd_attrs_other; auto.
    - destruct (alookup _ x); [auto|rewrite attrs_raise; reflexivity].
    - apply attrs_upd_attrs_other; auto.
  Qed.

  (* T6: module main and every module whose body was started have all the built-ins *)
  Theorem builtins_in_every_module evs id b :
    let st := runM init evs in
    id = 0 \/ In id (ran st) -> In b builtin_names -> exists v, alookup (attrs_of st id) b = Some v.
  Proof. intros st Hid Hb. apply in_keys_alookup. apply (i_built _ (run_init_inv evs)); auto. Qed.

  Lemma alookup_fold_ainsert_other (names : list name) (a : list (name * value)) c :
    ~ In c names -> alookup (fold_left (fun acc b => ainsert acc b (VBuiltin b)) names a) c = alookup a c.
  Proof.
    revert a; induction names as [|n names IH]; simpl; intros a H; auto.
    rewrite IH by tauto. apply alookup_ainsert_other. intros ->; tauto.
  Qed.

  (* ... and nothing else: a fresh module starts with exactly the names init_built_in_globals defines *)
  Theorem fresh_module_has_only_builtins st p s b :
    dead st = None -> alookup (reg st) p = None -> loader p = LoadOk s -> compiler p s = CompOk b ->
    List.length (frames st) <> frames_max ->
    let st' := fst (stepM st (EStartImport p)) in
    snd (stepM st (EStartImport p)) = OEntered (List.length (heap st)) b
    /\ active st' = List.length (heap st)
    /\ forall c, ~ In c builtin_names -> alookup (attrs_of st' (List.length (heap st))) c = None.
  Proof.
    intros Hd Hr Hl Hc Hne st'. unfold st', step, start_import. rewrite Hd, Hr, Hl, Hc.
    rewrite get_or_create_none by (simpl; exact Hr).
    set (id := List.length (heap (log_load p st))).
    set (st3 := push_pend id _).
    destruct (push_pend_fields id (log_yield p id (created (log_load p st) p))) as (_ & Hh3 & _ & _ & _ & Hl3 & _).
    fold st3 in Hh3, Hl3. simpl in Hh3, Hl3.
    unfold call_closure. rewrite Hl3. apply Nat.eqb_neq in Hne. rewrite Hne. simpl.
    split; [reflexivity|]. split; [reflexivity|].
    intros c Hc'. unfold init_builtins.
    assert (Hlt : id < List.length (heap st3)) by (rewrite Hh3, app_length; unfold id; simpl; lia).
    change (alookup (attrs_of (upd_attrs (log_ran id (load_frame (set_frames st3 (mkframe id true [] :: frames st3)))) id
              (fun a => fold_left (fun acc b0 => ainsert acc b0 (VBuiltin b0)) builtin_names a)) id) c = None).
    rewrite attrs_upd_attrs_same by exact Hlt.
    rewrite alookup_fold_ainsert_other by exact Hc'.
    unfold attrs_of, getmod; simpl. rewrite Hh3. rewrite app_nth2 by (unfold id; simpl; lia).
    unfold id; simpl. rewrite Nat.sub_diag. reflexivity.
  Qed.
End Proofs.

(* ---------------------------------------------------------------------------------------------- *)
Print Assumptions body_runs_at_most_once.
Print Assumptions loaded_at_most_once.
Print Assumptions same_module_object.
Print Assumptions cycle_is_import_error.
Print Assumptions loading_module_is_cycle_error.
Print Assumptions failed_load_is_import_error.
Print Assumptions failed_compile_is_import_error.
Print Assumptions failed_import_registers_nothing.
Print Assumptions globals_isolated.
Print Assumptions attrs_frame.
Print Assumptions builtins_in_every_module.
Print Assumptions fresh_module_has_only_builtins.

(* ---------------------------------------------------------------------------------------------- *)
(* concrete instance: hypotheses are satisfiable, and the witnesses of the recorded findings *)
Open Scope string_scope.

Definition w_loader (p : path) : load_result unit :=
  if String.eqb p "missing" then LoadErr (mkerr KImport [not_found_msg p]) else LoadOk tt.
Definition w_compiler (p : path) (_ : unit) : comp_result unit :=
  if String.eqb p "bad" then CompErr ["oops"] else CompOk tt.
Definition w_builtins : list name := ["print"; "Vec"].
Definition w_step := step unit unit w_loader w_compiler w_builtins 3.
Definition w_run := run_events unit unit w_loader w_compiler w_builtins 3.
Definition w_init := init_state (builtin_attrs ["print"; "Vec"; "RuntimeError"]).

Lemma builtin_attrs_keys l : akeys (builtin_attrs l) = l.
Proof. unfold akeys, builtin_attrs. rewrite map_map. simpl. apply map_id. Qed.

Lemma main_attrs_have_builtins B C b : In b B -> In b (akeys (builtin_attrs (B ++ C))).
Proof. intros H. rewrite builtin_attrs_keys. apply in_or_app; auto. Qed.

Lemma main_only_empty_incl (B C : list name) :
  filter (fun c => negb (existsb (String.eqb c) B)) C = [] -> forall b, In b (B ++ C) -> In b B.
Proof.
  intros H b Hin. apply in_app_or in Hin. destruct Hin as [Hb|Hc]; auto.
  destruct (existsb (String.eqb b) B) eqn:E.
  - apply existsb_exists in E. destruct E as (x & Hx & Heq). apply String.eqb_eq in Heq. subst; auto.
  - exfalso. assert (Hf : In b (filter (fun c => negb (existsb (String.eqb c) B)) C)).
    { apply filter_In. split; auto. rewrite E. reflexivity. }
    rewrite H in Hf. inversion Hf.
Qed.

(* when init_built_in_globals defines every name module main has at start-up (main_only = []), every
   started module sees all of them *)
Theorem startup_names_in_every_module SrcId Body loader compiler (B C : list name) fm evs id b :
  filter (fun c => negb (existsb (String.eqb c) B)) C = [] ->
  let st := run_events SrcId Body loader compiler B fm (init_state (builtin_attrs (B ++ C))) evs in
  id = 0 \/ In id (ran st) -> In b (B ++ C) -> exists v, alookup (attrs_of st id) b = Some v.
Proof.
  intros H st Hid Hb.
  apply (builtins_in_every_module SrcId Body loader compiler B fm (builtin_attrs (B ++ C))); auto.
  - apply main_attrs_have_builtins.
  - apply (main_only_empty_incl B C); auto.
Qed.
Print Assumptions startup_names_in_every_module.

(* cycle_is_import_error: a self import (the body of "m" imports "m") and a 2-cycle *)
Example cycle_hypotheses_satisfiable :
  let st := w_run w_init [EStartImport "m"] in
  dead st = None /\ alookup (reg st) "m" = Some 1 /\ m_imported (getmod st 1) = false
  /\ snd (w_step st (EStartImport "m")) = ODead (XErr (mkerr KImport [cyc_msg "m"])).
Proof. vm_compute. repeat split; reflexivity. Qed.

Example two_cycle_caught :
  let st := w_run w_init [EStartImport "a"; EStartImport "b"; EPushHandler] in
  snd (w_step st (EStartImport "a")) = OCaught (XErr (mkerr KImport [cyc_msg "a"]))
  /\ ran (fst (w_step st (EStartImport "a"))) = [2; 1] /\ loads (fst (w_step st (EStartImport "a"))) = ["b"; "a"].
Proof. vm_compute. repeat split; reflexivity. Qed.

Example failed_load_hypotheses_satisfiable :
  let st := w_run w_init [EPushHandler] in
  snd (w_step st (EStartImport "missing")) = OCaught (XErr (mkerr KImport [not_found_msg "missing"]))
  /\ snd (w_step st (EStartImport "bad")) = OCaught (XErr (mkerr KImport [comp_head; "    oops"]))
  /\ reg (fst (w_step st (EStartImport "bad"))) = reg st.
Proof. vm_compute. repeat split; reflexivity. Qed.

(* globals: a function of module "m" called from main reads and writes m's x, not main's *)
Example globals_isolated_example :
  let st := w_run w_init [EDefineGlobal "x" (VNum 1); EStartImport "m"; EDefineGlobal "x" (VNum 2); EReturn; EFinishImport;
                          ECall 1; ESetGlobal "x" (VNum 3)] in
  snd (w_step st (EGetGlobal "x")) = OValue (VNum 3)
  /\ snd (w_step (fst (w_step st EReturn)) (EGetGlobal "x")) = OValue (VNum 1).
Proof. vm_compute. repeat split; reflexivity. Qed.

(* OBSERVATION (not a violation of the property text): a module whose body threw stays registered with
   imported = false; it is not being loaded any more, yet every later import reports a cycle *)
Theorem reimport_after_failed_body_reports_cycle :
  exists evs, let st := w_run w_init evs in
    frames st = [mkframe 0 true []] /\ ran st = [1]
    /\ snd (w_step st (EStartImport "m")) = OCaught (XErr (mkerr KImport [cyc_msg "m"])).
Proof.
  exists [EPushHandler; EStartImport "m"; EThrow (VStr "boom"); EPushHandler].
  vm_compute. repeat split; reflexivity.
Qed.

(* FINDING import_at_frame_limit: with the frame stack full, the import registers the module, never runs it,
   re-initialises the built-ins of the HANDLING module (overwriting its own `print`), and every later import
   of the module reports a cycle.  (frames_max = 3 here; the shape is the same for 64.) *)
Theorem import_at_frame_limit_refuted :
  exists evs, let st0 := w_run w_init evs in let st := fst (w_step st0 (EStartImport "q")) in
    alookup (attrs_of st0 0) "print" = Some (VNum 7)
    /\ List.length (frames st0) = 3
    /\ alookup (attrs_of st 0) "print" = Some (VBuiltin "print")
    /\ alookup (reg st) "q" = Some 1 /\ ran st = [] /\ m_imported (getmod st 1) = false
    /\ snd (w_step (fst (w_step st EPushHandler)) (EStartImport "q")) = OCaught (XErr (mkerr KImport [cyc_msg "q"])).
Proof.
  exists [EDefineGlobal "print" (VNum 7); EPushHandler; ECall 0; ECall 0].
  vm_compute. repeat split; reflexivity.
Qed.

(* FINDING error_classes_not_in_modules: a name module main has at start-up without being defined by
   init_built_in_globals is undefined inside an imported module *)
Theorem main_only_name_not_in_module_refuted :
  snd (w_step w_init (EGetGlobal "RuntimeError")) = OValue (VBuiltin "RuntimeError")
  /\ snd (w_step (w_run w_init [EStartImport "m"]) (EGetGlobal "RuntimeError"))
     = ODead (XErr (mkerr KName [undefined_variable "RuntimeError"])).
Proof. vm_compute. split; reflexivity. Qed.

Print Assumptions import_at_frame_limit_refuted.
Print Assumptions main_only_name_not_in_module_refuted.

(* ---------------------------------------------------------------------------------------------- *)
(* Every run of the mini-language's Mechanism evaluator is a run of the event machine: whatever state
   ModLang.eval_mech is in, some event sequence from the initial state leads there.  Hence every theorem
   above ("over every event sequence") holds for every program of the mini-language, any fuel. *)
Open Scope list_scope.

Lemma run_events_app SrcId Body ld cp B fm st a b :
  run_events SrcId Body ld cp B fm st (a ++ b) = run_events SrcId Body ld cp B fm (run_events SrcId Body ld cp B fm st a) b.
Proof. revert st; induction a as [|e a IH]; simpl; intros st; auto. Qed.

Section MechReach.
  Variable prog : program.
  Variable cm : list (list (list string)).
  Variable B : list name.
  Variable fm : nat.
  Variable core : list name.

  Definition reach (st : state) : Prop :=
    exists evs, st = run_events nat (list top) (prog_loader prog) (prog_compiler prog cm) B fm
                                (init_state (main_attrs B core)) evs.
  Definition RX (x : xst) : Prop := reach (ms x).

  Definition res_ok (r : res) : Prop :=
    match r with
    | RNormal _ x | RUnwound _ _ x | RDead _ x => RX x
    | _ => True
    end.
  Definition sres_ok (r : sres) : Prop :=
    match r with SOk x _ | SUnw _ _ x | SDead _ x => RX x end.

  Lemma reach_step st e : reach st -> reach (fst (mstep prog cm B fm st e)).
  Proof.
    intros [evs ->]. exists (evs ++ [e]). rewrite run_events_app. reflexivity.
  Qed.

  Lemma do_step_ok x e : RX x -> sres_ok (do_step prog cm B fm x e).
  Proof.
    intros H. unfold do_step. pose proof (reach_step (ms x) e H) as H'.
    destruct (mstep prog cm B fm (ms x) e) as [s' o]. simpl in H'.
    destruct o; simpl; auto. destruct (hids x); simpl; auto.
  Qed.

  Lemma bind_s_ok r k : sres_ok r -> (forall x o, RX x -> res_ok (k x o)) -> res_ok (bind_s r k).
  Proof. intros Hr Hk. destruct r; simpl in *; auto. Qed.

  Lemma get_global_ok x nm k :
    RX x -> (forall x' v, RX x' -> res_ok (k x' v)) -> res_ok (get_global prog cm B fm x nm k).
  Proof.
    intros Hx Hk. unfold get_global. apply bind_s_ok; [apply do_step_ok; auto|].
    intros x' o Hx'. destruct o; simpl; auto.
  Qed.

  Lemma resolve_ok env x nm k :
    RX x -> (forall x' v, RX x' -> res_ok (k x' v)) -> res_ok (resolve prog cm B fm env x nm k).
  Proof. intros Hx Hk. unfold resolve. destruct (lookup_local env nm); auto. apply get_global_ok; auto. Qed.

  Lemma bind_alias_ok env x nm v : RX x -> res_ok (bind_alias prog cm B fm env x nm v).
  Proof.
    intros Hx. unfold bind_alias. destruct env; simpl; auto.
    apply bind_s_ok; [apply do_step_ok; auto|]. intros x' _ Hx'. exact Hx'.
  Qed.

  Lemma note_ok x nm : RX x -> RX (note_main_only x nm).
  Proof.
    intros H. unfold note_main_only. destruct (Nat.eqb _ _); auto. destruct (alookup _ _); auto.
  Qed.

  Arguments get_global : simpl never.
  Arguments resolve : simpl never.
  Arguments bind_s : simpl never.
  Arguments do_step : simpl never.
  Arguments bind_alias : simpl never.
  Arguments note_main_only : simpl never.

  Lemma run_task_ok : forall fuel tk x, RX x -> res_ok (run_task prog cm B fm fuel tk x).
  Proof.
    induction fuel as [|fuel IH]; intros tk x Hx; simpl; [exact I|].
    destruct tk as [l env|s env|env w|ts src].
    - destruct l as [|s rest]; [exact Hx|].
      pose proof (IH (TkExec1 s env) x Hx) as H.
      destruct (run_task prog cm B fm fuel (TkExec1 s env) x); simpl in *; auto.
    - destruct s.
      + apply get_global_ok; [assumption|]. intros x1 _ H1. exact H1.
      + apply get_global_ok; [assumption|]. intros x1 _ H1. apply get_global_ok; [assumption|]. intros x2 w H2. exact H2.
      + apply bind_s_ok; [apply do_step_ok; auto|]. intros x1 _ H1. exact H1.
      + apply bind_s_ok; [apply do_step_ok; auto|]. intros x1 o H1. destruct o; simpl; auto.
        * apply bind_s_ok; [apply do_step_ok; auto|]. intros x2 _ H2. apply bind_alias_ok; auto.
        * pose proof (IH (TkTops b (src_of_mod x1 id)) x1 H1) as Ht.
          destruct (run_task prog cm B fm fuel (TkTops b (src_of_mod x1 id)) x1); simpl in *; auto.
          apply bind_s_ok; [apply do_step_ok; auto|]. intros x3 _ H3.
          apply bind_s_ok; [apply do_step_ok; auto|]. intros x4 _ H4. apply bind_alias_ok; auto.
      + apply get_global_ok; [assumption|]. intros x1 _ H1. apply resolve_ok; [assumption|]. intros x2 w H2.
        destruct w; simpl; auto. apply bind_s_ok; [apply do_step_ok; auto|]. intros x3 o H3.
        destruct o; simpl; auto.
      + apply resolve_ok; [assumption|]. intros x1 w H1. destruct w; simpl; auto.
        apply bind_s_ok; [apply do_step_ok; auto|]. intros x2 _ H2. exact H2.
      + apply get_global_ok; [assumption|]. intros x1 w H1. apply IH; auto.
      + apply resolve_ok; [assumption|]. intros x1 w H1. destruct w; simpl; auto.
        apply bind_s_ok; [apply do_step_ok; auto|]. intros x2 o H2. destruct o; simpl; auto; apply IH; auto.
      + apply bind_s_ok; [apply do_step_ok; auto|]. intros; simpl; exact I.
      + apply get_global_ok; [assumption|]. intros x1 _ H1.
        destruct k as [|[q|[q|q|]|]];
          repeat (first [apply get_global_ok; [auto using note_ok|]; intros | exact I | assumption | apply note_ok; assumption]).
      + apply bind_s_ok; [apply do_step_ok; auto|]. intros x1 _ H1.
        match goal with |- res_ok (match run_task _ _ _ _ _ ?tk ?xx with _ => _ end) =>
          assert (Hb : res_ok (run_task prog cm B fm fuel tk xx)) by (apply IH; exact H1);
          destruct (run_task prog cm B fm fuel tk xx) as [env' x2|h e x2|e x2| |why]; simpl in *; auto
        end.
        * apply bind_s_ok; [apply do_step_ok; auto|]. intros x3 _ H3. exact H3.
        * destruct (Nat.eqb h (nexth x)); simpl; auto.
          apply get_global_ok; [assumption|]. intros x3 _ H3. apply get_global_ok; [assumption|]. intros x4 _ H4.
          apply get_global_ok; [exact H4|]. intros x6 _ H6. apply get_global_ok; [assumption|]. intros x7 _ H7.
          apply get_global_ok; [assumption|]. intros x8 _ H8. exact H8.
      + pose proof (IH (TkExec body ([] :: env)) x Hx) as Hb.
        destruct (run_task prog cm B fm fuel (TkExec body ([] :: env)) x); simpl in *; auto.
    - destruct w; simpl; auto.
      destruct (find_fn prog f) as [body|]; simpl; auto.
      apply bind_s_ok; [apply do_step_ok; auto|]. intros x1 _ H1.
      pose proof (IH (TkExec body [[]]) x1 H1) as Hb.
      destruct (run_task prog cm B fm fuel (TkExec body [[]]) x1); simpl in *; auto.
      apply bind_s_ok; [apply do_step_ok; auto|]. intros x3 _ H3. exact H3.
    - destruct ts as [|t rest]; [exact Hx|].
      assert (Hr : res_ok (match t with
                           | TStmt s => run_task prog cm B fm fuel (TkExec1 s []) x
                           | TDef v n => bind_s (do_step prog cm B fm x (EDefineGlobal (var_name v) (VNum n))) (fun x1 _ => RNormal [] x1)
                           | TFn f _ => bind_s (do_step prog cm B fm x (EDefineGlobal (fn_name f) (VFn (active (ms x)) (fn_key src f)))) (fun x1 _ => RNormal [] x1)
                           end)).
      { destruct t.
        - apply IH; auto.
        - apply bind_s_ok; [apply do_step_ok; auto|]. intros x1 _ H1. exact H1.
        - apply bind_s_ok; [apply do_step_ok; auto|]. intros x1 _ H1. exact H1. }
      destruct (match t with TStmt s => _ | TDef v n => _ | TFn f _ => _ end); simpl in *; auto.
  Qed.

  Theorem mech_final_state_reachable fuel st :
    final_state prog cm B fm fuel core = Some st -> reach st.
  Proof.
    unfold final_state. intros E.
    assert (Hts : forall ts, res_ok (exec_tops prog cm B fm fuel ts 0 (mech_init B core))).
    { intros ts. apply run_task_ok. exists []; reflexivity. }
    destruct prog as [|[ts| |k] rest] eqn:Ep; try discriminate.
    specialize (Hts ts).
    destruct (exec_tops (MOk ts :: rest) cm B fm fuel ts 0 (mech_init B core)); simpl in *; inversion E; subst; auto.
  Qed.

  (* e.g.: whatever program runs, whatever the fuel, no module body is started twice *)
  Corollary program_body_runs_at_most_once fuel st :
    final_state prog cm B fm fuel core = Some st ->
    NoDup (ran st) /\ NoDup (map (fun id => m_path (getmod st id)) (ran st)).
  Proof.
    intros H. destruct (mech_final_state_reachable fuel st H) as [evs ->].
    apply body_runs_at_most_once. intros b Hb. unfold main_attrs.
    apply main_attrs_have_builtins; auto.
  Qed.

  Corollary program_globals_isolated fuel st :
    final_state prog cm B fm fuel core = Some st -> dead st = None -> active st = top_mod st.
  Proof.
    intros H. destruct (mech_final_state_reachable fuel st H) as [evs ->].
    apply globals_isolated. intros b Hb. unfold main_attrs. apply main_attrs_have_builtins; auto.
  Qed.
End MechReach.

Print Assumptions mech_final_state_reachable.
Print Assumptions program_body_runs_at_most_once.
