(* C14, round 9: an import does not depend on the HISTORY of the run.
   Modules.step consults, for `EStartImport p`, the registry entry of p, the imported flag / frame list for that entry, the
   loader, the compiler and the running fiber's frame count - nothing else.  So in ANY state (in particular the state after any
   number of failed, refused, cached or successful imports) a path the registry does not know, that the loader delivers and the
   compiler accepts, with a frame to spare, enters its body in a NEW module object.  (A counter of "bodies in flight" that is
   not decremented when a body is unwound, a cache of failures, a capacity of the registry: none of them exists in the model;
   the translator's census `gen_import_census` ties that to the code.) *)
From Coq Require Import List String NArith Arith Bool.
From YV Require Import Modules.
Import ListNotations.

Section Scale.
  Variables SrcId Body : Type.
  Variable loader : path -> load_result SrcId.
  Variable compiler : path -> SrcId -> comp_result Body.
  Variable B : list name.
  Variable FM : nat.
  Variables CHK GRD CHAIN : bool.
  Notation stepM := (step SrcId Body loader compiler B FM CHK GRD CHAIN).

  Lemma fresh_import_enters_body_in_any_state : forall st p src body,
    dead st = None -> alookup (reg st) p = None -> loader p = LoadOk src -> compiler p src = CompOk body ->
    fiber_depth (frames st) <> FM ->
    exists st', stepM st (EStartImport p) = (st', OEntered (List.length (heap st)) body).
  Proof.
    intros st p src body Hd Hr Hl Hc Hf.
    unfold step, start_import, load_and_run. rewrite Hd, Hr, Hl, Hc.
    unfold get_or_create. cbn [reg log_load]. rewrite Hr.
    unfold call_closure. cbn [frames heap log_load].
    apply Nat.eqb_neq in Hf. rewrite Hf. eexists. reflexivity.
  Qed.
End Scale.
