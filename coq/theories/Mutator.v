(* Mutator.v -- a register-machine mutator over the heap, run under a collection schedule.
   Definitions only.

   Registers are the only movable roots: at a collection, the root count of a box is the number of
   registers holding its address plus the number of times it was pinned (the exactness of
   `num_roots` against live handles is the subject of Roots.v).  Addresses come from a monotone
   counter, so they do not depend on the schedule.  Touching a freed box is the explicit event
   [EUseAfterFree]; a collection that does not finish is [EDiverged] and ends the run. *)
From Coq Require Import List NArith Bool Arith.
From YV Require Import Heap Collect.
Import ListNotations.

Inductive mop : Type :=
| MAlloc (k : kind) (size : N) (dst : nat)          (* allocate; Root it in register dst *)
| MLoad (reg : nat) (r : role) (idx : nat) (dst : nat)  (* dst := idx-th r-field of *reg (Root::from(gc)) *)
| MStore (reg : nat) (r : role) (src : nat)         (* add edge r -> *src to *reg; src empty: clear r-fields *)
| MDropRoot (reg : nat)                             (* drop the Root in reg *)
| MObserve (reg : nat) (depth : nat)                (* print the shape reachable from reg *)
| MPin (reg : nat).                                 (* give *reg a permanent root (class store, string store, ...) *)

Inductive shape : Type :=
| SFreed                                            (* the box is gone *)
| SCut                                              (* depth exhausted *)
| SNode (a : addr) (k : kind) (size : N) (children : list (role * shape)).

Inductive event : Type :=
| EObs (s : shape)
| EUseAfterFree
| EDiverged.

Record mstate : Type := mkM {
  mheap : heap;                  (* oroots fields are not used here; see [rooted_heap] *)
  mregs : list (option addr);
  mnext : N;                     (* allocation counter *)
  mperm : list addr;             (* pinned boxes *)
  mout  : list event             (* newest first *)
}.

Definition m_init (nregs : nat) : mstate := mkM [] (repeat None nregs) 0%N [] [].

Definition reg_get (rs : list (option addr)) (i : nat) : option addr :=
  match nth_error rs i with Some v => v | None => None end.

Fixpoint reg_set (rs : list (option addr)) (i : nat) (v : option addr) : list (option addr) :=
  match rs, i with
  | [], _ => []
  | _ :: r, O => v :: r
  | x :: r, S j => x :: reg_set r j v
  end.

Definition holds_addr (a : addr) (v : option addr) : bool :=
  match v with Some b => N.eqb b a | None => false end.

Definition count_regs (rs : list (option addr)) (a : addr) : nat := length (filter (holds_addr a) rs).
Definition count_perm (l : list addr) (a : addr) : nat := length (filter (N.eqb a) l).

Definition with_roots (n : nat) (o : obj) : obj := mkObj (okind o) n (oedges o) (osize o).

(* the heap as the collector sees it *)
Definition rooted_heap (s : mstate) : heap :=
  map (fun p => (fst p, with_roots (count_regs (mregs s) (fst p) + count_perm (mperm s) (fst p)) (snd p)))
      (mheap s).

Definition emit (e : event) (s : mstate) : mstate :=
  mkM (mheap s) (mregs s) (mnext s) (mperm s) (e :: mout s).
Definition set_heap (h : heap) (s : mstate) : mstate := mkM h (mregs s) (mnext s) (mperm s) (mout s).
Definition set_regs (rs : list (option addr)) (s : mstate) : mstate :=
  mkM (mheap s) rs (mnext s) (mperm s) (mout s).
Definition set_perm (l : list addr) (s : mstate) : mstate :=
  mkM (mheap s) (mregs s) (mnext s) l (mout s).

Fixpoint observe (d : nat) (h : heap) (a : addr) : shape :=
  match lookup h a with
  | None => SFreed
  | Some o =>
      match d with
      | O => SCut
      | S d' => SNode a (okind o) (osize o) (map (fun e => (fst e, observe d' h (snd e))) (oedges o))
      end
  end.

(* does that observation touch a freed box? *)
Fixpoint obs_uaf (d : nat) (h : heap) (a : addr) : bool :=
  match lookup h a with
  | None => true
  | Some o =>
      match d with
      | O => false
      | S d' => existsb (fun e => obs_uaf d' h (snd e)) (oedges o)
      end
  end.

Section Mutator.
  Variables marks bb bm : kind -> role -> bool.      (* the collector's tables *)
  Variable holds : kind -> list role.                (* what a struct can hold *)
  Variable pinned : kind -> role -> bool.            (* untraced fields that only ever point to pinned boxes *)

  (* The type system lets a field hold what [holds] says.  A pinned field is only ever given a
     pinned box (that is what "pinned" claims); any other field takes any box. *)
  Definition store_ok (k : kind) (r : role) (t : addr) (perm : list addr) : bool :=
    marks k r || (if pinned k r then mem_addr t perm else true).

  Definition do_op (op : mop) (s : mstate) : mstate :=
    match op with
    | MAlloc _ _ _ => s   (* handled by [run_prog] *)
    | MLoad reg r idx dst =>
        match reg_get (mregs s) reg with
        | None => s
        | Some a =>
            match lookup (mheap s) a with
            | None => emit EUseAfterFree s
            | Some o =>
                match nth_error (filter (fun e => role_eqb (fst e) r) (oedges o)) idx with
                | None => s
                | Some e =>
                    if in_heapb (mheap s) (snd e)
                    then set_regs (reg_set (mregs s) dst (Some (snd e))) s
                    else emit EUseAfterFree s
                end
            end
        end
    | MStore reg r src =>
        match reg_get (mregs s) reg with
        | None => s
        | Some a =>
            match lookup (mheap s) a with
            | None => emit EUseAfterFree s
            | Some o =>
                if role_mem r (holds (okind o)) then
                  match reg_get (mregs s) src with
                  | None =>
                      set_heap (update (mheap s) a
                                  (set_edges (filter (fun e => negb (role_eqb (fst e) r)) (oedges o)))) s
                  | Some t =>
                      if store_ok (okind o) r t (mperm s)
                      then set_heap (update (mheap s) a (set_edges (oedges o ++ [(r, t)]))) s
                      else s
                  end
                else s
            end
        end
    | MDropRoot reg => set_regs (reg_set (mregs s) reg None) s
    | MObserve reg d =>
        match reg_get (mregs s) reg with
        | None => s
        | Some a =>
            let s1 := emit (EObs (observe d (mheap s) a)) s in
            if obs_uaf d (mheap s) a then emit EUseAfterFree s1 else s1
        end
    | MPin reg =>
        match reg_get (mregs s) reg with
        | None => s
        | Some a => if in_heapb (mheap s) a then set_perm (a :: mperm s) s else emit EUseAfterFree s
        end
    end.

  (* Heap::collect on the mutator's heap: keep the boxes the collector keeps *)
  Definition gc (s : mstate) : option mstate :=
    match collect_opt marks bb bm (rooted_heap s) with
    | None => None
    | Some h' => Some (set_heap (filter (fun p => in_heapb h' (fst p)) (mheap s)) s)
    end.

  (* allocate_raw after the (optional) collection *)
  Definition do_alloc (k : kind) (size : N) (dst : nat) (s : mstate) : mstate :=
    let n := mnext s in
    mkM (mheap s ++ [(n, mkObj k 0 [] size)]) (reg_set (mregs s) dst (Some n)) (N.succ n) (mperm s) (mout s).

  (* [sched]: collect before the i-th allocation?  (exhausted schedule = no more collections) *)
  Fixpoint run_prog (sched : list bool) (p : list mop) (s : mstate) : mstate :=
    match p with
    | [] => s
    | MAlloc k size dst :: rest =>
        let c := match sched with b :: _ => b | [] => false end in
        let sched' := match sched with _ :: t => t | [] => [] end in
        if c then
          match gc s with
          | None => emit EDiverged s                      (* the collector never returns *)
          | Some s1 => run_prog sched' rest (do_alloc k size dst s1)
          end
        else run_prog sched' rest (do_alloc k size dst s)
    | op :: rest => run_prog sched rest (do_op op s)
    end.

  Definition run (nregs : nat) (sched : list bool) (p : list mop) : list event :=
    rev (mout (run_prog sched p (m_init nregs))).
End Mutator.

Definition has_uaf (t : list event) : bool :=
  existsb (fun e => match e with EUseAfterFree => true | _ => false end) t.
Definition has_diverged (t : list event) : bool :=
  existsb (fun e => match e with EDiverged => true | _ => false end) t.
