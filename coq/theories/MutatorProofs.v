(* MutatorProofs.v -- C01: what a program observes does not depend on when the collector runs,
   provided every field a box can hold is traced or pinned and the collector terminates;
   refuted for today's tables. *)
From Coq Require Import List NArith Bool Arith Lia.
From YV Require Import Heap HeapTablesRef Collect CollectProofs Mutator.
Import ListNotations.
Open Scope list_scope.

(* ------------------------------------------------------------------ *)
(* registers, counts, heap updates                                     *)

Lemma reg_get_nil i : reg_get [] i = None.
Proof. unfold reg_get. now destruct i. Qed.

Lemma reg_get_set_inv : forall rs i v j a,
  reg_get (reg_set rs i v) j = Some a -> v = Some a \/ reg_get rs j = Some a.
Proof.
  induction rs as [|x rs IH]; intros i v j a H.
  - simpl in H. rewrite reg_get_nil in H. discriminate.
  - destruct i as [|i]; destruct j as [|j]; simpl in H; unfold reg_get in *; simpl in *; auto.
    apply (IH i v j a). exact H.
Qed.

Lemma reg_get_repeat n i : reg_get (repeat None n) i = None.
Proof.
  unfold reg_get. revert i. induction n as [|n IH]; intros [|i]; simpl; auto.
Qed.

Lemma count_regs_pos rs a : 0 < count_regs rs a <-> exists i, reg_get rs i = Some a.
Proof.
  unfold count_regs. induction rs as [|x rs IH]; simpl.
  - split; [lia | intros [i H]; rewrite reg_get_nil in H; discriminate].
  - destruct (holds_addr a x) eqn:Hx; simpl.
    + split; [intros _|lia]. exists 0. unfold reg_get. simpl.
      destruct x as [b|]; simpl in Hx; [|discriminate]. apply N.eqb_eq in Hx. now subst.
    + rewrite IH. split.
      * intros [i H]. exists (S i). exact H.
      * intros [[|i] H]; [|exists i; exact H].
        unfold reg_get in H. simpl in H. subst x. simpl in Hx. rewrite N.eqb_refl in Hx. discriminate.
Qed.

Lemma count_perm_pos l a : 0 < count_perm l a <-> In a l.
Proof.
  unfold count_perm. induction l as [|x l IH]; simpl; [split; [lia|contradiction]|].
  destruct (N.eqb_spec a x) as [->|Hne]; simpl.
  - split; [auto|lia].
  - rewrite IH. split; [auto | intros [E|H]; [congruence|assumption]].
Qed.

Lemma lookup_update h a f b :
  lookup (update h a f) b = if N.eqb a b then option_map f (lookup h a) else lookup h b.
Proof.
  induction h as [|[c o] h IH]; simpl; [now destruct (N.eqb a b)|].
  destruct (N.eqb_spec c a) as [->|Hca]; simpl.
  - destruct (N.eqb_spec a b) as [->|Hab]; [reflexivity|reflexivity].
  - rewrite IH. destruct (N.eqb_spec c b) as [->|Hcb]; destruct (N.eqb_spec a b) as [->|Hab];
      try reflexivity; congruence.
Qed.

Lemma lookup_update_keep h a f y o :
  lookup h a = Some o -> lookup h y <> None -> lookup (update h a f) y <> None.
Proof.
  intros L Hy. rewrite lookup_update. destruct (N.eqb a y); [rewrite L; discriminate | exact Hy].
Qed.

Lemma lookup_app h n o b :
  lookup (h ++ [(n, o)]) b =
  match lookup h b with Some x => Some x | None => if N.eqb n b then Some o else None end.
Proof.
  induction h as [|[c p] h IH]; simpl; [reflexivity|]. destruct (N.eqb c b); [reflexivity|exact IH].
Qed.

Lemma existsb_false {A} (f : A -> bool) l : (forall x, In x l -> f x = false) -> existsb f l = false.
Proof.
  induction l as [|x l IH]; simpl; intros H; [reflexivity|].
  rewrite (H x (or_introl eq_refl)). simpl. apply IH. intros y Hy. apply H. now right.
Qed.

(* ------------------------------------------------------------------ *)

Definition cnt (s : mstate) (a : addr) : nat := count_regs (mregs s) a + count_perm (mperm s) a.

Lemma lookup_rooted s a :
  lookup (rooted_heap s) a = option_map (with_roots (cnt s a)) (lookup (mheap s) a).
Proof.
  unfold rooted_heap, cnt. induction (mheap s) as [|[b o] h IH]; simpl; [reflexivity|].
  destruct (N.eqb_spec b a) as [->|Hne]; [reflexivity | exact IH].
Qed.

Definition is_root (s : mstate) (a : addr) : Prop :=
  (exists i, reg_get (mregs s) i = Some a) \/ In a (mperm s).

Lemma cnt_pos s a : 0 < cnt s a <-> is_root s a.
Proof.
  unfold cnt, is_root. rewrite <- count_regs_pos, <- count_perm_pos. lia.
Qed.

Lemma rooted_with_roots n o : rooted (with_roots n o) = true <-> 0 < n.
Proof.
  unfold rooted, with_roots. simpl. destruct n; simpl; split; try lia; try discriminate; auto.
Qed.

(* reachability through every edge, from registers and pins *)
Definition Reach (s : mstate) (a : addr) : Prop := reach all_traced (rooted_heap s) a.

Lemma in_rooted s a : in_heapb (rooted_heap s) a = true <-> lookup (mheap s) a <> None.
Proof.
  unfold in_heapb. rewrite lookup_rooted. destruct (lookup (mheap s) a); simpl; split; congruence.
Qed.

Lemma Reach_root s a o : lookup (mheap s) a = Some o -> is_root s a -> Reach s a.
Proof.
  intros L R. eapply reach_root.
  - rewrite lookup_rooted, L. reflexivity.
  - apply rooted_with_roots. now apply cnt_pos.
Qed.

Lemma Reach_edge s a o r t :
  Reach s a -> lookup (mheap s) a = Some o -> In (r, t) (oedges o) ->
  lookup (mheap s) t <> None -> Reach s t.
Proof.
  intros Ha L Hin Ht. eapply reach_edge; [exact Ha | | | reflexivity | now apply in_rooted].
  - rewrite lookup_rooted, L. reflexivity.
  - exact Hin.
Qed.

Lemma Reach_in_heap s a : Reach s a -> lookup (mheap s) a <> None.
Proof. intros H. apply in_rooted. eapply reach_in_heap; eauto. Qed.

Lemma Reach_sub s (X : addr -> Prop) :
  (forall a o, lookup (mheap s) a = Some o -> is_root s a -> X a) ->
  (forall a o r t, X a -> lookup (mheap s) a = Some o -> In (r, t) (oedges o) ->
                   lookup (mheap s) t <> None -> X t) ->
  forall a, Reach s a -> X a.
Proof.
  intros Hr He a Ha. induction Ha as [a o L R | a o r t Ha IH L Hin _ Ht].
  - rewrite lookup_rooted in L. destruct (lookup (mheap s) a) as [o0|] eqn:L0; [|discriminate].
    simpl in L. inversion L; subst. apply (Hr a o0 L0). apply cnt_pos. now apply rooted_with_roots in R.
  - rewrite lookup_rooted in L. destruct (lookup (mheap s) a) as [o0|] eqn:L0; [|discriminate].
    simpl in L. inversion L; subst. simpl in Hin. apply (He a o0 r t IH L0 Hin). now apply in_rooted.
Qed.

(* ------------------------------------------------------------------ *)

Section MutatorProofs.
  Variables marks bb bm : kind -> role -> bool.
  Variable holds : kind -> list role.
  Variable pinned : kind -> role -> bool.

  Hypothesis cover : tables_cover holds marks pinned = true.
  Hypothesis noregrey : no_regrey bm = true.

  Notation do_op := (do_op marks holds pinned).
  Notation gc := (gc marks bb bm).
  Notation run_prog := (run_prog marks bb bm holds pinned).
  Notation run := (run marks bb bm holds pinned).

  Record Inv (s : mstate) : Prop := {
    W2 : forall a o, lookup (mheap s) a = Some o -> (a < mnext s)%N;
    W3 : forall i a, reg_get (mregs s) i = Some a -> lookup (mheap s) a <> None;
    W5 : forall a o r t, lookup (mheap s) a = Some o -> In (r, t) (oedges o) ->
                         marks (okind o) r = true \/ In t (mperm s);
    W6 : forall t, In t (mperm s) -> lookup (mheap s) t <> None;
    W7 : forall a o r t, lookup (mheap s) a = Some o -> In (r, t) (oedges o) ->
                         lookup (mheap s) t <> None;
    W8 : ~ In EUseAfterFree (mout s) /\ ~ In EDiverged (mout s)
  }.

  Definition sub (h1 h2 : heap) : Prop := forall a o, lookup h1 a = Some o -> lookup h2 a = Some o.

  Record Rel (s t : mstate) : Prop := {
    R_regs : mregs s = mregs t;
    R_next : mnext s = mnext t;
    R_perm : mperm s = mperm t;
    R_out : mout s = mout t;
    R_sub : sub (mheap s) (mheap t);
    R_agree : forall a, Reach t a -> lookup (mheap s) a = lookup (mheap t) a
  }.

  Lemma reg_Reach t i a : Inv t -> reg_get (mregs t) i = Some a -> Reach t a.
  Proof.
    intros Hi Hr. pose proof (W3 t Hi i a Hr) as Hl.
    destruct (lookup (mheap t) a) as [o|] eqn:L; [|congruence].
    eapply Reach_root; eauto. left. eauto.
  Qed.

  Lemma agree_update (h1 h2 : heap) a f b :
    lookup h1 b = lookup h2 b -> lookup (update h1 a f) b = lookup (update h2 a f) b.
  Proof.
    intros H. rewrite !lookup_update. destruct (N.eqb_spec a b) as [->|Hne]; [now rewrite H | exact H].
  Qed.

  Lemma sub_update h1 h2 a f : sub h1 h2 -> sub (update h1 a f) (update h2 a f).
  Proof.
    intros Hs b o. rewrite !lookup_update. destruct (N.eqb a b); [|apply Hs].
    destruct (lookup h1 a) as [o0|] eqn:L; [|discriminate]. simpl. intros E.
    rewrite (Hs a o0 L). exact E.
  Qed.

  (* ---- observations agree on reachable boxes and touch nothing freed ---- *)
  Lemma observe_agree s t : Inv t -> Rel s t ->
    forall d a, Reach t a ->
      observe d (mheap s) a = observe d (mheap t) a /\
      obs_uaf d (mheap s) a = false /\ obs_uaf d (mheap t) a = false.
  Proof.
    intros Hi Hr. induction d as [|d IH]; intros a Ha.
    - simpl. rewrite (R_agree s t Hr a Ha).
      pose proof (Reach_in_heap t a Ha). destruct (lookup (mheap t) a); [auto|congruence].
    - simpl. rewrite (R_agree s t Hr a Ha).
      pose proof (Reach_in_heap t a Ha) as Hl. destruct (lookup (mheap t) a) as [o|] eqn:L; [|congruence].
      assert (Hch : forall e, In e (oedges o) -> Reach t (snd e)).
      { intros [r x] He. simpl. eapply Reach_edge; eauto. eapply (W7 t Hi); eauto. }
      split; [|split].
      + f_equal. apply map_ext_in. intros e He. f_equal. apply IH. auto.
      + apply existsb_false. intros e He. apply IH. auto.
      + apply existsb_false. intros e He. apply IH. auto.
  Qed.

  (* ---- one non-allocating operation on the reference (never collected) run ---- *)

  Lemma holds_cover k r : role_mem r (holds k) = true -> marks k r = true \/ pinned k r = true.
  Proof.
    intros H. unfold role_mem in H. apply existsb_exists in H. destruct H as [r' [Hin E]].
    unfold role_eqb in E. apply N.eqb_eq in E.
    assert (r = r') by (destruct r, r'; simpl in E; try reflexivity; discriminate). subst r'.
    eapply holds_covered; eauto.
  Qed.

  Lemma nth_error_filter_In {A} (p : A -> bool) l i x : nth_error (filter p l) i = Some x -> In x l.
  Proof. intros H. apply nth_error_In in H. apply filter_In in H. tauto. Qed.

  Lemma do_op_Inv op t : Inv t -> Inv (do_op op t).
  Proof.
    intros Hi. destruct op as [k size dst|reg r idx dst|reg r src|reg|reg d|reg]; simpl; try exact Hi.
    - (* MLoad *)
      destruct (reg_get (mregs t) reg) as [a|] eqn:Hreg; [|exact Hi].
      pose proof (W3 t Hi reg a Hreg) as Hl.
      destruct (lookup (mheap t) a) as [o|] eqn:L; [|congruence].
      destruct (nth_error _ idx) as [[r' x]|] eqn:Hn; [|exact Hi].
      apply nth_error_filter_In in Hn. simpl.
      pose proof (W7 t Hi a o r' x L Hn) as Hx.
      assert (Hin : in_heapb (mheap t) x = true) by (now apply in_heapb_true). rewrite Hin.
      destruct Hi as [H2 H3 H5 H6 H7 H8]. constructor; simpl; auto.
      intros i b Hb. apply reg_get_set_inv in Hb. destruct Hb as [E|Hb]; [inversion E; subst; assumption | eauto].
    - (* MStore *)
      destruct (reg_get (mregs t) reg) as [a|] eqn:Hreg; [|exact Hi].
      pose proof (W3 t Hi reg a Hreg) as Hl.
      destruct (lookup (mheap t) a) as [o|] eqn:L; [|congruence].
      destruct (role_mem r (holds (okind o))) eqn:Hh; [|exact Hi].
      destruct (reg_get (mregs t) src) as [x|] eqn:Hsrc.
      + destruct (store_ok marks pinned (okind o) r x (mperm t)) eqn:Hok; [|exact Hi].
        assert (Hedge : marks (okind o) r = true \/ In x (mperm t)).
        { unfold store_ok in Hok. destruct (marks (okind o) r) eqn:M; [now left|]. simpl in Hok.
          destruct (holds_cover _ _ Hh) as [M'|P]; [congruence|]. rewrite P in Hok.
          right. now apply mem_addr_In. }
        pose proof (W3 t Hi src x Hsrc) as Hx.
        destruct Hi as [H2 H3 H5 H6 H7 H8]. constructor; simpl; auto.
        * intros b ob. rewrite lookup_update. destruct (N.eqb_spec a b) as [->|Hne]; [|apply H2].
          rewrite L. simpl. intros _. eapply H2; eauto.
        * intros i b Hb. rewrite lookup_update. destruct (N.eqb_spec a b) as [->|Hne]; [|eauto].
          rewrite L. discriminate.
        * intros b ob r0 t0. rewrite lookup_update. destruct (N.eqb_spec a b) as [->|Hne]; [|apply H5].
          rewrite L. simpl. intros E; inversion E; subst. simpl. intros Hin. apply in_app_or in Hin.
          destruct Hin as [Hin|[E2|[]]]; [eapply H5; eauto | inversion E2; subst; exact Hedge].
        * intros t0 Ht0. rewrite lookup_update. destruct (N.eqb_spec a t0) as [->|Hne]; [|auto].
          rewrite L. discriminate.
        * intros b ob r0 t0 Lb Hin. eapply lookup_update_keep; [exact L|].
          rewrite lookup_update in Lb. destruct (N.eqb_spec a b) as [->|Hne].
          -- rewrite L in Lb. simpl in Lb. inversion Lb; subst. simpl in Hin. apply in_app_or in Hin.
             destruct Hin as [Hin|[E2|[]]]; [eapply H7; eauto | inversion E2; subst; exact Hx].
          -- eapply H7; eauto.
      + destruct Hi as [H2 H3 H5 H6 H7 H8]. constructor; simpl; auto.
        * intros b ob. rewrite lookup_update. destruct (N.eqb_spec a b) as [->|Hne]; [|apply H2].
          rewrite L. simpl. intros _. eapply H2; eauto.
        * intros i b Hb. rewrite lookup_update. destruct (N.eqb_spec a b) as [->|Hne]; [|eauto].
          rewrite L. discriminate.
        * intros b ob r0 t0. rewrite lookup_update. destruct (N.eqb_spec a b) as [->|Hne]; [|apply H5].
          rewrite L. simpl. intros E; inversion E; subst. simpl. intros Hin. apply filter_In in Hin.
          destruct Hin as [Hin _]. eapply H5; eauto.
        * intros t0 Ht0. rewrite lookup_update. destruct (N.eqb_spec a t0) as [->|Hne]; [|auto].
          rewrite L. discriminate.
        * intros b ob r0 t0 Lb Hin. eapply lookup_update_keep; [exact L|].
          rewrite lookup_update in Lb. destruct (N.eqb_spec a b) as [->|Hne].
          -- rewrite L in Lb. simpl in Lb. inversion Lb; subst. simpl in Hin. apply filter_In in Hin.
             destruct Hin as [Hin _]. eapply H7; eauto.
          -- eapply H7; eauto.
    - (* MDropRoot *)
      destruct Hi as [H2 H3 H5 H6 H7 H8]. constructor; simpl; auto.
      intros i b Hb. apply reg_get_set_inv in Hb. destruct Hb as [E|Hb]; [discriminate | eauto].
    - (* MObserve *)
      destruct (reg_get (mregs t) reg) as [a|] eqn:Hreg; [|exact Hi].
      assert (Hr : Rel t t) by (constructor; auto; intros ? ? ?; assumption).
      destruct (observe_agree t t Hi Hr d a (reg_Reach t reg a Hi Hreg)) as (_ & _ & Hu).
      rewrite Hu. destruct Hi as [H2 H3 H5 H6 H7 [H8 H9]]. constructor; simpl; auto.
      split; intros [E|Hin]; try discriminate; auto.
    - (* MPin *)
      destruct (reg_get (mregs t) reg) as [a|] eqn:Hreg; [|exact Hi].
      pose proof (W3 t Hi reg a Hreg) as Hl.
      assert (Hin : in_heapb (mheap t) a = true) by (now apply in_heapb_true). rewrite Hin.
      destruct Hi as [H2 H3 H5 H6 H7 H8]. constructor; simpl; auto.
      + intros b ob r0 t0 Lb Hin0. destruct (H5 b ob r0 t0 Lb Hin0); auto.
      + intros t0 [<-|Ht0]; auto.
  Qed.

  (* nothing becomes reachable that was not *)
  Lemma do_op_Reach op t : Inv t -> forall a, Reach (do_op op t) a -> Reach t a.
  Proof.
    intros Hi. destruct op as [k size dst|reg r idx dst|reg r src|reg|reg d|reg]; simpl; try (intros; assumption).
    - (* MLoad *)
      destruct (reg_get (mregs t) reg) as [a|] eqn:Hreg; [|auto].
      pose proof (W3 t Hi reg a Hreg) as Hl.
      destruct (lookup (mheap t) a) as [o|] eqn:L; [|congruence].
      destruct (nth_error _ idx) as [[r' x]|] eqn:Hn; [|auto].
      apply nth_error_filter_In in Hn. simpl.
      pose proof (W7 t Hi a o r' x L Hn) as Hx.
      assert (Hin : in_heapb (mheap t) x = true) by (now apply in_heapb_true). rewrite Hin.
      assert (Rx : Reach t x) by (eapply Reach_edge; eauto; eapply reg_Reach; eauto).
      apply Reach_sub; simpl.
      + intros b ob Lb [[i Hb]|Hp].
        * apply reg_get_set_inv in Hb. destruct Hb as [E|Hb]; [inversion E; subst; exact Rx|].
          eapply reg_Reach; eauto.
        * eapply Reach_root; eauto. now right.
      + intros b ob r0 t0 Xb Lb Hin0 Ht0. eapply Reach_edge; eauto.
    - (* MStore *)
      destruct (reg_get (mregs t) reg) as [a|] eqn:Hreg; [|auto].
      pose proof (W3 t Hi reg a Hreg) as Hl.
      destruct (lookup (mheap t) a) as [o|] eqn:L; [|congruence].
      destruct (role_mem r (holds (okind o))); [|auto].
      assert (Hlk : forall f y, lookup (update (mheap t) a f) y <> None -> lookup (mheap t) y <> None).
      { intros f y. rewrite lookup_update. destruct (N.eqb_spec a y) as [->|Hne]; [rewrite L; discriminate|auto]. }
      assert (Hroot : forall f b ob, lookup (update (mheap t) a f) b = Some ob ->
                        is_root t b -> Reach t b).
      { intros f b ob Lb Rb. assert (lookup (mheap t) b <> None) by (eapply Hlk; rewrite Lb; discriminate).
        destruct (lookup (mheap t) b) eqn:Lb'; [|congruence]. eapply Reach_root; eauto. }
      destruct (reg_get (mregs t) src) as [x|] eqn:Hsrc.
      + destruct (store_ok marks pinned (okind o) r x (mperm t)); [|auto].
        apply Reach_sub; simpl.
        * intros b ob Lb Rb. eapply Hroot; eauto.
        * intros b ob r0 t0 Xb. rewrite lookup_update. destruct (N.eqb_spec a b) as [->|Hne].
          -- rewrite L. simpl. intros E; inversion E; subst. simpl. intros Hin Ht0.
             apply in_app_or in Hin. destruct Hin as [Hin|[E2|[]]].
             ++ eapply Reach_edge; eauto.
             ++ inversion E2; subst. eapply reg_Reach; eauto.
          -- intros Lb Hin Ht0. eapply Reach_edge; eauto.
      + apply Reach_sub; simpl.
        * intros b ob Lb Rb. eapply Hroot; eauto.
        * intros b ob r0 t0 Xb. rewrite lookup_update. destruct (N.eqb_spec a b) as [->|Hne].
          -- rewrite L. simpl. intros E; inversion E; subst. simpl. intros Hin Ht0.
             apply filter_In in Hin. destruct Hin as [Hin _]. eapply Reach_edge; eauto.
          -- intros Lb Hin Ht0. eapply Reach_edge; eauto.
    - (* MDropRoot *)
      apply Reach_sub; simpl.
      + intros b ob Lb [[i Hb]|Hp].
        * apply reg_get_set_inv in Hb. destruct Hb as [E|Hb]; [discriminate|]. eapply reg_Reach; eauto.
        * eapply Reach_root; eauto. now right.
      + intros b ob r0 t0 Xb Lb Hin0 Ht0. eapply Reach_edge; eauto.
    - (* MObserve *)
      destruct (reg_get (mregs t) reg) as [a|]; [|auto].
      destruct (obs_uaf d (mheap t) a); intros; assumption.
    - (* MPin *)
      destruct (reg_get (mregs t) reg) as [a|] eqn:Hreg; [|auto].
      destruct (in_heapb (mheap t) a); [|intros; assumption].
      apply Reach_sub; simpl.
      + intros b ob Lb [[i Hb]|[<-|Hp]].
        * eapply reg_Reach; eauto.
        * eapply reg_Reach; eauto.
        * eapply Reach_root; eauto. now right.
      + intros b ob r0 t0 Xb Lb Hin0 Ht0. eapply Reach_edge; eauto.
  Qed.

  (* the scheduled run does the same thing *)
  Lemma do_op_Rel op s t : Inv t -> Rel s t -> Rel (do_op op s) (do_op op t).
  Proof.
    intros Hi Hr.
    assert (Hreach := do_op_Reach op t Hi).
    destruct Hr as [Eregs Enext Eperm Eout Hsub Hag].
    assert (Hr : Rel s t) by (constructor; assumption).
    destruct op as [k size dst|reg r idx dst|reg r src|reg|reg d|reg]; simpl in *; try exact Hr; rewrite Eregs.
    - (* MLoad *)
      destruct (reg_get (mregs t) reg) as [a|] eqn:Hreg; [|exact Hr].
      pose proof (reg_Reach t reg a Hi Hreg) as Ra. rewrite (Hag a Ra).
      pose proof (W3 t Hi reg a Hreg) as Hl.
      destruct (lookup (mheap t) a) as [o|] eqn:L; [|congruence].
      destruct (nth_error _ idx) as [[r' x]|] eqn:Hn; [|exact Hr].
      pose proof (nth_error_filter_In _ _ _ _ Hn) as Hin. simpl in *.
      pose proof (W7 t Hi a o r' x L Hin) as Hx.
      assert (Rx : Reach t x) by (eapply Reach_edge; eauto).
      assert (Hin1 : in_heapb (mheap t) x = true) by (now apply in_heapb_true).
      assert (Hin2 : in_heapb (mheap s) x = true) by (apply in_heapb_true; rewrite (Hag x Rx); exact Hx).
      rewrite Hin1, Hin2 in *. constructor; simpl; auto; congruence.
    - (* MStore *)
      destruct (reg_get (mregs t) reg) as [a|] eqn:Hreg; [|exact Hr].
      pose proof (reg_Reach t reg a Hi Hreg) as Ra. rewrite (Hag a Ra).
      pose proof (W3 t Hi reg a Hreg) as Hl.
      destruct (lookup (mheap t) a) as [o|] eqn:L; [|congruence].
      destruct (role_mem r (holds (okind o))); [|exact Hr].
      destruct (reg_get (mregs t) src) as [x|] eqn:Hsrc.
      + rewrite Eperm. destruct (store_ok marks pinned (okind o) r x (mperm t)); [|exact Hr].
        simpl in *. constructor; simpl; auto.
        * now apply sub_update.
        * intros b Rb. apply agree_update. auto.
      + simpl in *. constructor; simpl; auto.
        * now apply sub_update.
        * intros b Rb. apply agree_update. auto.
    - (* MDropRoot *)
      constructor; simpl; auto.
    - (* MObserve *)
      destruct (reg_get (mregs t) reg) as [a|] eqn:Hreg; [|exact Hr].
      destruct (observe_agree s t Hi Hr d a (reg_Reach t reg a Hi Hreg)) as (Eo & Hu1 & Hu2).
      rewrite Hu1, Hu2, Eo. constructor; simpl; auto; congruence.
    - (* MPin *)
      destruct (reg_get (mregs t) reg) as [a|] eqn:Hreg; [|exact Hr].
      pose proof (reg_Reach t reg a Hi Hreg) as Ra.
      pose proof (W3 t Hi reg a Hreg) as Hl.
      assert (Hin1 : in_heapb (mheap t) a = true) by (now apply in_heapb_true).
      assert (Hin2 : in_heapb (mheap s) a = true) by (apply in_heapb_true; rewrite (Hag a Ra); exact Hl).
      rewrite Hin1, Hin2 in *. constructor; simpl; auto; congruence.
  Qed.

  (* ---- a collection in the scheduled run ---- *)
  Lemma rooted_heap_eq_roots s t a : mregs s = mregs t -> mperm s = mperm t -> cnt s a = cnt t a.
  Proof. intros E1 E2. unfold cnt. now rewrite E1, E2. Qed.

  Lemma gc_Rel s t : Inv t -> Rel s t -> exists s1, gc s = Some s1 /\ Rel s1 t.
  Proof.
    intros Hi Hr. unfold Mutator.gc.
    destruct (collect_opt marks bb bm (rooted_heap s)) as [h'|] eqn:Ec;
      [|exfalso; eapply collect_terminates; eauto].
    eexists. split; [reflexivity|].
    (* everything reachable in the reference run is mark-reachable in the scheduled heap *)
    assert (Hm : forall a, Reach t a -> Reach t a /\ reach_marks marks (rooted_heap s) a).
    { apply Reach_sub.
      - intros a o L Ra. pose proof (Reach_root t a o L Ra) as Rt. split; [exact Rt|].
        eapply reach_root.
        + rewrite lookup_rooted. rewrite (R_agree s t Hr a Rt), L. reflexivity.
        + apply rooted_with_roots. rewrite (rooted_heap_eq_roots s t a (R_regs s t Hr) (R_perm s t Hr)).
          now apply cnt_pos.
      - intros a o r x [Rt Rm] L Hin Hx.
        assert (Rx : Reach t x) by (eapply Reach_edge; eauto). split; [exact Rx|].
        destruct (lookup (mheap t) x) as [ox|] eqn:Lx; [|congruence].
        destruct (W5 t Hi a o r x L Hin) as [M|Hp].
        + eapply reach_edge;
            [exact Rm | rewrite lookup_rooted, (R_agree s t Hr a Rt), L; reflexivity | exact Hin | exact M | ].
          apply in_rooted. rewrite (R_agree s t Hr x Rx), Lx. discriminate.
        + eapply reach_root.
          * rewrite lookup_rooted. rewrite (R_agree s t Hr x Rx), Lx. reflexivity.
          * apply rooted_with_roots. rewrite (rooted_heap_eq_roots s t x (R_regs s t Hr) (R_perm s t Hr)).
            apply cnt_pos. now right. }
    destruct Hr as [Eregs Enext Eperm Eout Hsub Hag]. constructor; simpl; auto.
    - intros a o. rewrite (lookup_filter (fun b => in_heapb h' b)).
      destruct (in_heapb h' a); [apply Hsub | discriminate].
    - intros a Ra. rewrite (lookup_filter (fun b => in_heapb h' b)).
      destruct (Hm a Ra) as [_ Rm].
      pose proof (collect_retains_reach marks bb bm _ _ _ Ec Rm) as Hk.
      assert (in_heapb h' a = true).
      { unfold in_heapb. rewrite Hk. apply reach_in_heap in Rm. unfold in_heapb in Rm. exact Rm. }
      rewrite H. auto.
  Qed.

  (* ---- allocation ---- *)
  Lemma do_alloc_Inv k size dst t : Inv t -> Inv (do_alloc k size dst t).
  Proof.
    intros [H2 H3 H5 H6 H7 H8]. unfold do_alloc. constructor; simpl; auto.
    - intros a o. rewrite lookup_app. destruct (lookup (mheap t) a) as [x|] eqn:L.
      + intros _. specialize (H2 a x L). lia.
      + destruct (N.eqb_spec (mnext t) a) as [<-|]; [intros _; lia | discriminate].
    - intros i a Ha. rewrite lookup_app. apply reg_get_set_inv in Ha. destruct Ha as [E|Ha].
      + inversion E; subst. destruct (lookup (mheap t) (mnext t)); [discriminate|]. rewrite N.eqb_refl. discriminate.
      + specialize (H3 i a Ha). destruct (lookup (mheap t) a); [discriminate|congruence].
    - intros a o r x. rewrite lookup_app. destruct (lookup (mheap t) a) as [y|] eqn:L.
      + intros E; inversion E; subst. eapply H5; eauto.
      + destruct (N.eqb (mnext t) a); [|discriminate]. intros E; inversion E; subst. simpl. contradiction.
    - intros x Hx. rewrite lookup_app. specialize (H6 x Hx). destruct (lookup (mheap t) x); [discriminate|congruence].
    - intros a o r x. rewrite !lookup_app. destruct (lookup (mheap t) a) as [y|] eqn:L.
      + intros E; inversion E; subst. intros Hin. specialize (H7 a o r x L Hin).
        destruct (lookup (mheap t) x); [discriminate|congruence].
      + destruct (N.eqb (mnext t) a); [|discriminate]. intros E; inversion E; subst. simpl. contradiction.
  Qed.

  Lemma do_alloc_Rel k size dst s t : Inv t -> Rel s t -> Rel (do_alloc k size dst s) (do_alloc k size dst t).
  Proof.
    intros Hi [Eregs Enext Eperm Eout Hsub Hag]. unfold do_alloc. rewrite Eregs, Enext, Eperm, Eout.
    set (n := mnext t). set (o := mkObj k 0 [] size).
    assert (Hfresh_t : lookup (mheap t) n = None).
    { destruct (lookup (mheap t) n) as [x|] eqn:L; [|reflexivity]. pose proof (W2 t Hi n x L). unfold n in *. lia. }
    assert (Hfresh_s : lookup (mheap s) n = None).
    { destruct (lookup (mheap s) n) as [x|] eqn:L; [|reflexivity]. rewrite (Hsub n x L) in Hfresh_t. discriminate. }
    constructor; simpl; auto.
    - intros a x. rewrite !lookup_app. destruct (lookup (mheap s) a) as [y|] eqn:L.
      + rewrite (Hsub a y L). auto.
      + destruct (N.eqb_spec n a) as [<-|]; [|discriminate]. rewrite Hfresh_t. auto.
    - (* reachable after the allocation = reachable before, or the new box *)
      assert (HX : forall a, Reach (mkM (mheap t ++ [(n, o)]) (reg_set (mregs t) dst (Some n)) (N.succ n)
                                        (mperm t) (mout t)) a -> Reach t a \/ a = n).
      { apply Reach_sub; simpl.
        - intros a x. rewrite lookup_app. destruct (lookup (mheap t) a) as [y|] eqn:L.
          + intros _ [[i Ha]|Hp].
            * apply reg_get_set_inv in Ha. destruct Ha as [E|Ha]; [inversion E; now right|].
              left. eapply reg_Reach; eauto.
            * left. eapply Reach_root; eauto. now right.
          + destruct (N.eqb_spec n a) as [<-|]; [now right | discriminate].
        - intros a x r y [Ra| ->].
          + rewrite !lookup_app. pose proof (Reach_in_heap t a Ra) as Hl.
            destruct (lookup (mheap t) a) as [z|] eqn:L; [|congruence].
            intros E; inversion E; subst. intros Hin _. left. eapply Reach_edge; eauto. eapply (W7 t Hi); eauto.
          + rewrite lookup_app, Hfresh_t, N.eqb_refl. intros E; inversion E; subst. simpl. contradiction. }
      intros a Ra. apply HX in Ra. rewrite !lookup_app. destruct Ra as [Ra| ->].
      + now rewrite (Hag a Ra).
      + now rewrite Hfresh_s, Hfresh_t.
  Qed.

  (* ---- whole programs ---- *)
  Lemma run_prog_sim : forall p sched s t,
    Inv t -> Rel s t ->
    mout (run_prog sched p s) = mout (run_prog [] p t) /\ Inv (run_prog [] p t).
  Proof.
    induction p as [|op p IH]; intros sched s t Hi Hr.
    - simpl. split; [apply (R_out s t Hr) | exact Hi].
    - assert (Hstep : forall op', (forall k size dst, op' <> MAlloc k size dst) ->
                mout (run_prog sched p (do_op op' s)) = mout (run_prog [] p (do_op op' t)) /\
                Inv (run_prog [] p (do_op op' t))).
      { intros op' _. apply IH; [apply (do_op_Inv _ t Hi) | apply (do_op_Rel _ s t Hi Hr)]. }
      destruct op as [k size dst|reg r idx dst|reg r src|reg|reg d|reg];
        try (apply Hstep; intros; discriminate).
      simpl. destruct sched as [|[|] sched'].
      + apply IH; [now apply do_alloc_Inv | now apply do_alloc_Rel].
      + destruct (gc_Rel s t Hi Hr) as [s1 [Eg Hr1]]. rewrite Eg.
        apply IH; [now apply do_alloc_Inv | now apply do_alloc_Rel].
      + apply IH; [now apply do_alloc_Inv | now apply do_alloc_Rel].
  Qed.

  Lemma Inv_init n : Inv (m_init n).
  Proof.
    constructor; simpl; try discriminate; try contradiction.
    - intros i a. rewrite reg_get_repeat. discriminate.
    - split; intros [].
  Qed.

  Lemma Rel_refl s : Rel s s.
  Proof. constructor; auto. intros a o H; exact H. Qed.

  (* Theorem 6 *)
  Theorem schedule_independence nregs (p : list mop) (sched1 sched2 : list bool) :
    run nregs sched1 p = run nregs sched2 p /\
    has_uaf (run nregs sched1 p) = false /\ has_diverged (run nregs sched1 p) = false.
  Proof.
    unfold Mutator.run.
    destruct (run_prog_sim p sched1 _ _ (Inv_init nregs) (Rel_refl (m_init nregs))) as [E1 Hi].
    destruct (run_prog_sim p sched2 _ _ (Inv_init nregs) (Rel_refl (m_init nregs))) as [E2 _].
    rewrite E1, E2. split; [reflexivity|].
    destruct (W8 _ Hi) as [Hu Hd].
    split; apply existsb_false; intros e He; apply in_rev in He; destruct e; try reflexivity; contradiction.
  Qed.
End MutatorProofs.

(* for the repaired tables the hypotheses hold ... *)
Corollary schedule_independence_fixed nregs p sched1 sched2 :
  let run := run marks_fixed blackens_black_fixed blackens_mark_fixed holds_ref pinned_ref in
  run nregs sched1 p = run nregs sched2 p /\ has_uaf (run nregs sched1 p) = false
  /\ has_diverged (run nregs sched1 p) = false.
Proof.
  apply schedule_independence; [apply holds_covered_fixed | apply no_regrey_fixed].
Qed.

(* ... for today's tables the statement is false, in both ways *)
Open Scope N_scope.
Notation run_ref := (run marks_ref blackens_black_ref blackens_mark_ref holds_ref pinned_ref).

(* a tuple reachable only as a map key: `var m = {}; m.insert((1,"ab"), 5);`, then an allocation *)
Definition prog_key : list mop :=
  [MAlloc KHashMap 48 0; MAlloc KTuple 40 1; MStore 0 RKey 1; MDropRoot 1;
   MAlloc KString 48 2; MLoad 0 RKey 0 3; MObserve 0 3].

Theorem schedule_dependence_refuted :
  exists p sched, run_ref 4 sched p <> run_ref 4 [] p /\ has_uaf (run_ref 4 sched p) = true
                  /\ has_uaf (run_ref 4 [] p) = false.
Proof.
  exists prog_key, [false; false; true]. split; [|split]; vm_compute; [discriminate | reflexivity | reflexivity].
Qed.

(* `var v=[]; var x=v.push; var w=[]; var y=w.push; v.push(y); w.push(x);`, then an allocation *)
Definition prog_loop : list mop :=
  [MAlloc KVec 40 0; MAlloc KBoundNative 32 1; MStore 1 RReceiver 0;
   MAlloc KVec 40 2; MAlloc KBoundNative 32 3; MStore 3 RReceiver 2;
   MStore 0 RElem 3; MStore 2 RElem 1; MAlloc KString 48 4; MObserve 1 2].

Theorem schedule_dependence_refuted_divergence :
  exists p sched, has_diverged (run_ref 5 sched p) = true /\ has_diverged (run_ref 5 [] p) = false.
Proof.
  exists prog_loop, [false; false; false; false; true]. split; vm_compute; reflexivity.
Qed.

(* superclass link and open upvalue: the same failure through the two other uncovered roles *)
Definition prog_super : list mop :=
  [MAlloc KClass 72 0; MAlloc KClass 72 1; MStore 1 RSuperclass 0; MDropRoot 0;
   MAlloc KString 48 2; MObserve 1 2].
Definition prog_upvalue : list mop :=
  [MAlloc KFiber 4096 0; MAlloc KUpvalue 32 1; MStore 1 ROpenSlot 0; MDropRoot 0;
   MAlloc KString 48 2; MObserve 1 2].

Example other_uncovered_roles :
  has_uaf (run_ref 3 [false; false; true] prog_super) = true /\
  has_uaf (run_ref 3 [false; false; true] prog_upvalue) = true /\
  has_uaf (run marks_fixed blackens_black_fixed blackens_mark_fixed holds_ref pinned_ref 3
               [false; false; true] prog_super) = false.
Proof. repeat split; vm_compute; reflexivity. Qed.

(* hypotheses of schedule_independence on a non-trivial program: the heap it builds has a cycle,
   a bound method, a pinned class and garbage; every allocation collects *)
Definition prog_ex : list mop :=
  [MAlloc KClass 72 0; MPin 0; MAlloc KInstance 40 1; MStore 1 RClass 0;
   MAlloc KVec 40 2; MStore 1 RField 2; MStore 2 RElem 1;
   MAlloc KClosure 48 3; MStore 0 RMethod 3;
   MAlloc KBoundMethod 32 4; MStore 4 RReceiver 1; MStore 4 RBoundFn 3; MStore 2 RElem 4;
   MAlloc KHashMap 48 5; MAlloc KTuple 40 6; MStore 5 RKey 6; MStore 1 RField 5;
   MDropRoot 2; MDropRoot 3; MDropRoot 4; MDropRoot 5; MDropRoot 6; MDropRoot 0;
   MAlloc KVec 40 2; MDropRoot 2; MAlloc KString 48 2; MObserve 1 4].

Example ex_schedule_independence :
  run marks_fixed blackens_black_fixed blackens_mark_fixed holds_ref pinned_ref 7 (repeat true 10) prog_ex
  = run marks_fixed blackens_black_fixed blackens_mark_fixed holds_ref pinned_ref 7 [] prog_ex
  /\ length (mheap (run_prog marks_fixed blackens_black_fixed blackens_mark_fixed holds_ref pinned_ref
                             (repeat true 10) prog_ex (m_init 7))) = 8%nat
  /\ length (mheap (run_prog marks_fixed blackens_black_fixed blackens_mark_fixed holds_ref pinned_ref
                             [] prog_ex (m_init 7))) = 9%nat.
Proof. repeat split; vm_compute; reflexivity. Qed.

Close Scope N_scope.

Print Assumptions schedule_independence.
Print Assumptions schedule_independence_fixed.
Print Assumptions schedule_dependence_refuted.
Print Assumptions schedule_dependence_refuted_divergence.
