(* C02 - Mechanism model (M) of the natives of yarel/src/core.rs at the level of argument KINDS,
   plus the kind-dependent VM sites of vm.rs that the shape verifier (Skeleton.v) cannot see.
   Definitions only; proofs are in NativesProofs.v.

   Every native is a total function
        in_fiber -> receiver kind -> argument kinds (call order) -> outcome
   whose guards are transcribed one for one from core.rs (check_num_args, try_as_* + ok_or_else
   = error, try_as_* + expect = panic, validate_hash_map_key, the fiber checks of vm.rs
   load_fiber / unload_fiber).  Every remaining expect / unwrap / unreachable / index is an explicit
   [NPanic "file:item"].  The RECEIVER is an argument of the model: class dispatch guarantees its
   kind except when a user class derives from a native-object class (vm.rs inherit_impl copies the
   native methods into the user class), see NativesProofs.receiver_kind_refuted.

   The 13 String methods and 3 String constructors whose bodies are modelled byte-exactly in
   StrFns.v (StrProofs.natives_no_panic) are modelled here up to their receiver guard; past it the
   outcome is [NDeleg]: "decided by StrFns.v". *)
From Coq Require Import List String NArith ZArith Bool.
From YV Require Import Show Wire Index Bytecode Skeleton Verifier.
Import ListNotations.
Local Open Scope string_scope.

(* ------------------------------------------------------------------------------------------ *)
(** * Argument kinds *)

(* f64 classes that the guards can distinguish *)
Inductive numclass : Set := NCNaN | NCInf (neg : bool) | NCInt (z : Z) | NCFrac.

Definition num_of_class (c : numclass) : num :=
  match c with
  | NCNaN | NCFrac => NumNonIntegral
  | NCInf b => NumInf b
  | NCInt z => NumInt z
  end.

Inductive iterkind : Set := ItString | ItTuple | ItVec | ItRange.

(* [AKFiber frames at_start has_caller call_arity] carries exactly the fields read by
   ObjFiber::is_new / has_finished and vm.rs load_fiber:
     new        = frames 1, ip at the start of the code, no caller
     suspended  = frames >= 1, ip elsewhere, no caller
     running    = has a caller (it called into the current fiber, or IS the current fiber)
     finished   = frames 0
   [AKClosure arity]: ObjFunction.arity, which counts slot 0 (so [|x| ..] has arity 2).
   [AKIter k cursor len]: the iterator's cursor ([current] / [pos]; for a range iterator the number
   of steps taken) and the CURRENT length of the iterated container (for a range: |end - begin|).
   A vec can shrink under a live iterator, so for [ItVec] the cursor may exceed the length;
   tuples and strings are immutable and ranges are walked one step at a time, so there
   cursor <= len is an invariant ([ak_wf]). *)
Inductive akind : Set :=
| AKNil | AKBool | AKNum (c : numclass) | AKStr
| AKTuple (hashable : bool) | AKVec (len : N) | AKRange | AKMap
| AKClass | AKInstance | AKClosure (arity : N) | AKNative | AKBound
| AKIter (k : iterkind) (cursor len : N)
| AKFiber (frames : N) (at_start : bool) (has_caller : bool) (call_arity : N)
| AKModule.

(* what the Rust invariants guarantee about a value of that kind:
   compiler.rs: a function's arity starts at 1 (slot 0); core.rs fiber_init: 1 <= arity <= 2;
   a Rust Vec holds at most isize::MAX elements *)
Definition ak_wf (a : akind) : bool :=
  match a with
  | AKClosure ar => (1 <=? ar)%N
  | AKFiber _ _ _ ar => (1 <=? ar)%N && (ar <=? 2)%N
  | AKVec len => (Z.of_N len <=? isize_max)%Z
  | AKIter ItVec _ _ => true
  | AKIter _ cursor len => (cursor <=? len)%N
  | _ => true
  end.

(* value.rs Value::has_hash *)
Definition has_hash (a : akind) : bool :=
  match a with
  | AKBool | AKNum _ | AKStr | AKClass | AKRange | AKNil => true
  | AKTuple hs => hs
  | _ => false
  end.

(* ------------------------------------------------------------------------------------------ *)
(** * Outcomes *)

Inductive ekind : Set := EAttribute | EImport | EIndex | EName | ERuntime | EType | EValue.

(* kind of the returned value; [RKRecv] = the receiver itself, [RKAny] = an element / a yielded
   value / anything *)
Inductive rkind : Set :=
| RKNil | RKBool | RKNum | RKStr | RKTuple | RKVec | RKClass | RKInstance
| RKIter (k : iterkind) | RKFiber | RKRecv | RKStop | RKAny.

Inductive outcome : Set :=
| NOk (r : rkind)
| NErr (k : ekind) (msg : string)     (* message template; "{}" stands for a Display rendering *)
| NPanic (site : string)
| NDeleg (to : string).

Definition is_panic (o : outcome) : bool := match o with NPanic _ => true | _ => false end.

(* ------------------------------------------------------------------------------------------ *)
(** * Guards *)

(* core.rs check_num_args *)
Definition check_num_args (num_args expected : nat) (k : outcome) : outcome :=
  if Nat.eqb num_args expected then k
  else NErr EType ("Expected " ++ show_nat expected ++ " parameter"
                   ++ (if Nat.eqb expected 1 then "" else "s")
                   ++ " but found " ++ show_nat num_args ++ ".").

(* core.rs validate_hash_map_key, followed by the hashing the std HashMap performs
   (value.rs impl Hash for Value: panic!("Unhashable value type")) *)
Definition with_hash_map_key (key : akind) (k : outcome) : outcome :=
  if negb (has_hash key)
  then NErr EValue "Cannot use unhashable value '{}' as HashMap key."
  else if has_hash key then k else NPanic "value.rs:Hash for Value:Unhashable value type".

(* object.rs ObjVecIter::next / ObjTupleIter::next:
     if self.current <cmp> elements.len() { return None }  let ret = elements[self.current]; ...
   [None] becomes the StopIter sentinel in core.rs.  The comparison operator is a parameter so that
   NativesProofs can say which operators are safe; [run_native] uses the one the source has
   (props/C02.v compares it with the regenerated gen/NativesSrc.src_iter_guards). *)
Inductive itercmp : Set := CmpGe | CmpEq.

Definition iter_at_end (c : itercmp) (cursor len : N) : bool :=
  match c with CmpGe => (len <=? cursor)%N | CmpEq => (cursor =? len)%N end.

Definition indexed_iter_next (site : string) (c : itercmp) (cursor len : N) : outcome :=
  if iter_at_end c cursor len then NOk RKStop
  else if (cursor <? len)%N then NOk RKAny else NPanic site.

Definition vec_iter_cmp : itercmp := CmpGe.
Definition tuple_iter_cmp : itercmp := CmpGe.

Definition show_itercmp (c : itercmp) : string := match c with CmpGe => ">=" | CmpEq => "==" end.

(* common.rs VEC_ELEMS_MAX = isize::MAX as usize + 1 *)
Definition VEC_ELEMS_MAX : N := 9223372036854775808%N.

Definition err_of_index (e : err) : outcome :=
  match e with
  | TypeError m => NErr EType m
  | ValueError m => NErr EValue m
  | IndexError m => NErr EIndex m
  | RustPanic m => NPanic m
  end.

Definition idx_of_kind (a : akind) : idx :=
  match a with AKNum c => idx_of_num (num_of_class c) | _ => INotNumber end.

(* ------------------------------------------------------------------------------------------ *)
(** * The natives *)

Inductive native : Set :=
(* globals *)
| G_clock | G_print | G_type
(* Object *)
| Object_derives
(* StringClass (static) *)
| String_from | String_from_ascii | String_from_utf8 | String_from_code_points
(* String *)
| String_iter | String_len | String_is_alpha | String_is_digit | String_is_hexdigit
| String_count_chars | String_char_byte_index | String_find | String_replace | String_split
| String_starts_with | String_ends_with | String_to_num | String_to_bytes | String_to_code_points
| StringIter_next
| Tuple_len | Tuple_iter | TupleIter_next
| Vec_push | Vec_pop | Vec_len | Vec_iter | VecIter_next
| Range_iter | RangeIter_next
| Map_has_key | Map_get | Map_insert | Map_remove | Map_clear | Map_len | Map_keys | Map_values
| Map_items
| Fiber_new | Fiber_call | Fiber_yield | Fiber_has_finished
(* core.yl: class Error { #[constructor] fn new(self, context) } - a closure, via call_closure *)
| Error_new
(* vm.rs set_item_impl: the one VM-level operation with a numeric index that StrFns.v does not
   cover ([v[i] = x]) *)
| VM_set_item.

Definition all_natives : list native :=
  [G_clock; G_print; G_type; Object_derives;
   String_from; String_from_ascii; String_from_utf8; String_from_code_points;
   String_iter; String_len; String_is_alpha; String_is_digit; String_is_hexdigit;
   String_count_chars; String_char_byte_index; String_find; String_replace; String_split;
   String_starts_with; String_ends_with; String_to_num; String_to_bytes; String_to_code_points;
   StringIter_next; Tuple_len; Tuple_iter; TupleIter_next;
   Vec_push; Vec_pop; Vec_len; Vec_iter; VecIter_next; Range_iter; RangeIter_next;
   Map_has_key; Map_get; Map_insert; Map_remove; Map_clear; Map_len; Map_keys; Map_values;
   Map_items; Fiber_new; Fiber_call; Fiber_yield; Fiber_has_finished; Error_new; VM_set_item].

(* a String method: check_num_args, then [peek(n).try_as_obj_string().expect(..)], then the body *)
Definition string_method (name : string) (na expected : nat) (recv : akind) (body : outcome)
  : outcome :=
  check_num_args na expected
    (match recv with
     | AKStr => body
     | _ => NPanic ("core.rs:string_" ++ name ++ ":expect ObjString")
     end).

(* a HashMap method taking a key as first argument *)
Definition map_key_method (name : string) (na expected : nat) (recv : akind) (args : list akind)
           (r : rkind) : outcome :=
  check_num_args na expected
    (match recv with
     | AKMap =>
       match args with
       | key :: _ => with_hash_map_key key (NOk r)
       | [] => NPanic "stack.rs:peek:Stack index out of range"
       end
     | _ => NPanic ("core.rs:hash_map_" ++ name ++ ":expect ObjHashMap")
     end).

Definition map_method0 (name : string) (na : nat) (recv : akind) (r : rkind) : outcome :=
  check_num_args na 0
    (match recv with
     | AKMap => NOk r
     | _ => NPanic ("core.rs:hash_map_" ++ name ++ ":expect ObjHashMap")
     end).

(* vm.rs load_fiber, after fiber_call's own checks *)
Definition load_fiber (frames : N) (has_caller : bool) : outcome :=
  if (frames =? 0)%N then NErr ERuntime "Cannot call a finished fiber."
  else if has_caller then NErr ERuntime "Cannot call a fiber that has already been called."
  else
    (* self.pop() of the argument, current_frame_mut().unwrap() of the running fiber, then
       load_frame(): current_frame().unwrap() of the callee *)
    if (frames =? 0)%N then NPanic "vm.rs:load_frame:current_frame().unwrap()"
    else NOk RKAny.

(* vm.rs unload_fiber *)
Definition unload_fiber (in_fiber : bool) : outcome :=
  if in_fiber then NOk RKAny
  else NErr ERuntime "Cannot yield from module-level code.".

Definition at_most_one (na : nat) (k : outcome) : outcome :=
  if Nat.ltb 1 na
  then NErr EType ("Expected at most 1 parameter but found " ++ show_nat na ++ ".")
  else k.

(* [in_fiber]: the running fiber has a caller (the code runs inside Fiber.call) *)
Definition run_native (in_fiber : bool) (n : native) (recv : akind) (args : list akind)
  : outcome :=
  let na := List.length args in
  match n with
  | G_clock => NOk RKNum                      (* ignores num_args *)
  | G_print => check_num_args na 1 (NOk RKNil)
  | G_type => check_num_args na 1 (NOk RKClass)
  | Object_derives =>
    check_num_args na 1
      (match args with
       | [AKClass] => NOk RKBool
       | [_] => NErr EValue "Expected a class name but found '{}'."
       | _ => NPanic "stack.rs:peek:Stack index out of range"
       end)
  | String_from => check_num_args na 1 (NOk RKStr)
  | String_from_ascii => check_num_args na 1 (NDeleg "StrFns.string_from_ascii")
  | String_from_utf8 => check_num_args na 1 (NDeleg "StrFns.string_from_utf8")
  | String_from_code_points => check_num_args na 1 (NDeleg "StrFns.string_from_code_points")
  | String_iter =>
    check_num_args na 0
      (match recv with
       | AKStr => NOk (RKIter ItString)
       | _ => NPanic "core.rs:string_iter:expect ObjString instance"
       end)
  | String_len => string_method "len" na 0 recv (NDeleg "StrFns.string_len")
  | String_is_alpha => string_method "is_alpha" na 0 recv (NDeleg "StrFns.string_is_alpha")
  | String_is_digit => string_method "is_digit" na 0 recv (NDeleg "StrFns.string_is_digit")
  | String_is_hexdigit =>
    string_method "is_hexdigit" na 0 recv (NDeleg "StrFns.string_is_hexdigit")
  | String_count_chars =>
    string_method "count_chars" na 0 recv (NDeleg "StrFns.string_count_chars")
  | String_char_byte_index =>
    string_method "char_byte_index" na 1 recv (NDeleg "StrFns.string_char_byte_index")
  | String_find => string_method "find" na 2 recv (NDeleg "StrFns.string_find")
  | String_replace => string_method "replace" na 2 recv (NDeleg "StrFns.string_replace")
  | String_split => string_method "split" na 1 recv (NDeleg "StrFns.string_split")
  | String_starts_with =>
    string_method "starts_with" na 1 recv (NDeleg "StrFns.string_starts_with")
  | String_ends_with => string_method "ends_with" na 1 recv (NDeleg "StrFns.string_ends_with")
  | String_to_num =>
    string_method "to_num" na 0 recv
      (* parse::<f64>() : Ok number or ValueError; both occur *)
      (NDeleg "NumLex (string.parse::<f64>): Ok Num or ValueError")
  | String_to_bytes => string_method "to_bytes" na 0 recv (NDeleg "StrFns.string_to_bytes")
  | String_to_code_points =>
    string_method "to_code_points" na 0 recv (NDeleg "StrFns.string_to_code_points")
  | StringIter_next =>
    check_num_args na 0
      (match recv with
       | AKIter ItString _ _ => NDeleg "StrFns.string_iter_next"
       | _ => NPanic "core.rs:string_iter_next:expect ObjIter instance"
       end)
  | Tuple_len =>
    check_num_args na 0
      (match recv with AKTuple _ => NOk RKNum | _ => NPanic "core.rs:tuple_len:expect ObjTuple" end)
  | Tuple_iter =>
    check_num_args na 0
      (match recv with
       | AKTuple _ => NOk (RKIter ItTuple)
       | _ => NPanic "core.rs:tuple_iter:expect ObjTuple instance"
       end)
  | TupleIter_next =>
    check_num_args na 0
      (match recv with
       | AKIter ItTuple cursor len =>
         indexed_iter_next "object.rs:ObjTupleIter::next:elements[current]" tuple_iter_cmp cursor len
       | _ => NPanic "core.rs:tuple_iter_next:expect ObjTupleIter instance"
       end)
  | Vec_push =>
    check_num_args na 1
      (match recv with
       | AKVec len =>
         if (VEC_ELEMS_MAX <=? len)%N then NErr ERuntime "Vec max capcity reached."
         else NOk RKRecv
       | _ => NPanic "core.rs:vec_push:expect ObjVec"
       end)
  | Vec_pop =>
    check_num_args na 0
      (match recv with
       | AKVec len =>
         if (len =? 0)%N then NErr ERuntime "Cannot pop from empty Vec instance." else NOk RKAny
       | _ => NPanic "core.rs:vec_pop:expect ObjVec"
       end)
  | Vec_len =>
    check_num_args na 0
      (match recv with AKVec _ => NOk RKNum | _ => NPanic "core.rs:vec_len:expect ObjVec" end)
  | Vec_iter =>
    check_num_args na 0
      (match recv with
       | AKVec _ => NOk (RKIter ItVec)
       | _ => NPanic "core.rs:vec_iter:expect ObjVec instance"
       end)
  | VecIter_next =>
    check_num_args na 0
      (match recv with
       | AKIter ItVec cursor len =>
         indexed_iter_next "object.rs:ObjVecIter::next:elements[current]" vec_iter_cmp cursor len
       | _ => NPanic "core.rs:vec_iter_next:expect ObjVecIter instance"
       end)
  | Range_iter =>
    check_num_args na 0
      (match recv with
       | AKRange => NOk (RKIter ItRange)
       | _ => NPanic "core.rs:range_iter:expect ObjRange instance"
       end)
  | RangeIter_next =>
    check_num_args na 0
      (match recv with
       | AKIter ItRange cursor len =>
         (* object.rs ObjRangeIter::next: if current == end { None } - no indexing *)
         if (cursor =? len)%N then NOk RKStop else NOk RKNum
       | _ => NPanic "core.rs:range_iter_next:expect ObjIter instance"
       end)
  | Map_has_key => map_key_method "has_key" na 1 recv args RKBool
  | Map_get => map_key_method "get" na 1 recv args RKAny
  | Map_insert => map_key_method "insert" na 2 recv args RKAny
  | Map_remove => map_key_method "remove" na 1 recv args RKAny
  | Map_clear => map_method0 "clear" na recv RKNil
  | Map_len => map_method0 "len" na recv RKNum
  | Map_keys => map_method0 "keys" na recv RKVec
  | Map_values => map_method0 "values" na recv RKVec
  | Map_items => map_method0 "items" na recv RKVec
  | Fiber_new =>
    check_num_args na 1
      (match args with
       | [AKClosure ar] =>
         if (2 <? ar)%N
         then NErr EValue "Fiber expects a closure that accepts at most 1 parameter."
         else NOk RKFiber
       | [_] => NErr EType "Expected a function but found '{}'."
       | _ => NPanic "stack.rs:peek:Stack index out of range"
       end)
  | Fiber_call =>
    (* no arity check before the receiver is unwrapped *)
    match recv with
    | AKFiber frames at_start has_caller ar =>
      let is_new := (frames =? 1)%N && at_start in
      if is_new
      then
        if (ar =? 0)%N then NPanic "core.rs:fiber_call:arity - 1 (usize underflow)"
        else check_num_args na (N.to_nat (ar - 1)) (load_fiber frames has_caller)
      else at_most_one na (load_fiber frames has_caller)
    | _ => NPanic "core.rs:fiber_call:expect ObjFiber"
    end
  | Fiber_yield => at_most_one na (unload_fiber in_fiber)
  | Fiber_has_finished =>
    check_num_args na 0
      (match recv with
       | AKFiber _ _ _ _ => NOk RKBool
       | _ => NPanic "core.rs:fiber_has_finished:expect ObjFiber"
       end)
  | Error_new =>
    (* vm.rs call_closure: arity 2 = self + context; the FRAMES_MAX check ("Stack overflow.")
       is the caller's context, see frames_bounded *)
    if Nat.eqb na 1 then NOk RKInstance
    else NErr EType ("Expected 1 arguments but found " ++ show_nat na ++ ".")
  | VM_set_item =>
    (* args = [index; value] *)
    match recv with
    | AKVec len =>
      match args with
      | [i; _] =>
        match bounded_index "Vec" "{}" (idx_of_kind i) (Z.of_N len) with
        | Error e => err_of_index e
        | Ok k =>
          if (N.of_nat k <? len)%N then NOk RKNil
          else NPanic "vm.rs:set_item_impl:elements[index]"
        end
      | _ => NPanic "stack.rs:peek:Stack index out of range"
      end
    | _ => NErr EType "Only Vec objects are index-assignable."
    end
  end.

(* the receiver kinds the native's class dispatches on (vm.rs get_class / invoke); [true] for
   natives that never look at their receiver *)
Definition dispatch_ok (n : native) (recv : akind) : bool :=
  match n with
  | String_iter | String_len | String_is_alpha | String_is_digit | String_is_hexdigit
  | String_count_chars | String_char_byte_index | String_find | String_replace | String_split
  | String_starts_with | String_ends_with | String_to_num | String_to_bytes
  | String_to_code_points => match recv with AKStr => true | _ => false end
  | StringIter_next => match recv with AKIter ItString _ _ => true | _ => false end
  | Tuple_len | Tuple_iter => match recv with AKTuple _ => true | _ => false end
  | TupleIter_next => match recv with AKIter ItTuple _ _ => true | _ => false end
  | Vec_push | Vec_pop | Vec_len | Vec_iter => match recv with AKVec _ => true | _ => false end
  | VecIter_next => match recv with AKIter ItVec _ _ => true | _ => false end
  | Range_iter => match recv with AKRange => true | _ => false end
  | RangeIter_next => match recv with AKIter ItRange _ _ => true | _ => false end
  | Map_has_key | Map_get | Map_insert | Map_remove | Map_clear | Map_len | Map_keys
  | Map_values | Map_items => match recv with AKMap => true | _ => false end
  | Fiber_call | Fiber_has_finished =>
    match recv with AKFiber _ _ _ _ => true | _ => false end
  | _ => true
  end.

(* the natives that unwrap their receiver with [expect] *)
Definition recv_panics (n : native) : bool :=
  match n with
  | G_clock | G_print | G_type | Object_derives | String_from | String_from_ascii
  | String_from_utf8 | String_from_code_points | Fiber_new | Fiber_yield | Error_new
  | VM_set_item => false
  | _ => true
  end.

Definition expected_args (n : native) : nat :=
  match n with
  | String_char_byte_index | String_split | String_starts_with | String_ends_with
  | Vec_push | Map_has_key | Map_get | Map_remove | G_print | G_type | Object_derives
  | String_from | String_from_ascii | String_from_utf8 | String_from_code_points | Fiber_new
  | Error_new => 1
  | String_find | String_replace | Map_insert | VM_set_item => 2
  | _ => 0
  end.

Definition witness_args (n : native) : list akind := repeat AKNil (expected_args n).

(* ------------------------------------------------------------------------------------------ *)
(** * Kind-dependent VM sites: predecessor rules

   vm.rs sites whose operand KIND is assumed ([expect] / [unwrap] / [unreachable!]):
     Method, StaticMethod  - the top must be a closure (else invoke_from_class / bind_method hit
                             [unreachable!()] later): compiler.rs [method] emits Closure right
                             before;
     BuildString n         - operands must be strings: each part ends in Constant(str) or
                             FormatString ([interpolation]); the rule checks the top operand;
     GetSuper, SuperInvoke - the top must be a class: [super_] loads the local/upvalue "super"
                             right before (its value passed the Inherit check);
     FinishImport          - second from top must be a module: only entered from StartImport.
   [site_preds_ok] checks, on the verifier's annotation, that EVERY control-flow predecessor of
   such a site is one of the instructions named by the rule. *)

Definition site_rule (f : fn) (site : opcode) : option (instr -> bool) :=
  match site with
  | OpMethod | OpStaticMethod =>
    Some (fun j => match iop j with OpClosure => true | _ => false end)
  | OpBuildString =>
    Some (fun j => match iop j with
                   | OpFormatString => true
                   | OpConstant => match const_at f (ia j) with Some CStr => true | _ => false end
                   | _ => false
                   end)
  | OpGetSuper | OpSuperInvoke =>
    Some (fun j => match iop j with OpGetLocal | OpGetUpvalue => true | _ => false end)
  | OpFinishImport =>
    Some (fun j => match iop j with OpStartImport => true | _ => false end)
  | _ => None
  end.

Definition edge_ok (p : program) (f : fn) (s s' : fstate) : bool :=
  match decode p f (pc s') with
  | Some (i, _) =>
    match site_rule f (iop i) with
    | Some rule =>
      (* BuildString 0 / 1 take no operand from the rule's point of view *)
      match iop i, ia i with
      | OpBuildString, 0%N => true
      | _, _ =>
        match decode p f (pc s) with
        | Some (j, _) => rule j
        | None => false
        end
      end
    | None => true
    end
  | None => true
  end.

Definition site_preds_ok (lenient : bool) (p : program) (f : fn) (a : annot) : bool :=
  forallb (fun s => match succs lenient p f s with
                    | Some l => forallb (edge_ok p f s) l
                    | None => true
                    end) (all_states a).

(* no kind-dependent site at the entry of a function (it has no predecessor there) *)
Definition entry_not_site (p : program) (f : fn) : bool :=
  match decode p f 0%N with
  | Some (i, _) => match site_rule f (iop i) with Some _ => false | None => true end
  | None => true
  end.

Definition fn_sites_ok (lenient : bool) (p : program) (f : fn) : bool :=
  match verify_fn lenient p f with
  | FOk a => site_preds_ok lenient p f a && entry_not_site p f
  | FReject _ _ => false
  end.

(* count of kind-dependent sites reached (evidence) *)
Definition count_sites (p : program) (f : fn) (a : annot) : nat :=
  List.length (filter (fun s => match decode p f (pc s) with
                                | Some (i, _) => match site_rule f (iop i) with
                                                 | Some _ => true | None => false end
                                | None => false
                                end) (all_states a)).

(* ------------------------------------------------------------------------------------------ *)
(** * A program the verifier accepts whose frames are wider than LOCALS_MAX

   One function of arity 1:  Nil x 300 ; Call 0 ; Return.   Values are forgotten by the skeleton
   machine, so the callee of [Call 0] may be the function itself: every frame holds 301 slots and
   the 56th nested frame starts above STACK_MAX.  (The real-bytecode counterpart is the yarel
   source in notes/C02-findings.json, class wide_frame_stack_overflow.) *)
Definition wide_width : nat := 300.
Definition wide_code : list N :=
  repeat (N_of_opcode OpNil) wide_width ++ [N_of_opcode OpCall; 0%N; N_of_opcode OpReturn].
Definition f_wide : fn := mkFn wide_code [] 1 0.
Definition p_wide : program := [f_wide].

(* the state of a frame of [f_wide] after [j] Nil instructions *)
Definition wide_st (j : N) : fstate := mkS j (j + 1) [] [] None XUnknown.

Definition fstate_eqb_simple (s t : fstate) : bool :=
  (pc s =? pc t)%N && (h s =? h t)%N
  && match handlers s, handlers t with [], [] => true | _, _ => false end
  && match captured s, captured t with [], [] => true | _, _ => false end
  && match pending s, pending t with None, None => true | _, _ => false end
  && match exc s, exc t with XUnknown, XUnknown => true | _, _ => false end.

Definition wide_step_ok (j : N) : bool :=
  match succs false p_wide f_wide (wide_st j) with
  | Some [s'] => fstate_eqb_simple s' (wide_st (j + 1))
  | _ => false
  end.

(* ------------------------------------------------------------------------------------------ *)
(** * Wire interface for the correspondence check (tools/props/C02.py)

   One probe = one group of numbers:  in_fiber native_index (tag p1 p2 p3 p4)+   where the first
   5-tuple is the receiver.  Tags: 0 Nil, 1 Bool, 2 Num (p1: 0 NaN, 1 +inf, 2 -inf, 3 frac,
   4 int with p2 = sign (1 = negative) and p3 = magnitude), 3 Str, 4 Tuple (p1 hashable),
   5 Vec (p1 len), 6 Range, 7 Map, 8 Class, 9 Instance, 10 Closure (p1 arity), 11 Native,
   12 Bound, 13 Iter (p1: 0 String 1 Tuple 2 Vec 3 Range, p2 cursor, p3 len), 14 Fiber (frames at_start has_caller
   arity), 15 Module. *)

Definition nb (n : N) : bool := negb (n =? 0)%N.

Definition akind_of_wire (t p1 p2 p3 p4 : N) : akind :=
  match t with
  | 0 => AKNil | 1 => AKBool
  | 2 => AKNum (match p1 with
                | 0 => NCNaN | 1 => NCInf false | 2 => NCInf true | 3 => NCFrac
                | _ => NCInt (if nb p2 then Z.opp (Z.of_N p3) else Z.of_N p3)
                end)
  | 3 => AKStr | 4 => AKTuple (nb p1) | 5 => AKVec p1 | 6 => AKRange | 7 => AKMap
  | 8 => AKClass | 9 => AKInstance | 10 => AKClosure p1 | 11 => AKNative | 12 => AKBound
  | 13 => AKIter (match p1 with 0 => ItString | 1 => ItTuple | 2 => ItVec | _ => ItRange end) p2 p3
  | 14 => AKFiber p1 (nb p2) (nb p3) p4
  | _ => AKModule
  end%N.

Fixpoint akinds_of_wire (fuel : nat) (l : list N) : list akind :=
  match fuel, l with
  | S fu, t :: p1 :: p2 :: p3 :: p4 :: r => akind_of_wire t p1 p2 p3 p4 :: akinds_of_wire fu r
  | _, _ => []
  end.

Definition show_ekind (k : ekind) : string :=
  match k with
  | EAttribute => "AttributeError" | EImport => "ImportError" | EIndex => "IndexError"
  | EName => "NameError" | ERuntime => "RuntimeError" | EType => "TypeError"
  | EValue => "ValueError"
  end.

Definition show_iterkind (k : iterkind) : string :=
  match k with
  | ItString => "StringIter" | ItTuple => "TupleIter" | ItVec => "VecIter"
  | ItRange => "RangeIter"
  end.

Definition show_rkind (r : rkind) : string :=
  match r with
  | RKNil => "Nil" | RKBool => "Bool" | RKNum => "Num" | RKStr => "String" | RKTuple => "Tuple"
  | RKVec => "Vec" | RKClass => "class" | RKInstance => "instance"
  | RKIter k => show_iterkind k | RKFiber => "Fiber" | RKRecv => "recv" | RKStop => "StopIter"
  | RKAny => "any"
  end.

Definition show_outcome (o : outcome) : string :=
  match o with
  | NOk r => "O:" ++ show_rkind r
  | NErr k m => "E:" ++ show_ekind k ++ ":" ++ m
  | NPanic s => "P:" ++ s
  | NDeleg s => "D:" ++ s
  end.

Definition run_probe_w (g : list N) : string :=
  match g with
  | inf :: ni :: r =>
    match nth_error all_natives (N.to_nat ni), akinds_of_wire (List.length r) r with
    | Some n, recv :: args =>
      (if forallb ak_wf (recv :: args) then "" else "!wf ")
      ++ show_outcome (run_native (nb inf) n recv args)
    | _, _ => "BAD-PROBE"
    end
  | _ => "BAD-PROBE"
  end.

(* all probes of one wire string; results separated by "|" *)
Definition run_probes_w (w : string) : string := show_sep "|" run_probe_w (parse_nss w).

Definition native_name (n : native) : string :=
  match n with
  | G_clock => "clock" | G_print => "print" | G_type => "type"
  | Object_derives => "Object#derives"
  | String_from => "String.from" | String_from_ascii => "String.from_ascii"
  | String_from_utf8 => "String.from_utf8" | String_from_code_points => "String.from_code_points"
  | String_iter => "String#iter" | String_len => "String#len" | String_is_alpha => "String#is_alpha"
  | String_is_digit => "String#is_digit" | String_is_hexdigit => "String#is_hexdigit"
  | String_count_chars => "String#count_chars"
  | String_char_byte_index => "String#char_byte_index" | String_find => "String#find"
  | String_replace => "String#replace" | String_split => "String#split"
  | String_starts_with => "String#starts_with" | String_ends_with => "String#ends_with"
  | String_to_num => "String#to_num" | String_to_bytes => "String#to_bytes"
  | String_to_code_points => "String#to_code_points"
  | StringIter_next => "StringIter#next"
  | Tuple_len => "Tuple#len" | Tuple_iter => "Tuple#iter" | TupleIter_next => "TupleIter#next"
  | Vec_push => "Vec#push" | Vec_pop => "Vec#pop" | Vec_len => "Vec#len" | Vec_iter => "Vec#iter"
  | VecIter_next => "VecIter#next" | Range_iter => "Range#iter"
  | RangeIter_next => "RangeIter#next"
  | Map_has_key => "HashMap#has_key" | Map_get => "HashMap#get" | Map_insert => "HashMap#insert"
  | Map_remove => "HashMap#remove" | Map_clear => "HashMap#clear" | Map_len => "HashMap#len"
  | Map_keys => "HashMap#keys" | Map_values => "HashMap#values" | Map_items => "HashMap#items"
  | Fiber_new => "Fiber.new" | Fiber_call => "Fiber#call" | Fiber_yield => "Fiber.yield"
  | Fiber_has_finished => "Fiber#has_finished" | Error_new => "Error.new"
  | VM_set_item => "vm:set_item"
  end.

(* the table the plug-in reads: index:name:expected_args:recv_panics *)
Definition native_table : string :=
  show_sep "|" (fun n => native_name n ++ ":" ++ show_nat (expected_args n) ++ ":"
                         ++ show_bool (recv_panics n)) all_natives.

(* ------------------------------------------------------------------------------------------ *)
(** * The guard structure of the model, in the format of gen/NativesSrc.v (translate_c02.py) *)

Definition arity_src (n : native) : string :=
  match n with
  | G_clock | Fiber_yield => "-"
  | Fiber_call => "?"
  | _ => show_nat (expected_args n)
  end.

Definition recv_src (n : native) : string :=
  match n with
  | String_iter | String_len | String_is_alpha | String_is_digit | String_is_hexdigit
  | String_count_chars | String_char_byte_index | String_find | String_replace | String_split
  | String_starts_with | String_ends_with | String_to_num | String_to_bytes
  | String_to_code_points => "string"
  | StringIter_next => "string_iter"
  | Tuple_len | Tuple_iter => "tuple"
  | TupleIter_next => "tuple_iter"
  | Vec_push | Vec_pop | Vec_len | Vec_iter => "vec"
  | VecIter_next => "vec_iter"
  | Range_iter => "range"
  | RangeIter_next => "range_iter"
  | Map_has_key | Map_get | Map_insert | Map_remove | Map_clear | Map_len | Map_keys
  | Map_values | Map_items => "hash_map"
  | Fiber_call | Fiber_has_finished => "fiber"
  | _ => "-"
  end.

Definition key_src (n : native) : bool :=
  match n with Map_has_key | Map_get | Map_insert | Map_remove => true | _ => false end.

Definition arity_first_src (n : native) : bool :=
  match n with Fiber_call => false | _ => true end.

Definition is_core_native (n : native) : bool :=
  match n with Error_new | VM_set_item => false | _ => true end.

Definition src_row : Set := (string * string * string * bool * bool)%type.

Definition model_rows : list src_row :=
  map (fun n => (native_name n, arity_src n, recv_src n, key_src n, arity_first_src n))
      (filter is_core_native all_natives).

Definition row_eqb (a b : src_row) : bool :=
  match a, b with
  | (n1, a1, r1, k1, f1), (n2, a2, r2, k2, f2) =>
    String.eqb n1 n2 && String.eqb a1 a2 && String.eqb r1 r2 && Bool.eqb k1 k2 && Bool.eqb f1 f2
  end.

(* same rows, in any order *)
Definition rows_match (src model : list src_row) : bool :=
  forallb (fun r => existsb (row_eqb r) model) src
  && forallb (fun r => existsb (row_eqb r) src) model
  && Nat.eqb (List.length src) (List.length model).

(* the comparison operators of the iterator guards, in the format of gen/NativesSrc.src_iter_guards *)
Definition model_vec_iter_guard : string := show_itercmp vec_iter_cmp.
Definition model_tuple_iter_guard : string := show_itercmp tuple_iter_cmp.

Fixpoint guard_of (name : string) (l : list (string * string)) : string :=
  match l with
  | [] => "?"
  | (n, g) :: r => if String.eqb n name then g else guard_of name r
  end.

(* the vec guard must be the model's [>=] (a vec can shrink under a live iterator: NativesProofs
   indexed_iter_next_eq_refuted); tuples and strings are immutable, so [==] and [>=] are both total
   there (indexed_iter_next_eq_bounded); the range iterator does not index *)
Definition iter_guards_ok (l : list (string * string)) : bool :=
  String.eqb (guard_of "ObjVecIter" l) model_vec_iter_guard
  && (String.eqb (guard_of "ObjTupleIter" l) ">=" || String.eqb (guard_of "ObjTupleIter" l) "==")
  && (String.eqb (guard_of "ObjStringIter" l) "==" || String.eqb (guard_of "ObjStringIter" l) ">=")
  && String.eqb (guard_of "ObjRangeIter" l) "==".
