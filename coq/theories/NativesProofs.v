(* C02 - proofs about NativesModel.v and the C02 corollaries of the bytecode verifier. *)
From Coq Require Import List String NArith ZArith Bool Lia.
From YV Require Import Show Wire Index IndexProofs Bytecode Skeleton Verifier VerifierProofs
     NativesModel.
Import ListNotations.
Local Open Scope string_scope.

(* ------------------------------------------------------------------------------------------ *)
(** * Guards never panic by themselves *)

Lemma cna_np : forall na e k,
    (na = e -> is_panic k = false) -> is_panic (check_num_args na e k) = false.
Proof.
  intros na e k H. unfold check_num_args. destruct (Nat.eqb na e) eqn:E; [|reflexivity].
  apply H. apply PeanoNat.Nat.eqb_eq. exact E.
Qed.

Lemma key_np : forall key k, is_panic k = false -> is_panic (with_hash_map_key key k) = false.
Proof. intros key k H. unfold with_hash_map_key. destruct (has_hash key); cbn; auto. Qed.

Lemma amo_np : forall na k, is_panic k = false -> is_panic (at_most_one na k) = false.
Proof. intros na k H. unfold at_most_one. destruct (Nat.ltb 1 na); auto. Qed.

Lemma load_fiber_np : forall fr c, is_panic (load_fiber fr c) = false.
Proof. intros fr c. unfold load_fiber. destruct (fr =? 0)%N; [reflexivity|]. destruct c; reflexivity. Qed.

Lemma unload_fiber_np : forall b, is_panic (unload_fiber b) = false.
Proof. intros []; reflexivity. Qed.

Lemma len1 : forall (A : Type) (l : list A), List.length l = 1%nat -> exists a, l = [a].
Proof. intros A [|a [|b r]] H; try discriminate H. exists a; reflexivity. Qed.

Lemma len2 : forall (A : Type) (l : list A), List.length l = 2%nat -> exists a b, l = [a; b].
Proof. intros A [|a [|b [|c r]]] H; try discriminate H. exists a, b; reflexivity. Qed.

Lemma idx_of_kind_wf : forall a, idx_wf (idx_of_kind a) = true.
Proof. intros [] ; try reflexivity. apply idx_of_num_wf. Qed.


(* ------------------------------------------------------------------------------------------ *)
(** * Iterator guards: [>=] is total for EVERY cursor/length relation, [==] only while
      cursor <= len - which a vec that shrinks under a live iterator does not keep *)

Theorem indexed_iter_next_ge_total : forall site cursor len,
    is_panic (indexed_iter_next site CmpGe cursor len) = false.
Proof.
  intros site cursor len. unfold indexed_iter_next, iter_at_end.
  destruct (len <=? cursor)%N eqn:E; [reflexivity|].
  apply N.leb_gt in E. apply N.ltb_lt in E. rewrite E. reflexivity.
Qed.

(* past the end the answer is the sentinel, again and again *)
Theorem indexed_iter_next_ge_sentinel : forall site cursor len, (len <= cursor)%N ->
    indexed_iter_next site CmpGe cursor len = NOk RKStop.
Proof.
  intros site cursor len H. unfold indexed_iter_next, iter_at_end.
  apply N.leb_le in H. rewrite H. reflexivity.
Qed.

Theorem indexed_iter_next_eq_bounded : forall site cursor len, (cursor <= len)%N ->
    is_panic (indexed_iter_next site CmpEq cursor len) = false.
Proof.
  intros site cursor len H. unfold indexed_iter_next, iter_at_end.
  destruct (cursor =? len)%N eqn:E; [reflexivity|].
  apply N.eqb_neq in E. assert (L : (cursor <? len)%N = true) by (apply N.ltb_lt; lia).
  rewrite L. reflexivity.
Qed.

(* [var xs = [1, 2, 3, 4]; for v in xs { if v == 3 { xs.pop(); xs.pop(); } }]: cursor 3, length 2 *)
Theorem indexed_iter_next_eq_refuted : exists cursor len,
    (len < cursor)%N /\ indexed_iter_next "elements[current]" CmpEq cursor len = NPanic "elements[current]".
Proof. exists 3%N, 2%N. split; [reflexivity | vm_compute; reflexivity]. Qed.
Print Assumptions indexed_iter_next_ge_total.

(* ------------------------------------------------------------------------------------------ *)
(** * natives_total *)

Definition args_wf (l : list akind) : Prop := forallb ak_wf l = true.

Ltac np_string := unfold string_method; apply cna_np; intros _; reflexivity.
Ltac np_map0 := unfold map_method0; apply cna_np; intros _; reflexivity.
Ltac np_mapk :=
  unfold map_key_method; apply cna_np; intros Hn;
  match goal with
  | |- context [match ?args with [] => _ | _ :: _ => _ end] =>
    destruct args; [discriminate Hn | apply key_np; reflexivity]
  end.

(* VM_set_item needs its operand count: the SetItem instruction always supplies [index; value]
   (Skeleton.simple_effect OpSetItem: need 3) *)
Definition shape_ok (n : native) (args : list akind) : Prop :=
  match n with VM_set_item => List.length args = 2%nat | _ => True end.


Lemma np_derives : forall (inf : bool) (recv : akind) (args : list akind) (Hwf : args_wf (recv :: args)), is_panic (run_native inf Object_derives recv args) = false.
  Proof.
    intros inf recv args Hwf.
    cbn [run_native]. apply cna_np; intros Hn. apply len1 in Hn as [a ->]. destruct a; reflexivity.
  Qed.

Lemma np_fiber_new : forall (inf : bool) (recv : akind) (args : list akind) (Hwf : args_wf (recv :: args)), is_panic (run_native inf Fiber_new recv args) = false.
  Proof.
    intros inf recv args Hwf.
    cbn [run_native]. apply cna_np; intros Hn. apply len1 in Hn as [a ->].
    destruct a; try reflexivity. destruct (2 <? arity)%N; reflexivity.
  Qed.

Lemma np_vec_push : forall (inf : bool) (recv : akind) (args : list akind) (Hwf : args_wf (recv :: args)), dispatch_ok Vec_push recv = true ->
                      is_panic (run_native inf Vec_push recv args) = false.
  Proof.
    intros inf recv args Hwf.
    intros Hd. destruct recv; try discriminate Hd. cbn [run_native]. apply cna_np; intros _.
    destruct (VEC_ELEMS_MAX <=? len)%N; reflexivity.
  Qed.

Lemma np_vec_pop : forall (inf : bool) (recv : akind) (args : list akind) (Hwf : args_wf (recv :: args)), dispatch_ok Vec_pop recv = true ->
                     is_panic (run_native inf Vec_pop recv args) = false.
  Proof.
    intros inf recv args Hwf.
    intros Hd. destruct recv; try discriminate Hd. cbn [run_native]. apply cna_np; intros _.
    destruct (len =? 0)%N; reflexivity.
  Qed.

Lemma np_fiber_call : forall (inf : bool) (recv : akind) (args : list akind) (Hwf : args_wf (recv :: args)), dispatch_ok Fiber_call recv = true ->
                        is_panic (run_native inf Fiber_call recv args) = false.
  Proof.
    intros inf recv args Hwf.
    intros Hd. destruct recv as [| | | | | | | | | | | | | |fr st cl ar|]; try discriminate Hd.
    unfold args_wf in Hwf. cbn [forallb ak_wf] in Hwf.
    apply andb_prop in Hwf as [Hf _]. apply andb_prop in Hf as [H1 _]. apply N.leb_le in H1.
    cbn [run_native]. destruct ((fr =? 1)%N && st).
    - destruct (ar =? 0)%N eqn:E0; [apply N.eqb_eq in E0; lia|].
      apply cna_np; intros _. apply load_fiber_np.
    - apply amo_np. apply load_fiber_np.
  Qed.

Lemma np_fiber_yield : forall (inf : bool) (recv : akind) (args : list akind) (Hwf : args_wf (recv :: args)), is_panic (run_native inf Fiber_yield recv args) = false.
  Proof. intros inf recv args Hwf. cbn [run_native]. apply amo_np. apply unload_fiber_np. Qed.

Lemma np_error_new : forall (inf : bool) (recv : akind) (args : list akind) (Hwf : args_wf (recv :: args)), is_panic (run_native inf Error_new recv args) = false.
  Proof.
    intros inf recv args Hwf. cbn [run_native]. destruct (Nat.eqb (List.length args) 1); reflexivity. Qed.

Lemma np_set_item : forall (inf : bool) (recv : akind) (args : list akind) (Hwf : args_wf (recv :: args)), shape_ok VM_set_item args ->
                      is_panic (run_native inf VM_set_item recv args) = false.
  Proof.
    intros inf recv args Hwf.
    intros Hshape. cbn [run_native].
    destruct recv as [| | | | |len| | | | | | | | | |]; try reflexivity.
    cbn [shape_ok] in Hshape. apply len2 in Hshape as [i [v ->]].
    unfold args_wf in Hwf. cbn [forallb ak_wf] in Hwf. apply andb_prop in Hwf as [Hl _].
    apply Z.leb_le in Hl.
    destruct (bounded_index "Vec" "{}" (idx_of_kind i) (Z.of_N len)) as [k|e] eqn:E.
    - apply bounded_index_lt in E; [| split; [apply N2Z.is_nonneg | exact Hl] | apply idx_of_kind_wf].
      assert (Hk : (N.of_nat k <? len)%N = true) by (apply N.ltb_lt; lia).
      rewrite Hk. reflexivity.
    - pose proof (bounded_index_exact "Vec" "{}" (idx_of_kind i) (Z.of_N len)
                                      (conj (N2Z.is_nonneg len) Hl) (idx_of_kind_wf i)) as X.
      rewrite E in X. destruct (idx_of_kind i) as [| |z]; try (inversion X; reflexivity).
      destruct (spec_index z (Z.of_N len)); inversion X; reflexivity.
  Qed.

Ltac recv_cases Hd :=
  match goal with
  | |- context [run_native _ _ ?recv _] =>
    destruct recv as [| | | | | | | | | | | | |k cur ln| |]; try discriminate Hd;
    try (destruct k; try discriminate Hd)
  end.

Theorem natives_total : forall in_fiber n recv args,
    dispatch_ok n recv = true -> args_wf (recv :: args) -> shape_ok n args ->
    is_panic (run_native in_fiber n recv args) = false.
Proof.
  intros inf n recv args Hd Hwf Hshape.
  destruct n;
    first [ apply (np_derives inf recv args Hwf) | apply (np_fiber_new inf recv args Hwf)
          | apply (np_vec_push inf recv args Hwf Hd) | apply (np_vec_pop inf recv args Hwf Hd)
          | apply (np_fiber_call inf recv args Hwf Hd) | apply (np_fiber_yield inf recv args Hwf)
          | apply (np_error_new inf recv args Hwf) | apply (np_set_item inf recv args Hwf Hshape)
          | idtac ];
    cbn [dispatch_ok] in Hd;
    try (cbn [run_native]; reflexivity);
    try (cbn [run_native]; apply cna_np; intros _; reflexivity);
    recv_cases Hd; cbn [run_native];
    solve [ np_string | np_map0 | np_mapk | apply cna_np; intros _; reflexivity
          | apply cna_np; intros _; apply indexed_iter_next_ge_total
          | apply cna_np; intros _; destruct (cur =? ln)%N; reflexivity ].
Qed.
Print Assumptions natives_total.

(* hypotheses are satisfiable, on non-trivial arguments (NaN, +-inf, +-2^63, a fraction, an
   unhashable key, a running fiber) *)
Example natives_total_ex :
  run_native false VM_set_item (AKVec 3) [AKNum NCNaN; AKNil]
  = NErr EValue "Expected an integer value but found '{}'."
  /\ run_native false VM_set_item (AKVec 3) [AKNum (NCInf true); AKNil]
     = NErr EIndex "Vec index out of bounds."
  /\ run_native false VM_set_item (AKVec 3) [AKNum (NCInt (- 2 ^ 63)); AKNil]
     = NErr EIndex "Vec index out of bounds."
  /\ run_native false VM_set_item (AKVec 3) [AKNum (NCInt (2 ^ 63)); AKNil]
     = NErr EIndex "Vec index out of bounds."
  /\ run_native false VM_set_item (AKVec 3) [AKNum (NCInt (-3)); AKNil] = NOk RKNil
  /\ run_native false VM_set_item (AKVec 3) [AKNum NCFrac; AKNil]
     = NErr EValue "Expected an integer value but found '{}'."
  /\ run_native false Map_get AKMap [AKVec 0]
     = NErr EValue "Cannot use unhashable value '{}' as HashMap key."
  /\ run_native false Map_get AKMap [AKNum NCNaN] = NOk RKAny
  /\ run_native true Fiber_call (AKFiber 1 true true 1) []
     = NErr ERuntime "Cannot call a fiber that has already been called."
  /\ run_native true Fiber_call (AKFiber 1 true true 1) [AKNil]
     = NErr EType "Expected 0 parameters but found 1."
  /\ run_native true Fiber_call (AKFiber 2 false true 1) [AKNil; AKNil]
     = NErr EType "Expected at most 1 parameter but found 2."
  /\ run_native false Fiber_call (AKFiber 0 false false 2) [AKNil]
     = NErr ERuntime "Cannot call a finished fiber."
  /\ run_native false Fiber_yield AKClass [] = NErr ERuntime "Cannot yield from module-level code."
  /\ run_native false Vec_pop (AKVec 0) [] = NErr ERuntime "Cannot pop from empty Vec instance."
  /\ run_native false VecIter_next (AKIter ItVec 3 2) [] = NOk RKStop
  /\ run_native false VecIter_next (AKIter ItVec 1 2) [] = NOk RKAny
  /\ run_native false TupleIter_next (AKIter ItTuple 2 2) [] = NOk RKStop.
Proof. vm_compute. repeat split. Qed.

(* ------------------------------------------------------------------------------------------ *)
(** * receiver_kind_refuted: a user class deriving from a native-object class reaches the native
      with an instance receiver *)

(* exactly these natives panic on an instance receiver (at their own arity; fiber_call at any) *)
Theorem receiver_kind_refuted :
  (forall n, recv_panics n = true ->
             forall in_fiber, is_panic (run_native in_fiber n AKInstance (witness_args n)) = true)
  /\ (forall n, recv_panics n = false ->
                forall in_fiber args, shape_ok n args ->
                                      is_panic (run_native in_fiber n AKInstance args) = false)
  /\ filter recv_panics all_natives =
     [String_iter; String_len; String_is_alpha; String_is_digit; String_is_hexdigit;
      String_count_chars; String_char_byte_index; String_find; String_replace; String_split;
      String_starts_with; String_ends_with; String_to_num; String_to_bytes;
      String_to_code_points; StringIter_next; Tuple_len; Tuple_iter; TupleIter_next;
      Vec_push; Vec_pop; Vec_len; Vec_iter; VecIter_next; Range_iter; RangeIter_next;
      Map_has_key; Map_get; Map_insert; Map_remove; Map_clear; Map_len; Map_keys; Map_values;
      Map_items; Fiber_call; Fiber_has_finished].
Proof.
  split; [|split].
  - intros n H inf. destruct n; try discriminate H; reflexivity.
  - intros n H inf args Hs. destruct n; try discriminate H; cbn [run_native];
      try reflexivity; try (apply cna_np; intros _; reflexivity).
    + apply cna_np; intros Hn. apply len1 in Hn as [a ->]. destruct a; reflexivity.
    + apply cna_np; intros Hn. apply len1 in Hn as [a ->]. destruct a; try reflexivity.
      destruct (2 <? arity)%N; reflexivity.
    + apply amo_np. apply unload_fiber_np.
    + destruct (Nat.eqb (List.length args) 1); reflexivity.
  - reflexivity.
Qed.
Print Assumptions receiver_kind_refuted.

(* the witness of DESIGN.md: [#[derive(Vec)] class M {}  M.new().len()] *)
Example derive_vec_len_panics :
  run_native false Vec_len AKInstance [] = NPanic "core.rs:vec_len:expect ObjVec"
  /\ run_native false Fiber_call AKInstance [AKNil; AKNil; AKNil]
     = NPanic "core.rs:fiber_call:expect ObjFiber"
  /\ run_native false Vec_len AKInstance [AKNil] = NErr EType "Expected 0 parameters but found 1.".
Proof. vm_compute. repeat split. Qed.

(* ------------------------------------------------------------------------------------------ *)
(** * The rows compared with the regenerated source table (gen/NativesSrc.v) describe the model *)

Lemma recv_src_panics : forall n, is_core_native n = true ->
    String.eqb (recv_src n) "-" = negb (recv_panics n).
Proof. intros n H. destruct n; try discriminate H; reflexivity. Qed.

(* a literal arity in the row = the native answers a wrong argument count with a TypeError,
   whatever the receiver and the arguments are (when the arity check comes first) *)
Theorem arity_src_checked : forall n, is_core_native n = true ->
    arity_src n = show_nat (expected_args n) -> arity_first_src n = true ->
    forall in_fiber recv args, List.length args <> expected_args n ->
      exists m, run_native in_fiber n recv args = NErr EType m.
Proof.
  intros n Hc Ha Hf inf recv args Hl. apply PeanoNat.Nat.eqb_neq in Hl.
  destruct n; try discriminate Hc; try discriminate Hf; try (vm_compute in Ha; discriminate Ha);
    cbn [run_native expected_args] in *;
    unfold string_method, map_key_method, map_method0, check_num_args; rewrite Hl;
    eexists; reflexivity.
Qed.
Print Assumptions arity_src_checked.

(* a validated key: an unhashable key is a ValueError *)
Lemma key_src_checked : forall n, key_src n = true ->
    forall in_fiber k rest, has_hash k = false -> List.length (k :: rest) = expected_args n ->
      run_native in_fiber n AKMap (k :: rest)
      = NErr EValue "Cannot use unhashable value '{}' as HashMap key.".
Proof.
  intros n H inf k rest Hk Hl. destruct n; try discriminate H; cbn [run_native expected_args] in *;
    unfold map_key_method, check_num_args; rewrite Hl; cbn [Nat.eqb];
    unfold with_hash_map_key; rewrite Hk; reflexivity.
Qed.

(* ------------------------------------------------------------------------------------------ *)
(** * Corollaries of the bytecode verifier *)

(* verified code never reaches a panic / unchecked-memory site of the skeleton machine *)
Theorem verified_no_stuck : forall p n m, verify_program p = VOk n m ->
    forall f, In f p -> forall s, reachable false p f s -> succs false p f s <> None.
Proof. exact verify_sound. Qed.

(* at most FRAMES_MAX frames: call sites check before pushing *)
Theorem frames_bounded : forall b p,
    (forall f, In f p -> exists a, check_fn b p f a = true) ->
    forall ms, mreachable b p ms -> (List.length ms <= 64)%nat.
Proof.
  intros b p H ms Hr. exact (proj2 (program_sound b p H ms Hr)).
Qed.
Print Assumptions frames_bounded.

(* the value stack stays within STACK_MAX when every function keeps max_height * 64 <= 16384 *)
Theorem stack_bounded_partial : forall p n m,
    verify_program p = VOk n m -> stack_safe m = true ->
    forall ms, mreachable false p ms ->
      match ms with
      | [] => True
      | fr :: _ => (fr_base fr + h (fr_st fr) <= STACK_MAX)%N
      end.
Proof.
  intros p n m Hv Hs ms Hr. exact (proj2 (verified_program_safe p n m Hv Hs ms Hr)).
Qed.
Print Assumptions stack_bounded_partial.

(* ---- stack_bounded_refuted: the full statement is false of the faithful model ---- *)

Lemma wide_steps_ok : forallb wide_step_ok (map N.of_nat (seq 0 wide_width)) = true.
Proof. vm_compute. reflexivity. Qed.

Lemma fstate_eqb_simple_eq : forall s j, fstate_eqb_simple s (wide_st j) = true -> s = wide_st j.
Proof.
  intros [q hh hs cs pd ex] j H. unfold fstate_eqb_simple, wide_st in *. cbn in H.
  repeat (apply andb_prop in H as [H ?]).
  apply N.eqb_eq in H. subst q.
  match goal with X : (hh =? _)%N = true |- _ => apply N.eqb_eq in X; subst hh end.
  destruct hs; try discriminate. destruct cs; try discriminate. destruct pd; try discriminate.
  destruct ex; try discriminate. reflexivity.
Qed.

Lemma wide_step : forall j, (j < wide_width)%nat ->
    succs false p_wide f_wide (wide_st (N.of_nat j)) = Some [wide_st (N.of_nat (S j))].
Proof.
  intros j Hj. pose proof wide_steps_ok as H. rewrite forallb_forall in H.
  specialize (H (N.of_nat j)). unfold wide_step_ok in H.
  assert (Hin : In (N.of_nat j) (map N.of_nat (seq 0 wide_width))).
  { apply in_map. apply in_seq. lia. }
  specialize (H Hin).
  destruct (succs false p_wide f_wide (wide_st (N.of_nat j))) as [[|s' [|? ?]]|]; try discriminate H.
  apply fstate_eqb_simple_eq in H. rewrite H. f_equal. f_equal. f_equal. lia.
Qed.

(* the top frame runs its Nil instructions *)
Lemma wide_run : forall base rest j, (j <= wide_width)%nat ->
    mreachable false p_wide (mkFr 0 base (wide_st 0) :: rest) ->
    mreachable false p_wide (mkFr 0 base (wide_st (N.of_nat j)) :: rest).
Proof.
  intros base rest j. induction j as [|j IH]; intros Hj H0; [exact H0|].
  eapply mr_step; [apply IH; [lia | exact H0]|].
  eapply ms_local with (f := f_wide); [reflexivity | apply wide_step; lia | left; reflexivity].
Qed.

Definition wide_call_st : fstate := wide_st (N.of_nat wide_width).

(* k frames waiting at their Call below a fresh frame *)
Fixpoint wide_callers (k : nat) : list frame :=
  match k with
  | O => []
  | S k' => mkFr 0 (N.of_nat k' * N.of_nat wide_width) wide_call_st :: wide_callers k'
  end.

Lemma wide_callers_length : forall k, List.length (wide_callers k) = k.
Proof. induction k; cbn; congruence. Qed.

Lemma entry_wide : entry_state f_wide = wide_st 0.
Proof. reflexivity. Qed.

Lemma wide_frames : forall k, (k < 64)%nat ->
    mreachable false p_wide
               (mkFr 0 (N.of_nat k * N.of_nat wide_width) (wide_st 0) :: wide_callers k).
Proof.
  induction k as [|k IH]; intros Hk.
  - rewrite <- entry_wide. apply (mr_init false p_wide f_wide). reflexivity.
  - assert (Hk' : (k < 64)%nat) by lia. specialize (IH Hk').
    apply (wide_run _ _ wide_width (le_n _)) in IH. fold wide_call_st in IH.
    eapply mr_step; [exact IH|].
    cbn [wide_callers].
    replace (N.of_nat (S k) * N.of_nat wide_width)%N
      with (N.of_nat k * N.of_nat wide_width + h (wide_st (N.of_nat wide_width + 3)) - 1
            - 3)%N by (unfold wide_st; cbn [h]; lia).
    rewrite <- entry_wide.
    (* normal successor of Call 0 at height 301: pc + 2, height 301 *)
    assert (Hn : normal_succ false p_wide f_wide wide_call_st
                 = Some (mkS (N.of_nat wide_width + 2) (N.of_nat wide_width + 1) [] [] None XUnknown))
      by (vm_compute; reflexivity).
    replace (N.of_nat k * N.of_nat wide_width + h (wide_st (N.of_nat wide_width + 3)) - 1 - 3)%N
      with (N.of_nat k * N.of_nat wide_width
            + h (mkS (N.of_nat wide_width + 2) (N.of_nat wide_width + 1) [] [] None XUnknown) - 1)%N
      by (unfold wide_st; cbn [h]; lia).
    eapply ms_call with (f := f_wide) (g := f_wide) (n := 0%N);
      [reflexivity | vm_compute; reflexivity | exact Hn | reflexivity | reflexivity |].
    cbn [List.length]. rewrite wide_callers_length. change (N.to_nat FRAMES_MAX) with 64%nat. lia.
Qed.

Theorem stack_bounded_refuted :
  exists p n m ms,
    verify_program p = VOk n m
    /\ stack_safe m = false
    /\ mreachable false p ms
    /\ (List.length ms <= 64)%nat
    /\ match ms with
       | [] => False
       | fr :: _ => (STACK_MAX < fr_base fr + h (fr_st fr))%N
       end.
Proof.
  exists p_wide, 1%nat, 301%N,
    (mkFr 0 (N.of_nat 63 * N.of_nat wide_width) (wide_st 0) :: wide_callers 63).
  split; [vm_compute; reflexivity|].
  split; [vm_compute; reflexivity|].
  split; [apply wide_frames; lia|].
  split; [cbn [List.length]; rewrite wide_callers_length; lia|].
  vm_compute. reflexivity.
Qed.
Print Assumptions stack_bounded_refuted.

(* ------------------------------------------------------------------------------------------ *)
(** * Kind-dependent VM sites are only entered from the instruction that produces the right kind *)

Theorem site_preds_sound : forall b p f a,
    check_fn b p f a = true -> site_preds_ok b p f a = true ->
    forall s l s', reachable b p f s -> succs b p f s = Some l -> In s' l ->
    forall i nx rule, decode p f (pc s') = Some (i, nx) -> site_rule f (iop i) = Some rule ->
      (iop i = OpBuildString /\ ia i = 0%N)
      \/ exists j nxj, decode p f (pc s) = Some (j, nxj) /\ rule j = true.
Proof.
  intros b p f a Hc Hs s l s' Hr Hl Hin i nx rule Hd Hrule.
  destruct (check_sound b p f a Hc s Hr) as [_ Ha].
  apply in_annot_all_states in Ha.
  unfold site_preds_ok in Hs. rewrite forallb_forall in Hs. specialize (Hs s Ha).
  rewrite Hl in Hs. rewrite forallb_forall in Hs. specialize (Hs s' Hin).
  unfold edge_ok in Hs. rewrite Hd, Hrule in Hs.
  destruct (iop i) eqn:Eo; try discriminate Hrule;
    try (destruct (decode p f (pc s)) as [[j nxj]|]; [right; exists j, nxj; auto | discriminate Hs]).
  destruct (ia i) eqn:Ea; [left; auto|].
  destruct (decode p f (pc s)) as [[j nxj]|]; [right; exists j, nxj; auto | discriminate Hs].
Qed.
Print Assumptions site_preds_sound.

(* a verified function whose sites pass the predecessor check: every reachable state sitting AT a
   kind-dependent site was entered through an allowed producer *)
Corollary fn_sites_sound : forall b p f,
    fn_sites_ok b p f = true ->
    forall s', reachable b p f s' ->
    forall i nx rule, decode p f (pc s') = Some (i, nx) -> site_rule f (iop i) = Some rule ->
      (iop i = OpBuildString /\ ia i = 0%N)
      \/ exists s j nxj, reachable b p f s /\ decode p f (pc s) = Some (j, nxj) /\ rule j = true.
Proof.
  intros b p f H s' Hr i nx rule Hd Hrule. unfold fn_sites_ok in H.
  destruct (verify_fn b p f) as [a|q r] eqn:Ev; [|discriminate H].
  apply andb_prop in H as [Hs He]. apply verify_fn_ok in Ev.
  inversion Hr as [Heq | s l s0 Hrs Hl Hin Heq]; subst.
  - exfalso. unfold entry_not_site in He. cbn [entry_state pc] in Hd. rewrite Hd, Hrule in He.
    discriminate He.
  - destruct (site_preds_sound b p f a Ev Hs s l s' Hrs Hl Hin i nx rule Hd Hrule) as [L|[j [nxj [Hj Hrj]]]].
    + left; exact L.
    + right. exists s, j, nxj. auto.
Qed.
Print Assumptions fn_sites_sound.

(* the hypothesis is satisfiable: class with a method, string interpolation *)
Definition f_sites : fn :=
  (* Constant c0 ; Constant c0 ; FormatString ; BuildString 2 ; Pop ; Nil ; Return *)
  mkFn [0; 0; 0;  0; 0; 0;  35;  38; 2;  4;  1;  57]%N [CStr] 1 0.
Example fn_sites_ex : fn_sites_ok false [f_sites] f_sites = true.
Proof. vm_compute. reflexivity. Qed.
