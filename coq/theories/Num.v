(* Executable model of IEEE-754 binary64 numbers as yarel (Rust f64) uses them.
   DEFINITIONS ONLY.  Proofs live in NumProofs.v.
   Numbers are Coq.Floats.SpecFloat.spec_float at prec = 53, emax = 1024; only the
   axiom-free functions of SpecFloat are used. *)
From Coq Require Import ZArith List Bool.
From Coq Require Import Floats.SpecFloat.
From Coq Require Import Strings.Byte.
Import ListNotations.
Open Scope Z_scope.

Definition f64 := spec_float.
Definition prec : Z := 53.
Definition emax : Z := 1024.

Definition f64_valid (x : f64) : bool := valid_binary prec emax x.

Definition f64_zero : f64 := S754_zero false.
Definition f64_neg_zero : f64 := S754_zero true.
Definition f64_nan : f64 := S754_nan.
Definition f64_inf : f64 := S754_infinity false.
Definition f64_neg_inf : f64 := S754_infinity true.

(* ------------------------------------------------------------------ *)
(* Bit layout (unsigned 64-bit integer)                                *)

Definition two52 : Z := 4503599627370496.
Definition two53 : Z := 9007199254740992.
Definition two63 : Z := 9223372036854775808.
Definition two64 : Z := 18446744073709551616.
Definition two128 : Z := 340282366920938463463374607431768211456.

Definition sign_bit (s : bool) : Z := if s then two63 else 0.

Definition f64_of_bits (b0 : Z) : f64 :=
  let b := b0 mod two64 in
  let s := two63 <=? b in
  let ex := (b / two52) mod 2048 in
  let mant := b mod two52 in
  if ex =? 0 then
    match mant with
    | Zpos m => S754_finite s m (-1074)
    | _ => S754_zero s
    end
  else if ex =? 2047 then
    (if mant =? 0 then S754_infinity s else S754_nan)
  else
    match mant + two52 with
    | Zpos m => S754_finite s m (ex - 1075)
    | _ => S754_nan (* unreachable *)
    end.

Definition bits_of_f64 (x : f64) : Z :=
  match x with
  | S754_zero s => sign_bit s
  | S754_infinity s => sign_bit s + 2047 * two52
  | S754_nan => 9221120237041090560 (* 0x7ff8000000000000 *)
  | S754_finite s m e =>
    if Zpos m <? two52 then sign_bit s + Zpos m
    else sign_bit s + (e + 1075) * two52 + (Zpos m - two52)
  end.

(* ------------------------------------------------------------------ *)
(* Conversions from integers                                           *)

Definition f64_of_Z (z : Z) : f64 := binary_normalize prec emax z 0 false.
Definition f64_one : f64 := f64_of_Z 1.

(* ------------------------------------------------------------------ *)
(* Structural (bit-level) equality; differs from IEEE == on NaN and +-0 *)

Definition f64_eq_exact (a b : f64) : bool :=
  match a, b with
  | S754_zero s1, S754_zero s2 => Bool.eqb s1 s2
  | S754_infinity s1, S754_infinity s2 => Bool.eqb s1 s2
  | S754_nan, S754_nan => true
  | S754_finite s1 m1 e1, S754_finite s2 m2 e2 =>
    Bool.eqb s1 s2 && Pos.eqb m1 m2 && Z.eqb e1 e2
  | _, _ => false
  end.

(* ------------------------------------------------------------------ *)
(* Exact rational rounding, ties to even (pure Z arithmetic).          *)
(* round_ratio neg num den = the double nearest to (-1)^neg * num/den   *)
(* for num >= 0, den > 0.                                               *)

Definition emin_d : Z := -1074.   (* exponent of the least subnormal *)
Definition emax_d : Z := 971.     (* largest exponent of a 53-bit mantissa *)

(* floor (log2 (num/den)) for num, den > 0 *)
Definition ratio_log2 (num den : Z) : Z :=
  let l := Z.log2 num - Z.log2 den in
  if den * 2 ^ (Z.max l 0) <=? num * 2 ^ (Z.max (- l) 0) then l else l - 1.

Definition round_ratio (neg : bool) (num den : Z) : f64 :=
  if num <=? 0 then S754_zero neg else
  let e := Z.max emin_d (ratio_log2 num den - 52) in
  let n' := num * 2 ^ (Z.max (- e) 0) in
  let d' := den * 2 ^ (Z.max e 0) in
  let '(q, r) := Z.div_eucl n' d' in
  let q1 := match 2 * r ?= d' with
            | Lt => q
            | Eq => if Z.even q then q else q + 1
            | Gt => q + 1
            end in
  let '(q2, e2) := if q1 =? two53 then (two52, e + 1) else (q1, e) in
  match q2 with
  | Zpos m => if e2 <=? emax_d then S754_finite neg m e2 else S754_infinity neg
  | _ => S754_zero neg
  end.

(* ------------------------------------------------------------------ *)
(* Arithmetic                                                          *)

Definition fadd (a b : f64) : f64 := SFadd prec emax a b.
Definition fsub (a b : f64) : f64 := SFsub prec emax a b.
Definition fmul (a b : f64) : f64 := SFmul prec emax a b.
Definition fdiv (a b : f64) : f64 := SFdiv prec emax a b.
Definition fneg (a : f64) : f64 := SFopp a.
Definition fabs (a : f64) : f64 := SFabs a.

Definition feqb (a b : f64) : bool := SFeqb a b.
Definition fltb (a b : f64) : bool := SFltb a b.
Definition fgtb (a b : f64) : bool := SFltb b a.
Definition fleb (a b : f64) : bool := SFleb a b.
Definition fgeb (a b : f64) : bool := SFleb b a.

(* Rust `a % b` on f64 = C fmod: exact, sign of a. *)
Definition frem (a b : f64) : f64 :=
  match a, b with
  | S754_nan, _ | _, S754_nan => S754_nan
  | S754_infinity _, _ => S754_nan
  | _, S754_zero _ => S754_nan
  | _, S754_infinity _ => a
  | S754_zero _, S754_finite _ _ _ => a
  | S754_finite sa ma ea, S754_finite _ mb eb =>
    let e := Z.min ea eb in
    let A := Zpos ma * 2 ^ (ea - e) in
    let B := Zpos mb * 2 ^ (eb - e) in
    let R := A mod B in
    binary_normalize prec emax (cond_Zopp sa R) e sa
  end.

(* ------------------------------------------------------------------ *)
(* Truncation and casts                                                *)

(* integer part (toward zero) of a finite number, as a signed Z *)
Definition trunc_mag (m : positive) (e : Z) : Z :=
  if 0 <=? e then Zpos m * 2 ^ e else Zpos m / 2 ^ (- e).

Definition ftrunc (x : f64) : f64 :=
  match x with
  | S754_finite s m e =>
    if 0 <=? e then x
    else binary_normalize prec emax (cond_Zopp s (trunc_mag m e)) 0 s
  | _ => x
  end.

Definition is_integral (x : f64) : bool := feqb (ftrunc x) x.

Definition clamp (lo hi z : Z) : Z := if z <? lo then lo else if hi <? z then hi else z.

(* Rust `x as iN/uN`: NaN -> 0, saturating, truncation toward zero *)
Definition cast_int (lo hi : Z) (x : f64) : Z :=
  match x with
  | S754_nan => 0
  | S754_zero _ => 0
  | S754_infinity s => if s then lo else hi
  | S754_finite s m e => clamp lo hi (cond_Zopp s (trunc_mag m e))
  end.

Definition to_i64 (x : f64) : Z := cast_int (- two63) (two63 - 1) x.
Definition to_isize (x : f64) : Z := to_i64 x.
Definition to_u32 (x : f64) : Z := cast_int 0 4294967295 x.
Definition to_u8 (x : f64) : Z := cast_int 0 255 x.
Definition to_usize (x : f64) : Z := cast_int 0 (two64 - 1) x.
Definition to_u64 (x : f64) : Z := to_usize x.

(* ------------------------------------------------------------------ *)
(* Bitwise operators of vm.rs                                          *)

Definition wrap_i64 (z : Z) : Z := (z + two63) mod two64 - two63.

Definition bit_and (a b : f64) : f64 := f64_of_Z (Z.land (to_i64 a) (to_i64 b)).
Definition bit_or (a b : f64) : f64 := f64_of_Z (Z.lor (to_i64 a) (to_i64 b)).
Definition bit_xor (a b : f64) : f64 := f64_of_Z (Z.lxor (to_i64 a) (to_i64 b)).
Definition bit_not (a : f64) : f64 := f64_of_Z (- to_i64 a - 1).

(* (a as i64).checked_shl(b as u32).unwrap_or_default() as f64 *)
Definition shl (a b : f64) : f64 :=
  let s := to_u32 b in
  if 64 <=? s then f64_of_Z 0
  else f64_of_Z (wrap_i64 (Z.shiftl (to_i64 a) s)).

(* (a as i64).checked_shr(b as u32).unwrap_or_default() as f64 ; arithmetic shift *)
Definition shr (a b : f64) : f64 :=
  let s := to_u32 b in
  if 64 <=? s then f64_of_Z 0
  else f64_of_Z (Z.shiftr (to_i64 a) s).

(* ------------------------------------------------------------------ *)
(* utils::hash_number : wrapping u128 arithmetic on the widened 64-bit  *)
(* pattern, truncated to u64 at the end.                                *)

Definition hash_bits (b0 : Z) : Z :=
  let h := b0 mod two64 in
  (* hash = (!hash).wrapping_add(hash.wrapping_shl(18));   `!` is on u128 *)
  let h := ((two128 - 1 - h) + (h * 2 ^ 18) mod two128) mod two128 in
  (* hash = hash ^ hash.wrapping_shr(31); *)
  let h := Z.lxor h (h / 2 ^ 31) in
  (* hash = hash.wrapping_mul(21); *)
  let h := (h * 21) mod two128 in
  (* hash = hash ^ hash.wrapping_shr(11); *)
  let h := Z.lxor h (h / 2 ^ 11) in
  (* hash = hash.wrapping_add(hash.wrapping_shl(6)); *)
  let h := (h + (h * 2 ^ 6) mod two128) mod two128 in
  (* hash = hash ^ hash.wrapping_shr(22); *)
  let h := Z.lxor h (h / 2 ^ 22) in
  (* hash as u64 *)
  h mod two64.

Definition hash_number (x : f64) : Z := hash_bits (bits_of_f64 x).

(* ------------------------------------------------------------------ *)
(* hash::FnvHasher as used by Vm::new_gc_obj_string:                    *)
(* `impl Hash for str` = write(bytes); write_u8(0xff).                  *)

Definition fnv_step (h : Z) (c : byte) : Z :=
  ((Z.lxor h (Z.of_N (Byte.to_N c))) * 16777619) mod two64.

Definition fnv_write (h : Z) (l : list byte) : Z := fold_left fnv_step l h.

Definition fnv_hash (l : list byte) : Z :=
  fnv_step (fnv_write 2166136261 l) xff.
