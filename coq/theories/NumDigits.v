(* C19: the digit search of print_f64, continued (see NumShortest.v): candidates, search, round trip
   of every candidate, integrality, shortestness. *)
From Coq Require Import ZArith List Bool Lia.
From Coq Require Import Floats.SpecFloat.
From Coq Require Import Strings.Byte.
From YV Require Import Num NumText NumProofs NumTextProofs NumRound NumInterval NumShortest.
Import ListNotations.
Open Scope Z_scope.

(* ------------------------------------------------------------------ *)
(* Part 4: one level of the search                                      *)

Lemma sd_fields : forall m e,
  sd_v17 (sd_make m e) = (sX m e * ssc m e) / sD m e /\
  sd_rem (sd_make m e) = (sX m e * ssc m e) mod sD m e /\
  sd_D (sd_make m e) = sD m e /\ sd_j17 (sd_make m e) = sj17 m e.
Proof. intros m e. rewrite sd_make_eq. repeat split; reflexivity. Qed.

Lemma ssc_pos : forall m e, 0 < ssc m e.
Proof. intros. unfold ssc. apply Z.mul_pos_pos; [apply p2_pos|apply n10_pos]. Qed.
Lemma sD_pos : forall m e, 0 < sD m e.
Proof. intros. unfold sD. apply Z.mul_pos_pos; [apply n2_pos|apply p10_pos]. Qed.

(* x itself, in the units of the search, lies strictly inside the interval *)
Lemma xs_inside : forall m e, finite_ok m e ->
  sLo m e * ssc m e < sX m e * ssc m e < sHi m e * ssc m e /\ 0 < sX m e * ssc m e.
Proof.
  intros m e Hok. destruct (sd_basic m e Hok) as (HLo & HLX & HXH & _). pose proof (ssc_pos m e).
  repeat split; try (apply Z.mul_lt_mono_pos_r; lia). apply Z.mul_pos_pos; lia.
Qed.

(* decomposition  xs = lo * (P*D) + frac  used by sd_try *)
Lemma sd_decomp : forall xs D P, 0 <= xs -> 0 < D -> 0 < P ->
  let v17 := xs / D in let rem := xs mod D in
  let lo := v17 / P in let rest := v17 mod P in
  let frac := rest * D + rem in
  xs = lo * (P * D) + frac /\ 0 <= frac < P * D /\ 0 <= lo.
Proof.
  intros xs D P Hx HD HP v17 rem lo rest frac.
  pose proof (Z.div_mod xs D ltac:(lia)) as E1. pose proof (Z.mod_pos_bound xs D HD) as B1.
  pose proof (Z.div_mod v17 P ltac:(lia)) as E2. pose proof (Z.mod_pos_bound v17 P HP) as B2.
  fold v17 rem in E1, B1. fold lo rest in E2, B2.
  assert (0 <= v17) by (apply Z.div_pos; lia).
  assert (0 <= lo) by (apply Z.div_pos; lia).
  unfold frac. split; [|split; [|assumption]].
  - rewrite E1 at 1. rewrite E2 at 1. ring.
  - split; [nia|]. assert (rest * D <= (P - 1) * D) by (apply Z.mul_le_mono_nonneg_r; lia). nia.
Qed.

Lemma sd_try_sound : forall m e i d j, finite_ok m e -> 0 <= i ->
  sd_try (sd_make m e) i = Some (d, j) ->
  j = sj17 m e + i /\ 0 < d /\ sd_in (sd_make m e) (d * (10 ^ i * sD m e)) = true /\
  d <= (sX m e * ssc m e) / sD m e / 10 ^ i + 1.
Proof.
  intros m e i d j Hok Hi H. destruct (sd_fields m e) as (Fv & Fr & FD & Fj).
  destruct (xs_inside m e Hok) as [_ Hxs].
  destruct (sd_decomp (sX m e * ssc m e) (sD m e) (10 ^ i) ltac:(lia) (sD_pos m e) (pow10_pos i Hi))
    as (_ & _ & Hlo0).
  unfold sd_try in H. rewrite Fv, Fr, FD, Fj in H.
  set (lo := (sX m e * ssc m e) / sD m e / 10 ^ i) in *.
  set (frac := _ * sD m e + _) in H.
  destruct (frac =? 0).
  - destruct ((0 <? lo) && sd_in (sd_make m e) (lo * (10 ^ i * sD m e))) eqn:L; [|discriminate].
    inversion H; subst. apply andb_prop in L. destruct L as [L1 L2]. apply Z.ltb_lt in L1.
    repeat split; try lia. exact L2.
  - destruct (2 * frac ?= 10 ^ i * sD m e);
      destruct ((0 <? lo) && sd_in (sd_make m e) (lo * (10 ^ i * sD m e))) eqn:L;
      destruct (sd_in (sd_make m e) ((lo + 1) * (10 ^ i * sD m e))) eqn:Hh;
      try discriminate; inversion H; subst;
      try (apply andb_prop in L; destruct L as [L1 L2]; apply Z.ltb_lt in L1);
      repeat split; try lia; assumption.
Qed.

Lemma sd_try_complete : forall m e i t, finite_ok m e -> 0 <= i -> 0 < t ->
  sd_in (sd_make m e) (t * (10 ^ i * sD m e)) = true ->
  sd_try (sd_make m e) i <> None.
Proof.
  intros m e i t Hok Hi Ht Hin. destruct (sd_fields m e) as (Fv & Fr & FD & Fj).
  destruct (xs_inside m e Hok) as [[Hx1 Hx2] Hxs].
  pose proof (sD_pos m e) as HD. pose proof (pow10_pos i Hi) as HP.
  destruct (sd_decomp (sX m e * ssc m e) (sD m e) (10 ^ i) ltac:(lia) HD HP) as (Hdec & Hfrac & Hlo0).
  apply sd_in_cmp in Hin. destruct Hin as [Hin1 Hin2].
  unfold sd_try. rewrite Fv, Fr, FD, Fj.
  set (xs := sX m e * ssc m e) in *.
  set (lo := xs / sD m e / 10 ^ i) in *.
  set (frac := (xs / sD m e) mod 10 ^ i * sD m e + xs mod sD m e) in *.
  set (PD := 10 ^ i * sD m e) in *.
  assert (HPD : 0 < PD) by (unfold PD; apply Z.mul_pos_pos; lia).
  assert (Hlo_ok : t <= lo -> (0 <? lo) && sd_in (sd_make m e) (lo * PD) = true).
  { intros Hle. apply andb_true_intro. split; [apply Z.ltb_lt; lia|]. apply sd_in_cmp.
    assert (t * PD <= lo * PD) by (apply Z.mul_le_mono_nonneg_r; lia).
    split; [eapply cmp_le_r; [|exact Hin1]; assumption|apply cmp_of_lt; lia]. }
  assert (Hhi_ok : lo + 1 <= t -> sd_in (sd_make m e) ((lo + 1) * PD) = true).
  { intros Hle. apply sd_in_cmp.
    assert ((lo + 1) * PD <= t * PD) by (apply Z.mul_le_mono_nonneg_r; lia).
    split; [apply cmp_of_lt; lia|eapply cmp_le_l; [|exact Hin2]; assumption]. }
  assert (Hexact : frac = 0 -> (0 <? lo) && sd_in (sd_make m e) (lo * PD) = true).
  { intros F0. apply andb_true_intro. split; [apply Z.ltb_lt; nia|]. apply sd_in_cmp.
    split; apply cmp_of_lt; lia. }
  destruct (frac =? 0) eqn:F.
  - apply Z.eqb_eq in F. rewrite (Hexact F). discriminate.
  - destruct (Z_le_gt_dec t lo) as [Hle|Hgt].
    + rewrite (Hlo_ok Hle). destruct (2 * frac ?= PD); try discriminate.
      all: destruct (sd_in (sd_make m e) ((lo + 1) * PD)); discriminate.
    + rewrite (Hhi_ok ltac:(lia)). destruct (2 * frac ?= PD); try discriminate.
      destruct ((0 <? lo) && sd_in (sd_make m e) (lo * PD)); discriminate.
Qed.

(* ------------------------------------------------------------------ *)
(* Part 5: the search loop                                              *)

Lemma sd_search_some : forall f c i r, sd_search f c i = Some r ->
  exists i', i - Z.of_nat f < i' <= i /\ sd_try c i' = Some r.
Proof.
  induction f as [|f IH]; intros c i r H; cbn [sd_search] in H; [discriminate|].
  destruct (sd_try c i) as [r0|] eqn:T.
  - inversion H; subst. exists i. split; [lia|exact T].
  - destruct (IH _ _ _ H) as (i' & Hi' & Ht). exists i'. split; [lia|exact Ht].
Qed.

Lemma sd_search_hit : forall f c i i0, i - Z.of_nat f < i0 <= i -> sd_try c i0 <> None ->
  exists r i', i0 <= i' <= i /\ sd_search f c i = Some r /\ sd_try c i' = Some r.
Proof.
  induction f as [|f IH]; intros c i i0 Hr Hne; [lia|]. cbn [sd_search].
  destruct (sd_try c i) as [r0|] eqn:T.
  - exists r0, i. split; [lia|]. split; [reflexivity|exact T].
  - assert (i0 <> i) by (intros ->; congruence).
    destruct (IH c (i - 1) i0 ltac:(lia) Hne) as (r & i' & Hi' & Hs & Ht).
    exists r, i'. split; [lia|]. split; assumption.
Qed.

(* ------------------------------------------------------------------ *)
(* Part 6: a candidate inside the interval reads back as x              *)

(* units of the search  <->  split-power fractions *)
Lemma sd_scale_lo : forall m e st Y t i, 0 <= i ->
  (cmp st (Y * ssc m e) (t * (10 ^ i * sD m e)) <-> dy_dec st Y (se' m e) t (sj17 m e + i)).
Proof.
  intros m e st Y t i Hi. unfold dy_dec.
  apply (cmp_scale st _ _ _ _ (n10 (sj17 m e + i)) (n10 (sj17 m e)) (n10_pos _) (n10_pos _)).
  - unfold ssc. ring.
  - unfold sD. pose proof (dec_shift 1 (sj17 m e) i Hi) as E. rewrite !Z.mul_1_l in E.
    replace (t * (10 ^ i * (n2 (se' m e) * p10 (sj17 m e))) * n10 (sj17 m e + i))
      with (t * n2 (se' m e) * (10 ^ i * p10 (sj17 m e) * n10 (sj17 m e + i))) by ring.
    rewrite E. ring.
Qed.

Lemma sd_scale_hi : forall m e st Y t i, 0 <= i ->
  (cmp st (t * (10 ^ i * sD m e)) (Y * ssc m e) <-> dec_dy st t (sj17 m e + i) Y (se' m e)).
Proof.
  intros m e st Y t i Hi. unfold dec_dy.
  apply (cmp_scale st _ _ _ _ (n10 (sj17 m e + i)) (n10 (sj17 m e)) (n10_pos _) (n10_pos _)).
  - unfold sD. pose proof (dec_shift 1 (sj17 m e) i Hi) as E. rewrite !Z.mul_1_l in E.
    replace (t * (10 ^ i * (n2 (se' m e) * p10 (sj17 m e))) * n10 (sj17 m e + i))
      with (t * n2 (se' m e) * (10 ^ i * p10 (sj17 m e) * n10 (sj17 m e + i))) by ring.
    rewrite E. ring.
  - unfold ssc. ring.
Qed.

(* split-power fractions  ->  the scaled form of NumInterval *)
Lemma in_rint_of_dec : forall m e d j, finite_ok m e ->
  dy_dec (sst m) (sLo m e) (se' m e) d j -> dec_dy (sst m) d j (sHi m e) (se' m e) ->
  in_rint_s m e (d * p10 j * 2 ^ 1074) (2 ^ (e + 1074) * n10 j) (Zpos m * (2 ^ (e + 1074) * n10 j)).
Proof.
  intros m e d j Hok H1 H2. destruct (finite_ok_bounds m e Hok) as (He & Hm & _).
  destruct (sd_basic m e Hok) as (_ & _ & _ & He' & _).
  assert (K0 : 0 <= 1076) by lia. assert (K1 : 0 <= se' m e + 1076) by lia.
  apply (proj1 (dy_dec_scaled (sst m) (sLo m e) (se' m e) d j 1076 K0 K1)) in H1.
  apply (proj1 (dec_dy_scaled (sst m) (sHi m e) (se' m e) d j 1076 K0 K1)) in H2.
  replace (2 ^ 1076) with (4 * 2 ^ 1074) in H1, H2 by reflexivity.
  unfold in_rint_s. unfold sLo, sHi, se', sst in *.
  set (U := 2 ^ (e + 1074) * n10 j). set (A := d * p10 j * 2 ^ 1074) in *.
  destruct (narrow m e) eqn:N.
  - unfold narrow in N. apply andb_prop in N. destruct N as [Nm _]. apply Z.eqb_eq in Nm.
    assert (Ev : Z.even (Zpos m) = true) by (rewrite Nm; reflexivity). rewrite Ev in *. cbn [negb cmp] in *.
    replace (e - 2 + 1076) with (e + 1074) in * by lia.
    replace ((4 * Zpos m - 1) * n10 j * 2 ^ (e + 1074)) with (4 * (Zpos m * U) - U) in H1 by (unfold U; ring).
    replace ((4 * Zpos m + 2) * n10 j * 2 ^ (e + 1074)) with (4 * (Zpos m * U) + 2 * U) in H2 by (unfold U; ring).
    replace (d * p10 j * (4 * 2 ^ 1074)) with (4 * A) in * by (unfold A; ring). lia.
  - replace (e - 1 + 1076) with (1 + (e + 1074)) in * by lia.
    rewrite (Z.pow_add_r 2 1) in * by lia. change (2 ^ 1) with 2 in *.
    replace ((2 * Zpos m - 1) * n10 j * (2 * 2 ^ (e + 1074))) with (2 * (2 * (Zpos m * U) - U)) in H1 by (unfold U; ring).
    replace ((2 * Zpos m + 1) * n10 j * (2 * 2 ^ (e + 1074))) with (2 * (2 * (Zpos m * U) + U)) in H2 by (unfold U; ring).
    replace (d * p10 j * (4 * 2 ^ 1074)) with (4 * A) in * by (unfold A; ring).
    destruct (Z.even (Zpos m)); cbn [negb cmp] in *; lia.
Qed.

Lemma nearest_double_round_ratio : forall s d j, 0 < d -> -1100 <= j <= 310 ->
  nearest_double s d j = round_ratio s (d * p10 j) (n10 j).
Proof.
  intros s d j Hd Hj. unfold nearest_double.
  destruct (d <=? 0) eqn:E0; [apply Z.leb_le in E0; lia|].
  destruct (310 <? j) eqn:E1; [apply Z.ltb_lt in E1; lia|].
  destruct (j <? -1100) eqn:E2; [apply Z.ltb_lt in E2; lia|]. reflexivity.
Qed.

(* the candidate d * 10^j with j = j17 + i, once inside the interval, passes the re-check *)
Theorem cand_roundtrip : forall s m e i d, finite_ok m e -> 0 <= i -> 0 < d ->
  sd_in (sd_make m e) (d * (10 ^ i * sD m e)) = true ->
  cand_ok s (S754_finite s m e) (strip_zeros 20 d (sj17 m e + i)) = true.
Proof.
  intros s m e i d Hok Hi Hd Hin. apply sd_in_cmp in Hin. destruct Hin as [H1 H2].
  apply (sd_scale_lo m e _ _ _ i Hi) in H1. apply (sd_scale_hi m e _ _ _ i Hi) in H2.
  pose proof (sk_range m e Hok) as Hk.
  set (j := sj17 m e + i) in *. assert (Hj : -343 <= j) by (unfold j, sj17; lia).
  destruct (strip_zeros 20 d j) as [d' j'] eqn:S.
  pose proof (strip_zeros_eq _ _ _ _ _ S) as E1.
  destruct (strip_zeros_spec _ _ _ _ _ S) as (t & Ht & Hj' & _ & Hd').
  pose proof (norm_cand_eq d' j') as E2. cbv zeta in E2.
  unfold cand_ok. destruct (norm_cand (d', j')) as [dd ee] eqn:Nc. cbn [fst snd] in *.
  assert (Hdd : 0 < dd /\ -343 <= ee <= 0).
  { unfold norm_cand in Nc. cbn [fst snd] in Nc. destruct (0 <=? j') eqn:Ej; inversion Nc; subst.
    - apply Z.leb_le in Ej. split; [|lia]. apply Z.mul_pos_pos; [auto|apply pow10_pos; lia].
    - apply Z.leb_gt in Ej. split; [auto|lia]. }
  destruct Hdd as [Hdd Hee].
  apply (dy_dec_eq _ _ _ _ _ _ _ E1) in H1. apply (dy_dec_eq _ _ _ _ _ _ _ E2) in H1.
  apply (dec_dy_eq _ _ _ _ _ _ _ E1) in H2. apply (dec_dy_eq _ _ _ _ _ _ _ E2) in H2.
  apply andb_true_intro. split; [apply Z.ltb_lt; exact Hdd|].
  rewrite (nearest_double_round_ratio s dd ee Hdd ltac:(lia)).
  rewrite (round_ratio_interval_s s m e (dd * p10 ee) (n10 ee) Hok
             ltac:(apply Z.mul_pos_pos; [lia|apply p10_pos]) (n10_pos _)
             (in_rint_of_dec m e dd ee Hok H1 H2)).
  apply f64_eq_exact_refl.
Qed.
Print Assumptions cand_roundtrip.

(* ------------------------------------------------------------------ *)
(* Part 7: integral values print without a fraction part, and conversely *)

(* m * 2^e is an integer *)
Definition integral_fin (m : positive) (e : Z) : Prop := exists N, Zpos m * p2 e = N * n2 e.

Lemma integral_X : forall m e N, finite_ok m e -> Zpos m * p2 e = N * n2 e ->
  sX m e * p2 (se' m e) = N * n2 (se' m e) /\ 0 < N.
Proof.
  intros m e N Hok HN. destruct (finite_ok_bounds m e Hok) as (He & Hm & _).
  destruct (sd_basic m e Hok) as (_ & _ & _ & He' & Hval).
  assert (HNpos : 0 < N).
  { pose proof (p2_pos e). pose proof (n2_pos e). nia. }
  split; [|exact HNpos].
  set (K := 1080). specialize (Hval K ltac:(unfold K; lia)).
  assert (E1 : Zpos m * 2 ^ (e + K) = N * 2 ^ K).
  { rewrite <- (p2_split e K ltac:(unfold K; lia) ltac:(unfold K; lia)).
    rewrite <- (n2_split e K ltac:(unfold K; lia) ltac:(unfold K; lia)).
    rewrite !Z.mul_assoc. rewrite HN. reflexivity. }
  assert (P : 0 < 2 ^ (K - Z.max (- se' m e) 0)) by (apply pow2_pos; unfold K; lia).
  apply (Z.mul_cancel_r _ _ (2 ^ (K - Z.max (- se' m e) 0))); [lia|].
  rewrite <- !Z.mul_assoc.
  rewrite (p2_split (se' m e) K ltac:(unfold K; lia) ltac:(unfold K; lia)).
  rewrite (n2_split (se' m e) K ltac:(unfold K; lia) ltac:(unfold K; lia)). lia.
Qed.

Lemma pow10_lt_inv : forall a b, 0 <= a -> 0 <= b -> 10 ^ a < 10 ^ b -> a < b.
Proof. intros a b Ha Hb H. apply (Z.pow_lt_mono_r_iff 10); lia. Qed.

Theorem shortest_digits_integral : forall s m e, finite_ok m e -> integral_fin m e ->
  0 <= snd (shortest_digits s m e).
Proof.
  intros s m e Hok [N HN]. destruct (finite_ok_bounds m e Hok) as (He & Hm & _).
  destruct (integral_X m e N Hok HN) as [HX HNpos].
  destruct (sk_spec m e Hok) as [K1 K2]. unfold dec_dy, dy_dec in K1, K2. cbn [cmp] in K1, K2.
  rewrite !Z.mul_1_l in K1, K2.
  pose proof (n2_pos (se' m e)) as Pn2.
  (* 10^sk <= N < 10^(sk+1) *)
  assert (K1' : p10 (sk m e) <= N * n10 (sk m e)).
  { replace (sX m e * p2 (se' m e) * n10 (sk m e)) with (N * n10 (sk m e) * n2 (se' m e)) in K1 by (rewrite HX; ring).
    apply (Z.mul_le_mono_pos_r _ _ (n2 (se' m e))); assumption. }
  assert (K2' : N * n10 (sk m e + 1) < p10 (sk m e + 1)).
  { replace (sX m e * p2 (se' m e) * n10 (sk m e + 1)) with (N * n10 (sk m e + 1) * n2 (se' m e)) in K2 by (rewrite HX; ring).
    apply (Z.mul_lt_mono_pos_r (n2 (se' m e))); assumption. }
  assert (Hk0 : 0 <= sk m e).
  { destruct (Z_lt_ge_dec (sk m e) 0) as [Hneg|]; [exfalso|lia].
    unfold p10, n10 in K2'. replace (Z.max (sk m e + 1) 0) with 0 in K2' by lia.
    change (10 ^ 0) with 1 in K2'. pose proof (pow10_pos (Z.max (- (sk m e + 1)) 0) ltac:(lia)). nia. }
  assert (Hbig : e < 0 -> sk m e <= 15).
  { intros Hneg. destruct (Z_le_gt_dec (sk m e) 15) as [|Hgt]; [assumption|exfalso].
    unfold p10, n10 in K1'. replace (Z.max (- sk m e) 0) with 0 in K1' by lia.
    replace (Z.max (sk m e) 0) with (sk m e) in K1' by lia. change (10 ^ 0) with 1 in K1'.
    assert (10 ^ 16 <= 10 ^ sk m e) by (apply Z.pow_le_mono_r; lia).
    unfold p2, n2 in HN. replace (Z.max e 0) with 0 in HN by lia. replace (Z.max (- e) 0) with (- e) in HN by lia.
    change (2 ^ 0) with 1 in HN.
    assert (2 <= 2 ^ (- e)) by (change 2 with (2 ^ 1) at 1; apply Z.pow_le_mono_r; lia).
    assert (10 ^ 16 > two53) by reflexivity. unfold two53 in *. nia. }
  assert (Hhit : sk m e <= 15 -> exists r i', 16 - sk m e <= i' <= 16 /\
             sd_search 17 (sd_make m e) 16 = Some r /\ sd_try (sd_make m e) i' = Some r).
  { intros Hk. apply sd_search_hit; [change (Z.of_nat 17) with 17; lia|].
    apply (sd_try_complete m e (16 - sk m e) N Hok ltac:(lia) HNpos).
    apply sd_in_cmp. destruct (sd_basic m e Hok) as (HLo & HLX & HXH & _).
    split.
    - apply (sd_scale_lo m e (sst m) (sLo m e) N (16 - sk m e) ltac:(lia)).
      unfold sj17. replace (sk m e - 16 + (16 - sk m e)) with 0 by lia. unfold dy_dec.
      change (n10 0) with 1. change (p10 0) with 1. rewrite !Z.mul_1_r. rewrite <- HX.
      apply cmp_of_lt. apply Z.mul_lt_mono_pos_r; [apply p2_pos|lia].
    - apply (sd_scale_hi m e (sst m) (sHi m e) N (16 - sk m e) ltac:(lia)).
      unfold sj17. replace (sk m e - 16 + (16 - sk m e)) with 0 by lia. unfold dec_dy.
      change (n10 0) with 1. change (p10 0) with 1. rewrite !Z.mul_1_r. rewrite <- HX.
      apply cmp_of_lt. apply Z.mul_lt_mono_pos_r; [apply p2_pos|lia]. }
  unfold shortest_digits. rewrite (exact_cand_ok s m e Hok).
  destruct (sd_search 17 (sd_make m e) 16) as [[d j]|] eqn:S.
  - destruct (sd_search_some _ _ _ _ S) as (i' & Hi' & Ht). change (Z.of_nat 17) with 17 in Hi'.
    destruct (sd_try_sound m e i' d j Hok ltac:(lia) Ht) as (Hj & Hd & Hin & _).
    pose proof (cand_roundtrip s m e i' d Hok ltac:(lia) Hd Hin) as Hc. rewrite <- Hj in Hc. rewrite Hc.
    destruct (strip_zeros 20 d j) as [d' j'] eqn:St. cbn [snd].
    destruct (strip_zeros_spec _ _ _ _ _ St) as (t & Ht0 & Hj' & _).
    assert (0 <= j); [|lia].
    destruct (Z_le_gt_dec (sk m e) 15) as [Hk|Hk].
    + destruct (Hhit Hk) as (r & i'' & Hi'' & Hs & Ht'). assert (r = (d, j)) by congruence. subst r.
      destruct (sd_try_sound m e i'' d j Hok ltac:(lia) Ht') as (Hj2 & _). unfold sj17 in Hj2. lia.
    + unfold sj17 in Hj. lia.
  - destruct (Z_lt_ge_dec e 0) as [Hneg|Hpos].
    + destruct (Hhit (Hbig Hneg)) as (r & i'' & _ & Hs & _). congruence.
    + unfold exact_digits. destruct (0 <=? e) eqn:E; [cbn; lia|apply Z.leb_gt in E; lia].
Qed.
Print Assumptions shortest_digits_integral.

Lemma all_digits_no_dot : forall l, all_digits l = true -> ~ In "."%byte l.
Proof.
  intros l H Hin. unfold all_digits in H. rewrite forallb_forall in H. specialize (H _ Hin). discriminate.
Qed.

Lemma render_dot_iff : forall d e10, In "."%byte (render d e10) <-> e10 < 0.
Proof.
  intros d e10. unfold render. destruct (0 <=? e10) eqn:E.
  - apply Z.leb_le in E. split; [|lia]. intros Hin. exfalso.
    apply (all_digits_no_dot (digits_of_Z d ++ zeros (Z.to_nat e10))); [|exact Hin].
    rewrite all_digits_app, digits_of_Z_all, all_digits_zeros. reflexivity.
  - apply Z.leb_gt in E. split; [intros _; exact E|intros _].
    destruct (_ <? _)%nat; [apply in_or_app; right; left; reflexivity|right; left; reflexivity].
Qed.

Lemma print_dot_iff : forall s m e,
  In "."%byte (print_f64 (S754_finite s m e)) <-> snd (shortest_digits s m e) < 0.
Proof.
  intros s m e. cbn [print_f64]. destruct (shortest_digits s m e) as [d e10]. cbn [snd].
  rewrite <- render_dot_iff. split.
  - intros H. apply in_app_or in H. destruct H as [H|H]; [|exact H].
    destruct s; cbn in H; [destruct H as [H|[]]; discriminate|destruct H].
  - intros H. apply in_or_app. right. exact H.
Qed.

(* (1) integral values print as -?[0-9]+ *)
Theorem integral_prints_without_fraction : forall s m e, finite_ok m e -> integral_fin m e ->
  ~ In "."%byte (print_f64 (S754_finite s m e)).
Proof.
  intros s m e Hok Hint H. apply print_dot_iff in H.
  pose proof (shortest_digits_integral s m e Hok Hint). lia.
Qed.
Print Assumptions integral_prints_without_fraction.

(* the double nearest to a positive integer is integral *)
Lemma round_ratio_int_integral : forall neg N s m e, 0 < N ->
  round_ratio neg N 1 = S754_finite s m e -> integral_fin m e.
Proof.
  intros neg N s m e HN H.
  pose proof (log2_bounds N HN) as [L1 L2]. pose proof (Z.log2_nonneg N) as L0.
  destruct (Z_lt_ge_dec (Z.log2 N) 53) as [Hs|Hb].
  - (* N < 2^53 is representable *)
    set (L := Z.log2 N) in *.
    assert (P : 0 < 2 ^ (52 - L)) by (apply pow2_pos; lia).
    assert (B : two52 <= N * 2 ^ (52 - L) < two53).
    { assert (E52 : two52 = 2 ^ L * 2 ^ (52 - L)).
      { rewrite <- Z.pow_add_r by lia. replace (L + (52 - L)) with 52 by lia. reflexivity. }
      assert (E53 : two53 = 2 ^ (L + 1) * 2 ^ (52 - L)).
      { rewrite <- Z.pow_add_r by lia. replace (L + 1 + (52 - L)) with 53 by lia. reflexivity. }
      rewrite E52, E53. split; [apply Z.mul_le_mono_nonneg_r; lia|apply Z.mul_lt_mono_pos_r; lia]. }
    destruct (N * 2 ^ (52 - L)) as [|m'|m'] eqn:Em; try (unfold two52 in B; lia).
    assert (Hok : finite_ok m' (L - 52)) by (left; lia).
    rewrite (round_ratio_exact neg m' (L - 52) N 1 Hok ltac:(lia)) in H.
    + inversion H; subst. exists N. unfold p2, n2.
      replace (Z.max (L - 52) 0) with 0 by lia. replace (Z.max (- (L - 52)) 0) with (52 - L) by lia.
      change (2 ^ 0) with 1. lia.
    + replace (Z.max (L - 52) 0) with 0 by lia. replace (Z.max (- (L - 52)) 0) with (52 - L) by lia.
      change (2 ^ 0) with 1. lia.
  - (* N >= 2^53: the result has a non-negative exponent *)
    destruct (round_ratio_cases neg N 1 HN ltac:(lia)) as (e0 & q1 & He0 & Hq1 & _ & _ & Heq & _ & _ & Hedef).
    rewrite (ratio_log2_exact N 1 N 0 HN ltac:(lia) HN ltac:(cbn; lia)) in Hedef.
    rewrite Heq in H.
    assert (0 <= e).
    { destruct (q1 =? two53).
      - change two52 with (Zpos 4503599627370496) in H. destruct (e0 + 1 <=? emax_d); [|discriminate].
        inversion H. lia.
      - destruct q1 as [|p|p]; try discriminate. destruct (e0 <=? emax_d); [|discriminate].
        inversion H. lia. }
    exists (Zpos m * 2 ^ e). unfold p2, n2.
    replace (Z.max e 0) with e by lia. replace (Z.max (- e) 0) with 0 by lia. change (2 ^ 0) with 1. lia.
Qed.

(* (1, converse) a printed text without '.' denotes an integral value *)
Theorem print_without_fraction_integral : forall s m e, finite_ok m e ->
  ~ In "."%byte (print_f64 (S754_finite s m e)) -> integral_fin m e.
Proof.
  intros s m e Hok Hno.
  assert (He10 : 0 <= snd (shortest_digits s m e)).
  { destruct (Z_lt_ge_dec (snd (shortest_digits s m e)) 0) as [Hlt|]; [|lia].
    apply print_dot_iff in Hlt. contradiction. }
  pose proof (shortest_digits_ok s m e Hok) as Hc.
  destruct (shortest_digits s m e) as [d e10]. cbn [snd] in He10.
  apply cand_ok_spec in Hc. destruct Hc as [Hd Hn].
  unfold norm_cand in Hn. cbn [fst snd] in Hn.
  destruct (0 <=? e10) eqn:E; [|apply Z.leb_gt in E; lia]. cbn [fst snd] in Hn.
  assert (HN : 0 < d * 10 ^ e10) by (apply Z.mul_pos_pos; [lia|apply pow10_pos; lia]).
  rewrite (nearest_double_round_ratio s _ 0 HN ltac:(lia)) in Hn.
  change (p10 0) with 1 in Hn. change (n10 0) with 1 in Hn. rewrite Z.mul_1_r in Hn.
  exact (round_ratio_int_integral s _ s m e HN Hn).
Qed.
Print Assumptions print_without_fraction_integral.

(* ------------------------------------------------------------------ *)
(* Part 8: shortestness                                                 *)

Lemma dec_of_in_rint : forall m e d j, finite_ok m e ->
  in_rint_s m e (d * p10 j * 2 ^ 1074) (2 ^ (e + 1074) * n10 j) (Zpos m * (2 ^ (e + 1074) * n10 j)) ->
  dy_dec (sst m) (sLo m e) (se' m e) d j /\ dec_dy (sst m) d j (sHi m e) (se' m e).
Proof.
  intros m e d j Hok Hin. destruct (finite_ok_bounds m e Hok) as (He & Hm & _).
  destruct (sd_basic m e Hok) as (_ & _ & _ & He' & _).
  assert (K0 : 0 <= 1076) by lia. assert (K1 : 0 <= se' m e + 1076) by lia.
  rewrite (dy_dec_scaled (sst m) (sLo m e) (se' m e) d j 1076 K0 K1).
  rewrite (dec_dy_scaled (sst m) (sHi m e) (se' m e) d j 1076 K0 K1).
  replace (2 ^ 1076) with (4 * 2 ^ 1074) by reflexivity.
  unfold in_rint_s in Hin. unfold sLo, sHi, se', sst in *.
  set (U := 2 ^ (e + 1074) * n10 j) in *. set (A := d * p10 j * 2 ^ 1074) in *.
  destruct (narrow m e) eqn:N.
  - unfold narrow in N. apply andb_prop in N. destruct N as [Nm _]. apply Z.eqb_eq in Nm.
    assert (Ev : Z.even (Zpos m) = true) by (rewrite Nm; reflexivity). rewrite Ev in *. cbn [negb cmp] in *.
    replace (e - 2 + 1076) with (e + 1074) in * by lia.
    replace ((4 * Zpos m - 1) * n10 j * 2 ^ (e + 1074)) with (4 * (Zpos m * U) - U) by (unfold U; ring).
    replace ((4 * Zpos m + 2) * n10 j * 2 ^ (e + 1074)) with (4 * (Zpos m * U) + 2 * U) by (unfold U; ring).
    replace (d * p10 j * (4 * 2 ^ 1074)) with (4 * A) by (unfold A; ring). lia.
  - replace (e - 1 + 1076) with (1 + (e + 1074)) in * by lia.
    rewrite (Z.pow_add_r 2 1) in * by lia. change (2 ^ 1) with 2 in *.
    replace ((2 * Zpos m - 1) * n10 j * (2 * 2 ^ (e + 1074))) with (2 * (2 * (Zpos m * U) - U)) by (unfold U; ring).
    replace ((2 * Zpos m + 1) * n10 j * (2 * 2 ^ (e + 1074))) with (2 * (2 * (Zpos m * U) + U)) by (unfold U; ring).
    replace (d * p10 j * (4 * 2 ^ 1074)) with (4 * A) by (unfold A; ring).
    destruct (Z.even (Zpos m)); cbn [negb cmp] in *; lia.
Qed.

(* a decimal that reads back as x lies in the rounding interval of x *)
Lemma nearest_double_in_interval : forall s m e d j, finite_ok m e -> 0 < d ->
  nearest_double s d j = S754_finite s m e ->
  dy_dec (sst m) (sLo m e) (se' m e) d j /\ dec_dy (sst m) d j (sHi m e) (se' m e).
Proof.
  intros s m e d j Hok Hd H. unfold nearest_double in H.
  destruct (d <=? 0) eqn:E0; [apply Z.leb_le in E0; lia|].
  destruct (310 <? j); [discriminate|].
  destruct ((j <? -1100) && _); [discriminate|].
  fold (p10 j) in H. fold (n10 j) in H.
  apply round_ratio_interval_inv_s in H; [|apply Z.mul_pos_pos; [lia|apply p10_pos]|apply n10_pos].
  destruct H as [_ H]. apply dec_of_in_rint; assumption.
Qed.

Lemma strip_zeros_le : forall f d j, 0 < d -> 0 < fst (strip_zeros f d j) <= d.
Proof.
  intros f d j Hd. destruct (strip_zeros f d j) as [d' j'] eqn:S.
  destruct (strip_zeros_spec _ _ _ _ _ S) as (t & Ht & _ & E & Hp). cbn [fst].
  specialize (Hp Hd). pose proof (pow10_pos t Ht). split; [exact Hp|]. nia.
Qed.

Lemma strip_zeros_lt : forall f d j, 0 < d -> d mod 10 = 0 -> fst (strip_zeros (S f) d j) < d.
Proof.
  intros f d j Hd Hm. cbn [strip_zeros].
  destruct (0 <? d) eqn:E1; [|apply Z.ltb_ge in E1; lia]. rewrite Hm. cbn [andb Z.eqb].
  pose proof (Z.div_mod d 10 ltac:(lia)) as Hdm. rewrite Hm in Hdm.
  pose proof (strip_zeros_le f (d / 10) (j + 1) ltac:(lia)). lia.
Qed.

Lemma pow10_split_le : forall a b c, a + Z.max b 0 + Z.max (- c) 0 <= Z.max c 0 + Z.max (- b) 0 -> 0 <= a ->
  10 ^ a * p10 b * n10 c <= p10 c * n10 b.
Proof.
  intros a b c H Ha. unfold p10, n10. rewrite <- !Z.pow_add_r by lia. apply Z.pow_le_mono_r; lia.
Qed.

(* if level i0 has a candidate, the result has at most 17 - i0 digits *)
Lemma shortest_digits_level : forall s m e i0, finite_ok m e -> 0 <= i0 <= 16 ->
  sd_try (sd_make m e) i0 <> None -> fst (shortest_digits s m e) < 10 ^ (17 - i0).
Proof.
  intros s m e i0 Hok Hi0 Hne. set (n := 17 - i0).
  destruct (sk_spec m e Hok) as [K1 K2].
  destruct (sd_search_hit 17 (sd_make m e) 16 i0 ltac:(change (Z.of_nat 17) with 17; lia) Hne)
    as ([d j] & i' & Hi' & Hs & Ht').
  destruct (sd_try_sound m e i' d j Hok ltac:(lia) Ht') as (Hj & Hd & Hin & Hub).
  pose proof (cand_roundtrip s m e i' d Hok ltac:(lia) Hd Hin) as Hc. rewrite <- Hj in Hc.
  unfold shortest_digits. rewrite Hs, Hc.
  (* size of the candidate *)
  assert (Hv17 : sX m e * ssc m e / sD m e < 10 ^ 17).
  { apply Z.div_lt_upper_bound; [apply sD_pos|].
    pose proof (proj2 (sd_scale_lo m e true (sX m e) 1 17 ltac:(lia))) as Hs17.
    unfold sj17 in Hs17. replace (sk m e - 16 + 17) with (sk m e + 1) in Hs17 by lia.
    specialize (Hs17 K2). cbn [cmp] in Hs17. lia. }
  assert (Hd10 : d <= 10 ^ n).
  { assert (sX m e * ssc m e / sD m e / 10 ^ i' < 10 ^ (17 - i')).
    { apply Z.div_lt_upper_bound; [apply pow10_pos; lia|].
      rewrite <- Z.pow_add_r by lia. replace (i' + (17 - i')) with 17 by lia. exact Hv17. }
    assert (10 ^ (17 - i') <= 10 ^ n) by (apply Z.pow_le_mono_r; unfold n in *; lia). lia. }
  destruct (Z.eq_dec d (10 ^ n)) as [Eq|Ne].
  - assert (d mod 10 = 0).
    { rewrite Eq. replace n with (1 + (n - 1)) by lia. rewrite Z.pow_add_r by lia. change (10 ^ 1) with 10.
      rewrite Z.mul_comm. apply Z.mod_mul. lia. }
    pose proof (strip_zeros_lt 19 d j Hd H). lia.
  - pose proof (strip_zeros_le 20 d j Hd). lia.
Qed.

Theorem print_is_shortest : forall s m e d' j' n, finite_ok m e -> 1 <= n <= 17 ->
  0 < d' < 10 ^ n -> nearest_double s d' j' = S754_finite s m e ->
  fst (shortest_digits s m e) < 10 ^ n.
Proof.
  intros s m e d' j' n Hok Hn Hd' Hnd.
  destruct (nearest_double_in_interval s m e d' j' Hok ltac:(lia) Hnd) as [C1 C2].
  destruct (sk_spec m e Hok) as [K1 K2].
  destruct (sd_basic m e Hok) as (HLo & HLX & HXH & _).
  set (i0 := 17 - n). set (j0 := sj17 m e + i0).
  assert (Hj0 : j0 = sk m e + 1 - n) by (unfold j0, i0, sj17; lia).
  (* some multiple of 10^j0 lies in the interval *)
  assert (Hex : exists t, 0 < t /\ dy_dec (sst m) (sLo m e) (se' m e) t j0 /\ dec_dy (sst m) t j0 (sHi m e) (se' m e)).
  { destruct (Z_le_gt_dec (p10 (sk m e) * n10 j') (d' * p10 j' * n10 (sk m e))) as [Hge|Hlt].
    - (* the decimal is at least 10^sk: it is itself such a multiple *)
      assert (Hjj : j0 <= j').
      { destruct (Z_le_gt_dec j0 j') as [|Hgt]; [assumption|exfalso].
        assert (d' * p10 j' * n10 (sk m e) < 10 ^ n * p10 j' * n10 (sk m e)).
        { apply Z.mul_lt_mono_pos_r; [apply n10_pos|]. apply Z.mul_lt_mono_pos_r; [apply p10_pos|lia]. }
        pose proof (pow10_split_le n j' (sk m e) ltac:(lia) ltac:(lia)). lia. }
      exists (d' * 10 ^ (j' - j0)).
      assert (E : d' * p10 j' * n10 j0 = d' * 10 ^ (j' - j0) * p10 j0 * n10 j').
      { pose proof (dec_shift d' j0 (j' - j0) ltac:(lia)) as E. replace (j0 + (j' - j0)) with j' in E by lia. lia. }
      split; [apply Z.mul_pos_pos; [lia|apply pow10_pos; lia]|].
      split; [apply (dy_dec_eq _ _ _ _ _ _ _ E); exact C1|apply (dec_dy_eq _ _ _ _ _ _ _ E); exact C2].
    - (* the decimal is below 10^sk <= x: take 10^sk *)
      exists (10 ^ (n - 1)).
      assert (E : 1 * p10 (sk m e) * n10 j0 = 10 ^ (n - 1) * p10 j0 * n10 (sk m e)).
      { pose proof (dec_shift 1 j0 (n - 1) ltac:(lia)) as E. replace (j0 + (n - 1)) with (sk m e) in E by lia. lia. }
      split; [apply pow10_pos; lia|]. split.
      + apply (dy_dec_eq _ _ _ _ _ _ _ E). unfold dy_dec. apply cmp_of_lt.
        unfold dy_dec in C1. apply cmp_weaken in C1.
        pose proof (rle_lt_trans (sLo m e * p2 (se' m e)) (n2 (se' m e)) (d' * p10 j') (n10 j') (p10 (sk m e)) (n10 (sk m e))
                      (n2_pos _) (n10_pos _) (n10_pos _) ltac:(lia) ltac:(lia)). lia.
      + apply (dec_dy_eq _ _ _ _ _ _ _ E). unfold dec_dy in *. cbn [cmp] in K1. apply cmp_of_lt.
        assert (sX m e * p2 (se' m e) * n10 (sk m e) < sHi m e * p2 (se' m e) * n10 (sk m e)).
        { apply Z.mul_lt_mono_pos_r; [apply n10_pos|]. apply Z.mul_lt_mono_pos_r; [apply p2_pos|lia]. }
        lia. }
  destruct Hex as (t & Ht & T1 & T2).
  assert (Hi0 : 0 <= i0 <= 16) by (unfold i0; lia).
  assert (Hne : sd_try (sd_make m e) i0 <> None).
  { apply (sd_try_complete m e i0 t Hok ltac:(lia) Ht). apply sd_in_cmp. split.
    - apply (sd_scale_lo m e (sst m) (sLo m e) t i0 ltac:(lia)). exact T1.
    - apply (sd_scale_hi m e (sst m) (sHi m e) t i0 ltac:(lia)). exact T2. }
  pose proof (shortest_digits_level s m e i0 Hok Hi0 Hne) as R. unfold i0 in R.
  replace (17 - (17 - n)) with n in R by lia. exact R.
Qed.
Print Assumptions print_is_shortest.

(* ------------------------------------------------------------------ *)
(* Part 9: 17 significant digits always suffice; the fallback is never taken *)

Lemma seventeen_suffice : forall m e, finite_ok m e -> sd_try (sd_make m e) 0 <> None.
Proof.
  intros m e Hok. destruct (finite_ok_bounds m e Hok) as (He & Hm & _).
  destruct (sk_spec m e Hok) as [K1 _]. unfold dec_dy in K1. cbn [cmp] in K1. rewrite Z.mul_1_l in K1.
  destruct (xs_inside m e Hok) as [[Hx1 Hx2] Hxs].
  pose proof (sD_pos m e) as HD. pose proof (ssc_pos m e) as Hsc.
  (* 10^16 * D <= X * sc *)
  assert (H16 : 10 ^ 16 * sD m e <= sX m e * ssc m e).
  { pose proof (dec_shift 1 (sj17 m e) 16 ltac:(lia)) as E. rewrite !Z.mul_1_l in E.
    unfold sj17 in E at 2 3. replace (sk m e - 16 + 16) with (sk m e) in E by lia.
    unfold sD, ssc. pose proof (n10_pos (sk m e)) as Pn.
    apply (Z.mul_le_mono_pos_r _ _ (n10 (sk m e)) Pn).
    replace (10 ^ 16 * (n2 (se' m e) * p10 (sj17 m e)) * n10 (sk m e))
      with (n2 (se' m e) * (10 ^ 16 * p10 (sj17 m e) * n10 (sk m e))) by ring.
    rewrite E.
    replace (n2 (se' m e) * (p10 (sk m e) * n10 (sj17 m e))) with (p10 (sk m e) * n2 (se' m e) * n10 (sj17 m e)) by ring.
    replace (sX m e * (p2 (se' m e) * n10 (sj17 m e)) * n10 (sk m e))
      with (sX m e * p2 (se' m e) * n10 (sk m e) * n10 (sj17 m e)) by ring.
    apply Z.mul_le_mono_nonneg_r; [pose proof (n10_pos (sj17 m e)); lia|exact K1]. }
  (* hence one unit of the 17th digit is less than two half-gaps *)
  assert (HX54 : sX m e <= 2 ^ 54).
  { unfold sX. change (2 ^ 54) with (4 * two52). change (2 ^ 54) with (2 * two53).
    destruct (narrow m e) eqn:N.
    - unfold narrow in N. apply andb_prop in N. destruct N as [N _]. apply Z.eqb_eq in N. lia.
    - unfold two52, two53 in *. lia. }
  assert (HD2 : sD m e < 2 * ssc m e).
  { assert (sX m e * ssc m e <= 2 ^ 54 * ssc m e) by (apply Z.mul_le_mono_nonneg_r; lia).
    assert (2 ^ 54 < 2 * 10 ^ 16) by reflexivity. nia. }
  assert (HLo : sLo m e = sX m e - 1) by (unfold sLo, sX; destruct (narrow m e); lia).
  assert (HHi : sX m e + 1 <= sHi m e) by (unfold sHi, sX; destruct (narrow m e); lia).
  set (xs := sX m e * ssc m e) in *.
  pose proof (Z.div_mod xs (sD m e) ltac:(lia)) as Edm. pose proof (Z.mod_pos_bound xs (sD m e) HD) as Bm.
  set (v17 := xs / sD m e) in *. set (rem := xs mod sD m e) in *.
  assert (Hv : 10 ^ 16 <= v17) by (apply Z.div_le_lower_bound; lia).
  assert (HLs : sLo m e * ssc m e = xs - ssc m e) by (rewrite HLo; unfold xs; ring).
  assert (HHs : xs + ssc m e <= sHi m e * ssc m e).
  { unfold xs. replace (sX m e * ssc m e + ssc m e) with ((sX m e + 1) * ssc m e) by ring.
    apply Z.mul_le_mono_nonneg_r; lia. }
  destruct (Z_lt_ge_dec rem (ssc m e)) as [Hr|Hr].
  - apply (sd_try_complete m e 0 v17 Hok ltac:(lia) ltac:(lia)). change (10 ^ 0) with 1. rewrite Z.mul_1_l.
    apply sd_in_cmp. split; apply cmp_of_lt; lia.
  - apply (sd_try_complete m e 0 (v17 + 1) Hok ltac:(lia) ltac:(lia)). change (10 ^ 0) with 1. rewrite Z.mul_1_l.
    apply sd_in_cmp. split; apply cmp_of_lt; lia.
Qed.

Theorem shortest_digits_at_most_17 : forall s m e, finite_ok m e ->
  0 < fst (shortest_digits s m e) < 10 ^ 17.
Proof.
  intros s m e Hok. split.
  - pose proof (shortest_digits_ok s m e Hok) as Hc. destruct (shortest_digits s m e) as [d j].
    apply cand_ok_spec in Hc. cbn [fst]. lia.
  - exact (shortest_digits_level s m e 0 Hok ltac:(lia) (seventeen_suffice m e Hok)).
Qed.

(* the search always succeeds and its result passes the re-check: print_f64 never uses the fallback *)
Theorem shortest_digits_no_fallback : forall s m e, finite_ok m e ->
  exists d j, sd_search 17 (sd_make m e) 16 = Some (d, j) /\
              shortest_digits s m e = strip_zeros 20 d j.
Proof.
  intros s m e Hok.
  destruct (sd_search_hit 17 (sd_make m e) 16 0 ltac:(change (Z.of_nat 17) with 17; lia) (seventeen_suffice m e Hok))
    as ([d j] & i' & Hi' & Hs & Ht').
  destruct (sd_try_sound m e i' d j Hok ltac:(lia) Ht') as (Hj & Hd & Hin & _).
  pose proof (cand_roundtrip s m e i' d Hok ltac:(lia) Hd Hin) as Hc. rewrite <- Hj in Hc.
  exists d, j. split; [exact Hs|]. unfold shortest_digits. rewrite Hs, Hc. reflexivity.
Qed.

(* (2) no decimal with fewer significant digits reads back as the same double *)
Theorem print_is_shortest_all : forall s m e d' j' n, finite_ok m e -> 1 <= n ->
  0 < d' < 10 ^ n -> nearest_double s d' j' = S754_finite s m e ->
  fst (shortest_digits s m e) < 10 ^ n.
Proof.
  intros s m e d' j' n Hok Hn Hd' Hnd.
  destruct (Z_le_gt_dec n 17) as [Hle|Hgt].
  - exact (print_is_shortest s m e d' j' n Hok ltac:(lia) Hd' Hnd).
  - pose proof (shortest_digits_at_most_17 s m e Hok) as [_ H17].
    assert (10 ^ 17 <= 10 ^ n) by (apply Z.pow_le_mono_r; lia). lia.
Qed.
Print Assumptions print_is_shortest_all.
Print Assumptions shortest_digits_no_fallback.

(* ------------------------------------------------------------------ *)
(* a decidable form of integrality, and its agreement with Num.is_integral on samples *)
Definition integral_finb (m : positive) (e : Z) : bool :=
  (0 <=? e) || (Zpos m mod 2 ^ (- e) =? 0).

Lemma integral_finb_iff : forall m e, integral_finb m e = true <-> integral_fin m e.
Proof.
  intros m e. unfold integral_finb, integral_fin, p2, n2. rewrite orb_true_iff, Z.leb_le, Z.eqb_eq. split.
  - intros [H|H].
    + exists (Zpos m * 2 ^ e). replace (Z.max e 0) with e by lia. replace (Z.max (- e) 0) with 0 by lia.
      change (2 ^ 0) with 1. lia.
    + destruct (Z_le_gt_dec 0 e) as [Hp|Hn].
      * exists (Zpos m * 2 ^ e). replace (Z.max e 0) with e by lia. replace (Z.max (- e) 0) with 0 by lia.
        change (2 ^ 0) with 1. lia.
      * exists (Zpos m / 2 ^ (- e)). replace (Z.max e 0) with 0 by lia. replace (Z.max (- e) 0) with (- e) by lia.
        change (2 ^ 0) with 1. assert (0 < 2 ^ (- e)) by (apply pow2_pos; lia).
        pose proof (Z.div_mod (Zpos m) (2 ^ (- e)) ltac:(lia)). lia.
  - intros [N HN]. destruct (Z_le_gt_dec 0 e) as [Hp|Hn]; [left; exact Hp|right].
    replace (Z.max e 0) with 0 in HN by lia. replace (Z.max (- e) 0) with (- e) in HN by lia.
    change (2 ^ 0) with 1 in HN. rewrite Z.mul_1_r in HN. rewrite HN. apply Z.mod_mul.
    assert (0 < 2 ^ (- e)) by (apply pow2_pos; lia). lia.
Qed.

(* Num.is_integral (x.trunc() == x) and the arithmetic predicate agree: 3.0, 0.5, 2^53, 2^60, 1e22, 5e-324, 4503599627370497.5 *)
Example is_integral_agrees :
  forallb (fun b => match f64_of_bits b with
                    | S754_finite s m e => Bool.eqb (is_integral (S754_finite s m e)) (integral_finb m e)
                    | _ => true
                    end)
          [4613937818241073152; 4602678819172646912; 4845873199050653696; 4877398396442247168;
           4921056587992461136; 1; 4841369599423283201; 13837309855095848960] = true.
Proof. vm_compute. reflexivity. Qed.
