(* C19: the rounding interval of a double.  `round_ratio` maps a positive rational to the double
   x = m*2^e  IF AND ONLY IF the rational lies between the two midpoints around x (bounds included
   exactly when m is even: ties go to even).  Pure Z arithmetic on top of NumRound.round_ratio_cases. *)
From Coq Require Import ZArith List Bool Lia.
From Coq Require Import Floats.SpecFloat.
From YV Require Import Num NumText NumProofs NumRound.
Open Scope Z_scope.

(* the lower neighbour of a power of two is only half as far away *)
Definition narrow (m : positive) (e : Z) : bool := (Zpos m =? two52) && (emin_d <? e).

(* scaled form: A = num * 2^1074, U = 2^(e+1074) * dn (one ulp of x), V = m * U (x itself) *)
Definition in_rint_s (m : positive) (e A U V : Z) : Prop :=
  if narrow m e then 4 * V - U <= 4 * A <= 4 * V + 2 * U
  else if Z.even (Zpos m) then 2 * V - U <= 2 * A <= 2 * V + U
       else 2 * V - U < 2 * A < 2 * V + U.

Lemma pow_step : forall a b, -1074 <= a -> a < b -> 2 * 2 ^ (a + 1074) <= 2 ^ (b + 1074).
Proof.
  intros a b Ha Hab. replace (b + 1074) with ((b - a - 1) + (1 + (a + 1074))) by lia.
  rewrite (Z.pow_add_r 2 (b - a - 1)) by lia. rewrite (Z.pow_add_r 2 1) by lia. change (2 ^ 1) with 2.
  assert (1 <= 2 ^ (b - a - 1)) by (pose proof (pow2_pos (b - a - 1) ltac:(lia)); lia).
  assert (0 < 2 ^ (a + 1074)) by (apply pow2_pos; lia). nia.
Qed.

(* a positive rational lies in exactly one binade *)
Lemma binade_unique : forall A dn e0 e1, 0 < dn -> -1074 <= e0 -> -1074 <= e1 ->
  A < two53 * (2 ^ (e0 + 1074) * dn) -> (-1074 < e0 -> two52 * (2 ^ (e0 + 1074) * dn) <= A) ->
  A < two53 * (2 ^ (e1 + 1074) * dn) -> (-1074 < e1 -> two52 * (2 ^ (e1 + 1074) * dn) <= A) ->
  e0 = e1.
Proof.
  intros A dn e0 e1 Hdn H0 H1 Hu0 Hl0 Hu1 Hl1.
  destruct (Z.lt_trichotomy e0 e1) as [Hlt|[Heq|Hgt]]; [|exact Heq|]; exfalso.
  - specialize (Hl1 ltac:(lia)). pose proof (pow_step e0 e1 H0 Hlt) as Hs.
    assert (2 * 2 ^ (e0 + 1074) * dn <= 2 ^ (e1 + 1074) * dn) by (apply Z.mul_le_mono_nonneg_r; lia).
    unfold two52, two53 in *. lia.
  - specialize (Hl0 ltac:(lia)). pose proof (pow_step e1 e0 H1 ltac:(lia)) as Hs.
    assert (2 * 2 ^ (e1 + 1074) * dn <= 2 ^ (e0 + 1074) * dn) by (apply Z.mul_le_mono_nonneg_r; lia).
    unfold two52, two53 in *. lia.
Qed.

(* the ties-to-even nearest integer is unique *)
Lemma nearest_unique : forall A U q1 m, 0 < U ->
  (forall k, Z.abs (A - q1 * U) <= Z.abs (A - k * U)) ->
  (2 * Z.abs (A - q1 * U) = U -> Z.even q1 = true) ->
  2 * Z.abs (A - m * U) <= U -> (2 * Z.abs (A - m * U) = U -> Z.even m = true) ->
  q1 = m.
Proof.
  intros A U q1 m HU Hn Ht Hm Hmt. specialize (Hn m).
  destruct (Z.eq_dec q1 m) as [|Hne]; [assumption|exfalso].
  assert (Hc : m + 1 <= q1 \/ q1 <= m - 1) by lia.
  destruct Hc as [Hc|Hc].
  - assert (Hw : (m + 1) * U <= q1 * U) by (apply Z.mul_le_mono_nonneg_r; lia).
    set (W := q1 * U) in *. set (V := m * U) in *.
    replace ((m + 1) * U) with (V + U) in Hw by (unfold V; ring).
    assert (E : 2 * Z.abs (A - W) = U /\ 2 * Z.abs (A - V) = U /\ W = V + U) by lia.
    destruct E as (E1 & E2 & E3). specialize (Ht E1). specialize (Hmt E2).
    assert (q1 = m + 1).
    { apply (Z.mul_cancel_r _ _ U); [lia|]. unfold W, V in E3. lia. }
    subst q1. rewrite Z.even_add in Ht. rewrite Hmt in Ht. discriminate.
  - assert (Hw : q1 * U <= (m - 1) * U) by (apply Z.mul_le_mono_nonneg_r; lia).
    set (W := q1 * U) in *. set (V := m * U) in *.
    replace ((m - 1) * U) with (V - U) in Hw by (unfold V; ring).
    assert (E : 2 * Z.abs (A - W) = U /\ 2 * Z.abs (A - V) = U /\ W = V - U) by lia.
    destruct E as (E1 & E2 & E3). specialize (Ht E1). specialize (Hmt E2).
    assert (q1 = m - 1).
    { apply (Z.mul_cancel_r _ _ U); [lia|]. unfold W, V in E3. lia. }
    subst q1. rewrite Z.even_sub in Ht. rewrite Hmt in Ht. discriminate.
Qed.

Lemma finite_ok_bounds : forall m e, finite_ok m e ->
  -1074 <= e <= 971 /\ 0 < Zpos m < two53 /\ (-1074 < e -> two52 <= Zpos m).
Proof. intros m e [[? ?]|[? ?]]; unfold two52, two53 in *; lia. Qed.

(* ---------------------------------------------------------------- *)
(* inside the interval  ==>  rounds to x                              *)
Theorem round_ratio_interval_s : forall neg m e num dn, finite_ok m e -> 0 < num -> 0 < dn ->
  in_rint_s m e (num * 2 ^ 1074) (2 ^ (e + 1074) * dn) (Zpos m * (2 ^ (e + 1074) * dn)) ->
  round_ratio neg num dn = S754_finite neg m e.
Proof.
  intros neg m e num dn Hok Hn Hd Hin.
  destruct (finite_ok_bounds m e Hok) as (He & Hm & Hnorm).
  destruct (round_ratio_cases neg num dn Hn Hd) as (e0 & q1 & He0 & Hq1 & Hnear & Hbig & Heq & Htie & Hup & _).
  set (A := num * 2 ^ 1074) in *.
  assert (HnearU : forall k, Z.abs (A - q1 * (2 ^ (e0 + 1074) * dn)) <= Z.abs (A - k * (2 ^ (e0 + 1074) * dn))).
  { intros k. specialize (Hnear k). rewrite <- !Z.mul_assoc in Hnear. exact Hnear. }
  rewrite <- !Z.mul_assoc in Htie, Hup. 
  assert (HbigU : -1074 < e0 -> two52 * (2 ^ (e0 + 1074) * dn) <= A).
  { intros H. destruct (Hbig H) as [Hb _]. rewrite <- !Z.mul_assoc in Hb. exact Hb. }
  clear Hnear Hbig.
  assert (PU : 0 < 2 ^ (e + 1074) * dn) by (apply Z.mul_pos_pos; [apply pow2_pos|]; lia).
  unfold in_rint_s in Hin.
  set (U := 2 ^ (e + 1074) * dn) in *. set (V := Zpos m * U) in *.
  assert (HVlo : -1074 < e -> two52 * U <= V).
  { intros H. unfold V. apply Z.mul_le_mono_nonneg_r; [lia|]. auto. }
  assert (HVhi : V + U <= two53 * U).
  { unfold V. replace (Zpos m * U + U) with ((Zpos m + 1) * U) by ring.
    apply Z.mul_le_mono_nonneg_r; lia. }
  destruct (narrow m e) eqn:Nw.
  - (* x is a power of two above the least binade *)
    unfold narrow in Nw. apply andb_prop in Nw. destruct Nw as [Nm Ne].
    apply Z.eqb_eq in Nm. apply Z.ltb_lt in Ne. unfold emin_d in Ne.
    assert (HV : V = two52 * U) by (unfold V; rewrite Nm; reflexivity).
    destruct (Z_lt_ge_dec A V) as [Hlow|Hhigh].
    + (* below x: one binade down, carried back up *)
      set (U1 := 2 ^ (e - 1 + 1074) * dn).
      assert (HU1 : U = 2 * U1).
      { unfold U, U1. replace (e + 1074) with (1 + (e - 1 + 1074)) by lia.
        rewrite (Z.pow_add_r 2 1) by lia. change (2 ^ 1) with 2. ring. }
      assert (PU1 : 0 < U1) by lia.
      assert (E0 : e0 = e - 1).
      { apply (binade_unique A dn e0 (e - 1) Hd He0 ltac:(lia) Hup HbigU); fold U1; unfold two52, two53 in *; lia. }
      subst e0. fold U1 in HnearU, Htie.
      assert (Q : q1 = two53).
      { apply (nearest_unique A U1 q1 two53 PU1 HnearU Htie); [unfold two52, two53 in *; lia|reflexivity]. }
      rewrite Heq, Q. rewrite Z.eqb_refl. change two52 with (Zpos 4503599627370496).
      replace (e - 1 + 1) with e by lia. unfold emax_d.
      destruct (e <=? 971) eqn:E9; [|apply Z.leb_gt in E9; lia].
      unfold two52 in Nm. inversion Nm. reflexivity.
    + (* at or above x *)
      assert (E0 : e0 = e).
      { apply (binade_unique A dn e0 e Hd He0 ltac:(lia) Hup HbigU); fold U; unfold two52, two53 in *; lia. }
      subst e0. fold U in HnearU, Htie.
      assert (Q : q1 = Zpos m).
      { apply (nearest_unique A U q1 (Zpos m) PU HnearU Htie); fold V; [lia|].
        intros _. rewrite Nm. reflexivity. }
      rewrite Heq, Q. destruct (Zpos m =? two53) eqn:E53; [apply Z.eqb_eq in E53; lia|].
      unfold emax_d. destruct (e <=? 971) eqn:E9; [reflexivity|apply Z.leb_gt in E9; lia].
  - (* ordinary case *)
    assert (Hnn : -1074 < e -> two52 + 1 <= Zpos m).
    { intros H. specialize (Hnorm H). unfold narrow in Nw. apply andb_false_iff in Nw.
      destruct Nw as [Nw|Nw]; [apply Z.eqb_neq in Nw; lia|apply Z.ltb_ge in Nw; unfold emin_d in Nw; lia]. }
    assert (HVlo' : -1074 < e -> two52 * U + U <= V).
    { intros H. unfold V. replace (two52 * U + U) with ((two52 + 1) * U) by ring.
      apply Z.mul_le_mono_nonneg_r; [lia|]. auto. }
    assert (Hw : 2 * V - U <= 2 * A <= 2 * V + U /\ (2 * Z.abs (A - V) = U -> Z.even (Zpos m) = true)).
    { destruct (Z.even (Zpos m)); [split; [lia|reflexivity]|split; lia]. }
    destruct Hw as [Hw Hwt].
    assert (E0 : e0 = e).
    { apply (binade_unique A dn e0 e Hd He0 ltac:(lia) Hup HbigU); fold U; [unfold two52, two53 in *; lia|].
      intros H. specialize (HVlo' H). unfold two52, two53 in *. lia. }
    subst e0. fold U in HnearU, Htie.
    assert (Q : q1 = Zpos m).
    { apply (nearest_unique A U q1 (Zpos m) PU HnearU Htie); fold V; [lia|exact Hwt]. }
    rewrite Heq, Q. destruct (Zpos m =? two53) eqn:E53; [apply Z.eqb_eq in E53; lia|].
    unfold emax_d. destruct (e <=? 971) eqn:E9; [reflexivity|apply Z.leb_gt in E9; lia].
Qed.
Print Assumptions round_ratio_interval_s.

(* ---------------------------------------------------------------- *)
(* rounds to x  ==>  inside the interval                              *)
Theorem round_ratio_interval_inv_s : forall neg s m e num dn, 0 < num -> 0 < dn ->
  round_ratio neg num dn = S754_finite s m e ->
  s = neg /\
  in_rint_s m e (num * 2 ^ 1074) (2 ^ (e + 1074) * dn) (Zpos m * (2 ^ (e + 1074) * dn)).
Proof.
  intros neg s m e num dn Hn Hd H.
  destruct (round_ratio_cases neg num dn Hn Hd) as (e0 & q1 & He0 & Hq1 & Hnear & Hbig & Heq & Htie & Hup & _).
  set (A := num * 2 ^ 1074) in *.
  rewrite <- !Z.mul_assoc in Htie, Hup.
  assert (PU0 : 0 < 2 ^ (e0 + 1074) * dn) by (apply Z.mul_pos_pos; [apply pow2_pos|]; lia).
  set (U0 := 2 ^ (e0 + 1074) * dn) in *.
  assert (Hhalf : 2 * Z.abs (A - q1 * U0) <= U0).
  { pose proof (Hnear (q1 + 1)) as H1. pose proof (Hnear (q1 - 1)) as H2.
    rewrite <- !Z.mul_assoc in H1, H2. fold U0 in H1, H2.
    replace ((q1 + 1) * U0) with (q1 * U0 + U0) in H1 by ring.
    replace ((q1 - 1) * U0) with (q1 * U0 - U0) in H2 by ring. lia. }
  assert (HbigU : -1074 < e0 -> two52 * U0 <= A).
  { intros Hb. destruct (Hbig Hb) as [Hb1 _]. rewrite <- !Z.mul_assoc in Hb1. exact Hb1. }
  rewrite Heq in H. clear Heq Hnear Hbig.
  destruct (q1 =? two53) eqn:E53.
  - (* carried: x = 2^52 * 2^(e0+1) *)
    apply Z.eqb_eq in E53. change two52 with (Zpos 4503599627370496) in H.
    destruct (e0 + 1 <=? emax_d); [|discriminate]. inversion H; subst s m e. split; [reflexivity|].
    unfold in_rint_s, narrow. change (Zpos 4503599627370496 =? two52) with true.
    destruct (emin_d <? e0 + 1) eqn:En; [|apply Z.ltb_ge in En; unfold emin_d in En; lia].
    cbn [andb].
    assert (HU : 2 ^ (e0 + 1 + 1074) * dn = 2 * U0).
    { unfold U0. replace (e0 + 1 + 1074) with (1 + (e0 + 1074)) by lia.
      rewrite (Z.pow_add_r 2 1) by lia. change (2 ^ 1) with 2. ring. }
    rewrite HU. rewrite E53 in Hhalf. unfold two53 in Hhalf. lia.
  - destruct q1 as [|p|p]; try discriminate.
    destruct (e0 <=? emax_d); [|discriminate]. inversion H; subst s m e. split; [reflexivity|].
    fold U0. unfold in_rint_s. destruct (narrow p e0) eqn:Nw.
    + unfold narrow in Nw. apply andb_prop in Nw. destruct Nw as [Nm Ne].
      apply Z.eqb_eq in Nm. apply Z.ltb_lt in Ne. unfold emin_d in Ne.
      specialize (HbigU ltac:(lia)). rewrite Nm in *. lia.
    + destruct (Z.even (Zpos p)) eqn:Ev; [lia|].
      assert (2 * Z.abs (A - Zpos p * U0) <> U0) by (intros Ht; specialize (Htie Ht); congruence).
      lia.
Qed.
Print Assumptions round_ratio_interval_inv_s.

(* ---------------------------------------------------------------- *)
(* monotonicity: a larger rational never rounds to a smaller double    *)

Lemma round_ratio_finite_value : forall neg num den s m e, 0 < num -> 0 < den ->
  round_ratio neg num den = S754_finite s m e ->
  exists e0 q1, -1074 <= e0 /\ 0 <= q1 /\
    (forall k, Z.abs (num * 2 ^ 1074 - q1 * (2 ^ (e0 + 1074) * den)) <= Z.abs (num * 2 ^ 1074 - k * (2 ^ (e0 + 1074) * den))) /\
    (2 * Z.abs (num * 2 ^ 1074 - q1 * (2 ^ (e0 + 1074) * den)) = 2 ^ (e0 + 1074) * den -> Z.even q1 = true) /\
    num * 2 ^ 1074 < two53 * (2 ^ (e0 + 1074) * den) /\
    (-1074 < e0 -> two52 * (2 ^ (e0 + 1074) * den) <= num * 2 ^ 1074 /\ two52 <= q1) /\
    Zpos m * 2 ^ (e + 1074) = q1 * 2 ^ (e0 + 1074).
Proof.
  intros neg num den s m e Hn Hd H.
  destruct (round_ratio_cases neg num den Hn Hd) as (e0 & q1 & He0 & Hq1 & Hnear & Hbig & Heq & Htie & Hup & _).
  exists e0, q1. rewrite <- !Z.mul_assoc in Htie, Hup.
  split; [exact He0|]. split; [lia|]. split; [|split; [exact Htie|split; [exact Hup|split]]].
  - intros k. specialize (Hnear k). rewrite <- !Z.mul_assoc in Hnear. exact Hnear.
  - intros Hb. destruct (Hbig Hb) as [H1 H2]. rewrite <- !Z.mul_assoc in H1. split; assumption.
  - rewrite Heq in H. destruct (q1 =? two53) eqn:E53.
    + apply Z.eqb_eq in E53. change two52 with (Zpos 4503599627370496) in H.
      destruct (e0 + 1 <=? emax_d); [|discriminate]. inversion H; subst.
      replace (e0 + 1 + 1074) with (1 + (e0 + 1074)) by lia. rewrite (Z.pow_add_r 2 1) by lia.
      change (2 ^ 1) with 2. unfold two53. lia.
    + destruct q1 as [|p|p]; try discriminate.
      destruct (e0 <=? emax_d); [|discriminate]. inversion H; subst. reflexivity.
Qed.

Lemma abs_scale : forall a b c, 0 < c -> Z.abs (a * c - b * c) = Z.abs (a - b) * c.
Proof. intros a b c Hc. rewrite <- Z.mul_sub_distr_r, Z.abs_mul, (Z.abs_eq c); lia. Qed.

Theorem round_ratio_monotone : forall neg n1 d1 n2 d2 s1 m1 e1 s2 m2 e2,
  0 < n1 -> 0 < d1 -> 0 < n2 -> 0 < d2 -> n1 * d2 <= n2 * d1 ->
  round_ratio neg n1 d1 = S754_finite s1 m1 e1 -> round_ratio neg n2 d2 = S754_finite s2 m2 e2 ->
  Zpos m1 * 2 ^ (e1 + 1074) <= Zpos m2 * 2 ^ (e2 + 1074).
Proof.
  intros neg n1 d1 n2 d2 s1 m1 e1 s2 m2 e2 Hn1 Hd1 Hn2 Hd2 Hle R1 R2.
  destruct (round_ratio_finite_value _ _ _ _ _ _ Hn1 Hd1 R1) as (a0 & q1 & Ha0 & Hq1 & N1 & T1 & U1 & B1 & V1).
  destruct (round_ratio_finite_value _ _ _ _ _ _ Hn2 Hd2 R2) as (b0 & q2 & Hb0 & Hq2 & N2 & T2 & U2 & B2 & V2).
  rewrite V1, V2.
  (* common scale d1 * d2 *)
  set (P1 := 2 ^ (a0 + 1074)) in *. set (P2 := 2 ^ (b0 + 1074)) in *.
  assert (HP1 : 0 < P1) by (apply pow2_pos; lia). assert (HP2 : 0 < P2) by (apply pow2_pos; lia).
  set (D := d1 * d2). assert (HD : 0 < D) by (apply Z.mul_pos_pos; lia).
  set (A1 := n1 * 2 ^ 1074 * d2). set (A2 := n2 * 2 ^ 1074 * d1).
  assert (HA : A1 <= A2).
  { unfold A1, A2. assert (0 < 2 ^ 1074) by (apply pow2_pos; lia).
    replace (n1 * 2 ^ 1074 * d2) with (n1 * d2 * 2 ^ 1074) by ring.
    replace (n2 * 2 ^ 1074 * d1) with (n2 * d1 * 2 ^ 1074) by ring. apply Z.mul_le_mono_nonneg_r; lia. }
  assert (N1' : forall k, Z.abs (A1 - q1 * (P1 * D)) <= Z.abs (A1 - k * (P1 * D))).
  { intros k. specialize (N1 k). unfold A1, D.
    replace (q1 * (P1 * (d1 * d2))) with (q1 * (P1 * d1) * d2) by ring.
    replace (k * (P1 * (d1 * d2))) with (k * (P1 * d1) * d2) by ring.
    rewrite !abs_scale by lia. apply Z.mul_le_mono_nonneg_r; lia. }
  assert (N2' : forall k, Z.abs (A2 - q2 * (P2 * D)) <= Z.abs (A2 - k * (P2 * D))).
  { intros k. specialize (N2 k). unfold A2, D.
    replace (q2 * (P2 * (d1 * d2))) with (q2 * (P2 * d2) * d1) by ring.
    replace (k * (P2 * (d1 * d2))) with (k * (P2 * d2) * d1) by ring.
    rewrite !abs_scale by lia. apply Z.mul_le_mono_nonneg_r; lia. }
  assert (T1' : 2 * Z.abs (A1 - q1 * (P1 * D)) = P1 * D -> Z.even q1 = true).
  { intros Ht. apply T1. unfold A1, D in Ht. replace (q1 * (P1 * (d1 * d2))) with (q1 * (P1 * d1) * d2) in Ht by ring.
    rewrite abs_scale in Ht by lia. apply (Z.mul_cancel_r _ _ d2); [lia|]. lia. }
  assert (T2' : 2 * Z.abs (A2 - q2 * (P2 * D)) = P2 * D -> Z.even q2 = true).
  { intros Ht. apply T2. unfold A2, D in Ht. replace (q2 * (P2 * (d1 * d2))) with (q2 * (P2 * d2) * d1) in Ht by ring.
    rewrite abs_scale in Ht by lia. apply (Z.mul_cancel_r _ _ d1); [lia|]. lia. }
  assert (U1' : A1 < two53 * (P1 * D)).
  { unfold A1, D. replace (two53 * (P1 * (d1 * d2))) with (two53 * (P1 * d1) * d2) by ring. apply Z.mul_lt_mono_pos_r; lia. }
  assert (U2' : A2 < two53 * (P2 * D)).
  { unfold A2, D. replace (two53 * (P2 * (d1 * d2))) with (two53 * (P2 * d2) * d1) by ring. apply Z.mul_lt_mono_pos_r; lia. }
  assert (B1' : -1074 < a0 -> two52 * (P1 * D) <= A1 /\ two52 <= q1).
  { intros Hb. destruct (B1 Hb) as [B11 B12]. split; [|exact B12]. unfold A1, D.
    replace (two52 * (P1 * (d1 * d2))) with (two52 * (P1 * d1) * d2) by ring. apply Z.mul_le_mono_nonneg_r; lia. }
  assert (B2' : -1074 < b0 -> two52 * (P2 * D) <= A2 /\ two52 <= q2).
  { intros Hb. destruct (B2 Hb) as [B21 B22]. split; [|exact B22]. unfold A2, D.
    replace (two52 * (P2 * (d1 * d2))) with (two52 * (P2 * d2) * d1) by ring. apply Z.mul_le_mono_nonneg_r; lia. }
  clear N1 N2 T1 T2 U1 U2 B1 B2.
  apply (Z.mul_le_mono_pos_r _ _ D HD). rewrite <- !Z.mul_assoc.
  destruct (Z.lt_trichotomy a0 b0) as [Hlt|[Heq|Hgt]].
  - (* lower binade *)
    destruct (B2' ltac:(lia)) as [B21 B22]. pose proof (pow_step a0 b0 Ha0 Hlt) as Hs. fold P1 P2 in Hs.
    assert (2 * P1 * D <= P2 * D) by (apply Z.mul_le_mono_nonneg_r; lia).
    assert (q1 * (P1 * D) <= two53 * (P1 * D)).
    { apply Z.mul_le_mono_nonneg_r; [nia|].
      (* q1 <= 2^53 because A1 < 2^53 U and q1 is nearest *)
      destruct (Z_le_gt_dec q1 two53) as [|Hbig]; [assumption|exfalso].
      specialize (N1' two53). assert (0 < P1 * D) by nia.
      assert ((two53 + 1) * (P1 * D) <= q1 * (P1 * D)) by (apply Z.mul_le_mono_nonneg_r; lia). lia. }
    assert (two52 * (P2 * D) <= q2 * (P2 * D)) by (apply Z.mul_le_mono_nonneg_r; nia).
    unfold two52, two53 in *. lia.
  - (* same binade: nearest integers are ordered *)
    subst b0. fold P1 in P2. subst P2. set (U := P1 * D) in *. assert (HU : 0 < U) by (unfold U; nia).
    destruct (Z_le_gt_dec q1 q2) as [|Hgt]; [apply Z.mul_le_mono_nonneg_r; lia|exfalso].
    pose proof (N1' q2) as X1. pose proof (N2' q1) as X2.
    assert ((q2 + 1) * U <= q1 * U) by (apply Z.mul_le_mono_nonneg_r; lia).
    assert (E : A1 = A2) by lia.
    assert (q1 = q2); [|lia].
    apply (nearest_unique A1 U q1 q2 HU N1' T1'); rewrite E.
    + pose proof (N2' (q2 + 1)) as Y1. pose proof (N2' (q2 - 1)) as Y2.
      replace ((q2 + 1) * U) with (q2 * U + U) in Y1 by ring.
      replace ((q2 - 1) * U) with (q2 * U - U) in Y2 by ring. lia.
    + exact T2'.
  - (* impossible: the smaller rational in a higher binade *)
    exfalso. destruct (B1' ltac:(lia)) as [B11 _]. pose proof (pow_step b0 a0 Hb0 ltac:(lia)) as Hs. fold P1 P2 in Hs.
    assert (2 * P2 * D <= P1 * D) by (apply Z.mul_le_mono_nonneg_r; lia).
    unfold two52, two53 in *. lia.
Qed.
Print Assumptions round_ratio_monotone.
