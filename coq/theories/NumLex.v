(* The number-literal rule of yarel's scanner (scanner.rs `number`).  DEFINITIONS ONLY.
   The scanner works on UTF-8 characters; `is_digit` holds only for single ASCII digit
   characters and "." is a single byte, so a byte-level model is exact. *)
From Coq Require Import ZArith List Bool.
From Coq Require Import Strings.Byte.
From YV Require Import Num NumText.
Import ListNotations.

(* scan_token dispatches to `number` when the character it just consumed is a digit *)
Definition starts_number (l : list byte) : bool :=
  match l with
  | c :: _ => is_digit c
  | [] => false
  end.

(* lex_number input = (lexeme, rest).  Precondition: starts_number input = true.
     scan_token:  let c = self.advance();            -- first byte consumed unconditionally
     number:      while is_digit(peek()) advance();
                  if peek() == "." && is_digit(peek_next()) { advance(); while is_digit(peek()) advance(); } *)
Definition lex_number (l : list byte) : list byte * list byte :=
  match l with
  | [] => ([], [])
  | c :: r0 =>
    let '(ip, r1) := span_digits r0 in
    match r1 with
    | "."%byte :: d :: r2 =>
      if is_digit d then
        let '(fp, r3) := span_digits (d :: r2) in
        (c :: ip ++ "."%byte :: fp, r3)
      else (c :: ip, r1)
    | _ => (c :: ip, r1)
    end
  end.
