(* Theorems about the scanner's number rule (C19: numbers survive text). *)
From Coq Require Import ZArith List Bool Lia.
From Coq Require Import Floats.SpecFloat.
From Coq Require Import Strings.Byte.
From YV Require Import Num NumText NumLex NumProofs NumTextProofs.
Import ListNotations.

(* r does not continue a number: empty, or starts with a byte that is neither a digit nor "." *)
Definition stops_number (r : list byte) : bool :=
  match r with
  | [] => true
  | c :: _ => negb (is_digit c) && negb (Byte.eqb c "."%byte)
  end.

Lemma stops_no_digit : forall r, stops_number r = true -> no_digit_head r = true.
Proof.
  intros [|c r] H; [reflexivity|]. cbn in *. apply andb_prop in H. tauto.
Qed.

Lemma digits_split : forall d, all_digits d = true -> d <> [] ->
  exists c t, d = c :: t /\ is_digit c = true /\ all_digits t = true.
Proof.
  intros [|c t] Ha Hn; [congruence|]. cbn [all_digits forallb] in Ha.
  apply andb_prop in Ha. exists c, t. tauto.
Qed.

(* 1. digits "." digits : the fraction is part of the literal *)
Theorem lex_fraction : forall d1 d2 r,
  all_digits d1 = true -> d1 <> [] -> all_digits d2 = true -> d2 <> [] ->
  no_digit_head r = true ->
  lex_number (d1 ++ "."%byte :: d2 ++ r) = (d1 ++ "."%byte :: d2, r).
Proof.
  intros d1 d2 r H1 N1 H2 N2 Hr.
  destruct (digits_split d1 H1 N1) as (c & t & -> & Hc & Ht).
  destruct (digits_split d2 H2 N2) as (f & u & -> & Hf & Hu).
  cbn [app lex_number].
  rewrite (span_digits_app t ("."%byte :: f :: u ++ r) Ht eq_refl).
  rewrite Hf.
  change (f :: u ++ r) with ((f :: u) ++ r).
  rewrite (span_digits_app (f :: u) r H2 Hr). reflexivity.
Qed.
Print Assumptions lex_fraction.

(* 3. digits "." non-digit : the dot is left for a method call / field access *)
Theorem lex_method : forall d1 r,
  all_digits d1 = true -> d1 <> [] -> no_digit_head r = true ->
  lex_number (d1 ++ "."%byte :: r) = (d1, "."%byte :: r).
Proof.
  intros d1 r H1 N1 Hr.
  destruct (digits_split d1 H1 N1) as (c & t & -> & Hc & Ht).
  cbn [app lex_number].
  rewrite (span_digits_app t ("."%byte :: r) Ht eq_refl).
  destruct r as [|x r]; [reflexivity|].
  cbn [no_digit_head] in Hr. apply negb_true_iff in Hr. rewrite Hr. reflexivity.
Qed.
Print Assumptions lex_method.

(* 2. digits ".." : a range, the literal stops before the dots *)
Theorem lex_range : forall d1 r,
  all_digits d1 = true -> d1 <> [] ->
  lex_number (d1 ++ "."%byte :: "."%byte :: r) = (d1, "."%byte :: "."%byte :: r).
Proof. intros d1 r H1 N1. apply lex_method; auto. Qed.
Print Assumptions lex_range.

Theorem lex_integer : forall d1 r,
  all_digits d1 = true -> d1 <> [] -> stops_number r = true ->
  lex_number (d1 ++ r) = (d1, r).
Proof.
  intros d1 r H1 N1 Hr.
  destruct (digits_split d1 H1 N1) as (c & t & -> & Hc & Ht).
  cbn [app lex_number].
  rewrite (span_digits_app t r Ht (stops_no_digit r Hr)).
  destruct r as [|x r]; [reflexivity|].
  cbn [stops_number] in Hr. apply andb_prop in Hr. destruct Hr as [_ Hx].
  apply negb_true_iff in Hx.
  destruct x; try reflexivity. discriminate Hx.
Qed.

Example lex_examples :
  lex_number ["1"; "2"; "."; "5"; "+"; "1"]%byte = (["1"; "2"; "."; "5"]%byte, ["+"; "1"]%byte) /\
  lex_number ["1"; "."; "."; "5"]%byte = (["1"]%byte, ["."; "."; "5"]%byte) /\
  lex_number ["1"; "."; "a"; "b"; "s"]%byte = (["1"]%byte, ["."; "a"; "b"; "s"]%byte) /\
  lex_number ["1"; "."]%byte = (["1"]%byte, ["."]%byte) /\
  lex_number ["1"; "."; "2"; "."; "3"]%byte = (["1"; "."; "2"]%byte, ["."; "3"]%byte) /\
  lex_number ["1"; "e"; "5"]%byte = (["1"]%byte, ["e"; "5"]%byte) /\
  starts_number ["."; "5"]%byte = false /\ starts_number ["-"; "5"]%byte = false.
Proof. repeat split; reflexivity. Qed.

(* anything of the printed shape [0-9]+(\.[0-9]+)? is consumed entirely as one Number token *)
Theorem unsigned_shape_lexes : forall t r,
  unsigned_shape t = true -> stops_number r = true ->
  starts_number (t ++ r) = true /\ lex_number (t ++ r) = (t, r).
Proof.
  intros t r H Hr. unfold unsigned_shape in H.
  destruct (span_digits t) as [ip r1] eqn:E.
  destruct (span_digits_spec t ip r1 E) as (-> & Ha & _).
  apply andb_prop in H. destruct H as [Hn H].
  assert (N : ip <> []) by (destruct ip; [discriminate Hn|discriminate]).
  destruct (digits_split ip Ha N) as (c & u & Hip & Hc & _).
  split; [rewrite Hip; exact Hc|].
  destruct r1 as [|x r2].
  - rewrite app_nil_r. apply lex_integer; assumption.
  - destruct x; try discriminate H.
    destruct (span_digits r2) as [fp r3] eqn:E2.
    destruct (span_digits_spec r2 fp r3 E2) as (-> & Hb & _).
    apply andb_prop in H. destruct H as [Hm H3].
    assert (M : fp <> []) by (destruct fp; [discriminate Hm|discriminate]).
    destruct r3; [|discriminate H3]. rewrite app_nil_r.
    rewrite <- app_assoc. cbn [app].
    apply lex_fraction; auto. apply stops_no_digit; exact Hr.
Qed.
Print Assumptions unsigned_shape_lexes.

(* 4b. non-negative finite numbers print text that re-lexes as a single Number token *)
Theorem printed_relexes : forall m e r, stops_number r = true ->
  let t := print_f64 (S754_finite false m e) in
  starts_number (t ++ r) = true /\ lex_number (t ++ r) = (t, r).
Proof.
  intros m e r Hr t. apply unsigned_shape_lexes; [|exact Hr].
  unfold t. cbn [print_f64]. destruct (shortest_digits false m e) as [d e10].
  cbn [sign_text app]. apply render_unsigned_shape.
Qed.
Print Assumptions printed_relexes.

Corollary printed_relexes_all : forall m e,
  let t := print_f64 (S754_finite false m e) in lex_number t = (t, []).
Proof.
  intros m e t. destruct (printed_relexes m e [] eq_refl) as [_ H].
  fold t in H. rewrite app_nil_r in H. exact H.
Qed.

(* C19 end to end for literals: print, scan, compile-time parse gives back the number *)
Theorem print_lex_parse_roundtrip : forall m e r,
  f64_valid (S754_finite false m e) = true -> stops_number r = true ->
  let x := S754_finite false m e in
  let '(lexeme, rest) := lex_number (print_f64 x ++ r) in
  rest = r /\ parse_literal lexeme = Some x.
Proof.
  intros m e r Hv Hr x.
  destruct (printed_relexes m e r Hr) as [_ H]. fold x in H. rewrite H.
  split; [reflexivity|]. apply print_parse_literal_roundtrip. exact Hv.
Qed.
Print Assumptions print_lex_parse_roundtrip.

Example print_lex_parse_sat :
  f64_valid (S754_finite false 4503599627370497 (-52)) = true /\ stops_number [";"%byte] = true.
Proof. split; reflexivity. Qed.

(* Negative numbers and the non-finite values do NOT re-lex as one Number token:
   "-" is a separate Minus token, and "inf"/"NaN" scan as identifiers. *)
Example negative_not_number :
  starts_number (print_f64 (f64_of_bits 13826050856027422720)) = false /\
  starts_number (print_f64 f64_inf) = false /\ starts_number (print_f64 f64_nan) = false.
Proof. vm_compute. repeat split; reflexivity. Qed.
