(* Lemmas and theorems about YV.Num. *)
From Coq Require Import ZArith List Bool Lia.
From Coq Require Import Floats.SpecFloat.
From Coq Require Import Strings.Byte.
From YV Require Import Num.
Import ListNotations.
Open Scope Z_scope.

(* ------------------------------------------------------------------ *)
(* valid_binary unfolded into plain inequalities                       *)

Lemma digits2_pos_size : forall p, digits2_pos p = Pos.size p.
Proof. induction p as [p IH|p IH|]; cbn; now rewrite ?IH. Qed.

Lemma digits2_pos_log2 : forall m, Zpos (digits2_pos m) = Z.log2 (Zpos m) + 1.
Proof.
  intros m. rewrite digits2_pos_size.
  destruct m as [p|p|]; cbn [Pos.size Z.log2]; try rewrite Pos2Z.inj_succ; lia.
Qed.

Lemma two52_pow : two52 = 2 ^ 52. Proof. reflexivity. Qed.
Lemma two53_pow : two53 = 2 ^ 53. Proof. reflexivity. Qed.
Lemma two63_pow : two63 = 2 ^ 63. Proof. reflexivity. Qed.
Lemma two64_pow : two64 = 2 ^ 64. Proof. reflexivity. Qed.

Definition finite_ok (m : positive) (e : Z) : Prop :=
  (two52 <= Zpos m < two53 /\ -1074 <= e <= 971) \/ (Zpos m < two52 /\ e = -1074).

Lemma finite_ok_log2 : forall m e, finite_ok m e ->
  e = Z.max (-1074) (Z.log2 (Zpos m) + e - 52) /\ e <= 971.
Proof.
  intros m e [[Hm He]|[Hm He]].
  - assert (Z.log2 (Zpos m) = 52).
    { apply Z.log2_unique; [lia|]. rewrite two52_pow, two53_pow in Hm. exact Hm. }
    lia.
  - assert (Z.log2 (Zpos m) < 52).
    { apply Z.log2_lt_pow2; [lia|]. rewrite two52_pow in Hm. exact Hm. }
    lia.
Qed.

Lemma valid_finite_cases : forall s m e,
  f64_valid (S754_finite s m e) = true -> finite_ok m e.
Proof.
  intros s m e H. unfold f64_valid, valid_binary, bounded, canonical_mantissa in H.
  apply andb_prop in H. destruct H as [H1 H2].
  apply Zeq_bool_eq in H1. apply Zle_bool_imp_le in H2.
  rewrite digits2_pos_log2 in H1. unfold fexp, SpecFloat.emin, prec, emax in *.
  pose proof (Z.log2_spec (Zpos m) ltac:(lia)) as [Hlo Hhi].
  set (L := Z.log2 (Zpos m)) in *.
  assert (HL : 0 <= L) by apply Z.log2_nonneg.
  unfold finite_ok. rewrite two52_pow, two53_pow.
  destruct (Z.eq_dec L 52) as [E|NE].
  - left. rewrite E in *. change (Z.succ 52) with 53 in Hhi. lia.
  - right. assert (L < 52) by lia. split; [|lia].
    eapply Z.lt_le_trans; [exact Hhi|]. apply Z.pow_le_mono_r; lia.
Qed.

Lemma finite_ok_valid : forall s m e, finite_ok m e -> f64_valid (S754_finite s m e) = true.
Proof.
  intros s m e H. pose proof (finite_ok_log2 m e H) as [H1 H2].
  unfold f64_valid, valid_binary, bounded, canonical_mantissa.
  apply andb_true_intro. split.
  - apply Zeq_is_eq_bool. rewrite digits2_pos_log2.
    unfold fexp, SpecFloat.emin, prec, emax. lia.
  - apply Zle_imp_le_bool. unfold prec, emax. lia.
Qed.

Example finite_ok_sat : finite_ok 4503599627370497 (-52).
Proof. left. unfold two52, two53. lia. Qed.

(* ------------------------------------------------------------------ *)
(* Bit layout                                                          *)

Lemma decode_fields : forall s E M,
  0 <= E < 2048 -> 0 <= M < two52 ->
  let b := sign_bit s + E * two52 + M in
  0 <= b < two64 /\ (two63 <=? b) = s /\ (b / two52) mod 2048 = E /\ b mod two52 = M.
Proof.
  intros s E M HE HM b.
  set (sb := if s then 1 else 0).
  assert (Hb : b = two52 * (sb * 2048 + E) + M).
  { unfold b, sign_bit, sb, two63, two52. destruct s; lia. }
  assert (Hsb : 0 <= sb <= 1) by (unfold sb; destruct s; lia).
  assert (Hq : b / two52 = sb * 2048 + E).
  { symmetry. apply (Z.div_unique b two52 _ M); [left; exact HM | exact Hb]. }
  repeat split.
  - unfold two52 in *; lia.
  - unfold two52, two64 in *; lia.
  - unfold sb in Hb. destruct s.
    + apply Z.leb_le. unfold two63, two52 in *. lia.
    + apply Z.leb_gt. unfold two63, two52 in *. lia.
  - rewrite Hq. rewrite Z.add_comm, Z.mod_add by lia. apply Z.mod_small; lia.
  - symmetry. apply (Z.mod_unique b two52 (sb * 2048 + E) M); [left; exact HM | exact Hb].
Qed.

Theorem bits_of_f64_range : forall x, f64_valid x = true -> 0 <= bits_of_f64 x < two64.
Proof.
  intros [s|s| |s m e] Hv; cbn [bits_of_f64].
  - destruct s; unfold sign_bit, two63, two64; lia.
  - destruct s; unfold sign_bit, two63, two64, two52; lia.
  - unfold two64; lia.
  - apply valid_finite_cases in Hv.
    destruct (Zpos m <? two52) eqn:Hlt.
    + apply Z.ltb_lt in Hlt.
      pose proof (decode_fields s 0 (Zpos m) ltac:(lia) ltac:(lia)) as [H _].
      replace (sign_bit s + 0 * two52 + Zpos m) with (sign_bit s + Zpos m) in H by lia. exact H.
    + apply Z.ltb_ge in Hlt. destruct Hv as [[Hm He]|[Hm He]]; [|lia].
      pose proof (decode_fields s (e + 1075) (Zpos m - two52) ltac:(lia) ltac:(unfold two52, two53 in *; lia)) as [H _].
      exact H.
Qed.

Theorem bits_roundtrip : forall x, f64_valid x = true -> f64_of_bits (bits_of_f64 x) = x.
Proof.
  intros [s|s| |s m e] Hv.
  - destruct s; reflexivity.
  - destruct s; reflexivity.
  - reflexivity.
  - apply valid_finite_cases in Hv. cbn [bits_of_f64].
    destruct (Zpos m <? two52) eqn:Hlt.
    + apply Z.ltb_lt in Hlt.
      assert (He : e = -1074) by (destruct Hv as [[? ?]|[? ?]]; lia). subst e.
      pose proof (decode_fields s 0 (Zpos m) ltac:(lia) ltac:(lia)) as (H1 & H2 & H3 & H4).
      replace (sign_bit s + 0 * two52 + Zpos m) with (sign_bit s + Zpos m) in * by lia.
      unfold f64_of_bits. rewrite (Z.mod_small _ two64 H1), H2, H3, H4. reflexivity.
    + apply Z.ltb_ge in Hlt. destruct Hv as [[Hm He]|[Hm He]]; [|lia].
      pose proof (decode_fields s (e + 1075) (Zpos m - two52) ltac:(lia) ltac:(unfold two52, two53 in *; lia))
        as (H1 & H2 & H3 & H4).
      unfold f64_of_bits. rewrite (Z.mod_small _ two64 H1), H2, H3, H4.
      destruct (e + 1075 =? 0) eqn:E0; [apply Z.eqb_eq in E0; lia|].
      destruct (e + 1075 =? 2047) eqn:E1; [apply Z.eqb_eq in E1; lia|].
      replace (Zpos m - two52 + two52) with (Zpos m) by lia.
      replace (e + 1075 - 1075) with e by lia. reflexivity.
Qed.
Print Assumptions bits_roundtrip.

Example bits_roundtrip_sat :
  f64_valid (S754_finite true 4503599627370497 (-52)) = true.
Proof. reflexivity. Qed.

(* the converse direction on 64-bit patterns, up to NaN payloads *)
Lemma f64_of_bits_valid_examples :
  f64_valid (f64_of_bits 4607182418800017408) = true /\
  f64_of_bits 4607182418800017408 = f64_one /\
  bits_of_f64 f64_one = 4607182418800017408 /\
  bits_of_f64 f64_nan = 9221120237041090560 /\
  f64_of_bits 18444492273895866368 = f64_nan.   (* 0xfff8000000000000: a negative quiet NaN *)
Proof. repeat split; reflexivity. Qed.

(* ------------------------------------------------------------------ *)
(* Ranges                                                              *)

Theorem hash_bits_range : forall b, 0 <= hash_bits b < two64.
Proof. intros b. unfold hash_bits. apply Z.mod_pos_bound. reflexivity. Qed.
Print Assumptions hash_bits_range.

Theorem hash_number_range : forall x, 0 <= hash_number x < two64.
Proof. intros x. apply hash_bits_range. Qed.

Lemma fnv_step_range : forall h c, 0 <= fnv_step h c < two64.
Proof. intros h c. unfold fnv_step. apply Z.mod_pos_bound. reflexivity. Qed.

Theorem fnv_hash_range : forall l, 0 <= fnv_hash l < two64.
Proof. intros l. apply fnv_step_range. Qed.

Lemma clamp_range : forall lo hi z, lo <= hi -> lo <= clamp lo hi z <= hi.
Proof.
  intros lo hi z H. unfold clamp.
  destruct (z <? lo) eqn:E1; [lia|]. apply Z.ltb_ge in E1.
  destruct (hi <? z) eqn:E2; [lia|]. apply Z.ltb_ge in E2. lia.
Qed.

Lemma cast_int_range : forall lo hi x, lo <= 0 <= hi -> lo <= cast_int lo hi x <= hi.
Proof.
  intros lo hi [s|s| |s m e] H; cbn [cast_int]; try lia.
  - destruct s; lia.
  - apply clamp_range; lia.
Qed.

Theorem to_i64_range : forall x, - two63 <= to_i64 x <= two63 - 1.
Proof. intros x. apply cast_int_range. unfold two63. lia. Qed.
Print Assumptions to_i64_range.

Theorem to_u32_range : forall x, 0 <= to_u32 x <= 4294967295.
Proof. intros x. apply cast_int_range. lia. Qed.

Theorem to_u8_range : forall x, 0 <= to_u8 x <= 255.
Proof. intros x. apply cast_int_range. lia. Qed.

Theorem to_usize_range : forall x, 0 <= to_usize x <= two64 - 1.
Proof. intros x. apply cast_int_range. unfold two64. lia. Qed.

Lemma wrap_i64_range : forall z, - two63 <= wrap_i64 z <= two63 - 1.
Proof.
  intros z. unfold wrap_i64.
  pose proof (Z.mod_pos_bound (z + two63) two64 ltac:(reflexivity)). unfold two63, two64 in *. lia.
Qed.

Lemma wrap_i64_id : forall z, - two63 <= z <= two63 - 1 -> wrap_i64 z = z.
Proof.
  intros z H. unfold wrap_i64. rewrite Z.mod_small; unfold two63, two64 in *; lia.
Qed.

(* ------------------------------------------------------------------ *)
(* C09-style defect: equal numbers with different hashes               *)

Theorem neg_zero_hash_refuted :
  feqb f64_zero f64_neg_zero = true /\ hash_number f64_zero <> hash_number f64_neg_zero.
Proof. split; [reflexivity | vm_compute; discriminate]. Qed.
Print Assumptions neg_zero_hash_refuted.

(* value observed from the Rust function utils::hash_number(1.0) *)
Example hash_number_one : hash_number f64_one = 8795510066819036384.
Proof. vm_compute. reflexivity. Qed.

(* by hand: bits(+0.0) = 0, so h1 = !0u128 + 0 = 2^128-1;  h2 = h1 ^ (h1 >> 31) = 2^128 - 2^97
   (only the top 31 bits stay set);  h3 = 21*h2 mod 2^128 has its low 97 bits clear;
   h4 = h3 ^ (h3 >> 11) low 86 bits clear;  h5 = h4 + (h4 << 6) low 86 bits clear;
   h6 = h5 ^ (h5 >> 22) low 64 bits clear;  so (h6 as u64) = 0. *)
Example hash_bits_zero_step1 :
  Z.lxor (two128 - 1) ((two128 - 1) / 2 ^ 31) = two128 - 2 ^ 97.
Proof. vm_compute. reflexivity. Qed.
Example hash_number_zero : hash_number f64_zero = 0.
Proof. vm_compute. reflexivity. Qed.
(* value observed from Rust for -0.0 *)
Example hash_number_neg_zero : hash_number f64_neg_zero = 6968460457888405162.
Proof. vm_compute. reflexivity. Qed.

(* ------------------------------------------------------------------ *)
(* round_ratio returns exactly-representable values unchanged           *)
Lemma log2_bounds : forall x, 0 < x -> 2 ^ Z.log2 x <= x < 2 ^ (Z.log2 x + 1).
Proof. intros x H. pose proof (Z.log2_spec x H). unfold Z.succ in *. lia. Qed.

Lemma pow2_pos : forall k, 0 <= k -> 0 < 2 ^ k.
Proof. intros. apply Z.pow_pos_nonneg; lia. Qed.

Lemma ratio_log2_exact : forall num den m e,
  0 < num -> 0 < den -> 0 < m ->
  num * 2 ^ (Z.max (- e) 0) = m * den * 2 ^ (Z.max e 0) ->
  ratio_log2 num den = Z.log2 m + e.
Proof.
  intros num den m e Hn Hd Hm H.
  pose proof (log2_bounds num Hn) as [Hn1 Hn2].
  pose proof (log2_bounds den Hd) as [Hd1 Hd2].
  pose proof (log2_bounds m Hm) as [Hm1 Hm2].
  pose proof (Z.log2_nonneg num) as Ha0.
  pose proof (Z.log2_nonneg den) as Hb0.
  pose proof (Z.log2_nonneg m) as HM0.
  unfold ratio_log2.
  set (a := Z.log2 num) in *. set (b := Z.log2 den) in *. set (M := Z.log2 m) in *.
  set (A := Z.max (- e) 0) in *. set (B := Z.max e 0) in *.
  assert (HA : 0 <= A) by lia. assert (HB : 0 <= B) by lia.
  assert (HAB : B - A = e) by lia.
  assert (PA : 0 < 2 ^ A) by (apply pow2_pos; lia).
  assert (PB : 0 < 2 ^ B) by (apply pow2_pos; lia).
  assert (H1 : a + A < M + b + B + 2).
  { apply (Z.pow_lt_mono_r_iff 2); [lia|lia|].
    replace (M + b + B + 2) with ((M + 1) + (b + 1) + B) by lia.
    rewrite (Z.pow_add_r 2 a A), (Z.pow_add_r 2 (M + 1 + (b + 1)) B), (Z.pow_add_r 2 (M + 1) (b + 1)) by lia.
    assert (2 ^ a * 2 ^ A <= num * 2 ^ A) by (apply Z.mul_le_mono_nonneg_r; lia).
    assert (m * den < 2 ^ (M + 1) * 2 ^ (b + 1)) by (apply Z.mul_lt_mono_nonneg; lia).
    assert (m * den * 2 ^ B < 2 ^ (M + 1) * 2 ^ (b + 1) * 2 ^ B) by (apply Z.mul_lt_mono_pos_r; lia).
    lia. }
  assert (H2 : M + b + B < a + 1 + A).
  { apply (Z.pow_lt_mono_r_iff 2); [lia|lia|].
    rewrite (Z.pow_add_r 2 (M + b) B), (Z.pow_add_r 2 M b), (Z.pow_add_r 2 (a + 1) A), (Z.pow_add_r 2 a 1) by lia.
    assert (num * 2 ^ A < 2 ^ a * 2 ^ 1 * 2 ^ A).
    { apply Z.mul_lt_mono_pos_r; [lia|]. rewrite <- Z.pow_add_r by lia. exact Hn2. }
    assert (2 ^ M * 2 ^ b <= m * den) by (apply Z.mul_le_mono_nonneg; lia).
    assert (2 ^ M * 2 ^ b * 2 ^ B <= m * den * 2 ^ B) by (apply Z.mul_le_mono_nonneg_r; lia).
    lia. }
  set (l := a - b) in *.
  assert (Hl : l = M + e \/ l = M + e + 1) by lia.
  set (P := Z.max l 0). set (N := Z.max (- l) 0).
  assert (PP : 0 < 2 ^ P) by (apply pow2_pos; lia).
  assert (PN : 0 < 2 ^ N) by (apply pow2_pos; lia).
  destruct Hl as [Hl|Hl].
  - (* test succeeds *)
    assert (T : den * 2 ^ P <= num * 2 ^ N).
    { apply (Z.mul_le_mono_pos_r _ _ (2 ^ A)); [lia|].
      replace (num * 2 ^ N * 2 ^ A) with (num * 2 ^ A * 2 ^ N) by ring.
      rewrite H.
      replace (den * 2 ^ P * 2 ^ A) with (den * (2 ^ P * 2 ^ A)) by ring.
      replace (m * den * 2 ^ B * 2 ^ N) with (den * (m * (2 ^ B * 2 ^ N))) by ring.
      apply Z.mul_le_mono_nonneg_l; [lia|].
      rewrite <- !Z.pow_add_r by lia.
      replace (P + A) with (M + (B + N)) by lia.
      rewrite (Z.pow_add_r 2 M) by lia.
      apply Z.mul_le_mono_nonneg_r; [|lia]. apply Z.lt_le_incl, pow2_pos; lia. }
    apply Z.leb_le in T. rewrite T. lia.
  - assert (T : num * 2 ^ N < den * 2 ^ P).
    { apply (Z.mul_lt_mono_pos_r (2 ^ A)); [lia|].
      replace (num * 2 ^ N * 2 ^ A) with (num * 2 ^ A * 2 ^ N) by ring.
      rewrite H.
      replace (den * 2 ^ P * 2 ^ A) with (den * (2 ^ P * 2 ^ A)) by ring.
      replace (m * den * 2 ^ B * 2 ^ N) with (den * (m * (2 ^ B * 2 ^ N))) by ring.
      apply Z.mul_lt_mono_pos_l; [lia|].
      rewrite <- !Z.pow_add_r by lia.
      replace (P + A) with ((M + 1) + (B + N)) by lia.
      rewrite (Z.pow_add_r 2 (M + 1)) by lia.
      apply Z.mul_lt_mono_pos_r; [|lia]. apply pow2_pos; lia. }
    apply Z.leb_gt in T. rewrite T. lia.
Qed.

Lemma div_eucl_exact : forall m d, 0 < d -> Z.div_eucl (m * d) d = (m, 0).
Proof.
  intros m d Hd.
  pose proof (Z_div_mod (m * d) d ltac:(lia)) as H.
  destruct (Z.div_eucl (m * d) d) as [q r]. destruct H as [H1 H2].
  assert (q = m) by nia. subst q. f_equal. lia.
Qed.

Theorem round_ratio_exact : forall neg m e num den,
  finite_ok m e -> 0 < den ->
  num * 2 ^ (Z.max (- e) 0) = Zpos m * den * 2 ^ (Z.max e 0) ->
  round_ratio neg num den = S754_finite neg m e.
Proof.
  intros neg m e num den Hok Hden H.
  assert (PA : 0 < 2 ^ Z.max (- e) 0) by (apply pow2_pos; lia).
  assert (PB : 0 < 2 ^ Z.max e 0) by (apply pow2_pos; lia).
  assert (Hnum : 0 < num) by nia.
  unfold round_ratio.
  destruct (num <=? 0) eqn:E; [apply Z.leb_le in E; lia|]. clear E.
  rewrite (ratio_log2_exact num den (Zpos m) e Hnum Hden ltac:(lia) H).
  pose proof (finite_ok_log2 m e Hok) as [He1 He2].
  unfold emin_d. rewrite <- He1.
  rewrite H. replace (Zpos m * den * 2 ^ Z.max e 0) with (Zpos m * (den * 2 ^ Z.max e 0)) by ring.
  rewrite div_eucl_exact by nia.
  assert (Hd' : 0 < den * 2 ^ Z.max e 0) by nia.
  replace (2 * 0) with 0 by lia.
  destruct (0 ?= den * 2 ^ Z.max e 0) eqn:C;
    [apply Z.compare_eq in C; lia | | apply Z.compare_gt_iff in C; lia].
  assert (Hm53 : Zpos m < two53) by (destruct Hok as [[? ?]|[? ?]]; unfold two52, two53 in *; lia).
  destruct (Zpos m =? two53) eqn:E; [apply Z.eqb_eq in E; lia|].
  unfold emax_d. destruct (e <=? 971) eqn:E2; [reflexivity|apply Z.leb_gt in E2; lia].
Qed.
Print Assumptions round_ratio_exact.

Example round_ratio_exact_sat :
  finite_ok 4503599627370497 (-52) /\ 0 < two52 /\
  4503599627370497 * 2 ^ (Z.max (- -52) 0) = Zpos 4503599627370497 * two52 * 2 ^ (Z.max (-52) 0).
Proof. split; [apply finite_ok_sat|]. split; reflexivity. Qed.

(* ------------------------------------------------------------------ *)
(* structural equality test                                            *)

Lemma f64_eq_exact_true : forall a b, f64_eq_exact a b = true -> a = b.
Proof.
  intros [s1|s1| |s1 m1 e1] [s2|s2| |s2 m2 e2] H; cbn in H; try discriminate; try reflexivity.
  - apply eqb_prop in H. now subst.
  - apply eqb_prop in H. now subst.
  - apply andb_prop in H. destruct H as [H H3]. apply andb_prop in H. destruct H as [H1 H2].
    apply eqb_prop in H1. apply Pos.eqb_eq in H2. apply Z.eqb_eq in H3. now subst.
Qed.

Lemma f64_eq_exact_refl : forall a, f64_eq_exact a a = true.
Proof.
  intros [s|s| |s m e]; cbn; rewrite ?eqb_reflx, ?Pos.eqb_refl, ?Z.eqb_refl; reflexivity.
Qed.

(* ------------------------------------------------------------------ *)
(* sanity examples (values cross-checked against rustc 1.95)           *)

Example ex_add : bits_of_f64 (fadd (f64_of_bits 4591870180066957722) (f64_of_bits 4596373779694328218))
                 = 4599075939470750516.  (* 0.1 + 0.2 = 0.30000000000000004 *)
Proof. vm_compute. reflexivity. Qed.
Example ex_rem : frem (f64_of_Z (-7)) (f64_of_Z 3) = f64_of_Z (-1).
Proof. vm_compute. reflexivity. Qed.
Example ex_rem_zero_sign : frem (f64_of_Z (-6)) (f64_of_Z 3) = f64_neg_zero.
Proof. vm_compute. reflexivity. Qed.
Example ex_to_i64_sat : to_i64 f64_inf = two63 - 1 /\ to_i64 f64_nan = 0 /\ to_i64 (f64_of_bits 4890909195324358656) = two63 - 1.
Proof. vm_compute. repeat split. Qed.
Example ex_of_Z_round : bits_of_f64 (f64_of_Z 9007199254740993) = bits_of_f64 (f64_of_Z 9007199254740992).
Proof. vm_compute. reflexivity. Qed.
Example ex_shl : shl (f64_of_Z 1) (f64_of_Z 63) = f64_of_Z (- two63) /\ shl (f64_of_Z 1) (f64_of_Z 64) = f64_zero
                 /\ shr (f64_of_Z (-8)) (f64_of_Z 1) = f64_of_Z (-4).
Proof. vm_compute. repeat split. Qed.
Example ex_integral : is_integral f64_inf = true /\ is_integral f64_nan = false /\ is_integral (f64_of_bits 4602678819172646912) = false.
Proof. vm_compute. repeat split. Qed.
(* values observed from Rust: hash of "" and of "hello" through FnvHasher / impl Hash for str *)
Example ex_fnv_empty : fnv_hash [] = 36342606557053518.  (* (2166136261 ^ 0xff) * 16777619 *)
Proof. vm_compute. reflexivity. Qed.
Example ex_fnv_hello : fnv_hash ["h"; "e"; "l"; "l"; "o"]%byte = 12167414379877419068.
Proof. vm_compute. reflexivity. Qed.

(* ------------------------------------------------------------------ *)
(* round_ratio always returns a valid double                            *)
Lemma lift_le : forall x y t K, 0 <= K -> 0 <= t + K ->
  (x * 2 ^ Z.max t 0 <= y * 2 ^ Z.max (- t) 0 <-> x * 2 ^ (t + K) <= y * 2 ^ K).
Proof.
  intros x y t K HK HtK.
  set (c := K - Z.max (- t) 0). assert (Hc : 0 <= c) by lia.
  replace (t + K) with (Z.max t 0 + c) by lia.
  replace (2 ^ K) with (2 ^ (Z.max (- t) 0 + c)) by (f_equal; lia).
  rewrite !Z.pow_add_r by lia.
  assert (P : 0 < 2 ^ c) by (apply pow2_pos; lia).
  rewrite !Z.mul_assoc. apply Z.mul_le_mono_pos_r. exact P.
Qed.

Lemma lift_lt : forall x y t K, 0 <= K -> 0 <= t + K ->
  (y * 2 ^ Z.max (- t) 0 < x * 2 ^ Z.max t 0 <-> y * 2 ^ K < x * 2 ^ (t + K)).
Proof.
  intros x y t K HK HtK. pose proof (lift_le x y t K HK HtK). lia.
Qed.

Lemma ratio_log2_spec : forall num den K, 0 < num -> 0 < den ->
  0 <= K -> 0 <= ratio_log2 num den + K ->
  den * 2 ^ (ratio_log2 num den + K) <= num * 2 ^ K /\
  num * 2 ^ K < den * 2 ^ (ratio_log2 num den + 1 + K).
Proof.
  intros num den K Hn Hd HK.
  pose proof (log2_bounds num Hn) as [Hn1 Hn2].
  pose proof (log2_bounds den Hd) as [Hd1 Hd2].
  pose proof (Z.log2_nonneg num) as Ha0.
  pose proof (Z.log2_nonneg den) as Hb0.
  unfold ratio_log2.
  set (a := Z.log2 num) in *. set (b := Z.log2 den) in *. set (l := a - b).
  assert (PK : 0 < 2 ^ K) by (apply pow2_pos; lia).
  destruct (den * 2 ^ Z.max l 0 <=? num * 2 ^ Z.max (- l) 0) eqn:T; intros HL.
  - apply Z.leb_le in T. apply (lift_le den num l K HK HL) in T. split; [exact T|].
    assert (num * 2 ^ K < 2 ^ (a + 1) * 2 ^ K) by (apply Z.mul_lt_mono_pos_r; lia).
    assert (2 ^ b * 2 ^ (l + 1 + K) <= den * 2 ^ (l + 1 + K))
      by (apply Z.mul_le_mono_nonneg_r; [apply Z.lt_le_incl, pow2_pos|]; lia).
    rewrite <- Z.pow_add_r in * by lia. replace (b + (l + 1 + K)) with (a + 1 + K) in * by lia. lia.
  - apply Z.leb_gt in T. apply (lift_lt den num l K HK ltac:(lia)) in T.
    replace (l - 1 + 1 + K) with (l + K) by lia. split; [|exact T].
    assert (den * 2 ^ (l - 1 + K) < 2 ^ (b + 1) * 2 ^ (l - 1 + K))
      by (apply Z.mul_lt_mono_pos_r; [apply pow2_pos|]; lia).
    assert (2 ^ a * 2 ^ K <= num * 2 ^ K) by (apply Z.mul_le_mono_nonneg_r; lia).
    rewrite <- Z.pow_add_r in * by lia. replace (b + 1 + (l - 1 + K)) with (a + K) in * by lia. lia.
Qed.

Theorem round_ratio_valid : forall neg num den, 0 < den ->
  f64_valid (round_ratio neg num den) = true.
Proof.
  intros neg num den Hden. unfold round_ratio.
  destruct (num <=? 0) eqn:E0; [reflexivity|]. apply Z.leb_gt in E0.
  set (L := ratio_log2 num den).
  set (e := Z.max emin_d (L - 52)).
  set (K := Z.abs L + 1200).
  assert (HK : 0 <= K) by lia. assert (HLK : 0 <= L + K) by lia.
  assert (HeK : 0 <= e + K) by (unfold e, emin_d; lia).
  destruct (ratio_log2_spec num den K E0 Hden HK HLK) as [S1 S2]. fold L in S1, S2.
  set (n' := num * 2 ^ Z.max (- e) 0). set (d' := den * 2 ^ Z.max e 0).
  assert (Hd' : 0 < d') by (unfold d'; apply Z.mul_pos_pos; [lia|apply pow2_pos; lia]).
  assert (PeK : 0 < 2 ^ (e + K)) by (apply pow2_pos; lia).
  (* n' < 2^53 d' *)
  assert (F1 : n' < two53 * d').
  { unfold n', d'. rewrite Z.mul_assoc.
    apply (lift_lt (two53 * den) num e K HK HeK).
    eapply Z.lt_le_trans; [exact S2|].
    rewrite two53_pow. replace (2 ^ 53 * den * 2 ^ (e + K)) with (den * (2 ^ 53 * 2 ^ (e + K))) by ring.
    rewrite <- Z.pow_add_r by lia.
    apply Z.mul_le_mono_nonneg_l; [lia|]. apply Z.pow_le_mono_r; unfold e; lia. }
  assert (F2 : e = L - 52 -> two52 * d' <= n').
  { intros He. unfold n', d'. rewrite Z.mul_assoc.
    apply (lift_le (two52 * den) num e K HK HeK).
    rewrite two52_pow. replace (2 ^ 52 * den * 2 ^ (e + K)) with (den * (2 ^ 52 * 2 ^ (e + K))) by ring.
    rewrite <- Z.pow_add_r by lia. replace (52 + (e + K)) with (L + K) by lia. exact S1. }
  assert (F3 : L - 52 < emin_d -> n' < two52 * d').
  { intros He. unfold n', d'. rewrite Z.mul_assoc.
    apply (lift_lt (two52 * den) num e K HK HeK).
    eapply Z.lt_le_trans; [exact S2|].
    rewrite two52_pow. replace (2 ^ 52 * den * 2 ^ (e + K)) with (den * (2 ^ 52 * 2 ^ (e + K))) by ring.
    rewrite <- Z.pow_add_r by lia.
    apply Z.mul_le_mono_nonneg_l; [lia|]. apply Z.pow_le_mono_r; unfold e; lia. }
  pose proof (Z_div_mod n' d' ltac:(lia)) as Hdm.
  destruct (Z.div_eucl n' d') as [q r]. destruct Hdm as [Hdm Hr].
  assert (Hn'0 : 0 < n') by (unfold n'; apply Z.mul_pos_pos; [lia|apply pow2_pos; lia]).
  assert (Hq0 : 0 <= q) by nia.
  assert (Hq53 : q < two53) by nia.
  assert (Hq52 : e = L - 52 -> two52 <= q) by (intros He; specialize (F2 He); nia).
  assert (Hqs : L - 52 < emin_d -> q < two52) by (intros He; specialize (F3 He); nia).
  set (q1 := match 2 * r ?= d' with
             | Eq => if Z.even q then q else q + 1
             | Lt => q
             | Gt => q + 1
             end).
  assert (Hq1 : q1 = q \/ q1 = q + 1).
  { unfold q1. destruct (2 * r ?= d'); [destruct (Z.even q)| |]; auto. }
  clearbody q1.
  assert (Hcase : (e = L - 52 /\ emin_d <= e) \/ (e = emin_d /\ L - 52 < emin_d)) by (unfold e; lia).
  destruct (q1 =? two53) eqn:E53.
  - (* carried into the next binade *)
    apply Z.eqb_eq in E53. change two52 with (Zpos 4503599627370496).
    unfold emax_d. destruct (e + 1 <=? 971) eqn:E2; [|reflexivity].
    apply Z.leb_le in E2. apply finite_ok_valid. left. unfold two52, two53, emin_d in *.
    destruct Hcase as [[? ?]|[? ?]]; lia.
  - apply Z.eqb_neq in E53.
    destruct q1 as [|m|m]; [reflexivity| |reflexivity].
    unfold emax_d. destruct (e <=? 971) eqn:E2; [|reflexivity].
    apply Z.leb_le in E2. apply finite_ok_valid. unfold finite_ok.
    destruct Hcase as [[He1 He2]|[He1 He2]].
    + left. specialize (Hq52 He1). unfold two52, two53, emin_d in *. lia.
    + specialize (Hqs He2). unfold two52, two53, emin_d in *.
      destruct (Z.eq_dec (Zpos m) 4503599627370496); [left|right]; lia.
Qed.
Print Assumptions round_ratio_valid.

(* ------------------------------------------------------------------ *)
(* every 64-bit pattern decodes to a valid double                      *)

Theorem f64_of_bits_valid : forall b, f64_valid (f64_of_bits b) = true.
Proof.
  intros b. unfold f64_of_bits.
  pose proof (Z.mod_pos_bound (b mod two64) two52 ltac:(reflexivity)) as Hm.
  pose proof (Z.mod_pos_bound (b mod two64 / two52) 2048 ltac:(reflexivity)) as He.
  set (mant := b mod two64 mod two52) in *. set (ex := (b mod two64 / two52) mod 2048) in *.
  destruct (ex =? 0) eqn:E0.
  - destruct mant as [|m|m] eqn:Em; try reflexivity.
    apply finite_ok_valid. right. lia.
  - apply Z.eqb_neq in E0. destruct (ex =? 2047) eqn:E1.
    + destruct (mant =? 0); reflexivity.
    + apply Z.eqb_neq in E1. destruct (mant + two52) as [|m|m] eqn:Em; try reflexivity.
      apply finite_ok_valid. left. unfold two52, two53 in *. lia.
Qed.
Print Assumptions f64_of_bits_valid.
