(* C19: `round_ratio` (and through it `nearest_double`, i.e. what a literal / to_num text denotes)
   returns A NEAREST double: no representable double is strictly closer to num/den.
   Stated over Z: distances are compared after scaling by den * 2^1074 (every double is an integer
   multiple of 2^-1074). *)
From Coq Require Import ZArith List Bool Lia.
From Coq Require Import Floats.SpecFloat.
From YV Require Import Num NumText NumProofs.
Open Scope Z_scope.

(* |num/den - m*2^e| <= |num/den - m'*2^e'|   (for e, e' >= -1074, den > 0) *)
Definition closer_eq (num den m e m' e' : Z) : Prop :=
  Z.abs (num * 2 ^ 1074 - m * 2 ^ (e + 1074) * den) <=
  Z.abs (num * 2 ^ 1074 - m' * 2 ^ (e' + 1074) * den).

(* rounding n'/S to the nearest integer, ties to even, beats every integer k *)
Lemma nearest_int : forall n' D q r k, 0 < D -> n' = D * q + r -> 0 <= r < D ->
  let q1 := match 2 * r ?= D with
            | Lt => q
            | Eq => if Z.even q then q else q + 1
            | Gt => q + 1
            end in
  Z.abs (n' - q1 * D) <= Z.abs (n' - k * D).
Proof.
  intros n' D q r k HD Hn Hr q1.
  assert (Hq1 : (q1 = q /\ 2 * r <= D) \/ (q1 = q + 1 /\ D <= 2 * r)).
  { unfold q1. destruct (2 * r ?= D) eqn:C.
    - apply Z.compare_eq in C. destruct (Z.even q); [left|right]; (split; [reflexivity|lia]).
    - rewrite Z.compare_lt_iff in C. left. split; [reflexivity|lia].
    - rewrite Z.compare_gt_iff in C. right. split; [reflexivity|lia]. }
  clearbody q1.
  destruct (Z_le_gt_dec k q) as [Hk|Hk].
  - assert (k * D <= q * D) by (apply Z.mul_le_mono_nonneg_r; lia).
    destruct Hq1 as [[-> H2]|[-> H2]]; lia.
  - assert ((q + 1) * D <= k * D) by (apply Z.mul_le_mono_nonneg_r; lia).
    destruct Hq1 as [[-> H2]|[-> H2]]; lia.
Qed.

(* on a tie the even neighbour is taken *)
Lemma nearest_int_tie : forall n' D q r, 0 < D -> n' = D * q + r -> 0 <= r < D ->
  let q1 := match 2 * r ?= D with
            | Lt => q
            | Eq => if Z.even q then q else q + 1
            | Gt => q + 1
            end in
  2 * Z.abs (n' - q1 * D) = D -> Z.even q1 = true.
Proof.
  intros n' D q r HD Hn Hr q1 Ht.
  assert (H2 : 2 * r = D).
  { unfold q1 in Ht. destruct (2 * r ?= D) eqn:C.
    - apply Z.compare_eq in C. exact C.
    - rewrite Z.compare_lt_iff in C. lia.
    - rewrite Z.compare_gt_iff in C. lia. }
  unfold q1. rewrite (proj2 (Z.compare_eq_iff _ _) H2).
  destruct (Z.even q) eqn:E; [exact E|].
  rewrite Z.even_add. rewrite E. reflexivity.
Qed.

(* (n' - k*S) scaled to the common unit 2^-1074/den *)
Lemma scale_unit : forall num den e0 k, -1074 <= e0 ->
  num * 2 ^ 1074 - k * 2 ^ (e0 + 1074) * den =
  (num * 2 ^ Z.max (- e0) 0 - k * (den * 2 ^ Z.max e0 0)) * 2 ^ (1074 - Z.max (- e0) 0).
Proof.
  intros num den e0 k He.
  replace (2 ^ 1074) with (2 ^ (Z.max (- e0) 0 + (1074 - Z.max (- e0) 0))) by (f_equal; lia).
  replace (e0 + 1074) with (Z.max e0 0 + (1074 - Z.max (- e0) 0)) by lia.
  rewrite !Z.pow_add_r by lia. ring.
Qed.

(* the shape of round_ratio's result together with the facts about the rounded quotient *)
Lemma round_ratio_cases : forall neg num den, 0 < num -> 0 < den ->
  exists e0 q1, -1074 <= e0 /\ 0 <= q1 <= two53 /\
    (forall k, Z.abs (num * 2 ^ 1074 - q1 * 2 ^ (e0 + 1074) * den) <=
               Z.abs (num * 2 ^ 1074 - k * 2 ^ (e0 + 1074) * den)) /\
    (-1074 < e0 -> two52 * 2 ^ (e0 + 1074) * den <= num * 2 ^ 1074 /\ two52 <= q1) /\
    round_ratio neg num den =
      (let '(q2, e2) := if q1 =? two53 then (two52, e0 + 1) else (q1, e0) in
       match q2 with
       | Zpos m => if e2 <=? emax_d then S754_finite neg m e2 else S754_infinity neg
       | _ => S754_zero neg
       end) /\
    (2 * Z.abs (num * 2 ^ 1074 - q1 * 2 ^ (e0 + 1074) * den) = 2 ^ (e0 + 1074) * den -> Z.even q1 = true) /\
    num * 2 ^ 1074 < two53 * 2 ^ (e0 + 1074) * den /\
    e0 = Z.max (-1074) (ratio_log2 num den - 52).
Proof.
  intros neg num den E0 Hden. unfold round_ratio.
  destruct (num <=? 0) eqn:E; [apply Z.leb_le in E; lia|]. clear E.
  set (L := ratio_log2 num den).
  set (e := Z.max emin_d (L - 52)).
  set (K := Z.abs L + 1200).
  assert (HK : 0 <= K) by lia. assert (HLK : 0 <= L + K) by lia.
  assert (HeK : 0 <= e + K) by (unfold e, emin_d; lia).
  assert (He74 : -1074 <= e) by (unfold e, emin_d; lia).
  destruct (ratio_log2_spec num den K E0 Hden HK HLK) as [S1 S2]. fold L in S1, S2.
  set (n' := num * 2 ^ Z.max (- e) 0). set (d' := den * 2 ^ Z.max e 0).
  assert (Hd' : 0 < d') by (unfold d'; apply Z.mul_pos_pos; [lia|apply pow2_pos; lia]).
  assert (F1 : n' < two53 * d').
  { unfold n', d'. rewrite Z.mul_assoc.
    apply (lift_lt (two53 * den) num e K HK HeK).
    eapply Z.lt_le_trans; [exact S2|].
    rewrite two53_pow. replace (2 ^ 53 * den * 2 ^ (e + K)) with (den * (2 ^ 53 * 2 ^ (e + K))) by ring.
    rewrite <- Z.pow_add_r by lia.
    apply Z.mul_le_mono_nonneg_l; [lia|]. apply Z.pow_le_mono_r; unfold e; lia. }
  assert (F2 : e = L - 52 -> two52 * d' <= n').
  { intros He. unfold n', d'. rewrite Z.mul_assoc.
    apply (lift_le (two52 * den) num e K HK HeK).
    rewrite two52_pow. replace (2 ^ 52 * den * 2 ^ (e + K)) with (den * (2 ^ 52 * 2 ^ (e + K))) by ring.
    rewrite <- Z.pow_add_r by lia. replace (52 + (e + K)) with (L + K) by lia. exact S1. }
  pose proof (Z_div_mod n' d' ltac:(lia)) as Hdm.
  destruct (Z.div_eucl n' d') as [q r]. destruct Hdm as [Hdm Hr].
  assert (Hn'0 : 0 < n') by (unfold n'; apply Z.mul_pos_pos; [lia|apply pow2_pos; lia]).
  assert (Hq0 : 0 <= q) by nia.
  assert (Hq53 : q < two53) by nia.
  assert (Hq52 : e = L - 52 -> two52 <= q) by (intros He; specialize (F2 He); nia).
  pose proof (fun k => nearest_int n' d' q r k Hd' Hdm Hr) as Hnear. cbv zeta in Hnear.
  pose proof (nearest_int_tie n' d' q r Hd' Hdm Hr) as Htie. cbv zeta in Htie.
  set (q1 := match 2 * r ?= d' with
             | Eq => if Z.even q then q else q + 1
             | Lt => q
             | Gt => q + 1
             end) in *.
  assert (Hq1 : q1 = q \/ q1 = q + 1).
  { unfold q1. destruct (2 * r ?= d'); [destruct (Z.even q)| |]; auto. }
  clearbody q1.
  assert (PG : 0 < 2 ^ (1074 - Z.max (- e) 0)) by (apply pow2_pos; lia).
  exists e, q1. split; [exact He74|]. split; [lia|]. split; [|split; [|split; [|split; [|split]]]].
  - intros k. rewrite !(scale_unit num den e) by exact He74. fold n' d'.
    rewrite !Z.abs_mul. rewrite (Z.abs_eq (2 ^ _)) by lia.
    apply Z.mul_le_mono_nonneg_r; [lia|]. apply Hnear.
  - intros Hgt. assert (He : e = L - 52) by (unfold e, emin_d in *; lia).
    specialize (F2 He). specialize (Hq52 He). split; [|lia].
    pose proof (scale_unit num den e two52 He74) as Hs. fold n' d' in Hs.
    assert (0 <= (n' - two52 * d') * 2 ^ (1074 - Z.max (- e) 0)) by (apply Z.mul_nonneg_nonneg; lia).
    lia.
  - reflexivity.
  - intros Ht. apply Htie.
    pose proof (scale_unit num den e q1 He74) as Hs. fold n' d' in Hs.
    pose proof (scale_unit num den e 1 He74) as Hs1. fold n' d' in Hs1.
    rewrite Hs in Ht. rewrite Z.abs_mul in Ht. rewrite (Z.abs_eq (2 ^ _)) in Ht by lia.
    assert (HU : 2 ^ (e + 1074) * den = d' * 2 ^ (1074 - Z.max (- e) 0)).
    { replace (e + 1074) with (Z.max e 0 + (1074 - Z.max (- e) 0)) by lia.
      rewrite Z.pow_add_r by lia. unfold d'. ring. }
    rewrite HU in Ht.
    apply (Z.mul_cancel_r _ _ (2 ^ (1074 - Z.max (- e) 0))); [lia|]. lia.
  - pose proof (scale_unit num den e two53 He74) as Hs. fold n' d' in Hs.
    assert (0 < (two53 * d' - n') * 2 ^ (1074 - Z.max (- e) 0)) by (apply Z.mul_pos_pos; lia).
    lia.
  - unfold e, emin_d. reflexivity.
Qed.

Theorem round_ratio_nearest : forall neg num den s m e, 0 < num -> 0 < den ->
  round_ratio neg num den = S754_finite s m e ->
  s = neg /\ forall m' e', finite_ok m' e' -> closer_eq num den (Zpos m) e (Zpos m') e'.
Proof.
  intros neg num den s m e Hn Hd H.
  destruct (round_ratio_cases neg num den Hn Hd) as (e0 & q1 & He0 & Hq1 & Hnear & Hbig & Heq & _).
  rewrite Heq in H. clear Heq.
  (* the value of the result is q1 * 2^e0 *)
  assert (Hval : s = neg /\ Zpos m * 2 ^ (e + 1074) = q1 * 2 ^ (e0 + 1074)).
  { destruct (q1 =? two53) eqn:E53.
    - apply Z.eqb_eq in E53. change two52 with (Zpos 4503599627370496) in H.
      destruct (e0 + 1 <=? emax_d); [|discriminate]. inversion H; subst. split; [reflexivity|].
      replace (e0 + 1 + 1074) with (1 + (e0 + 1074)) by lia. rewrite Z.pow_add_r by lia.
      change (2 ^ 1) with 2. unfold two53 in *. lia.
    - destruct q1 as [|p|p]; try discriminate.
      destruct (e0 <=? emax_d); [|discriminate]. inversion H; subst. split; reflexivity. }
  destruct Hval as [Hs Hval]. split; [exact Hs|].
  intros m' e' Hok. unfold closer_eq. rewrite Hval.
  assert (He' : -1074 <= e') by (destruct Hok as [[? ?]|[? ?]]; lia).
  assert (Hm' : Zpos m' < two53) by (destruct Hok as [[? ?]|[? ?]]; unfold two52, two53 in *; lia).
  destruct (Z_le_gt_dec e0 e') as [Hle|Hgt].
  - (* the other double is a multiple of 2^e0 *)
    replace (e' + 1074) with ((e' - e0) + (e0 + 1074)) by lia.
    rewrite (Z.pow_add_r 2 (e' - e0) (e0 + 1074)) by lia.
    rewrite Z.mul_assoc. apply Hnear.
  - (* the other double lies in a lower binade: below 2^52 * 2^e0 <= num/den *)
    destruct (Hbig ltac:(lia)) as [Hb _].
    eapply Z.le_trans; [apply (Hnear two52)|].
    assert (P0 : 0 < 2 ^ (e' + 1074)) by (apply pow2_pos; lia).
    assert (Hlt : Zpos m' * 2 ^ (e' + 1074) < two52 * 2 ^ (e0 + 1074)).
    { replace (e0 + 1074) with ((e0 - e' - 1) + (1 + (e' + 1074))) by lia.
      rewrite (Z.pow_add_r 2 (e0 - e' - 1) (1 + (e' + 1074))) by lia.
      rewrite (Z.pow_add_r 2 1 (e' + 1074)) by lia. change (2 ^ 1) with 2.
      assert (HT : 1 <= 2 ^ (e0 - e' - 1)) by (pose proof (pow2_pos (e0 - e' - 1) ltac:(lia)); lia).
      set (P := 2 ^ (e' + 1074)) in *. set (T := 2 ^ (e0 - e' - 1)) in *.
      assert (H1 : Zpos m' * P < two53 * P) by (apply Z.mul_lt_mono_pos_r; lia).
      assert (H2 : 1 * (2 * P) <= T * (2 * P)) by (apply Z.mul_le_mono_nonneg_r; lia).
      replace (two52 * (T * (2 * P))) with (two52 * (T * (2 * P))) by ring.
      assert (H3 : two52 * (1 * (2 * P)) <= two52 * (T * (2 * P)))
        by (apply Z.mul_le_mono_nonneg_l; [unfold two52; lia|exact H2]).
      unfold two52, two53 in *. lia. }
    assert (Zpos m' * 2 ^ (e' + 1074) * den < two52 * 2 ^ (e0 + 1074) * den)
      by (apply Z.mul_lt_mono_pos_r; lia).
    lia.
Qed.
Print Assumptions round_ratio_nearest.

(* rounding to zero happens only below half the least subnormal *)
Theorem round_ratio_zero_nearest : forall neg num den s, 0 < num -> 0 < den ->
  round_ratio neg num den = S754_zero s ->
  s = neg /\ forall m' e', finite_ok m' e' -> closer_eq num den 0 (-1074) (Zpos m') e'.
Proof.
  intros neg num den s Hn Hd H.
  destruct (round_ratio_cases neg num den Hn Hd) as (e0 & q1 & He0 & Hq1 & Hnear & Hbig & Heq & _).
  rewrite Heq in H. clear Heq.
  assert (Hz : s = neg /\ q1 = 0).
  { destruct (q1 =? two53) eqn:E53.
    - change two52 with (Zpos 4503599627370496) in H. destruct (e0 + 1 <=? emax_d); discriminate.
    - destruct q1 as [|p|p]; [inversion H; auto| |lia].
      destruct (e0 <=? emax_d); discriminate. }
  destruct Hz as [Hs Hq]. subst q1. split; [exact Hs|].
  assert (e0 = -1074).
  { destruct (Z.eq_dec e0 (-1074)); [assumption|]. destruct (Hbig ltac:(lia)) as [_ Hb]. unfold two52 in Hb. lia. }
  subst e0. intros m' e' Hok. unfold closer_eq.
  assert (He' : -1074 <= e') by (destruct Hok as [[? ?]|[? ?]]; lia).
  replace (e' + 1074) with ((e' - -1074) + (-1074 + 1074)) by lia.
  rewrite (Z.pow_add_r 2 (e' - -1074) (-1074 + 1074)) by lia.
  rewrite Z.mul_assoc. apply Hnear.
Qed.
Print Assumptions round_ratio_zero_nearest.

(* overflow to infinity happens only at or above MAX + ulp/2 = (2^54 - 1) * 2^970 *)
Theorem round_ratio_inf_threshold : forall neg num den s, 0 < num -> 0 < den ->
  round_ratio neg num den = S754_infinity s ->
  s = neg /\ (2 ^ 54 - 1) * 2 ^ 970 * den <= num.
Proof.
  intros neg num den s Hn Hd H.
  destruct (round_ratio_cases neg num den Hn Hd) as (e0 & q1 & He0 & Hq1 & Hnear & Hbig & Heq & _).
  rewrite Heq in H. clear Heq.
  assert (P : 0 < 2 ^ 1074) by (apply pow2_pos; lia).
  assert (Hc : s = neg /\ ((q1 = two53 /\ 971 <= e0) \/ 972 <= e0)).
  { destruct (q1 =? two53) eqn:E53.
    - apply Z.eqb_eq in E53. change two52 with (Zpos 4503599627370496) in H.
      destruct (e0 + 1 <=? emax_d) eqn:E2; [discriminate|]. apply Z.leb_gt in E2. unfold emax_d in E2.
      inversion H. split; [reflexivity|]. left. lia.
    - destruct q1 as [|p|p]; try discriminate.
      destruct (e0 <=? emax_d) eqn:E2; [discriminate|]. apply Z.leb_gt in E2. unfold emax_d in E2.
      inversion H. split; [reflexivity|]. right. lia. }
  destruct Hc as [Hs Hc]. split; [exact Hs|].
  apply (Z.mul_le_mono_pos_r _ _ (2 ^ 1074) P).
  destruct Hc as [[Hq He]|He].
  - (* q1 = 2^53 at e0 >= 971: num/den >= (2^53 - 1/2) * 2^e0 *)
    subst q1. specialize (Hnear (two53 - 1)).
    assert (PE : 0 < 2 ^ (e0 + 1074)) by (apply pow2_pos; lia).
    set (U := 2 ^ (e0 + 1074) * den) in *.
    assert (HU : 0 < U) by (unfold U; apply Z.mul_pos_pos; lia).
    replace (two53 * 2 ^ (e0 + 1074) * den) with (two53 * U) in Hnear by (unfold U; ring).
    replace ((two53 - 1) * 2 ^ (e0 + 1074) * den) with (two53 * U - U) in Hnear by (unfold U; ring).
    assert (HA : 2 * (two53 * U) - U <= 2 * (num * 2 ^ 1074)) by lia.
    assert (HU2 : 2 ^ (971 + 1074) * den <= U).
    { unfold U. apply Z.mul_le_mono_nonneg_r; [lia|]. apply Z.pow_le_mono_r; lia. }
    replace (2 ^ (971 + 1074)) with (2 ^ 971 * 2 ^ 1074) in HU2 by (rewrite <- Z.pow_add_r by lia; reflexivity).
    replace (2 ^ 971) with (2 * 2 ^ 970) in HU2 by (change 971 with (1 + 970); rewrite Z.pow_add_r by lia; reflexivity).
    change (2 ^ 54) with (2 * two53). unfold two53 in *.
    assert (0 < 2 ^ 970) by (apply pow2_pos; lia). nia.
  - destruct (Hbig ltac:(lia)) as [Hb _].
    assert (HU2 : 2 ^ (972 + 1074) <= 2 ^ (e0 + 1074)) by (apply Z.pow_le_mono_r; lia).
    replace (2 ^ (972 + 1074)) with (4 * 2 ^ 970 * 2 ^ 1074) in HU2
      by (replace (972 + 1074) with (2 + 970 + 1074) by lia; rewrite !Z.pow_add_r by lia; reflexivity).
    change (2 ^ 54) with (4 * two52). unfold two52 in *.
    assert (0 < 2 ^ 970) by (apply pow2_pos; lia). nia.
Qed.
Print Assumptions round_ratio_inf_threshold.

(* what a decimal text d * 10^e10 denotes (literal, to_num): a nearest double.
   PARTIAL: only for -1100 <= e10 <= 310, where nearest_double takes no early exit; the two early
   exits (|e10| astronomically large) are justified in the comment above nearest_double, not here.
   Full statement:  forall neg d e10, 0 < d -> nearest_double neg d e10 = S754_finite s m e -> ... *)
Theorem nearest_double_correct_partial : forall neg d e10 s m e, 0 < d -> -1100 <= e10 <= 310 ->
  nearest_double neg d e10 = S754_finite s m e ->
  s = neg /\ forall m' e', finite_ok m' e' ->
    closer_eq (d * 10 ^ Z.max e10 0) (10 ^ Z.max (- e10) 0) (Zpos m) e (Zpos m') e'.
Proof.
  intros neg d e10 s m e Hd He H. unfold nearest_double in H.
  destruct (d <=? 0) eqn:E0; [apply Z.leb_le in E0; lia|].
  destruct (310 <? e10) eqn:E1; [apply Z.ltb_lt in E1; lia|].
  destruct (e10 <? -1100) eqn:E2; [apply Z.ltb_lt in E2; lia|]. cbn [andb] in H.
  apply round_ratio_nearest in H; [exact H| |].
  - apply Z.mul_pos_pos; [lia|]. apply Z.pow_pos_nonneg; lia.
  - apply Z.pow_pos_nonneg; lia.
Qed.
Print Assumptions nearest_double_correct_partial.

(* the hypotheses are satisfiable: 0.1 -> 0x3FB999999999999A, which is not exactly 1/10 *)
Example nearest_double_correct_sat :
  nearest_double false 1 (-1) = S754_finite false 7205759403792794 (-56) /\ finite_ok 7205759403792794 (-56).
Proof. split; [vm_compute; reflexivity|]. left. unfold two52, two53. lia. Qed.

(* ------------------------------------------------------------------ *)
(* FULL statement for nearest_double, early exits included             *)

Definition nd_num (d e10 : Z) : Z := d * 10 ^ Z.max e10 0.
Definition nd_den (e10 : Z) : Z := 10 ^ Z.max (- e10) 0.

Lemma round_ratio_not_nan : forall neg num den, 0 < num -> 0 < den -> round_ratio neg num den <> S754_nan.
Proof.
  intros neg num den Hn Hd H.
  destruct (round_ratio_cases neg num den Hn Hd) as (e0 & q1 & He0 & Hq1 & Hnear & Hbig & Heq & _).
  rewrite Heq in H. clear Heq.
  destruct (q1 =? two53).
  - change two52 with (Zpos 4503599627370496) in H. destruct (e0 + 1 <=? emax_d); discriminate.
  - destruct q1 as [|p|p]; try discriminate. destruct (e0 <=? emax_d); discriminate.
Qed.

Lemma pow8_le_pow10 : forall k, 0 <= k -> 2 ^ (3 * k) <= 10 ^ k.
Proof.
  intros k Hk. rewrite Z.pow_mul_r by lia. change (2 ^ 3) with 8.
  apply Z.pow_le_mono_l. lia.
Qed.

Lemma overflow_const : (2 ^ 54 - 1) * 2 ^ 970 <= 10 ^ 311.
Proof. apply Z.leb_le. vm_compute. reflexivity. Qed.

Theorem nearest_double_correct : forall neg d e10, 0 < d ->
  match nearest_double neg d e10 with
  | S754_finite s m e =>
    s = neg /\ forall m' e', finite_ok m' e' ->
      closer_eq (nd_num d e10) (nd_den e10) (Zpos m) e (Zpos m') e'
  | S754_zero s =>
    s = neg /\ forall m' e', finite_ok m' e' ->
      closer_eq (nd_num d e10) (nd_den e10) 0 (-1074) (Zpos m') e'
  | S754_infinity s => s = neg /\ (2 ^ 54 - 1) * 2 ^ 970 * nd_den e10 <= nd_num d e10
  | S754_nan => False
  end.
Proof.
  intros neg d e10 Hd. unfold nearest_double.
  destruct (d <=? 0) eqn:E0; [apply Z.leb_le in E0; lia|]. clear E0.
  destruct (310 <? e10) eqn:E1.
  - (* overflow exit *)
    apply Z.ltb_lt in E1. split; [reflexivity|]. unfold nd_num, nd_den.
    replace (Z.max (- e10) 0) with 0 by lia. replace (Z.max e10 0) with e10 by lia.
    change (10 ^ 0) with 1. rewrite Z.mul_1_r.
    assert (10 ^ 311 <= 10 ^ e10) by (apply Z.pow_le_mono_r; lia).
    pose proof overflow_const. nia.
  - destruct ((e10 <? -1100) && (3 * e10 + Z.log2 d + 1 <? -1075)) eqn:E2.
    + (* underflow exit: the value is below half the least subnormal *)
      apply andb_prop in E2. destruct E2 as [E2 E3]. apply Z.ltb_lt in E2. apply Z.ltb_lt in E3.
      split; [reflexivity|]. intros m' e' Hok. unfold closer_eq, nd_num, nd_den.
      replace (Z.max (- e10) 0) with (- e10) by lia. replace (Z.max e10 0) with 0 by lia.
      change (10 ^ 0) with 1. rewrite Z.mul_1_r.
      set (k := - e10). set (T := 10 ^ k).
      assert (Hsmall : d * 2 ^ 1075 < T).
      { pose proof (log2_bounds d Hd) as [_ Hl]. pose proof (Z.log2_nonneg d) as Hl0.
        assert (d * 2 ^ 1075 < 2 ^ (Z.log2 d + 1) * 2 ^ 1075) by (apply Z.mul_lt_mono_pos_r; [apply pow2_pos|]; lia).
        rewrite <- Z.pow_add_r in H by lia.
        assert (2 ^ (Z.log2 d + 1 + 1075) <= 2 ^ (3 * k)) by (apply Z.pow_le_mono_r; unfold k; lia).
        pose proof (pow8_le_pow10 k ltac:(unfold k; lia)). unfold T. lia. }
      assert (He' : -1074 <= e') by (destruct Hok as [[? ?]|[? ?]]; lia).
      assert (P1 : 1 <= 2 ^ (e' + 1074)) by (pose proof (pow2_pos (e' + 1074) ltac:(lia)); lia).
      assert (HT : 0 < T) by (unfold T; apply Z.pow_pos_nonneg; unfold k; lia).
      assert (HX : T <= Zpos m' * 2 ^ (e' + 1074) * T).
      { assert (1 * T <= (Zpos m' * 2 ^ (e' + 1074)) * T) by (apply Z.mul_le_mono_nonneg_r; nia). lia. }
      replace (2 ^ 1075) with (2 * 2 ^ 1074) in Hsmall by reflexivity.
      assert (0 < d * 2 ^ 1074) by (apply Z.mul_pos_pos; [lia|apply pow2_pos; lia]).
      lia.
    + (* the general path *)
      assert (Hnum : 0 < d * 10 ^ Z.max e10 0) by (apply Z.mul_pos_pos; [lia|apply Z.pow_pos_nonneg; lia]).
      assert (Hden : 0 < 10 ^ Z.max (- e10) 0) by (apply Z.pow_pos_nonneg; lia).
      fold (nd_num d e10) in *. fold (nd_den e10) in *.
      destruct (round_ratio neg (nd_num d e10) (nd_den e10)) as [s|s| |s m e] eqn:R.
      * apply round_ratio_zero_nearest in R; assumption.
      * apply round_ratio_inf_threshold in R; assumption.
      * exact (round_ratio_not_nan _ _ _ Hnum Hden R).
      * apply round_ratio_nearest in R; assumption.
Qed.
Print Assumptions nearest_double_correct.
