(* Rendering of Num/NumText/NumLex runs for the correspondence check of C19
   (tools/props/C19.py).  DEFINITIONS ONLY.  Inputs arrive in the compact wire format of
   YV.Wire.parse_nss; results are printable ASCII. *)
From Coq Require Import ZArith NArith List Bool String.
From Coq Require Import Floats.SpecFloat.
From Coq Require Import Strings.Byte.
From YV Require Import Show Wire Num NumText NumLex NumDigits.
Import ListNotations.
Open Scope string_scope.

Definition show_f64_bits (x : f64) : string :=
  match x with
  | S754_nan => "N"
  | _ => show_Z (bits_of_f64 x)
  end.

Definition show_parse (o : option f64) : string :=
  match o with
  | None => "E"
  | Some x => show_f64_bits x
  end.

(* printing: every number of every group is a 64-bit pattern; output = the printed texts *)
Definition run_print1 (b : N) : string := string_of_bytes (print_f64 (f64_of_bits (Z.of_N b))).
Definition run_print_w (w : string) : string :=
  show_sep "," run_print1 (List.concat (parse_nss w)).

(* parsing: one group = the bytes of one text; output = E | N | bits *)
Definition run_parse1 (g : list N) : string := show_parse (parse_f64 (bytes_of_Ns g)).
Definition run_parse_w (w : string) : string := show_sep "," run_parse1 (parse_nss w).

(* lexing: one group = the bytes of the source text starting at the number;
   output = hex lexeme | hex rest | value of the literal | printed value  (X when no Number starts) *)
Definition run_lex1 (g : list N) : string :=
  let l := bytes_of_Ns g in
  if starts_number l then
    let '(lexeme, rest) := lex_number l in
    let v := parse_literal lexeme in
    hex_of_bytes lexeme ++ "|" ++ hex_of_bytes rest ++ "|" ++ show_parse v ++ "|" ++
    match v with Some x => string_of_bytes (print_f64 x) | None => "E" end
  else "X".
Definition run_lex_w (w : string) : string := show_sep "," run_lex1 (parse_nss w).

(* halfway cases: the exact decimal d * 10^e10 of the midpoint between |x| and the next double
   of larger magnitude, for finite x (also defined for the largest finite double, where the
   "next double" is 2^1024) *)
Definition run_mid1 (b : N) : string :=
  match f64_of_bits (Z.of_N b) with
  | S754_zero _ => let '(d, j) := exact_digits 1 (-1075) in show_Z d ++ ":" ++ show_Z j
  | S754_finite _ m e => let '(d, j) := exact_digits (2 * m + 1) (e - 1) in show_Z d ++ ":" ++ show_Z j
  | _ => "-"
  end.
Definition run_mid_w (w : string) : string := show_sep "," run_mid1 (List.concat (parse_nss w)).

(* reference search (slow) vs the fast digit search used by print_f64: T when both agree *)
Definition run_ref1 (b : N) : string :=
  match f64_of_bits (Z.of_N b) with
  | S754_finite s m e =>
    let '(d1, j1) := shortest_digits s m e in
    let '(d2, j2) := shortest_digits_ref s m e in
    show_bool ((d1 =? d2)%Z && (j1 =? j2)%Z)
  | _ => "T"
  end.
Definition run_ref_w (w : string) : string := show_sep "," run_ref1 (List.concat (parse_nss w)).

(* model-internal: Num.is_integral (SpecFloat ftrunc / feqb) against the arithmetic predicate
   NumDigits.integral_finb used by the theorems integral_prints_without_fraction / print_without_fraction_integral;
   output T when they agree, plus I/N = integral or not *)
Definition run_intg1 (b : N) : string :=
  match f64_of_bits (Z.of_N b) with
  | S754_finite s m e =>
    show_bool (Bool.eqb (is_integral (S754_finite s m e)) (integral_finb m e)) ++
    (if integral_finb m e then "I" else "N")
  | _ => "T-"
  end.
Definition run_intg_w (w : string) : string := show_sep "," run_intg1 (List.concat (parse_nss w)).

(* canonical text of a literal / to_num text: print_f64 of what the text denotes; output = bits | text  (E when not a number) *)
Definition run_canon1 (g : list N) : string :=
  match parse_f64 (bytes_of_Ns g) with
  | Some x => show_f64_bits x ++ "|" ++ string_of_bytes (print_f64 x)
  | None => "E"
  end.
Definition run_canon_w (w : string) : string := show_sep "," run_canon1 (parse_nss w).
