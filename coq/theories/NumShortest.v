(* C19: analysis of the digit search of print_f64 (NumText.shortest_digits):
   - floor_log10 is the decimal exponent of x;
   - every candidate the search proposes lies in the rounding interval, hence reads back as x
     (the re-check `cand_ok` never fails and the fallback is never taken);
   - integral values print without a fraction part, and conversely;
   - no decimal with fewer significant digits reads back as x (shortestness). *)
From Coq Require Import ZArith List Bool Lia.
From Coq Require Import Floats.SpecFloat.
From Coq Require Import Strings.Byte.
From YV Require Import Num NumText NumProofs NumTextProofs NumRound NumInterval.
Import ListNotations.
Open Scope Z_scope.

(* ------------------------------------------------------------------ *)
(* Part 0: fractions a/b with b > 0, powers with split exponents        *)

Lemma rle_trans : forall a b c d e f, 0 < b -> 0 < d -> 0 < f ->
  a * d <= c * b -> c * f <= e * d -> a * f <= e * b.
Proof.
  intros a b c d e f Hb Hd Hf H1 H2.
  apply (Z.mul_le_mono_pos_r _ _ d Hd).
  assert (a * d * f <= c * b * f) by (apply Z.mul_le_mono_nonneg_r; lia).
  assert (c * f * b <= e * d * b) by (apply Z.mul_le_mono_nonneg_r; lia).
  lia.
Qed.

Lemma rle_lt_trans : forall a b c d e f, 0 < b -> 0 < d -> 0 < f ->
  a * d <= c * b -> c * f < e * d -> a * f < e * b.
Proof.
  intros a b c d e f Hb Hd Hf H1 H2.
  apply (Z.mul_lt_mono_pos_r d _ _ Hd).
  assert (a * d * f <= c * b * f) by (apply Z.mul_le_mono_nonneg_r; lia).
  assert (c * f * b < e * d * b) by (apply Z.mul_lt_mono_pos_r; lia).
  lia.
Qed.

Lemma rlt_le_trans : forall a b c d e f, 0 < b -> 0 < d -> 0 < f ->
  a * d < c * b -> c * f <= e * d -> a * f < e * b.
Proof.
  intros a b c d e f Hb Hd Hf H1 H2.
  apply (Z.mul_lt_mono_pos_r d _ _ Hd).
  assert (a * d * f < c * b * f) by (apply Z.mul_lt_mono_pos_r; lia).
  assert (c * f * b <= e * d * b) by (apply Z.mul_le_mono_nonneg_r; lia).
  lia.
Qed.

Lemma mul_eq_swap : forall b c d c' d', c * d' = c' * d -> c * b * d' = c' * b * d.
Proof. intros b c d c' d' E. replace (c * b * d') with (c * d' * b) by ring. rewrite E. ring. Qed.

(* replacing a fraction by an equal one:  c/d = c'/d' *)
Lemma rle_eq_r : forall a b c d c' d', 0 < d -> 0 < d' -> c * d' = c' * d ->
  (a * d <= c * b <-> a * d' <= c' * b).
Proof.
  intros a b c d c' d' Hd Hd' E. split; intros H.
  - apply (Z.mul_le_mono_pos_r _ _ d Hd). assert (a * d * d' <= c * b * d') by (apply Z.mul_le_mono_nonneg_r; lia). pose proof (mul_eq_swap b c d c' d' E). lia.
  - apply (Z.mul_le_mono_pos_r _ _ d' Hd'). assert (a * d' * d <= c' * b * d) by (apply Z.mul_le_mono_nonneg_r; lia). pose proof (mul_eq_swap b c d c' d' E). lia.
Qed.

Lemma rlt_eq_r : forall a b c d c' d', 0 < d -> 0 < d' -> c * d' = c' * d ->
  (a * d < c * b <-> a * d' < c' * b).
Proof.
  intros a b c d c' d' Hd Hd' E. split; intros H.
  - apply (Z.mul_lt_mono_pos_r d _ _ Hd). assert (a * d * d' < c * b * d') by (apply Z.mul_lt_mono_pos_r; lia). pose proof (mul_eq_swap b c d c' d' E). lia.
  - apply (Z.mul_lt_mono_pos_r d' _ _ Hd'). assert (a * d' * d < c' * b * d) by (apply Z.mul_lt_mono_pos_r; lia). pose proof (mul_eq_swap b c d c' d' E). lia.
Qed.

Lemma rge_eq_r : forall a b c d c' d', 0 < d -> 0 < d' -> c * d' = c' * d ->
  (c * b <= a * d <-> c' * b <= a * d').
Proof.
  intros a b c d c' d' Hd Hd' E. split; intros H.
  - apply (Z.mul_le_mono_pos_r _ _ d Hd). assert (c * b * d' <= a * d * d') by (apply Z.mul_le_mono_nonneg_r; lia). pose proof (mul_eq_swap b c d c' d' E). lia.
  - apply (Z.mul_le_mono_pos_r _ _ d' Hd'). assert (c' * b * d <= a * d' * d) by (apply Z.mul_le_mono_nonneg_r; lia). pose proof (mul_eq_swap b c d c' d' E). lia.
Qed.

Lemma rgt_eq_r : forall a b c d c' d', 0 < d -> 0 < d' -> c * d' = c' * d ->
  (c * b < a * d <-> c' * b < a * d').
Proof.
  intros a b c d c' d' Hd Hd' E. split; intros H.
  - apply (Z.mul_lt_mono_pos_r d _ _ Hd). assert (c * b * d' < a * d * d') by (apply Z.mul_lt_mono_pos_r; lia). pose proof (mul_eq_swap b c d c' d' E). lia.
  - apply (Z.mul_lt_mono_pos_r d' _ _ Hd'). assert (c' * b * d < a * d' * d) by (apply Z.mul_lt_mono_pos_r; lia). pose proof (mul_eq_swap b c d c' d' E). lia.
Qed.

Definition p10 (k : Z) : Z := 10 ^ Z.max k 0.
Definition n10 (k : Z) : Z := 10 ^ Z.max (- k) 0.
Definition p2 (k : Z) : Z := 2 ^ Z.max k 0.
Definition n2 (k : Z) : Z := 2 ^ Z.max (- k) 0.

Lemma p10_pos : forall k, 0 < p10 k. Proof. intros; apply Z.pow_pos_nonneg; lia. Qed.
Lemma n10_pos : forall k, 0 < n10 k. Proof. intros; apply Z.pow_pos_nonneg; lia. Qed.
Lemma p2_pos : forall k, 0 < p2 k. Proof. intros; apply Z.pow_pos_nonneg; lia. Qed.
Lemma n2_pos : forall k, 0 < n2 k. Proof. intros; apply Z.pow_pos_nonneg; lia. Qed.

(* 10^a * 10^b = 10^(a+b) in split form *)
Lemma p10_add : forall a b, p10 (a + b) * (n10 a * n10 b) = p10 a * p10 b * n10 (a + b).
Proof.
  intros a b. unfold p10, n10. rewrite <- !Z.pow_add_r by lia. f_equal. lia.
Qed.

Lemma pow10_pos : forall k, 0 <= k -> 0 < 10 ^ k. Proof. intros; apply Z.pow_pos_nonneg; lia. Qed.

(* value of  d * 10^j  does not depend on how the power is split *)
Lemma dec_shift : forall d j t, 0 <= t ->
  (d * 10 ^ t * p10 j) * n10 (j + t) = (d * p10 (j + t)) * n10 j.
Proof.
  intros d j t Ht. unfold p10, n10.
  replace (d * 10 ^ t * 10 ^ Z.max j 0 * 10 ^ Z.max (- (j + t)) 0)
    with (d * (10 ^ t * 10 ^ Z.max j 0 * 10 ^ Z.max (- (j + t)) 0)) by ring.
  replace (d * 10 ^ Z.max (j + t) 0 * 10 ^ Z.max (- j) 0)
    with (d * (10 ^ Z.max (j + t) 0 * 10 ^ Z.max (- j) 0)) by ring.
  rewrite <- !Z.pow_add_r by lia. f_equal. f_equal. lia.
Qed.

(* ------------------------------------------------------------------ *)
(* Part 1: floor_log10                                                  *)

(* the hint k0 = floor(b * 1233/4096) is within one of floor(log10) on [2^b, 2^(b+1)) *)
Definition flog_ok (b : Z) : bool :=
  let k0 := (b * 1233) / 4096 in
  (p10 (k0 - 1) * n2 b <=? p2 b * n10 (k0 - 1)) &&
  (p2 (b + 1) * n10 (k0 + 2) <=? p10 (k0 + 2) * n2 (b + 1)).

Lemma flog_table : forallb flog_ok (map (fun i => Z.of_nat i - 1080) (seq 0 2112)) = true.
Proof. vm_compute. reflexivity. Qed.

Lemma flog_ok_range : forall b, -1080 <= b <= 1030 -> flog_ok b = true.
Proof.
  intros b Hb. pose proof flog_table as H. rewrite forallb_forall in H. apply H.
  apply in_map_iff. exists (Z.to_nat (b + 1080)). split; [lia|].
  apply in_seq. lia.
Qed.

Lemma ge_pow10_eq : forall num den k, ge_pow10 num den k = (den * p10 k <=? num * n10 k).
Proof. reflexivity. Qed.

Lemma floor_log10_spec : forall num den b, 0 < num -> 0 < den -> -1080 <= b <= 1030 ->
  den * p2 b <= num * n2 b -> num * n2 (b + 1) < den * p2 (b + 1) ->
  let k := floor_log10 num den b in
  den * p10 k <= num * n10 k /\ num * n10 (k + 1) < den * p10 (k + 1).
Proof.
  intros num den b Hn Hd Hb H1 H2 k.
  pose proof (flog_ok_range b Hb) as T. unfold flog_ok in T. apply andb_prop in T.
  destruct T as [T1 T2]. apply Z.leb_le in T1. apply Z.leb_le in T2.
  unfold k, floor_log10. set (k0 := b * 1233 / 4096) in *. rewrite !ge_pow10_eq.
  destruct (den * p10 k0 <=? num * n10 k0) eqn:G0; cbn [negb].
  - apply Z.leb_le in G0. destruct (den * p10 (k0 + 1) <=? num * n10 (k0 + 1)) eqn:G1.
    + apply Z.leb_le in G1. split; [exact G1|].
      replace (k0 + 1 + 1) with (k0 + 2) by lia.
      pose proof (rlt_le_trans num den (p2 (b + 1)) (n2 (b + 1)) (p10 (k0 + 2)) (n10 (k0 + 2))
                    Hd (n2_pos _) (n10_pos _) ltac:(lia) T2). lia.
    + apply Z.leb_gt in G1. split; [exact G0|exact G1].
  - apply Z.leb_gt in G0. replace (k0 - 1 + 1) with k0 by lia. split; [|exact G0].
    pose proof (rle_trans (p10 (k0 - 1)) (n10 (k0 - 1)) (p2 b) (n2 b) num den
                  (n10_pos _) (n2_pos _) Hd T1 ltac:(lia)). lia.
Qed.

(* crude bounds that need no correctness argument *)
Lemma floor_log10_range : forall num den b, -1080 <= b <= 1030 ->
  -327 <= floor_log10 num den b <= 312.
Proof.
  intros num den b Hb. unfold floor_log10.
  assert (-326 <= b * 1233 / 4096 <= 311).
  { split.
    - apply Z.div_le_lower_bound; lia.
    - apply Z.div_le_upper_bound; lia. }
  destruct (negb _); [lia|]. destruct (ge_pow10 _ _ _); lia.
Qed.

(* ------------------------------------------------------------------ *)
(* Part 2: comparisons that are strict or not, transported between scalings *)

Definition cmp (st : bool) (a b : Z) : Prop := if st then a < b else a <= b.

Lemma cmp_scale : forall st a b a' b' al be, 0 < al -> 0 < be ->
  a * al = a' * be -> b * al = b' * be -> (cmp st a b <-> cmp st a' b').
Proof.
  intros st a b a' b' al be Hal Hbe Ea Eb. destruct st; cbn [cmp].
  - rewrite (Z.mul_lt_mono_pos_r al a b Hal), (Z.mul_lt_mono_pos_r be a' b' Hbe). rewrite Ea, Eb. tauto.
  - rewrite (Z.mul_le_mono_pos_r a b al Hal), (Z.mul_le_mono_pos_r a' b' be Hbe). rewrite Ea, Eb. tauto.
Qed.

Lemma cmp_weaken : forall st a b, cmp st a b -> a <= b.
Proof. intros [|] a b H; cbn [cmp] in H; lia. Qed.

Lemma cmp_le_l : forall st a a' b, a' <= a -> cmp st a b -> cmp st a' b.
Proof. intros [|] a a' b H1 H2; cbn [cmp] in *; lia. Qed.

Lemma cmp_le_r : forall st a b b', b <= b' -> cmp st a b -> cmp st a b'.
Proof. intros [|] a b b' H1 H2; cbn [cmp] in *; lia. Qed.

Lemma cmp_of_lt : forall st a b, a < b -> cmp st a b.
Proof. intros [|] a b H; cbn [cmp]; lia. Qed.

(* Y * 2^t  compared with  d * 10^j, both as fractions with split powers *)
Definition dy_dec (st : bool) (Y t d j : Z) : Prop := cmp st (Y * p2 t * n10 j) (d * p10 j * n2 t).
Definition dec_dy (st : bool) (d j Y t : Z) : Prop := cmp st (d * p10 j * n2 t) (Y * p2 t * n10 j).

(* equal decimals *)
Lemma dy_dec_eq : forall st Y t d j d' j', d * p10 j * n10 j' = d' * p10 j' * n10 j ->
  (dy_dec st Y t d j <-> dy_dec st Y t d' j').
Proof.
  intros st Y t d j d' j' E. unfold dy_dec.
  apply (cmp_scale st _ _ _ _ (n10 j') (n10 j) (n10_pos _) (n10_pos _)); [ring|].
  replace (d * p10 j * n2 t * n10 j') with (d * p10 j * n10 j' * n2 t) by ring. rewrite E. ring.
Qed.

Lemma dec_dy_eq : forall st Y t d j d' j', d * p10 j * n10 j' = d' * p10 j' * n10 j ->
  (dec_dy st d j Y t <-> dec_dy st d' j' Y t).
Proof.
  intros st Y t d j d' j' E. unfold dec_dy.
  apply (cmp_scale st _ _ _ _ (n10 j') (n10 j) (n10_pos _) (n10_pos _)); [|ring].
  replace (d * p10 j * n2 t * n10 j') with (d * p10 j * n10 j' * n2 t) by ring. rewrite E. ring.
Qed.

(* to the scale of in_rint_s: num = d * p10 j, dn = n10 j *)
Lemma p2_split : forall t K, 0 <= K -> 0 <= t + K -> p2 t * 2 ^ (K - Z.max (- t) 0) = 2 ^ (t + K).
Proof. intros t K HK Ht. unfold p2. rewrite <- Z.pow_add_r by lia. f_equal. lia. Qed.
Lemma n2_split : forall t K, 0 <= K -> 0 <= t + K -> n2 t * 2 ^ (K - Z.max (- t) 0) = 2 ^ K.
Proof. intros t K HK Ht. unfold n2. rewrite <- Z.pow_add_r by lia. f_equal. lia. Qed.

Lemma dy_dec_scaled : forall st Y t d j K, 0 <= K -> 0 <= t + K ->
  (dy_dec st Y t d j <-> cmp st (Y * n10 j * 2 ^ (t + K)) (d * p10 j * 2 ^ K)).
Proof.
  intros st Y t d j K HK Ht. unfold dy_dec.
  apply (cmp_scale st _ _ _ _ (2 ^ (K - Z.max (- t) 0)) 1); [apply pow2_pos; lia|lia| |].
  - rewrite <- (p2_split t K HK Ht). ring.
  - rewrite <- (n2_split t K HK Ht). ring.
Qed.

Lemma dec_dy_scaled : forall st Y t d j K, 0 <= K -> 0 <= t + K ->
  (dec_dy st d j Y t <-> cmp st (d * p10 j * 2 ^ K) (Y * n10 j * 2 ^ (t + K))).
Proof.
  intros st Y t d j K HK Ht. unfold dec_dy.
  apply (cmp_scale st _ _ _ _ (2 ^ (K - Z.max (- t) 0)) 1); [apply pow2_pos; lia|lia| |].
  - rewrite <- (n2_split t K HK Ht). ring.
  - rewrite <- (p2_split t K HK Ht). ring.
Qed.

(* strip_zeros and norm_cand keep the value *)
Lemma strip_zeros_spec : forall f d j d' j', strip_zeros f d j = (d', j') ->
  exists t, 0 <= t /\ j' = j + t /\ d = d' * 10 ^ t /\ (0 < d -> 0 < d').
Proof.
  induction f as [|f IH]; intros d j d' j' H; cbn [strip_zeros] in H.
  - inversion H; subst. exists 0. split; [lia|]. split; [lia|]. split; [change (10 ^ 0) with 1; lia|auto].
  - destruct ((0 <? d) && (d mod 10 =? 0)) eqn:C.
    + apply andb_prop in C. destruct C as [C1 C2]. apply Z.ltb_lt in C1. apply Z.eqb_eq in C2.
      destruct (IH _ _ _ _ H) as (t & Ht & Hj & Hd & Hp).
      exists (t + 1). split; [lia|]. split; [lia|].
      pose proof (Z.div_mod d 10 ltac:(lia)) as Hdm. rewrite C2 in Hdm.
      split.
      * rewrite Z.pow_add_r by lia. change (10 ^ 1) with 10. lia.
      * intros _. apply Hp. lia.
    + inversion H; subst. exists 0. split; [lia|]. split; [lia|]. split; [change (10 ^ 0) with 1; lia|auto].
Qed.

Lemma strip_zeros_eq : forall f d j d' j', strip_zeros f d j = (d', j') ->
  d * p10 j * n10 j' = d' * p10 j' * n10 j.
Proof.
  intros f d j d' j' H. destruct (strip_zeros_spec f d j d' j' H) as (t & Ht & -> & -> & _).
  apply dec_shift. exact Ht.
Qed.

Lemma norm_cand_eq : forall d j, let c := norm_cand (d, j) in
  d * p10 j * n10 (snd c) = fst c * p10 (snd c) * n10 j.
Proof.
  intros d j. unfold norm_cand. cbn [fst snd]. destruct (0 <=? j) eqn:E; cbn [fst snd]; [|ring].
  apply Z.leb_le in E. unfold p10, n10. replace (Z.max j 0) with j by lia.
  replace (Z.max (- j) 0) with 0 by lia. cbn. ring.
Qed.

(* ------------------------------------------------------------------ *)
(* Part 3: the fields of sd_make                                        *)

Definition sX (m : positive) (e : Z) : Z := if narrow m e then 4 * Zpos m else 2 * Zpos m.
Definition sLo (m : positive) (e : Z) : Z := if narrow m e then 4 * Zpos m - 1 else 2 * Zpos m - 1.
Definition sHi (m : positive) (e : Z) : Z := if narrow m e then 4 * Zpos m + 2 else 2 * Zpos m + 1.
Definition se' (m : positive) (e : Z) : Z := if narrow m e then e - 2 else e - 1.
Definition sk (m : positive) (e : Z) : Z :=
  floor_log10 (sX m e * p2 (se' m e)) (n2 (se' m e)) (Z.log2 (Zpos m) + e).
Definition sj17 (m : positive) (e : Z) : Z := sk m e - 16.
Definition ssc (m : positive) (e : Z) : Z := p2 (se' m e) * n10 (sj17 m e).
Definition sD (m : positive) (e : Z) : Z := n2 (se' m e) * p10 (sj17 m e).
Definition sst (m : positive) : bool := negb (Z.even (Zpos m)).

Lemma sd_make_eq : forall m e, sd_make m e =
  {| sd_lo := sLo m e * ssc m e; sd_hi := sHi m e * ssc m e; sd_D := sD m e;
     sd_v17 := (sX m e * ssc m e) / sD m e; sd_rem := (sX m e * ssc m e) mod sD m e;
     sd_incl := Z.even (Zpos m); sd_j17 := sj17 m e |}.
Proof.
  intros m e. unfold sd_make, ssc, sD, sj17, sk, sX, sLo, sHi, se', narrow, p2, n2, p10, n10.
  destruct ((Zpos m =? two52) && (emin_d <? e)); unfold Z.div, Z.modulo;
    destruct (Z.div_eucl _ _); reflexivity.
Qed.

Lemma sd_in_cmp : forall m e v, sd_in (sd_make m e) v = true <->
  cmp (sst m) (sLo m e * ssc m e) v /\ cmp (sst m) v (sHi m e * ssc m e).
Proof.
  intros m e v. rewrite sd_make_eq. unfold sd_in, sst. cbn [sd_incl sd_lo sd_hi].
  destruct (Z.even (Zpos m)); cbn [negb cmp]; rewrite andb_true_iff.
  - rewrite !Z.leb_le. tauto.
  - rewrite !Z.ltb_lt. tauto.
Qed.

Lemma sd_basic : forall m e, finite_ok m e ->
  0 < sLo m e /\ sLo m e < sX m e /\ sX m e < sHi m e /\ -1076 <= se' m e <= 970 /\
  (forall K, 1076 <= K -> sX m e * 2 ^ (se' m e + K) = Zpos m * 2 ^ (e + K)).
Proof.
  intros m e Hok. destruct (finite_ok_bounds m e Hok) as (He & Hm & _).
  unfold sLo, sX, sHi, se'. destruct (narrow m e) eqn:N.
  - unfold narrow in N. apply andb_prop in N. destruct N as [_ N]. apply Z.ltb_lt in N. unfold emin_d in N.
    repeat split; try lia. intros K HK.
    replace (e + K) with (2 + (e - 2 + K)) by lia. rewrite (Z.pow_add_r 2 2) by lia. change (2 ^ 2) with 4. ring.
  - repeat split; try lia. intros K HK.
    replace (e + K) with (1 + (e - 1 + K)) by lia. rewrite (Z.pow_add_r 2 1) by lia. change (2 ^ 1) with 2. ring.
Qed.

(* two dyadics in split form against a common scale *)
Lemma dy_dy_scaled : forall st Y1 t1 Y2 t2 K, 0 <= K -> 0 <= t1 + K -> 0 <= t2 + K ->
  (cmp st (Y1 * p2 t1 * n2 t2) (Y2 * p2 t2 * n2 t1) <-> cmp st (Y1 * 2 ^ (t1 + K)) (Y2 * 2 ^ (t2 + K))).
Proof.
  intros st Y1 t1 Y2 t2 K HK H1 H2.
  apply (cmp_scale st _ _ _ _ (2 ^ (K - Z.max (- t1) 0) * 2 ^ (K - Z.max (- t2) 0)) (2 ^ K)).
  - apply Z.mul_pos_pos; apply pow2_pos; lia.
  - apply pow2_pos; lia.
  - rewrite <- (p2_split t1 K HK H1). rewrite <- (n2_split t2 K HK H2). ring.
  - rewrite <- (p2_split t2 K HK H2). rewrite <- (n2_split t1 K HK H1). ring.
Qed.

(* 10^k <= x < 10^(k+1) *)
Lemma sk_spec : forall m e, finite_ok m e ->
  dec_dy false 1 (sk m e) (sX m e) (se' m e) /\ dy_dec true (sX m e) (se' m e) 1 (sk m e + 1).
Proof.
  intros m e Hok. destruct (finite_ok_bounds m e Hok) as (He & Hm & _).
  destruct (sd_basic m e Hok) as (HLo & HLX & HXH & He' & Hval).
  set (b := Z.log2 (Zpos m) + e).
  pose proof (log2_bounds (Zpos m) ltac:(lia)) as [Hl1 Hl2].
  assert (Hl0 : 0 <= Z.log2 (Zpos m)) by apply Z.log2_nonneg.
  assert (Hl52 : Z.log2 (Zpos m) <= 52).
  { assert (Z.log2 (Zpos m) < 53) by (apply Z.log2_lt_pow2; [lia|]; rewrite <- two53_pow; lia). lia. }
  assert (Hb : -1080 <= b <= 1030) by (unfold b; lia).
  assert (Hx : 0 < sX m e) by lia.
  pose proof (Hval 1080 ltac:(lia)) as Hv.
  assert (P : 0 < 2 ^ (e + 1080)) by (apply pow2_pos; lia).
  assert (A1 : n2 (se' m e) * p2 b <= sX m e * p2 (se' m e) * n2 b).
  { pose proof (dy_dy_scaled false 1 b (sX m e) (se' m e) 1080 ltac:(lia) ltac:(lia) ltac:(lia)) as Hs.
    cbn [cmp] in Hs. rewrite !Z.mul_1_l in Hs.
    assert (2 ^ (b + 1080) <= sX m e * 2 ^ (se' m e + 1080)).
    { rewrite Hv. unfold b. replace (Z.log2 (Zpos m) + e + 1080) with (Z.log2 (Zpos m) + (e + 1080)) by lia.
      rewrite (Z.pow_add_r 2 (Z.log2 (Zpos m)) (e + 1080)) by lia. apply Z.mul_le_mono_nonneg_r; lia. }
    apply Hs in H. lia. }
  assert (A2 : sX m e * p2 (se' m e) * n2 (b + 1) < n2 (se' m e) * p2 (b + 1)).
  { pose proof (dy_dy_scaled true (sX m e) (se' m e) 1 (b + 1) 1080 ltac:(lia) ltac:(lia) ltac:(lia)) as Hs.
    cbn [cmp] in Hs. rewrite !Z.mul_1_l in Hs.
    assert (sX m e * 2 ^ (se' m e + 1080) < 2 ^ (b + 1 + 1080)).
    { rewrite Hv. unfold b. replace (Z.log2 (Zpos m) + e + 1 + 1080) with (Z.log2 (Zpos m) + 1 + (e + 1080)) by lia.
      rewrite (Z.pow_add_r 2 (Z.log2 (Zpos m) + 1) (e + 1080)) by lia. apply Z.mul_lt_mono_pos_r; lia. }
    apply Hs in H. lia. }
  assert (Hnum : 0 < sX m e * p2 (se' m e)) by (apply Z.mul_pos_pos; [exact Hx|apply p2_pos]).
  pose proof (floor_log10_spec (sX m e * p2 (se' m e)) (n2 (se' m e)) b Hnum (n2_pos _) Hb A1 A2) as [S1 S2].
  unfold dec_dy, dy_dec, sk. fold b. cbn [cmp]. split; lia.
Qed.

Lemma sk_range : forall m e, finite_ok m e -> -327 <= sk m e <= 312.
Proof.
  intros m e Hok. destruct (finite_ok_bounds m e Hok) as (He & Hm & _).
  apply floor_log10_range.
  assert (0 <= Z.log2 (Zpos m)) by apply Z.log2_nonneg.
  assert (Z.log2 (Zpos m) < 53) by (apply Z.log2_lt_pow2; [lia|]; rewrite <- two53_pow; lia). lia.
Qed.
