(* C19: the two hand-written decisions of the Rust sources that the translator re-reads on every run
   (translator/translate_c19.py -> gen/NumSrc.v), as parameters of the model.  DEFINITIONS ONLY.
     value.rs    Display for Value::Number: `if x == 0.0 && x.is_sign_negative() { "-0" } else { "{}" }`
     scanner.rs  number(): `if self.peek() == "." && is_digit(self.peek_next()) { ... }` *)
From Coq Require Import ZArith List Bool.
From Coq Require Import Floats.SpecFloat.
From Coq Require Import Strings.Byte.
From YV Require Import Num NumText NumLex.
Import ListNotations.

(* scanner.rs number(); peek_next_guard = the condition contains `is_digit(self.peek_next())`.
   Without the guard the "." is consumed whenever it follows the integer part. *)
Definition lex_number_src (peek_next_guard : bool) (l : list byte) : list byte * list byte :=
  match l with
  | [] => ([], [])
  | c :: r0 =>
    let '(ip, r1) := span_digits r0 in
    match r1 with
    | "."%byte :: r2 =>
      let next_digit := match r2 with d :: _ => is_digit d | [] => false end in
      if negb peek_next_guard || next_digit then
        let '(fp, r3) := span_digits r2 in (c :: ip ++ "."%byte :: fp, r3)
      else (c :: ip, r1)
    | _ => (c :: ip, r1)
    end
  end.

(* value.rs Display; neg_zero_branch = the arm special-cases negative zero by hand;
   platform_signed_zero = what the platform formatter `{}` does with -0.0 on its own
   (Rust < 1.53 printed "0", later versions print "-0"): NOT derivable from yarel's sources. *)
Definition print_f64_src (neg_zero_branch platform_signed_zero : bool) (x : f64) : list byte :=
  match x with
  | S754_zero true =>
    if neg_zero_branch || platform_signed_zero then ["-"; "0"]%byte else ["0"]%byte
  | _ => print_f64 x
  end.
