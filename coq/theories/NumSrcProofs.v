(* C19: the model instantiated with the structure read from the sources is the model the Num*Proofs
   theorems are about - provided the hand-written guards are present. *)
From Coq Require Import ZArith List Bool.
From Coq Require Import Floats.SpecFloat.
From Coq Require Import Strings.Byte.
From YV Require Import Num NumText NumLex NumProofs NumTextProofs NumLexProofs NumSrcModel.
Import ListNotations.

Lemma lex_number_src_true : forall l, lex_number_src true l = lex_number l.
Proof.
  intros [|c r0]; [reflexivity|]. cbn [lex_number_src lex_number negb orb].
  destruct (span_digits r0) as [ip r1].
  destruct r1 as [|b r2]; [reflexivity|].
  destruct b; try reflexivity.
  destruct r2 as [|d r2]; [reflexivity|].
  destruct (is_digit d); reflexivity.
Qed.

Lemma lex_number_src_guarded : forall g l, g = true -> lex_number_src g l = lex_number l.
Proof. intros g l ->. apply lex_number_src_true. Qed.

(* without the look-ahead "1..3" loses its range operator and "7.foo" its method call *)
Example lex_number_src_unguarded_refuted :
  lex_number_src false ["1"; "."; "."; "3"]%byte = (["1"; "."]%byte, ["."; "3"]%byte) /\
  lex_number_src false ["7"; "."; "f"; "o"; "o"]%byte = (["7"; "."]%byte, ["f"; "o"; "o"]%byte).
Proof. vm_compute. split; reflexivity. Qed.

Lemma print_f64_src_branch : forall p x, print_f64_src true p x = print_f64 x.
Proof. intros p [[|]|s| |s m e]; reflexivity. Qed.

Theorem print_parse_roundtrip_src : forall b p x, b = true -> f64_valid x = true ->
  parse_f64 (print_f64_src b p x) = Some x.
Proof. intros b p x -> Hv. rewrite print_f64_src_branch. apply print_parse_roundtrip. exact Hv. Qed.

(* without the branch the sign of zero survives only if the platform formatter keeps it *)
Example print_f64_src_no_branch_refuted :
  parse_f64 (print_f64_src false false f64_neg_zero) = Some f64_zero /\
  parse_f64 (print_f64_src false true f64_neg_zero) = Some f64_neg_zero.
Proof. vm_compute. split; reflexivity. Qed.

Theorem lex_fraction_src : forall g d1 d2 r, g = true ->
  all_digits d1 = true -> d1 <> [] -> all_digits d2 = true -> d2 <> [] ->
  no_digit_head r = true ->
  lex_number_src g (d1 ++ "."%byte :: d2 ++ r) = (d1 ++ "."%byte :: d2, r).
Proof. intros g d1 d2 r -> H1 N1 H2 N2 Hr. rewrite lex_number_src_true. apply lex_fraction; assumption. Qed.

Theorem lex_range_src : forall g d1 r, g = true -> all_digits d1 = true -> d1 <> [] ->
  lex_number_src g (d1 ++ "."%byte :: "."%byte :: r) = (d1, "."%byte :: "."%byte :: r).
Proof. intros g d1 r -> H1 N1. rewrite lex_number_src_true. apply lex_range; assumption. Qed.

Theorem lex_method_src : forall g d1 r, g = true -> all_digits d1 = true -> d1 <> [] ->
  no_digit_head r = true ->
  lex_number_src g (d1 ++ "."%byte :: r) = (d1, "."%byte :: r).
Proof. intros g d1 r -> H1 N1 Hr. rewrite lex_number_src_true. apply lex_method; assumption. Qed.

Theorem lex_integer_src : forall g d1 r, g = true -> all_digits d1 = true -> d1 <> [] ->
  stops_number r = true -> lex_number_src g (d1 ++ r) = (d1, r).
Proof. intros g d1 r -> H1 N1 Hr. rewrite lex_number_src_true. apply lex_integer; assumption. Qed.

Print Assumptions print_parse_roundtrip_src.
Print Assumptions lex_range_src.
