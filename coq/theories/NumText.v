(* Printing and parsing of yarel numbers (Rust `{}` on f64 and `str::parse::<f64>()`).
   DEFINITIONS ONLY.  Proofs live in NumTextProofs.v. *)
From Coq Require Import ZArith List Bool.
From Coq Require Import Floats.SpecFloat.
From Coq Require Import Strings.Byte.
From YV Require Import Num.
Import ListNotations.
Open Scope Z_scope.

(* ------------------------------------------------------------------ *)
(* Digits                                                              *)

Definition is_digit (b : byte) : bool :=
  let n := Byte.to_N b in (48 <=? n)%N && (n <=? 57)%N.

Definition digit_val (b : byte) : Z := Z.of_N (Byte.to_N b) - 48.

Definition digit_byte (d : Z) : byte :=
  match d with
  | 0 => "0" | 1 => "1" | 2 => "2" | 3 => "3" | 4 => "4"
  | 5 => "5" | 6 => "6" | 7 => "7" | 8 => "8" | _ => "9"
  end%byte.

(* longest prefix of ASCII digits, and the rest *)
Fixpoint span_digits (l : list byte) : list byte * list byte :=
  match l with
  | b :: r =>
    if is_digit b then let '(ds, rest) := span_digits r in (b :: ds, rest)
    else ([], l)
  | [] => ([], [])
  end.

Definition Z_of_digits (l : list byte) : Z :=
  fold_left (fun acc b => 10 * acc + digit_val b) l 0.

Fixpoint digits_aux (fuel : nat) (n : Z) (acc : list byte) : list byte :=
  match fuel with
  | O => acc
  | S f =>
    let acc' := digit_byte (n mod 10) :: acc in
    if n / 10 =? 0 then acc' else digits_aux f (n / 10) acc'
  end.

(* decimal digits of n >= 0, most significant first; "0" for 0 *)
Definition digits_of_Z (n : Z) : list byte :=
  digits_aux (S (Z.to_nat (Z.log2 n))) n [].

Definition zeros (k : nat) : list byte := repeat "0"%byte k.

(* ------------------------------------------------------------------ *)
(* Decimal -> double                                                   *)

(* the double nearest (ties to even) to (-1)^neg * d * 10^e10, d >= 0.
   The two early exits only avoid astronomically large powers of ten:
   d >= 1 and e10 > 310  ==> value >= 1e311 > MAX  ==> infinity;
   d * 10^e10 < 2^(log2 d + 1 + 3*e10) <= 2^-1076  ==> zero. *)
Definition nearest_double (neg : bool) (d e10 : Z) : f64 :=
  if d <=? 0 then S754_zero neg
  else if 310 <? e10 then S754_infinity neg
  else if (e10 <? -1100) && (3 * e10 + Z.log2 d + 1 <? -1075) then S754_zero neg
  else round_ratio neg (d * 10 ^ (Z.max e10 0)) (10 ^ (Z.max (- e10) 0)).

(* ------------------------------------------------------------------ *)
(* Double -> shortest decimal                                          *)

(* floor(log10(num/den)), given b = floor(log2(num/den)) as a hint *)
Definition ge_pow10 (num den k : Z) : bool :=
  den * 10 ^ (Z.max k 0) <=? num * 10 ^ (Z.max (- k) 0).

Definition floor_log10 (num den b : Z) : Z :=
  let k0 := (b * 1233) / 4096 in
  if negb (ge_pow10 num den k0) then k0 - 1
  else if ge_pow10 num den (k0 + 1) then k0 + 1
  else k0.

(* drop trailing decimal zeros of d (value-preserving) *)
Fixpoint strip_zeros (fuel : nat) (d j : Z) : Z * Z :=
  match fuel with
  | O => (d, j)
  | S f => if (0 <? d) && (d mod 10 =? 0) then strip_zeros f (d / 10) (j + 1) else (d, j)
  end.

(* a candidate in the form the parser will read it back from positional text:
   d * 10^j with j >= 0 is written out as an integer *)
Definition norm_cand (c : Z * Z) : Z * Z :=
  if 0 <=? snd c then (fst c * 10 ^ snd c, 0) else c.

Definition cand_ok (neg : bool) (x : f64) (c : Z * Z) : bool :=
  let c' := norm_cand c in
  (0 <? fst c') && f64_eq_exact (nearest_double neg (fst c') (snd c')) x.

(* the n-significant-digit candidates for num/den (k = floor log10), closest first *)
Definition try_n (neg : bool) (x : f64) (num den k n : Z) : option (Z * Z) :=
  let j := k + 1 - n in
  let sn := num * 10 ^ (Z.max (- j) 0) in
  let sd := den * 10 ^ (Z.max j 0) in
  let lo := sn / sd in
  let rem := sn mod sd in
  let cl := strip_zeros 20 lo j in
  let ch := strip_zeros 20 (lo + 1) j in
  if rem =? 0 then (if cand_ok neg x cl then Some cl else None)
  else match 2 * rem ?= sd with
       | Lt => if cand_ok neg x cl then Some cl
               else if cand_ok neg x ch then Some ch else None
       | _ => if cand_ok neg x ch then Some ch
              else if cand_ok neg x cl then Some cl else None
       end.

Fixpoint search_digits (fuel : nat) (neg : bool) (x : f64) (num den k n : Z) : option (Z * Z) :=
  match fuel with
  | O => None
  | S f =>
    match try_n neg x num den k n with
    | Some r => Some r
    | None => search_digits f neg x num den k (n + 1)
    end
  end.

(* exact decimal expansion of m * 2^e *)
Definition exact_digits (m : positive) (e : Z) : Z * Z :=
  if 0 <=? e then (Zpos m * 2 ^ e, 0) else (Zpos m * 5 ^ (- e), e).

(* Reference (slow) search: for n = 1..17 try the n-digit neighbours, each checked with
   nearest_double.  Kept for cross-checking `shortest_digits`; not used by print_f64. *)
Definition shortest_digits_ref (s : bool) (m : positive) (e : Z) : Z * Z :=
  let x := S754_finite s m e in
  let num := Zpos m * 2 ^ (Z.max e 0) in
  let den := 2 ^ (Z.max (- e) 0) in
  let k := floor_log10 num den (Z.log2 (Zpos m) + e) in
  match search_digits 17 s x num den k 1 with
  | Some r => r
  | None => exact_digits m e
  end.

(* Fast search.  The rounding interval of x = m*2^e is computed exactly:
   x = X*2^e', low midpoint = Lo*2^e', high midpoint = Hi*2^e'; a decimal is read back as x
   iff it lies in [Lo,Hi]*2^e' (bounds included iff m is even: ties-to-even).
   Everything is scaled to units of 10^(k-16)/D so that the 17-digit floor v17 is an integer;
   the n-digit candidates are v17 / 10^(17-n) and its successor. *)
Record sd_ctx := {
  sd_lo : Z;      (* low midpoint, scaled *)
  sd_hi : Z;      (* high midpoint, scaled *)
  sd_D : Z;       (* common denominator *)
  sd_v17 : Z;     (* floor of scaled x / D *)
  sd_rem : Z;     (* scaled x mod D *)
  sd_incl : bool; (* interval closed? *)
  sd_j17 : Z      (* decimal exponent of the 17th digit *)
}.

Definition sd_make (m : positive) (e : Z) : sd_ctx :=
  let narrow := (Zpos m =? two52) && (emin_d <? e) in
  let '(X, Lo, Hi, e') :=
    if narrow then (4 * Zpos m, 4 * Zpos m - 1, 4 * Zpos m + 2, e - 2)
    else (2 * Zpos m, 2 * Zpos m - 1, 2 * Zpos m + 1, e - 1) in
  let p2 := 2 ^ (Z.max e' 0) in
  let den := 2 ^ (Z.max (- e') 0) in
  let k := floor_log10 (X * p2) den (Z.log2 (Zpos m) + e) in
  let j17 := k - 16 in
  let sc := p2 * 10 ^ (Z.max (- j17) 0) in
  let D := den * 10 ^ (Z.max j17 0) in
  let '(v17, rem) := Z.div_eucl (X * sc) D in
  {| sd_lo := Lo * sc; sd_hi := Hi * sc; sd_D := D; sd_v17 := v17; sd_rem := rem;
     sd_incl := Z.even (Zpos m); sd_j17 := j17 |}.

Definition sd_in (c : sd_ctx) (v : Z) : bool :=
  if sd_incl c then (sd_lo c <=? v) && (v <=? sd_hi c)
  else (sd_lo c <? v) && (v <? sd_hi c).

(* candidate with 17 - i significant digits, if any lies in the interval; closest first,
   ties go to the larger one (as Rust's flt2dec does) *)
Definition sd_try (c : sd_ctx) (i : Z) : option (Z * Z) :=
  let P := 10 ^ i in
  let lo := sd_v17 c / P in
  let rest := sd_v17 c mod P in
  let frac := rest * sd_D c + sd_rem c in      (* x - lo, in units of 1/(P*D) *)
  let PD := P * sd_D c in
  let j := sd_j17 c + i in
  let lo_ok := (0 <? lo) && sd_in c (lo * PD) in
  let hi_ok := sd_in c ((lo + 1) * PD) in
  if frac =? 0 then (if lo_ok then Some (lo, j) else None)
  else match 2 * frac ?= PD with
       | Lt => if lo_ok then Some (lo, j) else if hi_ok then Some (lo + 1, j) else None
       | _ => if hi_ok then Some (lo + 1, j) else if lo_ok then Some (lo, j) else None
       end.

Fixpoint sd_search (fuel : nat) (c : sd_ctx) (i : Z) : option (Z * Z) :=
  match fuel with
  | O => None
  | S f =>
    match sd_try c i with
    | Some r => Some r
    | None => sd_search f c (i - 1)
    end
  end.

(* (d, e10): |x| is printed as the digits of d scaled by 10^e10.
   Whatever the search proposes is re-checked with nearest_double before being used; the
   exact expansion is the fallback (never taken in practice). *)
Definition shortest_digits (s : bool) (m : positive) (e : Z) : Z * Z :=
  let x := S754_finite s m e in
  let fallback :=
    let c := exact_digits m e in
    if cand_ok s x c then c else (Zpos m, 0) (* unreachable for valid x *) in
  match sd_search 17 (sd_make m e) 16 with
  | Some (d, j) =>
    let c := strip_zeros 20 d j in
    if cand_ok s x c then c else fallback
  | None => fallback
  end.

(* positional notation without exponent *)
Definition render (d e10 : Z) : list byte :=
  let ds := digits_of_Z d in
  if 0 <=? e10 then ds ++ zeros (Z.to_nat e10)
  else
    let k := Z.to_nat (- e10) in
    let L := length ds in
    if (k <? L)%nat then firstn (L - k) ds ++ "."%byte :: skipn (L - k) ds
    else "0"%byte :: "."%byte :: zeros (k - L) ++ ds.

Definition sign_text (s : bool) : list byte := if s then ["-"%byte] else [].

(* yarel's Display for Value::Number *)
Definition print_f64 (x : f64) : list byte :=
  match x with
  | S754_nan => ["N"; "a"; "N"]%byte
  | S754_infinity s => sign_text s ++ ["i"; "n"; "f"]%byte
  | S754_zero s => sign_text s ++ ["0"%byte]
  | S754_finite s m e =>
    let '(d, e10) := shortest_digits s m e in
    sign_text s ++ render d e10
  end.

(* ------------------------------------------------------------------ *)
(* Parsing: core::num::dec2flt                                          *)

(* parse_scientific: the accumulator saturates once it reaches 0x10000 *)
Definition exp_of_digits (l : list byte) : Z :=
  fold_left (fun acc b => if acc <? 65536 then 10 * acc + digit_val b else acc) l 0.

(* mantissa digits and decimal exponent of a non-special number; None = syntax error *)
Definition parse_decimal (s : list byte) : option (Z * Z) :=
  let '(ip, r1) := span_digits s in
  let '(fp, r2) := match r1 with
                   | "."%byte :: r => span_digits r
                   | _ => ([], r1)
                   end in
  if (length ip + length fp =? 0)%nat then None else
  let mant := Z_of_digits (ip ++ fp) in
  let e0 := - Z.of_nat (length fp) in
  match r2 with
  | [] => Some (mant, e0)
  | c :: r3 =>
    if Byte.eqb c "e"%byte || Byte.eqb c "E"%byte then
      let '(eneg, r4) := match r3 with
                         | "-"%byte :: r => (true, r)
                         | "+"%byte :: r => (false, r)
                         | _ => (false, r3)
                         end in
      let '(ed, r5) := span_digits r4 in
      match ed, r5 with
      | _ :: _, [] =>
        let ex := exp_of_digits ed in
        Some (mant, e0 + (if eneg then - ex else ex))
      | _, _ => None
      end
    else None
  end.

(* ASCII upper-casing by clearing bit 0x20, as parse_inf_nan does *)
Definition clear_case (b : byte) : N := N.land (Byte.to_N b) 223.

Fixpoint N_list_eqb (a b : list N) : bool :=
  match a, b with
  | [], [] => true
  | x :: a', y :: b' => N.eqb x y && N_list_eqb a' b'
  | _, _ => false
  end.

Definition parse_inf_nan (neg : bool) (s : list byte) : option f64 :=
  let u := map clear_case s in
  if N_list_eqb u [73; 78; 70]%N                                (* INF *)
     || N_list_eqb u [73; 78; 70; 73; 78; 73; 84; 89]%N         (* INFINITY *)
  then Some (S754_infinity neg)
  else if N_list_eqb u [78; 65; 78]%N then Some S754_nan        (* NAN *)
  else None.

Definition parse_f64 (s : list byte) : option f64 :=
  match s with
  | [] => None
  | c :: r =>
    let neg := Byte.eqb c "-"%byte in
    let s1 := if neg || Byte.eqb c "+"%byte then r else s in
    match s1 with
    | [] => None
    | _ :: _ =>
      match parse_decimal s1 with
      | Some (d, e10) => Some (nearest_double neg d e10)
      | None => parse_inf_nan neg s1
      end
    end
  end.

(* compiler.rs `number`: `s.previous.source.as_str().parse::<f64>()` on the lexeme *)
Definition parse_literal (lexeme : list byte) : option f64 := parse_f64 lexeme.

(* ------------------------------------------------------------------ *)
(* Shape of printed finite numbers:  -?[0-9]+(\.[0-9]+)?               *)

Definition all_digits (l : list byte) : bool := forallb is_digit l.

Definition is_nil {A} (l : list A) : bool := match l with [] => true | _ => false end.

Definition unsigned_shape (l : list byte) : bool :=
  let '(ip, r1) := span_digits l in
  negb (is_nil ip) &&
  match r1 with
  | [] => true
  | "."%byte :: r2 =>
    let '(fp, r3) := span_digits r2 in negb (is_nil fp) && is_nil r3
  | _ => false
  end.

Definition num_shape (l : list byte) : bool :=
  match l with
  | "-"%byte :: r => unsigned_shape r
  | _ => unsigned_shape l
  end.
