(* Lemmas and theorems about YV.NumText: printed numbers parse back to themselves. *)
From Coq Require Import ZArith List Bool Lia.
From Coq Require Import Floats.SpecFloat.
From Coq Require Import Strings.Byte.
From YV Require Import Num NumText NumProofs.
Import ListNotations.
Open Scope Z_scope.

(* ------------------------------------------------------------------ *)
(* single digits                                                       *)

Lemma digit_byte_is_digit : forall d, is_digit (digit_byte d) = true.
Proof.
  intros [|p|p]; [reflexivity| |reflexivity].
  do 4 (try (destruct p as [p|p|]; try reflexivity)).
Qed.

Lemma digit_val_digit_byte : forall d, 0 <= d <= 9 -> digit_val (digit_byte d) = d.
Proof.
  intros d H.
  assert (C : d = 0 \/ d = 1 \/ d = 2 \/ d = 3 \/ d = 4 \/ d = 5 \/ d = 6 \/ d = 7 \/ d = 8 \/ d = 9) by lia.
  repeat (destruct C as [C|C]; [subst d; reflexivity|]). subst d; reflexivity.
Qed.

Lemma is_digit_not_sign : forall c, is_digit c = true ->
  Byte.eqb c "-"%byte = false /\ Byte.eqb c "+"%byte = false /\ Byte.eqb c "."%byte = false.
Proof. intros c H. destruct c; try discriminate H; repeat split. Qed.

Definition no_digit_head (r : list byte) : bool :=
  match r with [] => true | c :: _ => negb (is_digit c) end.

(* ------------------------------------------------------------------ *)
(* span_digits                                                         *)

Lemma span_digits_app : forall ds r,
  all_digits ds = true -> no_digit_head r = true -> span_digits (ds ++ r) = (ds, r).
Proof.
  induction ds as [|b ds IH]; intros r Hd Hr.
  - cbn [app]. destruct r as [|c r]; [reflexivity|].
    cbn [span_digits]. cbn [no_digit_head] in Hr. apply negb_true_iff in Hr. now rewrite Hr.
  - cbn [all_digits forallb] in Hd. apply andb_prop in Hd. destruct Hd as [Hb Hd].
    cbn [app span_digits]. rewrite Hb. rewrite (IH r Hd Hr). reflexivity.
Qed.

Lemma span_digits_all : forall ds, all_digits ds = true -> span_digits ds = (ds, []).
Proof. intros ds H. rewrite <- (app_nil_r ds) at 1. now apply span_digits_app. Qed.

Lemma span_digits_spec : forall l a b, span_digits l = (a, b) ->
  l = a ++ b /\ all_digits a = true /\ no_digit_head b = true.
Proof.
  induction l as [|c l IH]; intros a b H.
  - cbn in H. inversion H. repeat split.
  - cbn [span_digits] in H. destruct (is_digit c) eqn:E.
    + destruct (span_digits l) as [ds rest] eqn:E2. inversion H; subst.
      destruct (IH ds b eq_refl) as (H1 & H2 & H3). subst l.
      repeat split; [|exact H3]. cbn [all_digits forallb]. now rewrite E.
    + inversion H; subst. repeat split. cbn [no_digit_head]. now rewrite E.
Qed.

Lemma all_digits_app : forall a b, all_digits (a ++ b) = all_digits a && all_digits b.
Proof. intros. unfold all_digits. apply forallb_app. Qed.

Lemma all_digits_zeros : forall k, all_digits (zeros k) = true.
Proof. induction k; [reflexivity|]. cbn. exact IHk. Qed.

(* ------------------------------------------------------------------ *)
(* Z_of_digits                                                         *)

Lemma fold_digits_acc : forall l acc,
  fold_left (fun a b => 10 * a + digit_val b) l acc
  = acc * 10 ^ Z.of_nat (length l) + fold_left (fun a b => 10 * a + digit_val b) l 0.
Proof.
  induction l as [|b l IH]; intros acc.
  - cbn. lia.
  - cbn [fold_left length]. rewrite (IH (10 * acc + digit_val b)), (IH (10 * 0 + digit_val b)).
    rewrite Nat2Z.inj_succ, Z.pow_succ_r by lia. ring.
Qed.

Lemma Z_of_digits_app : forall a b,
  Z_of_digits (a ++ b) = Z_of_digits a * 10 ^ Z.of_nat (length b) + Z_of_digits b.
Proof.
  intros a b. unfold Z_of_digits. rewrite fold_left_app. apply fold_digits_acc.
Qed.

Lemma Z_of_digits_snoc : forall a c, Z_of_digits (a ++ [c]) = 10 * Z_of_digits a + digit_val c.
Proof.
  intros. rewrite Z_of_digits_app. cbn [length]. unfold Z_of_digits at 2. cbn [fold_left].
  change (10 ^ Z.of_nat 1) with 10. lia.
Qed.

Lemma Z_of_digits_zeros : forall k, Z_of_digits (zeros k) = 0.
Proof.
  induction k; [reflexivity|].
  change (zeros (S k)) with ([x30] ++ zeros k). rewrite Z_of_digits_app, IHk. reflexivity.
Qed.

Lemma length_zeros : forall k, length (zeros k) = k.
Proof. intros. apply repeat_length. Qed.

Lemma Z_of_digits_lead_zeros : forall k ds, Z_of_digits (zeros k ++ ds) = Z_of_digits ds.
Proof. intros. rewrite Z_of_digits_app, Z_of_digits_zeros. lia. Qed.

Lemma Z_of_digits_trail_zeros : forall k ds,
  Z_of_digits (ds ++ zeros k) = Z_of_digits ds * 10 ^ Z.of_nat k.
Proof. intros. rewrite Z_of_digits_app, Z_of_digits_zeros, length_zeros. lia. Qed.

(* ------------------------------------------------------------------ *)
(* digits_of_Z                                                         *)

Lemma digits_aux_acc : forall f n acc, digits_aux f n acc = digits_aux f n [] ++ acc.
Proof.
  induction f as [|f IH]; intros n acc; [reflexivity|].
  cbn [digits_aux]. destruct (n / 10 =? 0); [reflexivity|].
  rewrite (IH (n / 10) (_ :: acc)), (IH (n / 10) [_]). rewrite <- app_assoc. reflexivity.
Qed.

Lemma digits_aux_value : forall f n, 0 <= n < 2 ^ Z.of_nat f -> Z_of_digits (digits_aux f n []) = n.
Proof.
  induction f as [|f IH]; intros n Hn.
  - cbn in *. lia.
  - cbn [digits_aux].
    pose proof (Z.div_mod n 10 ltac:(lia)) as Hdm.
    pose proof (Z.mod_pos_bound n 10 ltac:(lia)) as Hmod.
    destruct (n / 10 =? 0) eqn:E.
    + apply Z.eqb_eq in E. unfold Z_of_digits. cbn [fold_left].
      rewrite digit_val_digit_byte by lia. lia.
    + apply Z.eqb_neq in E. rewrite digits_aux_acc, Z_of_digits_snoc.
      rewrite digit_val_digit_byte by lia.
      rewrite IH; [lia|].
      rewrite Nat2Z.inj_succ, Z.pow_succ_r in Hn by lia.
      split; [apply Z.div_pos; lia|]. apply Z.div_lt_upper_bound; lia.
Qed.

Lemma digits_aux_all : forall f n acc, all_digits acc = true -> all_digits (digits_aux f n acc) = true.
Proof.
  induction f as [|f IH]; intros n acc H; [exact H|].
  cbn [digits_aux].
  assert (H' : all_digits (digit_byte (n mod 10) :: acc) = true).
  { cbn [all_digits forallb]. rewrite digit_byte_is_digit. exact H. }
  destruct (n / 10 =? 0); [exact H'|]. apply IH. exact H'.
Qed.

Lemma digits_aux_nonempty : forall f n, digits_aux (S f) n [] <> [].
Proof.
  intros f n. cbn [digits_aux]. destruct (n / 10 =? 0); [discriminate|].
  rewrite digits_aux_acc. intros H. apply app_eq_nil in H. destruct H; discriminate.
Qed.

Lemma digits_of_Z_value : forall n, 0 <= n -> Z_of_digits (digits_of_Z n) = n.
Proof.
  intros n Hn. unfold digits_of_Z. apply digits_aux_value.
  split; [exact Hn|].
  destruct (Z.eq_dec n 0) as [->|Hz]; [cbn; lia|].
  pose proof (Z.log2_spec n ltac:(lia)) as [_ H].
  rewrite Nat2Z.inj_succ, Z2Nat.id by apply Z.log2_nonneg. exact H.
Qed.

Lemma digits_of_Z_all : forall n, all_digits (digits_of_Z n) = true.
Proof. intros. apply digits_aux_all. reflexivity. Qed.

Lemma digits_of_Z_nonempty : forall n, digits_of_Z n <> [].
Proof. intros. apply digits_aux_nonempty. Qed.

(* ------------------------------------------------------------------ *)
(* render: positional text of d * 10^e10                               *)

Inductive render_shape (d e10 : Z) (t : list byte) : Prop :=
| RS_int (ip : list byte) :
    0 <= e10 -> t = ip -> all_digits ip = true -> ip <> [] ->
    (0 <= d -> Z_of_digits ip = d * 10 ^ e10) -> render_shape d e10 t
| RS_frac (ip fp : list byte) :
    e10 < 0 -> t = ip ++ "."%byte :: fp ->
    all_digits ip = true -> ip <> [] -> all_digits fp = true -> fp <> [] ->
    (0 <= d -> Z_of_digits (ip ++ fp) = d) -> Z.of_nat (length fp) = - e10 ->
    render_shape d e10 t.

Lemma nonempty_length : forall {A} (l : list A), (0 < length l)%nat -> l <> [].
Proof. intros A [|x l] H; [cbn in H; lia|discriminate]. Qed.

Lemma length_nonempty : forall {A} (l : list A), l <> [] -> (0 < length l)%nat.
Proof. intros A [|x l] H; [congruence|cbn; lia]. Qed.

Lemma render_form : forall d e10, render_shape d e10 (render d e10).
Proof.
  intros d e10. unfold render.
  pose proof (digits_of_Z_all d) as Hall.
  pose proof (digits_of_Z_nonempty d) as Hne.
  set (ds := digits_of_Z d) in *.
  destruct (0 <=? e10) eqn:E.
  - apply Z.leb_le in E. apply (RS_int _ _ _ (ds ++ zeros (Z.to_nat e10))); auto.
    + rewrite all_digits_app, Hall, all_digits_zeros. reflexivity.
    + intros H. apply app_eq_nil in H. tauto.
    + intros Hd. rewrite Z_of_digits_trail_zeros, Z2Nat.id by lia.
      unfold ds. rewrite digits_of_Z_value by lia. reflexivity.
  - apply Z.leb_gt in E.
    set (k := Z.to_nat (- e10)). assert (Hk : Z.of_nat k = - e10) by (unfold k; lia).
    assert (Hk0 : (0 < k)%nat) by lia.
    pose proof (length_nonempty ds Hne) as HL.
    destruct (k <? length ds)%nat eqn:E2.
    + apply Nat.ltb_lt in E2.
      pose proof (firstn_skipn (length ds - k) ds) as Hfs.
      assert (Hall2 : all_digits (firstn (length ds - k) ds ++ skipn (length ds - k) ds) = true)
        by (rewrite Hfs; exact Hall).
      rewrite all_digits_app in Hall2. apply andb_prop in Hall2. destruct Hall2 as [Ha Hb].
      apply (RS_frac _ _ _ (firstn (length ds - k) ds) (skipn (length ds - k) ds)); auto.
      * apply nonempty_length. rewrite firstn_length. lia.
      * apply nonempty_length. rewrite skipn_length. lia.
      * intros Hd. rewrite Hfs. unfold ds. apply digits_of_Z_value. lia.
      * rewrite skipn_length. lia.
    + apply Nat.ltb_ge in E2.
      apply (RS_frac _ _ _ ["0"%byte] (zeros (k - length ds) ++ ds)); auto.
      * discriminate.
      * rewrite all_digits_app, all_digits_zeros. exact Hall.
      * intros H. apply app_eq_nil in H. tauto.
      * intros Hd. change (["0"%byte] ++ zeros (k - length ds) ++ ds) with (zeros (S (k - length ds)) ++ ds).
        rewrite Z_of_digits_lead_zeros. unfold ds. apply digits_of_Z_value. lia.
      * rewrite app_length, length_zeros. lia.
Qed.

(* ------------------------------------------------------------------ *)
(* the shape predicate                                                 *)

Lemma is_nil_false : forall {A} (l : list A), l <> [] -> is_nil l = false.
Proof. intros A [|x l] H; [congruence|reflexivity]. Qed.

Lemma unsigned_shape_int : forall ip, all_digits ip = true -> ip <> [] -> unsigned_shape ip = true.
Proof.
  intros ip Ha Hn. unfold unsigned_shape. rewrite span_digits_all by exact Ha.
  rewrite is_nil_false by exact Hn. reflexivity.
Qed.

Lemma unsigned_shape_frac : forall ip fp,
  all_digits ip = true -> ip <> [] -> all_digits fp = true -> fp <> [] ->
  unsigned_shape (ip ++ "."%byte :: fp) = true.
Proof.
  intros ip fp Ha Hn Hb Hm. unfold unsigned_shape.
  rewrite span_digits_app by (auto; reflexivity).
  rewrite is_nil_false by exact Hn. cbn [negb andb].
  rewrite span_digits_all by exact Hb. rewrite is_nil_false by exact Hm. reflexivity.
Qed.

Lemma render_unsigned_shape : forall d e10, unsigned_shape (render d e10) = true.
Proof.
  intros d e10. destruct (render_form d e10) as [ip H1 -> H3 H4 _ | ip fp H1 -> H3 H4 H5 H6 _ _].
  - now apply unsigned_shape_int.
  - now apply unsigned_shape_frac.
Qed.

Lemma render_head_digit : forall d e10, exists c t, render d e10 = c :: t /\ is_digit c = true.
Proof.
  intros d e10. destruct (render_form d e10) as [ip H1 -> H3 H4 _ | ip fp H1 -> H3 H4 H5 H6 _ _];
    (destruct ip as [|c ip]; [congruence|]);
    cbn [all_digits forallb] in H3; apply andb_prop in H3; destruct H3 as [Hc _].
  - exists c, ip. split; [reflexivity|exact Hc].
  - exists c, (ip ++ "."%byte :: fp). split; [reflexivity|exact Hc].
Qed.

Lemma num_shape_unsigned : forall l c t, l = c :: t -> is_digit c = true ->
  num_shape l = unsigned_shape l.
Proof. intros l c t -> H. destruct c; try discriminate H; reflexivity. Qed.

Theorem print_shape : forall s m e,
  num_shape (print_f64 (S754_finite s m e)) = true.
Proof.
  intros s m e. cbn [print_f64]. destruct (shortest_digits s m e) as [d e10].
  destruct s; cbn [sign_text app].
  - cbn [num_shape]. apply render_unsigned_shape.
  - destruct (render_head_digit d e10) as (c & t & Hr & Hc).
    rewrite (num_shape_unsigned _ c t Hr Hc). apply render_unsigned_shape.
Qed.
Print Assumptions print_shape.

Theorem print_shape_zero : forall s, num_shape (print_f64 (S754_zero s)) = true.
Proof. intros [|]; reflexivity. Qed.

(* ------------------------------------------------------------------ *)
(* parsing rendered text                                               *)

Lemma parse_decimal_int : forall ip, all_digits ip = true -> ip <> [] ->
  parse_decimal ip = Some (Z_of_digits ip, 0).
Proof.
  intros ip Ha Hn. unfold parse_decimal. rewrite span_digits_all by exact Ha.
  pose proof (length_nonempty ip Hn) as HL.
  destruct (length ip + length (@nil byte) =? 0)%nat eqn:E; [apply Nat.eqb_eq in E; lia|].
  rewrite app_nil_r. reflexivity.
Qed.

Lemma parse_decimal_frac : forall ip fp,
  all_digits ip = true -> ip <> [] -> all_digits fp = true ->
  parse_decimal (ip ++ "."%byte :: fp) = Some (Z_of_digits (ip ++ fp), - Z.of_nat (length fp)).
Proof.
  intros ip fp Ha Hn Hb. unfold parse_decimal.
  rewrite span_digits_app by (auto; reflexivity).
  rewrite span_digits_all by exact Hb.
  pose proof (length_nonempty ip Hn) as HL.
  destruct (length ip + length fp =? 0)%nat eqn:E; [apply Nat.eqb_eq in E; lia|].
  reflexivity.
Qed.

Lemma parse_decimal_render : forall d e10, 0 <= d ->
  parse_decimal (render d e10) = Some (norm_cand (d, e10)).
Proof.
  intros d e10 Hd. unfold norm_cand. cbn [fst snd].
  destruct (render_form d e10) as [ip H1 -> H3 H4 H5 | ip fp H1 -> H3 H4 H5 H6 H7 H8].
  - rewrite parse_decimal_int by assumption. rewrite H5 by exact Hd.
    destruct (0 <=? e10) eqn:E; [reflexivity|apply Z.leb_gt in E; lia].
  - rewrite parse_decimal_frac by assumption. rewrite H7 by exact Hd. rewrite H8.
    destruct (0 <=? e10) eqn:E; [apply Z.leb_le in E; lia|]. f_equal. f_equal. lia.
Qed.

Lemma parse_f64_render : forall s d e10, 0 <= d ->
  parse_f64 (sign_text s ++ render d e10)
  = Some (nearest_double s (fst (norm_cand (d, e10))) (snd (norm_cand (d, e10)))).
Proof.
  intros s d e10 Hd.
  destruct (render_head_digit d e10) as (c & t & Hr & Hc).
  pose proof (parse_decimal_render d e10 Hd) as Hp.
  destruct (is_digit_not_sign c Hc) as (Hm & Hpl & _).
  destruct s; cbn [sign_text app].
  - unfold parse_f64. change (Byte.eqb "-" "-") with true. cbn [orb].
    rewrite Hr in *. rewrite Hp. destruct (norm_cand (d, e10)); reflexivity.
  - unfold parse_f64. rewrite Hr in *. rewrite Hm, Hpl. cbn [orb].
    rewrite Hp. destruct (norm_cand (d, e10)); reflexivity.
Qed.

(* ------------------------------------------------------------------ *)
(* the exact expansion always reads back                               *)

Lemma nearest_double_exact : forall s m e, finite_ok m e ->
  let c := norm_cand (exact_digits m e) in
  0 < fst c /\ nearest_double s (fst c) (snd c) = S754_finite s m e.
Proof.
  intros s m e Hok.
  assert (He : -1074 <= e <= 971) by (destruct Hok as [[? ?]|[? ?]]; lia).
  unfold exact_digits, norm_cand.
  destruct (0 <=? e) eqn:E; cbn [fst snd].
  - apply Z.leb_le in E. change (0 <=? 0) with true. cbn [fst snd].
    change (10 ^ 0) with 1. rewrite Z.mul_1_r.
    assert (P : 0 < 2 ^ e) by (apply Z.pow_pos_nonneg; lia).
    split; [nia|].
    unfold nearest_double.
    destruct (Zpos m * 2 ^ e <=? 0) eqn:E1; [apply Z.leb_le in E1; nia|].
    change (310 <? 0) with false. change (0 <? -1100) with false. cbn [andb].
    change (10 ^ Z.max 0 0) with 1. change (10 ^ Z.max (- 0) 0) with 1.
    apply round_ratio_exact; [exact Hok|lia|].
    rewrite (Z.max_r (- e) 0), (Z.max_l e 0) by lia. change (2 ^ 0) with 1. ring.
  - cbn [fst snd]. rewrite E. cbn [fst snd]. apply Z.leb_gt in E.
    assert (P5 : 0 < 5 ^ (- e)) by (apply Z.pow_pos_nonneg; lia).
    split; [nia|].
    unfold nearest_double.
    destruct (Zpos m * 5 ^ (- e) <=? 0) eqn:E1; [apply Z.leb_le in E1; nia|].
    destruct (310 <? e) eqn:E2; [apply Z.ltb_lt in E2; lia|].
    destruct (e <? -1100) eqn:E3; [apply Z.ltb_lt in E3; lia|]. cbn [andb].
    rewrite (Z.max_r e 0), (Z.max_l (- e) 0) by lia. change (10 ^ 0) with 1.
    apply round_ratio_exact; [exact Hok| apply Z.pow_pos_nonneg; lia |].
    rewrite (Z.max_l (- e) 0), (Z.max_r e 0) by lia. change (2 ^ 0) with 1.
    change 10 with (5 * 2). rewrite Z.pow_mul_l. ring.
Qed.
Print Assumptions nearest_double_exact.

Lemma exact_cand_ok : forall s m e, finite_ok m e ->
  cand_ok s (S754_finite s m e) (exact_digits m e) = true.
Proof.
  intros s m e Hok. unfold cand_ok.
  destruct (nearest_double_exact s m e Hok) as [H1 H2].
  apply andb_true_intro. split; [apply Z.ltb_lt; exact H1|].
  rewrite H2. apply f64_eq_exact_refl.
Qed.

(* whatever shortest_digits returns has been checked *)
Lemma shortest_digits_ok : forall s m e, finite_ok m e ->
  cand_ok s (S754_finite s m e) (shortest_digits s m e) = true.
Proof.
  intros s m e Hok. unfold shortest_digits.
  rewrite (exact_cand_ok s m e Hok).
  destruct (sd_search 17 (sd_make m e) 16) as [[d j]|].
  - destruct (cand_ok s (S754_finite s m e) (strip_zeros 20 d j)) eqn:E; [exact E|].
    apply exact_cand_ok; exact Hok.
  - apply exact_cand_ok; exact Hok.
Qed.

Lemma cand_ok_spec : forall s x d e10, cand_ok s x (d, e10) = true ->
  0 < d /\ nearest_double s (fst (norm_cand (d, e10))) (snd (norm_cand (d, e10))) = x.
Proof.
  intros s x d e10 H. unfold cand_ok in H. apply andb_prop in H. destruct H as [H1 H2].
  apply Z.ltb_lt in H1. apply f64_eq_exact_true in H2. split; [|exact H2].
  unfold norm_cand in H1. cbn [fst snd] in H1.
  destruct (0 <=? e10) eqn:E; cbn [fst] in H1; [|exact H1].
  apply Z.leb_le in E. assert (0 < 10 ^ e10) by (apply Z.pow_pos_nonneg; lia). nia.
Qed.

(* ------------------------------------------------------------------ *)
(* C19: numbers survive text                                           *)

Theorem print_parse_roundtrip : forall x, f64_valid x = true ->
  parse_f64 (print_f64 x) = Some x.
Proof.
  intros [s|s| |s m e] Hv.
  - destruct s; reflexivity.
  - destruct s; reflexivity.
  - reflexivity.
  - apply valid_finite_cases in Hv. cbn [print_f64].
    pose proof (shortest_digits_ok s m e Hv) as Hok.
    destruct (shortest_digits s m e) as [d e10].
    apply cand_ok_spec in Hok. destruct Hok as [Hd Hn].
    rewrite parse_f64_render by lia. rewrite Hn. reflexivity.
Qed.
Print Assumptions print_parse_roundtrip.

Corollary print_parse_literal_roundtrip : forall x, f64_valid x = true ->
  parse_literal (print_f64 x) = Some x.
Proof. exact print_parse_roundtrip. Qed.

Example print_parse_roundtrip_sat :
  f64_valid (f64_of_bits 4591870180066957722) = true /\
  print_f64 (f64_of_bits 4591870180066957722) = ["0"; "."; "1"]%byte.
Proof. vm_compute. split; reflexivity. Qed.

(* printing is injective on valid numbers (bit-level): distinct numbers print differently *)
Corollary print_f64_injective : forall x y, f64_valid x = true -> f64_valid y = true ->
  print_f64 x = print_f64 y -> x = y.
Proof.
  intros x y Hx Hy H. apply print_parse_roundtrip in Hx. apply print_parse_roundtrip in Hy.
  rewrite H in Hx. congruence.
Qed.

(* ------------------------------------------------------------------ *)
(* everything the parser returns is a valid double                     *)

Theorem nearest_double_valid : forall neg d e10, f64_valid (nearest_double neg d e10) = true.
Proof.
  intros neg d e10. unfold nearest_double.
  destruct (d <=? 0); [reflexivity|].
  destruct (310 <? e10); [reflexivity|].
  destruct ((e10 <? -1100) && (3 * e10 + Z.log2 d + 1 <? -1075)); [reflexivity|].
  apply round_ratio_valid. apply Z.pow_pos_nonneg; lia.
Qed.

Lemma parse_inf_nan_valid : forall neg s x, parse_inf_nan neg s = Some x -> f64_valid x = true.
Proof.
  intros neg s x H. unfold parse_inf_nan in H.
  destruct (_ || _) in H; [inversion H; reflexivity|].
  destruct (N_list_eqb _ _) in H; [inversion H; reflexivity|discriminate].
Qed.

Theorem parse_f64_valid : forall s x, parse_f64 s = Some x -> f64_valid x = true.
Proof.
  intros s x H. unfold parse_f64 in H.
  destruct s as [|c r]; [discriminate|].
  destruct (if Byte.eqb c "-" || Byte.eqb c "+" then r else c :: r) as [|c1 s1]; [discriminate|].
  destruct (parse_decimal (c1 :: s1)) as [[d e10]|].
  - inversion H. apply nearest_double_valid.
  - eapply parse_inf_nan_valid; exact H.
Qed.
Print Assumptions parse_f64_valid.

Example parse_f64_valid_sat : exists x, parse_f64 ["1"; "."; "5"; "e"; "3"]%byte = Some x.
Proof. eexists. vm_compute. reflexivity. Qed.

(* parse . print . parse = parse : text -> number -> text -> number is stable after one step *)
Corollary parse_print_parse : forall s x, parse_f64 s = Some x -> parse_f64 (print_f64 x) = Some x.
Proof. intros s x H. apply print_parse_roundtrip. eapply parse_f64_valid; exact H. Qed.

(* ------------------------------------------------------------------ *)
(* sanity examples; every expected string was produced by rustc 1.95 `format!("{}", x)` *)

From Coq Require Import String.
From YV Require Import Show.
Local Open Scope string_scope.

Definition pr (bits : Z) : String.string := string_of_bytes (print_f64 (f64_of_bits bits)).
Definition rd (s : String.string) : option Z := option_map bits_of_f64 (parse_f64 (bytes_of_string s)).

Example print_0_1 : pr 4591870180066957722 = "0.1".
Proof. vm_compute. reflexivity. Qed.
Example print_third : pr 4599676419421066581 = "0.3333333333333333".
Proof. vm_compute. reflexivity. Qed.
Example print_1e21 : pr 4921056587992461136 = "1000000000000000000000".
Proof. vm_compute. reflexivity. Qed.
Example print_1em7 : pr 4502148214488346440 = "0.0000001".
Proof. vm_compute. reflexivity. Qed.
Example print_min_subnormal : pr 1 =
  "0.000000000000000000000000000000000000000000000000000000000000000000000000000000000000000000000000000000000000000000000000000000000000000000000000000000000000000000000000000000000000000000000000000000000000000000000000000000000000000000000000000000000000000000000000000000000000000000000000000000000000000000000000000000000005".
Proof. vm_compute. reflexivity. Qed.
Example print_max : pr 9218868437227405311 =
  "179769313486231570000000000000000000000000000000000000000000000000000000000000000000000000000000000000000000000000000000000000000000000000000000000000000000000000000000000000000000000000000000000000000000000000000000000000000000000000000000000000000000000000000000000000000000000000000000000000000000000000000".
Proof. vm_compute. reflexivity. Qed.
Example print_2p53 : pr 4845873199050653696 = "9007199254740992".
Proof. vm_compute. reflexivity. Qed.
Example print_123456789012345680 : pr 4862596447618666293 = "123456789012345680".
Proof. vm_compute. reflexivity. Qed.
Example print_0_3 : pr 4599075939470750515 = "0.3" /\ pr 4599075939470750516 = "0.30000000000000004".
Proof. vm_compute. split; reflexivity. Qed.
(* two shortest candidates at the same distance (x = 2^50 + 0.25): Rust picks the larger *)
Example print_tie : pr 4832362400168542209 = "1125899906842624.3".
Proof. vm_compute. reflexivity. Qed.
Example print_specials :
  pr 9221120237041090560 = "NaN" /\ pr 9218868437227405312 = "inf" /\ pr 18442240474082181120 = "-inf"
  /\ pr 0 = "0" /\ pr 9223372036854775808 = "-0" /\ pr 13826050856027422720 = "-0.5".
Proof. vm_compute. repeat split; reflexivity. Qed.

Example parse_1e400 : parse_f64 (bytes_of_string "1e400") = Some f64_inf.
Proof. vm_compute. reflexivity. Qed.
Example parse_m1e400 : parse_f64 (bytes_of_string "-1e400") = Some f64_neg_inf.
Proof. vm_compute. reflexivity. Qed.
Example parse_underflow : parse_f64 (bytes_of_string "-1e-400") = Some f64_neg_zero.
Proof. vm_compute. reflexivity. Qed.
Example parse_errors :
  rd "" = None /\ rd "." = None /\ rd "e5" = None /\ rd "+" = None /\ rd "1e" = None /\ rd "1e+" = None
  /\ rd " 1" = None /\ rd "1 " = None /\ rd "1_0" = None /\ rd "0x10" = None /\ rd ".e5" = None /\ rd "infinit" = None.
Proof. vm_compute. repeat split; reflexivity. Qed.
Example parse_accepts :
  rd "1." = rd "1" /\ rd ".5" = rd "0.5" /\ rd "+.5" = rd "0.5" /\ rd "1.e2" = rd "100" /\ rd "1E+2" = rd "100"
  /\ rd "iNf" = Some 9218868437227405312 /\ rd "-INFINITY" = Some 18442240474082181120
  /\ rd "-nan" = Some 9221120237041090560 /\ rd "-0" = Some 9223372036854775808.
Proof. vm_compute. repeat split; reflexivity. Qed.
(* halfway cases: ties to even, and the smallest deviation breaks the tie *)
Example parse_halfway :
  rd "9007199254740993" = Some 4845873199050653696 /\
  rd "9007199254740993.0000000000000000000000000000001" = Some 4845873199050653697 /\
  rd "2.4703282292062327e-324" = Some 0 /\ rd "2.4703282292062328e-324" = Some 1 /\
  rd "1.7976931348623158e308" = Some 9218868437227405311 /\ rd "1.7976931348623159e308" = Some 9218868437227405312.
Proof. vm_compute. repeat split; reflexivity. Qed.
(* the saturating exponent accumulator of parse_scientific *)
Example parse_huge_exponent :
  rd "1e99999999999999999999" = Some 9218868437227405312 /\ rd "1e-99999999999999999999" = Some 0
  /\ rd "0e99999999999999999999" = Some 0.
Proof. vm_compute. repeat split; reflexivity. Qed.

(* the fast digit search agrees with the check-everything reference search *)
Example shortest_matches_ref :
  forallb (fun b => match f64_of_bits b with
                    | S754_finite s m e =>
                      let '(a, j) := shortest_digits s m e in
                      let '(a', j') := shortest_digits_ref s m e in (a =? a')%Z && (j =? j')%Z
                    | _ => true end)
    [4591870180066957722; 4599676419421066581; 4921056587992461136; 1; 4832362400168542209;
     4503599627370496; 4503599627370495; 4845873199050653696; 13826050856027422720]%Z = true.
Proof. vm_compute. reflexivity. Qed.
