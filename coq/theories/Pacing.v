(* Pacing.v -- when `Heap::allocate_raw` (memory.rs:358-389) collects, and the byte accounting of
   `Heap::collect` (memory.rs:391-411) / `collect_if_required` (memory.rs:413-417).
   Definitions only.  `usize` arithmetic is modelled in N without wrap-around (a heap of 2^63
   bytes is out of scope); `bytes - freed` is the truncated N subtraction and the histories
   considered have freed <= bytes. *)
From Coq Require Import List NArith Bool.
Import ListNotations.
Open Scope N_scope.

Section Pacing.
  Variable INIT : N.     (* common::HEAP_INIT_BYTES_MAX = 65536 *)
  Variable GROWTH : N.   (* common::HEAP_GROWTH_FACTOR  = 2     *)

  Record pstate : Type := mkP { bytes : N; threshold : N }.

  (* Heap::default (memory.rs:464-472) *)
  Definition p_init : pstate := mkP 0 INIT.

  (* Heap::collect: bytes_allocated -= bytes_freed; collection_threshold = bytes_allocated * GROWTH *)
  Definition do_collect (freed : N) (s : pstate) : pstate :=
    let b := bytes s - freed in mkP b (b * GROWTH).

  (* after the optional collection: push the box, bytes_allocated += size *)
  Definition do_alloc (size : N) (s : pstate) : pstate := mkP (bytes s + size) (threshold s).

  (* release mode: collect_if_required, i.e. iff bytes_allocated >= collection_threshold.
     [freed_if_collect] is what sweep would free if a collection happens now. *)
  Definition alloc_paced (freed_if_collect size : N) (s : pstate) : pstate * bool :=
    if threshold s <=? bytes s
    then (do_alloc size (do_collect freed_if_collect s), true)
    else (do_alloc size s, false).

  (* debug_assertions / feature debug_stress_gc: collect at every allocation *)
  Definition alloc_stress (freed_if_collect size : N) (s : pstate) : pstate * bool :=
    (do_alloc size (do_collect freed_if_collect s), true).

  (* An allocation history: per allocation (freed_if_collect, size).  The run records, after each
     allocation: the state, whether it collected, and the ghost value [last] = bytes right after
     the most recent collection (0 before the first one). *)
  Record precord : Type := mkR { r_state : pstate; r_collected : bool; r_last : N; r_size : N }.

  Fixpoint run_hist (alloc : N -> N -> pstate -> pstate * bool)
           (hist : list (N * N)) (s : pstate) (last : N) : list precord :=
    match hist with
    | [] => []
    | (freed, size) :: rest =>
        let '(s', col) := alloc freed size s in
        let last' := if col then bytes s' - size else last in
        mkR s' col last' size :: run_hist alloc rest s' last'
    end.

  (* the history never claims to free more than is allocated *)
  Fixpoint hist_ok (alloc : N -> N -> pstate -> pstate * bool)
           (hist : list (N * N)) (s : pstate) : bool :=
    match hist with
    | [] => true
    | (freed, size) :: rest => (freed <=? bytes s) && hist_ok alloc rest (fst (alloc freed size s))
    end.

  (* the bound of C16 for one record *)
  Definition within_bound (r : precord) : bool :=
    bytes (r_state r) <=? N.max INIT (GROWTH * r_last r) + r_size r.

  (* ---- bookkeeping against the live set ---- *)
  (* live sizes in allocation order; a collection keeps a sub-multiset [kept] and frees the rest *)
  Definition sum_sizes (l : list N) : N := fold_right N.add 0 l.

  Definition alloc_live (collects : bool) (kept : list N) (size : N) (live : list N) : list N :=
    (if collects then kept else live) ++ [size].
End Pacing.

Definition HEAP_INIT_BYTES_MAX : N := 65536.
Definition HEAP_GROWTH_FACTOR : N := 2.

(* joint run of the accounting and an explicit live set: per allocation the sizes that a
   collection at that point would keep, and the size allocated *)
Section PacingLive.
  Fixpoint run_live (alloc : N -> N -> pstate -> pstate * bool)
           (hist : list (list N * N)) (s : pstate) (live : list N) : list (pstate * list N) :=
    match hist with
    | [] => []
    | (kept, size) :: rest =>
        let freed := sum_sizes live - sum_sizes kept in
        let '(s', col) := alloc freed size s in
        let live' := alloc_live col kept size live in
        (s', live') :: run_live alloc rest s' live'
    end.
End PacingLive.
