(* PacingProofs.v -- C16: the managed heap never exceeds max(INIT, GROWTH * bytes after the previous
   collection) by more than the allocation in flight; stress mode collects every time; the byte
   counter equals the sum of live sizes. *)
From Coq Require Import List NArith Bool Lia.
From YV Require Import Pacing.
Import ListNotations.
Open Scope N_scope.

Section PacingProofs.
  Variables INIT GROWTH : N.
  Hypothesis growth_pos : 1 <= GROWTH.

  Notation alloc_paced := (alloc_paced GROWTH).
  Notation alloc_stress := (alloc_stress GROWTH).
  Notation within_bound := (within_bound INIT GROWTH).

  Definition pinv (s : pstate) (last : N) : Prop := threshold s <= N.max INIT (GROWTH * last).

  Lemma paced_collects_iff freed size s :
    snd (alloc_paced freed size s) = true <-> threshold s <= bytes s.
  Proof.
    unfold Pacing.alloc_paced. destruct (N.leb_spec (threshold s) (bytes s)); simpl; split; auto; try lia; discriminate.
  Qed.

  Lemma pacing_bound_gen : forall hist s last,
    pinv s last -> Forall (fun r => within_bound r = true) (run_hist alloc_paced hist s last).
  Proof.
    induction hist as [|[freed size] hist IH]; intros s last Hinv; simpl; [constructor|].
    unfold Pacing.alloc_paced. destruct (N.leb_spec (threshold s) (bytes s)) as [Hle|Hlt].
    - (* collects *)
      simpl. set (b := bytes s - freed).
      replace (b + size - size) with b by lia.
      constructor.
      + unfold Pacing.within_bound. simpl. apply N.leb_le.
        assert (b <= GROWTH * b) by nia. lia.
      + apply IH. unfold pinv. simpl. lia.
    - (* does not collect *)
      simpl. constructor.
      + unfold Pacing.within_bound. simpl. apply N.leb_le. unfold pinv in Hinv. lia.
      + apply IH. exact Hinv.
  Qed.

  (* Theorem 7 *)
  Theorem pacing_bound : forall hist,
    Forall (fun r => within_bound r = true) (run_hist alloc_paced hist (p_init INIT) 0).
  Proof. intros hist. apply pacing_bound_gen. unfold pinv. simpl. lia. Qed.

  (* the same, spelled out for the i-th allocation *)
  Corollary pacing_bound_nth hist i r :
    nth_error (run_hist alloc_paced hist (p_init INIT) 0) i = Some r ->
    bytes (r_state r) <= N.max INIT (GROWTH * r_last r) + r_size r.
  Proof.
    intros H. pose proof (pacing_bound hist) as F. rewrite Forall_forall in F.
    apply nth_error_In in H. specialize (F r H). now apply N.leb_le.
  Qed.

  Theorem stress_collects_every_time : forall hist s last,
    Forall (fun r => r_collected r = true) (run_hist alloc_stress hist s last).
  Proof.
    induction hist as [|[freed size] hist IH]; intros s last; simpl; constructor; [reflexivity | apply IH].
  Qed.

  (* in stress mode the heap is, right after each allocation, what survived plus the new box *)
  Theorem stress_bytes freed size s :
    bytes (fst (alloc_stress freed size s)) = bytes s - freed + size.
  Proof. reflexivity. Qed.

  (* ---- bookkeeping ---- *)
  Lemma sum_sizes_app a b : sum_sizes (a ++ b) = sum_sizes a + sum_sizes b.
  Proof. unfold sum_sizes. induction a as [|x a IH]; simpl; [reflexivity|]. rewrite IH. lia. Qed.

  Lemma bookkeeping_step (alloc : N -> N -> pstate -> pstate * bool) kept size s live :
    (alloc = alloc_paced \/ alloc = alloc_stress) ->
    bytes s = sum_sizes live -> sum_sizes kept <= sum_sizes live ->
    let '(s', col) := alloc (sum_sizes live - sum_sizes kept) size s in
    bytes s' = sum_sizes (alloc_live col kept size live).
  Proof.
    intros [->| ->] Hb Hk.
    - unfold Pacing.alloc_paced. destruct (threshold s <=? bytes s); simpl;
        unfold alloc_live; rewrite sum_sizes_app; simpl; lia.
    - unfold Pacing.alloc_stress. simpl. unfold alloc_live. rewrite sum_sizes_app. simpl. lia.
  Qed.

  (* every collection keeps no more bytes than were live *)
  Fixpoint hist_sub (hist : list (list N * N)) (s : pstate) (live : list N)
           (alloc : N -> N -> pstate -> pstate * bool) : Prop :=
    match hist with
    | [] => True
    | (kept, size) :: rest =>
        sum_sizes kept <= sum_sizes live /\
        let '(s', col) := alloc (sum_sizes live - sum_sizes kept) size s in
        hist_sub rest s' (alloc_live col kept size live) alloc
    end.

  Theorem bytes_is_live_sum (alloc : N -> N -> pstate -> pstate * bool) :
    (alloc = alloc_paced \/ alloc = alloc_stress) ->
    forall hist s live, bytes s = sum_sizes live -> hist_sub hist s live alloc ->
    Forall (fun p => bytes (fst p) = sum_sizes (snd p)) (run_live alloc hist s live).
  Proof.
    intros Ha. induction hist as [|[kept size] hist IH]; intros s live Hb Hs; simpl; [constructor|].
    simpl in Hs. destruct Hs as [Hk Hs].
    pose proof (bookkeeping_step alloc kept size s live Ha Hb Hk) as Hstep.
    destruct (alloc (sum_sizes live - sum_sizes kept) size s) as [s' col].
    constructor; [exact Hstep|]. apply IH; assumption.
  Qed.
End PacingProofs.

(* ---- the real constants ---- *)
Theorem pacing_bound_yarel : forall hist,
  Forall (fun r => within_bound HEAP_INIT_BYTES_MAX HEAP_GROWTH_FACTOR r = true)
         (run_hist (alloc_paced HEAP_GROWTH_FACTOR) hist (p_init HEAP_INIT_BYTES_MAX) 0).
Proof. apply pacing_bound. unfold HEAP_GROWTH_FACTOR. lia. Qed.

(* the bound is tight: the threshold test is `>=` on the bytes BEFORE the allocation, so the heap
   does exceed the threshold by (up to) one allocation *)
Example pacing_overshoot :
  exists hist r, In r (run_hist (alloc_paced 2) hist (p_init 65536) 0) /\
                 bytes (r_state r) = N.max 65536 (2 * r_last r) + r_size r - 1.
Proof.
  exists [(0, 65535); (0, 1000)]. eexists. split; [right; left; reflexivity|]. vm_compute. reflexivity.
Qed.

(* hypotheses are satisfiable: a history with several collections, paced and stress *)
Definition ex_hist : list (N * N) :=
  [(0, 40000); (0, 40000); (50000, 40000); (0, 48); (0, 40000); (60000, 30000); (10000, 100000); (90000, 8)].

Example ex_paced :
  map (fun r => (bytes (r_state r), threshold (r_state r), r_collected r, r_last r))
      (run_hist (alloc_paced 2) ex_hist (p_init 65536) 0)
  = [(40000, 65536, false, 0); (80000, 65536, false, 0); (70000, 60000, true, 30000);
     (70048, 140000, true, 70000); (110048, 140000, false, 70000); (140048, 140000, false, 70000);
     (230048, 260096, true, 130048); (230056, 260096, false, 130048)]
  /\ hist_ok (alloc_paced 2) ex_hist (p_init 65536) = true.
Proof. split; vm_compute; reflexivity. Qed.

Example ex_live :
  hist_sub [([], 100); ([100], 200); ([200], 50)] (p_init 150) [] (alloc_paced 2) /\
  map (fun p => (bytes (fst p), snd p)) (run_live (alloc_paced 2) [([], 100); ([100], 200); ([200], 50)] (p_init 150) [])
  = [(100, [100]); (300, [100; 200]); (250, [200; 50])].
Proof. split; [vm_compute; repeat split; discriminate | vm_compute; reflexivity]. Qed.

Print Assumptions pacing_bound.
Print Assumptions pacing_bound_yarel.
Print Assumptions stress_collects_every_time.
Print Assumptions bytes_is_live_sum.
