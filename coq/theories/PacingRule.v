(* PacingRule.v -- C16, round 7: the threshold update of `Heap::collect` as a PARAMETER.
   Pacing.v fixes the rule of the source (`collection_threshold = bytes_allocated * GROWTH`).  The seeded changes of
   rounds 2 and 7 replaced it by rules that agree with it whenever the survivors do not shrink (a ratchet
   `max(G*s, t)`, a damping `max(G*s, t/G)`); this file states the pacing step for an arbitrary rule
   `f survivors previous_threshold`, the condition under which ANY rule keeps the bound of the property
   (`rule_ok`), and the rules seen so far.  Definitions only; proofs in PacingRuleProofs.v. *)
From Coq Require Import List NArith Bool.
From YV Require Import Pacing.
Import ListNotations.
Open Scope N_scope.

Section PacingRule.
  Variable INIT : N.
  Variable GROWTH : N.

  (* a threshold rule: survivors (bytes after the sweep), threshold before the collection -> new threshold *)
  Definition rule := N -> N -> N.

  Definition do_collect_rule (f : rule) (freed : N) (s : pstate) : pstate :=
    let b := bytes s - freed in mkP b (f b (threshold s)).

  Definition alloc_paced_rule (f : rule) (freed_if_collect size : N) (s : pstate) : pstate * bool :=
    if threshold s <=? bytes s
    then (do_alloc size (do_collect_rule f freed_if_collect s), true)
    else (do_alloc size s, false).

  (* sufficient (and, for the bound of the property, the natural) condition on a rule *)
  Definition rule_ok (f : rule) : Prop := forall s t, f s t <= N.max INIT (GROWTH * s).

  (* the rule of the source *)
  Definition rule_exact : rule := fun s _ => s * GROWTH.
  (* harmless variant: never below the initial budget *)
  Definition rule_floor : rule := fun s _ => N.max (s * GROWTH) INIT.
  (* seeded round 2: the threshold only grows *)
  Definition rule_ratchet : rule := fun s t => N.max (s * GROWTH) t.
  (* seeded round 7: come down by at most one growth step per collection *)
  Definition rule_damped : rule := fun s t => N.max (s * GROWTH) (t / GROWTH).
  (* sibling: meet the survivors half way *)
  Definition rule_average : rule := fun s t => if s * GROWTH <? t then (s * GROWTH + t) / 2 else s * GROWTH.
End PacingRule.

(* The shape of history that separates the rules: [n] allocations of [size] bytes of which nothing is freed (the live
   set grows), then everything is dropped (a collection at any later point frees all but nothing), then [m] more
   allocations.  (freed_if_collect, size) per allocation; the `freed` of a step matters only if that step collects. *)
Fixpoint grow_hist (n : nat) (size : N) : list (N * N) :=
  match n with O => [] | S n' => (0, size) :: grow_hist n' size end.

(* after the drop: a collection at the k-th later allocation would free everything allocated before the previous
   collection; we give each step the exact amount by running the rule alongside *)
Fixpoint drop_run (f : rule) (m : nat) (size : N) (s : pstate) (last : N) : list precord :=
  match m with
  | O => []
  | S m' =>
      let freed := bytes s in                      (* nothing is live any more *)
      let '(s', col) := alloc_paced_rule f freed size s in
      let last' := if col then bytes s' - size else last in
      mkR s' col last' size :: drop_run f m' size s' last'
  end.

Definition grow_then_drop (INIT : N) (f : rule) (n m : nat) (size : N) : list precord :=
  let up := run_hist (alloc_paced_rule f) (grow_hist n size) (p_init INIT) 0 in
  match rev up with
  | [] => []
  | r :: _ => up ++ drop_run f m size (r_state r) (r_last r)
  end.
