(* PacingRuleProofs.v -- C16, round 7: which threshold rules keep the bound of the property.
   pacing_bound_rule: every rule bounded by max(INIT, GROWTH * survivors) keeps it, for all histories;
   the rule of the source and the floor variant are such rules; the ratchet (seeded round 2), the damping
   (seeded round 7) and the averaging sibling are refuted by a grow-then-drop history - the input class the
   live-set profile programs of tools/props/C16.py build; and they coincide with the source's rule as long as
   the survivors do not shrink, which is why steady loop programs cannot tell them apart. *)
From Coq Require Import List NArith Bool Lia.
From YV Require Import Pacing PacingProofs PacingRule.
Import ListNotations.
Open Scope N_scope.

Section PacingRuleProofs.
  Variables INIT GROWTH : N.
  Hypothesis growth_pos : 1 <= GROWTH.

  Notation within_bound := (within_bound INIT GROWTH).
  Notation rule_ok := (rule_ok INIT GROWTH).

  Lemma pacing_bound_rule_gen (f : rule) : rule_ok f -> forall hist s last,
    threshold s <= N.max INIT (GROWTH * last) ->
    Forall (fun r => within_bound r = true) (run_hist (alloc_paced_rule f) hist s last).
  Proof.
    intros Hf. induction hist as [|[freed size] hist IH]; intros s last Hinv; simpl; [constructor|].
    unfold alloc_paced_rule. destruct (N.leb_spec (threshold s) (bytes s)) as [Hle|Hlt].
    - simpl. set (b := bytes s - freed).
      replace (b + size - size) with b by lia.
      constructor.
      + unfold Pacing.within_bound. simpl. apply N.leb_le.
        assert (b <= GROWTH * b) by nia. lia.
      + apply IH. simpl. apply Hf.
    - simpl. constructor.
      + unfold Pacing.within_bound. simpl. apply N.leb_le. lia.
      + apply IH. exact Hinv.
  Qed.

  Theorem pacing_bound_rule (f : rule) : rule_ok f -> forall hist,
    Forall (fun r => within_bound r = true) (run_hist (alloc_paced_rule f) hist (p_init INIT) 0).
  Proof. intros Hf hist. apply pacing_bound_rule_gen; auto. simpl. lia. Qed.

  Lemma rule_exact_ok : rule_ok (rule_exact GROWTH).
  Proof. intros s t. unfold rule_exact. lia. Qed.

  Lemma rule_floor_ok : rule_ok (rule_floor INIT GROWTH).
  Proof. intros s t. unfold rule_floor. lia. Qed.

  (* the parametrised step with the source's rule IS Pacing.alloc_paced *)
  Lemma alloc_paced_rule_exact freed size s :
    alloc_paced_rule (rule_exact GROWTH) freed size s = alloc_paced GROWTH freed size s.
  Proof. reflexivity. Qed.

  (* the seeded rules agree with the source's rule at every collection whose survivors did not shrink below
     half (ratchet: at all) of what the previous threshold was computed from *)
  Lemma ratchet_eq_exact_when_grown s t : t <= s * GROWTH -> rule_ratchet GROWTH s t = rule_exact GROWTH s t.
  Proof. unfold rule_ratchet, rule_exact. lia. Qed.

  Lemma damped_eq_exact_when_not_halved s t :
    t / GROWTH <= s * GROWTH -> rule_damped GROWTH s t = rule_exact GROWTH s t.
  Proof. unfold rule_damped, rule_exact. lia. Qed.

  Lemma average_eq_exact_when_grown s t : t <= s * GROWTH -> rule_average GROWTH s t = rule_exact GROWTH s t.
  Proof. unfold rule_average, rule_exact. intros H. destruct (N.ltb_spec (s * GROWTH) t); lia. Qed.
End PacingRuleProofs.

(* ---- refutations with the constants of the property text (64 KiB, factor 2): 4096 live boxes of 48 bytes
   (192 KiB), dropped, then 6000 more allocations ---- *)
Definition all_within (INIT GROWTH : N) (rs : list precord) : bool := forallb (within_bound INIT GROWTH) rs.

Lemma exact_rule_survives_grow_then_drop :
  all_within 65536 2 (grow_then_drop 65536 (rule_exact 2) (N.to_nat 4096) (N.to_nat 6000) 48) = true.
Proof. vm_compute. reflexivity. Qed.

Theorem pacing_bound_ratchet_refuted :
  all_within 65536 2 (grow_then_drop 65536 (rule_ratchet 2) (N.to_nat 4096) (N.to_nat 6000) 48) = false.
Proof. vm_compute. reflexivity. Qed.

Theorem pacing_bound_damped_refuted :
  all_within 65536 2 (grow_then_drop 65536 (rule_damped 2) (N.to_nat 4096) (N.to_nat 6000) 48) = false.
Proof. vm_compute. reflexivity. Qed.

Theorem pacing_bound_average_refuted :
  all_within 65536 2 (grow_then_drop 65536 (rule_average 2) (N.to_nat 4096) (N.to_nat 6000) 48) = false.
Proof. vm_compute. reflexivity. Qed.

(* none of the three is a rule_ok rule (so pacing_bound_rule does not apply to them) *)
Lemma damped_not_ok : ~ rule_ok 65536 2 (rule_damped 2).
Proof. intros H. specialize (H 0 400000). vm_compute in H. apply H. reflexivity. Qed.

Lemma ratchet_not_ok : ~ rule_ok 65536 2 (rule_ratchet 2).
Proof. intros H. specialize (H 0 400000). vm_compute in H. apply H. reflexivity. Qed.

Lemma average_not_ok : ~ rule_ok 65536 2 (rule_average 2).
Proof. intros H. specialize (H 0 400000). vm_compute in H. apply H. reflexivity. Qed.
