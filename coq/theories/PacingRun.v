(* PacingRun.v -- replay of the allocation log of hook H2 (memory.rs verif::AllocRecord, harness record
   `A size bytes_before threshold_before collected bytes_after threshold_after`) through Pacing.v, and
   rendering of RangeCache.v runs.  Definitions only (the lemma tying the two verdicts is in
   PacingRunProofs.v).

   Two independent verdicts on one log:
     M  every record is the model's next state (impl == M): the state before is the state after the previous
        record, `collected` is exactly `threshold_before <= bytes_before`, and (bytes_after, threshold_after)
        are what `alloc_paced` computes when the collection frees what the record implies
        (freed = bytes_before - (bytes_after - size));
     S  the inequality of `pacing_bound` holds at every record of the log itself (impl == S), with the ghost
        `last` = bytes right after the most recent collection read off the log. *)
From Coq Require Import List NArith ZArith Bool String.
From YV Require Import Show Wire Pacing RangeCache.
Import ListNotations.
Open Scope N_scope.

Record lrec : Type := mkL { l_size : N; l_bb : N; l_tb : N; l_c : bool; l_ba : N; l_ta : N }.

(* Wire format (lossless compression of the log, undone here): a record travels as
     "size bb tb c ba ta"   in full, or
     "size c ba ta"         when bb, tb are the previous record's ba, ta, or
     "size"                 when moreover c = 0, ba = bb + size and ta = tb.
   The first record must be in full. *)
Definition lrec_of (prev : option lrec) (g : list N) : option lrec :=
  match g, prev with
  | [s; bb; tb; c; ba; ta], _ => Some (mkL s bb tb (negb (c =? 0)) ba ta)
  | [s; c; ba; ta], Some p => Some (mkL s (l_ba p) (l_ta p) (negb (c =? 0)) ba ta)
  | [s], Some p => Some (mkL s (l_ba p) (l_ta p) false (l_ba p + s) (l_ta p))
  | _, _ => None
  end.

Fixpoint lrecs_of_from (prev : option lrec) (gs : list (list N)) : option (list lrec) :=
  match gs with
  | [] => Some []
  | g :: r => match lrec_of prev g with
              | Some x => match lrecs_of_from (Some x) r with
                          | Some xs => Some (x :: xs)
                          | None => None
                          end
              | None => None
              end
  end.

Definition lrecs_of (gs : list (list N)) : option (list lrec) := lrecs_of_from None gs.

Definition implied_freed (r : lrec) : N := if l_c r then l_bb r - (l_ba r - l_size r) else 0.

Definition hist_of (log : list lrec) : list (N * N) := map (fun r => (implied_freed r, l_size r)) log.

Section Replay.
  Variables INIT GROWTH : N.

  (* the ghost `last` at the seed.  A log that starts with an empty heap (bytes_before = 0: the birth of the
     heap, which is how the harness command `c16` logs) has seen no collection: last = 0, as in pacing_bound.
     A log that starts later (harness `run`: the Vm's start-up allocations are not logged) gets the least
     value for which the invariant of pacing_bound holds. *)
  Definition seed_last (bb tb : N) : N := if (bb =? 0) || (tb <=? INIT) then 0 else tb / GROWTH.
  Definition seed_ok (bb tb : N) : bool := tb <=? N.max INIT (GROWTH * seed_last bb tb).

  (* one record against the model: 0 = agrees, otherwise the number of the first check that fails *)
  Definition rec_check (prev : pstate) (r : lrec) (m : precord) : N :=
    if negb (l_bb r =? bytes prev) then 1
    else if negb (l_tb r =? threshold prev) then 2
    else if negb (Bool.eqb (l_c r) (l_tb r <=? l_bb r)) then 3
    else if negb (Bool.eqb (l_c r) (r_collected m)) then 4
    else if l_c r && negb ((l_size r <=? l_ba r) && (l_ba r - l_size r <=? l_bb r)) then 5
    else if negb (l_ba r =? bytes (r_state m)) then 6
    else if negb (l_ta r =? threshold (r_state m)) then 7
    else 0.

  (* first disagreement: (index, check number) *)
  Fixpoint log_matches (log : list lrec) (ms : list precord) (prev : pstate) (i : N) : option (N * N) :=
    match log, ms with
    | [], [] => None
    | r :: log', m :: ms' =>
        match rec_check prev r m with
        | 0 => log_matches log' ms' (r_state m) (i + 1)
        | k => Some (i, k)
        end
    | _, _ => Some (i, 9)
    end.

  (* S on the log itself *)
  Fixpoint log_bound (log : list lrec) (last : N) (i : N) : option N :=
    match log with
    | [] => None
    | r :: log' =>
        let last' := if l_c r then l_ba r - l_size r else last in
        if l_ba r <=? N.max INIT (GROWTH * last') + l_size r then log_bound log' last' (i + 1) else Some i
    end.

  Definition model_run (log : list lrec) : list precord :=
    match log with
    | [] => []
    | r0 :: _ => run_hist (alloc_paced GROWTH) (hist_of log) (mkP (l_bb r0) (l_tb r0)) (seed_last (l_bb r0) (l_tb r0))
    end.

  Definition model_verdict (log : list lrec) : option (N * N) :=
    match log with
    | [] => None
    | r0 :: _ =>
        if seed_ok (l_bb r0) (l_tb r0) then log_matches log (model_run log) (mkP (l_bb r0) (l_tb r0)) 0
        else Some (0, 8)
    end.

  Definition spec_verdict (log : list lrec) : option N :=
    match log with
    | [] => None
    | r0 :: _ => log_bound log (seed_last (l_bb r0) (l_tb r0)) 0
    end.
End Replay.

(* statistics printed with the verdict: records, collections, bytes freed by paced collections, largest heap *)
Definition log_stats (log : list lrec) : string :=
  let ncol := fold_left (fun n r => if l_c r then n + 1 else n) log 0 in
  let freed := fold_left (fun n r => n + implied_freed r) log 0 in
  let maxb := fold_left (fun n r => N.max n (l_ba r)) log 0 in
  ("n=" ++ show_nat (List.length log) ++ " col=" ++ show_N ncol ++ " freed=" ++ show_N freed ++ " max=" ++ show_N maxb)%string.

(* model constants (INIT, GROWTH) from the current sources, the property's stated constants (sINIT, sGROWTH)
   for S *)
Definition run_pacing_groups (INIT GROWTH sINIT sGROWTH : N) (gs : list (list N)) : string :=
  match lrecs_of gs with
  | None => "BADLOG"%string
  | Some log =>
      ((match model_verdict INIT GROWTH log with
        | None => "M:OK"
        | Some (i, k) => "M:MISMATCH@" ++ show_N i ++ "#" ++ show_N k
        end) ++ "|" ++
       (match spec_verdict sINIT sGROWTH log with
        | None => "S:OK"
        | Some i => "S:BOUND@" ++ show_N i
        end) ++ "|" ++ log_stats log)%string
  end.

Definition run_pacing_log (INIT GROWTH sINIT sGROWTH : N) (wire : string) : string :=
  run_pacing_groups INIT GROWTH sINIT sGROWTH (parse_nss wire).

(* long logs travel as several string literals (whole records each): one huge literal is slow to elaborate *)
Definition run_pacing_log_chunks (INIT GROWTH sINIT sGROWTH : N) (wires : list string) : string :=
  run_pacing_groups INIT GROWTH sINIT sGROWTH (flat_map parse_nss wires).

(* ---- range cache ---- *)
(* wire: "b e;b e;..." with both bounds offset by 2^40 (so that negative bounds travel as naturals) *)
Definition range_offset : Z := (2 ^ 40)%Z.

Definition req_of (g : list N) : Z * Z :=
  match g with
  | [b; e] => (Z.of_N b - range_offset, Z.of_N e - range_offset)%Z
  | _ => (0, 0)%Z
  end.

Definition show_rentry (x : rentry) : string :=
  (show_Z (e_begin x) ++ ":" ++ show_Z (e_end x) ++ ":" ++ show_N (e_id x))%string.

Definition run_range_case (size : N) (wire : string) : string :=
  let '(ids, c) := run_reqs (N.to_nat size) (map req_of (parse_nss wire)) rc_init in
  (show_sep "," show_N ids ++ "|" ++ show_sep ";" show_rentry (entries c) ++ "|" ++ show_bool (panicked c))%string.
