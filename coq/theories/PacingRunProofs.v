(* PacingRunProofs.v -- a log that replays through Pacing.v (verdict M:OK) satisfies the bound of C16 at
   every record (verdict S:OK for the same constants): the check of the inequality on the real log is then
   implied by `pacing_bound`, it is not an independent assumption. *)
From Coq Require Import List NArith Bool Lia.
From YV Require Import Pacing PacingProofs PacingRun.
Import ListNotations.
Open Scope N_scope.

Section ReplayProofs.
  Variables INIT GROWTH : N.
  Hypothesis growth_pos : 1 <= GROWTH.

  Lemma rec_check_0 prev r m : rec_check prev r m = 0 ->
    l_bb r = bytes prev /\ l_tb r = threshold prev /\ l_c r = (l_tb r <=? l_bb r) /\
    l_c r = r_collected m /\ l_ba r = bytes (r_state m) /\ l_ta r = threshold (r_state m).
  Proof.
    unfold rec_check.
    destruct (l_bb r =? bytes prev) eqn:E1; simpl; [|discriminate].
    destruct (l_tb r =? threshold prev) eqn:E2; simpl; [|discriminate].
    destruct (Bool.eqb (l_c r) (l_tb r <=? l_bb r)) eqn:E3; simpl; [|discriminate].
    destruct (Bool.eqb (l_c r) (r_collected m)) eqn:E4; simpl; [|discriminate].
    destruct (l_c r && negb ((l_size r <=? l_ba r) && (l_ba r - l_size r <=? l_bb r))); [discriminate|].
    destruct (l_ba r =? bytes (r_state m)) eqn:E6; simpl; [|discriminate].
    destruct (l_ta r =? threshold (r_state m)) eqn:E7; simpl; [|discriminate].
    intros _. apply N.eqb_eq in E1, E2, E6, E7. apply Bool.eqb_prop in E3, E4. repeat split; assumption.
  Qed.

  Lemma pinv_step freed size s last :
    pinv INIT GROWTH s last ->
    let '(s', col) := alloc_paced GROWTH freed size s in
    pinv INIT GROWTH s' (if col then bytes s' - size else last).
  Proof.
    unfold pinv, alloc_paced. intros H. destruct (threshold s <=? bytes s); simpl; [|exact H].
    replace (bytes s - freed + size - size) with (bytes s - freed) by lia. lia.
  Qed.

  Lemma replay_sound_gen : forall log s last i j,
    pinv INIT GROWTH s last ->
    log_matches log (run_hist (alloc_paced GROWTH) (hist_of log) s last) s i = None ->
    log_bound INIT GROWTH log last j = None.
  Proof.
    induction log as [|r log IH]; intros s last i j Hinv Hm; [reflexivity|].
    pose proof (pacing_bound_gen INIT GROWTH growth_pos (hist_of (r :: log)) s last Hinv) as Hb.
    pose proof (pinv_step (implied_freed r) (l_size r) s last Hinv) as Hstep.
    simpl in Hm, Hb. destruct (alloc_paced GROWTH (implied_freed r) (l_size r) s) as [s' col] eqn:Ea.
    simpl in Hm. destruct (rec_check s r _) eqn:Ec; [|discriminate].
    apply rec_check_0 in Ec. simpl in Ec. destruct Ec as (_ & _ & _ & Hc & Hba & _).
    apply Forall_inv in Hb. unfold within_bound in Hb. simpl in Hb.
    simpl. rewrite Hc, Hba. rewrite Hb. eapply IH; [exact Hstep | exact Hm].
  Qed.

  Theorem replay_sound : forall log,
    model_verdict INIT GROWTH log = None -> spec_verdict INIT GROWTH log = None.
  Proof.
    intros [|r0 log]; [reflexivity|]. unfold model_verdict, spec_verdict, model_run.
    destruct (seed_ok INIT GROWTH (l_bb r0) (l_tb r0)) eqn:Es; [|discriminate].
    intros Hm. eapply replay_sound_gen; [|exact Hm].
    unfold pinv. simpl. unfold seed_ok in Es. now apply N.leb_le.
  Qed.
End ReplayProofs.

From Coq Require Import String.

(* a log with two collections replays (compressed records included), a log whose threshold is not GROWTH * survivors does not, and a log of a
   heap that never collects breaks the bound *)
Example ex_replay :
  run_pacing_log 100 2 100 2 "60 0 100 0 60 100;60;10 1 50 80;40;8 90 80 1 98 180"%string
    = "M:OK|S:OK|n=5 col=2 freed=80 max=120"%string /\
  run_pacing_log 100 2 100 2 "60 0 100 0 60 100;60 60 100 0 120 100;10 120 100 1 50 0"%string
    = "M:MISMATCH@2#7|S:OK|n=3 col=1 freed=80 max=120"%string /\
  run_pacing_log 100 2 100 2 "60 0 100 0 60 100;60 60 100 0 120 100;60 120 100 0 180 100"%string
    = "M:MISMATCH@2#3|S:BOUND@2|n=3 col=0 freed=0 max=180"%string /\
  (* a larger initial budget in the code than the property states: the model follows the code, S does not *)
  run_pacing_log 200 2 100 2 "60 0 200 0 60 200;60;60"%string = "M:OK|S:BOUND@2|n=3 col=0 freed=0 max=180"%string.
Proof. repeat split; vm_compute; reflexivity. Qed.

Print Assumptions replay_sound.
