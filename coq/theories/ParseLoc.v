(* FullCompile, part 1: a LOCATED abstract syntax and the parser that produces it.

   compiler.rs is single-pass: every byte it emits is tagged with the line of the token that is
   `previous` at that moment.  Ast.v keeps one line per statement, which is not enough to rebuild the
   line table, so this file defines a richer syntax (`lexpr`, `lstmt`, ...) in which every node
   carries the line of `previous` at each of its emission sites, and a second parser pass that reuses
   the state, the monad and all the non-recursive helpers of Parser.v and mirrors its recursive
   functions one for one (same names, same order of effects, same errors) - the only difference is
   the value returned.  `erase_*` maps the located syntax back to Ast.v.

   Lists inside the syntax are first-order mutual types (lexprs, lparts, lkvs, lstmts, lmethods), not
   `list`, so that `Scheme` yields a usable mutual induction principle (FullCompileProofs.v).

   DEFINITIONS ONLY. *)
From Coq Require Import Strings.Byte Strings.String.
From Coq Require Import List NArith Bool Arith.
From Coq Require Import Floats.SpecFloat.
From YV Require Import Show Utf8 NumText Ast Scanner ParserRules Parser.
Import ListNotations.
Local Open Scope string_scope.

(* ------------------------------------------------------------------ *)
(* located syntax                                                       *)
(* naming of the line fields: the line of `previous` when the bytes named in the comment are emitted *)
Inductive lexpr :=
| LNil (l : N) | LTrue (l : N) | LFalse (l : N)
| LNum (l : N) (x : spec_float)
| LStr (l : N) (s : list byte)
| LInterp (parts : lparts) (lend : N)                 (* BuildString: line of the closing Str token *)
| LVar (l : N) (x : name)
| LSelf (l : N)
| LCapSelf (l : N)
| LSuperGet (m : name) (l : N)                        (* everything on the line of the method name *)
| LSuperCall (m : name) (l : N) (args : lexprs) (lclose : N)   (* receiver at l; super, SuperInvoke at ')' *)
| LAssign (x : name) (e : lexpr) (lend : N)           (* Set*: last token of e *)
| LCompound (x : name) (op : binop) (lop : N) (e : lexpr) (lend : N)  (* Get* at the operator token *)
| LUnary (op : unop) (e : lexpr) (lend : N)
| LBinary (op : binop) (a b : lexpr) (lend : N)
| LAnd (a : lexpr) (lop : N) (b : lexpr)              (* JumpIfFalse, Pop at `&&` *)
| LOr (a : lexpr) (lop : N) (b : lexpr)
| LRange (a b : lexpr) (lend : N)
| LCall (f : lexpr) (args : lexprs) (lclose : N)
| LGet (o : lexpr) (m : name) (l : N)
| LSet (o : lexpr) (m : name) (e : lexpr) (lend : N)
| LSetCompound (o : lexpr) (m : name) (op : binop) (lop : N) (e : lexpr) (lend : N)
| LInvoke (o : lexpr) (m : name) (args : lexprs) (lclose : N)
| LIndex (o i : lexpr) (lclose : N)
| LSetIndex (o i e : lexpr) (lend : N)
| LTuple (es : lexprs) (l : N)                        (* BuildTuple is emitted BEFORE ')' is consumed *)
| LVec (es : lexprs) (l : N)
| LMap (kvs : lkvs) (l : N)
| LLambdaE (params : list name) (body : lexpr) (lend : N)     (* |x| e *)
| LLambdaB (params : list name) (body : lstmts) (lend : N)    (* |x| { ... }: lend = line of '}' *)
with lexprs := LENil | LECons (e : lexpr) (r : lexprs)
with lparts :=
| LPNil
| LPStr (l : N) (s : list byte) (r : lparts)
| LPExpr (e : lexpr) (lend : N) (r : lparts)          (* FormatString: last token of e *)
with lkvs := LKNil | LKCons (k v : lexpr) (r : lkvs)
with lstmt :=
| LSExpr (e : lexpr) (lsemi : N)
| LSVar (x : name) (lname : N) (lsemi : N)            (* var x;    Nil at the name *)
| LSVarInit (x : name) (e : lexpr) (lsemi : N)        (* var x = e; *)
| LSFn (f : name) (params : list name) (body : lstmts) (lend : N)
| LSClass (cname : name) (lname : N) (super : option (name * N)) (ctor : option name)
          (lbrace : N) (methods : lmethods) (lend : N)
| LSBlock (b : lstmts) (lend : N)
| LSIf (c : lexpr) (lcond : N) (t : lstmts) (lthen : N)
| LSIfElse (c : lexpr) (lcond : N) (t : lstmts) (lthen : N) (e : lstmt)
| LSWhile (c : lexpr) (lcond : N) (b : lstmts) (lend : N)
| LSFor (x : name) (lx : N) (it : lexpr) (lit : N) (b : lstmts) (lend : N)
| LSReturn (lsemi : N)
| LSReturnE (e : lexpr) (lsemi : N)
| LSBreak (l : N)
| LSContinue (l : N)
| LSThrow (e : lexpr) (lsemi : N)
| LSTryC (ltry : N) (b : lstmts) (lb : N) (x : name) (cb : lstmts) (lc : N)
| LSTryF (ltry : N) (b : lstmts) (lb : N) (fb : lstmts) (lf : N)
| LSTryCF (ltry : N) (b : lstmts) (lb : N) (x : name) (cb : lstmts) (lc : N) (fb : lstmts) (lf : N)
| LSImport (path : list byte) (alias : name) (lalias : N) (lsemi : N)
with lstmts := LSNil | LSCons (s : lstmt) (r : lstmts)
with lmethods :=
| LMNil
| LMCons (kind : method_kind) (m : name) (params : list name) (lbrace : N) (body : lstmts) (lend : N)
         (r : lmethods).

(* a script: its declarations and the line of the Eof token (emit_return of the script) *)
Definition lprogram : Type := lstmts * N.

Fixpoint lexprs_of (l : list lexpr) : lexprs :=
  match l with [] => LENil | e :: r => LECons e (lexprs_of r) end.
Fixpoint lstmts_of (l : list lstmt) : lstmts :=
  match l with [] => LSNil | s :: r => LSCons s (lstmts_of r) end.
Fixpoint lkvs_of (l : list (lexpr * lexpr)) : lkvs :=
  match l with [] => LKNil | (k, v) :: r => LKCons k v (lkvs_of r) end.

Inductive ipart := IPS (l : N) (s : list byte) | IPE (e : lexpr) (l : N).
Fixpoint lparts_of (l : list ipart) : lparts :=
  match l with
  | [] => LPNil
  | IPS ln s :: r => LPStr ln s (lparts_of r)
  | IPE e ln :: r => LPExpr e ln (lparts_of r)
  end.

Record pmethod := mkPM { pm_kind : method_kind; pm_name : name; pm_params : list name; pm_lbrace : N;
                         pm_body : lstmts; pm_lend : N }.
Fixpoint lmethods_of (l : list pmethod) : lmethods :=
  match l with
  | [] => LMNil
  | m :: r => LMCons (pm_kind m) (pm_name m) (pm_params m) (pm_lbrace m) (pm_body m) (pm_lend m) (lmethods_of r)
  end.

(* ------------------------------------------------------------------ *)
(* erasure to Ast.v (line of a statement: not recoverable, Ast keeps the line of its FIRST token;
   erasure puts 0 - the fragment compilers ignore it)                   *)
Fixpoint erase_expr (e : lexpr) : expr :=
  match e with
  | LNil _ => ENil | LTrue _ => ETrue | LFalse _ => EFalse
  | LNum _ x => ENum x
  | LStr _ s => EStr s
  | LInterp ps _ => EInterp (erase_parts ps)
  | LVar _ x => EVar x
  | LSelf _ => ESelf
  | LCapSelf _ => ECapSelf
  | LSuperGet m _ => ESuperGet m
  | LSuperCall m _ args _ => ESuperCall m (erase_exprs args)
  | LAssign x e1 _ => EAssign x (erase_expr e1)
  | LCompound x op _ e1 _ => ECompound x op (erase_expr e1)
  | LUnary op e1 _ => EUnary op (erase_expr e1)
  | LBinary op a b _ => EBinary op (erase_expr a) (erase_expr b)
  | LAnd a _ b => EAnd (erase_expr a) (erase_expr b)
  | LOr a _ b => EOr (erase_expr a) (erase_expr b)
  | LRange a b _ => ERange (erase_expr a) (erase_expr b)
  | LCall f args _ => ECall (erase_expr f) (erase_exprs args)
  | LGet o m _ => EGet (erase_expr o) m
  | LSet o m e1 _ => ESet (erase_expr o) m (erase_expr e1)
  | LSetCompound o m op _ e1 _ => ESetCompound (erase_expr o) m op (erase_expr e1)
  | LInvoke o m args _ => EInvoke (erase_expr o) m (erase_exprs args)
  | LIndex o i _ => EIndex (erase_expr o) (erase_expr i)
  | LSetIndex o i e1 _ => ESetIndex (erase_expr o) (erase_expr i) (erase_expr e1)
  | LTuple es _ => ETuple (erase_exprs es)
  | LVec es _ => EVec (erase_exprs es)
  | LMap kvs _ => EMap (erase_kvs kvs)
  | LLambdaE ps b _ => ELambda ps (LExpr (erase_expr b))
  | LLambdaB ps b _ => ELambda ps (LBlock (erase_stmts b))
  end
with erase_exprs (es : lexprs) : list expr :=
  match es with LENil => [] | LECons e r => erase_expr e :: erase_exprs r end
with erase_parts (ps : lparts) : list interp_part :=
  match ps with
  | LPNil => []
  | LPStr _ s r => IPStr s :: erase_parts r
  | LPExpr e _ r => IPExpr (erase_expr e) :: erase_parts r
  end
with erase_kvs (kvs : lkvs) : list (expr * expr) :=
  match kvs with LKNil => [] | LKCons k v r => (erase_expr k, erase_expr v) :: erase_kvs r end
with erase_stmt (s : lstmt) : stmt :=
  match s with
  | LSExpr e _ => SExpr 0%N (erase_expr e)
  | LSVar x _ _ => SVar 0%N x None
  | LSVarInit x e _ => SVar 0%N x (Some (erase_expr e))
  | LSFn f ps b _ => SFn 0%N f ps (erase_stmts b)
  | LSClass c _ sup ctor _ ms _ =>
    SClass 0%N (ClassDecl c (match sup with Some (n, _) => Some n | None => None end) ctor (erase_methods ms))
  | LSBlock b _ => SBlock 0%N (erase_stmts b)
  | LSIf c _ t _ => SIf 0%N (erase_expr c) (erase_stmts t) None
  | LSIfElse c _ t _ e => SIf 0%N (erase_expr c) (erase_stmts t) (Some (erase_stmt e))
  | LSWhile c _ b _ => SWhile 0%N (erase_expr c) (erase_stmts b)
  | LSFor x _ it _ b _ => SFor 0%N x (erase_expr it) (erase_stmts b)
  | LSReturn _ => SReturn 0%N None
  | LSReturnE e _ => SReturn 0%N (Some (erase_expr e))
  | LSBreak _ => SBreak 0%N
  | LSContinue _ => SContinue 0%N
  | LSThrow e _ => SThrow 0%N (erase_expr e)
  | LSTryC _ b _ x cb _ => STry 0%N (erase_stmts b) (Some (x, erase_stmts cb)) None
  | LSTryF _ b _ fb _ => STry 0%N (erase_stmts b) None (Some (erase_stmts fb))
  | LSTryCF _ b _ x cb _ fb _ => STry 0%N (erase_stmts b) (Some (x, erase_stmts cb)) (Some (erase_stmts fb))
  | LSImport p a _ _ => SImport 0%N p a
  end
with erase_stmts (l : lstmts) : list stmt :=
  match l with LSNil => [] | LSCons s r => erase_stmt s :: erase_stmts r end
with erase_methods (ms : lmethods) : list method_decl :=
  match ms with
  | LMNil => []
  | LMCons k m ps _ b _ r => MethodDecl k m ps (erase_stmts b) :: erase_methods r
  end.

(* ------------------------------------------------------------------ *)
(* the recursive entry points (same set as Parser.rec)                  *)
Record lrec := mkLRec {
  lr_parse_precedence : precedence -> M lexpr;
  lr_infix_loop : precedence -> bool -> lexpr -> M lexpr;
  lr_args_loop : string -> nat -> list lexpr -> M (list lexpr);
  lr_group_loop : nat -> list lexpr -> M (list lexpr * bool);
  lr_map_loop : nat -> list (lexpr * lexpr) -> M (list (lexpr * lexpr));
  lr_interp_loop : list ipart -> M (list ipart * N);
  lr_param_loop : list name -> M (list name);
  lr_declaration : M (option lstmt);
  lr_statement : M lstmt;
  lr_block_loop : M (list lstmt);
  lr_method_loop : M (list pmethod);
  lr_program_loop : M (list lstmt);
  lr_attr_args_loop : list token -> M (list token);
  lr_attrs_loop : list attribute -> M (list attribute)
}.

Definition lrec_bottom : lrec :=
  mkLRec (fun _ => out_of_fuel) (fun _ _ _ => out_of_fuel) (fun _ _ _ => out_of_fuel)
         (fun _ _ => out_of_fuel) (fun _ _ => out_of_fuel) (fun _ => out_of_fuel)
         (fun _ => out_of_fuel) out_of_fuel out_of_fuel out_of_fuel out_of_fuel out_of_fuel
         (fun _ => out_of_fuel) (fun _ => out_of_fuel).

(* line of `previous` *)
Definition pline : M N := fun s => POk (tline (p_prev s), s).

Section LParser.
Variable rules : tkind -> rule.
Variable r : lrec.

Definition expression : M lexpr :=
  s <- get ;;
  lr_parse_precedence r (if p_stm s then PrecOr else PrecAssignment).

Definition block : M (list lstmt) :=
  b <- lr_block_loop r ;;
  consume TRightBrace "Expected '}' after block." ;;;
  ret b.

Definition block_loop : M (list lstmt) :=
  rb <- check TRightBrace ;; eof <- check TEof ;;
  if rb || eof then ret []
  else d <- lr_declaration r ;;
       rest <- lr_block_loop r ;;
       ret (match d with Some st => st :: rest | None => rest end).

Definition scoped_block : M (list lstmt) :=
  begin_scope ;;; b <- block ;; end_scope ;;; ret b.

Definition args_loop (count_msg : string) (n : nat) (acc : list lexpr) : M (list lexpr) :=
  e <- expression ;;
  (if Nat.eqb n 255 then error count_msg else ret tt) ;;;
  c <- match_token TComma ;;
  if c then lr_args_loop r count_msg (S n) (e :: acc) else ret (rev (e :: acc)).

Definition argument_list (right_delim : tkind) (count_msg delim_msg : string) : M (list lexpr) :=
  b <- check right_delim ;;
  es <- (if b then ret [] else lr_args_loop r count_msg 0 []) ;;
  consume right_delim delim_msg ;;;
  ret es.

Definition param_loop (acc : list name) : M (list name) :=
  update_comp (fun c => with_arity c (S (c_arity c))) ;;;
  c <- compiler_ ;;
  (if Nat.ltb 256 (c_arity c) then error_at_current "Cannot have more than 255 parameters." else ret tt) ;;;
  x <- parse_variable "Expected parameter name." ;;
  define_variable ;;;
  m <- match_token TComma ;;
  if m then lr_param_loop r (x :: acc) else ret (rev (x :: acc)).

Definition parameter_list (right_delim : tkind) : M (list name) :=
  b <- check right_delim ;;
  if b then ret [] else lr_param_loop r [].

Definition binary_assign : M lexpr :=
  set_stm true ;;;
  e <- lr_parse_precedence r PrecBitwiseOr ;;
  set_stm false ;;;
  ret e.

Definition named_variable (name : list byte) (can_assign : bool) : M lexpr :=
  l0 <- pline ;;
  resolve_variable name ;;;
  eq <- (if can_assign then match_token TEqual else ret false) ;;
  if eq then e <- expression ;; l <- pline ;; ret (LAssign name e l)
  else
    op <- (if can_assign then match_binary_assignment else ret None) ;;
    match op with
    | Some o => lop <- pline ;; e <- binary_assign ;; l <- pline ;; ret (LCompound name o lop e l)
    | None => ret (LVar l0 name)
    end.

Definition group_loop (n : nat) (acc : list lexpr) : M (list lexpr * bool) :=
  e <- expression ;;
  (if Nat.eqb n 255 then error "Cannot have more than 255 Tuple elements." else ret tt) ;;;
  c <- match_token TComma ;;
  if negb c then ret (rev (e :: acc), false)
  else rp <- check TRightParen ;;
       if Nat.eqb (S n) 1 && rp then ret (rev (e :: acc), true)
       else lr_group_loop r (S n) (e :: acc).

Definition grouping (can_assign : bool) : M lexpr :=
  rp <- check TRightParen ;;
  res <- (if rp then ret ([], false) else lr_group_loop r 0 []) ;;
  let '(es, single) := res in
  l <- pline ;;
  match es, single with
  | [e], false => consume TRightParen "Expected ')' after expression." ;;; ret e
  | _, _ => consume TRightParen "Expected ')' after elements." ;;; ret (LTuple (lexprs_of es) l)
  end.

Definition map_loop (n : nat) (acc : list (lexpr * lexpr)) : M (list (lexpr * lexpr)) :=
  k <- expression ;;
  consume TColon "Expected ':' after key." ;;;
  v <- expression ;;
  (if Nat.eqb n 255 then error "Cannot have more than 255 HashMap entries." else ret tt) ;;;
  c <- match_token TComma ;;
  if c then lr_map_loop r (S n) ((k, v) :: acc) else ret (rev ((k, v) :: acc)).

Definition hash_map (can_assign : bool) : M lexpr :=
  rb <- check TRightBrace ;;
  kvs <- (if rb then ret [] else lr_map_loop r 0 []) ;;
  consume TRightBrace "Expected '}' after elements." ;;;
  l <- pline ;;
  ret (LMap (lkvs_of kvs) l).

Definition vector (can_assign : bool) : M lexpr :=
  es <- argument_list TRightBracket "Cannot have more than 255 Vec elements."
                      "Expected ']' after elements." ;;
  l <- pline ;;
  ret (LVec (lexprs_of es) l).

Definition unary (can_assign : bool) : M lexpr :=
  p <- previous ;;
  e <- lr_parse_precedence r PrecUnary ;;
  l <- pline ;;
  match unop_of_tkind (tk p) with
  | Some op => ret (LUnary op e l)
  | None => model_error "unary: not an operator"
  end.

Definition lambda (can_assign : bool) : M lexpr :=
  new_compiler FFunction ;;;
  begin_scope ;;;
  p <- previous ;;
  params <- (if tkind_eqb (tk p) TBar
             then ps <- parameter_list TBar ;;
                  consume TBar "Expected ')' after parameters." ;;; ret ps
             else ret []) ;;
  lb <- match_token TLeftBrace ;;
  if lb then
    s <- get ;;
    set_stm false ;;;
    b <- block ;;
    set_stm (p_stm s) ;;;
    l <- pline ;;
    finalise_compiler ;;;
    ret (LLambdaB params (lstmts_of b) l)
  else
    e <- expression ;;
    l <- pline ;;
    finalise_compiler ;;;
    ret (LLambdaE params e l).

Definition variable (can_assign : bool) : M lexpr :=
  p <- previous ;; named_variable (tsource p) can_assign.

Definition string_ (can_assign : bool) : M lexpr :=
  p <- previous ;; ret (LStr (tline p) (tsource p)).

Definition lit_part (t : token) (acc : list ipart) : list ipart :=
  match tsource t with [] => acc | s => IPS (tline t) s :: acc end.

Definition interp_loop (acc : list ipart) : M (list ipart * N) :=
  p <- previous ;;
  let acc := lit_part p acc in
  e <- expression ;;
  l <- pline ;;
  let acc := IPE e l :: acc in
  m <- match_token TInterpolation ;;
  if m then lr_interp_loop r acc
  else advance ;;;
       p <- previous ;;
       ret (rev (lit_part p acc), tline p).

Definition interpolation (can_assign : bool) : M lexpr :=
  res <- lr_interp_loop r [] ;;
  let '(parts, lend) := res in
  (if Nat.ltb 255 (length parts)
   then error "Cannot have more than 255 parts in an interpolated string." else ret tt) ;;;
  ret (LInterp (lparts_of parts) lend).

Definition number (can_assign : bool) : M lexpr :=
  p <- previous ;;
  match parse_literal (tsource p) with
  | Some x => ret (LNum (tline p) x)
  | None => error "Unable to parse number."
  end.

Definition literal (can_assign : bool) : M lexpr :=
  p <- previous ;;
  match tk p with
  | TFalse => ret (LFalse (tline p))
  | TNil => ret (LNil (tline p))
  | TTrue => ret (LTrue (tline p))
  | _ => model_error "literal: not a literal"
  end.

Definition self_ (can_assign : bool) : M lexpr :=
  ic <- in_class ;;
  if negb ic then error "Cannot use 'self' outside of a class." else
  c <- compiler_ ;;
  if fkind_eqb (c_kind c) FStaticMethod then error "Cannot use 'self' in a static method." else
  p <- previous ;;
  resolve_variable (tsource p) ;;;
  ret (LSelf (tline p)).

Definition cap_self (can_assign : bool) : M lexpr :=
  ic <- in_class ;;
  if negb ic then error "Cannot use 'Self' outside of a class." else
  p <- previous ;;
  resolve_variable (tsource p) ;;;
  ret (LCapSelf (tline p)).

Definition call_args : M (list lexpr) :=
  argument_list TRightParen "Cannot have more than 255 arguments." "Expected ')' after arguments.".

Definition super_ (can_assign : bool) : M lexpr :=
  s <- get ;;
  (match p_classes s with
   | [] => error "Cannot use 'super' outside of a class."
   | false :: _ => error "Cannot use 'super' in a class with no superclass."
   | true :: _ => ret tt
   end) ;;;
  consume TDot "Expected '.' after 'super'." ;;;
  consume TIdentifier "Expected superclass method name." ;;;
  p <- previous ;;
  let m := tsource p in
  s <- get ;;
  resolve_variable (instance_local_name (p_comps s)) ;;;
  lp <- match_token TLeftParen ;;
  if lp then
    args <- call_args ;;
    lc <- pline ;;
    resolve_variable (bs "super") ;;;
    ret (LSuperCall m (tline p) (lexprs_of args) lc)
  else
    resolve_variable (bs "super") ;;;
    ret (LSuperGet m (tline p)).

Definition prefix (h : prefix_rule) (can_assign : bool) : M lexpr :=
  match h with
  | PGrouping => grouping can_assign
  | PHashMap => hash_map can_assign
  | PVector => vector can_assign
  | PUnary => unary can_assign
  | PLambda => lambda can_assign
  | PVariable => variable can_assign
  | PString => string_ can_assign
  | PInterpolation => interpolation can_assign
  | PNumber => number can_assign
  | PCapSelf => cap_self can_assign
  | PLiteral => literal can_assign
  | PSelf => self_ can_assign
  | PSuper => super_ can_assign
  end.

Definition binary (left : lexpr) (can_assign : bool) : M lexpr :=
  p <- previous ;;
  let k := tk p in
  e <- lr_parse_precedence r (prec_succ (r_prec (rules k))) ;;
  l <- pline ;;
  match binop_of_tkind k with
  | Some op => ret (LBinary op left e l)
  | None => model_error "binary: not an operator"
  end.

Definition call (left : lexpr) (can_assign : bool) : M lexpr :=
  args <- call_args ;; l <- pline ;; ret (LCall left (lexprs_of args) l).

Definition dot (left : lexpr) (can_assign : bool) : M lexpr :=
  consume TIdentifier "Expected property name after '.'." ;;;
  p <- previous ;;
  let m := tsource p in
  eq <- (if can_assign then match_token TEqual else ret false) ;;
  if eq then e <- expression ;; l <- pline ;; ret (LSet left m e l)
  else
    op <- (if can_assign then match_binary_assignment else ret None) ;;
    match op with
    | Some o => lop <- pline ;; e <- binary_assign ;; l <- pline ;; ret (LSetCompound left m o lop e l)
    | None =>
      lp <- match_token TLeftParen ;;
      if lp then args <- call_args ;; l <- pline ;; ret (LInvoke left m (lexprs_of args) l)
      else ret (LGet left m (tline p))
    end.

Definition dotdot (left : lexpr) (can_assign : bool) : M lexpr :=
  e <- lr_parse_precedence r PrecUnary ;; l <- pline ;; ret (LRange left e l).

Definition index (left : lexpr) (can_assign : bool) : M lexpr :=
  i <- expression ;;
  consume TRightBracket "Expected ']' after index." ;;;
  eq <- (if can_assign then match_token TEqual else ret false) ;;
  if eq then e <- expression ;; l <- pline ;; ret (LSetIndex left i e l)
  else l <- pline ;; ret (LIndex left i l).

Definition and_ (left : lexpr) (can_assign : bool) : M lexpr :=
  lop <- pline ;;
  e <- lr_parse_precedence r PrecAnd ;; ret (LAnd left lop e).

Definition or_ (left : lexpr) (can_assign : bool) : M lexpr :=
  lop <- pline ;;
  e <- lr_parse_precedence r PrecOr ;; ret (LOr left lop e).

Definition infix (h : infix_rule) (left : lexpr) (can_assign : bool) : M lexpr :=
  match h with
  | ICall => call left can_assign
  | IIndex => index left can_assign
  | IDot => dot left can_assign
  | IDotDot => dotdot left can_assign
  | IBinary => binary left can_assign
  | IAnd => and_ left can_assign
  | IOr => or_ left can_assign
  end.

Definition infix_loop (p : precedence) (can_assign : bool) (left : lexpr) : M lexpr :=
  c <- current ;;
  if prec_leb p (r_prec (rules (tk c))) then
    advance ;;;
    pv <- previous ;;
    match r_infix (rules (tk pv)) with
    | Some h => left' <- infix h left can_assign ;; lr_infix_loop r p can_assign left'
    | None => model_error "parse_precedence: infix_rule.unwrap() on None"
    end
  else ret left.

Definition parse_precedence (p : precedence) : M lexpr :=
  advance ;;;
  pv <- previous ;;
  let can_assign := prec_leb p PrecAssignment in
  match r_prefix (rules (tk pv)) with
  | None => error "Expected expression."
  | Some h =>
    e <- prefix h can_assign ;;
    e' <- lr_infix_loop r p can_assign e ;;
    eq <- (if can_assign then match_token TEqual else ret false) ;;
    if eq then error "Invalid assignment target." else ret e'
  end.

(* fn function: (parameters without `self`, line of '{', body, line of '}') *)
Definition function_ (kind : fkind) : M (list name * N * list lstmt * N) :=
  new_compiler kind ;;;
  begin_scope ;;;
  consume TLeftParen "Expected '(' after function name." ;;;
  (if is_bound kind then
     consume TSelf "Expected 'self' as first parameter in method." ;;;
     match_token TComma ;;; ret tt
   else
     m <- match_token TSelf ;;
     if m then error "Expected parameter name." else ret tt) ;;;
  params <- parameter_list TRightParen ;;
  consume TRightParen "Expected ')' after parameters." ;;;
  consume TLeftBrace "Expected '{' before function body." ;;;
  lb <- pline ;;
  body <- block ;;
  le <- pline ;;
  finalise_compiler ;;;
  ret (params, lb, body, le).

Definition attr_args_loop (acc : list token) : M (list token) :=
  m <- match_token TIdentifier ;;
  if negb m then error_at_current "Expected an attribute argument." else
  p <- previous ;;
  c <- match_token TComma ;;
  if c then lr_attr_args_loop r (p :: acc) else ret (rev (p :: acc)).

Definition attribute_ : M (option attribute) :=
  m <- match_token TIdentifier ;;
  if negb m then ret None else
  nm <- previous ;;
  lp <- match_token TLeftParen ;;
  if lp then
    args <- lr_attr_args_loop r [] ;;
    rp <- match_token TRightParen ;;
    if rp then ret (Some (mkAttr nm args))
    else error_at_current "Expected ')' after attribute arguments."
  else ret (Some (mkAttr nm [])).

Definition attrs_loop (acc : list attribute) : M (list attribute) :=
  a <- attribute_ ;;
  match a with
  | None => ret acc
  | Some a =>
    if has_attr (tsource (a_name a)) acc then
      error_at (a_name a) ("Duplicate attribute '" ++ str_of (tsource (a_name a)) ++ "'.")
    else
      c <- match_token TComma ;;
      if c then lr_attrs_loop r (acc ++ [a])%list else ret (acc ++ [a])%list
  end.

Definition attributes_declaration : M unit :=
  check_no_attributes ;;;
  opener <- previous ;;
  lb <- match_token TLeftBracket ;;
  if negb lb then error_at_current "Expected '[' after '#'." else
  al <- lr_attrs_loop r [] ;;
  (match al with [] => error_at_current "Expected at least one attribute." | _ => ret tt end) ;;;
  rb <- match_token TRightBracket ;;
  if negb rb then error_at_current "Expected ']' after attribute list." else
  set_attrs al (Some opener).

Definition method : M pmethod :=
  h <- match_token THash ;;
  (if h then attributes_declaration else ret tt) ;;;
  static_attr <- take_attribute "static" 0 ;;
  constructor_attr <- take_attribute "constructor" 0 ;;
  check_supported_attributes "method" ;;;
  consume TFn "Expected 'fn' before method name." ;;;
  consume TIdentifier "Expected method name." ;;;
  p <- previous ;;
  kind <- match constructor_attr, static_attr with
          | Some _, Some a => error_at (a_name a) "Constructors cannot be static."
          | Some _, None => ret MInit
          | None, Some _ => ret MStatic
          | None, None => ret MMethod
          end ;;
  pb <- function_ (match kind with MInit => FInitialiser | MStatic => FStaticMethod | MMethod => FMethod end) ;;
  let '(params, lb, body, le) := pb in
  ret (mkPM kind (tsource p) params lb (lstmts_of body) le).

Definition method_loop : M (list pmethod) :=
  rb <- check TRightBrace ;; eof <- check TEof ;;
  if rb || eof then ret []
  else m <- method ;; rest <- lr_method_loop r ;; ret (m :: rest).

Definition class_declaration : M lstmt :=
  constructor_attr <- take_attribute "constructor" 1 ;;
  let constructor_name := match constructor_attr with
                          | Some a => Some (tsource (hd default_token (a_args a)))
                          | None => None end in
  superclass_attr <- take_attribute "derive" 1 ;;
  let superclass_tok := match superclass_attr with
                        | Some a => Some (hd default_token (a_args a))
                        | None => None end in
  check_supported_attributes "class" ;;;
  consume TIdentifier "Expected class name." ;;;
  p <- previous ;;
  let cname := tsource p in
  declare_variable ;;;
  define_variable ;;;
  s <- get ;;
  set_classes (false :: p_classes s) ;;;
  (match superclass_tok with
   | Some st =>
     let sn := tsource st in
     resolve_variable sn ;;;
     (if bytes_eqb cname sn then error "A class cannot inherit from itself." else ret tt) ;;;
     begin_scope ;;;
     ok <- add_local (bs "super") ;;
     (if ok then ret tt else error "Too many variables in function.") ;;;
     define_variable ;;;
     resolve_variable cname ;;;
     s <- get ;;
     set_classes (true :: tl (p_classes s))
   | None => ret tt
   end) ;;;
  resolve_variable cname ;;;
  resolve_variable cname ;;;
  consume TLeftBrace "Expected '{' before class body." ;;;
  lbrace <- pline ;;
  ms <- lr_method_loop r ;;
  consume TRightBrace "Expected '}' after class body." ;;;
  lend <- pline ;;
  s <- get ;;
  (match p_classes s with true :: _ => end_scope | _ => ret tt end) ;;;
  s <- get ;;
  set_classes (tl (p_classes s)) ;;;
  ret (LSClass cname (tline p)
               (match superclass_tok with Some st => Some (tsource st, tline st) | None => None end)
               constructor_name lbrace (lmethods_of ms) lend).

Definition fn_declaration : M lstmt :=
  check_supported_attributes "function" ;;;
  f <- parse_variable "Expected function name." ;;
  mark_initialised ;;;
  pb <- function_ FFunction ;;
  let '(params, _, body, le) := pb in
  define_variable ;;;
  ret (LSFn f params (lstmts_of body) le).

Definition var_declaration : M lstmt :=
  check_no_attributes ;;;
  x <- parse_variable "Expected variable name." ;;
  lname <- pline ;;
  eq <- match_token TEqual ;;
  init <- (if eq then e <- expression ;; ret (Some e) else ret None) ;;
  consume TSemiColon "Expected ';' after variable declaration." ;;;
  lsemi <- pline ;;
  define_variable ;;;
  ret (match init with Some e => LSVarInit x e lsemi | None => LSVar x lname lsemi end).

Definition expression_statement : M lstmt :=
  e <- expression ;;
  consume TSemiColon "Expected ';' after expression." ;;;
  l <- pline ;;
  ret (LSExpr e l).

Definition import_statement : M lstmt :=
  consume TStr "Expected a module path." ;;;
  path <- previous ;;
  (if bytes_eqb (tsource path) (bs "main") then error "Cannot import top-level module." else ret tt) ;;;
  a <- match_token TAs ;;
  nm <- (if a then consume TIdentifier "Expected module name." ;;; previous
         else match path_file_name (tsource path) with
              | Some f => c <- current ;; ret (token_from_string_and_line f (tline c))
              | None => error "Expected a module path."
              end) ;;
  set_previous nm ;;;
  declare_variable ;;;
  consume TSemiColon "Expected ';' after module import." ;;;
  lsemi <- pline ;;
  define_variable ;;;
  ret (LSImport (tsource path) (tsource nm) (tline nm) lsemi).

Definition for_statement : M lstmt :=
  begin_scope ;;;
  m <- match_token TIdentifier ;;
  if negb m then error_at_current "Expected loop variable name." else
  p <- previous ;;
  declare_variable ;;;
  consume TIn "Expected 'in' after loop variable." ;;;
  it <- expression ;;
  lit <- pline ;;
  mark_last_initialised ;;;
  ok <- add_local (bs "... temp-iter-var ...") ;;
  (if ok then ret tt else error "Too many variables in function.") ;;;
  mark_initialised ;;;
  push_loop ;;;
  consume TLeftBrace "Expected '{' after loop expression." ;;;
  b <- scoped_block ;;
  lend <- pline ;;
  pop_loop ;;;
  end_scope ;;;
  ret (LSFor (tsource p) (tline p) it lit (lstmts_of b) lend).

Definition if_statement : M lstmt :=
  c <- expression ;;
  lcond <- pline ;;
  consume TLeftBrace "Expected '{' after condition." ;;;
  t <- scoped_block ;;
  lthen <- pline ;;
  e <- match_token TElse ;;
  if e then
    ok <- check_any [TIf; TLeftBrace] ;;
    if negb ok then error_at_current "Expected '{' after 'else'." else
    st <- lr_statement r ;;
    ret (LSIfElse c lcond (lstmts_of t) lthen st)
  else ret (LSIf c lcond (lstmts_of t) lthen).

Definition return_statement : M lstmt :=
  c <- compiler_ ;;
  (if fkind_eqb (c_kind c) FScript then error "Cannot return from top-level code." else ret tt) ;;;
  sc <- match_token TSemiColon ;;
  if sc then l <- pline ;; ret (LSReturn l) else
  (if fkind_eqb (c_kind c) FInitialiser then error "Cannot return a value from an initialiser." else ret tt) ;;;
  e <- expression ;;
  consume TSemiColon "Expected ';' after return value." ;;;
  l <- pline ;;
  ret (LSReturnE e l).

Definition break_statement : M lstmt :=
  c <- compiler_ ;;
  l <- pline ;;
  match c_loops c with
  | [] => error "Cannot use 'break' statement outside of loop body."
  | _ => consume TSemiColon "Expected ';' after 'break'." ;;; ret (LSBreak l)
  end.

Definition continue_statement : M lstmt :=
  c <- compiler_ ;;
  l <- pline ;;
  match c_loops c with
  | [] => error "Cannot use 'continue' statement outside of loop body."
  | _ => consume TSemiColon "Expected ';' after 'continue'." ;;; ret (LSContinue l)
  end.

Definition throw_statement : M lstmt :=
  e <- expression ;;
  consume TSemiColon "Expected ';' after throw value." ;;;
  l <- pline ;;
  ret (LSThrow e l).

Definition try_statement : M lstmt :=
  ltry <- pline ;;
  consume TLeftBrace "Expected '{' after 'try'." ;;;
  b <- scoped_block ;;
  lb <- pline ;;
  have_catch <- match_token TCatch ;;
  c <- (if have_catch then
          m <- match_token TIdentifier ;;
          if negb m then error_at_current "Expected exception variable name." else
          p <- previous ;;
          begin_scope ;;;
          declare_variable ;;;
          mark_initialised ;;;
          consume TLeftBrace "Expected '{' after variable." ;;;
          cb <- block ;;
          lc <- pline ;;
          end_scope ;;;
          ret (Some (tsource p, cb, lc))
        else ret None) ;;
  have_finally <- match_token TFinally ;;
  f <- (if have_finally then
          consume TLeftBrace "Expected '{' after 'finally'." ;;;
          fb <- scoped_block ;; lf <- pline ;; ret (Some (fb, lf))
        else ret None) ;;
  match c, f with
  | None, None => error "Expected 'catch' or 'finally' after 'try' block."
  | Some (x, cb, lc), None => ret (LSTryC ltry (lstmts_of b) lb x (lstmts_of cb) lc)
  | None, Some (fb, lf) => ret (LSTryF ltry (lstmts_of b) lb (lstmts_of fb) lf)
  | Some (x, cb, lc), Some (fb, lf) =>
    ret (LSTryCF ltry (lstmts_of b) lb x (lstmts_of cb) lc (lstmts_of fb) lf)
  end.

Definition while_statement : M lstmt :=
  push_loop ;;;
  c <- expression ;;
  lcond <- pline ;;
  consume TLeftBrace "Expected '{' after condition." ;;;
  b <- scoped_block ;;
  lend <- pline ;;
  pop_loop ;;;
  ret (LSWhile c lcond (lstmts_of b) lend).

Definition statement : M lstmt :=
  check_no_attributes ;;;
  c <- current ;;
  match tk c with
  | TImport => advance ;;; import_statement
  | TFor => advance ;;; for_statement
  | TIf => advance ;;; if_statement
  | TReturn => advance ;;; return_statement
  | TBreak => advance ;;; break_statement
  | TContinue => advance ;;; continue_statement
  | TThrow => advance ;;; throw_statement
  | TTry => advance ;;; try_statement
  | TWhile => advance ;;; while_statement
  | TLeftBrace => advance ;;; b <- scoped_block ;; l <- pline ;; ret (LSBlock (lstmts_of b) l)
  | _ => expression_statement
  end.

Definition declaration : M (option lstmt) :=
  c <- current ;;
  match tk c with
  | TClass => advance ;;; st <- class_declaration ;; ret (Some st)
  | TFn => advance ;;; st <- fn_declaration ;; ret (Some st)
  | THash => advance ;;; attributes_declaration ;;; ret None
  | TVar => advance ;;; st <- var_declaration ;; ret (Some st)
  | _ => st <- statement ;; ret (Some st)
  end.

Definition program_loop : M (list lstmt) :=
  e <- match_token TEof ;;
  if e then ret []
  else d <- lr_declaration r ;;
       rest <- lr_program_loop r ;;
       ret (match d with Some st => st :: rest | None => rest end).

Definition lstep : lrec :=
  mkLRec parse_precedence infix_loop args_loop group_loop map_loop interp_loop param_loop
         declaration statement block_loop method_loop program_loop attr_args_loop attrs_loop.

End LParser.

Fixpoint lknot (rules : tkind -> rule) (fuel : nat) : lrec :=
  match fuel with
  | O => lrec_bottom
  | S f => lstep rules (lknot rules f)
  end.

(* fn parse: the declarations and the line of the Eof token *)
Definition lparse (rules : tkind -> rule) (fuel : nat) : M lprogram :=
  advance ;;;
  p <- lr_program_loop (lknot rules fuel) ;;
  leof <- pline ;;
  check_no_attributes ;;;
  ret (lstmts_of p, leof).

Definition lparse_program_with (rules : tkind -> rule) (toks : list token) : presult lprogram :=
  run (lparse rules (default_fuel toks)) toks.

Definition lparse_program : list token -> presult lprogram := lparse_program_with rules_ref.
Definition lparse_source (src : list byte) : presult lprogram := lparse_program (scan_all src).
