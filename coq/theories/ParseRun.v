(* Scan + parse with the default fuel, and printable renderings of results and ASTs for the
   differential checks.  DEFINITIONS ONLY. *)
From Coq Require Import Strings.Byte Strings.String Strings.Ascii.
From Coq Require Import List NArith Bool Arith Floats.SpecFloat.
From YV Require Import Show Wire Utf8 NumText Ast Scanner ParserRules Parser Pretty.
Import ListNotations.
Local Open Scope string_scope.

Definition parse_source (src : list byte) : presult program := parse_program (scan_all src).
Definition parse_expr_source (src : list byte) : presult expr := parse_expr (scan_all src).

(* source given as a Coq string literal / as a hex string (for non-ASCII bytes) *)
Definition hexval (c : ascii) : N :=
  let n := N_of_ascii c in
  if N.leb 48 n && N.leb n 57 then n - 48
  else if N.leb 97 n && N.leb n 102 then n - 87
  else if N.leb 65 n && N.leb n 70 then n - 55 else 0.
Fixpoint bytes_of_hex (s : string) : list byte :=
  match s with
  | String a (String b r) => Nb (16 * hexval a + hexval b) :: bytes_of_hex r
  | _ => []
  end.

(* bytes 0x21..0x7E except backslash and double quote are kept; everything else is \xHH.
   `sp` = keep spaces as well. *)
Definition esc_byte (sp : bool) (b : byte) : string :=
  let n := Byte.to_N b in
  if (N.leb 33 n && N.leb n 126 && negb (N.eqb n 92) && negb (N.eqb n 34)) || (sp && N.eqb n 32)
  then String (ascii_of_N n) EmptyString
  else "\x" ++ hex_of_byte b.
Fixpoint esc_bytes (sp : bool) (l : list byte) : string :=
  match l with
  | [] => EmptyString
  | b :: r => esc_byte sp b ++ esc_bytes sp r
  end.
Definition esc_string (sp : bool) (s : string) : string := esc_bytes sp (list_byte_of_string s).

Definition show_err_at (a : err_at) : string :=
  match a with
  | AtEnd => "end"
  | AtNothing => "none"
  | AtToken l => "tok:" ++ esc_bytes false l
  end.

(* OK | ERR <line> <at> <msg> | FUEL *)
Definition show_presult {A} (r : presult A) : string :=
  match r with
  | POk _ => "OK"
  | PErr l a m => "ERR " ++ show_N l ++ " " ++ show_err_at a ++ " " ++ esc_string true m
  | POutOfFuel => "FUEL"
  end.

(* ---------- tokens ---------- *)
Definition show_token (t : token) : string :=
  show_nat (tkind_index (tk t)) ++ ":" ++ show_N (tline t) ++ ":" ++ hex_of_bytes (tsource t).
Definition show_tokens (l : list token) : string := show_sep " " show_token l.

(* ---------- ASTs: S-expressions, names escaped, strings hex ---------- *)
Definition show_binop (o : binop) : string :=
  match o with
  | BAdd => "+" | BSub => "-" | BMul => "*" | BDiv => "/" | BMod => "%"
  | BEq => "==" | BNe => "!=" | BLt => "<" | BLe => "<=" | BGt => ">" | BGe => ">="
  | BBitAnd => "&" | BBitOr => "|" | BBitXor => "^" | BShl => "<<" | BShr => ">>"
  end.
Definition show_unop (o : unop) : string :=
  match o with UNeg => "neg" | UNot => "not" | UBitNot => "bitnot" end.
Definition show_name (x : name) : string := esc_bytes false x.
Definition show_names (l : list name) : string := "(" ++ show_sep " " show_name l ++ ")".
Definition show_num (x : spec_float) : string := esc_bytes false (print_f64 x).
Definition par (s : string) : string := "(" ++ s ++ ")".

Fixpoint show_expr (e : expr) : string :=
  let list_e := fix go (l : list expr) : string :=
                  match l with [] => "" | x :: r => " " ++ show_expr x ++ go r end in
  match e with
  | ENil => "nil" | ETrue => "true" | EFalse => "false"
  | ENum x => par ("num " ++ show_num x)
  | EStr s => par ("str " ++ hex_of_bytes s)
  | EInterp parts =>
    par ("interp" ++ (fix go (l : list interp_part) : string :=
                        match l with
                        | [] => ""
                        | IPStr s :: r => " " ++ par ("str " ++ hex_of_bytes s) ++ go r
                        | IPExpr x :: r => " " ++ show_expr x ++ go r
                        end) parts)
  | EVar x => par ("var " ++ show_name x)
  | ESelf => "self" | ECapSelf => "Self"
  | ESuperGet m => par ("superget " ++ show_name m)
  | ESuperCall m args => par ("supercall " ++ show_name m ++ list_e args)
  | EAssign x e => par ("assign " ++ show_name x ++ " " ++ show_expr e)
  | ECompound x op e => par ("compound " ++ show_name x ++ " " ++ show_binop op ++ " " ++ show_expr e)
  | EUnary op e => par (show_unop op ++ " " ++ show_expr e)
  | EBinary op a b => par (show_binop op ++ " " ++ show_expr a ++ " " ++ show_expr b)
  | EAnd a b => par ("and " ++ show_expr a ++ " " ++ show_expr b)
  | EOr a b => par ("or " ++ show_expr a ++ " " ++ show_expr b)
  | ERange a b => par ("range " ++ show_expr a ++ " " ++ show_expr b)
  | ECall f args => par ("call " ++ show_expr f ++ list_e args)
  | EGet o m => par ("get " ++ show_expr o ++ " " ++ show_name m)
  | ESet o m e => par ("set " ++ show_expr o ++ " " ++ show_name m ++ " " ++ show_expr e)
  | ESetCompound o m op e =>
    par ("setcompound " ++ show_expr o ++ " " ++ show_name m ++ " " ++ show_binop op ++ " " ++ show_expr e)
  | EInvoke o m args => par ("invoke " ++ show_expr o ++ " " ++ show_name m ++ list_e args)
  | EIndex o i => par ("index " ++ show_expr o ++ " " ++ show_expr i)
  | ESetIndex o i e => par ("setindex " ++ show_expr o ++ " " ++ show_expr i ++ " " ++ show_expr e)
  | ETuple es => par ("tuple" ++ list_e es)
  | EVec es => par ("vec" ++ list_e es)
  | EMap kvs =>
    par ("map" ++ (fix go (l : list (expr * expr)) : string :=
                     match l with
                     | [] => ""
                     | (k, v) :: r => " " ++ par (show_expr k ++ " " ++ show_expr v) ++ go r
                     end) kvs)
  | ELambda ps (LExpr e) => par ("lambda " ++ show_names ps ++ " " ++ show_expr e)
  | ELambda ps (LBlock b) =>
    par ("lambdab " ++ show_names ps ++
         (fix go (l : list stmt) : string :=
            match l with [] => "" | x :: r => " " ++ show_stmt x ++ go r end) b)
  end
with show_stmt (s : stmt) : string :=
  let list_s := fix go (l : list stmt) : string :=
                  match l with [] => "" | x :: r => " " ++ show_stmt x ++ go r end in
  let blk := fun (b : list stmt) => par ("block" ++ list_s b) in
  match s with
  | SExpr l e => par ("expr@" ++ show_N l ++ " " ++ show_expr e)
  | SVar l x None => par ("var@" ++ show_N l ++ " " ++ show_name x)
  | SVar l x (Some e) => par ("var@" ++ show_N l ++ " " ++ show_name x ++ " " ++ show_expr e)
  | SFn l f ps b => par ("fn@" ++ show_N l ++ " " ++ show_name f ++ " " ++ show_names ps ++ " " ++ blk b)
  | SClass l (ClassDecl c sup ctor ms) =>
    par ("class@" ++ show_N l ++ " " ++ show_name c ++ " " ++ show_option show_name sup ++ " "
         ++ show_option show_name ctor ++
         (fix go (l : list method_decl) : string :=
            match l with
            | [] => ""
            | MethodDecl k m ps b :: r =>
              " " ++ par ((match k with MMethod => "method " | MStatic => "static " | MInit => "init " end)
                          ++ show_name m ++ " " ++ show_names ps ++ " " ++ blk b) ++ go r
            end) ms)
  | SBlock l b => par ("block@" ++ show_N l ++ list_s b)
  | SIf l c t None => par ("if@" ++ show_N l ++ " " ++ show_expr c ++ " " ++ blk t)
  | SIf l c t (Some e) => par ("if@" ++ show_N l ++ " " ++ show_expr c ++ " " ++ blk t ++ " " ++ show_stmt e)
  | SWhile l c b => par ("while@" ++ show_N l ++ " " ++ show_expr c ++ " " ++ blk b)
  | SFor l x it b => par ("for@" ++ show_N l ++ " " ++ show_name x ++ " " ++ show_expr it ++ " " ++ blk b)
  | SReturn l None => par ("return@" ++ show_N l)
  | SReturn l (Some e) => par ("return@" ++ show_N l ++ " " ++ show_expr e)
  | SBreak l => par ("break@" ++ show_N l)
  | SContinue l => par ("continue@" ++ show_N l)
  | SThrow l e => par ("throw@" ++ show_N l ++ " " ++ show_expr e)
  | STry l b c f =>
    par ("try@" ++ show_N l ++ " " ++ blk b ++ " " ++
         (match c with Some (x, cb) => par ("catch " ++ show_name x ++ " " ++ blk cb) | None => "-" end)
         ++ " " ++ (match f with Some fb => par ("finally " ++ blk fb) | None => "-" end))
  | SImport l p a => par ("import@" ++ show_N l ++ " " ++ hex_of_bytes p ++ " " ++ show_name a)
  end.

Definition show_program (p : program) : string := show_sep " " show_stmt p.

Definition show_ast (r : presult program) : string :=
  match r with
  | POk p => "OK " ++ show_program p
  | _ => show_presult r
  end.
Definition show_ast_expr (r : presult expr) : string :=
  match r with
  | POk e => "OK " ++ show_expr e
  | _ => show_presult r
  end.

(* entry points for generated case files *)
Definition run_parse (src : string) : string := show_presult (parse_source (list_byte_of_string src)).
Definition run_parse_hex (hex : string) : string := show_presult (parse_source (bytes_of_hex hex)).
Definition run_ast (src : string) : string := show_ast (parse_source (list_byte_of_string src)).
Definition run_tokens (src : string) : string := show_tokens (scan_all (list_byte_of_string src)).

(* round trip through the pretty printer (ASTs compared through their rendering) *)
Definition roundtrip_check (src : list byte) : string :=
  match parse_source src with
  | POk p =>
    let src' := pretty_program p in
    let r' := parse_source src' in
    if String.eqb (show_ast (POk p)) (show_ast r') then "RT-OK"
    else "RT-FAIL " ++ esc_bytes true src' ++ " => " ++ show_presult r'
  | _ => "SKIP"
  end.
Definition run_roundtrip_hex (hex : string) : string := roundtrip_check (bytes_of_hex hex).
Definition run_pretty (src : string) : string :=
  match parse_source (list_byte_of_string src) with
  | POk p => string_of_list_byte (pretty_program p)
  | r => show_presult r
  end.
