(* Model of the acceptance language and FIRST error of /repo/yarel/src/compiler.rs, as a
   recursive-descent / Pratt parser producing Ast.program.  DEFINITIONS ONLY.

   * No panic-mode recovery: the result is the first `error_at` the Rust compiler would execute.
   * The Rust functions are mirrored one for one (same names).  Functions that take part in a
     recursion cycle are reached through the record `rec` ("open recursion"); `knot` ties the knot
     by structural recursion on fuel.  Every call through `rec` costs one unit of fuel, direct
     calls cost nothing.
   * The parser is parametric in the Pratt table `rules` (reference table: ParserRules.rules_ref).
   * `Compiler.locals / scope_depth / upvalues / loop_stack`, `class_compilers`, `attributes`,
     `attribute_opener` and `single_target_mode` are mirrored (names only) because the compiler
     reports static errors from them while parsing. *)
From Coq Require Import Strings.Byte Strings.String.
From Coq Require Import List NArith Bool Arith.
From YV Require Import Show Utf8 NumText Ast Scanner ParserRules.
Import ListNotations.
Local Open Scope string_scope.

(* ------------------------------------------------------------------ *)
(* results                                                              *)
Inductive err_at := AtEnd | AtToken (lexeme : list byte) | AtNothing.

Inductive presult (A : Type) :=
| POk (a : A)
| PErr (line : N) (at_ : err_at) (msg : string)
| POutOfFuel.
Arguments POk {A} a.
Arguments PErr {A} line at_ msg.
Arguments POutOfFuel {A}.

(* ------------------------------------------------------------------ *)
(* compiler state                                                       *)
Inductive fkind := FFunction | FInitialiser | FMethod | FScript | FStaticMethod.

Definition fkind_eqb (a b : fkind) : bool :=
  match a, b with
  | FFunction, FFunction | FInitialiser, FInitialiser | FMethod, FMethod
  | FScript, FScript | FStaticMethod, FStaticMethod => true
  | _, _ => false
  end.

Definition is_bound (k : fkind) : bool :=
  match k with FInitialiser | FMethod => true | _ => false end.

Record local := mkLocal { l_name : list byte; l_depth : option nat }.

Definition LOCALS_MAX : nat := 256.
Definition UPVALUES_MAX : nat := 256.

Record compiler := mkComp {
  c_kind : fkind;
  c_locals : list local;            (* MOST RECENT FIRST; slot i is at position len-1-i *)
  c_upvalues : list (nat * bool);   (* (index, is_local), in slot order *)
  c_scope : nat;                    (* scope_depth *)
  c_loops : list nat;               (* loop_stack (scope depths); break_stack has the same length *)
  c_arity : nat                     (* function.arity (starts at 1) *)
}.

(* Compiler::new *)
Definition new_comp (k : fkind) : compiler :=
  mkComp k
    [mkLocal (match k with
              | FStaticMethod => bs "Self"
              | FFunction => []
              | _ => bs "self"
              end) (Some 0)]
    [] 0 [] 1.

Record attribute := mkAttr { a_name : token; a_args : list token }.

Record pstate := mkP {
  p_prev : token;                   (* previous *)
  p_cur : token;                    (* current *)
  p_rest : list token;              (* what the scanner will still deliver *)
  p_stm : bool;                     (* single_target_mode *)
  p_comps : list compiler;          (* compilers, INNERMOST FIRST *)
  p_classes : list bool;            (* class_compilers (has_superclass), innermost first *)
  p_attrs : list attribute;         (* attributes, in insertion order (Rust: HashMap) *)
  p_opener : option token           (* attribute_opener *)
}.

Definition M (A : Type) : Type := pstate -> presult (A * pstate).

Definition ret {A} (a : A) : M A := fun s => POk (a, s).
Definition bind {A B} (m : M A) (k : A -> M B) : M B :=
  fun s => match m s with
           | POk (a, s') => k a s'
           | PErr l a msg => PErr l a msg
           | POutOfFuel => POutOfFuel
           end.
Definition out_of_fuel {A} : M A := fun _ => POutOfFuel.

Notation "x <- m ;; k" := (bind m (fun x => k)) (at level 61, m at next level, right associativity).
Notation "m ;;; k" := (bind m (fun _ => k)) (at level 61, right associativity).

Definition get : M pstate := fun s => POk (s, s).
Definition put (s : pstate) : M unit := fun _ => POk (tt, s).
Definition when_ (b : bool) (m : M unit) : M unit := if b then m else ret tt.

Definition str_of (l : list byte) : string := string_of_list_byte l.

(* fn error_at(token, message) *)
Definition at_of (t : token) : err_at :=
  match tk t with
  | TEof => AtEnd
  | TError => AtNothing
  | _ => AtToken (tsource t)
  end.
Definition error_at {A} (t : token) (msg : string) : M A := fun _ => PErr (tline t) (at_of t) msg.
(* fn error: at previous *)
Definition error {A} (msg : string) : M A := fun s => error_at (p_prev s) msg s.
Definition error_at_current {A} (msg : string) : M A := fun s => error_at (p_cur s) msg s.
(* a situation in which the Rust code would do nothing / index out of bounds because the table
   `rules` is inconsistent with the handlers; unreachable with rules_ref *)
Definition model_error {A} (msg : string) : M A := fun _ => PErr 0 AtNothing msg.

(* Token::new() *)
Definition default_token : token := mkToken TEof 0 [].
(* Token::from_string_and_line *)
Definition token_from_string_and_line (s : list byte) (l : N) : token := mkToken TEof l s.

(* fn advance.  A scanner Error token is reported as soon as it becomes `current`.  After Eof the
   scanner keeps returning Eof. *)
Definition advance : M unit := fun s =>
  let prev := p_cur s in
  match p_rest s with
  | [] => POk (tt, mkP prev (mkToken TEof (tline prev) []) [] (p_stm s) (p_comps s) (p_classes s)
                       (p_attrs s) (p_opener s))
  | t :: r =>
    match tk t with
    | TError => PErr (tline t) AtNothing (str_of (tsource t))
    | _ => POk (tt, mkP prev t r (p_stm s) (p_comps s) (p_classes s) (p_attrs s) (p_opener s))
    end
  end.

Definition check (k : tkind) : M bool := fun s => POk (tkind_eqb (tk (p_cur s)) k, s).
Definition check_any (ks : list tkind) : M bool :=
  fun s => POk (existsb (tkind_eqb (tk (p_cur s))) ks, s).
Definition match_token (k : tkind) : M bool :=
  b <- check k ;; if b then advance ;;; ret true else ret false.
Definition consume (k : tkind) (msg : string) : M unit :=
  b <- check k ;; if b then advance else error_at_current msg.
Definition previous : M token := fun s => POk (p_prev s, s).
Definition current : M token := fun s => POk (p_cur s, s).
Definition set_previous (t : token) : M unit := fun s =>
  POk (tt, mkP t (p_cur s) (p_rest s) (p_stm s) (p_comps s) (p_classes s) (p_attrs s) (p_opener s)).
Definition set_stm (b : bool) : M unit := fun s =>
  POk (tt, mkP (p_prev s) (p_cur s) (p_rest s) b (p_comps s) (p_classes s) (p_attrs s) (p_opener s)).
Definition set_comps (cs : list compiler) : M unit := fun s =>
  POk (tt, mkP (p_prev s) (p_cur s) (p_rest s) (p_stm s) cs (p_classes s) (p_attrs s) (p_opener s)).
Definition set_classes (cl : list bool) : M unit := fun s =>
  POk (tt, mkP (p_prev s) (p_cur s) (p_rest s) (p_stm s) (p_comps s) cl (p_attrs s) (p_opener s)).
Definition set_attrs (al : list attribute) (op : option token) : M unit := fun s =>
  POk (tt, mkP (p_prev s) (p_cur s) (p_rest s) (p_stm s) (p_comps s) (p_classes s) al op).

(* the compound-assignment tokens, in the order of fn match_binary_assignment *)
Definition assign_op (k : tkind) : option binop :=
  match k with
  | TMinusEqual => Some BSub | TPlusEqual => Some BAdd | TSlashEqual => Some BDiv
  | TStarEqual => Some BMul | TAmpEqual => Some BBitAnd | TBarEqual => Some BBitOr
  | TCaretEqual => Some BBitXor | TPercentEqual => Some BMod | TLessLessEqual => Some BShl
  | TGreaterGreaterEqual => Some BShr
  | _ => None
  end.
(* fn match_binary_assignment; returns the operator of the token just consumed *)
Definition match_binary_assignment : M (option binop) :=
  c <- current ;;
  match assign_op (tk c) with
  | Some op => advance ;;; ret (Some op)
  | None => ret None
  end.

(* ---------- the current compiler ---------- *)
Definition dummy_comp : compiler := new_comp FScript.
Definition compiler_ : M compiler :=
  fun s => POk (match p_comps s with c :: _ => c | [] => dummy_comp end, s).
Definition update_comp (f : compiler -> compiler) : M unit := fun s =>
  match p_comps s with
  | c :: r => set_comps (f c :: r) s
  | [] => POk (tt, s)
  end.
Definition new_compiler (k : fkind) : M unit := fun s => set_comps (new_comp k :: p_comps s) s.
(* finalise_compiler: pops the compiler *)
Definition finalise_compiler : M unit := fun s => set_comps (tl (p_comps s)) s.

Definition with_scope (c : compiler) (d : nat) : compiler :=
  mkComp (c_kind c) (c_locals c) (c_upvalues c) d (c_loops c) (c_arity c).
Definition with_locals (c : compiler) (l : list local) : compiler :=
  mkComp (c_kind c) l (c_upvalues c) (c_scope c) (c_loops c) (c_arity c).
Definition with_upvalues (c : compiler) (u : list (nat * bool)) : compiler :=
  mkComp (c_kind c) (c_locals c) u (c_scope c) (c_loops c) (c_arity c).
Definition with_loops (c : compiler) (l : list nat) : compiler :=
  mkComp (c_kind c) (c_locals c) (c_upvalues c) (c_scope c) l (c_arity c).
Definition with_arity (c : compiler) (a : nat) : compiler :=
  mkComp (c_kind c) (c_locals c) (c_upvalues c) (c_scope c) (c_loops c) a.

Definition begin_scope : M unit := update_comp (fun c => with_scope c (S (c_scope c))).

(* emit_scope_end(true, d): pop every trailing local whose depth is > d.
   (`local.depth.unwrap()` would panic on an uninitialised local; that cannot happen before the
   first error.  The model stops popping there.) *)
Fixpoint pop_locals (d : nat) (ls : list local) : list local :=
  match ls with
  | l :: r =>
    match l_depth l with
    | Some v => if Nat.leb v d then ls else pop_locals d r
    | None => ls
    end
  | [] => []
  end.
Definition end_scope : M unit :=
  update_comp (fun c => let d := pred (c_scope c) in with_locals (with_scope c d) (pop_locals d (c_locals c))).

Definition push_loop : M unit := update_comp (fun c => with_loops c (c_scope c :: c_loops c)).
Definition pop_loop : M unit := update_comp (fun c => with_loops c (tl (c_loops c))).

(* Compiler::add_local; false = table full *)
Definition add_local (name : list byte) : M bool :=
  c <- compiler_ ;;
  if Nat.eqb (length (c_locals c)) LOCALS_MAX then ret false
  else update_comp (fun c => with_locals c (mkLocal name None :: c_locals c)) ;;; ret true.

(* Compiler::mark_last_initialised *)
Definition mark_last_initialised : M unit :=
  update_comp (fun c => match c_locals c with
                        | l :: r => with_locals c (mkLocal (l_name l) (Some (c_scope c)) :: r)
                        | [] => c
                        end).
(* Parser::mark_initialised *)
Definition mark_initialised : M unit :=
  c <- compiler_ ;; if Nat.eqb (c_scope c) 0 then ret tt else mark_last_initialised.
(* fn define_variable (only its effect on the locals) *)
Definition define_variable : M unit := mark_initialised.

(* the duplicate check of fn declare_variable *)
Fixpoint declared_in_scope (name : list byte) (scope : nat) (ls : list local) : bool :=
  match ls with
  | [] => false
  | l :: r =>
    match l_depth l with
    | Some v => if Nat.ltb v scope then false
                else bytes_eqb name (l_name l) || declared_in_scope name scope r
    | None => bytes_eqb name (l_name l) || declared_in_scope name scope r
    end
  end.

(* fn declare_variable: declares previous.source *)
Definition declare_variable : M unit :=
  c <- compiler_ ;;
  if Nat.eqb (c_scope c) 0 then ret tt else
  p <- previous ;;
  if declared_in_scope (tsource p) (c_scope c) (c_locals c)
  then error "Variable with this name already declared in this scope."
  else ok <- add_local (tsource p) ;;
       if ok then ret tt else error "Too many variables in function.".

(* fn parse_variable *)
Definition parse_variable (msg : string) : M name :=
  consume TIdentifier msg ;;;
  declare_variable ;;;
  p <- previous ;; ret (tsource p).

(* Compiler::resolve_local *)
Inductive lres := LFound (i : nat) | LUninit | LNotFound.
Fixpoint resolve_local_in (name : list byte) (ls : list local) : lres :=
  match ls with
  | [] => LNotFound
  | l :: r =>
    if bytes_eqb (l_name l) name then
      match l_depth l with Some _ => LFound (length r) | None => LUninit end
    else resolve_local_in name r
  end.
Definition resolve_local_c (c : compiler) (name : list byte) : lres :=
  resolve_local_in name (c_locals c).

Fixpoint find_upvalue (u : list (nat * bool)) (i : nat) (is_local : bool) (pos : nat) : option nat :=
  match u with
  | [] => None
  | (j, l) :: r => if Nat.eqb j i && Bool.eqb l is_local then Some pos
                   else find_upvalue r i is_local (S pos)
  end.
(* Compiler::add_upvalue; None = TooManyClosureVars *)
Definition add_upvalue (c : compiler) (i : nat) (is_local : bool) : option (nat * compiler) :=
  match find_upvalue (c_upvalues c) i is_local 0 with
  | Some p => Some (p, c)
  | None =>
    let n := length (c_upvalues c) in
    if Nat.eqb n UPVALUES_MAX then None
    else Some (n, with_upvalues c (c_upvalues c ++ [(i, is_local)])%list)
  end.

(* fn resolve_upvalue for the compiler `c` whose enclosing compilers are `outer` (innermost first) *)
Inductive ures := UFound (i : nat) (comps : list compiler) | UNotFound | UTooMany.
Fixpoint resolve_upvalue_in (name : list byte) (c : compiler) (outer : list compiler) : ures :=
  match outer with
  | [] => UNotFound
  | e :: outer' =>
    match resolve_local_c e name with
    | LFound i =>
      match add_upvalue c i true with
      | Some (u, c') => UFound u (c' :: outer)
      | None => UTooMany
      end
    | _ =>
      match resolve_upvalue_in name e outer' with
      | UFound i outer2 =>
        match add_upvalue c i false with
        | Some (u, c') => UFound u (c' :: outer2)
        | None => UTooMany
        end
      | UNotFound => UNotFound
      | UTooMany => UTooMany
      end
    end
  end.

(* fn resolve_variable (errors and upvalue side effects only) *)
Definition resolve_variable (name : list byte) : M unit :=
  c <- compiler_ ;;
  match resolve_local_c c name with
  | LFound _ => ret tt
  | LUninit => error "Cannot read local variable in its own initialiser."
  | LNotFound =>
    s <- get ;;
    match p_comps s with
    | c :: outer =>
      match resolve_upvalue_in name c outer with
      | UFound _ comps' => set_comps comps'
      | UNotFound => ret tt
      | UTooMany => error "Too many closure variables in function."
      end
    | [] => ret tt
    end
  end.

(* ---------- attributes ---------- *)
Fixpoint remove_attr (name : list byte) (al : list attribute) : option attribute * list attribute :=
  match al with
  | [] => (None, [])
  | a :: r =>
    if bytes_eqb (tsource (a_name a)) name then (Some a, r)
    else let '(x, r') := remove_attr name r in (x, a :: r')
  end.

(* fn check_no_attributes *)
Definition check_no_attributes : M unit :=
  s <- get ;;
  match p_opener s with
  | Some op => error_at op "Unexpected attribute list."
  | None => set_attrs [] None
  end.

(* fn check_supported_attributes.  Rust iterates a HashMap (arbitrary order); the model reports the
   attribute that was written first. *)
Definition check_supported_attributes (kind : string) : M unit :=
  s <- get ;;
  match p_attrs s with
  | a :: _ => error_at (a_name a)
                ("Unsupported " ++ kind ++ " attribute '" ++ str_of (tsource (a_name a)) ++ "'.")
  | [] => set_attrs [] None
  end.

(* fn take_attribute *)
Definition take_attribute (name : string) (num_args : nat) : M (option attribute) :=
  s <- get ;;
  match remove_attr (bs name) (p_attrs s) with
  | (Some a, rest) =>
    set_attrs rest (p_opener s) ;;;
    if Nat.eqb (length (a_args a)) num_args then ret (Some a)
    else error_at (a_name a)
           ("Expected " ++ show_nat num_args ++ " argument" ++ (if Nat.eqb num_args 1 then "" else "s")
                        ++ " to '" ++ str_of (tsource (a_name a)) ++ "' attribute.")
  | (None, _) => ret None
  end.

(* ---------- import: Path::new(p).file_name() ---------- *)
Fixpoint split_slash (l : list byte) (cur : list byte) : list (list byte) :=
  match l with
  | [] => [rev cur]
  | b :: r => if Byte.eqb b "/" then rev cur :: split_slash r [] else split_slash r (b :: cur)
  end.
Definition path_file_name (p : list byte) : option (list byte) :=
  let comps := filter (fun c => negb (bytes_eqb c [] || bytes_eqb c (bs "."))) (split_slash p []) in
  match rev comps with
  | [] => None
  | c :: _ => if bytes_eqb c (bs "..") then None else Some c
  end.

(* ------------------------------------------------------------------ *)
(* operators                                                            *)
Definition binop_of_tkind (k : tkind) : option binop :=
  match k with
  | TBangEqual => Some BNe | TEqualEqual => Some BEq | TGreater => Some BGt
  | TGreaterEqual => Some BGe | TLess => Some BLt | TLessEqual => Some BLe
  | TPlus => Some BAdd | TMinus => Some BSub | TStar => Some BMul | TSlash => Some BDiv
  | TAmp => Some BBitAnd | TBar => Some BBitOr | TCaret => Some BBitXor | TPercent => Some BMod
  | TLessLess => Some BShl | TGreaterGreater => Some BShr
  | _ => None
  end.
Definition unop_of_tkind (k : tkind) : option unop :=
  match k with
  | TMinus => Some UNeg | TBang => Some UNot | TTilde => Some UBitNot
  | _ => None
  end.

(* ------------------------------------------------------------------ *)
(* the recursive entry points                                           *)
Record rec := mkRec {
  r_parse_precedence : precedence -> M expr;
  r_infix_loop : precedence -> bool -> expr -> M expr;               (* the `while` of parse_precedence *)
  r_args_loop : string -> nat -> list expr -> M (list expr);   (* the `loop` of argument_list *)
  r_group_loop : nat -> list expr -> M (list expr * bool);     (* the `loop` of grouping *)
  r_map_loop : nat -> list (expr * expr) -> M (list (expr * expr));   (* the `loop` of hash_map *)
  r_interp_loop : list interp_part -> M (list interp_part);    (* the `loop` of interpolation *)
  r_param_loop : list name -> M (list name);                   (* the `loop` of parameter_list *)
  r_declaration : M (option stmt);
  r_statement : M stmt;
  r_block_loop : M (list stmt);                                (* the `while` of block *)
  r_method_loop : M (list method_decl);                        (* the `while` of class_declaration *)
  r_program_loop : M (list stmt);                              (* the `while` of parse *)
  r_attr_args_loop : list token -> M (list token);             (* the `loop` of attribute *)
  r_attrs_loop : list attribute -> M (list attribute)          (* the `while let` of attributes_declaration *)
}.

Definition rec_bottom : rec :=
  mkRec (fun _ => out_of_fuel) (fun _ _ _ => out_of_fuel) (fun _ _ _ => out_of_fuel)
        (fun _ _ => out_of_fuel) (fun _ _ => out_of_fuel) (fun _ => out_of_fuel)
        (fun _ => out_of_fuel) out_of_fuel out_of_fuel out_of_fuel out_of_fuel out_of_fuel
        (fun _ => out_of_fuel) (fun _ => out_of_fuel).

Section Parser.
Variable rules : tkind -> rule.
Variable r : rec.

(* fn expression *)
Definition expression : M expr :=
  s <- get ;;
  (* nested in the operand of a compound assignment: any operator, but no assignment *)
  r_parse_precedence r (if p_stm s then PrecOr else PrecAssignment).

(* fn block *)
Definition block : M (list stmt) :=
  b <- r_block_loop r ;;
  consume TRightBrace "Expected '}' after block." ;;;
  ret b.

Definition block_loop : M (list stmt) :=
  rb <- check TRightBrace ;; eof <- check TEof ;;
  if rb || eof then ret []
  else d <- r_declaration r ;;
       rest <- r_block_loop r ;;
       ret (match d with Some st => st :: rest | None => rest end).

(* begin_scope(); block(); end_scope() *)
Definition scoped_block : M (list stmt) :=
  begin_scope ;;; b <- block ;; end_scope ;;; ret b.

(* fn argument_list *)
Definition args_loop (count_msg : string) (n : nat) (acc : list expr) : M (list expr) :=
  e <- expression ;;
  (if Nat.eqb n 255 then error count_msg else ret tt) ;;;
  c <- match_token TComma ;;
  if c then r_args_loop r count_msg (S n) (e :: acc) else ret (rev (e :: acc)).

Definition argument_list (right_delim : tkind) (count_msg delim_msg : string) : M (list expr) :=
  b <- check right_delim ;;
  es <- (if b then ret [] else r_args_loop r count_msg 0 []) ;;
  consume right_delim delim_msg ;;;
  ret es.

(* fn parameter_list *)
Definition param_loop (acc : list name) : M (list name) :=
  update_comp (fun c => with_arity c (S (c_arity c))) ;;;
  c <- compiler_ ;;
  (if Nat.ltb 256 (c_arity c) then error_at_current "Cannot have more than 255 parameters." else ret tt) ;;;
  x <- parse_variable "Expected parameter name." ;;
  define_variable ;;;
  m <- match_token TComma ;;
  if m then r_param_loop r (x :: acc) else ret (rev (x :: acc)).

Definition parameter_list (right_delim : tkind) : M (list name) :=
  b <- check right_delim ;;
  if b then ret [] else r_param_loop r [].

(* fn binary_assign: the right-hand side of `target op= e` *)
Definition binary_assign : M expr :=
  set_stm true ;;;
  e <- r_parse_precedence r PrecBitwiseOr ;;
  set_stm false ;;;
  ret e.

(* fn named_variable *)
Definition named_variable (name : list byte) (can_assign : bool) : M expr :=
  resolve_variable name ;;;
  eq <- (if can_assign then match_token TEqual else ret false) ;;
  if eq then e <- expression ;; ret (EAssign name e)
  else
    op <- (if can_assign then match_binary_assignment else ret None) ;;
    match op with
    | Some o => e <- binary_assign ;; ret (ECompound name o e)
    | None => ret (EVar name)
    end.

(* ---------- prefix functions ---------- *)
Definition group_loop (n : nat) (acc : list expr) : M (list expr * bool) :=
  e <- expression ;;
  (if Nat.eqb n 255 then error "Cannot have more than 255 Tuple elements." else ret tt) ;;;
  c <- match_token TComma ;;
  if negb c then ret (rev (e :: acc), false)
  else rp <- check TRightParen ;;
       if Nat.eqb (S n) 1 && rp then ret (rev (e :: acc), true)
       else r_group_loop r (S n) (e :: acc).

Definition grouping (can_assign : bool) : M expr :=
  rp <- check TRightParen ;;
  res <- (if rp then ret ([], false) else r_group_loop r 0 []) ;;
  let '(es, single) := res in
  match es, single with
  | [e], false => consume TRightParen "Expected ')' after expression." ;;; ret e
  | _, _ => consume TRightParen "Expected ')' after elements." ;;; ret (ETuple es)
  end.

Definition map_loop (n : nat) (acc : list (expr * expr)) : M (list (expr * expr)) :=
  k <- expression ;;
  consume TColon "Expected ':' after key." ;;;
  v <- expression ;;
  (if Nat.eqb n 255 then error "Cannot have more than 255 HashMap entries." else ret tt) ;;;
  c <- match_token TComma ;;
  if c then r_map_loop r (S n) ((k, v) :: acc) else ret (rev ((k, v) :: acc)).

Definition hash_map (can_assign : bool) : M expr :=
  rb <- check TRightBrace ;;
  kvs <- (if rb then ret [] else r_map_loop r 0 []) ;;
  consume TRightBrace "Expected '}' after elements." ;;;
  ret (EMap kvs).

Definition vector (can_assign : bool) : M expr :=
  es <- argument_list TRightBracket "Cannot have more than 255 Vec elements."
                      "Expected ']' after elements." ;;
  ret (EVec es).

Definition unary (can_assign : bool) : M expr :=
  p <- previous ;;
  e <- r_parse_precedence r PrecUnary ;;
  match unop_of_tkind (tk p) with
  | Some op => ret (EUnary op e)
  | None => model_error "unary: not an operator"
  end.

Definition lambda (can_assign : bool) : M expr :=
  new_compiler FFunction ;;;
  begin_scope ;;;
  p <- previous ;;
  params <- (if tkind_eqb (tk p) TBar
             then ps <- parameter_list TBar ;;
                  consume TBar "Expected ')' after parameters." ;;; ret ps
             else ret []) ;;
  lb <- match_token TLeftBrace ;;
  body <- (if lb then
             (* the statements of the body are not part of an enclosing compound assignment *)
             s <- get ;;
             set_stm false ;;;
             b <- block ;;
             set_stm (p_stm s) ;;;
             ret (LBlock b)
           else e <- expression ;; ret (LExpr e)) ;;
  finalise_compiler ;;;
  ret (ELambda params body).

Definition variable (can_assign : bool) : M expr :=
  p <- previous ;; named_variable (tsource p) can_assign.

Definition string_ (can_assign : bool) : M expr :=
  p <- previous ;; ret (EStr (tsource p)).

Definition lit_part (t : token) (acc : list interp_part) : list interp_part :=
  match tsource t with [] => acc | s => IPStr s :: acc end.

Definition interp_loop (acc : list interp_part) : M (list interp_part) :=
  p <- previous ;;
  let acc := lit_part p acc in
  e <- expression ;;
  let acc := IPExpr e :: acc in
  m <- match_token TInterpolation ;;
  if m then r_interp_loop r acc
  else advance ;;;                       (* whatever token comes next is taken as the tail *)
       p <- previous ;;
       ret (rev (lit_part p acc)).

Definition interpolation (can_assign : bool) : M expr :=
  parts <- r_interp_loop r [] ;;
  (if Nat.ltb 255 (length parts)
   then error "Cannot have more than 255 parts in an interpolated string." else ret tt) ;;;
  ret (EInterp parts).

Definition number (can_assign : bool) : M expr :=
  p <- previous ;;
  match parse_literal (tsource p) with
  | Some x => ret (ENum x)
  | None => error "Unable to parse number."
  end.

Definition literal (can_assign : bool) : M expr :=
  p <- previous ;;
  match tk p with
  | TFalse => ret EFalse
  | TNil => ret ENil
  | TTrue => ret ETrue
  | _ => model_error "literal: not a literal"
  end.

Definition in_class : M bool := fun s => POk (match p_classes s with [] => false | _ => true end, s).

Definition self_ (can_assign : bool) : M expr :=
  ic <- in_class ;;
  if negb ic then error "Cannot use 'self' outside of a class." else
  c <- compiler_ ;;
  if fkind_eqb (c_kind c) FStaticMethod then error "Cannot use 'self' in a static method." else
  p <- previous ;;
  resolve_variable (tsource p) ;;;
  ret ESelf.

Definition cap_self (can_assign : bool) : M expr :=
  ic <- in_class ;;
  if negb ic then error "Cannot use 'Self' outside of a class." else
  p <- previous ;;
  resolve_variable (tsource p) ;;;
  ret ECapSelf.

Definition call_args : M (list expr) :=
  argument_list TRightParen "Cannot have more than 255 arguments." "Expected ')' after arguments.".

Fixpoint instance_local_name (comps : list compiler) : list byte :=
  match comps with
  | [] => []
  | c :: r =>
    match l_name (last (c_locals c) (mkLocal [] None)) with
    | [] => instance_local_name r
    | n => n
    end
  end.

Definition super_ (can_assign : bool) : M expr :=
  s <- get ;;
  (match p_classes s with
   | [] => error "Cannot use 'super' outside of a class."
   | false :: _ => error "Cannot use 'super' in a class with no superclass."
   | true :: _ => ret tt
   end) ;;;
  consume TDot "Expected '.' after 'super'." ;;;
  consume TIdentifier "Expected superclass method name." ;;;
  p <- previous ;;
  let m := tsource p in
  (* the receiver: slot 0 of the innermost compiler whose slot 0 has a name (`self` / `Self`), also
     when `super` is used in a function nested inside the method (compiler commit 0fbde2d) *)
  s <- get ;;
  resolve_variable (instance_local_name (p_comps s)) ;;;
  lp <- match_token TLeftParen ;;
  if lp then
    args <- call_args ;;
    resolve_variable (bs "super") ;;;
    ret (ESuperCall m args)
  else
    resolve_variable (bs "super") ;;;
    ret (ESuperGet m).

Definition prefix (h : prefix_rule) (can_assign : bool) : M expr :=
  match h with
  | PGrouping => grouping can_assign
  | PHashMap => hash_map can_assign
  | PVector => vector can_assign
  | PUnary => unary can_assign
  | PLambda => lambda can_assign
  | PVariable => variable can_assign
  | PString => string_ can_assign
  | PInterpolation => interpolation can_assign
  | PNumber => number can_assign
  | PCapSelf => cap_self can_assign
  | PLiteral => literal can_assign
  | PSelf => self_ can_assign
  | PSuper => super_ can_assign
  end.

(* ---------- infix functions (take the left operand) ---------- *)
Definition binary (left : expr) (can_assign : bool) : M expr :=
  p <- previous ;;
  let k := tk p in
  e <- r_parse_precedence r (prec_succ (r_prec (rules k))) ;;
  match binop_of_tkind k with
  | Some op => ret (EBinary op left e)
  | None => model_error "binary: not an operator"
  end.

Definition call (left : expr) (can_assign : bool) : M expr :=
  args <- call_args ;; ret (ECall left args).

Definition dot (left : expr) (can_assign : bool) : M expr :=
  consume TIdentifier "Expected property name after '.'." ;;;
  p <- previous ;;
  let m := tsource p in
  eq <- (if can_assign then match_token TEqual else ret false) ;;
  if eq then e <- expression ;; ret (ESet left m e)
  else
    op <- (if can_assign then match_binary_assignment else ret None) ;;
    match op with
    | Some o => e <- binary_assign ;; ret (ESetCompound left m o e)
    | None =>
      lp <- match_token TLeftParen ;;
      if lp then args <- call_args ;; ret (EInvoke left m args)
      else ret (EGet left m)
    end.

Definition dotdot (left : expr) (can_assign : bool) : M expr :=
  e <- r_parse_precedence r PrecUnary ;; ret (ERange left e).

Definition index (left : expr) (can_assign : bool) : M expr :=
  i <- expression ;;
  consume TRightBracket "Expected ']' after index." ;;;
  eq <- (if can_assign then match_token TEqual else ret false) ;;
  if eq then e <- expression ;; ret (ESetIndex left i e)
  else ret (EIndex left i).

Definition and_ (left : expr) (can_assign : bool) : M expr :=
  e <- r_parse_precedence r PrecAnd ;; ret (EAnd left e).

Definition or_ (left : expr) (can_assign : bool) : M expr :=
  e <- r_parse_precedence r PrecOr ;; ret (EOr left e).

Definition infix (h : infix_rule) (left : expr) (can_assign : bool) : M expr :=
  match h with
  | ICall => call left can_assign
  | IIndex => index left can_assign
  | IDot => dot left can_assign
  | IDotDot => dotdot left can_assign
  | IBinary => binary left can_assign
  | IAnd => and_ left can_assign
  | IOr => or_ left can_assign
  end.

(* fn parse_precedence *)
Definition infix_loop (p : precedence) (can_assign : bool) (left : expr) : M expr :=
  c <- current ;;
  if prec_leb p (r_prec (rules (tk c))) then
    advance ;;;
    pv <- previous ;;
    match r_infix (rules (tk pv)) with
    | Some h => left' <- infix h left can_assign ;; r_infix_loop r p can_assign left'
    | None => model_error "parse_precedence: infix_rule.unwrap() on None"
    end
  else ret left.

Definition parse_precedence (p : precedence) : M expr :=
  advance ;;;
  pv <- previous ;;
  let can_assign := prec_leb p PrecAssignment in
  match r_prefix (rules (tk pv)) with
  | None => error "Expected expression."
  | Some h =>
    e <- prefix h can_assign ;;
    e' <- r_infix_loop r p can_assign e ;;
    eq <- (if can_assign then match_token TEqual else ret false) ;;
    if eq then error "Invalid assignment target." else ret e'
  end.

(* ---------- declarations ---------- *)

(* fn function: (parameters without `self`, body) *)
Definition function_ (kind : fkind) : M (list name * list stmt) :=
  new_compiler kind ;;;
  begin_scope ;;;
  consume TLeftParen "Expected '(' after function name." ;;;
  (if is_bound kind then
     consume TSelf "Expected 'self' as first parameter in method." ;;;
     match_token TComma ;;; ret tt
   else
     m <- match_token TSelf ;;
     if m then error "Expected parameter name." else ret tt) ;;;
  params <- parameter_list TRightParen ;;
  consume TRightParen "Expected ')' after parameters." ;;;
  consume TLeftBrace "Expected '{' before function body." ;;;
  body <- block ;;
  finalise_compiler ;;;
  ret (params, body).

(* fn attribute: None = no attribute here (no error) *)
Definition attr_args_loop (acc : list token) : M (list token) :=
  m <- match_token TIdentifier ;;
  if negb m then error_at_current "Expected an attribute argument." else
  p <- previous ;;
  c <- match_token TComma ;;
  if c then r_attr_args_loop r (p :: acc) else ret (rev (p :: acc)).

Definition attribute_ : M (option attribute) :=
  m <- match_token TIdentifier ;;
  if negb m then ret None else
  nm <- previous ;;
  lp <- match_token TLeftParen ;;
  if lp then
    args <- r_attr_args_loop r [] ;;
    rp <- match_token TRightParen ;;
    if rp then ret (Some (mkAttr nm args))
    else error_at_current "Expected ')' after attribute arguments."
  else ret (Some (mkAttr nm [])).

Definition has_attr (name : list byte) (al : list attribute) : bool :=
  existsb (fun a => bytes_eqb (tsource (a_name a)) name) al.

(* the `while let Some(attribute) = self.attribute()` loop *)
Definition attrs_loop (acc : list attribute) : M (list attribute) :=
  a <- attribute_ ;;
  match a with
  | None => ret acc
  | Some a =>
    if has_attr (tsource (a_name a)) acc then
      (* reported at the duplicate attribute's name token (compiler commit eac17ca) *)
      error_at (a_name a) ("Duplicate attribute '" ++ str_of (tsource (a_name a)) ++ "'.")
    else
      c <- match_token TComma ;;
      if c then r_attrs_loop r (acc ++ [a])%list else ret (acc ++ [a])%list
  end.

(* fn attributes_declaration *)
Definition attributes_declaration : M unit :=
  check_no_attributes ;;;
  opener <- previous ;;
  lb <- match_token TLeftBracket ;;
  if negb lb then error_at_current "Expected '[' after '#'." else
  al <- r_attrs_loop r [] ;;
  (match al with [] => error_at_current "Expected at least one attribute." | _ => ret tt end) ;;;
  rb <- match_token TRightBracket ;;
  if negb rb then error_at_current "Expected ']' after attribute list." else
  set_attrs al (Some opener).

(* fn method *)
Definition method : M method_decl :=
  h <- match_token THash ;;
  (if h then attributes_declaration else ret tt) ;;;
  static_attr <- take_attribute "static" 0 ;;
  constructor_attr <- take_attribute "constructor" 0 ;;
  check_supported_attributes "method" ;;;
  consume TFn "Expected 'fn' before method name." ;;;
  consume TIdentifier "Expected method name." ;;;
  p <- previous ;;
  kind <- match constructor_attr, static_attr with
          | Some _, Some a => error_at (a_name a) "Constructors cannot be static."
          | Some _, None => ret MInit
          | None, Some _ => ret MStatic
          | None, None => ret MMethod
          end ;;
  pb <- function_ (match kind with MInit => FInitialiser | MStatic => FStaticMethod | MMethod => FMethod end) ;;
  ret (MethodDecl kind (tsource p) (fst pb) (snd pb)).

Definition method_loop : M (list method_decl) :=
  rb <- check TRightBrace ;; eof <- check TEof ;;
  if rb || eof then ret []
  else m <- method ;; rest <- r_method_loop r ;; ret (m :: rest).

(* fn class_declaration *)
Definition class_declaration (l : lineno) : M stmt :=
  constructor_attr <- take_attribute "constructor" 1 ;;
  let constructor_name := match constructor_attr with
                          | Some a => Some (tsource (hd default_token (a_args a)))
                          | None => None end in
  superclass_attr <- take_attribute "derive" 1 ;;
  let superclass_name := match superclass_attr with
                         | Some a => Some (tsource (hd default_token (a_args a)))
                         | None => None end in
  check_supported_attributes "class" ;;;
  consume TIdentifier "Expected class name." ;;;
  p <- previous ;;
  let cname := tsource p in
  declare_variable ;;;
  define_variable ;;;
  s <- get ;;
  set_classes (false :: p_classes s) ;;;
  (match superclass_name with
   | Some sn =>
     resolve_variable sn ;;;
     (if bytes_eqb cname sn then error "A class cannot inherit from itself." else ret tt) ;;;
     begin_scope ;;;
     ok <- add_local (bs "super") ;;
     (if ok then ret tt else error "Too many variables in function.") ;;;
     define_variable ;;;
     resolve_variable cname ;;;
     s <- get ;;
     set_classes (true :: tl (p_classes s))
   | None => ret tt
   end) ;;;
  resolve_variable cname ;;;
  resolve_variable cname ;;;
  consume TLeftBrace "Expected '{' before class body." ;;;
  ms <- r_method_loop r ;;
  consume TRightBrace "Expected '}' after class body." ;;;
  s <- get ;;
  (match p_classes s with true :: _ => end_scope | _ => ret tt end) ;;;
  s <- get ;;
  set_classes (tl (p_classes s)) ;;;
  ret (SClass l (ClassDecl cname superclass_name constructor_name ms)).

(* fn fn_declaration *)
Definition fn_declaration (l : lineno) : M stmt :=
  check_supported_attributes "function" ;;;
  f <- parse_variable "Expected function name." ;;
  mark_initialised ;;;
  pb <- function_ FFunction ;;
  define_variable ;;;
  ret (SFn l f (fst pb) (snd pb)).

(* fn var_declaration *)
Definition var_declaration (l : lineno) : M stmt :=
  check_no_attributes ;;;
  x <- parse_variable "Expected variable name." ;;
  eq <- match_token TEqual ;;
  init <- (if eq then e <- expression ;; ret (Some e) else ret None) ;;
  consume TSemiColon "Expected ';' after variable declaration." ;;;
  define_variable ;;;
  ret (SVar l x init).

(* ---------- statements ---------- *)
Definition expression_statement (l : lineno) : M stmt :=
  e <- expression ;;
  consume TSemiColon "Expected ';' after expression." ;;;
  ret (SExpr l e).

Definition import_statement (l : lineno) : M stmt :=
  consume TStr "Expected a module path." ;;;
  path <- previous ;;
  (if bytes_eqb (tsource path) (bs "main") then error "Cannot import top-level module." else ret tt) ;;;
  a <- match_token TAs ;;
  nm <- (if a then consume TIdentifier "Expected module name." ;;; previous
         else match path_file_name (tsource path) with
              | Some f => c <- current ;; ret (token_from_string_and_line f (tline c))
              | None => error "Expected a module path."
              end) ;;
  set_previous nm ;;;
  declare_variable ;;;
  consume TSemiColon "Expected ';' after module import." ;;;
  define_variable ;;;
  ret (SImport l (tsource path) (tsource nm)).

Definition for_statement (l : lineno) : M stmt :=
  begin_scope ;;;
  m <- match_token TIdentifier ;;
  if negb m then error_at_current "Expected loop variable name." else
  p <- previous ;;
  declare_variable ;;;
  consume TIn "Expected 'in' after loop variable." ;;;
  it <- expression ;;
  mark_last_initialised ;;;                      (* mark_initialised(loop_var) *)
  ok <- add_local (bs "... temp-iter-var ...") ;;
  (if ok then ret tt else error "Too many variables in function.") ;;;
  mark_initialised ;;;
  push_loop ;;;
  consume TLeftBrace "Expected '{' after loop expression." ;;;
  b <- scoped_block ;;
  pop_loop ;;;
  end_scope ;;;
  ret (SFor l (tsource p) it b).

Definition if_statement (l : lineno) : M stmt :=
  c <- expression ;;
  consume TLeftBrace "Expected '{' after condition." ;;;
  t <- scoped_block ;;
  e <- match_token TElse ;;
  if e then
    ok <- check_any [TIf; TLeftBrace] ;;
    if negb ok then error_at_current "Expected '{' after 'else'." else
    st <- r_statement r ;;
    ret (SIf l c t (Some st))
  else ret (SIf l c t None).

Definition return_statement (l : lineno) : M stmt :=
  c <- compiler_ ;;
  (if fkind_eqb (c_kind c) FScript then error "Cannot return from top-level code." else ret tt) ;;;
  sc <- match_token TSemiColon ;;
  if sc then ret (SReturn l None) else
  (if fkind_eqb (c_kind c) FInitialiser then error "Cannot return a value from an initialiser." else ret tt) ;;;
  e <- expression ;;
  consume TSemiColon "Expected ';' after return value." ;;;
  ret (SReturn l (Some e)).

Definition break_statement (l : lineno) : M stmt :=
  c <- compiler_ ;;
  match c_loops c with
  | [] => error "Cannot use 'break' statement outside of loop body."
  | _ => consume TSemiColon "Expected ';' after 'break'." ;;; ret (SBreak l)
  end.

Definition continue_statement (l : lineno) : M stmt :=
  c <- compiler_ ;;
  match c_loops c with
  | [] => error "Cannot use 'continue' statement outside of loop body."
  | _ => consume TSemiColon "Expected ';' after 'continue'." ;;; ret (SContinue l)
  end.

Definition throw_statement (l : lineno) : M stmt :=
  e <- expression ;;
  consume TSemiColon "Expected ';' after throw value." ;;;
  ret (SThrow l e).

Definition try_statement (l : lineno) : M stmt :=
  consume TLeftBrace "Expected '{' after 'try'." ;;;
  b <- scoped_block ;;
  have_catch <- match_token TCatch ;;
  c <- (if have_catch then
          m <- match_token TIdentifier ;;
          if negb m then error_at_current "Expected exception variable name." else
          p <- previous ;;
          begin_scope ;;;
          declare_variable ;;;
          mark_initialised ;;;
          consume TLeftBrace "Expected '{' after variable." ;;;
          cb <- block ;;
          end_scope ;;;
          ret (Some (tsource p, cb))
        else ret None) ;;
  have_finally <- match_token TFinally ;;
  f <- (if have_finally then
          consume TLeftBrace "Expected '{' after 'finally'." ;;;
          fb <- scoped_block ;; ret (Some fb)
        else ret None) ;;
  if negb have_catch && negb have_finally
  then error "Expected 'catch' or 'finally' after 'try' block."
  else ret (STry l b c f).

Definition while_statement (l : lineno) : M stmt :=
  push_loop ;;;
  c <- expression ;;
  consume TLeftBrace "Expected '{' after condition." ;;;
  b <- scoped_block ;;
  pop_loop ;;;
  ret (SWhile l c b).

(* fn statement *)
Definition statement : M stmt :=
  check_no_attributes ;;;
  c <- current ;;
  let l := tline c in
  match tk c with
  | TImport => advance ;;; import_statement l
  | TFor => advance ;;; for_statement l
  | TIf => advance ;;; if_statement l
  | TReturn => advance ;;; return_statement l
  | TBreak => advance ;;; break_statement l
  | TContinue => advance ;;; continue_statement l
  | TThrow => advance ;;; throw_statement l
  | TTry => advance ;;; try_statement l
  | TWhile => advance ;;; while_statement l
  | TLeftBrace => advance ;;; b <- scoped_block ;; ret (SBlock l b)
  | _ => expression_statement l
  end.

(* fn declaration (without the panic-mode `synchronise`) *)
Definition declaration : M (option stmt) :=
  c <- current ;;
  let l := tline c in
  match tk c with
  | TClass => advance ;;; st <- class_declaration l ;; ret (Some st)
  | TFn => advance ;;; st <- fn_declaration l ;; ret (Some st)
  | THash => advance ;;; attributes_declaration ;;; ret None
  | TVar => advance ;;; st <- var_declaration l ;; ret (Some st)
  | _ => st <- statement ;; ret (Some st)
  end.

(* the `while !self.match_token(TokenKind::Eof) { self.declaration(); }` of fn parse *)
Definition program_loop : M (list stmt) :=
  e <- match_token TEof ;;
  if e then ret []
  else d <- r_declaration r ;;
       rest <- r_program_loop r ;;
       ret (match d with Some st => st :: rest | None => rest end).

Definition step : rec :=
  mkRec parse_precedence infix_loop args_loop group_loop map_loop interp_loop param_loop
        declaration statement block_loop method_loop program_loop attr_args_loop attrs_loop.

End Parser.

Fixpoint knot (rules : tkind -> rule) (fuel : nat) : rec :=
  match fuel with
  | O => rec_bottom
  | S f => step rules (knot rules f)
  end.

(* Parser::new + the first advance() of fn parse *)
Definition init_pstate (toks : list token) : pstate :=
  mkP default_token default_token toks false [new_comp FScript] [] [] None.

(* fn parse *)
Definition parse (rules : tkind -> rule) (fuel : nat) : M program :=
  advance ;;;
  p <- r_program_loop (knot rules fuel) ;;
  check_no_attributes ;;;
  ret p.

Definition run {A} (m : M A) (toks : list token) : presult A :=
  match m (init_pstate toks) with
  | POk (a, _) => POk a
  | PErr l a msg => PErr l a msg
  | POutOfFuel => POutOfFuel
  end.

Definition default_fuel (toks : list token) : nat := 8 * length toks + 64.

Definition parse_program_with (rules : tkind -> rule) (toks : list token) : presult program :=
  run (parse rules (default_fuel toks)) toks.

Definition parse_program : list token -> presult program := parse_program_with rules_ref.

(* A single expression followed by Eof (used by the round-trip theorems): `expression()` at the top
   level of a script, then the next token must be Eof. *)
Definition parse_expr_with (rules : tkind -> rule) (toks : list token) : presult expr :=
  run (advance ;;;
       e <- expression (knot rules (default_fuel toks)) ;;
       consume TEof "Expected end of expression." ;;;
       ret e) toks.

Definition parse_expr : list token -> presult expr := parse_expr_with rules_ref.
