(* Proofs about the parser model (Parser.v), the Pratt table (ParserRules.v) and the pretty
   printer (Pretty.v). *)
From Coq Require Import Strings.Byte Strings.String.
From Coq Require Import List NArith Bool Arith Lia.
From YV Require Import Utf8 Utf8Proofs NumText Ast Scanner ParserRules Parser Pretty ParseRun.
Import ListNotations.
Local Open Scope nat_scope.

(* ------------------------------------------------------------------ *)
(* totality                                                             *)
(* ------------------------------------------------------------------ *)
(* The parser is a total function; its result is one of the three forms. *)
Theorem parse_total : forall toks,
  (exists p, parse_program toks = POk p) \/
  (exists l a m, parse_program toks = PErr l a m) \/
  parse_program toks = POutOfFuel.
Proof.
  intros toks. destruct (parse_program toks) as [p|l a m|].
  - left. exists p. reflexivity.
  - right. left. exists l, a, m. reflexivity.
  - right. right. reflexivity.
Qed.
Print Assumptions parse_total.

Theorem parse_source_total : forall src,
  (exists p, parse_source src = POk p) \/
  (exists l a m, parse_source src = PErr l a m) \/
  parse_source src = POutOfFuel.
Proof. intros src. apply parse_total. Qed.

(* The table has one entry per token kind, and every kind with a precedence has an infix
   function (so `infix_rule.unwrap()` never panics). *)
Theorem rules_table_complete : length rules_table = length all_tkinds.
Proof. reflexivity. Qed.

Theorem rules_infix_total : forall k,
  r_prec (rules_ref k) <> PrecNone -> r_infix (rules_ref k) <> None.
Proof. intros k. destruct k; vm_compute; congruence. Qed.
Print Assumptions rules_infix_total.

(* ------------------------------------------------------------------ *)
(* precedence and associativity: examples                               *)
(* ------------------------------------------------------------------ *)
Definition pe (s : string) : presult expr := parse_expr_source (list_byte_of_string s).
Definition v (s : string) : expr := EVar (list_byte_of_string s).

(* a - b - c = (a - b) - c *)
Example binary_left_assoc_ex :
  pe "a - b - c" = POk (EBinary BSub (EBinary BSub (v "a") (v "b")) (v "c")).
Proof. vm_compute. reflexivity. Qed.

(* a + b * c = a + (b * c) ;  a * b + c = (a * b) + c *)
Example precedence_order_ex1 :
  pe "a + b * c" = POk (EBinary BAdd (v "a") (EBinary BMul (v "b") (v "c"))).
Proof. vm_compute. reflexivity. Qed.
Example precedence_order_ex2 :
  pe "a * b + c" = POk (EBinary BAdd (EBinary BMul (v "a") (v "b")) (v "c")).
Proof. vm_compute. reflexivity. Qed.

(* Range binds tighter than every binary operator: a..b+1 = (a..b)+1, and its right operand is
   parsed at Unary precedence: a..-b = a..(-b), a..b.c = a..(b.c) *)
Example range_ex1 : pe "a..b+c" = POk (EBinary BAdd (ERange (v "a") (v "b")) (v "c")).
Proof. vm_compute. reflexivity. Qed.
Example range_ex1' : pe "a..b+1" = pe "(a..b)+1".
Proof. vm_compute. reflexivity. Qed.
Example range_ex2 : pe "a+1..b" = pe "a+(1..b)". Proof. vm_compute. reflexivity. Qed.
Example range_ex3 : pe "a..-b" = POk (ERange (v "a") (EUnary UNeg (v "b"))).
Proof. vm_compute. reflexivity. Qed.
Example range_ex4 : pe "a..b.c" = POk (ERange (v "a") (EGet (v "b") (list_byte_of_string "c"))).
Proof. vm_compute. reflexivity. Qed.
Example range_left_assoc : pe "a..b..c" = POk (ERange (ERange (v "a") (v "b")) (v "c")).
Proof. vm_compute. reflexivity. Qed.

(* && and || parse their right operand at their OWN level: they associate to the right *)
Example and_right_assoc : pe "a && b && c" = POk (EAnd (v "a") (EAnd (v "b") (v "c"))).
Proof. vm_compute. reflexivity. Qed.
Example or_and : pe "a || b && c || d" = POk (EOr (v "a") (EOr (EAnd (v "b") (v "c")) (v "d"))).
Proof. vm_compute. reflexivity. Qed.

(* unary binds tighter than binary, looser than call/property/index *)
Example unary_ex1 : pe "-a.b" = POk (EUnary UNeg (EGet (v "a") (list_byte_of_string "b"))).
Proof. vm_compute. reflexivity. Qed.
Example unary_ex2 : pe "!a == b" = POk (EBinary BEq (EUnary UNot (v "a")) (v "b")).
Proof. vm_compute. reflexivity. Qed.

(* the whole ladder, lowest to highest *)
Example ladder :
  pe "a || b && c == d < e | f ^ g & h << i + j * k .. l" =
  POk (EOr (v "a") (EAnd (v "b") (EBinary BEq (v "c") (EBinary BLt (v "d")
       (EBinary BBitOr (v "e") (EBinary BBitXor (v "f") (EBinary BBitAnd (v "g")
        (EBinary BShl (v "h") (EBinary BAdd (v "i") (EBinary BMul (v "j")
         (ERange (v "k") (v "l")))))))))))).
Proof. vm_compute. reflexivity. Qed.

(* assignment: right associative, only at Assignment precedence *)
Example assign_ex1 : pe "a = b = c" = POk (EAssign (list_byte_of_string "a") (EAssign (list_byte_of_string "b") (v "c"))).
Proof. vm_compute. reflexivity. Qed.
Example assign_ex2 : pe "a + b = c" = PErr 1 (AtToken (list_byte_of_string "=")) "Invalid assignment target.".
Proof. vm_compute. reflexivity. Qed.
(* compound assignment: the operand is parsed at BitwiseOr precedence, the rest continues the
   enclosing expression: x += 1 == 2 is (x += 1) == 2 *)
Example compound_ex1 :
  pe "x += 1 == 2" = pe "(x += 1) == 2".
Proof. vm_compute. reflexivity. Qed.
Example compound_ex2 :
  pe "x += (n = 3)" = PErr 1 (AtToken (list_byte_of_string "=")) "Expected ')' after expression.".
Proof. vm_compute. reflexivity. Qed.

(* ------------------------------------------------------------------ *)
(* pratt_roundtrip, bounded-exhaustive version (text level):            *)
(* scan + parse of pretty_expr e gives back e                           *)
(* ------------------------------------------------------------------ *)
(* A first-order copy of the expression fragment (no nested lists), so that equality is decidable
   by a simple structural function. *)
Inductive fexpr :=
| FNil | FTrue | FFalse | FSelfless
| FVar (n : nat)
| FUn (op : unop) (a : fexpr)
| FBin (op : binop) (a b : fexpr)
| FAnd (a b : fexpr) | FOr (a b : fexpr) | FRange (a b : fexpr)
| FCall0 (f : fexpr) | FCall1 (f a : fexpr) | FCall2 (f a b : fexpr)
| FGet (o : fexpr) (m : nat)
| FIndex (o i : fexpr)
| FTuple0 | FTuple1 (a : fexpr) | FTuple2 (a b : fexpr)
| FVec0 | FVec1 (a : fexpr) | FVec2 (a b : fexpr)
| FAssign (x : nat) (a : fexpr)
| FLam (x : nat) (a : fexpr).

Definition fname (n : nat) : name :=
  list_byte_of_string (match n with 0 => "a" | 1 => "b" | 2 => "m" | 3 => "x" | 4 => "c" | 5 => "d" | _ => "zz" end).

Definition unname (x : name) : option nat :=
  (fix go (k : nat) (cands : list nat) : option nat :=
     match cands with
     | [] => None
     | n :: r => if bytes_eqb x (fname n) then Some n else go k r
     end) 0 [0; 1; 2; 3; 4; 5; 6].

Fixpoint embed (f : fexpr) : expr :=
  match f with
  | FNil => ENil | FTrue => ETrue | FFalse => EFalse | FSelfless => ETuple []
  | FVar n => EVar (fname n)
  | FUn op a => EUnary op (embed a)
  | FBin op a b => EBinary op (embed a) (embed b)
  | FAnd a b => EAnd (embed a) (embed b)
  | FOr a b => EOr (embed a) (embed b)
  | FRange a b => ERange (embed a) (embed b)
  | FCall0 f => ECall (embed f) []
  | FCall1 f a => ECall (embed f) [embed a]
  | FCall2 f a b => ECall (embed f) [embed a; embed b]
  | FGet o m => EGet (embed o) (fname m)
  | FIndex o i => EIndex (embed o) (embed i)
  | FTuple0 => ETuple []
  | FTuple1 a => ETuple [embed a]
  | FTuple2 a b => ETuple [embed a; embed b]
  | FVec0 => EVec []
  | FVec1 a => EVec [embed a]
  | FVec2 a b => EVec [embed a; embed b]
  | FAssign x a => EAssign (fname x) (embed a)
  | FLam x a => ELambda [fname x] (LExpr (embed a))
  end.

Definition unop_eqb (a b : unop) : bool :=
  match a, b with UNeg, UNeg | UNot, UNot | UBitNot, UBitNot => true | _, _ => false end.
Definition binop_idx (o : binop) : nat :=
  match o with
  | BAdd => 0 | BSub => 1 | BMul => 2 | BDiv => 3 | BMod => 4 | BEq => 5 | BNe => 6 | BLt => 7
  | BLe => 8 | BGt => 9 | BGe => 10 | BBitAnd => 11 | BBitOr => 12 | BBitXor => 13 | BShl => 14
  | BShr => 15
  end.
Definition binop_eqb (a b : binop) : bool := Nat.eqb (binop_idx a) (binop_idx b).

Lemma unop_eqb_eq : forall a b, unop_eqb a b = true -> a = b.
Proof. intros [] []; cbn; congruence. Qed.
Lemma binop_eqb_eq : forall a b, binop_eqb a b = true -> a = b.
Proof. intros [] []; cbn; congruence. Qed.

(* decidable equality of an AST with the embedding of an fexpr *)
Fixpoint matches (f : fexpr) (e : expr) {struct f} : bool :=
  match f, e with
  | FNil, ENil | FTrue, ETrue | FFalse, EFalse => true
  | FSelfless, ETuple [] => true
  | FVar n, EVar x => bytes_eqb x (fname n)
  | FUn op a, EUnary op' a' => unop_eqb op op' && matches a a'
  | FBin op a b, EBinary op' a' b' => binop_eqb op op' && matches a a' && matches b b'
  | FAnd a b, EAnd a' b' => matches a a' && matches b b'
  | FOr a b, EOr a' b' => matches a a' && matches b b'
  | FRange a b, ERange a' b' => matches a a' && matches b b'
  | FCall0 f, ECall f' [] => matches f f'
  | FCall1 f a, ECall f' [a'] => matches f f' && matches a a'
  | FCall2 f a b, ECall f' [a'; b'] => matches f f' && matches a a' && matches b b'
  | FGet o m, EGet o' m' => matches o o' && bytes_eqb m' (fname m)
  | FIndex o i, EIndex o' i' => matches o o' && matches i i'
  | FTuple0, ETuple [] => true
  | FTuple1 a, ETuple [a'] => matches a a'
  | FTuple2 a b, ETuple [a'; b'] => matches a a' && matches b b'
  | FVec0, EVec [] => true
  | FVec1 a, EVec [a'] => matches a a'
  | FVec2 a b, EVec [a'; b'] => matches a a' && matches b b'
  | FAssign x a, EAssign x' a' => bytes_eqb x' (fname x) && matches a a'
  | FLam x a, ELambda [x'] (LExpr a') => bytes_eqb x' (fname x) && matches a a'
  | _, _ => false
  end.

Ltac bsplit :=
  repeat match goal with
         | H : _ && _ = true |- _ => apply andb_prop in H; destruct H
         end.

Lemma matches_sound : forall f e, matches f e = true -> e = embed f.
Proof.
  induction f; intros e H; destruct e; cbn [matches] in H; try discriminate;
    repeat match goal with
           | H : match ?l with _ => _ end = true |- _ => destruct l; try discriminate
           end;
    bsplit; cbn [embed];
    repeat match goal with
           | H : bytes_eqb _ _ = true |- _ => apply bytes_eqb_eq in H; subst
           | H : unop_eqb _ _ = true |- _ => apply unop_eqb_eq in H; subst
           | H : binop_eqb _ _ = true |- _ => apply binop_eqb_eq in H; subst
           | IH : forall e, matches ?f e = true -> e = embed ?f, H : matches ?f _ = true |- _ =>
             apply IH in H; subst
           end; reflexivity.
Qed.

Definition roundtrips (f : fexpr) : bool :=
  match parse_expr_source (pretty_expr (embed f)) with
  | POk e => matches f e
  | _ => false
  end.

Lemma roundtrips_sound : forall f, roundtrips f = true ->
  parse_expr_source (pretty_expr (embed f)) = POk (embed f).
Proof.
  intros f H. unfold roundtrips in H.
  destruct (parse_expr_source (pretty_expr (embed f))) as [e| |]; try discriminate.
  apply matches_sound in H. congruence.
Qed.

(* ---------- the enumeration ---------- *)
Definition all_binops : list binop :=
  [BAdd; BSub; BMul; BDiv; BMod; BEq; BNe; BLt; BLe; BGt; BGe; BBitAnd; BBitOr; BBitXor; BShl; BShr].

Definition un_ctors : list (fexpr -> fexpr) :=
  [FUn UNeg; FUn UNot; FUn UBitNot; FCall0; (fun o => FGet o 2); FTuple1; FVec1; FAssign 3; FLam 3].
Definition bin_ctors : list (fexpr -> fexpr -> fexpr) :=
  map FBin all_binops ++ [FAnd; FOr; FRange; FCall1; FIndex; FTuple2; FVec2].

(* all expressions of depth <= 1 over the leaf x *)
Definition depth1 (x : fexpr) : list fexpr :=
  x :: map (fun c => c x) un_ctors ++ map (fun c => c x x) bin_ctors.

(* every constructor applied to all combinations of depth-<=1 operands (leaves a / b tell the
   operand positions apart): 9*33 + 23*33*33 = 25344 expressions of depth <= 2 *)
Definition depth2 : list fexpr :=
  flat_map (fun c => map c (depth1 (FVar 0))) un_ctors ++
  flat_map (fun c => flat_map (fun l => map (c l) (depth1 (FVar 1))) (depth1 (FVar 0))) bin_ctors.

(* left and right spines of three binary constructors: 2 * 23^3 = 24334 expressions of depth 3 *)
Definition spines : list fexpr :=
  flat_map (fun c1 => flat_map (fun c2 => flat_map (fun c3 =>
    [c1 (c2 (c3 (FVar 0) (FVar 1)) (FVar 4)) (FVar 5);
     c1 (FVar 0) (c2 (FVar 1) (c3 (FVar 4) (FVar 5)))]) bin_ctors) bin_ctors) bin_ctors.

(* unary constructors between two binary ones (both sides), and ternary calls *)
Definition mixed : list fexpr :=
  flat_map (fun c1 => flat_map (fun u => flat_map (fun c2 =>
    [c1 (u (c2 (FVar 0) (FVar 1))) (FVar 4); c1 (FVar 0) (u (c2 (FVar 1) (FVar 4)))])
    bin_ctors) un_ctors) bin_ctors ++
  flat_map (fun x => flat_map (fun y => [FCall2 x y (FVar 4); FCall2 (FVar 0) x y])
    (depth1 (FVar 1))) (depth1 (FVar 0)).

Theorem pratt_roundtrip_depth2 : forallb roundtrips depth2 = true.
Proof. vm_compute. reflexivity. Qed.
Theorem pratt_roundtrip_spines : forallb roundtrips spines = true.
Proof. vm_compute. reflexivity. Qed.
Theorem pratt_roundtrip_mixed : forallb roundtrips mixed = true.
Proof. vm_compute. reflexivity. Qed.

(* pratt_roundtrip, bounded: for every expression of the three families above (50k+ expressions,
   all parent/child and grandparent combinations of the operators of the fragment),
   parse (scan (pretty e)) = e. *)
Theorem pratt_roundtrip_bounded : forall f,
  In f (depth2 ++ spines ++ mixed) ->
  parse_expr_source (pretty_expr (embed f)) = POk (embed f).
Proof.
  intros f H. apply roundtrips_sound.
  apply in_app_or in H. destruct H as [H|H].
  - pose proof pratt_roundtrip_depth2 as Q. rewrite forallb_forall in Q. apply Q. exact H.
  - apply in_app_or in H. destruct H as [H|H].
    + pose proof pratt_roundtrip_spines as Q. rewrite forallb_forall in Q. apply Q. exact H.
    + pose proof pratt_roundtrip_mixed as Q. rewrite forallb_forall in Q. apply Q. exact H.
Qed.
Print Assumptions pratt_roundtrip_bounded.

Example enumeration_sizes : (length depth2, length spines, length mixed) = (25344, 24334, 11700).
Proof. vm_compute. reflexivity. Qed.


(* ================================================================== *)
(* pratt_roundtrip, UNBOUNDED, token level, operator fragment           *)
(* ================================================================== *)
(* For every expression built from nil/true/false, variables, string literals, the three unary
   operators, the sixteen binary operators, &&, || and .. (any size, any nesting):
   parsing the token sequence that the pretty printer's parenthesisation rule prescribes
   (`tk_expr`, the token-level twin of Pretty.pp_expr) gives the expression back, with the
   default fuel.  General associativity / precedence lemmas follow.
   Proof idea: `claim e p` says that parse_precedence(q) (q <= p) on `tk_expr p e ++ t0 :: rest`
   equals "the rest of parse_precedence(q) with left operand e" (`K`), at an explicitly computed
   fuel; it is proved by induction on e, the parenthesised case reusing the unparenthesised one. *)
Module Pratt.

Definition R (f : nat) : rec := knot rules_ref f.
Definition sst (pv c : token) (r : list token) : pstate :=
  mkP pv c r false [new_comp FScript] [] [] None.
Definition sstr (pv : token) (l : list token) : pstate :=
  match l with c :: r => sst pv c r | [] => sst pv pv [] end.

Lemma R_S : forall f, R (S f) = step rules_ref (R f).
Proof. reflexivity. Qed.

Lemma advance_sst : forall pv c t r, tk t <> TError ->
  advance (sst pv c (t :: r)) = POk (tt, sst c t r).
Proof.
  intros pv c t r H. unfold advance, sst. cbn [p_cur p_rest p_stm p_comps p_classes p_attrs p_opener].
  destruct (tk t); try reflexivity. contradiction.
Qed.

Lemma resolve_variable_sst : forall x pv c r, resolve_variable x (sst pv c r) = POk (tt, sst pv c r).
Proof.
  intros x pv c r. unfold resolve_variable, bind, compiler_, sst. cbn [p_comps].
  unfold resolve_local_c, new_comp. cbn [c_locals resolve_local_in l_name l_depth].
  destruct (bytes_eqb (bs "self") x); reflexivity.
Qed.

Definition can_assign (q : precedence) : bool := prec_leb q PrecAssignment.

(* the part of parse_precedence that follows the prefix expression *)
Definition K (q : precedence) (g : nat) (e : expr) : M expr :=
  bind (r_infix_loop (R g) q (can_assign q) e) (fun e' =>
  bind (if can_assign q then match_token TEqual else ret false) (fun eq =>
  if eq then error "Invalid assignment target." else ret e')).

Definition tprec (t : token) : nat := prec_index (r_prec (rules_ref (tk t))).

Lemma K_stop : forall q g e pv t rest,
  tprec t < prec_index q -> tk t <> TEqual ->
  K q (S g) e (sst pv t rest) = POk (e, sst pv t rest).
Proof.
  intros q g e pv t rest Hp Ht. unfold K. rewrite R_S. unfold step, r_infix_loop, infix_loop, bind, current.
  cbn [p_cur sst]. unfold prec_leb. unfold tprec in Hp.
  assert (E : Nat.leb (prec_index q) (prec_index (r_prec (rules_ref (tk t)))) = false) by (apply Nat.leb_gt; exact Hp).
  rewrite E. unfold ret.
  destruct (can_assign q); [|reflexivity].
  unfold match_token, bind, check. cbn [p_cur sst].
  assert (E2 : tkind_eqb (tk t) TEqual = false).
  { destruct (tk t); try reflexivity. contradiction. }
  rewrite E2. reflexivity.
Qed.

(* ---------- token-level printer for the operator fragment ---------- *)
Definition T (k : tkind) (s : list byte) : token := mkToken k 1 s.
Definition unop_tkind (o : unop) : tkind :=
  match o with UNeg => TMinus | UNot => TBang | UBitNot => TTilde end.
Definition tkind_of_binop (o : binop) : tkind :=
  match o with
  | BAdd => TPlus | BSub => TMinus | BMul => TStar | BDiv => TSlash | BMod => TPercent
  | BEq => TEqualEqual | BNe => TBangEqual | BLt => TLess | BLe => TLessEqual | BGt => TGreater
  | BGe => TGreaterEqual | BBitAnd => TAmp | BBitOr => TBar | BBitXor => TCaret
  | BShl => TLessLess | BShr => TGreaterGreater
  end.

Fixpoint tk_expr (p : nat) (e : expr) : list token :=
  let body :=
    match e with
    | ENil => [T TNil (lit "nil")]
    | ETrue => [T TTrue (lit "true")]
    | EFalse => [T TFalse (lit "false")]
    | EVar x => [T TIdentifier x]
    | EStr s => [T TStr s]
    | EUnary op a => T (unop_tkind op) (unop_text op) :: tk_expr 13 a
    | EBinary op a b =>
      tk_expr (binop_level op) a ++ T (tkind_of_binop op) (binop_text op) :: tk_expr (S (binop_level op)) b
    | EAnd a b => tk_expr 4 a ++ T TAmpAmp (lit "&&") :: tk_expr 3 b
    | EOr a b => tk_expr 3 a ++ T TBarBar (lit "||") :: tk_expr 2 b
    | ERange a b => tk_expr 12 a ++ T TDotDot (lit "..") :: tk_expr 13 b
    | _ => []
    end in
  if Nat.ltb (lvl e) p then T TLeftParen (lit "(") :: body ++ [T TRightParen (lit ")")] else body.

Inductive frag : expr -> Prop :=
| fr_nil : frag ENil | fr_true : frag ETrue | fr_false : frag EFalse
| fr_var : forall x, frag (EVar x)
| fr_str : forall s, frag (EStr s)
| fr_un : forall op a, frag a -> frag (EUnary op a)
| fr_bin : forall op a b, frag a -> frag b -> frag (EBinary op a b)
| fr_and : forall a b, frag a -> frag b -> frag (EAnd a b)
| fr_or : forall a b, frag a -> frag b -> frag (EOr a b)
| fr_range : forall a b, frag a -> frag b -> frag (ERange a b).

Fixpoint nodes (e : expr) : nat :=
  match e with
  | EUnary _ a => S (nodes a)
  | EBinary _ a b | EAnd a b | EOr a b | ERange a b => S (nodes a + nodes b)
  | _ => 1
  end.

(* fuel used along the left spine *)
Fixpoint dspine (e : expr) (p : nat) : nat :=
  if Nat.ltb (lvl e) p then 1 else
  match e with
  | EBinary op a _ => S (dspine a (binop_level op))
  | EAnd a _ => S (dspine a 4)
  | EOr a _ => S (dspine a 3)
  | ERange a _ => S (dspine a 12)
  | _ => 1
  end.

Lemma dspine_le : forall e p, 1 <= dspine e p <= nodes e.
Proof.
  induction e; intros p; cbn [dspine nodes]; destruct (Nat.ltb _ p); try lia;
    match goal with
    | IH : forall p, 1 <= dspine ?a p <= nodes ?a |- context [dspine ?a ?k] => specialize (IH k); lia
    end.
Qed.

(* what may follow an expression printed at level p *)
Definition follow_ok (p : nat) (t : token) : Prop :=
  tk t <> TError /\ tk t <> TEqual /\ assign_op (tk t) = None /\
  tprec t <= p /\ (tprec t = p -> 4 <= p).

Definition last_tok (p : nat) (e : expr) : token := last (tk_expr p e) default_token.

Definition claim (e : expr) (p : nat) : Prop :=
  forall q pv t0 rest g f,
    1 <= prec_index q <= p -> p <= 15 ->
    follow_ok p t0 ->
    f = g + dspine e p -> 4 * nodes e <= f + (if Nat.ltb (lvl e) p then 0 else 2) ->
    r_parse_precedence (R f) q (sstr pv (tk_expr p e ++ t0 :: rest)) =
    K q g e (sst (last_tok p e) t0 rest).

Lemma can_assign_false : forall q, 2 <= prec_index q -> can_assign q = false.
Proof. intros q H. unfold can_assign, prec_leb. apply Nat.leb_gt. cbn. lia. Qed.

(* leaves *)
Lemma claim_var : forall x p, claim (EVar x) p.
Proof.
  intros x p q pv t0 rest g f Hq Hp [F1 [F2 [F3 [F4 F5]]]] Hf Hsz.
  assert (L : Nat.ltb (lvl (EVar x)) p = false) by (apply Nat.ltb_ge; cbn; lia).
  cbn [dspine tk_expr] in *. rewrite L in *. cbn [app sstr].
  subst f. rewrite Nat.add_1_r, R_S.
  unfold step, r_parse_precedence, parse_precedence, bind.
  rewrite advance_sst by exact F1. unfold previous. cbn [p_prev sst].
  change (r_prefix (rules_ref (tk (T TIdentifier x)))) with (Some PVariable).
  unfold prefix, variable, bind, previous. cbn [p_prev sst tsource T].
  unfold named_variable, bind. rewrite resolve_variable_sst.
  assert (E1 : (if prec_leb q PrecAssignment then match_token TEqual else ret false) (sst (T TIdentifier x) t0 rest)
               = POk (false, sst (T TIdentifier x) t0 rest)).
  { destruct (prec_leb q PrecAssignment); [|reflexivity].
    unfold match_token, bind, check. cbn [p_cur sst].
    destruct (tk t0); try reflexivity. contradiction. }
  rewrite E1.
  assert (E2 : (if prec_leb q PrecAssignment then match_binary_assignment else ret None) (sst (T TIdentifier x) t0 rest)
               = POk (None, sst (T TIdentifier x) t0 rest)).
  { destruct (prec_leb q PrecAssignment); [|reflexivity].
    unfold match_binary_assignment, bind, current. cbn [p_cur sst]. rewrite F3. reflexivity. }
  rewrite E2. unfold ret. unfold K, bind, last_tok. cbn [tk_expr]. rewrite L. cbn [last]. reflexivity.
Qed.

Lemma claim_leaf : forall e tok pk,
  lvl e = 15 -> (forall p, p <= 15 -> tk_expr p e = [tok]) -> (forall p, p <= 15 -> dspine e p = 1) ->
  r_prefix (rules_ref (tk tok)) = Some pk ->
  (forall ca r s, p_prev s = tok -> prefix r pk ca s = POk (e, s)) ->
  forall p, claim e p.
Proof.
  intros e tok pk Hl Htk Hd Hpre Hh p q pv t0 rest g f Hq Hp [F1 [F2 [F3 [F4 F5]]]] Hf Hsz.
  rewrite (Htk p Hp), (Hd p Hp) in *. cbn [app sstr].
  subst f. rewrite Nat.add_1_r, R_S.
  unfold step, r_parse_precedence, parse_precedence, bind.
  rewrite advance_sst by exact F1. unfold previous. cbn [p_prev sst].
  rewrite Hpre. rewrite Hh by reflexivity.
  unfold K, bind, last_tok. rewrite (Htk p Hp). cbn [last]. reflexivity.
Qed.

Ltac leaf_tk := intros p Hp; cbn [tk_expr dspine lvl];
  replace (Nat.ltb 15 p) with false by (symmetry; apply Nat.ltb_ge; exact Hp); reflexivity.

Lemma claim_nil : forall p, claim ENil p.
Proof. apply (claim_leaf ENil (T TNil (lit "nil")) PLiteral); try reflexivity; try leaf_tk.
  intros ca r s H. unfold prefix, literal, bind, previous. rewrite H. reflexivity. Qed.
Lemma claim_true : forall p, claim ETrue p.
Proof. apply (claim_leaf ETrue (T TTrue (lit "true")) PLiteral); try reflexivity; try leaf_tk.
  intros ca r s H. unfold prefix, literal, bind, previous. rewrite H. reflexivity. Qed.
Lemma claim_false : forall p, claim EFalse p.
Proof. apply (claim_leaf EFalse (T TFalse (lit "false")) PLiteral); try reflexivity; try leaf_tk.
  intros ca r s H. unfold prefix, literal, bind, previous. rewrite H. reflexivity. Qed.
Lemma claim_str : forall s p, claim (EStr s) p.
Proof. intros s0. apply (claim_leaf (EStr s0) (T TStr s0) PString); try reflexivity; try leaf_tk.
  intros ca r s H. unfold prefix, string_, bind, previous. rewrite H. reflexivity. Qed.

(* first and last tokens *)
Lemma tk_expr_head : forall e, frag e -> forall p, exists c r,
  tk_expr p e = c :: r /\ tk c <> TError /\ tk c <> TRightParen.
Proof.
  induction 1; intros p; cbn [tk_expr];
    (destruct (Nat.ltb _ p);
     [eexists _, _; split; [reflexivity|split; discriminate]|]).
  1-5: eexists _, _; split; [reflexivity|split; discriminate].
  - eexists _, _; split; [reflexivity|]. destruct op; split; discriminate.
  - destruct (IHfrag1 (binop_level op)) as [c [r [E [N1 N2]]]]. rewrite E.
    eexists _, _; split; [reflexivity|split; assumption].
  - destruct (IHfrag1 4) as [c [r [E [N1 N2]]]]. rewrite E.
    eexists _, _; split; [reflexivity|split; assumption].
  - destruct (IHfrag1 3) as [c [r [E [N1 N2]]]]. rewrite E.
    eexists _, _; split; [reflexivity|split; assumption].
  - destruct (IHfrag1 12) as [c [r [E [N1 N2]]]]. rewrite E.
    eexists _, _; split; [reflexivity|split; assumption].
Qed.

Lemma last_cons_ne : forall (A : Type) (y : A) l d, l <> [] -> last (y :: l) d = last l d.
Proof. intros A y l d H. destruct l; [contradiction|reflexivity]. Qed.

Lemma last_app_cons : forall (A : Type) (l : list A) x c r d, last (l ++ x :: c :: r) d = last (c :: r) d.
Proof.
  intros A l x c r d. induction l as [|y l IH].
  - cbn [app]. apply last_cons_ne. discriminate.
  - cbn [app]. rewrite last_cons_ne; [exact IH|]. destruct l; discriminate.
Qed.

Lemma tprec_ne_13 : forall t, tprec t <> 13.
Proof. intros t. unfold tprec. destruct (tk t); cbn; lia. Qed.

Lemma follow_weaken : forall p k t, follow_ok p t -> p <= k -> (p < k \/ k < 4) ->
  follow_ok k t /\ tprec t < k.
Proof.
  intros p k t [F1 [F2 [F3 [F4 F5]]]] Hpk Hk.
  assert (Hlt : tprec t < k).
  { destruct Hk as [Hk|Hk]; [lia|].
    destruct (Nat.eq_dec (tprec t) k) as [E|E]; [|lia].
    assert (p = k) by lia. subst p. specialize (F5 E). lia. }
  split; [|exact Hlt]. repeat split; try assumption; lia.
Qed.

(* binary-like constructs, not parenthesised *)
Lemma claim_binlike : forall a b e p kl kr kop Top hh (C : expr -> expr -> expr) qr,
  claim a kl -> claim b kr -> frag b ->
  p <= kop -> Nat.ltb (lvl e) p = false ->
  tk_expr p e = tk_expr kl a ++ Top :: tk_expr kr b ->
  dspine e p = S (dspine a kl) -> nodes e = S (nodes a + nodes b) ->
  tprec Top = kop -> r_infix (rules_ref (tk Top)) = Some hh ->
  tk Top <> TError -> tk Top <> TEqual -> assign_op (tk Top) = None ->
  prec_index qr = kr -> 2 <= kr -> kr <= 15 -> kl <= 15 ->
  kop <= kl -> (kop = kl -> 4 <= kl) ->
  (kop < kr \/ (kop = kr /\ kr < 4)) ->
  (forall r left ca s, p_prev s = Top ->
     infix rules_ref r hh left ca s = bind (r_parse_precedence r qr) (fun x => ret (C left x)) s) ->
  e = C a b ->
  claim e p.
Proof.
  intros a b e p kl kr kop Top hh C qr Ca Cb Fb Hpk L Htk Hd Hn Hprec Hinf N1 N2 N3 Hqr Hkr2 Hkr15 Hkl15
         Hkl Hkl4 Hr Hh He.
  intros q pv t0 rest g f Hq Hp Hfol Hf Hsz. rewrite L in Hsz.
  pose proof (dspine_le a kl) as Da. pose proof (dspine_le b kr) as Db.
  rewrite Htk, <- app_assoc. cbn [app].
  (* left operand *)
  rewrite (Ca q pv Top (tk_expr kr b ++ t0 :: rest) (S g) f); cycle 1.
  { lia. } { exact Hkl15. }
  { repeat split; try assumption; lia. }
  { lia. }
  { destruct (Nat.ltb (lvl a) kl); lia. }
  (* the operator *)
  destruct (tk_expr_head b Fb kr) as [cb [rb [Eb [Nb1 Nb2]]]].
  unfold K at 1. rewrite R_S. unfold step at 1. cbn [r_infix_loop]. unfold infix_loop at 1, bind at 1 2.
  unfold current at 1. cbn [p_cur sst].
  assert (Hle : prec_leb q (r_prec (rules_ref (tk Top))) = true).
  { unfold prec_leb. apply Nat.leb_le. unfold tprec in Hprec. lia. }
  rewrite Hle. rewrite Eb. cbn [app]. unfold bind at 1. rewrite advance_sst by exact Nb1.
  unfold bind at 1. unfold previous at 1. cbn [p_prev sst]. rewrite Hinf.
  unfold bind at 1. rewrite Hh by reflexivity.
  (* right operand *)
  unfold bind at 1.
  change (sst Top cb (rb ++ t0 :: rest)) with (sstr Top ((cb :: rb) ++ t0 :: rest)). rewrite <- Eb.
  destruct (follow_weaken p kr t0 Hfol) as [Hfol' Hstop]; [lia| lia |].
  destruct Hfol as [F1 [F2 [F3 [F4 F5]]]].
  rewrite (Cb qr Top t0 rest (g - dspine b kr) g); cycle 1.
  { lia. } { exact Hkr15. } { exact Hfol'. }
  { lia. }
  { destruct (Nat.ltb (lvl b) kr); lia. }
  assert (Hg : exists g', g - dspine b kr = S g') by (exists (g - dspine b kr - 1); lia).
  destruct Hg as [g' Hg]. rewrite Hg.
  rewrite K_stop; [|lia|exact F2].
  unfold ret at 1.
  unfold K, bind. unfold last_tok. rewrite Htk, Eb, last_app_cons, <- Eb, He. reflexivity.
Qed.

Lemma frag_lvl_ge_2 : forall e, frag e -> 2 <= lvl e.
Proof. induction 1; cbn [lvl]; try lia. destruct op; cbn; lia. Qed.

Lemma tk_expr_wrapped : forall e p, frag e -> Nat.ltb (lvl e) p = true ->
  tk_expr p e = T TLeftParen (lit "(") :: tk_expr 1 e ++ [T TRightParen (lit ")")].
Proof.
  intros e p F H. pose proof (frag_lvl_ge_2 e F) as L2.
  assert (L1 : Nat.ltb (lvl e) 1 = false) by (apply Nat.ltb_ge; lia).
  destruct F; cbn [tk_expr] in *; rewrite H, L1; reflexivity.
Qed.

Lemma last_snoc : forall (A : Type) (l : list A) x d, last (l ++ [x]) d = x.
Proof. intros. apply last_last. Qed.

Lemma claim_wrapped : forall e p, frag e -> claim e 1 -> Nat.ltb (lvl e) p = true -> claim e p.
Proof.
  intros e p F C1 W q pv t0 rest g f Hq Hp [F1 [F2 [F3 [F4 F5]]]] Hf Hsz.
  pose proof (frag_lvl_ge_2 e F) as L2.
  assert (L1 : Nat.ltb (lvl e) 1 = false) by (apply Nat.ltb_ge; lia).
  rewrite W in Hsz.
  assert (Hd : dspine e p = 1) by (destruct e; cbn [dspine]; rewrite W; reflexivity).
  rewrite Hd in Hf. pose proof (dspine_le e 1) as D1.
  assert (Hn : 1 <= nodes e) by lia.
  rewrite (tk_expr_wrapped e p F W). cbn [app]. rewrite <- app_assoc. cbn [app].
  destruct (tk_expr_head e F 1) as [c1 [r1 [E1 [N1 N2]]]].
  subst f. rewrite Nat.add_1_r, R_S.
  unfold step at 1. cbn [r_parse_precedence]. unfold parse_precedence, bind at 1.
  rewrite E1. cbn [app sstr]. rewrite advance_sst by exact N1.
  unfold bind at 1. unfold previous at 1. cbn [p_prev sst].
  change (r_prefix (rules_ref (tk (T TLeftParen (lit "("))))) with (Some PGrouping).
  unfold bind at 1. unfold prefix, grouping. unfold bind at 1. unfold check at 1. cbn [p_cur sst].
  assert (Erp : tkind_eqb (tk c1) TRightParen = false) by (destruct (tk c1); try reflexivity; contradiction).
  rewrite Erp. unfold bind at 1.
  destruct g as [|g1]; [lia|]. rewrite R_S. unfold step at 1. cbn [r_group_loop].
  unfold group_loop. unfold bind at 1. unfold expression. unfold bind at 1. unfold get at 1. cbn [p_stm sst].
  change (sst (T TLeftParen (lit "(")) c1 (r1 ++ T TRightParen (lit ")") :: t0 :: rest))
    with (sstr (T TLeftParen (lit "(")) ((c1 :: r1) ++ T TRightParen (lit ")") :: t0 :: rest)).
  rewrite <- E1.
  rewrite (C1 PrecAssignment (T TLeftParen (lit "(")) (T TRightParen (lit ")")) (t0 :: rest) (g1 - dspine e 1) g1); cycle 1.
  { cbn. lia. } { lia. }
  { repeat split; try discriminate; cbn; lia. }
  { lia. }
  { rewrite L1. lia. }
  assert (Hg : exists g2, g1 - dspine e 1 = S g2) by (exists (g1 - dspine e 1 - 1); lia).
  destruct Hg as [g2 Hg]. rewrite Hg.
  rewrite K_stop; [|cbn; lia|discriminate].
  cbn [Nat.eqb]. unfold bind at 1. unfold ret at 1. unfold bind at 1.
  unfold match_token at 1. unfold bind at 1. unfold check at 1. cbn [p_cur sst tk T tkind_eqb tkind_index Nat.eqb].
  unfold ret at 1. cbn [negb rev app]. unfold ret at 1.
  unfold consume, bind at 1. unfold check at 1. cbn [p_cur sst tk T tkind_eqb tkind_index Nat.eqb].
  unfold bind at 1. rewrite advance_sst by exact F1. unfold ret at 1.
  unfold K, bind, last_tok. rewrite (tk_expr_wrapped e p F W).
  change (T TLeftParen (lit "(") :: tk_expr 1 e ++ [T TRightParen (lit ")")])
    with ((T TLeftParen (lit "(") :: tk_expr 1 e) ++ [T TRightParen (lit ")")]).
  rewrite last_snoc. reflexivity.
Qed.

Lemma claim_unary : forall op a p, frag a -> claim a 13 -> Nat.ltb (lvl (EUnary op a)) p = false ->
  claim (EUnary op a) p.
Proof.
  intros op a p Fa Ca L q pv t0 rest g f Hq Hp Hfol Hf Hsz.
  rewrite L in Hsz. cbn [lvl] in L. apply Nat.ltb_ge in L.
  pose proof (dspine_le a 13) as Da.
  assert (Hd : dspine (EUnary op a) p = 1).
  { cbn [dspine lvl]. replace (Nat.ltb 13 p) with false by (symmetry; apply Nat.ltb_ge; exact L). reflexivity. }
  rewrite Hd in Hf. cbn [nodes] in Hsz.
  assert (Etk : tk_expr p (EUnary op a) = T (unop_tkind op) (unop_text op) :: tk_expr 13 a).
  { cbn [tk_expr lvl]. replace (Nat.ltb 13 p) with false by (symmetry; apply Nat.ltb_ge; exact L). reflexivity. }
  rewrite Etk. cbn [app].
  destruct (tk_expr_head a Fa 13) as [c1 [r1 [E1 [N1 N2]]]].
  subst f. rewrite Nat.add_1_r, R_S.
  unfold step at 1. cbn [r_parse_precedence]. unfold parse_precedence, bind at 1.
  rewrite E1. cbn [app sstr]. rewrite advance_sst by exact N1.
  unfold bind at 1. unfold previous at 1. cbn [p_prev sst].
  assert (Epre : r_prefix (rules_ref (tk (T (unop_tkind op) (unop_text op)))) = Some PUnary)
    by (destruct op; reflexivity).
  rewrite Epre. unfold bind at 1. unfold prefix, unary. unfold bind at 1. unfold previous at 1. cbn [p_prev sst].
  unfold bind at 1.
  change (sst (T (unop_tkind op) (unop_text op)) c1 (r1 ++ t0 :: rest))
    with (sstr (T (unop_tkind op) (unop_text op)) ((c1 :: r1) ++ t0 :: rest)).
  rewrite <- E1.
  destruct Hfol as [F1 [F2 [F3 [F4 F5]]]].
  rewrite (Ca PrecUnary (T (unop_tkind op) (unop_text op)) t0 rest (g - dspine a 13) g); cycle 1.
  { cbn. lia. } { lia. }
  { repeat split; try assumption; lia. }
  { lia. }
  { destruct (Nat.ltb (lvl a) 13); lia. }
  assert (Hg : exists g2, g - dspine a 13 = S g2) by (exists (g - dspine a 13 - 1); lia).
  destruct Hg as [g2 Hg]. rewrite Hg.
  rewrite K_stop; [|pose proof (tprec_ne_13 t0); cbn; lia|exact F2].
  assert (Eop : unop_of_tkind (tk (T (unop_tkind op) (unop_text op))) = Some op) by (destruct op; reflexivity).
  rewrite Eop. unfold ret at 1.
  unfold K, bind, last_tok. rewrite Etk, E1. rewrite (last_cons_ne _ (T (unop_tkind op) (unop_text op)) (c1 :: r1)) by congruence. reflexivity.
Qed.

Theorem claim_all : forall e, frag e -> forall p, claim e p.
Proof.
  induction 1 as [| | |x|s|op a Fa IHa|op a b Fa IHa Fb IHb|a b Fa IHa Fb IHb|a b Fa IHa Fb IHb|a b Fa IHa Fb IHb];
    intros p.
  - apply claim_nil.
  - apply claim_true.
  - apply claim_false.
  - apply claim_var.
  - apply claim_str.
  - assert (U : forall p, Nat.ltb (lvl (EUnary op a)) p = false -> claim (EUnary op a) p)
      by (intros p' L; apply claim_unary; [exact Fa|apply IHa|exact L]).
    destruct (Nat.ltb (lvl (EUnary op a)) p) eqn:W; [|apply U; exact W].
    apply claim_wrapped; [constructor; exact Fa|apply U; reflexivity|exact W].
  - assert (U : forall p, Nat.ltb (lvl (EBinary op a b)) p = false -> claim (EBinary op a b) p).
    { intros p' L.
      apply (claim_binlike a b (EBinary op a b) p' (binop_level op) (S (binop_level op)) (binop_level op)
               (T (tkind_of_binop op) (binop_text op)) IBinary (EBinary op)
               (prec_succ (r_prec (rules_ref (tkind_of_binop op)))));
        try (apply IHa); try (apply IHb); try exact Fb; try exact L;
        try (cbn [lvl] in L; apply Nat.ltb_ge in L; exact L);
        try (cbn [tk_expr dspine]; rewrite L; reflexivity);
        try reflexivity;
        try (destruct op; cbn; (reflexivity || discriminate || lia)).
      - intros r left ca s Hs. unfold infix, binary, bind, previous. rewrite Hs.
        cbn [tk T]. destruct op; reflexivity. }
    destruct (Nat.ltb (lvl (EBinary op a b)) p) eqn:W; [|apply U; exact W].
    apply claim_wrapped; [constructor; assumption| |exact W].
    apply U. apply Nat.ltb_ge. cbn [lvl]. destruct op; cbn; lia.
  - assert (U : forall p, Nat.ltb (lvl (EAnd a b)) p = false -> claim (EAnd a b) p).
    { intros p' L.
      apply (claim_binlike a b (EAnd a b) p' 4 3 3 (T TAmpAmp (lit "&&")) IAnd EAnd PrecAnd);
        try (apply IHa); try (apply IHb); try exact Fb; try exact L;
        try (cbn [lvl] in L; apply Nat.ltb_ge in L; exact L);
        try (cbn [tk_expr dspine]; rewrite L; reflexivity);
        try reflexivity; try discriminate; try (cbn; lia). }
    destruct (Nat.ltb (lvl (EAnd a b)) p) eqn:W; [|apply U; exact W].
    apply claim_wrapped; [constructor; assumption|apply U; reflexivity|exact W].
  - assert (U : forall p, Nat.ltb (lvl (EOr a b)) p = false -> claim (EOr a b) p).
    { intros p' L.
      apply (claim_binlike a b (EOr a b) p' 3 2 2 (T TBarBar (lit "||")) IOr EOr PrecOr);
        try (apply IHa); try (apply IHb); try exact Fb; try exact L;
        try (cbn [lvl] in L; apply Nat.ltb_ge in L; exact L);
        try (cbn [tk_expr dspine]; rewrite L; reflexivity);
        try reflexivity; try discriminate; try (cbn; lia). }
    destruct (Nat.ltb (lvl (EOr a b)) p) eqn:W; [|apply U; exact W].
    apply claim_wrapped; [constructor; assumption|apply U; reflexivity|exact W].
  - assert (U : forall p, Nat.ltb (lvl (ERange a b)) p = false -> claim (ERange a b) p).
    { intros p' L.
      apply (claim_binlike a b (ERange a b) p' 12 13 12 (T TDotDot (lit "..")) IDotDot ERange PrecUnary);
        try (apply IHa); try (apply IHb); try exact Fb; try exact L;
        try (cbn [lvl] in L; apply Nat.ltb_ge in L; exact L);
        try (cbn [tk_expr dspine]; rewrite L; reflexivity);
        try reflexivity; try discriminate; try (cbn; lia). }
    destruct (Nat.ltb (lvl (ERange a b)) p) eqn:W; [|apply U; exact W].
    apply claim_wrapped; [constructor; assumption|apply U; reflexivity|exact W].
Qed.

Definition eof1 : token := mkToken TEof 1 [].

Lemma nodes_le_tokens : forall e, frag e -> forall p, nodes e <= length (tk_expr p e).
Proof.
  induction 1; intros p; cbn [tk_expr nodes];
    destruct (Nat.ltb _ p);
    repeat match goal with
           | IH : forall p, nodes ?x <= length (tk_expr p ?x) |- context [tk_expr ?k ?x] =>
             specialize (IH k)
           end;
    cbn [length]; rewrite ?app_length; cbn [length]; rewrite ?app_length; cbn [length]; lia.
Qed.

(* pratt_roundtrip at token level, for every expression of the operator fragment (unbounded) *)
Theorem pratt_roundtrip_tokens : forall e, frag e ->
  parse_expr (tk_expr 1 e ++ [eof1]) = POk e.
Proof.
  intros e F. unfold parse_expr, parse_expr_with, run.
  set (toks := tk_expr 1 e ++ [eof1]).
  change (init_pstate toks) with (sst default_token default_token toks).
  destruct (tk_expr_head e F 1) as [c1 [r1 [E1 [N1 N2]]]].
  pose proof (nodes_le_tokens e F 1) as NL. pose proof (dspine_le e 1) as D1.
  assert (Hlen : length toks = S (length (tk_expr 1 e))) by (unfold toks; rewrite app_length; cbn; lia).
  unfold bind at 1. unfold toks at 1. rewrite E1. cbn [app]. rewrite advance_sst by exact N1.
  unfold bind at 1. unfold expression. unfold bind at 1. unfold get at 1. cbn [p_stm sst].
  change (sst default_token c1 (r1 ++ [eof1])) with (sstr default_token ((c1 :: r1) ++ eof1 :: [])).
  rewrite <- E1.
  change (knot rules_ref (default_fuel toks)) with (R (default_fuel toks)).
  pose proof (frag_lvl_ge_2 e F) as L2.
  assert (L1 : Nat.ltb (lvl e) 1 = false) by (apply Nat.ltb_ge; lia).
  rewrite (claim_all e F 1 PrecAssignment default_token eof1 [] (default_fuel toks - dspine e 1) (default_fuel toks)); cycle 1.
  { cbn. lia. } { lia. }
  { repeat split; try discriminate; cbn; lia. }
  { unfold default_fuel. lia. }
  { rewrite L1. unfold default_fuel. lia. }
  assert (Hg : exists g2, default_fuel toks - dspine e 1 = S g2).
  { exists (default_fuel toks - dspine e 1 - 1). unfold default_fuel. lia. }
  destruct Hg as [g2 Hg]. rewrite Hg.
  rewrite K_stop; [|cbn; lia|discriminate].
  unfold bind at 1. unfold consume, bind at 1. unfold check at 1. cbn [p_cur sst tk eof1 tkind_eqb tkind_index Nat.eqb].
  reflexivity.
Qed.

(* ---------- general associativity / precedence lemmas (symbolic names) ---------- *)
Definition id_tok (x : name) : token := T TIdentifier x.
Definition op_tok (o : binop) : token := T (tkind_of_binop o) (binop_text o).

Lemma binop_level_bounds : forall o, 4 <= binop_level o <= 11.
Proof. destruct o; cbn; lia. Qed.

Ltac level_facts op :=
  let H := fresh in pose proof (binop_level_bounds op) as H.

(* same level: left associative *)
Theorem binary_left_assoc : forall op1 op2 x y z,
  binop_level op1 = binop_level op2 ->
  parse_expr [id_tok x; op_tok op1; id_tok y; op_tok op2; id_tok z; eof1] =
  POk (EBinary op2 (EBinary op1 (EVar x) (EVar y)) (EVar z)).
Proof.
  intros op1 op2 x y z H.
  rewrite <- (pratt_roundtrip_tokens (EBinary op2 (EBinary op1 (EVar x) (EVar y)) (EVar z)))
    by (repeat constructor).
  f_equal. pose proof (binop_level_bounds op1). pose proof (binop_level_bounds op2).
  cbn [tk_expr lvl].
  repeat match goal with
         | |- context [Nat.ltb ?a ?b] =>
           first [ replace (Nat.ltb a b) with false by (symmetry; apply Nat.ltb_ge; lia) ]
         end.
  reflexivity.
Qed.

(* higher level on the right: the right operator binds tighter *)
Theorem precedence_order_right : forall op1 op2 x y z,
  binop_level op1 < binop_level op2 ->
  parse_expr [id_tok x; op_tok op1; id_tok y; op_tok op2; id_tok z; eof1] =
  POk (EBinary op1 (EVar x) (EBinary op2 (EVar y) (EVar z))).
Proof.
  intros op1 op2 x y z H.
  rewrite <- (pratt_roundtrip_tokens (EBinary op1 (EVar x) (EBinary op2 (EVar y) (EVar z))))
    by (repeat constructor).
  f_equal. pose proof (binop_level_bounds op1). pose proof (binop_level_bounds op2).
  cbn [tk_expr lvl].
  repeat match goal with
         | |- context [Nat.ltb ?a ?b] =>
           first [ replace (Nat.ltb a b) with false by (symmetry; apply Nat.ltb_ge; lia) ]
         end.
  reflexivity.
Qed.

(* higher level on the left: the left operator binds tighter *)
Theorem precedence_order_left : forall op1 op2 x y z,
  binop_level op2 < binop_level op1 ->
  parse_expr [id_tok x; op_tok op1; id_tok y; op_tok op2; id_tok z; eof1] =
  POk (EBinary op2 (EBinary op1 (EVar x) (EVar y)) (EVar z)).
Proof.
  intros op1 op2 x y z H.
  rewrite <- (pratt_roundtrip_tokens (EBinary op2 (EBinary op1 (EVar x) (EVar y)) (EVar z)))
    by (repeat constructor).
  f_equal. pose proof (binop_level_bounds op1). pose proof (binop_level_bounds op2).
  cbn [tk_expr lvl].
  repeat match goal with
         | |- context [Nat.ltb ?a ?b] =>
           first [ replace (Nat.ltb a b) with false by (symmetry; apply Nat.ltb_ge; lia) ]
         end.
  reflexivity.
Qed.
Print Assumptions pratt_roundtrip_tokens.
Print Assumptions binary_left_assoc.

(* text level: what is missing is the (purely lexical) fact that scanning the printed text gives
   the token sequence tk_expr; it is stated as a hypothesis here and checked on examples *)
Theorem pratt_roundtrip_partial : forall e, frag e ->
  scan_all (pretty_expr e) = tk_expr 1 e ++ [eof1] ->
  parse_expr_source (pretty_expr e) = POk e.
Proof.
  intros e F H. unfold parse_expr_source. rewrite H. apply pratt_roundtrip_tokens. exact F.
Qed.

Example pratt_roundtrip_partial_hyp_ex :
  let a := EVar (lit "a") in let b := EVar (lit "b") in
  let e := EBinary BMul (EBinary BSub a (EUnary UNot b))
                        (EOr (EAnd a (ERange b (EStr (lit "s")))) (EBinary BSub a (EBinary BSub b ENil))) in
  frag e /\ scan_all (pretty_expr e) = tk_expr 1 e ++ [eof1].
Proof. split; [repeat constructor|vm_compute; reflexivity]. Qed.

End Pratt.
