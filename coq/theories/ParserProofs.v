(* Proofs about the parser model (Parser.v), the Pratt table (ParserRules.v) and the pretty
   printer (Pretty.v). *)
From Coq Require Import Strings.Byte Strings.String.
From Coq Require Import List NArith Bool Arith Lia.
From YV Require Import Utf8 Utf8Proofs NumText Ast Scanner ParserRules Parser Pretty ParseRun.
Import ListNotations.
Local Open Scope nat_scope.

(* ------------------------------------------------------------------ *)
(* totality                                                             *)
(* ------------------------------------------------------------------ *)
(* The parser is a total function; its result is one of the three forms. *)
Theorem parse_total : forall toks,
  (exists p, parse_program toks = POk p) \/
  (exists l a m, parse_program toks = PErr l a m) \/
  parse_program toks = POutOfFuel.
Proof.
  intros toks. destruct (parse_program toks) as [p|l a m|].
  - left. exists p. reflexivity.
  - right. left. exists l, a, m. reflexivity.
  - right. right. reflexivity.
Qed.
Print Assumptions parse_total.

Theorem parse_source_total : forall src,
  (exists p, parse_source src = POk p) \/
  (exists l a m, parse_source src = PErr l a m) \/
  parse_source src = POutOfFuel.
Proof. intros src. apply parse_total. Qed.

(* The table has one entry per token kind, and every kind with a precedence has an infix
   function (so `infix_rule.unwrap()` never panics). *)
Theorem rules_table_complete : length rules_table = length all_tkinds.
Proof. reflexivity. Qed.

Theorem rules_infix_total : forall k,
  r_prec (rules_ref k) <> PrecNone -> r_infix (rules_ref k) <> None.
Proof. intros k. destruct k; vm_compute; congruence. Qed.
Print Assumptions rules_infix_total.

(* ------------------------------------------------------------------ *)
(* precedence and associativity: examples                               *)
(* ------------------------------------------------------------------ *)
Definition pe (s : string) : presult expr := parse_expr_source (list_byte_of_string s).
Definition v (s : string) : expr := EVar (list_byte_of_string s).

(* a - b - c = (a - b) - c *)
Example binary_left_assoc_ex :
  pe "a - b - c" = POk (EBinary BSub (EBinary BSub (v "a") (v "b")) (v "c")).
Proof. vm_compute. reflexivity. Qed.

(* a + b * c = a + (b * c) ;  a * b + c = (a * b) + c *)
Example precedence_order_ex1 :
  pe "a + b * c" = POk (EBinary BAdd (v "a") (EBinary BMul (v "b") (v "c"))).
Proof. vm_compute. reflexivity. Qed.
Example precedence_order_ex2 :
  pe "a * b + c" = POk (EBinary BAdd (EBinary BMul (v "a") (v "b")) (v "c")).
Proof. vm_compute. reflexivity. Qed.

(* Range binds tighter than every binary operator: a..b+1 = (a..b)+1, and its right operand is
   parsed at Unary precedence: a..-b = a..(-b), a..b.c = a..(b.c) *)
Example range_ex1 : pe "a..b+c" = POk (EBinary BAdd (ERange (v "a") (v "b")) (v "c")).
Proof. vm_compute. reflexivity. Qed.
Example range_ex1' : pe "a..b+1" = pe "(a..b)+1".
Proof. vm_compute. reflexivity. Qed.
Example range_ex2 : pe "a+1..b" = pe "a+(1..b)". Proof. vm_compute. reflexivity. Qed.
Example range_ex3 : pe "a..-b" = POk (ERange (v "a") (EUnary UNeg (v "b"))).
Proof. vm_compute. reflexivity. Qed.
Example range_ex4 : pe "a..b.c" = POk (ERange (v "a") (EGet (v "b") (list_byte_of_string "c"))).
Proof. vm_compute. reflexivity. Qed.
Example range_left_assoc : pe "a..b..c" = POk (ERange (ERange (v "a") (v "b")) (v "c")).
Proof. vm_compute. reflexivity. Qed.

(* && and || parse their right operand at their OWN level: they associate to the right *)
Example and_right_assoc : pe "a && b && c" = POk (EAnd (v "a") (EAnd (v "b") (v "c"))).
Proof. vm_compute. reflexivity. Qed.
Example or_and : pe "a || b && c || d" = POk (EOr (v "a") (EOr (EAnd (v "b") (v "c")) (v "d"))).
Proof. vm_compute. reflexivity. Qed.

(* unary binds tighter than binary, looser than call/property/index *)
Example unary_ex1 : pe "-a.b" = POk (EUnary UNeg (EGet (v "a") (list_byte_of_string "b"))).
Proof. vm_compute. reflexivity. Qed.
Example unary_ex2 : pe "!a == b" = POk (EBinary BEq (EUnary UNot (v "a")) (v "b")).
Proof. vm_compute. reflexivity. Qed.

(* the whole ladder, lowest to highest *)
Example ladder :
  pe "a || b && c == d < e | f ^ g & h << i + j * k .. l" =
  POk (EOr (v "a") (EAnd (v "b") (EBinary BEq (v "c") (EBinary BLt (v "d")
       (EBinary BBitOr (v "e") (EBinary BBitXor (v "f") (EBinary BBitAnd (v "g")
        (EBinary BShl (v "h") (EBinary BAdd (v "i") (EBinary BMul (v "j")
         (ERange (v "k") (v "l")))))))))))).
Proof. vm_compute. reflexivity. Qed.

(* assignment: right associative, only at Assignment precedence *)
Example assign_ex1 : pe "a = b = c" = POk (EAssign (list_byte_of_string "a") (EAssign (list_byte_of_string "b") (v "c"))).
Proof. vm_compute. reflexivity. Qed.
Example assign_ex2 : pe "a + b = c" = PErr 1 (AtToken (list_byte_of_string "=")) "Invalid assignment target.".
Proof. vm_compute. reflexivity. Qed.
(* compound assignment: the operand is parsed at BitwiseOr precedence, the rest continues the
   enclosing expression: x += 1 == 2 is (x += 1) == 2 *)
Example compound_ex1 :
  pe "x += 1 == 2" = pe "(x += 1) == 2".
Proof. vm_compute. reflexivity. Qed.
Example compound_ex2 :
  pe "x += (n = 3)" = PErr 1 (AtToken (list_byte_of_string "=")) "Expected ')' after expression.".
Proof. vm_compute. reflexivity. Qed.

(* ------------------------------------------------------------------ *)
(* pratt_roundtrip, bounded-exhaustive version (text level):            *)
(* scan + parse of pretty_expr e gives back e                           *)
(* ------------------------------------------------------------------ *)
(* A first-order copy of the expression fragment (no nested lists), so that equality is decidable
   by a simple structural function. *)
Inductive fexpr :=
| FNil | FTrue | FFalse | FSelfless
| FVar (n : nat)
| FUn (op : unop) (a : fexpr)
| FBin (op : binop) (a b : fexpr)
| FAnd (a b : fexpr) | FOr (a b : fexpr) | FRange (a b : fexpr)
| FCall0 (f : fexpr) | FCall1 (f a : fexpr) | FCall2 (f a b : fexpr)
| FGet (o : fexpr) (m : nat)
| FIndex (o i : fexpr)
| FTuple0 | FTuple1 (a : fexpr) | FTuple2 (a b : fexpr)
| FVec0 | FVec1 (a : fexpr) | FVec2 (a b : fexpr)
| FAssign (x : nat) (a : fexpr)
| FLam (x : nat) (a : fexpr).

Definition fname (n : nat) : name :=
  list_byte_of_string (match n with 0 => "a" | 1 => "b" | 2 => "m" | 3 => "x" | 4 => "c" | 5 => "d" | _ => "zz" end).

Definition unname (x : name) : option nat :=
  (fix go (k : nat) (cands : list nat) : option nat :=
     match cands with
     | [] => None
     | n :: r => if bytes_eqb x (fname n) then Some n else go k r
     end) 0 [0; 1; 2; 3; 4; 5; 6].

Fixpoint embed (f : fexpr) : expr :=
  match f with
  | FNil => ENil | FTrue => ETrue | FFalse => EFalse | FSelfless => ETuple []
  | FVar n => EVar (fname n)
  | FUn op a => EUnary op (embed a)
  | FBin op a b => EBinary op (embed a) (embed b)
  | FAnd a b => EAnd (embed a) (embed b)
  | FOr a b => EOr (embed a) (embed b)
  | FRange a b => ERange (embed a) (embed b)
  | FCall0 f => ECall (embed f) []
  | FCall1 f a => ECall (embed f) [embed a]
  | FCall2 f a b => ECall (embed f) [embed a; embed b]
  | FGet o m => EGet (embed o) (fname m)
  | FIndex o i => EIndex (embed o) (embed i)
  | FTuple0 => ETuple []
  | FTuple1 a => ETuple [embed a]
  | FTuple2 a b => ETuple [embed a; embed b]
  | FVec0 => EVec []
  | FVec1 a => EVec [embed a]
  | FVec2 a b => EVec [embed a; embed b]
  | FAssign x a => EAssign (fname x) (embed a)
  | FLam x a => ELambda [fname x] (LExpr (embed a))
  end.

Definition unop_eqb (a b : unop) : bool :=
  match a, b with UNeg, UNeg | UNot, UNot | UBitNot, UBitNot => true | _, _ => false end.
Definition binop_idx (o : binop) : nat :=
  match o with
  | BAdd => 0 | BSub => 1 | BMul => 2 | BDiv => 3 | BMod => 4 | BEq => 5 | BNe => 6 | BLt => 7
  | BLe => 8 | BGt => 9 | BGe => 10 | BBitAnd => 11 | BBitOr => 12 | BBitXor => 13 | BShl => 14
  | BShr => 15
  end.
Definition binop_eqb (a b : binop) : bool := Nat.eqb (binop_idx a) (binop_idx b).

Lemma unop_eqb_eq : forall a b, unop_eqb a b = true -> a = b.
Proof. intros [] []; cbn; congruence. Qed.
Lemma binop_eqb_eq : forall a b, binop_eqb a b = true -> a = b.
Proof. intros [] []; cbn; congruence. Qed.

(* decidable equality of an AST with the embedding of an fexpr *)
Fixpoint matches (f : fexpr) (e : expr) {struct f} : bool :=
  match f, e with
  | FNil, ENil | FTrue, ETrue | FFalse, EFalse => true
  | FSelfless, ETuple [] => true
  | FVar n, EVar x => bytes_eqb x (fname n)
  | FUn op a, EUnary op' a' => unop_eqb op op' && matches a a'
  | FBin op a b, EBinary op' a' b' => binop_eqb op op' && matches a a' && matches b b'
  | FAnd a b, EAnd a' b' => matches a a' && matches b b'
  | FOr a b, EOr a' b' => matches a a' && matches b b'
  | FRange a b, ERange a' b' => matches a a' && matches b b'
  | FCall0 f, ECall f' [] => matches f f'
  | FCall1 f a, ECall f' [a'] => matches f f' && matches a a'
  | FCall2 f a b, ECall f' [a'; b'] => matches f f' && matches a a' && matches b b'
  | FGet o m, EGet o' m' => matches o o' && bytes_eqb m' (fname m)
  | FIndex o i, EIndex o' i' => matches o o' && matches i i'
  | FTuple0, ETuple [] => true
  | FTuple1 a, ETuple [a'] => matches a a'
  | FTuple2 a b, ETuple [a'; b'] => matches a a' && matches b b'
  | FVec0, EVec [] => true
  | FVec1 a, EVec [a'] => matches a a'
  | FVec2 a b, EVec [a'; b'] => matches a a' && matches b b'
  | FAssign x a, EAssign x' a' => bytes_eqb x' (fname x) && matches a a'
  | FLam x a, ELambda [x'] (LExpr a') => bytes_eqb x' (fname x) && matches a a'
  | _, _ => false
  end.

Ltac bsplit :=
  repeat match goal with
         | H : _ && _ = true |- _ => apply andb_prop in H; destruct H
         end.

Lemma matches_sound : forall f e, matches f e = true -> e = embed f.
Proof.
  induction f; intros e H; destruct e; cbn [matches] in H; try discriminate;
    repeat match goal with
           | H : match ?l with _ => _ end = true |- _ => destruct l; try discriminate
           end;
    bsplit; cbn [embed];
    repeat match goal with
           | H : bytes_eqb _ _ = true |- _ => apply bytes_eqb_eq in H; subst
           | H : unop_eqb _ _ = true |- _ => apply unop_eqb_eq in H; subst
           | H : binop_eqb _ _ = true |- _ => apply binop_eqb_eq in H; subst
           | IH : forall e, matches ?f e = true -> e = embed ?f, H : matches ?f _ = true |- _ =>
             apply IH in H; subst
           end; reflexivity.
Qed.

Definition roundtrips (f : fexpr) : bool :=
  match parse_expr_source (pretty_expr (embed f)) with
  | POk e => matches f e
  | _ => false
  end.

Lemma roundtrips_sound : forall f, roundtrips f = true ->
  parse_expr_source (pretty_expr (embed f)) = POk (embed f).
Proof.
  intros f H. unfold roundtrips in H.
  destruct (parse_expr_source (pretty_expr (embed f))) as [e| |]; try discriminate.
  apply matches_sound in H. congruence.
Qed.

(* ---------- the enumeration ---------- *)
Definition all_binops : list binop :=
  [BAdd; BSub; BMul; BDiv; BMod; BEq; BNe; BLt; BLe; BGt; BGe; BBitAnd; BBitOr; BBitXor; BShl; BShr].

Definition un_ctors : list (fexpr -> fexpr) :=
  [FUn UNeg; FUn UNot; FUn UBitNot; FCall0; (fun o => FGet o 2); FTuple1; FVec1; FAssign 3; FLam 3].
Definition bin_ctors : list (fexpr -> fexpr -> fexpr) :=
  map FBin all_binops ++ [FAnd; FOr; FRange; FCall1; FIndex; FTuple2; FVec2].

(* all expressions of depth <= 1 over the leaf x *)
Definition depth1 (x : fexpr) : list fexpr :=
  x :: map (fun c => c x) un_ctors ++ map (fun c => c x x) bin_ctors.

(* every constructor applied to all combinations of depth-<=1 operands (leaves a / b tell the
   operand positions apart): 9*33 + 23*33*33 = 25344 expressions of depth <= 2 *)
Definition depth2 : list fexpr :=
  flat_map (fun c => map c (depth1 (FVar 0))) un_ctors ++
  flat_map (fun c => flat_map (fun l => map (c l) (depth1 (FVar 1))) (depth1 (FVar 0))) bin_ctors.

(* left and right spines of three binary constructors: 2 * 23^3 = 24334 expressions of depth 3 *)
Definition spines : list fexpr :=
  flat_map (fun c1 => flat_map (fun c2 => flat_map (fun c3 =>
    [c1 (c2 (c3 (FVar 0) (FVar 1)) (FVar 4)) (FVar 5);
     c1 (FVar 0) (c2 (FVar 1) (c3 (FVar 4) (FVar 5)))]) bin_ctors) bin_ctors) bin_ctors.

(* unary constructors between two binary ones (both sides), and ternary calls *)
Definition mixed : list fexpr :=
  flat_map (fun c1 => flat_map (fun u => flat_map (fun c2 =>
    [c1 (u (c2 (FVar 0) (FVar 1))) (FVar 4); c1 (FVar 0) (u (c2 (FVar 1) (FVar 4)))])
    bin_ctors) un_ctors) bin_ctors ++
  flat_map (fun x => flat_map (fun y => [FCall2 x y (FVar 4); FCall2 (FVar 0) x y])
    (depth1 (FVar 1))) (depth1 (FVar 0)).

Theorem pratt_roundtrip_depth2 : forallb roundtrips depth2 = true.
Proof. vm_compute. reflexivity. Qed.
Theorem pratt_roundtrip_spines : forallb roundtrips spines = true.
Proof. vm_compute. reflexivity. Qed.
Theorem pratt_roundtrip_mixed : forallb roundtrips mixed = true.
Proof. vm_compute. reflexivity. Qed.

(* pratt_roundtrip, bounded: for every expression of the three families above (50k+ expressions,
   all parent/child and grandparent combinations of the operators of the fragment),
   parse (scan (pretty e)) = e. *)
Theorem pratt_roundtrip_bounded : forall f,
  In f (depth2 ++ spines ++ mixed) ->
  parse_expr_source (pretty_expr (embed f)) = POk (embed f).
Proof.
  intros f H. apply roundtrips_sound.
  apply in_app_or in H. destruct H as [H|H].
  - pose proof pratt_roundtrip_depth2 as Q. rewrite forallb_forall in Q. apply Q. exact H.
  - apply in_app_or in H. destruct H as [H|H].
    + pose proof pratt_roundtrip_spines as Q. rewrite forallb_forall in Q. apply Q. exact H.
    + pose proof pratt_roundtrip_mixed as Q. rewrite forallb_forall in Q. apply Q. exact H.
Qed.
Print Assumptions pratt_roundtrip_bounded.

Example enumeration_sizes : (length depth2, length spines, length mixed) = (25344, 24334, 11700).
Proof. vm_compute. reflexivity. Qed.
