(* The Pratt table of /repo/yarel/src/compiler.rs (`const RULES: [ParseRule; 72]`), one entry per
   token kind in the order of `enum TokenKind`.  DEFINITIONS ONLY.  `rules_table` is meant to be
   regenerated mechanically from the Rust array. *)
From Coq Require Import List Arith.
From YV Require Import Scanner.
Import ListNotations.

(* enum Precedence, in order *)
Inductive precedence :=
| PrecNone | PrecAssignment | PrecOr | PrecAnd | PrecEquality | PrecComparison
| PrecBitwiseOr | PrecBitwiseXor | PrecBitwiseAnd | PrecBitShift | PrecTerm | PrecFactor
| PrecRange | PrecUnary | PrecCall | PrecPrimary.

(* `precedence as usize` *)
Definition prec_index (p : precedence) : nat :=
  match p with
  | PrecNone => 0 | PrecAssignment => 1 | PrecOr => 2 | PrecAnd => 3 | PrecEquality => 4
  | PrecComparison => 5 | PrecBitwiseOr => 6 | PrecBitwiseXor => 7 | PrecBitwiseAnd => 8
  | PrecBitShift => 9 | PrecTerm => 10 | PrecFactor => 11 | PrecRange => 12 | PrecUnary => 13
  | PrecCall => 14 | PrecPrimary => 15
  end.

(* `Precedence::from(p as usize + 1)`; the Rust code panics for Primary + 1 (never reached) *)
Definition prec_succ (p : precedence) : precedence :=
  match p with
  | PrecNone => PrecAssignment | PrecAssignment => PrecOr | PrecOr => PrecAnd
  | PrecAnd => PrecEquality | PrecEquality => PrecComparison | PrecComparison => PrecBitwiseOr
  | PrecBitwiseOr => PrecBitwiseXor | PrecBitwiseXor => PrecBitwiseAnd
  | PrecBitwiseAnd => PrecBitShift | PrecBitShift => PrecTerm | PrecTerm => PrecFactor
  | PrecFactor => PrecRange | PrecRange => PrecUnary | PrecUnary => PrecCall
  | PrecCall => PrecPrimary | PrecPrimary => PrecPrimary
  end.

Definition prec_leb (a b : precedence) : bool := Nat.leb (prec_index a) (prec_index b).

(* the functions that occur in the `prefix` column *)
Inductive prefix_rule :=
| PGrouping | PHashMap | PVector | PUnary | PLambda | PVariable | PString | PInterpolation
| PNumber | PCapSelf | PLiteral | PSelf | PSuper.

(* the functions that occur in the `infix` column *)
Inductive infix_rule := ICall | IIndex | IDot | IDotDot | IBinary | IAnd | IOr.

Record rule := mkRule { r_prefix : option prefix_rule; r_infix : option infix_rule; r_prec : precedence }.

Definition rule_none : rule := mkRule None None PrecNone.

Definition rules_table : list rule := [
  (* LeftParen            *) mkRule (Some PGrouping) (Some ICall) PrecCall;
  (* RightParen           *) mkRule (None) (None) PrecNone;
  (* LeftBrace            *) mkRule (Some PHashMap) (None) PrecNone;
  (* RightBrace           *) mkRule (None) (None) PrecNone;
  (* LeftBracket          *) mkRule (Some PVector) (Some IIndex) PrecCall;
  (* RightBracket         *) mkRule (None) (None) PrecNone;
  (* Comma                *) mkRule (None) (None) PrecNone;
  (* Dot                  *) mkRule (None) (Some IDot) PrecCall;
  (* DotDot               *) mkRule (None) (Some IDotDot) PrecRange;
  (* Minus                *) mkRule (Some PUnary) (Some IBinary) PrecTerm;
  (* MinusEqual           *) mkRule (None) (None) PrecNone;
  (* Plus                 *) mkRule (None) (Some IBinary) PrecTerm;
  (* PlusEqual            *) mkRule (None) (None) PrecNone;
  (* Colon                *) mkRule (None) (None) PrecNone;
  (* SemiColon            *) mkRule (None) (None) PrecNone;
  (* Slash                *) mkRule (None) (Some IBinary) PrecFactor;
  (* SlashEqual           *) mkRule (None) (None) PrecNone;
  (* Star                 *) mkRule (None) (Some IBinary) PrecFactor;
  (* StarEqual            *) mkRule (None) (None) PrecNone;
  (* Bang                 *) mkRule (Some PUnary) (None) PrecNone;
  (* BangEqual            *) mkRule (None) (Some IBinary) PrecEquality;
  (* Equal                *) mkRule (None) (None) PrecNone;
  (* EqualEqual           *) mkRule (None) (Some IBinary) PrecEquality;
  (* Greater              *) mkRule (None) (Some IBinary) PrecComparison;
  (* GreaterEqual         *) mkRule (None) (Some IBinary) PrecComparison;
  (* Less                 *) mkRule (None) (Some IBinary) PrecComparison;
  (* LessEqual            *) mkRule (None) (Some IBinary) PrecComparison;
  (* Amp                  *) mkRule (None) (Some IBinary) PrecBitwiseAnd;
  (* AmpEqual             *) mkRule (None) (None) PrecNone;
  (* Bar                  *) mkRule (Some PLambda) (Some IBinary) PrecBitwiseOr;
  (* BarEqual             *) mkRule (None) (None) PrecNone;
  (* Caret                *) mkRule (None) (Some IBinary) PrecBitwiseXor;
  (* CaretEqual           *) mkRule (None) (None) PrecNone;
  (* Percent              *) mkRule (None) (Some IBinary) PrecFactor;
  (* PercentEqual         *) mkRule (None) (None) PrecNone;
  (* GreaterGreater       *) mkRule (None) (Some IBinary) PrecBitShift;
  (* GreaterGreaterEqual  *) mkRule (None) (None) PrecNone;
  (* LessLess             *) mkRule (None) (Some IBinary) PrecBitShift;
  (* LessLessEqual        *) mkRule (None) (None) PrecNone;
  (* AmpAmp               *) mkRule (None) (Some IAnd) PrecAnd;
  (* BarBar               *) mkRule (Some PLambda) (Some IOr) PrecOr;
  (* Tilde                *) mkRule (Some PUnary) (None) PrecNone;
  (* Hash                 *) mkRule (None) (None) PrecNone;
  (* Identifier           *) mkRule (Some PVariable) (None) PrecNone;
  (* Str                  *) mkRule (Some PString) (None) PrecNone;
  (* Interpolation        *) mkRule (Some PInterpolation) (None) PrecNone;
  (* Number               *) mkRule (Some PNumber) (None) PrecNone;
  (* CapSelf              *) mkRule (Some PCapSelf) (None) PrecNone;
  (* Catch                *) mkRule (None) (None) PrecNone;
  (* Class                *) mkRule (None) (None) PrecNone;
  (* Else                 *) mkRule (None) (None) PrecNone;
  (* False                *) mkRule (Some PLiteral) (None) PrecNone;
  (* Finally              *) mkRule (None) (None) PrecNone;
  (* For                  *) mkRule (None) (None) PrecNone;
  (* Fn                   *) mkRule (None) (None) PrecNone;
  (* If                   *) mkRule (None) (None) PrecNone;
  (* Import               *) mkRule (None) (None) PrecNone;
  (* As                   *) mkRule (None) (None) PrecNone;
  (* In                   *) mkRule (None) (None) PrecNone;
  (* Nil                  *) mkRule (Some PLiteral) (None) PrecNone;
  (* Return               *) mkRule (None) (None) PrecNone;
  (* Self                 *) mkRule (Some PSelf) (None) PrecNone;
  (* Super                *) mkRule (Some PSuper) (None) PrecNone;
  (* Break                *) mkRule (None) (None) PrecNone;
  (* Continue             *) mkRule (None) (None) PrecNone;
  (* Throw                *) mkRule (None) (None) PrecNone;
  (* True                 *) mkRule (Some PLiteral) (None) PrecNone;
  (* Try                  *) mkRule (None) (None) PrecNone;
  (* Var                  *) mkRule (None) (None) PrecNone;
  (* While                *) mkRule (None) (None) PrecNone;
  (* Error                *) mkRule (None) (None) PrecNone;
  (* Eof                  *) mkRule (None) (None) PrecNone
].

(* fn get_rule(kind) = &RULES[kind as usize] *)
Definition rules_ref (k : tkind) : rule := nth (tkind_index k) rules_table rule_none.
