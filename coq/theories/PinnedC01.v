(* PinnedC01.v -- the AUDITED table of untraced-but-pinned roles used by props/C01.v, replacing
   HeapTablesRef.pinned_ref (which exempted (KClosure, RModule) on the ground "modules live in
   Vm.modules forever"; false since 367eb72: vm.rs import removes a module whose first load failed
   and loads it afresh, and Vm::reset drops every module but "main").  Definitions only.

   An entry is justified only if NO code path can remove the other holder while the referring box is
   alive.  Audit of 2026-09-26 against /repo 342604d; removal paths looked at: Vm::reset (vm.rs:410),
   module reload after a failed import (vm.rs:1299), range-cache eviction (vm.rs build_range),
   intern table (ObjStringStore: get / insert / grow only, no remove, no sweep), class_store
   (assigned in init_heap_allocated_data only), fiber.caller.take (reset_stack), upvalue close. *)
From Coq Require Import List NArith Bool.
From YV Require Import Heap HeapTablesRef.
Import ListNotations.

Definition pinned_audit (k : kind) (r : role) : bool :=
  match k, r with
  (* Gc<ObjString> fields.  Every ObjString is created by Vm::new_gc_obj_string, which stores a
     Root<ObjString> in Vm.string_store; ObjStringStore has no removal (Vm::reset does not touch it).
     Load-bearing (not traced by mark): *)
  | KFunction, RModulePath | KNative, RName | KClass, RName | KModule, RPath => true
  (* ... and string KEYS of the three name maps (traced as well since a563c74; kept because the
     justification is independent of that): *)
  | KClass, RMethodName | KInstance, RFieldName | KModule, RAttrName => true
  (* ObjString.class = Vm.string_class : Option<Root<ObjClass>>, set once in init_heap_allocated_data *)
  | KString, RClass => true
  (* `class` of iterators, modules, fibers: core classes held as Root<ObjClass> by Vm.class_store,
     assigned only in init_heap_allocated_data; Vm::reset keeps it *)
  | KStringIter, RClass | KVecIter, RClass | KTupleIter, RClass | KRangeIter, RClass
  | KModule, RClass | KFiber, RClass => true
  (* Chunk.constant_map keys are exactly the elements of Chunk.constants (add_constant inserts into both,
     nothing removes from either), and `mark` follows constants *)
  | KChunk, RConstKey => true
  (* NOT pinned: (KClosure, RModule) -- see the header.  The range cache is not in this table either:
     ObjRangeIter.iterable is traced. *)
  | _, _ => false
  end.

(* the tables as they were before a repair: the generated table with one pair switched off *)
Definition without_pair (t : kind -> role -> bool) (k0 : kind) (r0 : role) (k : kind) (r : role) : bool :=
  t k r && negb (kind_eqb k k0 && role_eqb r r0).
