(* Pretty printer: Ast -> source text, inverse of scan + parse on the image of the parser.
   DEFINITIONS ONLY.

   * Parentheses are inserted exactly where the Pratt table (ParserRules.rules_ref) requires them:
     every expression form has a level (`lvl`), every operand position a required level, and an
     operand is parenthesised iff its level is lower than required.  Two extra cases are not about
     precedence: the callee of ECall is parenthesised when it is `o.m` / `super.m` (otherwise the
     text would read back as EInvoke / ESuperCall), and an expression statement or an expression
     lambda body whose text starts with '{' is parenthesised (it would read back as a block).
   * Statements carry the line of their first token.  The printer threads the current line and
     emits newlines in front of a statement until its recorded line is reached; a statement whose
     recorded line is the current line stays on the line; a statement whose recorded line is smaller
     (synthetic ASTs) starts on a fresh line.  So ASTs produced by the parser are reproduced
     exactly, and synthetic ASTs are printed one statement per line.  Newlines inside string
     literals are printed as the escape \n. *)
From Coq Require Import Strings.Byte Strings.String.
From Coq Require Import List NArith Bool Arith.
From YV Require Import Utf8 NumText Ast Scanner Parser.
Import ListNotations.

Definition lit (s : string) : list byte := list_byte_of_string s.

(* ---------- levels (= ParserRules.prec_index of the construct) ---------- *)
Definition binop_level (o : binop) : nat :=
  match o with
  | BEq | BNe => 4
  | BLt | BLe | BGt | BGe => 5
  | BBitOr => 6
  | BBitXor => 7
  | BBitAnd => 8
  | BShl | BShr => 9
  | BAdd | BSub => 10
  | BMul | BDiv | BMod => 11
  end.

Definition binop_text (o : binop) : list byte :=
  lit (match o with
       | BAdd => "+" | BSub => "-" | BMul => "*" | BDiv => "/" | BMod => "%"
       | BEq => "==" | BNe => "!=" | BLt => "<" | BLe => "<=" | BGt => ">" | BGe => ">="
       | BBitAnd => "&" | BBitOr => "|" | BBitXor => "^" | BShl => "<<" | BShr => ">>"
       end).

Definition unop_text (o : unop) : list byte :=
  lit (match o with UNeg => "-" | UNot => "!" | UBitNot => "~" end).

Definition lvl (e : expr) : nat :=
  match e with
  | EAssign _ _ | ECompound _ _ _ | ESet _ _ _ | ESetCompound _ _ _ _ | ESetIndex _ _ _ => 1
  | ELambda _ (LExpr _) => 1          (* the body extends as far to the right as possible *)
  | EOr _ _ => 2
  | EAnd _ _ => 3
  | EBinary o _ _ => binop_level o
  | ERange _ _ => 12
  | EUnary _ _ => 13
  | ECall _ _ | EGet _ _ | EInvoke _ _ _ | EIndex _ _ => 14
  | _ => 15
  end.

(* ---------- string literals ---------- *)
Fixpoint escape_str (s : list byte) : list byte :=
  match s with
  | [] => []
  | b :: r =>
    (if Byte.eqb b """" then lit "\""" else
     if Byte.eqb b "\" then lit "\\" else
     if Byte.eqb b "$" then lit "\$" else
     if Byte.eqb b "010" then lit "\n" else [b]) ++ escape_str r
  end.

Definition quote_str (s : list byte) : list byte := lit """" ++ escape_str s ++ lit """".

Fixpoint sep_names (l : list name) : list byte :=
  match l with
  | [] => []
  | [x] => x
  | x :: r => x ++ lit ", " ++ sep_names r
  end.

Definition starts_with_brace (l : list byte) : bool :=
  match l with b :: _ => Byte.eqb b "{" | [] => false end.

Definition parens (l : list byte) : list byte := lit "(" ++ l ++ lit ")".

Fixpoint newlines (n : nat) : list byte :=
  match n with O => [] | S k => "010"%byte :: newlines k end.

(* move to the line `l` of the next statement *)
Definition goto_line (first : bool) (l ln : N) : list byte * N :=
  if N.ltb ln l then (newlines (N.to_nat (l - ln)), l)
  else if N.eqb ln l then ((if first then [] else lit " "), ln)
  else (newlines 1, (ln + 1)%N).

(* p = required level of the position; ln = current line; result = (text, line afterwards) *)
Fixpoint pp_expr (p : nat) (e : expr) (ln : N) {struct e} : list byte * N :=
  let pp_list := fix go (l : list expr) (ln : N) {struct l} : list byte * N :=
    match l with
    | [] => ([], ln)
    | [x] => pp_expr 1 x ln
    | x :: r => let '(a, ln1) := pp_expr 1 x ln in
                let '(b, ln2) := go r ln1 in (a ++ lit ", " ++ b, ln2)
    end in
  let pp_block := fix go (first : bool) (l : list stmt) (ln : N) {struct l} : list byte * N :=
    match l with
    | [] => ([], ln)
    | s :: r => let '(a, ln1) := pp_stmt first s ln in
                let '(b, ln2) := go false r ln1 in (a ++ b, ln2)
    end in
  let '(body, ln') :=
    match e with
    | ENil => (lit "nil", ln)
    | ETrue => (lit "true", ln)
    | EFalse => (lit "false", ln)
    | ENum x => (print_f64 x, ln)
    | EStr s => (quote_str s, ln)
    | EInterp parts =>
      let '(b, ln1) :=
        (fix go (l : list interp_part) (ln : N) {struct l} : list byte * N :=
           match l with
           | [] => ([], ln)
           | IPStr s :: r => let '(b, ln1) := go r ln in (escape_str s ++ b, ln1)
           | IPExpr x :: r => let '(a, ln1) := pp_expr 1 x ln in
                              let '(b, ln2) := go r ln1 in (lit "${" ++ a ++ lit "}" ++ b, ln2)
           end) parts ln in
      (lit """" ++ b ++ lit """", ln1)
    | EVar x => (x, ln)
    | ESelf => (lit "self", ln)
    | ECapSelf => (lit "Self", ln)
    | ESuperGet m => (lit "super." ++ m, ln)
    | ESuperCall m args => let '(a, ln1) := pp_list args ln in (lit "super." ++ m ++ parens a, ln1)
    | EAssign x e1 => let '(a, ln1) := pp_expr 1 e1 ln in (x ++ lit " = " ++ a, ln1)
    | ECompound x op e1 =>
      let '(a, ln1) := pp_expr 6 e1 ln in (x ++ lit " " ++ binop_text op ++ lit "= " ++ a, ln1)
    | EUnary op e1 => let '(a, ln1) := pp_expr 13 e1 ln in (unop_text op ++ a, ln1)
    | EBinary op a b =>
      let '(x, ln1) := pp_expr (binop_level op) a ln in
      let '(y, ln2) := pp_expr (S (binop_level op)) b ln1 in
      (x ++ lit " " ++ binop_text op ++ lit " " ++ y, ln2)
    | EAnd a b =>
      let '(x, ln1) := pp_expr 4 a ln in
      let '(y, ln2) := pp_expr 3 b ln1 in (x ++ lit " && " ++ y, ln2)
    | EOr a b =>
      let '(x, ln1) := pp_expr 3 a ln in
      let '(y, ln2) := pp_expr 2 b ln1 in (x ++ lit " || " ++ y, ln2)
    | ERange a b =>
      let '(x, ln1) := pp_expr 12 a ln in
      let '(y, ln2) := pp_expr 13 b ln1 in (x ++ lit " .. " ++ y, ln2)
    | ECall f args =>
      let '(x, ln1) := pp_expr (match f with EGet _ _ | ESuperGet _ => 16 | _ => 14 end) f ln in
      let '(a, ln2) := pp_list args ln1 in (x ++ parens a, ln2)
    | EGet o m => let '(x, ln1) := pp_expr 14 o ln in (x ++ lit "." ++ m, ln1)
    | ESet o m e1 =>
      let '(x, ln1) := pp_expr 14 o ln in
      let '(a, ln2) := pp_expr 1 e1 ln1 in (x ++ lit "." ++ m ++ lit " = " ++ a, ln2)
    | ESetCompound o m op e1 =>
      let '(x, ln1) := pp_expr 14 o ln in
      let '(a, ln2) := pp_expr 6 e1 ln1 in
      (x ++ lit "." ++ m ++ lit " " ++ binop_text op ++ lit "= " ++ a, ln2)
    | EInvoke o m args =>
      let '(x, ln1) := pp_expr 14 o ln in
      let '(a, ln2) := pp_list args ln1 in (x ++ lit "." ++ m ++ parens a, ln2)
    | EIndex o i =>
      let '(x, ln1) := pp_expr 14 o ln in
      let '(a, ln2) := pp_expr 1 i ln1 in (x ++ lit "[" ++ a ++ lit "]", ln2)
    | ESetIndex o i e1 =>
      let '(x, ln1) := pp_expr 14 o ln in
      let '(a, ln2) := pp_expr 1 i ln1 in
      let '(b, ln3) := pp_expr 1 e1 ln2 in (x ++ lit "[" ++ a ++ lit "] = " ++ b, ln3)
    | ETuple es =>
      let '(a, ln1) := pp_list es ln in
      (match es with [_] => lit "(" ++ a ++ lit ",)" | _ => parens a end, ln1)
    | EVec es => let '(a, ln1) := pp_list es ln in (lit "[" ++ a ++ lit "]", ln1)
    | EMap kvs =>
      let '(a, ln1) :=
        (fix go (l : list (expr * expr)) (ln : N) {struct l} : list byte * N :=
           match l with
           | [] => ([], ln)
           | (k, v) :: r =>
             let '(a, ln1) := pp_expr 1 k ln in
             let '(b, ln2) := pp_expr 1 v ln1 in
             let '(c, ln3) := go r ln2 in
             (a ++ lit ": " ++ b ++ match r with [] => [] | _ => lit ", " end ++ c, ln3)
           end) kvs ln in
      (lit "{" ++ a ++ lit "}", ln1)
    | ELambda ps body =>
      let head := match ps with [] => lit "|| " | _ => lit "|" ++ sep_names ps ++ lit "| " end in
      match body with
      | LExpr e1 =>
        let '(a, ln1) := pp_expr 1 e1 ln in
        (head ++ (if starts_with_brace a then parens a else a), ln1)
      | LBlock b =>
        let '(a, ln1) := pp_block true b ln in (head ++ lit "{" ++ a ++ lit "}", ln1)
      end
    end in
  (if Nat.ltb (lvl e) p then parens body else body, ln')

with pp_stmt (first : bool) (s : stmt) (ln : N) {struct s} : list byte * N :=
  let pp_block := fix go (first : bool) (l : list stmt) (ln : N) {struct l} : list byte * N :=
    match l with
    | [] => ([], ln)
    | s :: r => let '(a, ln1) := pp_stmt first s ln in
                let '(b, ln2) := go false r ln1 in (a ++ b, ln2)
    end in
  let braces := fun (b : list stmt) (ln : N) =>
                  let '(a, ln1) := pp_block true b ln in (lit "{" ++ a ++ lit "}", ln1) in
  let fn_text := fun (self_ : bool) (f : name) (ps : list name) (b : list stmt) (ln : N) =>
                   let '(a, ln1) := braces b ln in
                   (lit "fn " ++ f ++ lit "(" ++
                    (if self_ then lit "self" ++ match ps with [] => [] | _ => lit ", " end else [])
                    ++ sep_names ps ++ lit ") " ++ a, ln1) in
  let l := match s with
           | SExpr l _ | SVar l _ _ | SFn l _ _ _ | SClass l _ | SBlock l _ | SIf l _ _ _
           | SWhile l _ _ | SFor l _ _ _ | SReturn l _ | SBreak l | SContinue l | SThrow l _
           | STry l _ _ _ | SImport l _ _ => l
           end in
  let '(pad, ln0) := goto_line first l ln in
  let '(body, ln') :=
    match s with
    | SExpr _ e =>
      let '(a, ln1) := pp_expr 1 e ln0 in
      ((if starts_with_brace a then parens a else a) ++ lit ";", ln1)
    | SVar _ x None => (lit "var " ++ x ++ lit ";", ln0)
    | SVar _ x (Some e) =>
      let '(a, ln1) := pp_expr 1 e ln0 in (lit "var " ++ x ++ lit " = " ++ a ++ lit ";", ln1)
    | SFn _ f ps b => fn_text false f ps b ln0
    | SClass _ (ClassDecl c sup ctor ms) =>
      let attrs :=
        match ctor, sup with
        | None, None => []
        | Some n, None => lit "#[constructor(" ++ n ++ lit ")] "
        | None, Some b => lit "#[derive(" ++ b ++ lit ")] "
        | Some n, Some b => lit "#[constructor(" ++ n ++ lit "), derive(" ++ b ++ lit ")] "
        end in
      let '(a, ln1) :=
        (fix go (l : list method_decl) (ln : N) {struct l} : list byte * N :=
           match l with
           | [] => ([], ln)
           | MethodDecl k m ps b :: r =>
             let '(x, ln1) := fn_text (match k with MStatic => false | _ => true end) m ps b ln in
             let '(y, ln2) := go r ln1 in
             (lit " " ++ match k with
                         | MMethod => []
                         | MStatic => lit "#[static] "
                         | MInit => lit "#[constructor] "
                         end ++ x ++ y, ln2)
           end) ms ln0 in
      (attrs ++ lit "class " ++ c ++ lit " {" ++ a ++ lit " }", ln1)
    | SBlock _ b => braces b ln0
    | SIf _ c t e =>
      let '(x, ln1) := pp_expr 1 c ln0 in
      let '(y, ln2) := braces t ln1 in
      match e with
      | None => (lit "if " ++ x ++ lit " " ++ y, ln2)
      | Some st =>
        let '(z, ln3) := pp_stmt false st ln2 in
        (lit "if " ++ x ++ lit " " ++ y ++ lit " else" ++ z, ln3)
      end
    | SWhile _ c b =>
      let '(x, ln1) := pp_expr 1 c ln0 in
      let '(y, ln2) := braces b ln1 in (lit "while " ++ x ++ lit " " ++ y, ln2)
    | SFor _ v it b =>
      let '(x, ln1) := pp_expr 1 it ln0 in
      let '(y, ln2) := braces b ln1 in
      (lit "for " ++ v ++ lit " in " ++ x ++ lit " " ++ y, ln2)
    | SReturn _ None => (lit "return;", ln0)
    | SReturn _ (Some e) => let '(a, ln1) := pp_expr 1 e ln0 in (lit "return " ++ a ++ lit ";", ln1)
    | SBreak _ => (lit "break;", ln0)
    | SContinue _ => (lit "continue;", ln0)
    | SThrow _ e => let '(a, ln1) := pp_expr 1 e ln0 in (lit "throw " ++ a ++ lit ";", ln1)
    | STry _ b c f =>
      let '(x, ln1) := braces b ln0 in
      let '(y, ln2) := match c with
                       | Some (v, cb) => let '(a, ln2) := braces cb ln1 in
                                         (lit " catch " ++ v ++ lit " " ++ a, ln2)
                       | None => ([], ln1)
                       end in
      let '(z, ln3) := match f with
                       | Some fb => let '(a, ln3) := braces fb ln2 in (lit " finally " ++ a, ln3)
                       | None => ([], ln2)
                       end in
      (lit "try " ++ x ++ y ++ z, ln3)
    | SImport _ p a =>
      (lit "import " ++ quote_str p ++
       (match path_file_name p with
        | Some f => if bytes_eqb f a then [] else lit " as " ++ a
        | None => lit " as " ++ a
        end) ++ lit ";", ln0)
    end in
  (pad ++ body, ln').

Definition pretty_expr (e : expr) : list byte := fst (pp_expr 1 e 1).

Fixpoint pp_program (first : bool) (p : list stmt) (ln : N) : list byte * N :=
  match p with
  | [] => ([], ln)
  | s :: r => let '(a, ln1) := pp_stmt first s ln in
              let '(b, ln2) := pp_program false r ln1 in (a ++ b, ln2)
  end.

Definition pretty_program (p : program) : list byte := fst (pp_program true p 1) ++ ["010"%byte].
