(* PureEquiv.v - umbrella: the equivalence theorems between the Gallina text regenerated from /repo's Rust sources
   (gen/Pure*.v, translator/rust2gallina.py) and the hand-written models.  One file per group so that a change of
   one Rust function breaks only the theorems (and checks) that own it:
     PureEquivNum       gen_hash_number_eq_model                                              (C12)
     PureEquivIntern    gen_fnv_write_eq_model, gen_fnv_hash_eq_model, gen_find_index_eq_model,
                        gen_insert_growth_test_eq_model_partial                               (C11)
     PureEquivIndex     gen_validate_integer_eq_model, gen_try_as_bounded_index_eq_model,
                        gen_make_bounded_range_eq_model, gen_string_iter_next_eq_model        (C13)
     PureEquivIter      gen_vec_iter_next_eq_model, gen_tuple_iter_next_eq_model,
                        gen_range_iter_new_eq_model, gen_range_iter_next_eq_model             (C18)
     PureEquivHeap      gen_heap_collect_eq_model, gen_heap_collect_if_required_eq_model,
                        gen_heap_allocate_raw_eq_model                                        (C16)
     PureEquivStack     gen_stack_{peek,peek_mut,push,pop}_guard_eq_model,
                        gen_stack_truncate_size_eq_model, gen_stack_model_*                   (C10)
     PureEquivHandlers  gen_has_catch_block_eq_model                                          (C08) *)
From YV Require Export R2G R2GProofs.
From YV Require Export PureEquivNum PureEquivIntern PureEquivIndex PureEquivIter PureEquivHeap PureEquivStack
  PureEquivHandlers.
