(* PureEquivComp.v - compiler.rs Compiler::add_local / resolve_local / add_upvalue regenerated into gen/PureComp.v
   equal ScopeComp.add_local / resolve_local / add_upvalue.  Owner check: C06.

   Views.  The model names variables by numbers ([ScopeLang.name = nat]); the Rust code compares the identifier
   texts.  [nm] is any INJECTIVE naming; the reserved slot 0 of every function (`""`, `"self"`, `"Self"`: not an
   identifier a program can write) is the model's [None].  The model keeps `locals` NEWEST FIRST, the Vec is oldest
   first: [locals_view] reverses. *)
From Coq Require Import ZArith NArith List Bool Arith Lia String.
From Coq Require Import Strings.Byte.
From YVGen Require PureComp.
From YV Require Import Num Utf8 ScopeLang ScopeComp.
From YV Require Import R2G R2GProofs R2GStr R2GStrProofs.
Import ListNotations.
Open Scope Z_scope.

Section Views.
  Variable nm : nat -> list byte.
  Variable reserved : list byte.
  Hypothesis nm_inj : forall a b, nm a = nm b -> a = b.
  Hypothesis nm_not_reserved : forall a, nm a <> reserved.

  Definition name_view (o : option name) : list byte := match o with Some x => nm x | None => reserved end.
  Definition local_view (l : local) : list byte * option Z * bool :=
    (name_view (l_name l), option_map Z.of_nat (l_depth l), l_capt l).
  Definition locals_view (ls : list local) : list (list byte * option Z * bool) := rev (map local_view ls).

  Lemma name_eqb_view : forall l x, str_eqb (name_view (l_name l)) (nm x) = name_is l x.
  Proof.
    intros l x. unfold name_is, name_view. destruct (l_name l) as [y|].
    - destruct (Nat.eqb_spec y x) as [->|Hne].
      + apply str_eqb_eq. reflexivity.
      + destruct (str_eqb (nm y) (nm x)) eqn:E; [|reflexivity]. apply str_eqb_eq in E. apply nm_inj in E. congruence.
    - destruct (str_eqb reserved (nm x)) eqn:E; [|reflexivity]. apply str_eqb_eq in E.
      exfalso. apply (nm_not_reserved x). symmetry. exact E.
  Qed.

  (* ---------------------------------------------------------------------------------------- *)
  (* add_local *)
  Theorem pure_add_local_eq : forall ls x,
    PureComp.Compiler_add_local (locals_view ls) (nm x) =
    (negb (Nat.eqb (List.length ls) 256),
     locals_view (if Nat.eqb (List.length ls) 256 then ls else mkLocal (Some x) None false :: ls)).
  Proof.
    intros ls x. unfold PureComp.Compiler_add_local, PureComp.LOCALS_MAX, list_len, locals_view.
    rewrite rev_length, map_length. change 256 with (Z.of_nat 256). rewrite eqb_nat_Z.
    destruct (Nat.eqb (List.length ls) 256); reflexivity.
  Qed.

  (* the same through ScopeComp.add_local on the innermost compiler *)
  Corollary pure_add_local_eq_model : forall cf c r funs err x,
    c_locals_max cf = 256%nat ->
    let st := mkCst (c :: r) funs err in
    snd (PureComp.Compiler_add_local (locals_view (fc_locals c)) (nm x)) =
      locals_view (fc_locals (top_of (ScopeComp.add_local cf (Some x) st))) /\
    fst (PureComp.Compiler_add_local (locals_view (fc_locals c)) (nm x)) =
      negb (Nat.eqb (List.length (fc_locals c)) (c_locals_max cf)).
  Proof.
    intros cf c r funs err x Hmax st. rewrite pure_add_local_eq. cbn [fst snd]. rewrite Hmax.
    unfold ScopeComp.add_local, st. cbn [top_of cs_comps]. rewrite Hmax.
    destruct (Nat.eqb (List.length (fc_locals c)) 256); split; reflexivity.
  Qed.

  (* ---------------------------------------------------------------------------------------- *)
  (* resolve_local *)
  Definition resolve_view (o : option (nat * bool)) : Z + Z :=
    match o with
    | Some (slot, true) => inl (Z.of_nat slot mod 2 ^ 8)
    | Some (_, false) => inr PureComp.CompilerError_ReadVarInInitialiser
    | None => inr PureComp.CompilerError_LocalNotFound
    end.

  Lemma rev_enumerate_locals : forall l ls,
    rev (enumerate_z (locals_view (l :: ls))) =
    (Z.of_nat (List.length ls), local_view l) :: rev (enumerate_z (locals_view ls)).
  Proof.
    intros l ls. unfold locals_view. cbn [map rev]. rewrite enumerate_z_snoc, rev_app_distr. cbn [rev app].
    unfold list_len. rewrite rev_length, map_length. reflexivity.
  Qed.

  Theorem pure_resolve_local_eq : forall ls x,
    PureComp.Compiler_resolve_local (locals_view ls) (nm x) = Val (resolve_view (ScopeComp.resolve_local ls x)).
  Proof.
    intros ls x. unfold PureComp.Compiler_resolve_local.
    match goal with |- rbind (for_in _ ?b tt) ?k = _ => set (body := b); set (K := k) end.
    assert (H : for_in (rev (enumerate_z (locals_view ls))) body tt =
                Val (match ScopeComp.resolve_local ls x with
                     | None => inl tt | o => inr (resolve_view o) end)).
    { induction ls as [|l ls IH]; [reflexivity|].
      rewrite rev_enumerate_locals. cbn [for_in ScopeComp.resolve_local]. unfold body at 1.
      unfold local_view at 1 2. cbn [fst snd]. rewrite name_eqb_view.
      destruct (name_is l x); [|exact IH].
      destruct (l_depth l); reflexivity. }
    rewrite H. destruct (ScopeComp.resolve_local ls x) as [[slot [|]]|]; reflexivity.
  Qed.

  (* ---------------------------------------------------------------------------------------- *)
  (* add_upvalue *)
  Definition ups_view (u : ups_t) : list (Z * bool) := map (fun e => (Z.of_nat (fst e), snd e)) u.

  Definition add_upvalue_view (cnt : Z) (r : ups_t * nat * bool) (grown : bool) : (Z + Z) * Z * list (Z * bool) :=
    let '(u', k, err) := r in
    ((if err then inr PureComp.CompilerError_TooManyClosureVars else inl (Z.of_nat k mod 2 ^ 8)),
     (if grown then cnt + 1 else cnt), ups_view u').

  Lemma enumerate_from : forall (A : Type) (l : list A),
    enumerate_z l = combine (map Z.of_nat (seq 0 (List.length l))) l.
  Proof.
    intros A l. unfold enumerate_z, list_len. change 0 with (Z.of_nat 0). rewrite z_range_seq, Nat.sub_0_r. reflexivity.
  Qed.

  Theorem pure_add_upvalue_eq : forall cnt u idx isloc,
    0 <= cnt -> cnt + 1 < 2 ^ 64 ->
    PureComp.Compiler_add_upvalue cnt (ups_view u) (Z.of_nat idx) isloc =
    Val (add_upvalue_view cnt (ScopeComp.add_upvalue 256 u idx isloc)
           (match find_up u idx isloc 0 with Some _ => false | None => negb (Nat.eqb (List.length u) 256) end)).
  Proof.
    intros cnt u idx isloc Hc0 Hc1. unfold PureComp.Compiler_add_upvalue. cbv zeta.
    match goal with |- rbind (for_in _ ?b tt) ?k = _ => set (body := b); set (K := k) end.
    assert (H : forall v k, for_in (combine (map Z.of_nat (seq k (List.length v))) (ups_view v)) body tt =
                Val (match find_up v idx isloc k with
                     | Some j => inr (inl (Z.of_nat j mod 2 ^ 8), cnt, ups_view u)
                     | None => inl tt end)).
    { induction v as [|[i l] v IH]; intros k; [reflexivity|].
      cbn [List.length seq map combine ups_view for_in find_up fst snd]. unfold body at 1. cbn [fst snd].
      rewrite eqb_nat_Z. destruct ((i =? idx)%nat && Bool.eqb l isloc); [reflexivity|]. apply (IH (S k)). }
    rewrite enumerate_from. unfold ups_view at 1. rewrite map_length. fold (ups_view u). rewrite (H u 0%nat).
    unfold ScopeComp.add_upvalue.
    destruct (find_up u idx isloc 0) as [j|]; [reflexivity|].
    unfold K. unfold list_len, ups_view at 1. rewrite map_length. unfold PureComp.UPVALUES_MAX.
    change 256 with (Z.of_nat 256). rewrite eqb_nat_Z.
    destruct (Nat.eqb (List.length u) 256); [reflexivity|].
    cbv zeta. rewrite u_add_ok by lia. cbn [rbind negb add_upvalue_view].
    unfold ups_view. rewrite map_app, map_length. reflexivity.
  Qed.
End Views.
Print Assumptions pure_add_local_eq.
Print Assumptions pure_add_local_eq_model.
Print Assumptions pure_resolve_local_eq.
Print Assumptions pure_add_upvalue_eq.

(* which field of the Rust struct each flattened parameter of the generated definitions stands for (the parameters are
   positional: a function that read ANOTHER field of the same type would otherwise have the same text) *)
Theorem pure_comp_fields : PureComp.r2g_fields =
  [("Compiler_add_local"%string, ["self.locals"%string; "arg0.source"%string]);
   ("Compiler_resolve_local"%string, ["self.locals"%string; "arg0.source"%string]);
   ("Compiler_add_upvalue"%string, ["self.function.upvalue_count"%string; "self.upvalues"%string])].
Proof. reflexivity. Qed.
Print Assumptions pure_comp_fields.
