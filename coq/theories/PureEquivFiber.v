(* PureEquivFiber.v - object.rs ObjFiber::push_exc_handler / pop_exc_handler regenerated into gen/PureFiber.v
   against the handler stack of YV.Handlers (C08): the Vec `exc_handlers` is the model's [s_handlers] reversed
   (the model keeps the innermost handler first), a pushed entry records (catch_ip, finally_ip, stack height,
   frame count) in this field order, pop removes the entry pushed last. *)
From Coq Require Import ZArith List Bool Arith Lia String.
From YVGen Require PureFiber.
From YV Require Import Handlers R2G R2GProofs R2GStr R2GStrProofs.
Import ListNotations.
Open Scope Z_scope.

Section FiberViews.
  (* the address of the instruction at offset [pc] of function [g] (the model keeps offsets, the VM pointers) *)
  Variable ip : nat -> nat -> Z.

  Definition handler_view (h : handler) : Z * Z * Z * Z :=
    (ip (h_fn h) (h_catch h), ip (h_fn h) (h_fin h), Z.of_nat (h_height h), Z.of_nat (h_frames h)).
  Definition handlers_view (hs : list handler) : list (Z * Z * Z * Z) := rev (map handler_view hs).

  Theorem pure_push_exc_handler_eq : forall (T : Type) (frames : list T) hs g c f height,
    PureFiber.ObjFiber_push_exc_handler frames (handlers_view hs) (Z.of_nat height) (ip g c) (ip g f) =
    handlers_view (mkH g c f height (List.length frames) :: hs).
  Proof. intros. reflexivity. Qed.

  Theorem pure_pop_exc_handler_eq : forall hs,
    PureFiber.ObjFiber_pop_exc_handler (handlers_view hs) =
    (option_map handler_view (hd_error hs), handlers_view (tl hs)).
  Proof.
    intros [|h hs]; [reflexivity|]. unfold PureFiber.ObjFiber_pop_exc_handler, handlers_view. cbn [map rev].
    rewrite list_pop_snoc. reflexivity.
  Qed.
End FiberViews.
Print Assumptions pure_push_exc_handler_eq.
Print Assumptions pure_pop_exc_handler_eq.

(* which field of the Rust struct each flattened parameter of the generated definitions stands for (the parameters are
   positional: a function that read ANOTHER field of the same type would otherwise have the same text) *)
Theorem pure_fiber_fields : PureFiber.r2g_fields =
  [("ObjFiber_push_exc_handler"%string, ["self.frames"%string; "self.exc_handlers"%string]);
   ("ObjFiber_pop_exc_handler"%string, ["self.exc_handlers"%string])].
Proof. reflexivity. Qed.
Print Assumptions pure_fiber_fields.
