(* PureEquivHandlers.v - ExcHandler::has_catch_block regenerated from object.rs (gen/PureHandlers.v) equals the
   convention of the hand-written model YV.Handlers (he_after: `nocatch := h_catch h =? h_fin h`).
   Owner check: C08.  The two instruction pointers are modelled as offsets (nat); only their equality matters. *)
From Coq Require Import ZArith NArith List Bool Arith Lia.
From YVGen Require PureHandlers.
From YV Require Import Handlers R2G R2GProofs.
Open Scope Z_scope.

Theorem gen_has_catch_block_eq_model : forall h : handler,
  PureHandlers.ExcHandler_has_catch_block (Z.of_nat (h_catch h)) (Z.of_nat (h_fin h)) =
  (h_catch h =? h_fin h)%nat.
Proof.
  intros h. unfold PureHandlers.ExcHandler_has_catch_block.
  destruct (Nat.eqb_spec (h_catch h) (h_fin h)) as [E|E]; [rewrite E; apply Z.eqb_refl | apply Z.eqb_neq; lia].
Qed.
Print Assumptions gen_has_catch_block_eq_model.

(* the use the model makes of it (unwind_stack, HeAssign: handling_exception = handler.has_catch_block()) *)
Theorem gen_he_after_assign : forall K h he_in, unwind_he K = HeAssign ->
  he_after K h he_in = PureHandlers.ExcHandler_has_catch_block (Z.of_nat (h_catch h)) (Z.of_nat (h_fin h)).
Proof. intros K h he_in HK. rewrite gen_has_catch_block_eq_model. unfold he_after. rewrite HK. reflexivity. Qed.
Print Assumptions gen_he_after_assign.
