(* PureEquivHeap.v - the Gallina text regenerated from memory.rs (gen/PureHeap.v: the accounting lines of
   Heap::collect, Heap::collect_if_required, the pacing decision and accounting line of Heap::allocate_raw) equals
   the hand-written model YV.Pacing (do_collect, alloc_paced, alloc_stress).  Owner check: C16.
   The model counts in N without wrap-around; the generated code faults on overflow/underflow, so the statements
   carry the side conditions "never frees more than is allocated" and "stays below 2^64". *)
From Coq Require Import ZArith NArith List Bool String Lia.
From YVGen Require PureHeap.
From YV Require Import Pacing R2G R2GProofs.
Import ListNotations.
Open Scope Z_scope.

(* common::HEAP_GROWTH_FACTOR as the generated file reads it *)
Definition G : N := Z.to_N PureHeap.HEAP_GROWTH_FACTOR.

(* the pair (collection_threshold, bytes_allocated) in the declaration order of struct Heap *)
Definition heap_view (s : pstate) : Z * Z := (Z.of_N (threshold s), Z.of_N (bytes s)).

Lemma G_Z : Z.of_N G = PureHeap.HEAP_GROWTH_FACTOR.
Proof. unfold G. apply Z2N.id. vm_compute. discriminate. Qed.

Theorem gen_heap_collect_eq_model : forall s freed,
  (freed <= bytes s)%N -> Z.of_N ((bytes s - freed) * G) < 2 ^ 64 -> Z.of_N (bytes s) < 2 ^ 64 ->
  PureHeap.Heap_collect (Z.of_N (threshold s)) (Z.of_N (bytes s)) (Z.of_N freed) =
  Val (heap_view (do_collect G freed s)).
Proof.
  intros s freed Hf Hmul Hb. unfold PureHeap.Heap_collect, do_collect, heap_view. cbn [bytes threshold].
  assert (Hs : 0 <= Z.of_N (bytes s) - Z.of_N freed < 2 ^ 64) by (clear Hmul; lia).
  rewrite u_sub_ok by exact Hs. cbn [rbind].
  replace (Z.of_N (bytes s) - Z.of_N freed) with (Z.of_N (bytes s - freed)) by (clear Hmul; lia).
  rewrite <- G_Z. rewrite u_mul_ok.
  - (* either operand order of the multiplication *)
    cbn [rbind]. rewrite <- N2Z.inj_mul. first [reflexivity | rewrite N.mul_comm; reflexivity].
  - rewrite <- N2Z.inj_mul. split; [apply N2Z.is_nonneg | first [exact Hmul | rewrite N.mul_comm; exact Hmul]].
Qed.
Print Assumptions gen_heap_collect_eq_model.

Definition collect_ok (s : pstate) (freed : N) : Prop :=
  (freed <= bytes s)%N /\ Z.of_N ((bytes s - freed) * G) < 2 ^ 64 /\ Z.of_N (bytes s) < 2 ^ 64.

Lemma geb_N : forall a b : N, (Z.of_N a >=? Z.of_N b) = (b <=? a)%N.
Proof.
  intros a b. rewrite Z.geb_leb.
  destruct (N.leb_spec b a), (Z.leb_spec (Z.of_N b) (Z.of_N a)); try reflexivity; lia.
Qed.

(* collect_if_required: collect exactly when bytes_allocated >= collection_threshold *)
Theorem gen_heap_collect_if_required_eq_model : forall s freed,
  collect_ok s freed ->
  PureHeap.Heap_collect_if_required (Z.of_N (threshold s)) (Z.of_N (bytes s)) (Z.of_N freed) =
  Val (heap_view (if (threshold s <=? bytes s)%N then do_collect G freed s else s)).
Proof.
  intros s freed (H1 & H2 & H3). unfold PureHeap.Heap_collect_if_required. rewrite geb_N.
  destruct (threshold s <=? bytes s)%N.
  - rewrite gen_heap_collect_eq_model by assumption. reflexivity.
  - reflexivity.
Qed.
Print Assumptions gen_heap_collect_if_required_eq_model.

(* allocate_raw: `if cfg!(debug_assertions | debug_stress_gc) { collect } else { collect_if_required }` followed by
   `bytes_allocated += size`  =  alloc_stress / alloc_paced of the model (state component) *)
Theorem gen_heap_allocate_raw_eq_model : forall (stress : bool) s freed size,
  collect_ok s freed ->
  Z.of_N (bytes (fst ((if stress then alloc_stress G else alloc_paced G) freed size s))) < 2 ^ 64 ->
  PureHeap.Heap_allocate_raw stress (Z.of_N (threshold s)) (Z.of_N (bytes s)) (Z.of_N freed) (Z.of_N size) =
  Val (heap_view (fst ((if stress then alloc_stress G else alloc_paced G) freed size s))).
Proof.
  intros stress s freed size Hc Hfit. pose proof Hc as (H1 & H2 & H3).
  unfold PureHeap.Heap_allocate_raw. destruct stress.
  - rewrite gen_heap_collect_eq_model by assumption. cbn [rbind heap_view].
    unfold alloc_stress in *. cbn [fst do_alloc bytes threshold] in *.
    rewrite u_add_ok by lia. cbn [rbind]. rewrite <- N2Z.inj_add. reflexivity.
  - rewrite gen_heap_collect_if_required_eq_model by assumption. unfold alloc_paced in *.
    destruct (threshold s <=? bytes s)%N; cbn [rbind heap_view fst do_alloc bytes threshold] in *;
      (rewrite u_add_ok by lia); cbn [rbind]; rewrite <- N2Z.inj_add; reflexivity.
Qed.
Print Assumptions gen_heap_allocate_raw_eq_model.

(* the build-configuration condition that selects the stress branch, as text (C10 owns the cfg table; a change of
   the condition changes this list) *)
Theorem gen_heap_allocate_raw_cfgs :
  PureHeap.Heap_allocate_raw_cfgs = ["any ( debug_assertions , feature = ""debug_stress_gc"" )"%string].
Proof. reflexivity. Qed.

(* the hypotheses are satisfiable: the initial heap, a first allocation *)
Example collect_ok_example : collect_ok (p_init 65536) 0.
Proof. unfold collect_ok, G. vm_compute. repeat split; discriminate || reflexivity. Qed.
