(* PureEquivIndex.v - the Gallina text regenerated from utils.rs / value.rs / object.rs (gen/PureIndex.v) equals
   the hand-written models YV.Index.validate_integer / bounded_index / bounded_range and YV.StrFns.iter_next.
   Owner check: C13. *)
From Coq Require Import String.
From Coq Require Import ZArith NArith List Bool Arith Lia.
From Coq Require Import Strings.Byte Floats.SpecFloat.
From YVGen Require PureIndex.
From YV Require Import Num NumProofs Utf8 Index IndexProofs StrFns StrRun StrRunProofs R2G R2GProofs.
Import ListNotations.
Open Scope Z_scope.

(* the model's errors as the generated code writes them: kind + rendered message *)
Definition err_view (e : err) : rerror :=
  match e with
  | TypeError m => mk_error "TypeError" m
  | ValueError m => mk_error "ValueError" m
  | IndexError m => mk_error "IndexError" m
  | RustPanic m => mk_error "RustPanic" m
  end.
Definition result_view {A B : Type} (f : A -> B) (r : result A err) : rresult B :=
  match r with Ok a => ResOk (f a) | Error e => ResErr (err_view e) end.

(* ------------------------------------------------------------------------------------------ *)
(* utils::validate_integer, on a Number and on anything else                                    *)

Theorem gen_validate_integer_eq_model : forall x shown,
  PureIndex.validate_integer (RNumber x) shown =
  result_view (fun z => z) (Index.validate_integer shown (idx_of_num (num_of_f64 x))).
Proof.
  intros x shown. rewrite idx_of_f64. unfold PureIndex.validate_integer, is_integral.
  destruct (feqb (ftrunc x) x); reflexivity.
Qed.
Print Assumptions gen_validate_integer_eq_model.

Theorem gen_validate_integer_other_eq_model : forall tag shown,
  PureIndex.validate_integer (ROther tag) shown =
  result_view (fun z => z) (Index.validate_integer shown INotNumber).
Proof. intros. reflexivity. Qed.

(* ------------------------------------------------------------------------------------------ *)
(* Value::try_as_bounded_index                                                                  *)

Lemma to_isize_in_range : forall x, isize_min <= to_isize x <= isize_max.
Proof. intros x. pose proof (to_i64_range x). unfold to_isize, isize_min, isize_max. rewrite pow63. unfold two63 in *. lia. Qed.

Lemma geb_ltb_neg : forall a b, (a >=? b) = negb (a <? b).
Proof. intros. rewrite Z.geb_leb. destruct (Z.leb_spec b a), (Z.ltb_spec a b); try reflexivity; lia. Qed.

Theorem gen_try_as_bounded_index_eq_model : forall x shown bound kind,
  0 <= bound <= isize_max ->
  PureIndex.try_as_bounded_index (RNumber x) shown bound kind =
  Val (result_view Z.of_nat (bounded_index kind shown (idx_of_num (num_of_f64 x)) bound)).
Proof.
  intros x shown bound kind Hb.
  unfold PureIndex.try_as_bounded_index, bounded_index.
  rewrite gen_validate_integer_eq_model, idx_of_f64.
  destruct (is_integral x); [|reflexivity].
  cbn [Index.validate_integer result_view].
  pose proof (to_isize_in_range x) as Hr. set (i := to_isize x) in *.
  destruct (Z.ltb_spec i 0) as [Hneg|Hpos].
  - rewrite isize_add_no_overflow by lia.
    rewrite s_add_ok by (rewrite pow2_63; unfold isize_min, isize_max in *; rewrite pow63 in *; lia).
    cbn [rbind].
    destruct ((i + bound <? 0) || (i + bound >=? bound)) eqn:E; [reflexivity|].
    zbool. cbn [result_view]. rewrite Z.mod_small by (rewrite pow2_64; unfold isize_max in *; rewrite pow63 in *; lia).
    rewrite Z2Nat.id by lia. reflexivity.
  - cbn [rbind].
    destruct ((i <? 0) || (i >=? bound)) eqn:E; [reflexivity|].
    zbool. cbn [result_view]. rewrite Z.mod_small by (rewrite pow2_64; unfold isize_max in *; rewrite pow63 in *; lia).
    rewrite Z2Nat.id by lia. reflexivity.
Qed.
Print Assumptions gen_try_as_bounded_index_eq_model.

Theorem gen_try_as_bounded_index_other_eq_model : forall tag shown bound kind,
  PureIndex.try_as_bounded_index (ROther tag) shown bound kind =
  Val (result_view Z.of_nat (bounded_index kind shown INotNumber bound)).
Proof. intros. reflexivity. Qed.

(* ------------------------------------------------------------------------------------------ *)
(* ObjRange::make_bounded_range                                                                 *)

Definition pair_view (p : nat * nat) : Z * Z := (Z.of_nat (fst p), Z.of_nat (snd p)).

Theorem gen_make_bounded_range_eq_model : forall rb re limit kind,
  in_isize rb = true -> in_isize re = true -> 0 <= limit <= isize_max ->
  PureIndex.make_bounded_range rb re limit kind =
  Val (result_view pair_view (bounded_range kind rb re limit)).
Proof.
  intros rb re limit kind Hrb Hre Hl.
  unfold in_isize in Hrb, Hre. zbool.
  unfold PureIndex.make_bounded_range, bounded_range.
  assert (Hadd : forall a, isize_min <= a <= isize_max ->
    (if a <? 0 then s_add 64 a limit else Val a) = Val (if a <? 0 then isize_add a limit else a)).
  { intros a Ha. destruct (Z.ltb_spec a 0); [|reflexivity].
    rewrite isize_add_no_overflow by lia.
    apply s_add_ok. rewrite pow2_63; unfold isize_min, isize_max in *; rewrite pow63 in *; lia. }
  (* both additions first, then the two range checks: the proof does not depend on where `let end` is placed *)
  rewrite (Hadd rb) by lia. cbn [rbind]. rewrite (Hadd re) by lia. cbn [rbind].
  set (b := if rb <? 0 then isize_add rb limit else rb).
  set (e := if re <? 0 then isize_add re limit else re).
  destruct ((b <? 0) || (b >=? limit)) eqn:E1; [reflexivity|].
  destruct ((e <? 0) || (e >? limit)) eqn:E2; [reflexivity|].
  zbool. cbn [result_view]. unfold pair_view. cbn [fst snd].
  assert (Hm : forall z, 0 <= z <= limit -> z mod 2 ^ 64 = Z.of_nat (Z.to_nat z)).
  { intros z Hz. rewrite Z.mod_small by (rewrite pow2_64; unfold isize_max in *; rewrite pow63 in *; lia).
    rewrite Z2Nat.id by lia. reflexivity. }
  rewrite (Hm b) by lia. rewrite Hm by (destruct (e >=? b); lia). reflexivity.
Qed.
Print Assumptions gen_make_bounded_range_eq_model.

(* ------------------------------------------------------------------------------------------ *)
(* ObjStringIter::next                                                                          *)

(* one turn of `while pos < len && !is_char_boundary(pos) { pos += 1 }` on the model side *)
Definition scan_step (s : list byte) (p : nat) : option (step nat Empty_set) :=
  Some (if (p <? length s)%nat && negb (is_char_boundary s p) then Continue (S p) else Break p).

Lemma scan_miter : forall s f p, (length s - p < f)%nat ->
  miter (scan_step s) f p = Some (inl (scan_pos s (length s - p) p)).
Proof.
  intros s. induction f as [|f IH]; intros p Hf; [lia|].
  cbn [miter]. unfold scan_step at 1.
  destruct (Nat.ltb_spec p (length s)) as [Hlt|Hge].
  - replace (length s - p)%nat with (S (length s - S p)) by lia. cbn [scan_pos].
    destruct (Nat.ltb_spec p (length s)); [|lia]. cbn [andb].
    destruct (negb (is_char_boundary s p)).
    + apply IH. lia.
    + reflexivity.
  - cbn [andb]. replace (length s - p)%nat with O by lia. reflexivity.
Qed.

Lemma scan_pos_fuel : forall s n p, (length s - p <= n)%nat -> scan_pos s n p = scan_pos s (length s - p) p.
Proof.
  intros s. induction n as [|n IH]; intros p H.
  - replace (length s - p)%nat with O by lia. reflexivity.
  - cbn [scan_pos]. destruct (Nat.ltb_spec p (length s)) as [Hlt|Hge].
    + replace (length s - p)%nat with (S (length s - S p)) by lia. cbn [scan_pos].
      destruct (Nat.ltb_spec p (length s)); [|lia]. cbn [andb].
      destruct (negb (is_char_boundary s p)); [|reflexivity]. apply IH. lia.
    + cbn [andb]. replace (length s - p)%nat with O by lia. reflexivity.
Qed.

Definition iter_view (r : option (nat * nat) * nat) : option (Z * Z) * Z :=
  (option_map pair_view (fst r), Z.of_nat (snd r)).

(* for every string, every cursor and every fuel above the length: the generated function = StrFns.iter_next.
   Side condition: lengths and cursors are below 2^64 (they are usize values). *)
Theorem gen_string_iter_next_eq_model : forall s pos fuel,
  (length s < fuel)%nat -> Z.of_nat (length s) < 2 ^ 64 -> Z.of_nat pos + 1 < 2 ^ 64 ->
  PureIndex.ObjStringIter_next fuel s (Z.of_nat pos) = Val (iter_view (iter_next s pos)).
Proof.
  intros s pos fuel Hf Hlen Hpos. unfold PureIndex.ObjStringIter_next, iter_next, list_len.
  replace (Z.of_nat pos =? Z.of_nat (length s)) with (Nat.eqb pos (length s))
    by (destruct (Nat.eqb_spec pos (length s)) as [->|Hne]; [symmetry; apply Z.eqb_refl|
        symmetry; apply Z.eqb_neq; lia]).
  destruct (Nat.eqb pos (length s)); [reflexivity|].
  cbv zeta. rewrite u_add_ok by lia. cbn [rbind].
  replace (Z.of_nat pos + 1) with (Z.of_nat (pos + 1)) by lia.
  match goal with |- rbind (loop ?f ?b _) ?k = _ =>
    pose proof (loop_sim Z Empty_set nat Empty_set b (scan_step s) Z.of_nat (fun e => e)
                  (fun p => Z.of_nat p < 2 ^ 64)) as Hsim end.
  match type of Hsim with ?A -> ?B -> _ => assert (H1 : A); [|assert (H2 : B)] end.
  - intros p Hp. cbv beta. unfold scan_step, str_is_char_boundary.
    destruct (Z.ltb_spec (Z.of_nat p) 0); [lia|]. rewrite Nat2Z.id.
    replace (Z.of_nat p <? Z.of_nat (length s)) with (p <? length s)%nat
      by (destruct (Nat.ltb_spec p (length s)), (Z.ltb_spec (Z.of_nat p) (Z.of_nat (length s))); try reflexivity; lia).
    destruct (Nat.ltb_spec p (length s)) as [Hlt|Hge]; cbn [andb]; [|reflexivity].
    destruct (negb (is_char_boundary s p)); [|reflexivity].
    rewrite u_add_ok by lia. cbn [rbind to_opt option_map map_step]. do 3 f_equal. lia.
  - intros p t Hp. unfold scan_step. intros E. inversion E as [E'].
    destruct ((p <? length s)%nat && negb (is_char_boundary s p)) eqn:C; [|discriminate].
    inversion E'; subst. apply andb_true_iff in C. destruct C as [C _]. apply Nat.ltb_lt in C. lia.
  - specialize (Hsim H1 H2 fuel (pos + 1)%nat ltac:(cbv beta; lia)).
    rewrite scan_miter in Hsim by lia. cbn [option_map map_sum] in Hsim.
    destruct (loop fuel _ (Z.of_nat (pos + 1))) as [[p|r]|e]; cbn [to_opt] in Hsim; try discriminate.
    inversion Hsim; subst. cbn [rbind]. rewrite (scan_pos_fuel s (length s)) by lia.
    unfold iter_view, pair_view. cbn [fst snd option_map]. reflexivity.
Qed.
Print Assumptions gen_string_iter_next_eq_model.
