(* PureEquivIntern.v - the Gallina text regenerated from hash.rs / vm.rs `mod string_store` (gen/PureIntern.v)
   equals the hand-written models YV.Num.fnv_* and YV.Intern.probe / find_index / load_limit.
   Owner check: C11. *)
From Coq Require Import ZArith NArith List Bool Arith Lia.
From Coq Require Import Strings.Byte Floats.SpecFloat.
From YVGen Require PureIntern Consts.
From YV Require Import Num NumProofs Intern R2G R2GProofs.
Import ListNotations.
Open Scope Z_scope.

(* ------------------------------------------------------------------------------------------ *)
(* hash::FnvHasher                                                                              *)

Lemma fnv_body_step : forall h c, 0 <= h < two64 ->
  0 <= Z.lxor h (byte_Z c) * 16777619 < 2 ^ 128.
Proof.
  intros h c Hh. pose proof (byte_Z_range c) as Hc.
  assert (Hx : 0 <= Z.lxor h (byte_Z c) < 2 ^ 64).
  { apply lxor_range; [lia| rewrite <- two64_pow; exact Hh | rewrite pow2_64; lia]. }
  rewrite pow2_64 in Hx. rewrite pow2_128. nia.
Qed.

Lemma fnv_write_range : forall l z, 0 <= z < two64 -> 0 <= fnv_write z l < two64.
Proof.
  unfold fnv_write. induction l as [|c l IH]; intros z Hz; [exact Hz|]. simpl. apply IH. apply fnv_step_range.
Qed.

(* FnvHasher::write = the fold of Num.fnv_step, for every message and every 64-bit state *)
Theorem gen_fnv_write_eq_model : forall l h, 0 <= h < two64 ->
  PureIntern.FnvHasher_write h l = Val (fnv_write h l).
Proof.
  intros l h Hh. unfold PureIntern.FnvHasher_write, fnv_write.
  rewrite (for_in_fold _ _ _ _ fnv_step (fun h => 0 <= h < two64)); [reflexivity| |exact Hh].
  intros c s Hs. cbv zeta. rewrite u_mul_ok by (apply fnv_body_step; exact Hs).
  split; [reflexivity | apply fnv_step_range].
Qed.
Print Assumptions gen_fnv_write_eq_model.

(* `impl Hash for str` (std): write(bytes); write_u8(0xff); then finish() - from FnvHasher::default() *)
Theorem gen_fnv_hash_eq_model : forall l,
  rbind (PureIntern.FnvHasher_write PureIntern.FnvHasher_default l) (fun h =>
  rbind (PureIntern.FnvHasher_write h [xff]) (fun h => Val (PureIntern.FnvHasher_finish h))) = Val (fnv_hash l).
Proof.
  intros l.
  assert (Hd : 0 <= PureIntern.FnvHasher_default < two64) by (vm_compute; split; [discriminate|reflexivity]).
  rewrite gen_fnv_write_eq_model by exact Hd. cbn [rbind].
  rewrite gen_fnv_write_eq_model by (apply fnv_write_range; exact Hd). reflexivity.
Qed.
Print Assumptions gen_fnv_hash_eq_model.

Example gen_fnv_hash_abc : (* FNV-1a of "abc" ++ [0xff], the value the Rust hasher produces (NumProofs) *)
  to_opt (rbind (PureIntern.FnvHasher_write PureIntern.FnvHasher_default [x61; x62; x63]) (fun h =>
          PureIntern.FnvHasher_write h [xff])) = Some (fnv_hash [x61; x62; x63]).
Proof. vm_compute. reflexivity. Qed.

(* ------------------------------------------------------------------------------------------ *)
(* string_store::find_index                                                                     *)

(* the table as the generated code sees it: an entry is (hash, text) *)
Definition entry_view (e : entry) : Z * list byte := (Z.of_N (ehash e), etext e).
Definition table_view (es : list (option entry)) : list (option (Z * list byte)) := map (option_map entry_view) es.

(* one turn of Intern.probe as a step function *)
Definition pstep (es : list (option entry)) (h : N) (s : text) (m : N) (index : N) : option (step N nat) :=
  match nth_error es (N.to_nat index) with
  | None => None
  | Some None => Some (Return (N.to_nat index))
  | Some (Some e) => if key_matches e h s then Some (Return (N.to_nat index))
                     else Some (Continue (N.land (index + 1)%N m))
  end.

Lemma probe_miter : forall fuel es h s m index,
  probe fuel es h s m index =
  match miter (pstep es h s m) fuel index with Some (inr i) => Some i | _ => None end.
Proof.
  induction fuel as [|f IH]; intros es h s m index; [reflexivity|].
  cbn [probe miter]. unfold pstep at 1.
  destruct (nth_error es (N.to_nat index)) as [[e|]|]; try reflexivity.
  destruct (key_matches e h s); [reflexivity|]. apply IH.
Qed.

Lemma text_eqb_str_eqb : forall a b, text_eqb a b = str_eqb a b.
Proof.
  intros a b. unfold text_eqb. destruct (list_eq_dec Byte.byte_eq_dec a b) as [E|E].
  - symmetry. apply str_eqb_eq. exact E.
  - destruct (str_eqb a b) eqn:F; [|reflexivity]. apply str_eqb_eq in F. contradiction.
Qed.

Lemma nth_error_table_view : forall es i,
  nth_error (table_view es) i = option_map (option_map entry_view) (nth_error es i).
Proof. intros es i. unfold table_view. apply nth_error_map. Qed.

(* find_index (generated) = Intern.probe from (hash & mask), for EVERY fuel, table, key and mask;
   a fault of the generated code (index out of bounds, fuel) is the model's None.
   Side condition: the table has fewer than 2^64 slots (so `index + 1` cannot overflow). *)
Theorem gen_find_index_eq_model : forall fuel es h s m,
  Z.of_nat (length es) < 2 ^ 64 ->
  to_opt (PureIntern.find_index fuel (table_view es) (Z.of_N h, s) (Z.of_N m)) =
  option_map Z.of_nat (probe fuel es h s m (N.land h m)).
Proof.
  intros fuel es h s m Hlen. unfold PureIntern.find_index. cbv zeta. rewrite land_of_N.
  try (rewrite (N.land_comm m h)).
  match goal with |- to_opt (rbind (loop ?f ?b _) ?k) = _ =>
    pose proof (loop_sim Z Z N nat b (pstep es h s m) Z.of_N Z.of_nat (fun _ => True)) as Hsim end.
  rewrite probe_miter.
  match type of Hsim with ?A -> ?B -> _ => assert (H1 : A); [|assert (H2 : B); [intros; exact I|]] end.
  - (* one turn of the generated body = one probe step *)
    intros index _. cbv beta. unfold pstep.
    rewrite <- (N_nat_Z index). rewrite list_index_nat, nth_error_table_view.
    destruct (nth_error es (N.to_nat index)) as [[e|]|] eqn:E; cbn [option_map rbind to_opt].
    + unfold key_matches, entry_view. cbn [fst snd]. rewrite text_eqb_str_eqb.
      replace (Z.of_N (ehash e) =? Z.of_N h) with (N.eqb (ehash e) h)
        by (destruct (N.eqb_spec (ehash e) h) as [->|Hne]; [symmetry; apply Z.eqb_refl|
            symmetry; apply Z.eqb_neq; lia]).
      destruct (N.eqb (ehash e) h && str_eqb (etext e) s).
      * reflexivity.
      * assert (Hi : (N.to_nat index < length es)%nat) by (apply nth_error_Some; rewrite E; discriminate).
        rewrite u_add_ok by (rewrite pow2_64 in *; lia).
        cbn [rbind to_opt option_map map_step]. rewrite N_nat_Z.
        replace (Z.of_N index + 1) with (Z.of_N (index + 1)) by lia.
        rewrite land_of_N. (* either operand order of the `&` *)
        first [reflexivity | rewrite N.land_comm; reflexivity].
    + reflexivity.
    + reflexivity.
  - specialize (Hsim H1 H2 fuel (N.land h m) I).
    destruct (loop fuel _ (Z.of_N (N.land h m))) as [[i|r]|e]; cbn [to_opt rbind] in *;
      destruct (miter (pstep es h s m) fuel (N.land h m)) as [[i'|r']|]; cbn [option_map map_sum] in *;
      try discriminate; try reflexivity.
    inversion Hsim; subst. reflexivity.
Qed.
Print Assumptions gen_find_index_eq_model.

(* with the fuel Intern.find_index gives the loop *)
Corollary gen_find_index_eq_model_find_index : forall es h s m,
  Z.of_nat (length es) < 2 ^ 64 ->
  to_opt (PureIntern.find_index (S (length es)) (table_view es) (Z.of_N h, s) (Z.of_N m)) =
  option_map Z.of_nat (Intern.find_index es h s m).
Proof. intros. unfold Intern.find_index. apply gen_find_index_eq_model. assumption. Qed.

(* ------------------------------------------------------------------------------------------ *)
(* growth test of ObjStringStore::insert                                                        *)

Definition ln : Z := Z.of_N Consts.MAX_LOAD_NUM.
Definition ld : Z := Z.of_N Consts.MAX_LOAD_DEN.

(* exact part: the generated test, with the float expression left as it is *)
Lemma gen_insert_growth_test_shape : forall es size, 0 <= size -> size + 1 < 2 ^ 64 ->
  PureIntern.insert_growth_test es size =
  Val (size + 1 >? to_usize (fmul (f64_of_Z (list_len es)) PureIntern.MAX_LOAD)).
Proof.
  intros es size H0 H1. unfold PureIntern.insert_growth_test. rewrite u_add_ok by lia. reflexivity.
Qed.

(* the capacities for which the float computation is CHECKED (vm_compute): every capacity up to 4096 and every
   power of two up to 2^62 (the table only ever has INIT_CAPACITY * 2^k slots) *)
Fixpoint pows2 (n : nat) (x : Z) : list Z := match n with O => [] | S k => x :: pows2 k (2 * x) end.
Definition checked_caps : list Z := map Z.of_nat (seq 0 4097) ++ pows2 50 8192.

Definition float_limit_ok (c : Z) : bool :=
  to_usize (fmul (f64_of_Z c) PureIntern.MAX_LOAD) =? c * ln / ld.

Lemma float_limit_checked : forallb float_limit_ok checked_caps = true.
Proof. vm_compute. reflexivity. Qed.

(* GENERAL STATEMENT (not proved: needs the exactness of f64 multiplication by a dyadic constant below 2^53,
   i.e. a proof about SpecFloat.binary_normalize; C11 keeps it as the side condition MAX_LOAD_dyadic):
     forall es size, list_len es * ln < 2^53 -> 0 <= size -> size + 1 < 2^64 ->
       insert_growth_test es size = Val (Nat.ltb (load_limit ln ld (length es)) (Z.to_nat size + 1)).
   BOUNDED CHECK proved here: the same for every capacity in [checked_caps]. *)
Theorem gen_insert_growth_test_eq_model_partial : forall es size,
  In (list_len es) checked_caps -> 0 <= size -> size + 1 < 2 ^ 64 ->
  PureIntern.insert_growth_test es size =
  Val (Nat.ltb (load_limit (Z.to_nat ln) (Z.to_nat ld) (length es)) (Z.to_nat size + 1)).
Proof.
  intros es size Hin H0 H1. rewrite gen_insert_growth_test_shape by assumption. f_equal.
  pose proof float_limit_checked as Hc. rewrite forallb_forall in Hc. specialize (Hc _ Hin).
  unfold float_limit_ok in Hc. apply Z.eqb_eq in Hc. rewrite Hc.
  unfold load_limit, list_len.
  assert (Hld : 0 < ld) by (vm_compute; reflexivity). assert (Hln : 0 <= ln) by (vm_compute; discriminate).
  destruct (Nat.ltb_spec (length es * Z.to_nat ln / Z.to_nat ld) (Z.to_nat size + 1)) as [Hlt|Hge].
  - apply Z.gtb_lt. apply Nat2Z.inj_lt in Hlt. rewrite Nat2Z.inj_div, Nat2Z.inj_mul, Nat2Z.inj_add in Hlt.
    rewrite !Z2Nat.id in Hlt by lia. exact Hlt.
  - destruct (Z.gtb_spec (size + 1) (Z.of_nat (length es) * ln / ld)) as [Hgt|Hle]; [|reflexivity].
    apply Nat2Z.inj_le in Hge. rewrite Nat2Z.inj_div, Nat2Z.inj_mul, Nat2Z.inj_add in Hge.
    rewrite !Z2Nat.id in Hge by lia. change (Z.of_nat 1) with 1 in Hge. lia.
Qed.
Print Assumptions gen_insert_growth_test_eq_model_partial.
