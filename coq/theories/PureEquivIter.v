(* PureEquivIter.v - the Gallina text regenerated from object.rs (gen/PureIter.v) equals the native cursors of the
   hand-written model YV.IterModel (vec_next, range_new, range_next).  Owner check: C18. *)
From Coq Require Import ZArith NArith List Bool Arith Lia.
From Coq Require Import Strings.Byte Floats.SpecFloat.
From YVGen Require PureIter.
From YV Require Import Num Index IterModel R2G R2GProofs.
Import ListNotations.
Open Scope Z_scope.

Definition cursor_view {A : Type} (r : option A * nat) : option A * Z := (fst r, Z.of_nat (snd r)).

Lemma geb_nat : forall a b : nat, (Z.of_nat a >=? Z.of_nat b) = (b <=? a)%nat.
Proof.
  intros a b. rewrite Z.geb_leb.
  destruct (Nat.leb_spec b a), (Z.leb_spec (Z.of_nat b) (Z.of_nat a)); try reflexivity; lia.
Qed.

(* decide every integer comparison of the goal (whatever operator the source uses: `a >= b`, `!(a < b)`, ..) and
   discard the impossible cases *)
Ltac z_decide :=
  repeat match goal with
  | |- context [?a >? ?b] => rewrite (Z.gtb_ltb a b)
  | |- context [?a >=? ?b] => rewrite (Z.geb_leb a b)
  | |- context [?a <? ?b] => destruct (Z.ltb_spec a b)
  | |- context [?a <=? ?b] => destruct (Z.leb_spec a b)
  | |- context [?a =? ?b] => destruct (Z.eqb_spec a b)
  end; cbn [negb]; try lia.

(* ObjVecIter::next: for every element list (the CURRENT contents of the vector) and every cursor *)
Theorem gen_vec_iter_next_eq_model : forall (xs : list value) cur,
  Z.of_nat (length xs) < 2 ^ 64 ->
  PureIter.ObjVecIter_next xs (Z.of_nat cur) = Val (cursor_view (vec_next xs cur)).
Proof.
  intros xs cur Hlen. unfold PureIter.ObjVecIter_next, vec_next, list_len.
  destruct (Nat.leb_spec (length xs) cur) as [Hge|Hlt]; z_decide; try reflexivity.
  all: rewrite list_index_nat;
    (destruct (nth_error xs cur) as [v|] eqn:E; [|apply nth_error_None in E; lia]);
    cbn [rbind]; (rewrite u_add_ok by lia); cbn [rbind]; unfold cursor_view; cbn [fst snd];
    do 3 f_equal; lia.
Qed.
Print Assumptions gen_vec_iter_next_eq_model.

(* ObjTupleIter::next: the same cursor over the (immutable) elements of the tuple *)
Theorem gen_tuple_iter_next_eq_model : forall (xs : list value) cur,
  Z.of_nat (length xs) < 2 ^ 64 ->
  PureIter.ObjTupleIter_next xs (Z.of_nat cur) = Val (cursor_view (vec_next xs cur)).
Proof.
  intros xs cur Hlen. unfold PureIter.ObjTupleIter_next, vec_next, list_len.
  destruct (Nat.leb_spec (length xs) cur) as [Hge|Hlt]; z_decide; try reflexivity.
  all: rewrite list_index_nat;
    (destruct (nth_error xs cur) as [v|] eqn:E; [|apply nth_error_None in E; lia]);
    cbn [rbind]; (rewrite u_add_ok by lia); cbn [rbind]; unfold cursor_view; cbn [fst snd];
    do 3 f_equal; lia.
Qed.
Print Assumptions gen_tuple_iter_next_eq_model.

(* ObjRangeIter::new: (current, step) *)
Theorem gen_range_iter_new_eq_model : forall b e, PureIter.ObjRangeIter_new b e = range_new b e.
Proof. intros b e. unfold PureIter.ObjRangeIter_new, range_new. cbv zeta. destruct (b <? e); reflexivity. Qed.
Print Assumptions gen_range_iter_new_eq_model.

(* ObjRangeIter::next; the model's numbers are integers, the code's are `current as f64` *)
Definition range_item_view (o : option value) : option rvalue :=
  match o with Some (VNum z) => Some (RNumber (f64_of_Z z)) | _ => None end.

Theorem gen_range_iter_next_eq_model : forall e cur step,
  in_isize (cur + step) = true ->
  PureIter.ObjRangeIter_next e cur step =
  Val (range_item_view (fst (range_next e cur step)), snd (range_next e cur step)).
Proof.
  intros e cur step Hr. unfold PureIter.ObjRangeIter_next, range_next.
  destruct (cur =? e); [reflexivity|]. cbv zeta.
  rewrite s_add_ok; [reflexivity|].
  unfold in_isize, isize_min, isize_max in Hr. apply andb_true_iff in Hr. destruct Hr as [H1 H2].
  apply Z.leb_le in H1, H2. change (64 - 1) with 63. lia.
Qed.
Print Assumptions gen_range_iter_next_eq_model.

(* a cursor started by `new` walks towards `end` one step at a time, so the side condition of
   gen_range_iter_next_eq_model holds along every iteration of a range whose ends are isize values *)
Example range_walk_in_isize : forall b e, in_isize b = true -> in_isize e = true -> b <> e ->
  in_isize (b + snd (range_new b e)) = true.
Proof.
  intros b e Hb He Hne. unfold range_new, in_isize, isize_min, isize_max in *. cbn [snd].
  apply andb_true_iff in Hb, He. destruct Hb as [B1 B2], He as [E1 E2].
  apply Z.leb_le in B1, B2, E1, E2. apply andb_true_iff.
  destruct (Z.ltb_spec b e); split; apply Z.leb_le; lia.
Qed.
