(* PureEquivNum.v - the Gallina text regenerated from utils.rs (gen/PureNum.v) equals the hand-written model.
   Owner check: C12 (hashing of number keys). *)
From Coq Require Import ZArith List Bool Lia.
From Coq Require Import Floats.SpecFloat.
From YVGen Require PureNum.
From YV Require Import Num NumProofs ValueEq R2G R2GProofs.
Open Scope Z_scope.

(* the mixing steps alone: generated text after the two conversions = Num.hash_bits, for every 64-bit pattern.
   Both sides are the same composition of `mod 2^128`, `/ 2^k`, `lxor`: after unfolding and inlining the lets
   the terms are convertible (the powers of two are closed terms). *)
Lemma gen_hash_mix_eq : forall x, feqb x f64_zero = false -> bits_of_f64 x mod two64 = bits_of_f64 x ->
  PureNum.hash_number x = hash_bits (bits_of_f64 x).
Proof.
  intros x Hz Hb. unfold PureNum.hash_number, hash_bits. rewrite Hz. cbv zeta. rewrite Hb.
  reflexivity.
Qed.

Lemma feqb_zero_cases : forall x, feqb x f64_zero = match x with S754_zero _ => true | _ => false end.
Proof. intros [s|s| |s m e]; try reflexivity; destruct s; reflexivity. Qed.

(* utils::hash_number = the model used by C12: -0 is hashed as +0, every other number by its bit pattern *)
Theorem gen_hash_number_eq_model : forall x, f64_valid x = true ->
  PureNum.hash_number x = hash_number' true x.
Proof.
  intros x Hv. unfold hash_number'.
  destruct x as [s|s| |s m e].
  - destruct s; vm_compute; reflexivity.
  - apply gen_hash_mix_eq; [apply feqb_zero_cases|]. apply Z.mod_small. apply bits_of_f64_range. exact Hv.
  - apply gen_hash_mix_eq; [apply feqb_zero_cases|]. reflexivity.
  - apply gen_hash_mix_eq; [apply feqb_zero_cases|]. apply Z.mod_small. apply bits_of_f64_range. exact Hv.
Qed.
Print Assumptions gen_hash_number_eq_model.

(* values observed from the Rust function (NumProofs.hash_number_one): the generated text computes them *)
Example gen_hash_number_one : PureNum.hash_number f64_one = 8795510066819036384.
Proof. vm_compute. reflexivity. Qed.
Example gen_hash_number_neg_zero : PureNum.hash_number f64_neg_zero = 0.
Proof. vm_compute. reflexivity. Qed.
