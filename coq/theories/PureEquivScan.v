(* PureEquivScan.v - the Gallina text regenerated from scanner.rs (gen/PureScan.v) equals the hand-written scanner
   model YV.Scanner.  Owner checks: C19 / C03.

   The model cuts the source ONCE into characters ([chars_of]) and runs over that list; the Rust code keeps a byte
   cursor `current` and looks for the next char boundary each time.  The tie between the two is the invariant of
   ScannerProofs.inv:   chars_of src = pre ++ rest   and   current = clen pre.
   Under it the generated cursor functions return exactly the head of [rest] and move the cursor past it. *)
From Coq Require Import ZArith NArith List Bool Arith Lia.
From Coq Require Import Strings.Byte.
From YVGen Require PureScan.
From YV Require Import Num Utf8 Utf8Proofs Scanner ScannerProofs StrFns.
From YV Require Import R2G R2GProofs R2GStr R2GStrProofs.
Import ListNotations.
Open Scope Z_scope.

(* ------------------------------------------------------------------------------------------ *)
(* shape of the characters cut by chars_of: every byte after the first is a continuation byte   *)

Lemma chars_of_tails_cont : forall l, Forall (fun c => forallb is_cont (tl c) = true) (chars_of l).
Proof.
  induction l as [|b r IH]; [constructor|]. rewrite chars_of_cons.
  destruct (chars_of r) as [|c cs] eqn:E; [repeat constructor|].
  inversion IH as [|? ? Hc Hcs]; subst.
  destruct (starts_with_cont c) eqn:S.
  - constructor; [|exact Hcs]. cbn [tl]. destruct c as [|x t]; [discriminate|].
    cbn [starts_with_cont] in S. cbn [forallb tl] in *. rewrite S, Hc. reflexivity.
  - constructor; [reflexivity|]. constructor; assumption.
Qed.

Section Cursor.
  Variables (src : list byte) (pre : list chr) (c : chr) (r : list chr).
  Hypothesis Hsplit : chars_of src = pre ++ c :: r.

  Let pos := clen pre.

  Lemma src_split : src = concat pre ++ c ++ concat r.
  Proof. rewrite <- (chars_of_concat_id src), Hsplit, concat_app. reflexivity. Qed.

  Lemma c_nonempty : c <> [].
  Proof.
    pose proof (chars_of_nonempty src) as NE. rewrite Hsplit in NE.
    apply Forall_app in NE. destruct NE as [_ NE]. inversion NE; assumption.
  Qed.

  Lemma c_tail_cont : forallb is_cont (tl c) = true.
  Proof.
    pose proof (chars_of_tails_cont src) as T. rewrite Hsplit in T.
    apply Forall_app in T. destruct T as [_ T]. inversion T; assumption.
  Qed.

  Lemma len_src : length src = (pos + length c + clen r)%nat.
  Proof. rewrite src_split at 1. rewrite !app_length. unfold pos, clen. lia. Qed.

  Lemma pos_boundary : is_char_boundary src pos = true.
  Proof. apply (chars_of_boundary src pre (c :: r)). exact Hsplit. Qed.

  Lemma next_boundary : is_char_boundary src (pos + length c) = true.
  Proof.
    replace (pos + length c)%nat with (clen (pre ++ [c])).
    - apply (chars_of_boundary src (pre ++ [c]) r). rewrite <- app_assoc. exact Hsplit.
    - rewrite clen_app. unfold pos, clen. cbn [concat]. rewrite app_nil_r. reflexivity.
  Qed.

  Lemma inside_not_boundary : forall j, (0 < j < length c)%nat -> is_char_boundary src (pos + j) = false.
  Proof.
    intros j Hj. unfold is_char_boundary. destruct (pos + j)%nat as [|k] eqn:E; [lia|]. rewrite <- E.
    rewrite src_split. rewrite nth_error_app2 by (unfold pos, clen; lia).
    replace (pos + j - length (concat pre))%nat with j by (unfold pos, clen; lia).
    rewrite nth_error_app1 by lia.
    pose proof c_tail_cont as T. clear E k. revert T Hj. generalize c as cc. intros cc T Hj.
    destruct cc as [|x t]; [cbn in Hj; lia|]. destruct j as [|j]; [lia|]. cbn [nth_error].
    cbn [tl] in T.
    destruct (nth_error t j) as [b|] eqn:N.
    - rewrite forallb_forall in T. rewrite (T b); [reflexivity|]. eapply nth_error_In; exact N.
    - apply nth_error_None in N. cbn [length] in Hj. lia.
  Qed.

  (* the slice between the cursor and the next boundary is the head of the remaining characters *)
  Lemma slice_head : StrFns.str_slice src pos (pos + length c) = Some c.
  Proof.
    unfold StrFns.str_slice. rewrite pos_boundary, next_boundary.
    destruct (Nat.leb_spec pos (pos + length c)); [|lia].
    destruct (Nat.leb_spec (pos + length c) (length src)); [|rewrite len_src in *; lia].
    cbn [andb]. f_equal. replace (pos + length c - pos)%nat with (length c) by lia.
    rewrite src_split. unfold pos, clen. apply firstn_skipn_mid.
  Qed.
End Cursor.

(* the generated search for the next boundary: ONE turn of whatever body was generated tests one position *)
Lemma first_boundary_for_in : forall (body : Z -> unit -> R2G.res (step unit Z)) s,
  (forall p, body (Z.of_nat p) tt = Val (if is_char_boundary s p then Return (Z.of_nat p) else Continue tt)) ->
  forall a n,
  (forall j, (a <= j < a + n)%nat -> is_char_boundary s j = false) ->
  (forall m, is_char_boundary s (a + n) = true ->
     for_in (map Z.of_nat (seq a (n + S m))) body tt = Val (inr (Z.of_nat (a + n)))) /\
  for_in (map Z.of_nat (seq a n)) body tt = Val (inl tt).
Proof.
  intros body s Hb a n. revert a. induction n as [|n IH]; intros a Hno.
  - split; [|reflexivity]. intros m Hm. cbn [Nat.add seq map for_in]. rewrite Hb.
    rewrite Nat.add_0_r in Hm. rewrite Hm. rewrite Nat.add_0_r. reflexivity.
  - destruct (IH (S a)) as [IH1 IH2]; [intros j Hj; apply Hno; lia|].
    split.
    + intros m Hm. cbn [Nat.add seq map for_in]. rewrite Hb, (Hno a) by lia.
      replace (a + S n)%nat with (S a + n)%nat in * by lia. apply IH1. exact Hm.
    + cbn [seq map for_in]. rewrite Hb, (Hno a) by lia. exact IH2.
Qed.

(* ------------------------------------------------------------------------------------------ *)
(* Scanner::is_at_end, get_next_char_boundary, peek, advance, match_char, peek_next               *)

Theorem pure_is_at_end_eq : forall src pre rest,
  chars_of src = pre ++ rest ->
  PureScan.Scanner_is_at_end src (Z.of_nat (clen pre)) = match rest with [] => true | _ => false end.
Proof.
  intros src pre rest H. unfold PureScan.Scanner_is_at_end, list_len.
  rewrite Z.geb_leb, leb_nat_Z.
  destruct rest as [|c r].
  - rewrite app_nil_r in H. rewrite <- (chars_of_concat_id src), H. unfold clen. apply Nat.leb_refl.
  - rewrite (len_src src pre c r H). pose proof (c_nonempty src pre c r H) as Hc.
    destruct c as [|x t]; [congruence|]. cbn [length]. apply Nat.leb_gt. lia.
Qed.
Print Assumptions pure_is_at_end_eq.

Theorem pure_get_next_char_boundary_eq : forall src pre c r,
  chars_of src = pre ++ c :: r -> Z.of_nat (length src) < 2 ^ 64 ->
  PureScan.Scanner_get_next_char_boundary src (Z.of_nat (clen pre)) = Val (Z.of_nat (clen pre + length c)).
Proof.
  intros src pre c r H Hlen. unfold PureScan.Scanner_get_next_char_boundary, list_len.
  pose proof (len_src src pre c r H) as HL. pose proof (c_nonempty src pre c r H) as Hc.
  assert (Hc1 : (1 <= length c)%nat) by (destruct c; [congruence|cbn; lia]).
  rewrite u_add_ok by lia. cbn [rbind].
  replace (Z.of_nat (clen pre) + 1) with (Z.of_nat (clen pre + 1)) by lia.
  rewrite z_range_seq.
  match goal with |- context [for_in _ ?b _] =>
    pose proof (first_boundary_for_in b src) as Hloop end.
  match type of Hloop with ?A -> _ => assert (Hb : A) end.
  { intros p. cbv beta. rewrite str_is_char_boundary_nat. destruct (is_char_boundary src p); reflexivity. }
  specialize (Hloop Hb (clen pre + 1)%nat (length c - 1)%nat).
  destruct Hloop as [L1 L2].
  { intros j Hj. replace j with (clen pre + (j - clen pre))%nat by lia.
    apply (inside_not_boundary src pre c r H). lia. }
  destruct r as [|c2 r2].
  - (* the last character: the loop runs to the end and the function answers source.len() *)
    replace (length src - (clen pre + 1))%nat with (length c - 1)%nat by (rewrite HL; unfold clen; cbn; lia).
    rewrite L2. cbn [rbind]. f_equal. rewrite HL. unfold clen. cbn [concat length]. lia.
  - pose proof (c_nonempty src (pre ++ [c]) c2 r2 ltac:(rewrite <- app_assoc; exact H)) as Hc2.
    assert (Hc21 : (1 <= length c2)%nat) by (destruct c2; [congruence|cbn; lia]).
    replace (length src - (clen pre + 1))%nat
      with (length c - 1 + S (length src - (clen pre + 1) - (length c - 1) - 1))%nat
      by (rewrite HL; rewrite clen_cons; lia).
    rewrite L1.
    + cbn [rbind]. f_equal. lia.
    + replace (clen pre + 1 + (length c - 1))%nat with (clen pre + length c)%nat by lia.
      apply (next_boundary src pre c (c2 :: r2) H).
Qed.
Print Assumptions pure_get_next_char_boundary_eq.

Lemma slice_head_z : forall src pre c r, chars_of src = pre ++ c :: r ->
  str_slice_z src (Z.of_nat (clen pre)) (Z.of_nat (clen pre + length c)) = Val c.
Proof. intros src pre c r H. rewrite str_slice_z_nat, (slice_head src pre c r H). reflexivity. Qed.

(* peek(): the head of the remaining characters *)
Theorem pure_peek_eq : forall src pre c r,
  chars_of src = pre ++ c :: r -> Z.of_nat (length src) < 2 ^ 64 ->
  PureScan.Scanner_peek src (Z.of_nat (clen pre)) = Val c.
Proof.
  intros src pre c r H Hlen. unfold PureScan.Scanner_peek.
  rewrite (pure_get_next_char_boundary_eq src pre c r H Hlen). cbn [rbind].
  apply (slice_head_z src pre c r H).
Qed.
Print Assumptions pure_peek_eq.

(* advance(): returns the head and moves the cursor behind it *)
Theorem pure_advance_eq : forall src pre c r,
  chars_of src = pre ++ c :: r -> Z.of_nat (length src) < 2 ^ 64 ->
  PureScan.Scanner_advance src (Z.of_nat (clen pre)) = Val (c, Z.of_nat (clen (pre ++ [c]))).
Proof.
  intros src pre c r H Hlen. unfold PureScan.Scanner_advance. cbv zeta.
  rewrite (pure_get_next_char_boundary_eq src pre c r H Hlen). cbn [rbind].
  rewrite (slice_head_z src pre c r H). cbn [rbind]. do 3 f_equal.
  rewrite clen_app. unfold clen. cbn [concat]. rewrite app_nil_r. reflexivity.
Qed.
Print Assumptions pure_advance_eq.

(* match_char(expected), expected a one-byte string: Scanner.match_chr *)
Theorem pure_match_char_eq : forall src pre rest b,
  chars_of src = pre ++ rest -> Z.of_nat (length src) < 2 ^ 64 ->
  PureScan.Scanner_match_char src (Z.of_nat (clen pre)) [b] =
  Val (fst (match_chr rest b),
       Z.of_nat (clen pre + (if fst (match_chr rest b) then 1 else 0))).
Proof.
  intros src pre rest b H Hlen. unfold PureScan.Scanner_match_char.
  rewrite (pure_is_at_end_eq src pre rest H).
  destruct rest as [|c r]; [cbn [match_chr fst]; do 3 f_equal; lia|].
  rewrite (pure_get_next_char_boundary_eq src pre c r H Hlen). cbn [rbind].
  rewrite (slice_head_z src pre c r H). cbn [rbind match_chr].
  assert (E : str_eqb c [b] = chr_is c b).
  { unfold chr_is. destruct c as [|x [|y t]]; cbn [str_eqb]; try reflexivity.
    - rewrite andb_true_r. reflexivity.
    - apply andb_false_r. }
  rewrite E. destruct (chr_is c b) eqn:C; cbn [negb fst].
  - apply chr_is_eq in C. subst c. cbn [length]. reflexivity.
  - do 3 f_equal. lia.
Qed.
Print Assumptions pure_match_char_eq.

(* peek_next(): the second of the remaining characters, "" if there is none (with ONE character left both
   boundary searches answer source.len() and the slice [len..len] is empty) *)
Theorem pure_peek_next_eq : forall src pre rest,
  chars_of src = pre ++ rest -> Z.of_nat (length src) + 1 < 2 ^ 64 ->
  PureScan.Scanner_peek_next src (Z.of_nat (clen pre)) =
  Val (match rest with _ :: c2 :: _ => c2 | _ => [] end).
Proof.
  intros src pre rest H Hlen1. assert (Hlen : Z.of_nat (length src) < 2 ^ 64) by lia.
  unfold PureScan.Scanner_peek_next.
  rewrite (pure_is_at_end_eq src pre rest H).
  destruct rest as [|c [|c2 r2]].
  - reflexivity.
  - rewrite (pure_get_next_char_boundary_eq src pre c [] H Hlen). cbn [rbind].
    assert (HL : (clen pre + length c)%nat = length src).
    { rewrite (len_src src pre c [] H). unfold clen. cbn [concat length]. lia. }
    rewrite HL.
    unfold PureScan.Scanner_get_next_char_boundary, list_len. rewrite u_add_ok by lia. cbn [rbind].
    unfold z_range. replace (Z.to_nat (Z.of_nat (length src) - (Z.of_nat (length src) + 1))) with 0%nat by lia.
    cbn [seq map for_in rbind].
    rewrite str_slice_z_nat. unfold StrFns.str_slice. rewrite boundary_len, Nat.leb_refl. cbn [andb].
    rewrite Nat.sub_diag. reflexivity.
  - rewrite (pure_get_next_char_boundary_eq src pre c (c2 :: r2) H Hlen). cbn [rbind].
    assert (H2 : chars_of src = (pre ++ [c]) ++ c2 :: r2) by (rewrite <- app_assoc; exact H).
    replace (clen pre + length c)%nat with (clen (pre ++ [c]))
      by (rewrite clen_app; unfold clen; cbn [concat]; rewrite app_nil_r; reflexivity).
    rewrite (pure_get_next_char_boundary_eq src (pre ++ [c]) c2 r2 H2 Hlen). cbn [rbind].
    apply (slice_head_z src (pre ++ [c]) c2 r2 H2).
Qed.
Print Assumptions pure_peek_next_eq.

(* ------------------------------------------------------------------------------------------ *)
(* fn is_alpha / fn is_digit on ONE character (what `advance()` / `peek()` hand them: the encoding of exactly
   one code point - the source is a Rust String, hence valid UTF-8)                              *)

Lemma decode_fuel_nil_inv : forall f r, decode_fuel f r = Some [] -> r = [].
Proof.
  intros f [|b r]; [reflexivity|]. destruct f; cbn [decode_fuel]; intros H; [discriminate|].
  destruct (next_char (b :: r)) as [[c r']|]; [|discriminate]. destruct (decode_fuel f r'); discriminate.
Qed.

Ltac width_facts W :=
  unfold char_width in W;
  repeat match type of W with context [N.ltb ?a ?b] => destruct (N.ltb_spec a b) end; try discriminate.

Lemma single_char_cases : forall c cp, decode c = Some [cp] ->
  (exists b, c = [b] /\ cp = bN b /\ (bN b < 128)%N) \/ ((2 <= length c)%nat /\ (128 <= cp)%N).
Proof.
  intros c cp H. unfold decode in H. destruct c as [|b0 r0]; [discriminate|].
  cbn [length decode_fuel] in H.
  destruct (next_char (b0 :: r0)) as [[c1 r1]|] eqn:N; [|discriminate].
  destruct (decode_fuel (length r0) r1) as [l|] eqn:D; [|discriminate].
  cbn [option_map] in H. inversion H; subst. apply decode_fuel_nil_inv in D. subst r1.
  unfold next_char in N.
  destruct (char_width b0) as [|[|[|[|[|w]]]]] eqn:W; try discriminate.
  - inversion N; subst. left. exists b0. width_facts W. repeat split. assumption.
  - destruct r0 as [|b1 r1]; [discriminate|]. destruct (is_cont b1); [|discriminate]. inversion N; subst.
    right. split; [cbn [length]; lia|]. width_facts W. unfold cont_val. lia.
  - destruct r0 as [|b1 [|b2 r2]]; try discriminate.
    match type of N with (if ?CC then _ else _) = _ => destruct CC eqn:C; [|discriminate] end.
    inversion N; subst. right. split; [cbn [length]; lia|].
    apply andb_true_iff in C. destruct C as [C _]. apply andb_true_iff in C. destruct C as [_ C].
    apply N.leb_le in C. lia.
  - destruct r0 as [|b1 [|b2 [|b3 r3]]]; try discriminate.
    match type of N with (if ?CC then _ else _) = _ => destruct CC eqn:C; [|discriminate] end.
    inversion N; subst. right. split; [cbn [length]; lia|].
    apply andb_true_iff in C. destruct C as [C _]. apply andb_true_iff in C. destruct C as [_ C].
    apply N.leb_le in C. lia.
Qed.

Ltac decide_cmps :=
  repeat match goal with
  | |- context [(?a <=? ?b)%N] => destruct (N.leb_spec a b)
  | |- context [(?a =? ?b)%N] => destruct (N.eqb_spec a b)
  | |- context [?a <=? ?b] => destruct (Z.leb_spec a b)
  | |- context [?a =? ?b] => destruct (Z.eqb_spec a b)
  end; try reflexivity; try lia.

(* on the empty string (what `peek()` answers at the end of the input) and on one character *)
Theorem pure_is_alpha_eq : forall c, c = [] \/ (exists cp, decode c = Some [cp]) -> PureScan.is_alpha c = Scanner.is_alpha c.
Proof.
  intros c [->|[cp H]]; [reflexivity|]. unfold PureScan.is_alpha, str_chars, code_points. rewrite H. cbn [map forallb]. rewrite andb_true_r.
  destruct (single_char_cases c cp H) as [[b [-> [-> Hb]]]|[Hl Hc]].
  - cbn [str_is_empty negb andb Scanner.is_alpha]. unfold is_alpha_byte, char_is_ascii_alphabetic, bN in *.
    cbv zeta. set (n := Byte.to_N b) in *. decide_cmps.
  - destruct c as [|x [|y t]]; [cbn in Hl; lia|cbn in Hl; lia|].
    cbn [str_is_empty negb andb Scanner.is_alpha]. unfold char_is_ascii_alphabetic. decide_cmps.
Qed.
Print Assumptions pure_is_alpha_eq.

(* on the empty string (what `peek()` answers at the end of the input) and on one character *)
Theorem pure_is_digit_eq : forall c, c = [] \/ (exists cp, decode c = Some [cp]) -> PureScan.is_digit c = Scanner.is_digit_chr c.
Proof.
  intros c [->|[cp H]]; [reflexivity|]. unfold PureScan.is_digit, str_chars, code_points. rewrite H. cbn [map forallb]. rewrite andb_true_r.
  destruct (single_char_cases c cp H) as [[b [-> [-> Hb]]]|[Hl Hc]].
  - cbn [str_is_empty negb andb Scanner.is_digit_chr]. unfold NumText.is_digit, char_is_ascii_digit, bN in *.
    cbv zeta. set (n := Byte.to_N b) in *. decide_cmps.
  - destruct c as [|x [|y t]]; [cbn in Hl; lia|cbn in Hl; lia|].
    cbn [str_is_empty negb andb Scanner.is_digit_chr]. unfold char_is_ascii_digit. decide_cmps.
Qed.
Print Assumptions pure_is_digit_eq.

(* ------------------------------------------------------------------------------------------ *)
(* Scanner::skip_whitespace against Scanner.skip_ws                                             *)

Lemma str_eqb_chr : forall c b, str_eqb c [b] = chr_is c b.
Proof.
  intros c b. unfold chr_is. destruct c as [|x [|y t]]; cbn [str_eqb]; try reflexivity.
  - rewrite andb_true_r. reflexivity.
  - apply andb_false_r.
Qed.

(* the characters of a `//` comment: up to, not including, the newline *)
Fixpoint span_comment (cs : list chr) : list chr * list chr :=
  match cs with
  | [] => ([], [])
  | c :: r => if chr_is c "010" then ([], cs) else let '(a, b) := span_comment r in (c :: a, b)
  end.

Lemma span_comment_app : forall cs, cs = fst (span_comment cs) ++ snd (span_comment cs).
Proof.
  induction cs as [|c r IH]; [reflexivity|]. cbn [span_comment]. destruct (chr_is c "010"); [reflexivity|].
  destruct (span_comment r) as [a b]. cbn [fst snd app] in *. congruence.
Qed.

(* the model in comment mode = skipping the comment, then going on in normal mode (where the newline is handled) *)
Lemma skip_ws_comment : forall cs pos line,
  skip_ws true cs pos line =
  skip_ws false (snd (span_comment cs)) (pos + clen (fst (span_comment cs))) line.
Proof.
  induction cs as [|c r IH]; intros pos line.
  - cbn. rewrite Nat.add_0_r. reflexivity.
  - cbn [skip_ws span_comment]. destruct (chr_is c "010") eqn:N.
    + cbn [fst snd]. rewrite clen_nil, Nat.add_0_r. apply chr_is_eq in N. subst c. reflexivity.
    + rewrite IH. destruct (span_comment r) as [a b]. cbn [fst snd]. rewrite clen_cons. f_equal. lia.
Qed.

Definition is_blank (c : chr) : bool := chr_is c " " || chr_is c "013" || chr_is c "009".

(* one turn of the outer loop of skip_whitespace, on the model side *)
Definition ws_turn (cs : list chr) (pos : nat) (line : Z) : step (nat * Z) (nat * Z) :=
  match cs with
  | [] => Return (pos, line)
  | c :: r =>
    if is_blank c then Continue ((pos + length c)%nat, line)
    else if chr_is c "010" then Continue ((pos + length c)%nat, line + 1)
    else if chr_is c "/" then
      match r with
      | c2 :: _ => if chr_is c2 "/" then Continue ((pos + clen (fst (span_comment cs)))%nat, line) else Return (pos, line)
      | [] => Return (pos, line)
      end
    else Return (pos, line)
  end.

Definition st_view (s : nat * Z) : Z * Z := (Z.of_nat (fst s), snd s).

Ltac ws_done :=
  cbn [ws_turn map_step skip_ws]; unfold st_view; cbn [fst snd]; eexists; split;
  [reflexivity | cbn [fst snd]; rewrite ?Z2N.id by lia; reflexivity].

Section SkipWs.
  Variable src : list byte.
  Variable fuel : nat.
  Hypothesis Hlen : Z.of_nat (length src) + 1 < 2 ^ 64.
  Hypothesis Hfuel : (length (chars_of src) < fuel)%nat.

  Lemma Hlen' : Z.of_nat (length src) < 2 ^ 64. Proof. lia. Qed.

  Lemma clen_snoc : forall pre c, clen (pre ++ [c]) = (clen pre + length c)%nat.
  Proof. intros. rewrite clen_app. unfold clen. cbn [concat]. rewrite app_nil_r. reflexivity. Qed.

  (* the inner `while !is_at_end() && peek() != "\n" { advance(); }`: whatever body was generated, if one turn of it
     looks at the next character as below, the loop stops in front of the newline (or at the end) *)
  Lemma comment_loop : forall (body : Z -> R2G.res (step Z Empty_set)),
    (forall pre cs, chars_of src = pre ++ cs ->
       body (Z.of_nat (clen pre)) =
       Val (match cs with
            | [] => Break (Z.of_nat (clen pre))
            | c :: _ => if chr_is c "010" then Break (Z.of_nat (clen pre)) else Continue (Z.of_nat (clen (pre ++ [c])))
            end)) ->
    forall cs pre k, chars_of src = pre ++ cs -> (length cs < k)%nat ->
    loop k body (Z.of_nat (clen pre)) = Val (inl (Z.of_nat (clen pre + clen (fst (span_comment cs))))).
  Proof.
    intros body Hb. induction cs as [|c r IH]; intros pre k H Hk.
    - destruct k as [|k]; [cbn in Hk; lia|]. cbn [loop]. rewrite (Hb pre [] H). cbn. rewrite Nat.add_0_r. reflexivity.
    - destruct k as [|k]; [cbn in Hk; lia|]. cbn [loop]. rewrite (Hb pre (c :: r) H). cbn [span_comment].
      destruct (chr_is c "010"); [cbn [fst]; rewrite clen_nil, Nat.add_0_r; reflexivity|].
      rewrite (IH (pre ++ [c]) k) by (rewrite <- ?app_assoc; cbn in *; try exact H; lia).
      destruct (span_comment r) as [a b]. cbn [fst]. rewrite clen_snoc, clen_cons. do 3 f_equal. lia.
  Qed.

  (* the whole function: iterate [ws_turn] *)
  Lemma ws_iter : forall (body : Z * Z -> R2G.res (step (Z * Z) (Z * Z))),
    (forall pre cs line, chars_of src = pre ++ cs -> 0 <= line -> line + Z.of_nat (length cs) < 2 ^ 64 ->
       body (Z.of_nat (clen pre), line) =
       Val (map_step st_view st_view (ws_turn cs (clen pre) line))) ->
    forall n cs pre line k, (length cs <= n)%nat -> chars_of src = pre ++ cs -> (length cs < k)%nat ->
      0 <= line -> line + Z.of_nat (length cs) < 2 ^ 64 ->
    exists line', 
      loop k body (Z.of_nat (clen pre), line) =
      Val (inr (Z.of_nat (snd (fst (skip_ws false cs (clen pre) (Z.to_N line)))), line')) /\
      line' = Z.of_N (snd (skip_ws false cs (clen pre) (Z.to_N line))).
  Proof.
    intros body Hb. induction n as [|n IH]; intros cs pre line k Hn H Hk Hl0 Hl1.
    - destruct cs; [|cbn in Hn; lia]. destruct k as [|k]; [lia|]. cbn [loop]. rewrite (Hb pre [] line H Hl0 Hl1).
      ws_done.
    - destruct k as [|k]; [lia|]. cbn [loop]. rewrite (Hb pre cs line H Hl0 Hl1).
      destruct cs as [|c r]; [ws_done|].
      assert (Hc : (1 <= length c)%nat).
      { pose proof (c_nonempty src pre c r H) as Hne. destruct c; [congruence|cbn; lia]. }
      cbn [ws_turn skip_ws]. unfold is_blank.
      assert (H2 : chars_of src = (pre ++ [c]) ++ r) by (rewrite <- app_assoc; exact H).
      destruct (chr_is c " " || chr_is c "013" || chr_is c "009") eqn:B.
      + cbn [map_step st_view fst snd].
        assert (Lc : length c = 1%nat).
        { apply orb_true_iff in B. destruct B as [B|B]; [apply orb_true_iff in B; destruct B as [B|B]|];
          apply chr_is_eq in B; subst c; reflexivity. }
        unfold st_view. cbn [fst snd].
        rewrite <- clen_snoc. destruct (IH r (pre ++ [c]) line k) as [l' [E1 E2]]; cbn [length] in *; try lia; try exact H2.
        rewrite E1. subst l'. rewrite clen_snoc, Lc. eexists; split; reflexivity.
      + destruct (chr_is c "010") eqn:N.
        * cbn [map_step st_view fst snd]. apply chr_is_eq in N. subst c. cbn [length] in *.
          unfold st_view. cbn [fst snd].
          replace (clen pre + 1)%nat with (clen (pre ++ [["010"%byte]])) by (rewrite clen_snoc; reflexivity).
          destruct (IH r (pre ++ [["010"%byte]]) (line + 1) k) as [l' [E1 E2]]; cbn [length] in *; try lia; try exact H2.
          rewrite E1. subst l'. replace (Z.to_N (line + 1)) with (Z.to_N line + 1)%N by lia.
          eexists; split; reflexivity.
        * destruct (chr_is c "/") eqn:S; [|ws_done].
          destruct r as [|c2 r2]; [ws_done|].
          destruct (chr_is c2 "/") eqn:S2; [|ws_done].
          cbn [map_step]. unfold st_view. cbn [fst snd].
          (* the comment: the model goes on in comment mode from the second slash *)
          apply chr_is_eq in S. subst c.
          rewrite (skip_ws_comment (c2 :: r2)).
          set (cs := ["/"%byte] :: c2 :: r2) in *.
          assert (Hsp : fst (span_comment cs) = ["/"%byte] :: fst (span_comment (c2 :: r2)) /\
                        snd (span_comment cs) = snd (span_comment (c2 :: r2))).
          { unfold cs. cbn [span_comment]. change (chr_is ["/"%byte] "010") with false. cbv iota.
            destruct (span_comment (c2 :: r2)) as [a b] eqn:E.
            cbn [span_comment] in E. rewrite E. split; reflexivity. }
          destruct Hsp as [Hs1 Hs2].
          assert (Lcs : length cs = S (S (length r2))) by reflexivity.
          pose proof (span_comment_app cs) as Happ.
          assert (H3 : chars_of src = (pre ++ fst (span_comment cs)) ++ snd (span_comment cs))
            by (rewrite <- app_assoc, <- Happ; exact H).
          assert (Hls : (length (snd (span_comment cs)) <= n)%nat).
          { assert (length cs = length (fst (span_comment cs)) + length (snd (span_comment cs)))%nat
              by (rewrite Happ at 1; apply app_length).
            rewrite Hs1 in H0. cbn [length] in *. lia. }
          assert (Hll : (length (snd (span_comment cs)) < length cs)%nat).
          { assert (length cs = length (fst (span_comment cs)) + length (snd (span_comment cs)))%nat
              by (rewrite Happ at 1; apply app_length). rewrite Hs1 in H0. cbn [length] in H0. lia. }
          change (length (["/"%byte] :: c2 :: r2)) with (length cs) in Hk, Hn, Hl1.
          rewrite <- clen_app.
          destruct (IH (snd (span_comment cs)) (pre ++ fst (span_comment cs)) line k) as [l' [E1 E2]];
            try lia; try exact H3; try (cbn [length] in *; lia).
          subst cs.
          assert (EAB : skip_ws false (snd (span_comment (c2 :: r2)))
                          (clen pre + 1 + clen (fst (span_comment (c2 :: r2)))) (Z.to_N line) =
                        skip_ws false (snd (span_comment (["/"%byte] :: c2 :: r2)))
                          (clen (pre ++ fst (span_comment (["/"%byte] :: c2 :: r2)))) (Z.to_N line)).
          { rewrite Hs2, clen_app, Hs1, clen_cons. cbn [length]. f_equal. lia. }
          rewrite EAB. exists l'. split; [exact E1|exact E2].
  Qed.
End SkipWs.

Ltac eval_str_lits :=
  repeat match goal with |- context [str_lit ?s] =>
    let v := eval vm_compute in (str_lit s) in change (str_lit s) with v end.

Theorem pure_skip_whitespace_eq : forall src fuel pre rest line,
  chars_of src = pre ++ rest ->
  Z.of_nat (length src) + 1 < 2 ^ 64 -> (length (chars_of src) < fuel)%nat ->
  Z.of_N line + Z.of_nat (length rest) < 2 ^ 64 ->
  PureScan.Scanner_skip_whitespace fuel src (Z.of_nat (clen pre)) (Z.of_N line) =
  Val (Z.of_nat (snd (fst (skip_ws false rest (clen pre) line))), Z.of_N (snd (skip_ws false rest (clen pre) line))).
Proof.
  intros src fuel pre rest line H Hlen Hfuel Hline.
  assert (Hlen' : Z.of_nat (length src) < 2 ^ 64) by lia.
  unfold PureScan.Scanner_skip_whitespace.
  match goal with |- rbind (loop fuel ?b _) _ = _ => pose proof (ws_iter src fuel Hfuel b) as Hit end.
  match type of Hit with ?A -> _ => assert (Hb : A) end.
  { clear pre rest line H Hline. intros pre cs line H Hl0 Hl1. cbv beta iota.
    rewrite (pure_is_at_end_eq src pre cs H).
    destruct cs as [|c r]; [reflexivity|].
    rewrite (pure_peek_eq src pre c r H Hlen'). cbn [rbind]. eval_str_lits. rewrite !str_eqb_chr.
    cbn [ws_turn]. unfold is_blank.
    pose proof (pure_advance_eq src pre c r H Hlen') as Hadv.
    assert (Hsn : forall l, (Z.of_nat (clen (pre ++ [c])), l) = st_view ((clen pre + length c)%nat, l))
      by (intros l; unfold st_view; cbn [fst snd]; rewrite clen_snoc; reflexivity).
    destruct (chr_is c " ") eqn:B1; cbn [orb].
    { rewrite Hadv. cbn [rbind map_step]. rewrite Hsn. reflexivity. }
    destruct (chr_is c "013") eqn:B2; cbn [orb].
    { rewrite Hadv. cbn [rbind map_step]. rewrite Hsn. reflexivity. }
    destruct (chr_is c "009") eqn:B3; cbn [orb].
    { rewrite Hadv. cbn [rbind map_step]. rewrite Hsn. reflexivity. }
    destruct (chr_is c "010") eqn:B4.
    { cbn [length] in Hl1. rewrite u_add_ok by lia. cbn [rbind]. rewrite Hadv. cbn [rbind map_step]. rewrite Hsn. reflexivity. }
    destruct (chr_is c "/") eqn:B5; [|reflexivity].
    rewrite (pure_peek_next_eq src pre (c :: r) H Hlen). cbn [rbind].
    destruct r as [|c2 r2]; [reflexivity|]. rewrite str_eqb_chr.
    destruct (chr_is c2 "/") eqn:B6; [|reflexivity].
    (* the comment *)
    match goal with |- context [loop fuel ?ib _] => pose proof (comment_loop src fuel Hfuel ib) as Hin end.
    match type of Hin with ?A -> _ => assert (Hib : A) end.
    { intros pre' cs' H'. cbv beta. rewrite (pure_is_at_end_eq src pre' cs' H').
      destruct cs' as [|c' r']; [reflexivity|]. cbn [negb].
      rewrite (pure_peek_eq src pre' c' r' H' Hlen'). cbn [rbind]. rewrite str_eqb_chr.
      destruct (chr_is c' "010"); cbn [negb]; [reflexivity|].
      rewrite (pure_advance_eq src pre' c' r' H' Hlen'). reflexivity. }
    rewrite (Hin Hib (c :: c2 :: r2) pre fuel H).
    - cbn [rbind map_step]. unfold st_view. cbn [fst snd]. reflexivity.
    - assert (length (chars_of src) = length pre + length (c :: c2 :: r2))%nat by (rewrite H; apply app_length). lia. }
  assert (Hrl : (length rest <= length (chars_of src))%nat) by (rewrite H, app_length; lia).
  destruct (Hit Hb (length rest) rest pre (Z.of_N line) fuel) as [l' [E1 E2]]; try lia; try exact H.
  rewrite E1. cbn [rbind]. rewrite N2Z.id in *. subst l'. reflexivity.
Qed.
Print Assumptions pure_skip_whitespace_eq.

(* ------------------------------------------------------------------------------------------ *)
(* Scanner::make_token, Scanner::number (the look-ahead `peek() == "." && is_digit(peek_next())`) *)

(* peek() at the end of the input answers "" *)
Theorem pure_peek_end_eq : forall src pre,
  chars_of src = pre -> Z.of_nat (length src) + 1 < 2 ^ 64 ->
  PureScan.Scanner_peek src (Z.of_nat (clen pre)) = Val [].
Proof.
  intros src pre H Hlen. unfold PureScan.Scanner_peek.
  assert (HL : clen pre = length src) by (rewrite <- H; unfold clen; rewrite chars_of_concat_id; reflexivity).
  rewrite HL. unfold PureScan.Scanner_get_next_char_boundary, list_len. rewrite u_add_ok by lia. cbn [rbind].
  unfold z_range. replace (Z.to_nat (Z.of_nat (length src) - (Z.of_nat (length src) + 1))) with 0%nat by lia.
  cbn [seq map for_in rbind].
  rewrite str_slice_z_nat. unfold StrFns.str_slice. rewrite boundary_len, Nat.leb_refl. cbn [andb].
  rewrite Nat.sub_diag. reflexivity.
Qed.

(* a slice that covers whole characters *)
Lemma slice_chars : forall src pre mid rest, chars_of src = pre ++ mid ++ rest ->
  str_slice_z src (Z.of_nat (clen pre)) (Z.of_nat (clen pre + clen mid)) = Val (concat mid).
Proof.
  intros src pre mid rest H. rewrite str_slice_z_nat. unfold StrFns.str_slice.
  rewrite (chars_of_boundary src pre (mid ++ rest) H).
  replace (clen pre + clen mid)%nat with (clen (pre ++ mid)) by apply clen_app.
  rewrite (chars_of_boundary src (pre ++ mid) rest) by (rewrite <- app_assoc; exact H).
  assert (Hs : src = concat pre ++ concat mid ++ concat rest)
    by (rewrite <- (chars_of_concat_id src), H, !concat_app; reflexivity).
  assert (HL : length src = (clen pre + clen mid + clen rest)%nat) by (rewrite Hs at 1; rewrite !app_length; unfold clen; lia).
  rewrite clen_app.
  destruct (Nat.leb_spec (clen pre) (clen pre + clen mid)); [|lia].
  destruct (Nat.leb_spec (clen pre + clen mid) (length src)); [|lia]. cbn [andb].
  replace (clen pre + clen mid - clen pre)%nat with (clen mid) by lia.
  rewrite Hs. unfold clen. rewrite firstn_skipn_mid. reflexivity.
Qed.

Theorem pure_make_token_eq : forall src pre mid rest line kind,
  chars_of src = pre ++ mid ++ rest ->
  PureScan.Scanner_make_token src (Z.of_nat (clen pre)) (Z.of_nat (clen pre + clen mid)) line kind =
  Val (kind, line, concat mid).
Proof.
  intros. unfold PureScan.Scanner_make_token. rewrite (slice_chars src pre mid rest H). reflexivity.
Qed.
Print Assumptions pure_make_token_eq.

Definition singles (l : list byte) : list chr := map (fun b => [b]) l.

Lemma span_digit_split : forall cs, cs = singles (fst (span_digit_chrs cs)) ++ snd (span_digit_chrs cs).
Proof.
  induction cs as [|c r IH]; [reflexivity|]. cbn [span_digit_chrs].
  destruct c as [|b [|b2 t]]; try reflexivity.
  destruct (NumText.is_digit b); [|reflexivity].
  destruct (span_digit_chrs r) as [l r'] eqn:E. cbn [fst snd singles map app] in *. f_equal. exact IH.
Qed.

Lemma clen_singles : forall l, clen (singles l) = length l.
Proof. induction l as [|b l IH]; [reflexivity|]. unfold singles in *. cbn [map]. rewrite clen_cons, IH. reflexivity. Qed.
Lemma concat_singles : forall l, concat (singles l) = l.
Proof. induction l as [|b l IH]; [reflexivity|]. unfold singles in *. cbn [map concat app]. rewrite IH. reflexivity. Qed.

(* every character of the source is the encoding of one code point (the source is valid UTF-8) *)
Definition chars_valid (src : list byte) : Prop :=
  Forall (fun c => exists cp, decode c = Some [cp]) (chars_of src).

Section Number.
  Variable src : list byte.
  Variable fuel : nat.
  Hypothesis Hlen : Z.of_nat (length src) + 1 < 2 ^ 64.
  Hypothesis Hfuel : (length (chars_of src) < fuel)%nat.
  Hypothesis Hvalid : chars_valid src.

  Lemma head_valid : forall pre c r, chars_of src = pre ++ c :: r -> c = [] \/ (exists cp, decode c = Some [cp]).
  Proof.
    intros pre c r H. right. unfold chars_valid in Hvalid. rewrite H in Hvalid.
    apply Forall_app in Hvalid. destruct Hvalid as [_ F]. inversion F; assumption.
  Qed.

  (* `while is_digit(self.peek()) { self.advance(); }` *)
  Lemma digits_loop : forall (body : Z -> R2G.res (step Z Empty_set)),
    (forall pre cs, chars_of src = pre ++ cs ->
       body (Z.of_nat (clen pre)) =
       Val (match cs with
            | c :: _ => if is_digit_chr c then Continue (Z.of_nat (clen (pre ++ [c]))) else Break (Z.of_nat (clen pre))
            | [] => Break (Z.of_nat (clen pre))
            end)) ->
    forall cs pre k, chars_of src = pre ++ cs -> (length cs < k)%nat ->
    loop k body (Z.of_nat (clen pre)) = Val (inl (Z.of_nat (clen pre + length (fst (span_digit_chrs cs))))).
  Proof.
    intros body Hb. induction cs as [|c r IH]; intros pre k H Hk.
    - destruct k as [|k]; [cbn in Hk; lia|]. cbn [loop]. rewrite (Hb pre [] H). cbn. rewrite Nat.add_0_r. reflexivity.
    - destruct k as [|k]; [cbn in Hk; lia|]. cbn [loop]. rewrite (Hb pre (c :: r) H). cbn [span_digit_chrs].
      unfold is_digit_chr. destruct c as [|b [|b2 t]]; try (cbn [fst length]; rewrite Nat.add_0_r; reflexivity).
      destruct (NumText.is_digit b); [|cbn [fst length]; rewrite Nat.add_0_r; reflexivity].
      cbv beta iota.
      etransitivity; [apply IH; [rewrite <- app_assoc; exact H | cbn [length] in Hk; lia]|].
      destruct (span_digit_chrs r) as [l r']. cbn [fst length]. rewrite clen_snoc. cbn [length]. do 3 f_equal. lia.
  Qed.

  (* one turn of such a loop, for the body the translator produced *)
  Lemma digit_turn : forall pre cs, chars_of src = pre ++ cs ->
    rbind (PureScan.Scanner_peek src (Z.of_nat (clen pre))) (fun t1 =>
      if PureScan.is_digit t1
      then rbind (PureScan.Scanner_advance src (Z.of_nat (clen pre))) (fun '(_, cur) => Val (Continue cur))
      else Val (Break (Z.of_nat (clen pre)))) =
    Val (match cs with
         | c :: _ => if is_digit_chr c then Continue (Z.of_nat (clen (pre ++ [c]))) else Break (Z.of_nat (clen pre))
         | [] => @Break Z Empty_set (Z.of_nat (clen pre))
         end).
  Proof.
    intros pre cs H. assert (Hlen' : Z.of_nat (length src) < 2 ^ 64) by lia.
    destruct cs as [|c r].
    - rewrite app_nil_r in H. rewrite (pure_peek_end_eq src pre H Hlen). reflexivity.
    - rewrite (pure_peek_eq src pre c r H Hlen'). cbn [rbind].
      rewrite (pure_is_digit_eq c (head_valid pre c r H)).
      destruct (is_digit_chr c); [|reflexivity].
      rewrite (pure_advance_eq src pre c r H Hlen'). reflexivity.
  Qed.
End Number.

Theorem pure_number_eq : forall src fuel pre0 c cs line,
  chars_of src = (pre0 ++ [c]) ++ cs ->
  Z.of_nat (length src) + 1 < 2 ^ 64 -> (length (chars_of src) < fuel)%nat -> chars_valid src ->
  PureScan.Scanner_number fuel src (Z.of_nat (clen pre0)) (Z.of_nat (clen (pre0 ++ [c]))) line =
  Val ((PureScan.TokenKind_Number, line, c ++ fst (number_tail cs)),
       Z.of_nat (clen (pre0 ++ [c]) + length (fst (number_tail cs)))).
Proof.
  intros src fuel pre0 c cs line H Hlen Hfuel Hvalid.
  assert (Hlen' : Z.of_nat (length src) < 2 ^ 64) by lia.
  assert (Hcs : (length cs <= length (chars_of src))%nat) by (rewrite H, app_length; lia).
  unfold PureScan.Scanner_number.
  (* first loop *)
  match goal with |- rbind (loop fuel ?b _) _ = _ => pose proof (digits_loop src fuel Hfuel b) as L1 end.
  match type of L1 with ?A -> _ => assert (Hb1 : A) end.
  { intros pre cs' H'. cbv beta. apply (digit_turn src fuel Hlen Hfuel Hvalid pre cs' H'). }
  rewrite (L1 Hb1 cs (pre0 ++ [c]) fuel H) by lia. cbn [rbind].
  pose proof (span_digit_split cs) as Hsp.
  destruct (span_digit_chrs cs) as [ip r1] eqn:E1. cbn [fst snd] in *.
  set (pre1 := (pre0 ++ [c]) ++ singles ip).
  assert (H1 : chars_of src = pre1 ++ r1) by (unfold pre1; rewrite <- app_assoc, <- Hsp; exact H).
  replace (clen (pre0 ++ [c]) + length ip)%nat with (clen pre1) by (unfold pre1; rewrite clen_app, clen_singles; reflexivity).
  unfold number_tail. rewrite E1.
  assert (Hmk : forall mid rest', chars_of src = pre0 ++ mid ++ rest' ->
     PureScan.Scanner_make_token src (Z.of_nat (clen pre0)) (Z.of_nat (clen pre0 + clen mid)) line PureScan.TokenKind_Number =
     Val (PureScan.TokenKind_Number, line, concat mid))
    by (intros; apply pure_make_token_eq with (rest := rest'); assumption).
  destruct r1 as [|d r2].
  - (* at the end *)
    rewrite app_nil_r in H1. rewrite (pure_peek_end_eq src pre1 H1 Hlen). cbn [rbind]. eval_str_lits.
    change (str_eqb [] ["."%byte]) with false. cbv iota. cbn [rbind].
    replace (clen pre1) with (clen pre0 + clen ([c] ++ singles ip))%nat
      by (unfold pre1; rewrite <- app_assoc, !clen_app; reflexivity).
    rewrite (Hmk ([c] ++ singles ip) []) by (rewrite app_nil_r, app_assoc; exact H1).
    cbn [rbind fst]. rewrite concat_app, concat_singles. cbn [concat]. rewrite app_nil_r.
    do 3 f_equal. rewrite !clen_app, clen_singles. lia.
  - rewrite (pure_peek_eq src pre1 d r2 H1 Hlen'). cbn [rbind]. eval_str_lits. rewrite str_eqb_chr.
    assert (Hnolook : forall l', l' = ip ->
      rbind (PureScan.Scanner_make_token src (Z.of_nat (clen pre0)) (Z.of_nat (clen pre1)) line PureScan.TokenKind_Number)
        (fun t16 => Val (t16, Z.of_nat (clen pre1))) =
      Val (PureScan.TokenKind_Number, line, c ++ l', Z.of_nat (clen (pre0 ++ [c]) + length l'))).
    { intros l' ->. replace (clen pre1) with (clen pre0 + clen ([c] ++ singles ip))%nat
        by (unfold pre1; rewrite <- app_assoc, !clen_app; reflexivity).
      rewrite (Hmk ([c] ++ singles ip) (d :: r2)) by (rewrite app_assoc, app_assoc; exact H1).
      cbn [rbind]. rewrite concat_app, concat_singles. cbn [concat]. rewrite app_nil_r.
      do 3 f_equal. rewrite !clen_app, clen_singles. lia. }
    destruct (chr_is d ".") eqn:D.
    + rewrite (pure_peek_next_eq src pre1 (d :: r2) H1 Hlen). cbn [rbind].
      destruct r2 as [|n r3].
      * change (PureScan.is_digit []) with false. cbv iota. cbn [rbind andb]. apply Hnolook. reflexivity.
      * assert (H2 : chars_of src = (pre1 ++ [d]) ++ n :: r3) by (rewrite <- app_assoc; exact H1).
        rewrite (pure_is_digit_eq n (head_valid src Hvalid (pre1 ++ [d]) n r3 H2)).
        destruct (is_digit_chr n) eqn:Dn; cbn [andb]; [|cbn [rbind]; apply Hnolook; reflexivity].
        (* the fraction *)
        rewrite (pure_advance_eq src pre1 d (n :: r3) H1 Hlen'). cbn [rbind].
        match goal with |- context [loop fuel ?b _] => pose proof (digits_loop src fuel Hfuel b) as L2 end.
        match type of L2 with ?A -> _ => assert (Hb2 : A) end.
        { intros pre cs' H'. cbv beta. apply (digit_turn src fuel Hlen Hfuel Hvalid pre cs' H'). }
        assert (Hn3 : (length (n :: r3) < fuel)%nat).
        { assert (length (chars_of src) = length pre1 + length (d :: n :: r3))%nat by (rewrite H1; apply app_length).
          cbn [length] in *. lia. }
        rewrite (L2 Hb2 (n :: r3) (pre1 ++ [d]) fuel H2 Hn3). cbn [rbind].
        pose proof (span_digit_split (n :: r3)) as Hsp2.
        destruct (span_digit_chrs (n :: r3)) as [fp r4] eqn:E2. cbn [fst snd] in *.
        apply chr_is_eq in D. subst d.
        match goal with |- context [Z.of_nat (?X + length fp)] =>
          replace (X + length fp)%nat
            with (clen pre0 + clen ([c] ++ singles ip ++ [["."%byte]] ++ singles fp))%nat
            by (unfold pre1; rewrite !clen_app, !clen_singles; unfold clen; cbn [concat length app]; lia) end.
        rewrite (Hmk ([c] ++ singles ip ++ [["."%byte]] ++ singles fp) r4).
        -- cbn [rbind].
           assert (Eb : concat ([c] ++ singles ip ++ [["."%byte]] ++ singles fp) = c ++ ip ++ "."%byte :: fp)
             by (rewrite !concat_app, !concat_singles; cbn [concat app]; rewrite ?app_nil_r; reflexivity).
           assert (En : (clen pre0 + clen ([c] ++ singles ip ++ [["."%byte]] ++ singles fp) =
                         clen (pre0 ++ [c]) + length (ip ++ "."%byte :: fp))%nat)
             by (rewrite !clen_app, !clen_singles, app_length; unfold clen; cbn [concat length app];
                 rewrite ?app_nil_r; lia).
           rewrite Eb, En. reflexivity.
        -- rewrite H1. unfold pre1. rewrite Hsp2. rewrite <- !app_assoc. reflexivity.
    + cbn [rbind]. apply Hnolook. destruct r2; reflexivity.
Qed.
Print Assumptions pure_number_eq.

Lemma tk_number : PureScan.TokenKind_Number = Z.of_nat (tkind_index TNumber).
Proof. reflexivity. Qed.
