(* PureEquivScanKw.v - scanner.rs check_keyword / identifier_type (the keyword trie) regenerated into
   gen/PureScan.v equal Scanner.check_keyword / Scanner.identifier_type.  Owner check: C19. *)
From Coq Require Import ZArith NArith List Bool Arith Lia String.
From Coq Require Import Strings.Byte.
From YVGen Require PureScan.
From YV Require Import Num Utf8 Utf8Proofs Scanner ScannerProofs StrFns.
From YV Require Import R2G R2GProofs R2GStr R2GStrProofs.
Import ListNotations.
Open Scope Z_scope.

(* `kind as usize`: the discriminant *)
Definition tk_view (k : tkind) : Z := Z.of_nat (tkind_index k).

(* the lexeme source[start..current] inside the source; every position of it is a char boundary (identifiers are
   made of ASCII letters, digits and '_', and `current` is where `advance()` stopped) *)
Record lexeme_at (src p lex q : list byte) : Prop := {
  la_split : src = p ++ lex ++ q;
  la_len : Z.of_nat (List.length src) < 2 ^ 63;
  la_bound : forall j, (j <= List.length lex)%nat -> is_char_boundary src (List.length p + j) = true
}.

Lemma slice_in_lexeme : forall src p lex q a b, lexeme_at src p lex q ->
  (a <= b <= List.length lex)%nat ->
  str_slice_z src (Z.of_nat (List.length p + a)) (Z.of_nat (List.length p + b)) = Val (firstn (b - a) (skipn a lex)).
Proof.
  intros src p lex q a b [Hs Hl Hb] Hab. rewrite str_slice_z_nat. unfold StrFns.str_slice.
  rewrite !Hb by lia.
  assert (HL : List.length src = (List.length p + List.length lex + List.length q)%nat) by (rewrite Hs, !app_length; lia).
  destruct (Nat.leb_spec (List.length p + a) (List.length p + b)); [|lia].
  destruct (Nat.leb_spec (List.length p + b) (List.length src)); [|lia]. cbn [andb].
  f_equal. replace (List.length p + b - (List.length p + a))%nat with (b - a)%nat by lia.
  rewrite Hs. rewrite skipn_app, skipn_all2 by lia. cbn [app].
  replace (List.length p + a - List.length p)%nat with a by lia.
  rewrite skipn_app. rewrite firstn_app.
  replace (b - a - List.length (skipn a lex))%nat with 0%nat by (rewrite skipn_length; lia).
  cbn [firstn]. apply app_nil_r.
Qed.

(* ------------------------------------------------------------------------------------------ *)
Theorem pure_check_keyword_eq : forall src p lex q start (rest : string) kind,
  lexeme_at src p lex q -> Z.of_nat start + Z.of_nat (List.length (bs rest)) < 2 ^ 62 ->
  PureScan.Scanner_check_keyword src (Z.of_nat (List.length p)) (Z.of_nat (List.length p + List.length lex))
    (Z.of_nat start) (str_lit rest) kind =
  Val (if Nat.eqb (List.length lex) (start + List.length (bs rest)) && bytes_eqb (skipn start lex) (bs rest)
       then kind else PureScan.TokenKind_Identifier).
Proof.
  intros src p lex q start rest kind L Hsmall. pose proof L as [Hs Hl Hb].
  assert (HL : List.length src = (List.length p + List.length lex + List.length q)%nat) by (rewrite Hs, !app_length; lia).
  unfold PureScan.Scanner_check_keyword, list_len. change (str_lit rest) with (bs rest) in *. set (r := bs rest) in *.
  assert (Hp : 2 ^ 63 < 2 ^ 64) by (apply Z.pow_lt_mono_r; lia).
  assert (Hq : 2 ^ 62 < 2 ^ 63) by (apply Z.pow_lt_mono_r; lia).
  rewrite (u_add_ok 64 (Z.of_nat (List.length p))) by lia. cbn [rbind].
  rewrite u_add_ok by lia. cbn [rbind]. rewrite u_sub_ok by lia. cbn [rbind]. rewrite u_add_ok by lia. cbn [rbind].
  replace (Z.of_nat (List.length p + List.length lex) - Z.of_nat (List.length p)) with (Z.of_nat (List.length lex)) by lia.
  replace (Z.of_nat start + Z.of_nat (List.length r)) with (Z.of_nat (start + List.length r)) by lia.
  rewrite eqb_nat_Z.
  destruct (Nat.eqb_spec (List.length lex) (start + List.length r)) as [E|NE]; [|reflexivity].
  replace (Z.of_nat (List.length p) + Z.of_nat start) with (Z.of_nat (List.length p + start)) by lia.
  replace (Z.of_nat (List.length p + start) + Z.of_nat (List.length r))
    with (Z.of_nat (List.length p + (start + List.length r))) by lia.
  rewrite (slice_in_lexeme src p lex q start (start + List.length r) L) by lia. cbn [rbind andb].
  replace (start + List.length r - start)%nat with (List.length (skipn start lex)) by (rewrite skipn_length; lia).
  rewrite firstn_all, str_eqb_bytes_eqb. destruct (bytes_eqb (skipn start lex) r); reflexivity.
Qed.
Print Assumptions pure_check_keyword_eq.

Lemma tk_identifier : PureScan.TokenKind_Identifier = tk_view TIdentifier.
Proof. reflexivity. Qed.

(* the model's check_keyword through the view *)
Corollary pure_check_keyword_eq_model : forall src p lex q start (rest : string) k,
  lexeme_at src p lex q -> Z.of_nat start + Z.of_nat (List.length (bs rest)) < 2 ^ 62 ->
  PureScan.Scanner_check_keyword src (Z.of_nat (List.length p)) (Z.of_nat (List.length p + List.length lex))
    (Z.of_nat start) (str_lit rest) (tk_view k) =
  Val (tk_view (Scanner.check_keyword lex start rest k)).
Proof.
  intros src p lex q start rest k L Hsmall.
  rewrite (pure_check_keyword_eq src p lex q start rest (tk_view k) L Hsmall). unfold Scanner.check_keyword. cbv zeta.
  destruct (Nat.eqb (List.length lex) (start + List.length (bs rest)) && bytes_eqb (skipn start lex) (bs rest));
    [reflexivity|rewrite tk_identifier; reflexivity].
Qed.

(* ------------------------------------------------------------------------------------------ *)
(* identifier_type: the keyword trie                                                            *)

Section Trie.
  Variables (src p lex q : list byte).
  Hypothesis L : lexeme_at src p lex q.
  Let S := Z.of_nat (List.length p).

  Lemma pos_small : 0 <= S /\ S + Z.of_nat (List.length lex) < 2 ^ 63.
  Proof.
    destruct L as [Hs Hl Hb]. unfold S. rewrite Hs in Hl. rewrite !app_length in Hl. lia.
  Qed.

  Lemma slice01 : forall b0 t, lex = b0 :: t -> str_slice_z src S (S + 1) = Val [b0].
  Proof.
    intros b0 t E. unfold S. replace (Z.of_nat (List.length p)) with (Z.of_nat (List.length p + 0)) at 1 by (f_equal; lia).
    replace (Z.of_nat (List.length p) + 1) with (Z.of_nat (List.length p + 1)) by lia.
    rewrite (slice_in_lexeme src p lex q 0 1 L) by (rewrite E; cbn [List.length]; lia). rewrite E. reflexivity.
  Qed.
  Lemma slice12 : forall b0 b1 t, lex = b0 :: b1 :: t -> str_slice_z src (S + 1) (S + 2) = Val [b1].
  Proof.
    intros b0 b1 t E. unfold S. replace (Z.of_nat (List.length p) + 1) with (Z.of_nat (List.length p + 1)) by lia.
    replace (Z.of_nat (List.length p) + 2) with (Z.of_nat (List.length p + 2)) by lia.
    rewrite (slice_in_lexeme src p lex q 1 2 L) by (rewrite E; cbn [List.length]; lia). rewrite E. reflexivity.
  Qed.
  Lemma slice23 : forall b0 b1 b2 t, lex = b0 :: b1 :: b2 :: t -> str_slice_z src (S + 2) (S + 3) = Val [b2].
  Proof.
    intros b0 b1 b2 t E. unfold S. replace (Z.of_nat (List.length p) + 2) with (Z.of_nat (List.length p + 2)) by lia.
    replace (Z.of_nat (List.length p) + 3) with (Z.of_nat (List.length p + 3)) by lia.
    rewrite (slice_in_lexeme src p lex q 2 3 L) by (rewrite E; cbn [List.length]; lia). rewrite E. reflexivity.
  Qed.

  (* a call of check_keyword inside the trie *)
  Lemma ck : forall start (rest : string) k,
    Z.of_nat start + Z.of_nat (List.length (bs rest)) < 2 ^ 62 ->
    PureScan.Scanner_check_keyword src S (S + Z.of_nat (List.length lex)) (Z.of_nat start) (str_lit rest) (tk_view k) =
    Val (tk_view (Scanner.check_keyword lex start rest k)).
  Proof.
    intros start rest k H. unfold S. rewrite <- Nat2Z.inj_add. apply (pure_check_keyword_eq_model src p lex q start rest k L H).
  Qed.
End Trie.

Ltac eval_eqbs :=
  repeat match goal with |- context [str_eqb [?x] ?b] =>
    is_constructor x; let v := eval vm_compute in (str_eqb [x] b) in change (str_eqb [x] b) with v end;
  cbv iota.

Ltac close_kw src p lex q L :=
  first
  [ reflexivity
  | match goal with |- PureScan.Scanner_check_keyword _ _ _ ?st (str_lit ?rest) ?kd = Val (tk_view (Scanner.check_keyword _ ?n _ ?k)) =>
      change st with (Z.of_nat n); change kd with (tk_view k);
      apply (ck src p lex q L n rest k); vm_compute; reflexivity end ].

Theorem pure_identifier_type_eq : forall src p lex q,
  lexeme_at src p lex q -> lex <> [] ->
  PureScan.Scanner_identifier_type src (Z.of_nat (List.length p)) (Z.of_nat (List.length p + List.length lex)) =
  Val (tk_view (Scanner.identifier_type lex)).
Proof.
  intros src p lex q L Hne.
  assert (Hex : exists b0 t, lex = b0 :: t) by (destruct lex as [|b0 t]; [congruence|eauto]).
  destruct Hex as [b0 [t Elex]].
  pose proof (pos_small src p lex q L) as [Hp0 Hp1].
  assert (H63 : 2 ^ 63 < 2 ^ 64) by (apply Z.pow_lt_mono_r; lia).
  rewrite Nat2Z.inj_add. set (S := Z.of_nat (List.length p)) in *. set (n := Z.of_nat (List.length lex)) in *.
  assert (Hn : 1 <= n) by (unfold n; rewrite Elex; cbn [List.length]; lia).
  unfold PureScan.Scanner_identifier_type.
  repeat (first [rewrite (u_sub_ok 64 (S + n) S) by lia | rewrite (u_add_ok 64 S) by lia]; cbn [rbind]).
  replace (S + n - S) with n by lia. subst S.
  rewrite (slice01 src p lex q L b0 t Elex). cbn [rbind].
  destruct t as [|b1 t1].
  - (* one byte *)
    assert (Hn2 : (n >? 1) = false) by (unfold n; rewrite Elex; reflexivity). rewrite ?Hn2. cbv iota.
    match type of Elex with _ = ?X => replace (Scanner.identifier_type lex) with (Scanner.identifier_type X) by (rewrite <- Elex; reflexivity) end. destruct b0; unfold Scanner.identifier_type; eval_eqbs; rewrite <- ?Elex; close_kw src p lex q L.
  - rewrite (slice12 src p lex q L b0 b1 t1 Elex). cbn [rbind].
    assert (Hn2 : (n >? 1) = true) by (unfold n; rewrite Elex; cbn [List.length]; apply Z.gtb_lt; lia).
    rewrite Hn2. cbv iota.
    destruct t1 as [|b2 t2].
    + assert (Hn3 : (n >? 2) = false) by (unfold n; rewrite Elex; reflexivity). rewrite Hn3. cbv iota.
      match type of Elex with _ = ?X => replace (Scanner.identifier_type lex) with (Scanner.identifier_type X) by (rewrite <- Elex; reflexivity) end.
      destruct b0; unfold Scanner.identifier_type; eval_eqbs; rewrite <- ?Elex; try (close_kw src p lex q L);
      destruct b1; eval_eqbs; rewrite <- ?Elex; close_kw src p lex q L.
    + rewrite (slice23 src p lex q L b0 b1 b2 t2 Elex). cbn [rbind].
      assert (Hn3 : (n >? 2) = true) by (unfold n; rewrite Elex; cbn [List.length]; apply Z.gtb_lt; lia).
      rewrite Hn3. cbv iota.
      match type of Elex with _ = ?X => replace (Scanner.identifier_type lex) with (Scanner.identifier_type X) by (rewrite <- Elex; reflexivity) end.
      destruct b0; unfold Scanner.identifier_type; eval_eqbs; rewrite <- ?Elex; try (close_kw src p lex q L);
      destruct b1; eval_eqbs; rewrite <- ?Elex; try (close_kw src p lex q L);
      destruct b2; eval_eqbs; rewrite <- ?Elex; close_kw src p lex q L.
Qed.
Print Assumptions pure_identifier_type_eq.

(* ------------------------------------------------------------------------------------------ *)
(* Scanner::error_token, binary_token, identifier                                               *)
From YV Require Import PureEquivScan.

Theorem pure_error_token_eq : forall line (msg : string),
  PureScan.Scanner_error_token (Z.of_N line) (str_lit msg) =
  (tk_view (tk (Scanner.error_token line msg)), Z.of_N (tline (Scanner.error_token line msg)),
   tsource (Scanner.error_token line msg)).
Proof. reflexivity. Qed.
Print Assumptions pure_error_token_eq.

(* binary_token(bare, assign) after the one-byte lexeme so far: `=` follows or not (Scanner.match_chr) *)
Theorem pure_binary_token_eq : forall src pre0 mid rest line bare assign,
  chars_of src = pre0 ++ mid ++ rest -> Z.of_nat (List.length src) < 2 ^ 64 ->
  PureScan.Scanner_binary_token src (Z.of_nat (clen pre0)) (Z.of_nat (clen pre0 + clen mid)) line bare assign =
  Val (if fst (match_chr rest "=") then (assign, line, List.concat mid ++ ["="%byte], Z.of_nat (clen pre0 + clen mid + 1))
       else (bare, line, List.concat mid, Z.of_nat (clen pre0 + clen mid))).
Proof.
  intros src pre0 mid rest line bare assign H Hlen. unfold PureScan.Scanner_binary_token.
  change (str_lit "=") with ["="%byte].
  assert (H' : chars_of src = (pre0 ++ mid) ++ rest) by (rewrite <- app_assoc; exact H).
  rewrite <- clen_app. rewrite (pure_match_char_eq src (pre0 ++ mid) rest "=" H' Hlen). cbn [rbind].
  destruct rest as [|c r]; cbn [match_chr fst].
  - rewrite Nat.add_0_r, clen_app.
    rewrite (pure_make_token_eq src pre0 mid [] line bare H).
    reflexivity.
  - destruct (chr_is c "=") eqn:E; cbn [fst].
    + apply chr_is_eq in E. subst c.
      replace (clen (pre0 ++ mid) + 1)%nat with (clen pre0 + clen (mid ++ [["="%byte]]))%nat
        by (rewrite !clen_app; unfold clen; cbn [List.concat List.length app]; lia).
      rewrite (pure_make_token_eq src pre0 (mid ++ [["="%byte]]) r line assign)
        by (rewrite <- app_assoc; exact H).
      cbn [rbind]. rewrite concat_app. cbn [List.concat]. rewrite app_nil_r.
      repeat f_equal; rewrite ?clen_app; unfold clen; cbn [List.concat List.length app]; lia.
    + rewrite Nat.add_0_r, clen_app.
      rewrite (pure_make_token_eq src pre0 mid (c :: r) line bare H). reflexivity.
Qed.
Print Assumptions pure_binary_token_eq.

(* `while is_alpha(self.peek()) || is_digit(self.peek()) { self.advance(); }` *)
Lemma span_ident_split : forall cs, cs = singles (fst (span_ident cs)) ++ snd (span_ident cs).
Proof.
  induction cs as [|c r IH]; [reflexivity|]. cbn [span_ident].
  destruct c as [|b [|b2 t]]; try reflexivity.
  destruct (is_alpha_byte b || NumText.is_digit b); [|reflexivity].
  destruct (span_ident r) as [l r'] eqn:E. cbn [fst snd singles map app] in *. f_equal. exact IH.
Qed.

Lemma ident_loop : forall src (body : Z -> R2G.res (step Z Empty_set)),
  (forall pre cs, chars_of src = pre ++ cs ->
     body (Z.of_nat (clen pre)) =
     Val (match cs with
          | c :: _ => if Scanner.is_alpha c || is_digit_chr c then Continue (Z.of_nat (clen (pre ++ [c])))
                      else Break (Z.of_nat (clen pre))
          | [] => Break (Z.of_nat (clen pre))
          end)) ->
  forall cs pre k, chars_of src = pre ++ cs -> (List.length cs < k)%nat ->
  loop k body (Z.of_nat (clen pre)) = Val (inl (Z.of_nat (clen pre + List.length (fst (span_ident cs))))).
Proof.
  intros src body Hb. induction cs as [|c r IH]; intros pre k H Hk.
  - destruct k as [|k]; [cbn in Hk; lia|]. cbn [loop]. rewrite (Hb pre [] H). cbn. rewrite Nat.add_0_r. reflexivity.
  - destruct k as [|k]; [cbn in Hk; lia|]. cbn [loop]. rewrite (Hb pre (c :: r) H). cbn [span_ident].
    unfold Scanner.is_alpha, is_digit_chr.
    destruct c as [|b [|b2 t]]; try (cbn [fst List.length orb]; rewrite Nat.add_0_r; reflexivity).
    destruct (is_alpha_byte b || NumText.is_digit b); [|cbn [fst List.length]; rewrite Nat.add_0_r; reflexivity].
    cbv beta iota.
    etransitivity; [apply IH; [rewrite <- app_assoc; exact H | cbn [List.length] in Hk; lia]|].
    destruct (span_ident r) as [l r']. cbn [fst List.length]. rewrite clen_snoc. cbn [List.length]. do 3 f_equal. lia.
Qed.

Theorem pure_identifier_eq : forall src fuel pre0 b0 cs line,
  chars_of src = (pre0 ++ [[b0]]) ++ cs ->
  Z.of_nat (List.length src) + 1 < 2 ^ 63 -> (List.length (chars_of src) < fuel)%nat -> chars_valid src ->
  PureScan.Scanner_identifier fuel src (Z.of_nat (clen pre0)) (Z.of_nat (clen (pre0 ++ [[b0]]))) line =
  Val ((tk_view (Scanner.identifier_type (b0 :: fst (span_ident cs))), line, b0 :: fst (span_ident cs)),
       Z.of_nat (clen (pre0 ++ [[b0]]) + List.length (fst (span_ident cs)))).
Proof.
  intros src fuel pre0 b0 cs line H Hlen Hfuel Hvalid.
  assert (H64 : 2 ^ 63 < 2 ^ 64) by (apply Z.pow_lt_mono_r; lia).
  assert (Hlen' : Z.of_nat (List.length src) < 2 ^ 64) by lia.
  assert (Hlen1 : Z.of_nat (List.length src) + 1 < 2 ^ 64) by lia.
  unfold PureScan.Scanner_identifier.
  match goal with |- rbind (loop fuel ?b _) _ = _ => pose proof (ident_loop src b) as L1 end.
  match type of L1 with ?A -> _ => assert (Hb1 : A) end.
  { intros pre cs' H'. cbv beta. destruct cs' as [|c r].
    - rewrite app_nil_r in H'. rewrite (pure_peek_end_eq src pre H' Hlen1). reflexivity.
    - rewrite (pure_peek_eq src pre c r H' Hlen'). cbn [rbind].
      rewrite (pure_is_alpha_eq c (head_valid src Hvalid pre c r H')).
      rewrite (pure_is_digit_eq c (head_valid src Hvalid pre c r H')).
      destruct (Scanner.is_alpha c); cbn [orb rbind].
      + rewrite (pure_advance_eq src pre c r H' Hlen'). reflexivity.
      + destruct (is_digit_chr c); [|reflexivity].
        rewrite (pure_advance_eq src pre c r H' Hlen'). reflexivity. }
  assert (Hcs : (List.length cs < fuel)%nat).
  { assert (List.length (chars_of src) = List.length (pre0 ++ [[b0]]) + List.length cs)%nat by (rewrite H; apply app_length). lia. }
  rewrite (L1 Hb1 cs (pre0 ++ [[b0]]) fuel H Hcs). cbn [rbind].
  pose proof (span_ident_split cs) as Hsp.
  destruct (span_ident cs) as [l r'] eqn:E1. cbn [fst snd] in *.
  set (lex := b0 :: l).
  assert (Hmid : chars_of src = pre0 ++ singles lex ++ r').
  { rewrite H, Hsp. unfold lex, singles. cbn [map]. rewrite <- !app_assoc. reflexivity. }
  assert (Hsrc : src = List.concat pre0 ++ lex ++ List.concat r').
  { rewrite <- (chars_of_concat_id src), Hmid, !concat_app, concat_singles. reflexivity. }
  assert (HL : lexeme_at src (List.concat pre0) lex (List.concat r')).
  { constructor; [exact Hsrc|lia|].
    intros j Hj.
    assert (Hj' : chars_of src = (pre0 ++ singles (firstn j lex)) ++ (singles (skipn j lex) ++ r')).
    { rewrite Hmid. rewrite <- (firstn_skipn j lex) at 1. unfold singles. rewrite map_app, <- !app_assoc. reflexivity. }
    pose proof (chars_of_boundary src _ _ Hj') as Bd.
    rewrite clen_app, clen_singles, firstn_length_le in Bd by exact Hj. exact Bd. }
  replace (clen (pre0 ++ [[b0]]) + List.length l)%nat with (List.length (List.concat pre0) + List.length lex)%nat
    by (rewrite clen_app; unfold clen, lex; cbn [List.concat List.length app]; lia).
  unfold clen at 1 2.
  rewrite (pure_identifier_type_eq src (List.concat pre0) lex (List.concat r') HL) by (unfold lex; discriminate).
  cbn [rbind].
  replace (List.length (List.concat pre0) + List.length lex)%nat with (clen pre0 + clen (singles lex))%nat
    by (rewrite clen_singles; reflexivity).
  fold (clen pre0).
  rewrite (pure_make_token_eq src pre0 (singles lex) r' line _ Hmid). cbn [rbind].
  rewrite concat_singles. reflexivity.
Qed.
Print Assumptions pure_identifier_eq.

(* which field of the Rust struct each flattened parameter of the generated definitions stands for (the parameters are
   positional: a function that read ANOTHER field of the same type would otherwise have the same text) *)
Theorem pure_scan_fields : PureScan.r2g_fields =
  [("Scanner_is_at_end"%string, ["self.source"%string; "self.current"%string]);
   ("Scanner_get_next_char_boundary"%string, ["self.source"%string]);
   ("Scanner_peek"%string, ["self.source"%string; "self.current"%string]);
   ("Scanner_peek_next"%string, ["self.source"%string; "self.current"%string]);
   ("Scanner_advance"%string, ["self.source"%string; "self.current"%string]);
   ("Scanner_match_char"%string, ["self.source"%string; "self.current"%string]);
   ("Scanner_skip_whitespace"%string, ["self.source"%string; "self.current"%string; "self.line"%string]);
   ("Scanner_make_token"%string, ["self.source"%string; "self.start"%string; "self.current"%string; "self.line"%string]);
   ("Scanner_number"%string, ["self.source"%string; "self.start"%string; "self.current"%string; "self.line"%string]);
   ("Scanner_check_keyword"%string, ["self.source"%string; "self.start"%string; "self.current"%string]);
   ("Scanner_identifier_type"%string, ["self.source"%string; "self.start"%string; "self.current"%string]);
   ("Scanner_identifier"%string, ["self.source"%string; "self.start"%string; "self.current"%string; "self.line"%string]);
   ("Scanner_binary_token"%string, ["self.source"%string; "self.start"%string; "self.current"%string; "self.line"%string]);
   ("Scanner_error_token"%string, ["self.line"%string])].
Proof. reflexivity. Qed.
Print Assumptions pure_scan_fields.
