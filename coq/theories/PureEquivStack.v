(* PureEquivStack.v - the guards regenerated from stack.rs (gen/PureStack.v: the `cfg!(..) && cond` conditions of
   Stack::peek / peek_mut / push / pop and the clamp of Stack::truncate, with the cfg! as a boolean parameter) equal
   the guards of the hand-written model YV.StackModel.  Owner check: C10.
   Stack::len itself is raw pointer arithmetic (`top.offset_from(base)`), outside the translated subset: in the
   guards it is the abstract value `self_len` (= StackModel.len_u). *)
From Coq Require Import ZArith NArith List Bool Arith String Lia.
From YVGen Require PureStack.
From YV Require Import StackModel R2G R2GProofs.
Import ListNotations.
Open Scope Z_scope.

Lemma nat_geb : forall a b : nat, (Z.of_nat a >=? Z.of_nat b) = (b <=? a)%nat.
Proof.
  intros a b. rewrite Z.geb_leb.
  destruct (Nat.leb_spec b a), (Z.leb_spec (Z.of_nat b) (Z.of_nat a)); try reflexivity; lia.
Qed.
Lemma nat_gtb : forall a b : nat, (Z.of_nat a >? Z.of_nat b) = (b <? a)%nat.
Proof.
  intros a b. rewrite Z.gtb_ltb.
  destruct (Nat.ltb_spec b a), (Z.ltb_spec (Z.of_nat b) (Z.of_nat a)); try reflexivity; lia.
Qed.
Lemma nat_eqb : forall a b : nat, (Z.of_nat a =? Z.of_nat b) = (a =? b)%nat.
Proof.
  intros a b. destruct (Nat.eqb_spec a b) as [->|H]; [apply Z.eqb_refl | apply Z.eqb_neq; lia].
Qed.

Section Guards.
  Variable T : Type.
  Variable dflt : T.
  Variable CAP : nat.
  Notation stack := (StackModel.stack T).

  Definition zlen (s : stack) : Z := Z.of_nat (len_u T s).

  (* peek / peek_mut: panic iff checked && depth >= len *)
  Theorem gen_stack_peek_guard_eq_model : forall chk depth (s : stack),
    PureStack.Stack_peek_guard chk (zlen s) (Z.of_nat depth) = chk && (len_u T s <=? depth)%nat.
  Proof. intros. unfold PureStack.Stack_peek_guard, zlen. rewrite nat_geb. reflexivity. Qed.

  Theorem gen_stack_peek_mut_guard_eq_model : forall chk depth (s : stack),
    PureStack.Stack_peek_mut_guard chk (zlen s) (Z.of_nat depth) = chk && (len_u T s <=? depth)%nat.
  Proof. intros. unfold PureStack.Stack_peek_mut_guard, zlen. rewrite nat_geb. reflexivity. Qed.

  (* push: panic iff checked && len == N *)
  Theorem gen_stack_push_guard_eq_model : forall chk (s : stack),
    PureStack.Stack_push_guard chk (Z.of_nat CAP) (zlen s) = chk && (len_u T s =? CAP)%nat.
  Proof. intros. unfold PureStack.Stack_push_guard, zlen. rewrite nat_eqb. reflexivity. Qed.

  (* pop: None iff checked && len == 0 *)
  Theorem gen_stack_pop_guard_eq_model : forall chk (s : stack),
    PureStack.Stack_pop_guard chk (zlen s) = chk && (len_u T s =? 0)%nat.
  Proof. intros. unfold PureStack.Stack_pop_guard, zlen. change 0 with (Z.of_nat 0). rewrite nat_eqb. reflexivity. Qed.

  (* truncate: the size actually used *)
  Theorem gen_stack_truncate_size_eq_model : forall chk size (s : stack),
    PureStack.Stack_truncate_size chk (zlen s) (Z.of_nat size) =
    Z.of_nat (if chk && (len_u T s <? size)%nat then len_u T s else size).
  Proof.
    intros. unfold PureStack.Stack_truncate_size, zlen. rewrite nat_gtb.
    destruct (chk && (len_u T s <? size)%nat); reflexivity.
  Qed.

  (* the model operations, rewritten with the GENERATED guards: what StackModel does is decided by the guard
     regenerated from the source *)
  Theorem gen_stack_model_peek : forall chk depth (s : stack),
    peek T dflt CAP chk depth s =
    if PureStack.Stack_peek_guard chk (zlen s) (Z.of_nat depth) then (RPanic "Stack index out of range.", s)
    else let i := top T s - Z.of_nat depth - 1 in
         if in_box CAP i then (RVal (nth (Z.to_nat i) (cells T s) dflt), s) else (RUB, s).
  Proof. intros. rewrite gen_stack_peek_guard_eq_model. reflexivity. Qed.

  Theorem gen_stack_model_push : forall chk v (s : stack),
    push T CAP chk v s =
    if PureStack.Stack_push_guard chk (Z.of_nat CAP) (zlen s) then (RPanic "Stack overflow.", s)
    else if in_box CAP (top T s) then (RUnit, mkStack T (upd T (Z.to_nat (top T s)) v (cells T s)) (top T s + 1))
         else (RUB, s).
  Proof. intros. rewrite gen_stack_push_guard_eq_model. reflexivity. Qed.

  Theorem gen_stack_model_pop : forall chk (s : stack),
    pop T dflt CAP chk s =
    if PureStack.Stack_pop_guard chk (zlen s) then (RNone, s)
    else let t := top T s - 1 in
         if in_box CAP t then (RVal (nth (Z.to_nat t) (cells T s) dflt), mkStack T (cells T s) t) else (RUB, s).
  Proof. intros. rewrite gen_stack_pop_guard_eq_model. reflexivity. Qed.

  Theorem gen_stack_model_truncate : forall chk size (s : stack),
    truncate T CAP chk size s =
    let size' := Z.to_nat (PureStack.Stack_truncate_size chk (zlen s) (Z.of_nat size)) in
    if (size' <=? CAP)%nat then (RUnit, mkStack T (cells T s) (Z.of_nat size')) else (RUB, s).
  Proof. intros. rewrite gen_stack_truncate_size_eq_model. rewrite Nat2Z.id. reflexivity. Qed.
End Guards.

(* every guard is under the SAME build condition *)
Definition safe_stack_cfg : list string := ["any ( debug_assertions , feature = ""safe_stack"" )"%string].
Theorem gen_stack_guard_cfgs :
  PureStack.Stack_peek_guard_cfgs = safe_stack_cfg /\ PureStack.Stack_peek_mut_guard_cfgs = safe_stack_cfg /\
  PureStack.Stack_push_guard_cfgs = safe_stack_cfg /\ PureStack.Stack_pop_guard_cfgs = safe_stack_cfg /\
  PureStack.Stack_truncate_size_cfgs = safe_stack_cfg.
Proof. repeat split; reflexivity. Qed.

Print Assumptions gen_stack_peek_guard_eq_model.
Print Assumptions gen_stack_push_guard_eq_model.
Print Assumptions gen_stack_pop_guard_eq_model.
Print Assumptions gen_stack_truncate_size_eq_model.
Print Assumptions gen_stack_model_peek.
Print Assumptions gen_stack_guard_cfgs.
