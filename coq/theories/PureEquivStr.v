(* PureEquivStr.v - the Gallina text regenerated from core.rs (string natives), object.rs
   (ObjString::validate_char_boundary), utils.rs / value.rs (validate_integer, try_as_bounded_index seen on the
   richer value type) in gen/PureStr.v equals the hand-written Mechanism model YV.StrFns.  Owner check: C13.

   How a native is stated.  The Rust native reads its receiver and arguments from the value stack:
   `vm.peek(0)` is the LAST argument, `vm.peek(num_args)` the receiver.  The generated definition takes
   `num_args` and one parameter per `vm.peek(k)` it mentions (plus its Display rendering where a message prints it).
   The model takes the receiver text [s] and the argument list [args] in call order.  [stack_ok] ties the two. *)
From Coq Require Import String.
From Coq Require Import ZArith NArith List Bool Arith Lia.
From Coq Require Import Strings.Byte Floats.SpecFloat.
From YVGen Require PureStr PureIndex.
From YV Require Import Num NumProofs Show Utf8 Utf8Proofs Index IndexProofs StrFns StrProofs StrRun StrRunProofs.
From YV Require Import R2G R2GProofs R2GStr R2GStrProofs PureEquivIndex.
Import ListNotations.
Open Scope Z_scope.

(* ------------------------------------------------------------------------------------------ *)
(* views                                                                                        *)

(* a stack slot as the model sees it *)
Definition elem_of_x (e : xvalue * string) : elem :=
  match fst e with XNumber x => ENum (num_of_f64 x) (snd e) | _ => EOther (snd e) end.
Definition argv_of_x (v : xvalue) : argv :=
  match v with
  | XNumber x => ANum (num_of_f64 x)
  | XObjString s => AStr (snd s)
  | XObjRange b e => ARange b e
  | XObjVec l => AVec (map elem_of_x l)
  | _ => AOther
  end.
Definition arg_of_x (v : xvalue) (sh : string) : arg := mkArg (argv_of_x v) sh.

(* a result of the model as the generated code writes it *)
Definition rv_view (r : StrFns.rvalue) : xvalue :=
  match r with
  | RNone => XNone
  | RBool b => XBoolean b
  | RNum z => XNumber (f64_of_Z z)
  | RStr t => XObjString (new_obj_string t)
  | _ => XOther 0
  end.
Definition res_view (r : StrFns.res) : rresult xvalue := result_view rv_view r.
Definition unit_view (r : result unit err) : rresult unit := result_view (fun u => u) r.

(* the narrow value of PureIndex (Number or anything else) behind the richer one *)
Definition rv_of_x (v : xvalue) : R2G.rvalue := match v with XNumber n => RNumber n | _ => ROther 0 end.

(* ------------------------------------------------------------------------------------------ *)
(* core.rs check_num_args                                                                       *)

Lemma show_int_nat : forall n, show_int (Z.of_nat n) = show_nat n.
Proof. intros [|n]; reflexivity. Qed.

Lemma Zeqb_nat : forall a b, (Z.of_nat a =? Z.of_nat b) = Nat.eqb a b.
Proof.
  intros a b. destruct (Nat.eqb_spec a b) as [->|Hne]; [apply Z.eqb_refl | apply Z.eqb_neq; lia].
Qed.

Theorem pure_check_num_args_eq : forall n e,
  PureStr.check_num_args (Z.of_nat n) (Z.of_nat e) = unit_view (StrFns.check_num_args n e).
Proof.
  intros n e. unfold PureStr.check_num_args, StrFns.check_num_args.
  rewrite Zeqb_nat. change 1 with (Z.of_nat 1). rewrite Zeqb_nat. rewrite !show_int_nat.
  destruct (Nat.eqb n e); [reflexivity|]. cbn [negb].
  destruct (Nat.eqb e 1); reflexivity.
Qed.
Print Assumptions pure_check_num_args_eq.

(* ------------------------------------------------------------------------------------------ *)
(* object.rs ObjString::validate_char_boundary                                                  *)

Lemma str_boundary_nat : forall s p, str_is_char_boundary s (Z.of_nat p) = is_char_boundary s p.
Proof. intros s p. unfold str_is_char_boundary. destruct (Z.ltb_spec (Z.of_nat p) 0); [lia|]. rewrite Nat2Z.id. reflexivity. Qed.

Theorem pure_validate_char_boundary_eq : forall h s pos desc,
  PureStr.ObjString_validate_char_boundary (h, s) (Z.of_nat pos) desc =
  unit_view (StrFns.validate_char_boundary s pos desc).
Proof.
  intros h s pos desc. unfold PureStr.ObjString_validate_char_boundary, StrFns.validate_char_boundary.
  cbn [snd]. rewrite str_boundary_nat. destruct (is_char_boundary s pos); reflexivity.
Qed.
Print Assumptions pure_validate_char_boundary_eq.

(* ------------------------------------------------------------------------------------------ *)
(* utils.rs validate_integer / value.rs try_as_bounded_index over the richer value type:         *)
(* the same text as gen/PureIndex.v up to the name of the constructor                            *)

Theorem pure_validate_integer_x_eq : forall v sh,
  PureStr.validate_integer_x v sh = PureIndex.validate_integer (rv_of_x v) sh.
Proof. intros [| | | | | |] sh; reflexivity. Qed.

Theorem pure_try_as_bounded_index_x_eq : forall v sh bound kind,
  PureStr.try_as_bounded_index_x v sh bound kind = PureIndex.try_as_bounded_index (rv_of_x v) sh bound kind.
Proof.
  intros v sh bound kind. unfold PureStr.try_as_bounded_index_x, PureIndex.try_as_bounded_index.
  rewrite pure_validate_integer_x_eq. reflexivity.
Qed.

Lemma idx_of_x : forall v sh, idx_of_arg (arg_of_x v sh) =
  match v with XNumber x => idx_of_num (num_of_f64 x) | _ => INotNumber end.
Proof. intros [| | | | | |] sh; reflexivity. Qed.

Theorem pure_validate_integer_x_eq_model : forall v sh,
  PureStr.validate_integer_x v sh =
  result_view (fun z => z) (Index.validate_integer sh (idx_of_arg (arg_of_x v sh))).
Proof.
  intros v sh. rewrite pure_validate_integer_x_eq, idx_of_x.
  destruct v; try apply gen_validate_integer_other_eq_model. apply gen_validate_integer_eq_model.
Qed.
Print Assumptions pure_validate_integer_x_eq_model.

Theorem pure_try_as_bounded_index_x_eq_model : forall v sh bound kind,
  0 <= bound <= isize_max ->
  PureStr.try_as_bounded_index_x v sh bound kind =
  Val (result_view Z.of_nat (bounded_index kind sh (idx_of_arg (arg_of_x v sh)) bound)).
Proof.
  intros v sh bound kind Hb. rewrite pure_try_as_bounded_index_x_eq, idx_of_x.
  destruct v; try apply gen_try_as_bounded_index_other_eq_model.
  apply gen_try_as_bounded_index_eq_model. exact Hb.
Qed.
Print Assumptions pure_try_as_bounded_index_x_eq_model.

(* ------------------------------------------------------------------------------------------ *)
(* the natives                                                                                  *)

(* the check of the argument count, as every native starts *)
Lemma check_args_view : forall (args : list arg) e,
  PureStr.check_num_args (Z.of_nat (length args)) (Z.of_nat e) = unit_view (StrFns.check_num_args (length args) e).
Proof. intros. apply pure_check_num_args_eq. Qed.

Ltac start_native e :=
  change (Z.of_nat 0) with 0 in *;
  match goal with |- context [PureStr.check_num_args ?n ?k] =>
    change (PureStr.check_num_args n k) with (PureStr.check_num_args n (Z.of_nat e));
    rewrite (pure_check_num_args_eq _ e) end.

Lemma gtb0_len : forall (s : list byte), (list_len s >? 0) = (0 <? length s)%nat.
Proof.
  intros s. unfold list_len. destruct s as [|b s]; [reflexivity|].
  cbn [length]. rewrite Z.gtb_ltb. destruct (Z.ltb_spec 0 (Z.of_nat (S (length s)))); [reflexivity|lia].
Qed.

(* String.len() *)
Theorem pure_string_len_eq : forall (args : list arg) h s v0,
  (args = [] -> v0 = XObjString (h, s)) ->
  PureStr.string_len (Z.of_nat (length args)) v0 = Val (res_view (StrFns.string_len s args)).
Proof.
  intros args h s v0 H. unfold PureStr.string_len, StrFns.string_len. start_native 0%nat.
  destruct args as [|a args]; [|reflexivity]. rewrite (H eq_refl). reflexivity.
Qed.
Print Assumptions pure_string_len_eq.

(* String.is_alpha / is_digit / is_hexdigit *)
Lemma classify_eq : forall (p : Z -> bool) (q : N -> bool) s,
  (forall c, p (Z.of_N c) = q c) ->
  ((list_len s >? 0) && forallb p (str_chars s)) = ((0 <? length s)%nat && forallb q (code_points s)).
Proof. intros p q s H. rewrite gtb0_len, (forallb_str_chars p q s H). reflexivity. Qed.

Theorem pure_string_is_alpha_eq : forall (args : list arg) h s v0,
  (args = [] -> v0 = XObjString (h, s)) ->
  PureStr.string_is_alpha (Z.of_nat (length args)) v0 = Val (res_view (StrFns.string_is_alpha s args)).
Proof.
  intros args h s v0 H. unfold PureStr.string_is_alpha, StrFns.string_is_alpha, string_classify. start_native 0%nat.
  destruct args as [|a args]; [|reflexivity]. rewrite (H eq_refl).
  cbn [StrFns.check_num_args length Nat.eqb unit_view result_view bind x_try_as_obj_string snd res_view rv_view].
  cbv zeta. erewrite (classify_eq _ cp_is_alpha s) by (intros c; cbv beta; apply char_alpha_N). reflexivity.
Qed.
Print Assumptions pure_string_is_alpha_eq.

Theorem pure_string_is_digit_eq : forall (args : list arg) h s v0,
  (args = [] -> v0 = XObjString (h, s)) ->
  PureStr.string_is_digit (Z.of_nat (length args)) v0 = Val (res_view (StrFns.string_is_digit s args)).
Proof.
  intros args h s v0 H. unfold PureStr.string_is_digit, StrFns.string_is_digit, string_classify. start_native 0%nat.
  destruct args as [|a args]; [|reflexivity]. rewrite (H eq_refl).
  cbn [StrFns.check_num_args length Nat.eqb unit_view result_view bind x_try_as_obj_string snd res_view rv_view].
  cbv zeta. erewrite (classify_eq _ cp_is_digit s) by (intros c; cbv beta; apply char_digit_N). reflexivity.
Qed.
Print Assumptions pure_string_is_digit_eq.

Theorem pure_string_is_hexdigit_eq : forall (args : list arg) h s v0,
  (args = [] -> v0 = XObjString (h, s)) ->
  PureStr.string_is_hexdigit (Z.of_nat (length args)) v0 = Val (res_view (StrFns.string_is_hexdigit s args)).
Proof.
  intros args h s v0 H. unfold PureStr.string_is_hexdigit, StrFns.string_is_hexdigit, string_classify. start_native 0%nat.
  destruct args as [|a args]; [|reflexivity]. rewrite (H eq_refl).
  cbn [StrFns.check_num_args length Nat.eqb unit_view result_view bind x_try_as_obj_string snd res_view rv_view].
  cbv zeta. erewrite (classify_eq _ cp_is_hexdigit s) by (intros c; cbv beta; apply char_hexdigit_N). reflexivity.
Qed.
Print Assumptions pure_string_is_hexdigit_eq.

(* String.count_chars(): `chars().count()` is the number of code points; the model counts the bytes that are not
   continuation bytes (what std does); equal on every valid string - and a Rust str is always valid UTF-8 *)
Lemma chars_count_eq : forall s, valid_utf8 s = true -> list_len (str_chars s) = Z.of_nat (count_chars_bytes s).
Proof.
  intros s H. rewrite (count_chars_bytes_spec s H). unfold StrSpec.spec_count_chars, list_len, str_chars, chars, code_points.
  destruct (decode s); rewrite !map_length; reflexivity.
Qed.

Theorem pure_string_count_chars_eq : forall (args : list arg) h s v0,
  valid_utf8 s = true ->
  (args = [] -> v0 = XObjString (h, s)) ->
  PureStr.string_count_chars (Z.of_nat (length args)) v0 = Val (res_view (StrFns.string_count_chars s args)).
Proof.
  intros args h s v0 Hv H. unfold PureStr.string_count_chars, StrFns.string_count_chars. start_native 0%nat.
  destruct args as [|a args]; [|reflexivity]. rewrite (H eq_refl).
  cbn [StrFns.check_num_args length Nat.eqb unit_view result_view bind x_try_as_obj_string snd res_view rv_view].
  rewrite (chars_count_eq s Hv). reflexivity.
Qed.
Print Assumptions pure_string_count_chars_eq.

(* an argument that must be a string *)
Lemma expect_string_view : forall v sh,
  match x_try_as_obj_string v with
  | Some t => ResOk t
  | None => ResErr (mk_error "TypeError" (format "Expected a string but found '{}'." [sh]))
  end = match expect_string (arg_of_x v sh) with
        | Ok t => match x_try_as_obj_string v with Some o => ResOk o | None => ResOk (0, t) end
        | Error e => ResErr (err_view e)
        end.
Proof. intros [| | | [h t] | | |] sh; reflexivity. Qed.

Lemma expect_string_some : forall v sh t, expect_string (arg_of_x v sh) = Ok t ->
  exists h, v = XObjString (h, t).
Proof.
  intros [| | | [h t0] | | |] sh t; cbn; intros E; try discriminate. inversion E; subst. exists h. reflexivity.
Qed.

(* String.starts_with(prefix) / ends_with(suffix) *)
Theorem pure_string_starts_with_eq : forall (args : list arg) h s v0 sh0 v1,
  (forall a, args = [a] -> a = arg_of_x v0 sh0 /\ v1 = XObjString (h, s)) ->
  PureStr.string_starts_with (Z.of_nat (length args)) v0 sh0 v1 = Val (res_view (StrFns.string_starts_with s args)).
Proof.
  intros args h s v0 sh0 v1 H. unfold PureStr.string_starts_with, StrFns.string_starts_with. start_native 1%nat.
  destruct args as [|a [|b args]]; try reflexivity.
  destruct (H a eq_refl) as [-> ->].
  cbn [StrFns.check_num_args length Nat.eqb unit_view result_view bind x_try_as_obj_string snd].
  destruct v0 as [| | | [h0 t] | | |]; try reflexivity.
  cbn [x_try_as_obj_string expect_string arg_of_x argv_of_x av bind snd res_view result_view rv_view].
  rewrite str_starts_with_prefix. reflexivity.
Qed.
Print Assumptions pure_string_starts_with_eq.

Theorem pure_string_ends_with_eq : forall (args : list arg) h s v0 sh0 v1,
  (forall a, args = [a] -> a = arg_of_x v0 sh0 /\ v1 = XObjString (h, s)) ->
  PureStr.string_ends_with (Z.of_nat (length args)) v0 sh0 v1 = Val (res_view (StrFns.string_ends_with s args)).
Proof.
  intros args h s v0 sh0 v1 H. unfold PureStr.string_ends_with, StrFns.string_ends_with. start_native 1%nat.
  destruct args as [|a [|b args]]; try reflexivity.
  destruct (H a eq_refl) as [-> ->].
  cbn [StrFns.check_num_args length Nat.eqb unit_view result_view bind x_try_as_obj_string snd].
  destruct v0 as [| | | [h0 t] | | |]; try reflexivity.
  cbn [x_try_as_obj_string expect_string arg_of_x argv_of_x av bind snd res_view result_view rv_view].
  rewrite str_ends_with_suffix. reflexivity.
Qed.
Print Assumptions pure_string_ends_with_eq.

(* String.replace(old, new): args = [old; new], so peek(1) = old, peek(0) = new, peek(2) = the receiver *)
Theorem pure_string_replace_eq : forall (args : list arg) h s v0 sh0 v1 sh1 v2,
  (forall a b, args = [a; b] -> a = arg_of_x v1 sh1 /\ b = arg_of_x v0 sh0 /\ v2 = XObjString (h, s)) ->
  PureStr.string_replace (Z.of_nat (length args)) v0 sh0 v1 sh1 v2 = Val (res_view (StrFns.string_replace s args)).
Proof.
  intros args h s v0 sh0 v1 sh1 v2 H. unfold PureStr.string_replace, StrFns.string_replace. start_native 2%nat.
  destruct args as [|a [|b [|c args]]]; try reflexivity.
  destruct (H a b eq_refl) as [-> [-> ->]].
  cbn [StrFns.check_num_args length Nat.eqb unit_view result_view bind x_try_as_obj_string snd].
  destruct v1 as [| | | [h1 old] | | |]; try reflexivity.
  cbn [x_try_as_obj_string expect_string arg_of_x argv_of_x av bind snd].
  destruct old as [|o old]; [reflexivity|]. cbn [str_is_empty].
  destruct v0 as [| | | [h0 new] | | |]; try reflexivity.
  cbn [x_try_as_obj_string expect_string arg_of_x argv_of_x av bind snd res_view result_view rv_view].
  cbv zeta. rewrite str_replace_bytes. reflexivity.
Qed.
Print Assumptions pure_string_replace_eq.

(* ------------------------------------------------------------------------------------------ *)
(* String.char_byte_index(i): the loop over 0..len+1                                            *)

Lemma wrap_s_small : forall x, 0 <= x < 2 ^ 63 -> wrap_s 64 x = x.
Proof.
  intros x H. unfold wrap_s. change (2 ^ (64 - 1)) with (2 ^ 63).
  rewrite Z.mod_small by (change (2 ^ 64) with (2 * 2 ^ 63); lia). lia.
Qed.

Lemma count_chars_le : forall s, (count_chars_bytes s <= length s)%nat.
Proof.
  intros s. unfold count_chars_bytes. induction s as [|b s IH]; [apply Nat.le_refl|].
  cbn [filter]. destruct (negb (is_cont b)); cbn [length]; lia.
Qed.

(* whatever the generated loop body is: if ONE turn of it does what one turn of [cbi_loop] does, the loops agree *)
Lemma cbi_for_in : forall (body : Z -> Z -> R2G.res (step Z (rresult xvalue))) s ci,
  (forall i cc, Z.of_nat cc + 1 < 2 ^ 64 ->
     body (Z.of_nat i) (Z.of_nat cc) =
     Val (if is_char_boundary s i
          then if Nat.eqb cc ci then Return (ResOk (XNumber (f64_of_Z (Z.of_nat i)))) else Continue (Z.of_nat (S cc))
          else Continue (Z.of_nat cc))) ->
  forall l cc, Z.of_nat cc + Z.of_nat (length l) < 2 ^ 64 ->
  match cbi_loop s l cc ci with
  | Some i => for_in (map Z.of_nat l) body (Z.of_nat cc) = Val (inr (ResOk (XNumber (f64_of_Z (Z.of_nat i)))))
  | None => exists c, for_in (map Z.of_nat l) body (Z.of_nat cc) = Val (inl c)
  end.
Proof.
  intros body s ci Hb. induction l as [|i l IH]; intros cc Hcc.
  - cbn. eexists. reflexivity.
  - cbn [map for_in cbi_loop length] in *. rewrite Hb by lia.
    destruct (is_char_boundary s i).
    + destruct (Nat.eqb cc ci); [reflexivity|]. apply IH. lia.
    + apply IH. lia.
Qed.

Theorem pure_string_char_byte_index_eq : forall (args : list arg) h s v0 sh0 v1,
  valid_utf8 s = true -> Z.of_nat (length s) < 2 ^ 63 ->
  (forall a, args = [a] -> a = arg_of_x v0 sh0 /\ v1 = XObjString (h, s)) ->
  PureStr.string_char_byte_index (Z.of_nat (length args)) v0 sh0 v1 =
  Val (res_view (StrFns.string_char_byte_index s args)).
Proof.
  intros args h s v0 sh0 v1 Hv Hlen H.
  unfold PureStr.string_char_byte_index, StrFns.string_char_byte_index. start_native 1%nat.
  destruct args as [|a [|b args]]; try reflexivity.
  destruct (H a eq_refl) as [-> ->].
  cbn [StrFns.check_num_args length Nat.eqb unit_view result_view bind x_try_as_obj_string snd].
  rewrite (chars_count_eq s Hv).
  pose proof (count_chars_le s) as Hc.
  rewrite wrap_s_small by lia.
  rewrite pure_try_as_bounded_index_x_eq_model by (unfold isize_max; lia).
  cbn [rbind shown arg_of_x].
  destruct (bounded_index "String" sh0 (idx_of_arg (arg_of_x v0 sh0)) (Z.of_nat (count_chars_bytes s))) as [ci|e];
    [|reflexivity].
  cbn [result_view bind]. cbv zeta.
  unfold list_len. rewrite u_add_ok by lia. cbn [rbind].
  replace (Z.of_nat (length s) + 1) with (Z.of_nat (length s + 1)) by lia.
  change 0 with (Z.of_nat 0). rewrite z_range_seq. rewrite Nat.sub_0_r.
  match goal with |- context [for_in _ ?b _] => pose proof (cbi_for_in b s ci) as Hloop end.
  match type of Hloop with ?A -> _ => assert (Hb : A) end.
  { intros i cc Hcc. cbv beta. rewrite str_boundary_nat. destruct (is_char_boundary s i); [|reflexivity].
    rewrite eqb_nat_Z. destruct (Nat.eqb cc ci); [reflexivity|].
    rewrite u_add_ok by lia. cbn [rbind]. do 2 f_equal. lia. }
  specialize (Hloop Hb (seq 0 (length s + 1)) 0%nat).
  rewrite seq_length in Hloop. specialize (Hloop ltac:(lia)).
  destruct (cbi_loop s (seq 0 (length s + 1)) 0 ci) as [i|].
  - rewrite Hloop. reflexivity.
  - destruct Hloop as [c Hc']. rewrite Hc'. reflexivity.
Qed.
Print Assumptions pure_string_char_byte_index_eq.

(* ------------------------------------------------------------------------------------------ *)
(* String.find(sub, start)                                                                      *)

(* the slice taken after both boundary tests cannot panic *)
Lemma slice_between_boundaries : forall s i n,
  is_char_boundary s i = true -> is_char_boundary s (i + n) = true ->
  exists t, StrFns.str_slice s i (i + n) = Some t.
Proof.
  intros s i n Hi Hn. unfold StrFns.str_slice. rewrite Hi, Hn.
  assert (Hle : (i + n <= length s)%nat).
  { destruct (le_lt_dec (i + n) (length s)) as [H|H]; [exact H|].
    rewrite (boundary_beyond s (i + n) H) in Hn. discriminate. }
  destruct (Nat.leb_spec i (i + n)); [|lia]. destruct (Nat.leb_spec (i + n) (length s)); [|lia].
  eexists. reflexivity.
Qed.

(* one turn of the generated body against one turn of [find_loop]; [K] is what follows the loop *)
Lemma find_for_in : forall (body : Z -> unit -> R2G.res (step unit (rresult xvalue))) s sub start,
  (forall i, Z.of_nat i + Z.of_nat (length sub) < 2 ^ 64 ->
     body (Z.of_nat i) tt =
     if negb (is_char_boundary s i) || negb (is_char_boundary s (i + length sub)) then Val (Continue tt)
     else match StrFns.str_slice s i (i + length sub) with
          | None => Fault OutOfBounds
          | Some slice =>
            if (start <=? i)%nat && bytes_eqb slice sub
            then Val (Return (ResOk (XNumber (f64_of_Z (Z.of_nat i))))) else Val (Continue tt)
          end) ->
  forall l, (forall i, In i l -> Z.of_nat i + Z.of_nat (length sub) < 2 ^ 64) ->
  for_in (map Z.of_nat l) body tt =
  Val (match find_loop s sub start l with Ok RNone => inl tt | r => inr (res_view r) end).
Proof.
  intros body s sub start Hb. induction l as [|i l IH]; intros Hl; [reflexivity|].
  cbn [map for_in find_loop]. rewrite Hb by (apply Hl; left; reflexivity).
  destruct (is_char_boundary s i) eqn:B1; cbn [negb orb]; [|apply IH; intros j Hj; apply Hl; right; exact Hj].
  destruct (is_char_boundary s (i + length sub)) eqn:B2; cbn [negb]; [|apply IH; intros j Hj; apply Hl; right; exact Hj].
  destruct (slice_between_boundaries s i (length sub) B1 B2) as [t Ht]. rewrite Ht.
  destruct ((start <=? i)%nat && bytes_eqb t sub); [reflexivity|].
  apply IH. intros j Hj. apply Hl. right. exact Hj.
Qed.

Lemma find_loop_none_or_num : forall s sub start l,
  match find_loop s sub start l with Ok RNone => True | Ok (RNum _) => True | Error _ => True | _ => False end.
Proof.
  intros s sub start. induction l as [|i l IH]; cbn [find_loop]; [exact I|].
  destruct (negb (is_char_boundary s i) || negb (is_char_boundary s (i + length sub))); [exact IH|].
  destruct (StrFns.str_slice s i (i + length sub)); [|exact I].
  destruct ((start <=? i)%nat && bytes_eqb l0 sub); [exact I|exact IH].
Qed.

Theorem pure_string_find_eq : forall (args : list arg) h s v0 sh0 v1 sh1 v2,
  Z.of_nat (length s) < 2 ^ 63 ->
  (forall a b, args = [a; b] -> a = arg_of_x v1 sh1 /\ b = arg_of_x v0 sh0 /\ v2 = XObjString (h, s) /\
     Z.of_nat (length s) + Z.of_nat (length (match v1 with XObjString o => snd o | _ => [] end)) < 2 ^ 64) ->
  PureStr.string_find (Z.of_nat (length args)) v0 sh0 v1 sh1 v2 = Val (res_view (StrFns.string_find s args)).
Proof.
  intros args h s v0 sh0 v1 sh1 v2 Hlen H. unfold PureStr.string_find, StrFns.string_find. start_native 2%nat.
  destruct args as [|a [|b [|c args]]]; try reflexivity.
  destruct (H a b eq_refl) as [-> [-> [-> Hsub]]].
  cbn [StrFns.check_num_args length Nat.eqb unit_view result_view bind x_try_as_obj_string snd].
  destruct v1 as [| | | [h1 sub] | | |]; try reflexivity.
  cbn [x_try_as_obj_string expect_string arg_of_x argv_of_x av bind snd shown] in *.
  destruct sub as [|b0 sub0]; [reflexivity|]. cbn [str_is_empty]. set (sub := b0 :: sub0) in *.
  cbv zeta. unfold list_len. rewrite wrap_s_small by lia.
  rewrite pure_validate_integer_x_eq_model.
  fold (arg_of_x v0 sh0).
  assert (Hwf : forall z, Index.validate_integer sh0 (idx_of_arg (arg_of_x v0 sh0)) = Ok z -> isize_min <= z <= isize_max).
  { intros z. rewrite idx_of_x. destruct v0; cbn [Index.validate_integer]; try discriminate.
    rewrite idx_of_f64. destruct (is_integral n); cbn [Index.validate_integer]; [|discriminate].
    intros E. inversion E; subst. apply to_isize_in_range. }
  destruct (Index.validate_integer sh0 (idx_of_arg (arg_of_x v0 sh0))) as [i|e]; [|reflexivity].
  specialize (Hwf i eq_refl). cbn [result_view bind].
  set (L := Z.of_nat (length s)) in *.
  assert (Hadd : (if i <? 0 then s_add 64 i L else Val i) = Val (if i <? 0 then isize_add i L else i)).
  { destruct (Z.ltb_spec i 0); [|reflexivity]. rewrite isize_add_no_overflow by (unfold isize_max; lia).
    apply s_add_ok. rewrite pow2_63. unfold isize_min, isize_max in *. rewrite pow63 in *. lia. }
  rewrite Hadd. cbn [rbind]. set (st := if i <? 0 then isize_add i L else i).
  destruct ((st <? 0) || (st >=? L)) eqn:E; [reflexivity|]. zbool.
  rewrite Z.mod_small by (rewrite pow2_64; lia).
  assert (Est : st = Z.of_nat (Z.to_nat st)) by lia.
  set (n := Z.to_nat st) in *. clearbody n. clearbody st. subst st.
  rewrite pure_validate_char_boundary_eq.
  destruct (StrFns.validate_char_boundary s n "string index") as [u|e]; [|reflexivity].
  cbn [unit_view result_view bind snd]. unfold L. rewrite z_range_seq.
  match goal with |- context [for_in _ ?b _] => pose proof (find_for_in b s sub n) as Hloop end.
  match type of Hloop with ?A -> _ => assert (Hb : A) end.
  { intros j Hj. cbv beta. rewrite str_boundary_nat.
    destruct (is_char_boundary s j); cbn [negb orb rbind]; [|reflexivity].
    unfold list_len. rewrite u_add_ok by lia. cbn [rbind].
    replace (Z.of_nat j + Z.of_nat (length sub)) with (Z.of_nat (j + length sub)) by lia.
    rewrite str_boundary_nat. destruct (is_char_boundary s (j + length sub)); cbn [negb]; [|reflexivity].
    rewrite str_slice_z_nat. destruct (StrFns.str_slice s j (j + length sub)) as [t|]; [|reflexivity].
    cbn [rbind]. rewrite Z.geb_leb, leb_nat_Z, str_eqb_bytes_eqb.
    destruct ((n <=? j)%nat && bytes_eqb t sub); reflexivity. }
  rewrite (Hloop Hb).
  - pose proof (find_loop_none_or_num s sub n (seq n (length s - n))) as Hk.
    destruct (find_loop s sub n (seq n (length s - n))) as [[]|]; try contradiction; reflexivity.
  - intros j Hj. apply in_seq in Hj. unfold L in *. cbn [snd] in Hsub. fold sub in Hsub. lia.
Qed.
Print Assumptions pure_string_find_eq.

(* ------------------------------------------------------------------------------------------ *)
(* which stack slots the positional parameters of the generated natives stand for: the receiver of a native with
   n arguments is vm.peek(n), its arguments are vm.peek(n-1) .. vm.peek(0) - as the theorems above read them *)
Theorem pure_natives_peeks :
  PureStr.string_len_peeks = [0] /\ PureStr.string_is_alpha_peeks = [0] /\ PureStr.string_is_digit_peeks = [0] /\
  PureStr.string_is_hexdigit_peeks = [0] /\ PureStr.string_count_chars_peeks = [0] /\
  PureStr.string_char_byte_index_peeks = [0; 1] /\ PureStr.string_find_peeks = [0; 1; 2] /\
  PureStr.string_replace_peeks = [0; 1; 2] /\ PureStr.string_starts_with_peeks = [0; 1] /\
  PureStr.string_ends_with_peeks = [0; 1] /\ PureStr.Vm_string_get_item_peeks = [0; 1].
Proof. repeat split; reflexivity. Qed.
Print Assumptions pure_natives_peeks.

(* ------------------------------------------------------------------------------------------ *)
(* vm.rs Vm::string_get_item: `s[i]` and `s[a..b]` on a string                                   *)

(* the same text as gen/PureIndex.v (the function is translated into both groups) *)
Theorem pure_make_bounded_range_x_eq : forall rb re limit kind,
  PureStr.make_bounded_range_x rb re limit kind = PureIndex.make_bounded_range rb re limit kind.
Proof. reflexivity. Qed.

(* what the routine leaves: the result and its effects on the value stack ([fx0] = the effects so far).  A slice
   that would panic is a fault of the generated code and [RustPanic] in the model. *)
Definition get_item_view (fx0 : list stack_fx) (r : StrFns.res) : R2G.res (rresult unit * list stack_fx) :=
  match r with
  | Ok (RStr t) => Val (ResOk tt, (fx0 ++ [FxPop] ++ [FxPoke 0 (XObjString (new_obj_string t))])%list)
  | Ok _ => Fault (ExplicitPanic "not a result of string_get_item")
  | Error (RustPanic _) => Fault OutOfBounds
  | Error e => Val (ResErr (err_view e), fx0)
  end.

Definition no_panic (e : err) : Prop := match e with RustPanic _ => False | _ => True end.
Lemma get_item_view_err : forall fx e, no_panic e -> get_item_view fx (Error e) = Val (ResErr (err_view e), fx).
Proof. intros fx [m|m|m|m] H; try reflexivity. contradiction. Qed.
Lemma validate_integer_no_panic : forall sh i e, Index.validate_integer sh i = Error e -> no_panic e.
Proof. intros sh [| |z] e H; cbn in H; inversion H; exact I. Qed.
Lemma bounded_index_no_panic : forall k sh i b e, bounded_index k sh i b = Error e -> no_panic e.
Proof.
  intros k sh i b e H. unfold bounded_index in H.
  destruct (Index.validate_integer sh i) as [z|e'] eqn:V.
  - destruct (_ || _) in H; inversion H. exact I.
  - inversion H; subst. eapply validate_integer_no_panic; exact V.
Qed.
Lemma bounded_range_no_panic : forall k rb re l e, bounded_range k rb re l = Error e -> no_panic e.
Proof.
  intros k rb re l e H. unfold bounded_range in H. cbv zeta in H.
  destruct (_ || _) in H; [inversion H; exact I|]. destruct (_ || _) in H; inversion H. exact I.
Qed.
Lemma validate_char_boundary_no_panic : forall s p d e, StrFns.validate_char_boundary s p d = Error e -> no_panic e.
Proof. intros s p d e H. unfold StrFns.validate_char_boundary in H. destruct (is_char_boundary s p); inversion H. exact I. Qed.

(* `while end <= string.len() && !is_char_boundary(end) { end += 1 }` against StrFns.scan_end *)
Lemma scan_end_loop : forall (body : Z -> R2G.res (step Z Empty_set)) s,
  (forall e, body (Z.of_nat e) =
     if (e <=? length s)%nat && negb (is_char_boundary s e)
     then Val (Continue (Z.of_nat (S e))) else Val (Break (Z.of_nat e))) ->
  forall n e k, (length s + 1 - e <= n)%nat -> (n < k)%nat ->
  loop k body (Z.of_nat e) = Val (inl (Z.of_nat (scan_end s n e))).
Proof.
  intros body s Hb. induction n as [|n IH]; intros e k Hn Hk.
  - destruct k as [|k]; [lia|]. cbn [loop scan_end]. rewrite Hb.
    destruct (Nat.leb_spec e (length s)); [lia|]. reflexivity.
  - destruct k as [|k]; [lia|]. cbn [loop scan_end]. rewrite Hb.
    destruct ((e <=? length s)%nat && negb (is_char_boundary s e)) eqn:C; [|reflexivity].
    apply IH; lia.
Qed.

Theorem pure_string_get_item_eq : forall fuel fx0 h s v0 sh0,
  Z.of_nat (length s) + 1 < 2 ^ 63 -> (length s < fuel)%nat ->
  match v0 with XObjRange b e => in_isize b = true /\ in_isize e = true | _ => True end ->
  PureStr.Vm_string_get_item fuel fx0 v0 sh0 (XObjString (h, s)) =
  get_item_view fx0 (StrFns.string_get_item s (arg_of_x v0 sh0)).
Proof.
  intros fuel fx0 h s v0 sh0 Hlen Hfuel Hr.
  assert (H64 : 2 ^ 63 < 2 ^ 64) by (apply Z.pow_lt_mono_r; lia).
  unfold PureStr.Vm_string_get_item, StrFns.string_get_item. cbn [x_try_as_obj_string snd]. cbv zeta.
  unfold list_len. rewrite wrap_s_small by lia.
  assert (Hslice : forall b e fx,
    rbind (str_slice_z s (Z.of_nat b) (Z.of_nat e)) (fun t =>
      Val (ResOk tt, ((fx ++ [FxPop]) ++ [FxPoke 0 (XObjString (new_obj_string t))])%list)) =
    get_item_view fx (match StrFns.str_slice s b e with Some t => Ok (RStr t) | None => Error slice_panic end)).
  { intros b e fx. rewrite str_slice_z_nat. destruct (StrFns.str_slice s b e); cbn [rbind get_item_view];
      [rewrite <- app_assoc|]; reflexivity. }
  destruct v0 as [| | x | o | rb re | l | tag]; try reflexivity.
  - (* Number *)
    cbn [arg_of_x argv_of_x av shown].
    rewrite pure_try_as_bounded_index_x_eq_model by (unfold isize_max; lia). cbn [rbind].
    fold (arg_of_x (XNumber x) sh0). rewrite idx_of_x.
    destruct (bounded_index "String" sh0 (idx_of_num (num_of_f64 x)) (Z.of_nat (length s))) as [b|e] eqn:EB;
      [|cbn [result_view bind]; rewrite (get_item_view_err _ _ (bounded_index_no_panic _ _ _ _ _ EB)); reflexivity].
    cbn [result_view bind]. rewrite pure_validate_char_boundary_eq.
    destruct (StrFns.validate_char_boundary s b "string index") as [u|e] eqn:EV;
      [|cbn [unit_view result_view bind]; rewrite (get_item_view_err _ _ (validate_char_boundary_no_panic _ _ _ _ EV)); reflexivity].
    cbn [unit_view result_view bind fst snd].
    assert (Hb : (b < length s)%nat).
    { unfold bounded_index in EB. destruct (Index.validate_integer sh0 (idx_of_num (num_of_f64 x))) as [i|]; [|discriminate].
      destruct (_ || _) eqn:C in EB; [discriminate|]. inversion EB; subst. zbool. lia. }
    rewrite u_add_ok by lia. cbn [rbind].
    replace (Z.of_nat b + 1) with (Z.of_nat (b + 1)) by lia.
    match goal with |- context [loop fuel ?bd _] => pose proof (scan_end_loop bd s) as HL end.
    match type of HL with ?A -> _ => assert (Hbd : A) end.
    { intros e. cbv beta. rewrite leb_nat_Z, str_boundary_nat.
      destruct (Nat.leb_spec e (length s)); cbn [andb]; [|reflexivity].
      destruct (negb (is_char_boundary s e)); [|reflexivity].
      rewrite u_add_ok by lia. cbn [rbind]. do 3 f_equal. lia. }
    rewrite (HL Hbd (length s) (b + 1)%nat fuel) by lia. cbn [rbind].
    apply Hslice.
  - (* Range *)
    destruct Hr as [Hrb Hre]. cbn [arg_of_x argv_of_x av shown fst snd].
    rewrite pure_make_bounded_range_x_eq.
    rewrite gen_make_bounded_range_eq_model by (try assumption; unfold isize_max; lia). cbn [rbind].
    destruct (bounded_range "String" rb re (Z.of_nat (length s))) as [[b e]|er] eqn:EB;
      [|cbn [result_view bind]; rewrite (get_item_view_err _ _ (bounded_range_no_panic _ _ _ _ _ EB)); reflexivity].
    cbn [result_view pair_view bind fst snd]. rewrite pure_validate_char_boundary_eq.
    destruct (StrFns.validate_char_boundary s b "string slice start") as [u|er] eqn:EV1;
      [|cbn [unit_view result_view bind]; rewrite (get_item_view_err _ _ (validate_char_boundary_no_panic _ _ _ _ EV1)); reflexivity].
    cbn [unit_view result_view bind]. rewrite pure_validate_char_boundary_eq.
    destruct (StrFns.validate_char_boundary s e "string slice end") as [u2|er] eqn:EV2;
      [|cbn [unit_view result_view bind]; rewrite (get_item_view_err _ _ (validate_char_boundary_no_panic _ _ _ _ EV2)); reflexivity].
    cbn [unit_view result_view bind fst snd]. apply Hslice.
Qed.
Print Assumptions pure_string_get_item_eq.

(* which field of the Rust struct each flattened parameter of the generated definitions stands for (the parameters are
   positional: a function that read ANOTHER field of the same type would otherwise have the same text) *)
Theorem pure_str_fields : PureStr.r2g_fields =
  [("make_bounded_range_x"%string, ["self.begin"%string; "self.end"%string]);
   ("Vm_string_get_item"%string, ["self.#fx"%string])].
Proof. reflexivity. Qed.
Print Assumptions pure_str_fields.
