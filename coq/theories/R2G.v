(* R2G.v - run-time vocabulary of the Rust -> Gallina translator (translator/rust2gallina.py).
   The GENERATED files gen/Pure*.v use ONLY the names defined here plus the float operations of YV.Num and
   `is_char_boundary` of YV.Utf8.  DEFINITIONS ONLY (lemmas: R2GProofs.v).

   Scheme (notes/R2G.md):
   * every Rust integer is a Z; an operation that panics in a debug build when the mathematical result does
     not fit (`+ - *` on any integer type, `/ %` by zero, shifts by >= width) is a computation in the monad
     [res] and yields [Fault Overflow] / [Fault DivByZero]; `wrapping_*` and `as` are total and written with
     explicit `mod 2 ^ k`;
   * slice / Vec indexing out of range is [Fault OutOfBounds];
   * `loop` / `while` are [loop] on explicit fuel ([Fault OutOfFuel] when it runs out), `for x in slice` is
     [for_in]; the body answers [Continue s] / [Break s] / [Return r];
   * Rust's `Result<T, Error>` is the DATA type [rresult]; `error!(Kind, fmt, args)` is [mk_error]. *)
From Coq Require Import ZArith List Bool Ascii String.
From Coq Require Import Strings.Byte Floats.SpecFloat.
From YV Require Import Num Utf8.
Import ListNotations.
Open Scope Z_scope.

(* ---------- the fault monad ---------- *)
Inductive fault : Type :=
| Overflow            (* arithmetic overflow: panics with debug assertions, wraps without *)
| DivByZero
| OutOfBounds         (* index out of range: panics in every build *)
| OutOfFuel           (* the translated loop did not finish within the fuel given *)
| ExplicitPanic (msg : string).

Inductive res (A : Type) : Type :=
| Val (a : A)
| Fault (f : fault).
Arguments Val {A} a.
Arguments Fault {A} f.

Definition rbind {A B : Type} (m : res A) (f : A -> res B) : res B :=
  match m with Val a => f a | Fault e => Fault e end.

(* ---------- Rust's Result / Error as data ---------- *)
Record rerror : Type := mk_error { ekind : string; emsg : string }.

Inductive rresult (A : Type) : Type :=
| ResOk (a : A)
| ResErr (e : rerror).
Arguments ResOk {A} a.
Arguments ResErr {A} e.

(* format!("..{}..", args): every "{}" is replaced by the next argument *)
Fixpoint format (fmt : string) (args : list string) : string :=
  match fmt with
  | EmptyString => EmptyString
  | String "{"%char (String "}"%char rest) =>
      match args with
      | a :: args' => (a ++ format rest args')%string
      | [] => String "{"%char (String "}"%char (format rest []))
      end
  | String c rest => String c (format rest args)
  end.

(* ---------- a yarel Value as far as the translated functions look at it ---------- *)
Inductive rvalue : Type :=
| RNumber (n : f64)
| ROther (tag : Z).

(* ---------- machine integers ---------- *)
Definition in_u (k x : Z) : bool := (0 <=? x) && (x <? 2 ^ k).
Definition in_s (k x : Z) : bool := (- 2 ^ (k - 1) <=? x) && (x <? 2 ^ (k - 1)).

Definition chk_u (k x : Z) : res Z := if in_u k x then Val x else Fault Overflow.
Definition chk_s (k x : Z) : res Z := if in_s k x then Val x else Fault Overflow.

(* checked (debug-build) arithmetic on uK / iK *)
Definition u_add (k a b : Z) : res Z := chk_u k (a + b).
Definition u_sub (k a b : Z) : res Z := chk_u k (a - b).
Definition u_mul (k a b : Z) : res Z := chk_u k (a * b).
Definition u_div (k a b : Z) : res Z := if b =? 0 then Fault DivByZero else Val (a / b).
Definition u_rem (k a b : Z) : res Z := if b =? 0 then Fault DivByZero else Val (a mod b).
Definition s_add (k a b : Z) : res Z := chk_s k (a + b).
Definition s_sub (k a b : Z) : res Z := chk_s k (a - b).
Definition s_mul (k a b : Z) : res Z := chk_s k (a * b).
Definition s_neg (k a : Z) : res Z := chk_s k (- a).
Definition s_div (k a b : Z) : res Z := if b =? 0 then Fault DivByZero else chk_s k (Z.quot a b).
Definition s_rem (k a b : Z) : res Z :=
  if b =? 0 then Fault DivByZero else if (b =? -1) && (a =? - 2 ^ (k - 1)) then Fault Overflow else Val (Z.rem a b).
(* `a << n`, `a >> n`: only the shift amount is checked *)
Definition u_shl (k a n : Z) : res Z := if in_u k n && (n <? k) then Val ((a * 2 ^ n) mod 2 ^ k) else Fault Overflow.
Definition u_shr (k a n : Z) : res Z := if in_u k n && (n <? k) then Val (a / 2 ^ n) else Fault Overflow.

(* two's-complement reinterpretation, `x as iK` *)
Definition wrap_s (k x : Z) : Z := (x + 2 ^ (k - 1)) mod 2 ^ k - 2 ^ (k - 1).

(* checked_shl / checked_shr and unwrap_or_default on integers *)
Definition u_checked_shl (k a n : Z) : option Z := if n <? k then Some ((a * 2 ^ n) mod 2 ^ k) else None.
Definition u_checked_shr (k a n : Z) : option Z := if n <? k then Some (a / 2 ^ n) else None.
Definition s_checked_shl (k a n : Z) : option Z := if n <? k then Some (wrap_s k (a * 2 ^ n)) else None.
Definition s_checked_shr (k a n : Z) : option Z := if n <? k then Some (Z.shiftr a n) else None.
Definition unwrap_or_default_Z (o : option Z) : Z := match o with Some x => x | None => 0 end.

(* ---------- floats beyond YV.Num ---------- *)
Definition f_is_sign_negative (x : f64) : bool :=
  match x with
  | S754_zero s | S754_infinity s | S754_finite s _ _ => s
  | S754_nan => false                 (* the canonical NaN of the model has a clear sign bit *)
  end.
(* a decimal literal num/den, correctly rounded *)
Definition f64_lit (num den : Z) : f64 := round_ratio false num den.

(* ---------- slices, strings ---------- *)
Definition byte_Z (b : byte) : Z := Z.of_N (Byte.to_N b).
Definition list_len {A : Type} (l : list A) : Z := Z.of_nat (List.length l).
Definition list_index {A : Type} (l : list A) (i : Z) : res A :=
  if i <? 0 then Fault OutOfBounds else
  match nth_error l (Z.to_nat i) with Some x => Val x | None => Fault OutOfBounds end.
Definition str_is_char_boundary (s : list byte) (i : Z) : bool :=
  if i <? 0 then false else is_char_boundary s (Z.to_nat i).
Fixpoint str_eqb (a b : list byte) : bool :=
  match a, b with
  | [], [] => true
  | x :: a', y :: b' => Byte.eqb x y && str_eqb a' b'
  | _, _ => false
  end.

(* ---------- loops ---------- *)
Inductive step (S R : Type) : Type :=
| Continue (s : S)
| Break (s : S)
| Return (r : R).
Arguments Continue {S R} s.
Arguments Break {S R} s.
Arguments Return {S R} r.

(* `loop { body }`: [inl s] = left by `break` with state s, [inr r] = left by `return r` *)
Fixpoint loop {S R : Type} (fuel : nat) (body : S -> res (step S R)) (s : S) : res (S + R) :=
  match fuel with
  | O => Fault OutOfFuel
  | Datatypes.S f =>
    match body s with
    | Val (Continue s') => loop f body s'
    | Val (Break s') => Val (inl s')
    | Val (Return r) => Val (inr r)
    | Fault e => Fault e
    end
  end.

(* `for x in slice { body }` *)
Fixpoint for_in {A S R : Type} (l : list A) (body : A -> S -> res (step S R)) (s : S) : res (S + R) :=
  match l with
  | [] => Val (inl s)
  | x :: rest =>
    match body x s with
    | Val (Continue s') => for_in rest body s'
    | Val (Break s') => Val (inl s')
    | Val (Return r) => Val (inr r)
    | Fault e => Fault e
    end
  end.
