(* R2GProofs.v - lemmas about the run-time vocabulary of the Rust -> Gallina translator (R2G.v):
   when the checked operations succeed, how [loop] unrolls, [str_eqb] decides equality. *)
From Coq Require Import ZArith List Bool String Lia.
From Coq Require Import Strings.Byte.
From YV Require Import Num Utf8 R2G.
Import ListNotations.
Open Scope Z_scope.

Lemma chk_u_ok : forall k x, 0 <= x < 2 ^ k -> chk_u k x = Val x.
Proof.
  intros k x H. unfold chk_u, in_u.
  destruct (Z.leb_spec 0 x); [|lia]. destruct (Z.ltb_spec x (2 ^ k)); [reflexivity|lia].
Qed.

Lemma chk_s_ok : forall k x, - 2 ^ (k - 1) <= x < 2 ^ (k - 1) -> chk_s k x = Val x.
Proof.
  intros k x H. unfold chk_s, in_s.
  destruct (Z.leb_spec (- 2 ^ (k - 1)) x); [|lia]. destruct (Z.ltb_spec x (2 ^ (k - 1))); [reflexivity|lia].
Qed.

Lemma u_add_ok : forall k a b, 0 <= a + b < 2 ^ k -> u_add k a b = Val (a + b).
Proof. intros. apply chk_u_ok; assumption. Qed.
Lemma u_sub_ok : forall k a b, 0 <= a - b < 2 ^ k -> u_sub k a b = Val (a - b).
Proof. intros. apply chk_u_ok; assumption. Qed.
Lemma u_mul_ok : forall k a b, 0 <= a * b < 2 ^ k -> u_mul k a b = Val (a * b).
Proof. intros. apply chk_u_ok; assumption. Qed.
Lemma s_add_ok : forall k a b, - 2 ^ (k - 1) <= a + b < 2 ^ (k - 1) -> s_add k a b = Val (a + b).
Proof. intros. apply chk_s_ok; assumption. Qed.

Lemma pow2_64 : 2 ^ 64 = 18446744073709551616. Proof. reflexivity. Qed.
Lemma pow2_63 : 2 ^ (64 - 1) = 9223372036854775808. Proof. reflexivity. Qed.
Lemma pow2_128 : 2 ^ 128 = 340282366920938463463374607431768211456. Proof. reflexivity. Qed.

(* ---- str_eqb decides equality of byte lists ---- *)
Lemma byte_eqb_eq : forall x y : byte, Byte.eqb x y = true <-> x = y.
Proof. intros x y. apply Byte.byte_dec_bl || (split; [apply Byte.byte_dec_bl | apply Byte.byte_dec_lb]). Qed.

Lemma str_eqb_eq : forall a b, str_eqb a b = true <-> a = b.
Proof.
  induction a as [|x a IH]; destruct b as [|y b]; simpl; split; intro H; try reflexivity; try discriminate.
  - apply andb_true_iff in H. destruct H as [H1 H2]. apply byte_eqb_eq in H1. apply IH in H2. subst. reflexivity.
  - inversion H; subst. apply andb_true_iff. split; [apply byte_eqb_eq; reflexivity | apply IH; reflexivity].
Qed.

(* ---- list_index ---- *)
Lemma list_index_nat : forall (A : Type) (l : list A) (i : nat),
  list_index l (Z.of_nat i) = match nth_error l i with Some x => Val x | None => Fault OutOfBounds end.
Proof.
  intros A l i. unfold list_index. destruct (Z.ltb_spec (Z.of_nat i) 0); [lia|]. rewrite Nat2Z.id. reflexivity.
Qed.

(* ---- unrolling [loop] ---- *)
Lemma loop_S : forall (S R : Type) f (body : S -> res (step S R)) s,
  loop (Datatypes.S f) body s =
  match body s with
  | Val (Continue s') => loop f body s'
  | Val (Break s') => Val (inl s')
  | Val (Return r) => Val (inr r)
  | Fault e => Fault e
  end.
Proof. reflexivity. Qed.

Example format_example :
  format "{} index out of bounds." ["Vec"%string] = "Vec index out of bounds."%string /\
  format "a '{}' b {}" ["x"; "y"]%string = "a 'x' b y"%string.
Proof. split; reflexivity. Qed.

(* ---- observing a computation: a fault of any kind is "no result" ---- *)
Definition to_opt {A : Type} (r : res A) : option A := match r with Val a => Some a | Fault _ => None end.

Definition map_step {S R S' R' : Type} (fs : S' -> S) (fr : R' -> R) (x : step S' R') : step S R :=
  match x with Continue s => Continue (fs s) | Break s => Break (fs s) | Return r => Return (fr r) end.
Definition map_sum {S R S' R' : Type} (fs : S' -> S) (fr : R' -> R) (x : S' + R') : S + R :=
  match x with inl s => inl (fs s) | inr r => inr (fr r) end.

(* the model-side counterpart of [loop]: iterate a step function; None = stuck (or out of fuel) *)
Fixpoint miter {S' R' : Type} (mstep : S' -> option (step S' R')) (fuel : nat) (s : S') : option (S' + R') :=
  match fuel with
  | O => None
  | Datatypes.S f =>
    match mstep s with
    | None => None
    | Some (Continue t) => miter mstep f t
    | Some (Break t) => Some (inl t)
    | Some (Return r) => Some (inr r)
    end
  end.

(* SIMULATION: if one turn of the generated body agrees with one model step (on states satisfying an invariant),
   the whole generated loop agrees with the iterated model step, for every fuel. *)
Section LoopSim.
  Variables S R S' R' : Type.
  Variable body : S -> res (step S R).
  Variable mstep : S' -> option (step S' R').
  Variable fs : S' -> S.
  Variable fr : R' -> R.
  Variable P : S' -> Prop.
  Hypothesis Hstep : forall s, P s -> to_opt (body (fs s)) = option_map (map_step fs fr) (mstep s).
  Hypothesis Hinv : forall s t, P s -> mstep s = Some (Continue t) -> P t.

  Lemma loop_sim : forall fuel s, P s ->
    to_opt (loop fuel body (fs s)) = option_map (map_sum fs fr) (miter mstep fuel s).
  Proof.
    induction fuel as [|f IH]; intros s Hs; [reflexivity|].
    cbn [loop miter]. pose proof (Hstep s Hs) as H1.
    destruct (mstep s) as [[t|t|r]|] eqn:E; cbn [option_map map_step] in H1;
      destruct (body (fs s)) as [[u|u|u]|e]; cbn [to_opt] in H1; try discriminate; inversion H1; subst.
    - apply IH. eapply Hinv; eassumption.
    - reflexivity.
    - reflexivity.
    - reflexivity.
  Qed.
End LoopSim.

(* `for x in l` whose body always continues is a fold *)
Lemma for_in_fold : forall (A S R : Type) (body : A -> S -> res (step S R)) (f : S -> A -> S) (P : S -> Prop),
  (forall x s, P s -> body x s = Val (Continue (f s x)) /\ P (f s x)) ->
  forall l s, P s -> for_in l body s = Val (inl (fold_left f l s)).
Proof.
  intros A S R body f P H. induction l as [|x l IH]; intros s Hs; [reflexivity|].
  cbn [for_in fold_left]. destruct (H x s Hs) as [E Hp]. rewrite E. apply IH. exact Hp.
Qed.

(* ---- bit operations stay inside the word ---- *)
Lemma lxor_range : forall n a b, 0 <= n -> 0 <= a < 2 ^ n -> 0 <= b < 2 ^ n -> 0 <= Z.lxor a b < 2 ^ n.
Proof.
  intros n a b Hn Ha Hb. assert (H0 : 0 <= Z.lxor a b) by (apply Z.lxor_nonneg; split; lia).
  split; [exact H0|].
  destruct (Z.eq_dec (Z.lxor a b) 0) as [E|E]; [rewrite E; apply Z.pow_pos_nonneg; lia|].
  assert (Hn0 : 0 < n).
  { destruct (Z.eq_dec n 0) as [->|]; [|lia]. exfalso. apply E.
    assert (a = 0) by (change (2 ^ 0) with 1 in Ha; lia). assert (b = 0) by (change (2 ^ 0) with 1 in Hb; lia).
    subst. reflexivity. }
  apply Z.log2_lt_pow2; [lia|].
  pose proof (Z.log2_lxor a b ltac:(lia) ltac:(lia)) as Hl.
  assert (Z.log2 a < n) by (destruct (Z.eq_dec a 0) as [->|]; [simpl; lia | apply Z.log2_lt_pow2; lia]).
  assert (Z.log2 b < n) by (destruct (Z.eq_dec b 0) as [->|]; [simpl; lia | apply Z.log2_lt_pow2; lia]).
  lia.
Qed.

Lemma land_of_N : forall a b, Z.land (Z.of_N a) (Z.of_N b) = Z.of_N (N.land a b).
Proof. intros [|a] [|b]; reflexivity. Qed.

Lemma byte_Z_range : forall c, 0 <= byte_Z c < 256.
Proof. intros c. unfold byte_Z. pose proof (Byte.to_N_bounded c). lia. Qed.
