(* R2GStr.v - second part of the run-time vocabulary of the Rust -> Gallina translator (first part: R2G.v):
   strings (`&str`, `String`, `&[u8]` are `list byte`), chars (a `char` is its code point, a Z), integer
   ranges, a richer view of a yarel `Value` for the native functions (what `vm.peek(k)` returns), Display of
   integers, enum discriminants.  DEFINITIONS ONLY (lemmas: R2GStrProofs.v).  Used by gen/PureStr.v, PureScan.v, ...

   Everything here is the MEANING GIVEN TO A RUST STD OPERATION and is therefore part of the trusted base:
   * `&s[b..e]` on a str panics unless b <= e <= len and both are char boundaries  ([str_slice_z]);
   * `s.chars()` is the list of code points of the (valid UTF-8) string             ([str_chars]);
   * `a..b` is the list a, a+1, .., b-1 (empty if b <= a)                           ([z_range]);
   * `char::is_ascii_alphabetic / is_ascii_digit / is_ascii_hexdigit`               ([char_is_ascii_*]);
   * `str::starts_with / ends_with / replace / split` with a `&str` pattern         ([str_starts_with] ...);
   * `{}` of an integer is its decimal rendering                                    ([show_int]). *)
From Coq Require Import ZArith List Bool Ascii String.
From Coq Require Import Strings.Byte Floats.SpecFloat.
From YV Require Import Num Utf8 Show R2G.
Import ListNotations.
Open Scope Z_scope.

(* ---------- a yarel Value as far as the natives look at it ---------- *)
(* the elements of a Vec carry their Display rendering (used in messages) *)
Inductive xvalue : Type :=
| XNone
| XBoolean (b : bool)
| XNumber (n : f64)
| XObjString (s : Z * list byte)            (* (hash, text) *)
| XObjRange (rbegin rend : Z)
| XObjVec (elements : list (xvalue * string))
| XOther (tag : Z).

(* vm.new_gc_obj_string(text): the interned string object; its hash is FNV-1a of the text ++ [0xff]
   (PureEquivIntern.gen_fnv_hash_eq_model ties that to hash.rs) *)
Definition new_obj_string (s : list byte) : Z * list byte := (fnv_hash s, s).

Definition x_try_as_obj_string (v : xvalue) : option (Z * list byte) :=
  match v with XObjString s => Some s | _ => None end.
Definition x_try_as_number (v : xvalue) : option f64 :=
  match v with XNumber n => Some n | _ => None end.
Definition x_try_as_obj_vec (v : xvalue) : option (list (xvalue * string)) :=
  match v with XObjVec l => Some l | _ => None end.
Definition x_try_into_bool (v : xvalue) : option bool :=
  match v with XBoolean b => Some b | _ => None end.

(* ---------- Display of integers ---------- *)
Definition show_int (z : Z) : string := show_Z z.

(* ---------- integer ranges ---------- *)
Definition z_range (a b : Z) : list Z := map (fun i => a + Z.of_nat i) (seq 0 (Z.to_nat (b - a))).

(* ---------- strings ---------- *)
Definition str_is_empty (s : list byte) : bool := match s with [] => true | _ => false end.

(* &s[b..e] *)
Definition str_slice_z (s : list byte) (b e : Z) : res (list byte) :=
  if (0 <=? b) && (b <=? e) && (e <=? list_len s) && str_is_char_boundary s b && str_is_char_boundary s e
  then Val (firstn (Z.to_nat (e - b)) (skipn (Z.to_nat b) s))
  else Fault OutOfBounds.

(* s.chars(): code points *)
Definition str_chars (s : list byte) : list Z := map Z.of_N (code_points s).

Definition char_is_ascii_alphabetic (c : Z) : bool := ((65 <=? c) && (c <=? 90)) || ((97 <=? c) && (c <=? 122)).
Definition char_is_ascii_digit (c : Z) : bool := (48 <=? c) && (c <=? 57).
Definition char_is_ascii_hexdigit (c : Z) : bool :=
  char_is_ascii_digit c || ((65 <=? c) && (c <=? 70)) || ((97 <=? c) && (c <=? 102)).

(* a string literal of the Rust source as bytes (the literals of the translated functions are ASCII) *)
Definition str_lit (s : string) : list byte := list_byte_of_string s.

Fixpoint str_starts_with (s p : list byte) : bool :=
  match p, s with
  | [], _ => true
  | x :: p', y :: s' => Byte.eqb x y && str_starts_with s' p'
  | _ :: _, [] => false
  end.
Definition str_ends_with (s p : list byte) : bool := str_starts_with (rev s) (rev p).

(* str::replace(old, new): leftmost, non-overlapping; old = "" is outside what the natives pass *)
Fixpoint str_replace_go (old new s : list byte) (skip : nat) : list byte :=
  match s with
  | [] => []
  | b :: r =>
    match skip with
    | S k => str_replace_go old new r k
    | O => if str_starts_with s old then new ++ str_replace_go old new r (List.length old - 1)
           else b :: str_replace_go old new r 0
    end
  end.
Definition str_replace (s old new : list byte) : list byte := str_replace_go old new s 0.

(* ---------- enum discriminants (`Kind as usize`): declaration order ---------- *)
Fixpoint enum_index (names : list string) (x : string) (i : Z) : Z :=
  match names with
  | [] => -1
  | n :: r => if String.eqb n x then i else enum_index r x (i + 1)
  end.

(* ---------- Vec ---------- *)
(* v.iter().enumerate() *)
Definition enumerate_z {A : Type} (l : list A) : list (Z * A) := combine (z_range 0 (list_len l)) l.
(* v.pop(): the last element (None on an empty Vec) and the shortened Vec *)
Definition list_pop {A : Type} (l : list A) : option A * list A :=
  match rev l with
  | [] => (None, l)
  | x :: r => (Some x, rev r)
  end.

(* ---------- effects of a VM routine on the value stack, in program order ---------- *)
Inductive stack_fx : Type :=
| FxPop
| FxPoke (k : Z) (v : xvalue)        (* self.poke(k, v): overwrite the slot k below the CURRENT top *)
| FxPush (v : xvalue).
