(* R2GStrProofs.v - lemmas about the second part of the translator's vocabulary (R2GStr.v): ranges are [seq],
   [for_in] over a range, slices, the char classifiers and the std string functions agree with the
   definitions used by the hand models (Utf8.v, StrFns.v). *)
From Coq Require Import ZArith NArith List Bool Arith Lia.
From Coq Require Import Strings.Byte.
From YV Require Import Num Utf8 Show StrFns R2G R2GProofs R2GStr.
Import ListNotations.
Open Scope Z_scope.

(* ---- ranges ---- *)
Lemma seq_map_add : forall a n, seq a n = map (fun i => (a + i)%nat) (seq 0 n).
Proof.
  intros a n. revert a. induction n as [|n IH]; intros a; [reflexivity|].
  cbn [seq map]. f_equal; [lia|]. rewrite (IH (S a)). rewrite <- seq_shift, map_map.
  apply map_ext. intros i. lia.
Qed.

Lemma z_range_seq : forall a b : nat, z_range (Z.of_nat a) (Z.of_nat b) = map Z.of_nat (seq a (b - a)).
Proof.
  intros a b. unfold z_range.
  replace (Z.to_nat (Z.of_nat b - Z.of_nat a)) with (b - a)%nat by lia.
  rewrite (seq_map_add a), map_map. apply map_ext. intros i. lia.
Qed.

(* `for x in l` over a mapped list *)
Lemma for_in_map : forall (A B S R : Type) (f : A -> B) (body : B -> S -> res (step S R)) l s,
  for_in (map f l) body s = for_in l (fun x => body (f x)) s.
Proof.
  intros A B S R f body. induction l as [|x l IH]; intros s; [reflexivity|].
  cbn [map for_in]. destruct (body (f x) s) as [[s'|s'|r]|e]; try reflexivity. apply IH.
Qed.

(* ---- boundaries, slices ---- *)
Lemma str_is_char_boundary_nat : forall s p, str_is_char_boundary s (Z.of_nat p) = is_char_boundary s p.
Proof.
  intros s p. unfold str_is_char_boundary. destruct (Z.ltb_spec (Z.of_nat p) 0); [lia|].
  rewrite Nat2Z.id. reflexivity.
Qed.

Lemma leb_nat_Z : forall a b : nat, (Z.of_nat a <=? Z.of_nat b) = (a <=? b)%nat.
Proof. intros a b. destruct (Nat.leb_spec a b), (Z.leb_spec (Z.of_nat a) (Z.of_nat b)); try reflexivity; lia. Qed.
Lemma ltb_nat_Z : forall a b : nat, (Z.of_nat a <? Z.of_nat b) = (a <? b)%nat.
Proof. intros a b. destruct (Nat.ltb_spec a b), (Z.ltb_spec (Z.of_nat a) (Z.of_nat b)); try reflexivity; lia. Qed.
Lemma eqb_nat_Z : forall a b : nat, (Z.of_nat a =? Z.of_nat b) = Nat.eqb a b.
Proof. intros a b. destruct (Nat.eqb_spec a b) as [->|H]; [apply Z.eqb_refl | apply Z.eqb_neq; lia]. Qed.

(* the slice of the translator = the slice of the model (StrFns.str_slice); a fault = the model's None *)
Lemma str_slice_z_nat : forall s (b e : nat),
  str_slice_z s (Z.of_nat b) (Z.of_nat e) =
  match StrFns.str_slice s b e with Some t => Val t | None => Fault OutOfBounds end.
Proof.
  intros s b e. unfold str_slice_z, StrFns.str_slice, list_len.
  rewrite !str_is_char_boundary_nat, !leb_nat_Z.
  destruct (Z.leb_spec 0 (Z.of_nat b)); [|lia]. cbn [andb].
  destruct ((b <=? e)%nat && (e <=? length s)%nat && is_char_boundary s b && is_char_boundary s e); [|reflexivity].
  replace (Z.to_nat (Z.of_nat e - Z.of_nat b)) with (e - b)%nat by lia. rewrite Nat2Z.id. reflexivity.
Qed.

(* ---- byte-string equality ---- *)
Lemma str_eqb_bytes_eqb : forall a b, str_eqb a b = bytes_eqb a b.
Proof. induction a as [|x a IH]; destruct b as [|y b]; cbn [str_eqb bytes_eqb]; try reflexivity; rewrite IH; reflexivity. Qed.

(* ---- char classifiers on code points ---- *)
Lemma char_alpha_N : forall c : N, char_is_ascii_alphabetic (Z.of_N c) = cp_is_alpha c.
Proof.
  intros c. unfold char_is_ascii_alphabetic, cp_is_alpha.
  repeat match goal with |- context [(?a <=? ?b)%N] => destruct (N.leb_spec a b) end;
  repeat match goal with |- context [?a <=? ?b] => destruct (Z.leb_spec a b) end; try reflexivity; lia.
Qed.
Lemma char_digit_N : forall c : N, char_is_ascii_digit (Z.of_N c) = cp_is_digit c.
Proof.
  intros c. unfold char_is_ascii_digit, cp_is_digit.
  repeat match goal with |- context [(?a <=? ?b)%N] => destruct (N.leb_spec a b) end;
  repeat match goal with |- context [?a <=? ?b] => destruct (Z.leb_spec a b) end; try reflexivity; lia.
Qed.
Lemma char_hexdigit_N : forall c : N, char_is_ascii_hexdigit (Z.of_N c) = cp_is_hexdigit c.
Proof.
  intros c. unfold char_is_ascii_hexdigit, cp_is_hexdigit. rewrite char_digit_N.
  destruct (cp_is_digit c); [reflexivity|]. cbn [orb].
  repeat match goal with |- context [(?a <=? ?b)%N] => destruct (N.leb_spec a b) end;
  repeat match goal with |- context [?a <=? ?b] => destruct (Z.leb_spec a b) end; try reflexivity; lia.
Qed.

Lemma forallb_str_chars : forall (p : Z -> bool) (q : N -> bool) s,
  (forall c, p (Z.of_N c) = q c) -> forallb p (str_chars s) = forallb q (code_points s).
Proof.
  intros p q s H. unfold str_chars. induction (code_points s) as [|c l IH]; [reflexivity|].
  cbn [map forallb]. rewrite H, IH. reflexivity.
Qed.

(* ---- std string functions ---- *)
Lemma str_starts_with_prefix : forall s p, str_starts_with s p = is_prefix p s.
Proof. intros s p. revert s. induction p as [|x p IH]; destruct s as [|y s]; cbn [str_starts_with is_prefix]; try reflexivity; rewrite IH; reflexivity. Qed.

Lemma str_ends_with_suffix : forall s p, str_ends_with s p = is_suffix p s.
Proof. intros s p. unfold str_ends_with, is_suffix. apply str_starts_with_prefix. Qed.

Lemma str_replace_go_eq : forall old new s k, str_replace_go old new s k = replace_go old new s k.
Proof.
  intros old new. induction s as [|b r IH]; intros k; [reflexivity|].
  cbn [str_replace_go replace_go]. destruct k as [|k]; [|apply IH].
  rewrite str_starts_with_prefix. destruct (is_prefix old (b :: r)); rewrite IH; reflexivity.
Qed.
Lemma str_replace_bytes : forall s old new, str_replace s old new = replace_bytes old new s.
Proof. intros. apply str_replace_go_eq. Qed.

Lemma str_is_empty_nil : forall s, str_is_empty s = match s with [] => true | _ => false end.
Proof. reflexivity. Qed.

(* ---- Vec: enumerate, pop ---- *)
Lemma combine_snoc : forall (A B : Type) (l1 : list A) (l2 : list B) a b, List.length l1 = List.length l2 ->
  combine (l1 ++ [a]) (l2 ++ [b]) = combine l1 l2 ++ [(a, b)].
Proof.
  intros A B. induction l1 as [|x l1 IH]; intros [|y l2] a b H; cbn in *; try discriminate; [reflexivity|].
  f_equal. apply IH. lia.
Qed.

Lemma z_range_0_snoc : forall n : nat, z_range 0 (Z.of_nat (S n)) = z_range 0 (Z.of_nat n) ++ [Z.of_nat n].
Proof.
  intros n. change 0 with (Z.of_nat 0). rewrite !z_range_seq, !Nat.sub_0_r.
  rewrite seq_S, map_app. reflexivity.
Qed.

Lemma z_range_0_length : forall n : nat, List.length (z_range 0 (Z.of_nat n)) = n.
Proof. intros n. change 0 with (Z.of_nat 0). rewrite z_range_seq, map_length, seq_length. lia. Qed.

Lemma enumerate_z_snoc : forall (A : Type) (l : list A) a,
  enumerate_z (l ++ [a]) = enumerate_z l ++ [(list_len l, a)].
Proof.
  intros A l a. unfold enumerate_z, list_len. rewrite app_length. cbn [List.length].
  replace (List.length l + 1)%nat with (S (List.length l)) by lia. rewrite z_range_0_snoc.
  apply combine_snoc. apply z_range_0_length.
Qed.

Lemma list_pop_snoc : forall (A : Type) (l : list A) a, list_pop (l ++ [a]) = (Some a, l).
Proof. intros A l a. unfold list_pop. rewrite rev_app_distr. cbn [rev app]. rewrite rev_involutive. reflexivity. Qed.
Lemma list_pop_nil : forall (A : Type), list_pop (@nil A) = (None, []).
Proof. reflexivity. Qed.
