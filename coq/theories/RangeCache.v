(* RangeCache.v -- the cache of `Vm::build_range` (vm.rs:45 RANGE_CACHE_SIZE, vm.rs:133 range_cache,
   vm.rs:1655-1689).  Definitions only.

     let result = self.range_cache.iter().find(|&(r, _)| r.begin == begin && r.end == end);
     if let Some((range, _)) = result { return range.as_gc(); }          // hit: same box, time stamp NOT refreshed
     let range = Root::new(ObjRange::new(class, begin, end));             // miss: a new rooted box
     if self.range_cache.len() >= RANGE_CACHE_SIZE {
         let stale_pos = ...enumerate().max_by(|a, b| a.1.1.elapsed().cmp(&b.1.1.elapsed())).map(|e| e.0)
                            .expect("Expect to find max given non-empty Vec.");
         self.range_cache[stale_pos] = (range, Instant::now());           // old Root dropped: its count goes to 0
     } else { self.range_cache.push((range, Instant::now())); }

   `Instant`s are modelled by an insertion counter (`tick`): the entry with the largest `elapsed()` is the
   one with the smallest stamp (`max_by` keeps the LAST of equal maxima; stamps are distinct here).  The
   comment in the code says "LRU" but a hit does not refresh the stamp: eviction is first-in first-out.
   The identity of a range is the identity of its box, modelled by a fresh number per miss. *)
From Coq Require Import List ZArith NArith Bool Arith.
Import ListNotations.

Record rentry : Type := mkE { e_begin : Z; e_end : Z; e_id : N; e_stamp : N }.

Record rcache : Type := mkC {
  entries : list rentry;     (* the Vec, in position order *)
  next_box : N;              (* identity of the next box allocated for a range *)
  tick : N;                  (* Instant::now() *)
  panicked : bool            (* `.expect(..)` on an empty Vec (only possible when RANGE_CACHE_SIZE = 0) *)
}.

Definition rc_init : rcache := mkC [] 0 0 false.

Definition key_eqb (b e : Z) (x : rentry) : bool := Z.eqb (e_begin x) b && Z.eqb (e_end x) e.

Definition rc_find (c : rcache) (b e : Z) : option rentry := find (key_eqb b e) (entries c).

(* position of the oldest entry: scan left to right, a later entry replaces the candidate when it is at
   least as old (max_by returns the last maximum) *)
Fixpoint oldest_from (l : list rentry) (i : nat) (best : nat) (best_stamp : N) : nat :=
  match l with
  | [] => best
  | x :: r => if (e_stamp x <=? best_stamp)%N then oldest_from r (S i) i (e_stamp x)
              else oldest_from r (S i) best best_stamp
  end.

Definition oldest_pos (l : list rentry) : option nat :=
  match l with
  | [] => None
  | x :: r => Some (oldest_from r 1 0 (e_stamp x))
  end.

Fixpoint replace_nth {A} (n : nat) (x : A) (l : list A) : list A :=
  match l, n with
  | [], _ => []
  | _ :: r, O => x :: r
  | y :: r, S k => y :: replace_nth k x r
  end.

Section RangeCache.
  Variable SIZE : nat.   (* RANGE_CACHE_SIZE *)

  Definition request (c : rcache) (b e : Z) : N * rcache :=
    match rc_find c b e with
    | Some x => (e_id x, c)
    | None =>
        let x := mkE b e (next_box c) (tick c) in
        if SIZE <=? length (entries c) then
          match oldest_pos (entries c) with
          | Some p => (next_box c, mkC (replace_nth p x (entries c)) (next_box c + 1) (tick c + 1) (panicked c))
          | None => (next_box c, mkC (entries c) (next_box c + 1) (tick c) true)
          end
        else (next_box c, mkC (entries c ++ [x]) (next_box c + 1) (tick c + 1) (panicked c))
    end.

  Fixpoint run_reqs (reqs : list (Z * Z)) (c : rcache) : list N * rcache :=
    match reqs with
    | [] => ([], c)
    | (b, e) :: r =>
        let '(id, c1) := request c b e in
        let '(ids, c2) := run_reqs r c1 in (id :: ids, c2)
    end.
End RangeCache.
